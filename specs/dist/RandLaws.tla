------------------------------ MODULE RandLaws ------------------------------
(* "Rand draws lie in the support and follow the CDF" (property C11) for the  *)
(* laws of stat/distuv, stated at the two levels a specification without reals *)
(* can state it.                                                              *)
(*                                                                            *)
(* Group "variate" - one scripted variate.  math/rand/v2 derives a uniform    *)
(* variate U (Float64), a unit exponential variate E (ExpFloat64) or a        *)
(* standard normal variate Z (NormFloat64) from the words of a Source.  A law  *)
(* whose Rand is the transform of ONE such variate must map it through its own *)
(* distribution function: F(draw) equals the distribution function of the     *)
(* variate at the variate - U itself, 1 - exp(-E), Phi(Z) - or its complement  *)
(* (either orientation is a correct sampler; which one is counted).  The      *)
(* harness scripts the Source with the printed words, lets math/rand/v2 derive *)
(* the variate from the same words and evaluates the printed identities; a    *)
(* Rand that consumes another number of words than the variate is protocol    *)
(* drift, not a violation.                                                    *)
(*                                                                            *)
(* Group "freq" - N draws from a seeded PCG source.  Every draw lies in the   *)
(* closure of the support (printed as exact rationals / infinities; integers  *)
(* for the lattice laws), and the empirical distribution function of the      *)
(* draws is within Eps of the law's CDF at the printed cut points (octiles    *)
(* Quantile(j/8), integers for the lattice laws).  By the Dvoretzky-Kiefer-    *)
(* Wolfowitz inequality a correct sampler violates sup|F_n - F| <= Eps with    *)
(* probability at most 2 exp(-2 N Eps^2); ASSUME DKW below keeps the exponent  *)
(* at 32 or more (probability below 3e-14 per case; quick: N = 20 000, Eps = 0.03), so with the fixed seeds   *)
(* of the check this is a deterministic test that a wrong parameter, a wrong   *)
(* branch or a swapped argument fails by a wide margin.                        *)
(*                                                                            *)
(* Parameter grids reach every branch of the samplers: Gamma with shape < 0.2, *)
(* = 1, in [0.2, 1) and > 1 (Beta, Chi, ChiSquared, F, InverseGamma, StudentsT *)
(* draw through it), Binomial's direct / Poisson-proposal / Cauchy-proposal    *)
(* methods and the P > 1/2 reflection, Poisson below and above Lambda = 10,    *)
(* the Alpha = 1 and Alpha # 1 forms of the alpha-stable sampler.              *)
EXTENDS RatLib, Json

CONSTANTS Group,   \* "freq" | "variate"
          Tier,    \* 0 quick | 1 thorough
          Salt, Emit

VARIABLE par
vars == <<par>>

N == IF Tier = 1 THEN 80000 ELSE 20000
Eps == IF Tier = 1 THEN R(3, 200) ELSE R(3, 100)
\* 2 N Eps^2 >= 32
DKW == 2 * N * Eps[1] * Eps[1] >= 32 * Eps[2] * Eps[2]

Draws == <<"v", "draws">>
Draw == <<"v", "draw", 0>>
Var == <<"v", "var", 0>>
SupportCk(lo, hi, lat) == [id |-> "Rand:support", e |-> Draws, k |-> "support", v |-> V(Zero), tol |-> "exact", lo |-> lo, hi |-> hi, lat |-> lat]
FreqCk(c, p) == [id |-> "Rand:freq", e |-> Draws, k |-> "freq", v |-> V(Eps), tol |-> "exact", c |-> c, p |-> p]
Octiles == [j \in 1 .. 7 |-> FreqCk(M1("Quantile", X(R(j, 8))), M1("CDF", M1("Quantile", X(R(j, 8)))))]
IntCuts(ks) == [i \in DOMAIN ks |-> FreqCk(XI(ks[i]), M1("CDF", XI(ks[i])))]
NInfX == XInf(0 - 1)
PInfX == XInf(1)

(******************************** freq cases *********************************)
\* [t, p, lo, hi, lat, cuts]; lo / hi are expressions
C(t, p, lo, hi) == [t |-> t, p |-> p, lo |-> lo, hi |-> hi, lat |-> 0, cuts |-> Octiles]
L(t, p, lo, hi, ks) == [t |-> t, p |-> p, lo |-> lo, hi |-> hi, lat |-> 1, cuts |-> IntCuts(ks)]
S1 == (Salt % 5) + 1

BetaCases == {C("distuv.Beta", <<a, b>>, XI(0), XI(1)) :
                <<a, b>> \in {<<One, One>>, <<I(2), I(3)>>, <<Half, Half>>, <<I(5), One>>, <<R(1, 10), I(2)>>, <<I(30), I(40)>>,
                              <<R(S1, 2), R(7 - S1, 4)>>}}
GammaShapes == {One, R(1, 8), R(1, 5), Half, I(3), I(50), R(S1, 4)}
GammaCases == {C("distuv.Gamma", <<a, b>>, XI(0), PInfX) : a \in GammaShapes, b \in {One, R(1, 2), I(3)}}
ChiSquaredCases == {C("distuv.ChiSquared", <<k>>, XI(0), PInfX) : k \in {One, I(2), I(3), I(10), R(1, 4), I(S1 + 3)}}
ChiCases == {C("distuv.Chi", <<k>>, XI(0), PInfX) : k \in {One, I(2), I(5), R(1, 4)}}
ExponentialCases == {C("distuv.Exponential", <<r>>, XI(0), PInfX) : r \in {One, R(1, 4), I(3), R(S1, 2)}}
FCases == {C("distuv.F", <<d1, d2>>, XI(0), PInfX) : <<d1, d2>> \in {<<I(2), I(2)>>, <<I(3), I(7)>>, <<I(10), I(4)>>, <<R(1, 4), I(5)>>}}
GumbelCases == {C("distuv.GumbelRight", <<m, b>>, NInfX, PInfX) : <<m, b>> \in {<<Zero, One>>, <<R(0 - 3, 2), I(2)>>, <<I(5), R(1, 4)>>}}
InverseGammaCases == {C("distuv.InverseGamma", <<a, b>>, XI(0), PInfX) : <<a, b>> \in {<<One, One>>, <<I(3), I(2)>>, <<Half, One>>, <<R(1, 8), I(3)>>}}
LaplaceCases == {C("distuv.Laplace", <<m, s>>, NInfX, PInfX) : <<m, s>> \in {<<Zero, One>>, <<I(5), Half>>, <<R(0 - 3, 2), I(3)>>}}
LogNormalCases == {C("distuv.LogNormal", <<m, s>>, XI(0), PInfX) : <<m, s>> \in {<<Zero, One>>, <<R(0 - 1, 2), R(1, 4)>>, <<I(2), Half>>}}
NormalCases == {C("distuv.Normal", <<m, s>>, NInfX, PInfX) : <<m, s>> \in {<<Zero, One>>, <<I(5), I(3)>>, <<R(0 - 3, 2), R(1, 4)>>}}
ParetoCases == {C("distuv.Pareto", <<xm, al>>, X(xm), PInfX) : <<xm, al>> \in {<<One, One>>, <<I(2), I(3)>>, <<Half, Half>>, <<R(S1, 4), R(5, 2)>>}}
StudentsTCases == {C("distuv.StudentsT", <<m, s, nu>>, NInfX, PInfX) :
                     <<m, s, nu>> \in {<<Zero, One, One>>, <<I(5), I(2), I(3)>>, <<R(0 - 3, 2), Half, I(30)>>, <<Zero, One, R(1, 4)>>}}
TriangleCases == {C("distuv.Triangle", <<a, b, c>>, X(a), X(b)) :
                    <<a, b, c>> \in {<<Zero, One, Half>>, <<I(0 - 1), I(3), I(0 - 1)>>, <<Zero, I(2), I(2)>>, <<One, I(4), I(2)>>}}
UniformCases == {C("distuv.Uniform", <<a, b>>, X(a), X(b)) : <<a, b>> \in {<<Zero, One>>, <<I(0 - 1), I(3)>>, <<R(5, 2), R(11, 4)>>}}
WeibullCases == {C("distuv.Weibull", <<k, l>>, XI(0), PInfX) : <<k, l>> \in {<<One, One>>, <<I(2), I(3)>>, <<Half, I(2)>>, <<I(5), R(1, 4)>>}}
\* lattice laws: cut points are integers around the bulk of the law
BernoulliCases == {[t |-> "distuv.Bernoulli", p |-> <<q>>, lo |-> XI(0), hi |-> XI(1), lat |-> 1,
                    cuts |-> << FreqCk(XI(0), X(RSub(One, q))), FreqCk(XI(1), XI(1)), FreqCk(X(Half), X(RSub(One, q))) >>] :
                     q \in {R(1, 4), Half, R(7, 8), Zero, One, R(S1, 8)}}
BinomialCases == {L("distuv.Binomial", <<I(n), q>>, XI(0), XI(n), ks) :
                    <<n, q, ks>> \in {<<5, R(1, 4), <<0, 1, 2, 3>> >>, <<20, R(3, 4), <<12, 14, 15, 16, 18>> >>,
                                      <<24, Half, <<9, 11, 12, 13, 15>> >>,
                                      \* N >= 25, N P < 1: rejection with the Poisson proposal; P > 1/2 is reflected
                                      <<30, R(1, 64), <<0, 1, 2>> >>, <<30, R(63, 64), <<27, 28, 29>> >>, <<25, R(1, 32), <<0, 1, 2>> >>,
                                      \* N >= 25, N P >= 1: rejection with the Cauchy proposal
                                      <<40, Half, <<16, 18, 20, 22, 24>> >>, <<100, R(1, 4), <<19, 22, 25, 28, 31>> >>,
                                      <<1000, R(7, 8), <<860, 868, 875, 882, 890>> >>, <<25, R(1, 16), <<0, 1, 2, 3>> >>}}
PoissonCases == {L("distuv.Poisson", <<l>>, XI(0), PInfX, ks) :
                   <<l, ks>> \in {<<Half, <<0, 1, 2>> >>, <<I(3), <<1, 2, 3, 4, 6>> >>, <<I(9), <<5, 7, 9, 11, 13>> >>,
                                  <<R(39, 4), <<6, 8, 10, 12>> >>,
                                  \* Lambda >= 10: transformed rejection
                                  <<I(10), <<6, 8, 10, 12, 14>> >>, <<I(12), <<8, 10, 12, 14, 16>> >>, <<I(100), <<85, 93, 100, 107, 115>> >>,
                                  <<I(1000), <<960, 980, 1000, 1020, 1040>> >>}}
\* alpha-stable laws have no CDF method.  Beta = 0: symmetric about Mu (half of the draws on each side); Alpha = 1, Beta = 0 is
\* the Cauchy law StudentsT{Mu, C, 1}; Alpha = 2 is the normal law with the standard deviation the object itself reports (its
\* variance 2 C^2 is checked in FitScoreLaws): cut points Mu + StdDev * q with reference probability Phi(q)
UnitNormalCDF(q) == OM1("distuv.Normal", <<V(Zero), V(One)>>, "CDF", X(q))
AlphaStableCases ==
    {[t |-> "distuv.AlphaStable", p |-> <<One, Zero, c, m>>, lo |-> NInfX, hi |-> PInfX, lat |-> 0,
      cuts |-> [j \in 1 .. 7 |-> FreqCk(OM1("distuv.StudentsT", <<V(m), V(c), V(One)>>, "Quantile", X(R(j, 8))), X(R(j, 8)))]] :
        <<c, m>> \in {<<One, Zero>>, <<I(2), I(5)>>}}
    \cup {[t |-> "distuv.AlphaStable", p |-> <<I(2), Zero, c, m>>, lo |-> NInfX, hi |-> PInfX, lat |-> 0,
           cuts |-> [j \in 1 .. 5 |-> LET q == R(j - 3, 2) IN FreqCk(Add(X(m), Mul(M0("StdDev"), X(q))), UnitNormalCDF(q))]] :
             <<c, m>> \in {<<One, Zero>>, <<Half, R(0 - 3, 2)>>}}
    \cup {[t |-> "distuv.AlphaStable", p |-> <<al, Zero, One, m>>, lo |-> NInfX, hi |-> PInfX, lat |-> 0,
           cuts |-> << FreqCk(X(m), X(Half)) >>] : <<al, m>> \in {<<R(3, 2), One>>, <<Half, Zero>>, <<R(1, 4), I(0 - 2)>>}}
    \* skewed laws: finite draws only
    \cup {[t |-> "distuv.AlphaStable", p |-> <<al, be, One, Zero>>, lo |-> NInfX, hi |-> PInfX, lat |-> 0, cuts |-> <<>>] :
             <<al, be>> \in {<<One, Half>>, <<R(3, 2), One>>, <<I(2), I(0 - 1)>>, <<R(3, 4), R(0 - 1, 2)>>}}

FreqCases == BetaCases \cup GammaCases \cup ChiSquaredCases \cup ChiCases \cup ExponentialCases \cup FCases \cup GumbelCases
             \cup InverseGammaCases \cup LaplaceCases \cup LogNormalCases \cup NormalCases \cup ParetoCases \cup StudentsTCases
             \cup TriangleCases \cup UniformCases \cup WeibullCases \cup BernoulliCases \cup BinomialCases \cup PoissonCases
             \cup AlphaStableCases

(******************************* variate cases *******************************)
\* the first word is the one under test; the following ones are consumed only when math/rand/v2 takes the slow path of
\* its ziggurat (then gonum's Rand must take it with the same words)
SlowPathWords == << <<4099, 536870912>>, <<8198, 1073741824>>, <<12297, 7>>, <<16396, 1610612736>>, <<20495, 268435456>>, <<77, 99>> >>
\* uniform: the word hi * 2^32 with hi < 2^21 gives U = hi / 2^21 exactly
UHis == {0, 1, 1048576, 524288, 1572864, 2097151, 790080, 3, 1048577, 1048575} \cup {(Salt * 7919 + 13) % 2097152}
UniformLaws == {[t |-> "distuv.Laplace", p |-> <<m, s>>] : <<m, s>> \in {<<Zero, One>>, <<I(5), Half>>, <<R(0 - 3, 2), I(3)>>}}
               \cup {[t |-> "distuv.Weibull", p |-> <<k, l>>] : <<k, l>> \in {<<One, One>>, <<I(2), I(3)>>, <<Half, I(2)>>}}
\* exponential / normal: any 64-bit word; i = hi mod 256 (128) selects the ziggurat layer, lo the position in it
EHis == {0, 1, 2, 5, 77, 131, 255, 265, 65535} \cup {(Salt * 31 + 7) % 256}
ELos == {1, 1000, 1048576, 1073741824, 2147483647, 0 - 1, 0 - 2147483647, 0 - 5}
ExpLaws == {[t |-> "distuv.Exponential", p |-> <<r>>] : r \in {One, R(1, 4), I(3)}}
           \cup {[t |-> "distuv.Pareto", p |-> <<xm, al>>] : <<xm, al>> \in {<<One, One>>, <<I(2), I(3)>>, <<Half, Half>>}}
           \cup {[t |-> "distuv.GumbelRight", p |-> <<m, b>>] : <<m, b>> \in {<<Zero, One>>, <<R(0 - 3, 2), I(2)>>}}
           \cup {[t |-> "distuv.Gamma", p |-> <<One, b>>] : b \in {One, Half, I(3)}}
           \cup {[t |-> "distuv.ChiSquared", p |-> <<I(2)>>], [t |-> "distuv.Chi", p |-> <<I(2)>>]}
           \cup {[t |-> "distuv.InverseGamma", p |-> <<One, b>>] : b \in {One, I(2)}}
NormalLaws == {[t |-> "distuv.Normal", p |-> <<m, s>>] : <<m, s>> \in {<<Zero, One>>, <<I(5), I(3)>>, <<R(0 - 3, 2), R(1, 4)>>}}
              \cup {[t |-> "distuv.LogNormal", p |-> <<m, s>>] : <<m, s>> \in {<<Zero, One>>, <<R(0 - 1, 2), R(1, 4)>>}}
VariateCases == {[t |-> l.t, p |-> l.p, kind |-> "uniform", words |-> <<hi>>] : l \in UniformLaws, hi \in UHis}
                \cup {[t |-> l.t, p |-> l.p, kind |-> "exp", words |-> <<hi, lo>>] : l \in ExpLaws, hi \in EHis, lo \in ELos}
                \cup {[t |-> l.t, p |-> l.p, kind |-> "normal", words |-> <<hi, lo>>] : l \in NormalLaws, hi \in EHis, lo \in ELos}
\* the two orientations of one identity: alts[1] = the draw is the variate's own quantile, alts[2] = its mirror image
Alts(c) ==
    CASE c.kind = "uniform" ->
           LET u == R(c.words[1], 2097152) IN
           << << Eq("Rand:CDF(draw)=U", M1("CDF", Draw), u, "prob") >>,
              << Eq("Rand:Survival(draw)=U", M1("Survival", Draw), u, "prob") >> >>
      [] c.kind = "exp" ->
           << << Eq("Rand:Survival(draw)=exp(-E)", Div(M1("Survival", Draw), Exp(Neg(Var))), One, "special") >>,
              << Eq("Rand:CDF(draw)=exp(-E)", Div(M1("CDF", Draw), Exp(Neg(Var))), One, "special") >> >>
      [] c.kind = "normal" ->
           << << Eq("Rand:CDF(draw)=Phi(Z)", Sub(M1("CDF", Draw), OM1("distuv.Normal", <<V(Zero), V(One)>>, "CDF", Var)), Zero, "prob") >>,
              << Eq("Rand:Survival(draw)=Phi(Z)", Sub(M1("Survival", Draw), OM1("distuv.Normal", <<V(Zero), V(One)>>, "CDF", Var)), Zero, "prob") >> >>
WordsOf(c) == IF c.kind = "uniform" THEN << <<c.words[1], 0>> >> ELSE << <<c.words[1], c.words[2]>> >> \o SlowPathWords

(*********************************** R1 **************************************)
\* a printed rational expression <<"q", n, d, e>> as a rational (the bounds of the supports are such leaves or infinities)
IsInf(x) == x[1] = "inf"
LeafR(x) == R(x[2], x[3])
FreqThm(c) ==
    /\ DKW
    /\ \A i \in DOMAIN c.p : c.p[i][2] > 0
    \* the support is a non-degenerate interval, the lower end is not +Inf, the upper end not -Inf
    /\ IsInf(c.lo) => c.lo[2] < 0
    /\ IsInf(c.hi) => c.hi[2] > 0
    /\ (~IsInf(c.lo) /\ ~IsInf(c.hi)) => RLt(LeafR(c.lo), LeafR(c.hi))
    /\ c.lat \in {0, 1}
    \* integer cut points of the lattice laws increase and lie in the support
    /\ (c.lat = 1 /\ c.t # "distuv.Bernoulli") =>
          \A i \in DOMAIN c.cuts : /\ i > 1 => c.cuts[i - 1].c[2] < c.cuts[i].c[2]
                                   /\ RLeq(LeafR(c.lo), LeafR(c.cuts[i].c))
                                   /\ IsInf(c.hi) \/ RLeq(LeafR(c.cuts[i].c), LeafR(c.hi))
    \* Bernoulli: the printed reference probabilities are the CDF 1 - P on [0, 1) and 1 at 1
    /\ c.t = "distuv.Bernoulli" => /\ RLeq(Zero, c.p[1]) /\ RLeq(c.p[1], One)
                                   /\ LeafR(c.cuts[1].p) = RSub(One, c.p[1]) /\ LeafR(c.cuts[2].p) = One
VariateThm(c) ==
    /\ Len(WordsOf(c)) >= 1
    /\ c.kind = "uniform" => (c.words[1] >= 0 /\ c.words[1] < 2097152
                              /\ LET u == R(c.words[1], 2097152) IN RLeq(Zero, u) /\ RLt(u, One))
    /\ Len(Alts(c)) = 2

(****************************** the case space *******************************)
Cases == IF Group = "freq" THEN FreqCases ELSE VariateCases
PCGStream(c) == 1 + Salt
Out(c) ==
    IF Group = "freq"
    THEN [obj |-> [t |-> c.t, p |-> [i \in DOMAIN c.p |-> V(c.p[i])]],
          steps |-> << [op |-> "sample", n |-> N, salt |-> PCGStream(c)] >>,
          checks |-> << SupportCk(c.lo, c.hi, c.lat) >> \o c.cuts]
    ELSE [obj |-> [t |-> c.t, p |-> [i \in DOMAIN c.p |-> V(c.p[i])]],
          steps |-> << [op |-> "rand", words |-> WordsOf(c), kind |-> c.kind] >>,
          checks |-> <<>>, alts |-> Alts(c)]

Init == par \in Cases
Next == UNCHANGED par
Spec == Init /\ [][Next]_vars
Theorems == IF Group = "freq" THEN FreqThm(par) ELSE VariateThm(par)
EmitCase == Emit => PrintT(ToJson(Out(par)))
=============================================================================
