SPECIFICATION Spec
CONSTANTS
  Kind = "@KIND@"
  Tier = @TIER@
  Salt = @SALT@
  Emit = @EMIT@
INVARIANTS Theorems EmitCase
CHECK_DEADLOCK FALSE
