---------------------------- MODULE FitScoreLaws ----------------------------
(* "Fit, Score and ConjugateUpdate agree with the likelihood they claim to     *)
(* optimize or differentiate" (property C11), the closed-form entropies and    *)
(* higher moments that RationalLaws does not reach, the alpha-stable law and   *)
(* the statistical distances of stat/distuv -- on exact data.                  *)
(*                                                                            *)
(* Group "fit": integer samples xs with integer weights ws (or no weights =    *)
(* weights of ones = replication, proved below).  The maximum-likelihood       *)
(* estimates are rational (or rational after squaring):                        *)
(*   Normal       Mu = weighted mean, Sigma^2 = weighted POPULATION variance   *)
(*                (the documentation: "uncorrected standard deviation")        *)
(*   Exponential  Rate = 1 / weighted mean                                     *)
(*   Laplace      Mu = a weighted median = a minimiser of Sum w |x - m| (every  *)
(*                point between the lower and the upper weighted median is a    *)
(*                maximiser of the likelihood and is accepted), Scale = the     *)
(*                minimum of Sum w |x - m| / Sum w                              *)
(* SuffStat returns these statistics and the total weight; ConjugateUpdate with *)
(* the prior "the object was fitted to data A with strength |A|" and the        *)
(* sufficient statistics of data B must give the fit to A followed by B.        *)
(* R1: FitThm (variance >= 0, weights = replication, the two medians give the   *)
(* same absolute deviation which no sample point or midpoint improves, pooled   *)
(* mean / variance formulas).                                                  *)
(*                                                                            *)
(* Group "score": Score = gradient of LogProb in the parameters, ScoreInput =  *)
(* d/dx LogProb for Triangle (order a, b, c of NewTriangle), Uniform, Weibull  *)
(* at the points where they are rational, with the documented NaN cases;       *)
(* Exponential's documented Score(0) = ScoreInput(0) = NaN.                    *)
(* Group "entropy": closed forms through exp / log / mathext.Digamma nodes and  *)
(* identities between the methods of one law whose right-hand side is rational  *)
(* (Beta with integer shapes through harmonic numbers, Bernoulli through        *)
(* exp(D H), Chi through the recurrence in K and the moment recurrence          *)
(* E X^(n+2) = (K+n) E X^n, LogNormal through w = Variance/Mean^2 + 1).          *)
(* Group "stable": every method of AlphaStable with its documented NaN / +Inf / *)
(* panic cases.  Group "distance": Bhattacharyya, Hellinger, KullbackLeibler    *)
(* between Normal and Beta pairs: d(p,p) = 0, symmetry, H^2 = 1 - exp(-D_B),    *)
(* and the documented closed forms with rational parts (the logarithm is taken  *)
(* out by an exp node or vanishes).                                            *)
EXTENDS IncFns, Json

CONSTANTS Group, Tier, Salt, Emit

VARIABLE par
vars == <<par>>

SeqOf(S) == LET RECURSIVE Enum(_)
                Enum(T) == IF T = {} THEN <<>> ELSE LET x == CHOOSE y \in T : TRUE IN <<x>> \o Enum(T \ {x})
            IN Enum(S)
Checks(S, F(_)) == LET s == SeqOf(S) IN Flatten([i \in 1 .. Len(s) |-> F(s[i])])
Fld(f) == <<"fld", f>>
EnvAt(name, i) == <<"v", name, i>>
Ms(f, i, x) == <<"ms", f, i, x>>
\* lo <= e <= hi
Within(id, e, lo, hi) == [id |-> id, e |-> e, k |-> "support", v |-> V(Zero), tol |-> "exact", lo |-> X(lo), hi |-> X(hi), lat |-> 0]
Let(name, vals) == [op |-> "let", name |-> name, vals |-> [i \in DOMAIN vals |-> V(vals[i])]]
LetI(name, ints) == Let(name, [i \in DOMAIN ints |-> I(ints[i])])
Call(fn, args, out) == [op |-> "call", fn |-> fn, args |-> args, out |-> out]
VecArg(name) == <<"vec", name>>
NilArg == <<"nil">>
Case(t, p, steps, checks) == [obj |-> [t |-> t, p |-> [i \in DOMAIN p |-> V(p[i])]], steps |-> steps, checks |-> checks]

(********************************** fit **************************************)
Ones(n) == [i \in 1 .. n |-> 1]
TotW(ws) == ISum(ws)
WMean(xs, ws) == R(ISum([i \in DOMAIN xs |-> ws[i] * xs[i]]), TotW(ws))
WVar(xs, ws) == LET m == WMean(xs, ws) IN RDiv(RSum([i \in DOMAIN xs |-> RMul(I(ws[i]), RSq(RSub(I(xs[i]), m)))]), I(TotW(ws)))
RECURSIVE Rep(_, _)
Rep(x, k) == IF k = 0 THEN <<>> ELSE <<x>> \o Rep(x, k - 1)
Replicate(xs, ws) == Flatten([i \in DOMAIN xs |-> Rep(xs[i], ws[i])])
CumLE(xs, ws, v) == ISum([i \in DOMAIN xs |-> IF xs[i] <= v THEN ws[i] ELSE 0])
Vals(xs) == {xs[i] : i \in DOMAIN xs}
MinOf(S) == CHOOSE m \in S : \A y \in S : m <= y
LowerMed(xs, ws) == MinOf({v \in Vals(xs) : 2 * CumLE(xs, ws, v) >= TotW(ws)})
UpperMed(xs, ws) == MinOf({v \in Vals(xs) : 2 * CumLE(xs, ws, v) > TotW(ws)})
AbsDev(xs, ws, m) == RDiv(RSum([i \in DOMAIN xs |-> RMul(I(ws[i]), RAbs(RSub(I(xs[i]), m)))]), I(TotW(ws)))

S3 == Salt % 3
DataSets == { <<1, 2, 3>>, <<3, 1, 2>>, <<1, 2, 3, 4>>, <<4, 2, 3, 1>>, <<2, 2, 7, 1, 9>>, <<5>>, <<6, 1>>, <<1, 1, 1, 8>>,
              <<9, 4, 4, 1, 7, 2>>, <<2 + S3, 9, 1, 5 + (Salt % 4)>> }
SignedSets == { <<0 - 3, 4, 0, 4>>, <<0, 0 - 5, 2>>, <<7, 0 - 7>> }
WeightsFor(n) == { Ones(n), [i \in 1 .. n |-> i], [i \in 1 .. n |-> IF i = 1 THEN 10 ELSE 1], [i \in 1 .. n |-> n + 1 - i],
                   [i \in 1 .. n |-> IF i = n THEN 5 ELSE 2] }
\* <<xs, ws, nil>>: nil = TRUE passes no weights (then ws = ones)
FitData(sets) == {<<xs, Ones(Len(xs)), TRUE>> : xs \in sets} \cup {<<xs, ws, FALSE>> : xs \in sets, ws \in UNION {WeightsFor(Len(ys)) : ys \in sets}}
FitDataOK(sets) == {d \in FitData(sets) : Len(d[1]) = Len(d[2])}
WArg(d) == IF d[3] THEN NilArg ELSE VecArg("w")
DataSteps(d) == << LetI("x", d[1]), LetI("w", d[2]) >>

FitThm(d) ==
    LET xs == d[1]
        ws == d[2]
        lo == LowerMed(xs, ws)
        hi == UpperMed(xs, ws)
        rx == Replicate(xs, ws)
    IN /\ RLeq(Zero, WVar(xs, ws))
       \* integer weights are replication
       /\ WMean(rx, Ones(Len(rx))) = WMean(xs, ws) /\ WVar(rx, Ones(Len(rx))) = WVar(xs, ws)
       /\ LowerMed(rx, Ones(Len(rx))) = lo /\ UpperMed(rx, Ones(Len(rx))) = hi
       \* the medians minimise the mean absolute deviation
       /\ lo <= hi /\ AbsDev(xs, ws, I(lo)) = AbsDev(xs, ws, I(hi))
       /\ \A v \in Vals(xs) : RLeq(AbsDev(xs, ws, I(lo)), AbsDev(xs, ws, I(v)))
       /\ \A u, v \in Vals(xs) : RLeq(AbsDev(xs, ws, I(lo)), AbsDev(xs, ws, R(u + v, 2)))
       /\ AbsDev(xs, ws, R(lo + hi, 2)) = AbsDev(xs, ws, I(lo))

NormalFit(d) ==
    LET xs == d[1]
        ws == d[2]
        n == IF d[3] THEN Len(xs) ELSE TotW(ws)
    IN << Case("distuv.Normal", <<I(77), I(5)>>, DataSteps(d) \o << Call("Fit", <<VecArg("x"), WArg(d)>>, "") >>,
               << Eq("Fit:Mu", Fld("Mu"), WMean(xs, ws), "ops"), Eq("Fit:Sigma^2", Sq(Fld("Sigma")), WVar(xs, ws), "special") >>),
          Case("distuv.Normal", <<I(77), I(5)>>, DataSteps(d) \o << LetI("s", <<0, 0>>), Call("SuffStat", <<VecArg("s"), VecArg("x"), WArg(d)>>, "n") >>,
               << Eq("SuffStat:mean", EnvAt("s", 0), WMean(xs, ws), "ops"), Eq("SuffStat:std^2", Sq(EnvAt("s", 1)), WVar(xs, ws), "special"),
                  Eq("SuffStat:nSamples", EnvAt("n", 0), I(n), "exact"), Eq("NumSuffStat", M0("NumSuffStat"), I(2), "exact"),
                  \* the object is not modified
                  Eq("SuffStat:Mu-unchanged", Fld("Mu"), I(77), "exact"), Eq("SuffStat:Sigma-unchanged", Fld("Sigma"), I(5), "exact") >>) >>
ExponentialFit(d) ==
    LET xs == d[1]
        ws == d[2]
        n == IF d[3] THEN Len(xs) ELSE TotW(ws)
    IN << Case("distuv.Exponential", <<I(77)>>, DataSteps(d) \o << Call("Fit", <<VecArg("x"), WArg(d)>>, "") >>,
               << Eq("Fit:Rate", Fld("Rate"), RInv(WMean(xs, ws)), "ops") >>),
          Case("distuv.Exponential", <<I(77)>>, DataSteps(d) \o << LetI("s", <<0>>), Call("SuffStat", <<VecArg("s"), VecArg("x"), WArg(d)>>, "n") >>,
               << Eq("SuffStat:rate", EnvAt("s", 0), RInv(WMean(xs, ws)), "ops"), Eq("SuffStat:nSamples", EnvAt("n", 0), I(n), "exact"),
                  Eq("NumSuffStat", M0("NumSuffStat"), One, "exact"), Eq("SuffStat:Rate-unchanged", Fld("Rate"), I(77), "exact") >>) >>
LaplaceFit(d) ==
    LET xs == d[1]
        ws == d[2]
        lo == LowerMed(xs, ws)
        hi == UpperMed(xs, ws)
    IN << Case("distuv.Laplace", <<I(77), I(5)>>, DataSteps(d) \o << Call("Fit", <<VecArg("x"), WArg(d)>>, "") >>,
               << Within("Fit:Mu-is-a-weighted-median", Fld("Mu"), I(lo), I(hi)),
                  Eq("Fit:Scale", Fld("Scale"), AbsDev(xs, ws, I(lo)), "ops") >>) >>

\* ConjugateUpdate: prior = fit to A with strength |A|, sufficient statistics of B
SquareVar(xs) == RIsSquare(WVar(xs, Ones(Len(xs))))
PoolSets == {xs \in DataSets \cup SignedSets \cup {<<0, 0, 3, 3>>, <<1, 3>>, <<2, 2, 2, 2>>, <<10, 4, 4, 10, 7, 7>>} : Len(xs) >= 2 /\ SquareVar(xs)}
PoolThm(a, b) ==
    LET ab == a \o b
        na == Len(a)
        nb == Len(b)
        ma == WMean(a, Ones(na))
        mb == WMean(b, Ones(nb))
    IN \* pooled mean and variance (the formula the documentation describes: sample variance + prior variance + cross term)
       /\ WMean(ab, Ones(na + nb)) = RDiv(RAdd(RMul(I(na), ma), RMul(I(nb), mb)), I(na + nb))
       /\ WVar(ab, Ones(na + nb)) = RDiv(RAdd(RAdd(RMul(I(na), WVar(a, Ones(na))), RMul(I(nb), WVar(b, Ones(nb)))),
                                                RDiv(RMul(I(na * nb), RSq(RSub(ma, mb))), I(na + nb))), I(na + nb))
NormalConj(a, b) ==
    LET ab == a \o b
        na == Len(a)
        nb == Len(b)
    IN << Case("distuv.Normal", <<WMean(a, Ones(na)), RSqrt(WVar(a, Ones(na)))>>,
               << Let("s", <<WMean(b, Ones(nb)), RSqrt(WVar(b, Ones(nb)))>>), LetI("prior", <<na, na>>),
                  Call("ConjugateUpdate", <<VecArg("s"), XI(nb), VecArg("prior")>>, "") >>,
               << Eq("ConjugateUpdate:Mu", Fld("Mu"), WMean(ab, Ones(na + nb)), "ops"),
                  Eq("ConjugateUpdate:Sigma^2", Sq(Fld("Sigma")), WVar(ab, Ones(na + nb)), "special"),
                  Eq("ConjugateUpdate:strength[0]", EnvAt("prior", 0), I(na + nb), "exact"),
                  Eq("ConjugateUpdate:strength[1]", EnvAt("prior", 1), I(na + nb), "exact") >>) >>
PosSets == {xs \in DataSets : Len(xs) >= 1}
ExponentialConj(a, b) ==
    LET ab == a \o b
        na == Len(a)
        nb == Len(b)
    IN << Case("distuv.Exponential", <<RInv(WMean(a, Ones(na)))>>,
               << Let("s", <<RInv(WMean(b, Ones(nb)))>>), LetI("prior", <<na>>),
                  Call("ConjugateUpdate", <<VecArg("s"), XI(nb), VecArg("prior")>>, "") >>,
               << Eq("ConjugateUpdate:Rate", Fld("Rate"), RInv(WMean(ab, Ones(na + nb))), "ops"),
                  Eq("ConjugateUpdate:strength", EnvAt("prior", 0), I(na + nb), "exact") >>) >>

FitPars == {[g |-> "fit", law |-> l, d |-> d] : l \in {"normal", "laplace"}, d \in FitDataOK(DataSets \cup SignedSets)}
           \cup {[g |-> "fit", law |-> "exponential", d |-> d] : d \in FitDataOK(DataSets)}
           \cup {[g |-> "conj", law |-> "normal", d |-> <<a, b>>] : a \in PoolSets, b \in PoolSets}
           \cup {[g |-> "conj", law |-> "exponential", d |-> <<a, b>>] : a \in PosSets, b \in PosSets}

(********************************* score *************************************)
\* Triangle(a, b, c), a < c < b: log p = log 2 + log(x-a) - log(b-a) - log(c-a) left of c, log 2 + log(b-x) - log(b-a) - log(b-c) right of it
TriPars == {<<I(0), I(4), I(1)>>, <<I(0 - 1), I(3), I(2)>>, <<R(1, 2), R(5, 2), I(1)>>, <<I(0), I(2 + (Salt % 3)), I(1)>>}
TriScore(p) ==
    LET a == p[1]
        b == p[2]
        c == p[3]
        iba == RInv(RSub(b, a))
        ica == RInv(RSub(c, a))
        ibc == RInv(RSub(b, c))
        left == {RAdd(a, RMul(t, RSub(c, a))) : t \in {R(1, 4), Half, R(7, 8)}}
        right == {RAdd(c, RMul(t, RSub(b, c))) : t \in {R(1, 4), Half, R(7, 8)}}
    IN << Case("distuv.Triangle", p, <<>>,
            Checks(left, LAMBDA x :
              << Eq("Score[a]:x<c", Ms("Score", 0, X(x)), RAdd(RAdd(RNeg(RInv(RSub(x, a))), iba), ica), "special"),
                 Eq("Score[b]:x<c", Ms("Score", 1, X(x)), RNeg(iba), "ops"),
                 Eq("Score[c]:x<c", Ms("Score", 2, X(x)), RNeg(ica), "ops"),
                 Eq("ScoreInput:x<c", M1("ScoreInput", X(x)), RInv(RSub(x, a)), "ops") >>)
            \o Checks(right, LAMBDA x :
              << Eq("Score[a]:x>c", Ms("Score", 0, X(x)), iba, "ops"),
                 Eq("Score[b]:x>c", Ms("Score", 1, X(x)), RSub(RSub(RInv(RSub(b, x)), iba), ibc), "special"),
                 Eq("Score[c]:x>c", Ms("Score", 2, X(x)), ibc, "ops"),
                 Eq("ScoreInput:x>c", M1("ScoreInput", X(x)), RInv(RSub(x, b)), "ops") >>)
            \* at the mode the density is 2/(b-a): the derivatives in a and b exist
            \o << Eq("Score[a]:x=c", Ms("Score", 0, X(c)), iba, "ops"), Eq("Score[b]:x=c", Ms("Score", 1, X(c)), RNeg(iba), "ops") >>
            \* documented: ScoreInput(c) = NaN, ScoreInput(x) = NaN for x not in (a, b)
            \o << IsNaN("ScoreInput(c)", M1("ScoreInput", X(c))), IsNaN("ScoreInput(a)", M1("ScoreInput", X(a))),
                  IsNaN("ScoreInput(b)", M1("ScoreInput", X(b))), IsNaN("ScoreInput:below", M1("ScoreInput", X(RSub(a, One)))),
                  IsNaN("ScoreInput:above", M1("ScoreInput", X(RAdd(b, One)))),
                  Eq("NumParameters", M0("NumParameters"), I(3), "exact"),
                  \* entropy 1/2 + log((b-a)/2); skewness^2 = 2 (a+b-2c)^2 (2a-b-c)^2 (a-2b+c)^2 / (25 (a^2+b^2+c^2-ab-ac-bc)^3)
                  Eq("exp(Entropy-1/2)", Exp(Sub(M0("Entropy"), X(Half))), RMul(Half, RSub(b, a)), "special"),
                  Eq("Skewness^2", Sq(M0("Skewness")),
                     LET n == RMul(RMul(RSub(RAdd(a, b), RMul(I(2), c)), RSub(RSub(RMul(I(2), a), b), c)), RAdd(RSub(a, RMul(I(2), b)), c))
                         q == RSub(RSub(RSub(RAdd(RAdd(RSq(a), RSq(b)), RSq(c)), RMul(a, b)), RMul(a, c)), RMul(b, c))
                     IN RDiv(RMul(I(2), RSq(n)), RMul(I(25), RPow(q, 3))), "special"),
                  \* the sign of the skewness: the long tail is on the side away from the mode
                  SignIs("Skewness:sign", M0("Skewness"), RSign(RSub(RAdd(a, b), RMul(I(2), c)))) >>) >>
\* the third central moment of the triangle law from its raw moments E X^k = 2 (.. ) -- guard of the printed Skewness^2
TriRaw(p, k) ==   \* E X^k = 2 / ((k+1)(k+2)) * ( (b^(k+2) - c^(k+2))/((b-a)(b-c)) - (c^(k+2) - a^(k+2))/((b-a)(c-a)) )
    LET a == p[1]
        b == p[2]
        c == p[3]
    IN RMul(R(2, (k + 1) * (k + 2)),
            RSub(RDiv(RSub(RPow(b, k + 2), RPow(c, k + 2)), RMul(RSub(b, a), RSub(b, c))),
                 RDiv(RSub(RPow(c, k + 2), RPow(a, k + 2)), RMul(RSub(b, a), RSub(c, a)))))
VarRaw(m1, m2) == RSub(m2, RSq(m1))
Mu3Raw(m1, m2, m3) == RAdd(RSub(m3, RMul(I(3), RMul(m1, m2))), RMul(I(2), RPow(m1, 3)))
TriThm(p) ==
    LET a == p[1]
        b == p[2]
        c == p[3]
        m1 == TriRaw(p, 1)
        m2 == TriRaw(p, 2)
        m3 == TriRaw(p, 3)
        n == RMul(RMul(RSub(RAdd(a, b), RMul(I(2), c)), RSub(RSub(RMul(I(2), a), b), c)), RAdd(RSub(a, RMul(I(2), b)), c))
        q == RSub(RSub(RSub(RAdd(RAdd(RSq(a), RSq(b)), RSq(c)), RMul(a, b)), RMul(a, c)), RMul(b, c))
    IN /\ TriRaw(p, 0) = One
       /\ m1 = RDiv(RAdd(RAdd(a, b), c), I(3))
       /\ VarRaw(m1, m2) = RDiv(q, I(18))
       \* skewness^2 = mu3^2 / var^3
       /\ RDiv(RSq(Mu3Raw(m1, m2, m3)), RPow(VarRaw(m1, m2), 3)) = RDiv(RMul(I(2), RSq(n)), RMul(I(25), RPow(q, 3)))
       /\ RSign(Mu3Raw(m1, m2, m3)) = RSign(RSub(RAdd(a, b), RMul(I(2), c)))

UniPars == {<<I(0), I(1)>>, <<I(0 - 1), I(3)>>, <<R(5, 2), R(11, 4)>>, <<I(Salt % 4), I(8)>>}
UniScore(p) ==
    LET a == p[1]
        b == p[2]
        w == RInv(RSub(b, a))
        xs == {RAdd(a, RMul(t, RSub(b, a))) : t \in {R(1, 4), Half, R(7, 8)}}
    IN << Case("distuv.Uniform", p, <<>>,
            Checks(xs, LAMBDA x : << Eq("Score[Min]", Ms("Score", 0, X(x)), w, "ops"), Eq("Score[Max]", Ms("Score", 1, X(x)), RNeg(w), "ops"),
                                     Eq("ScoreInput", M1("ScoreInput", X(x)), Zero, "exact") >>)
            \o << Eq("NumParameters", M0("NumParameters"), I(2), "exact"),
                  Eq("exp(Entropy)", Exp(M0("Entropy")), RSub(b, a), "special") >>) >>

\* Weibull(K, Lambda) at x = Lambda r with y = r^K rational: log p = log K - log L + (K-1) log(x/L) - (x/L)^K
WeibPars == {<<k, l>> : k \in {One, I(2), I(3), Half}, l \in {One, I(2), Half, R((Salt % 5) + 1, 4)}}
WeibArgs(k) == IF k[2] = 1 THEN {Half, One, R(3, 2), I(2)} ELSE {R(1, 4), One, R(9, 4), I(4)}
WeibPow(r, k) == IF k[2] = 1 THEN RPow(r, k[1]) ELSE RSqrt(r)
WeibScore(p) ==
    LET k == p[1]
        l == p[2]
    IN << Case("distuv.Weibull", p, <<>>,
            Checks(WeibArgs(k), LAMBDA r : LET x == RMul(l, r)
                                               y == WeibPow(r, k) IN
              << Eq("Score[Lambda]", Ms("Score", 1, X(x)), RDiv(RMul(k, RSub(y, One)), l), "special"),
                 Eq("ScoreInput", M1("ScoreInput", X(x)), RDiv(RSub(RSub(k, One), RMul(k, y)), x), "special") >>
              \* d/dK = 1/K + log(x/L) (1 - (x/L)^K): at x = L it is 1/K, elsewhere the logarithm is divided out
              \o (IF r = One THEN << Eq("Score[K]:x=Lambda", Ms("Score", 0, X(x)), RInv(k), "special") >>
                  ELSE << Eq("(Score[K]-1/K)/log(x/L)", Div(Sub(Ms("Score", 0, X(x)), X(RInv(k))), Log(X(r))), RSub(One, y), "special") >>))
            \* documented: Score(x) = [NaN, NaN], ScoreInput(x) = NaN for x <= 0
            \o << IsNaN("Score[K](0)", Ms("Score", 0, XI(0))), IsNaN("Score[Lambda](0)", Ms("Score", 1, XI(0))),
                  IsNaN("Score[K]:x<0", Ms("Score", 0, XI(0 - 1))), IsNaN("Score[Lambda]:x<0", Ms("Score", 1, XI(0 - 1))),
                  IsNaN("ScoreInput(0)", M1("ScoreInput", XI(0))), IsNaN("ScoreInput:x<0", M1("ScoreInput", XI(0 - 2))) >>) >>
ExpoScore(p) ==
    << Case("distuv.Exponential", p, <<>>,
            << IsNaN("Score(0)", Ms("Score", 0, XI(0))), IsNaN("ScoreInput(0)", M1("ScoreInput", XI(0))),
               Eq("Score:into-destination", Ms("Score", 0, X(RInv(p[1]))), Zero, "ops") >>) >>
LaplScore(p) ==
    << Case("distuv.Laplace", p, <<>>,
            << IsNaN("Score[Mu](Mu)", Ms("Score", 0, X(p[1]))), Eq("Score[Scale](Mu)", Ms("Score", 1, X(p[1])), RNeg(RInv(p[2])), "ops"),
               IsNaN("ScoreInput(Mu)", M1("ScoreInput", X(p[1]))) >>) >>
ScorePars == {[g |-> "score", law |-> "triangle", d |-> p] : p \in TriPars} \cup {[g |-> "score", law |-> "uniform", d |-> p] : p \in UniPars}
             \cup {[g |-> "score", law |-> "weibull", d |-> p] : p \in WeibPars}
             \cup {[g |-> "score", law |-> "exponential", d |-> <<r>>] : r \in {One, I(3), R(1, 4)}}
             \cup {[g |-> "score", law |-> "laplace", d |-> <<m, s>>] : m \in {Zero, R(0 - 3, 2)}, s \in {One, R(1, 4), I(3)}}

(******************************** entropy ************************************)
UnitN == <<V(Zero), V(One)>>
Digamma(x) == F1("mathext.Digamma", X(x))
EntPars ==
    {[g |-> "entropy", law |-> "normal", d |-> <<m, s>>] : m \in {Zero, I(5)}, s \in {One, Half, I(3), R((Salt % 4) + 1, 4)}}
    \cup {[g |-> "entropy", law |-> "lognormal", d |-> <<m, s>>] : m \in {Zero, One, R(0 - 1, 2)}, s \in {One, Half, R(1, 4)}}
    \cup {[g |-> "entropy", law |-> "gumbel", d |-> <<m, b>>] : m \in {Zero, R(0 - 3, 2)}, b \in {One, Half, I(3)}}
    \cup {[g |-> "entropy", law |-> "beta", d |-> <<I(a), I(b)>>] : a \in 1 .. 5, b \in 1 .. 5}
    \cup {[g |-> "entropy", law |-> "chi", d |-> <<I(k)>>] : k \in 1 .. 8}
    \cup {[g |-> "entropy", law |-> "bernoulli", d |-> <<R(j, 8)>>] : j \in 0 .. 8}
    \cup {[g |-> "entropy", law |-> "binomial", d |-> <<I(n), q>>] : n \in {1, 6}, q \in {Half, R(1, 4)}}
BetaB(a, b) == RInv(BetaK(a, b))                                  \* B(a, b), integers
EntChecks(l, p) ==
    CASE l = "normal" ->
           \* H = 1/2 log(2 pi e Sigma^2) = 1/2 - LogProb(Mu); H(Sigma) - H(1) = log Sigma
           Case("distuv.Normal", p, <<>>,
             << Eq("Entropy+LogProb(Mu)", Add(M0("Entropy"), M1("LogProb", X(p[1]))), Half, "special"),
                Eq("exp(Entropy-UnitNormal.Entropy)", Exp(Sub(M0("Entropy"), OM0("distuv.Normal", UnitN, "Entropy"))), p[2], "special") >>)
      [] l = "lognormal" ->
           \* H = Mu + 1/2 log(2 pi e Sigma^2); density at the median exp(Mu): 1/(Median Sigma sqrt(2 pi))
           Case("distuv.LogNormal", p, <<>>,
             << Eq("Entropy+LogProb(Median)", Add(M0("Entropy"), M1("LogProb", M0("Median"))), Half, "special"),
                Eq("Entropy-Normal(0,Sigma).Entropy", Sub(M0("Entropy"), OM0("distuv.Normal", <<V(Zero), V(p[2])>>, "Entropy")), p[1], "special"),
                \* w = exp(Sigma^2) = Variance/Mean^2 + 1: Skewness^2 = (w+2)^2 (w-1), ExKurtosis = w^4 + 2 w^3 + 3 w^2 - 6
                Eq("Skewness^2/((w+2)^2(w-1))",
                   LET w == Add(Div(M0("Variance"), Sq(M0("Mean"))), XI(1)) IN Div(Sq(M0("Skewness")), Mul(Sq(Add(w, XI(2))), Sub(w, XI(1)))), One, "special"),
                SignIs("Skewness>0", M0("Skewness"), 1),
                Eq("(ExKurtosis+6)/(w^4+2w^3+3w^2)",
                   LET w == Add(Div(M0("Variance"), Sq(M0("Mean"))), XI(1)) IN
                   Div(Add(M0("ExKurtosis"), XI(6)), Add3(Sq(Sq(w)), Mul(XI(2), Mul(w, Sq(w))), Mul(XI(3), Sq(w)))), One, "special") >>)
      [] l = "gumbel" ->
           \* H = log Beta + gamma + 1, Mean = Mu + Beta gamma
           Case("distuv.GumbelRight", p, <<>>,
             << Eq("exp(Entropy-1-(Mean-Mu)/Beta)", Exp(Sub(Sub(M0("Entropy"), XI(1)), Div(Sub(M0("Mean"), X(p[1])), X(p[2])))), p[2], "special"),
                Eq("Entropy(0,1)-1+Digamma(1)", Add(Sub(OM0("distuv.GumbelRight", UnitN, "Entropy"), XI(1)), Digamma(One)), Zero, "coarse") >>)
      [] l = "beta" ->
           \* H = log B(a,b) - (a-1)(psi(a) - psi(a+b)) - (b-1)(psi(b) - psi(a+b)), psi(a+b) - psi(a) = H_(a+b-1) - H_(a-1)
           LET a == p[1][1]
               b == p[2][1]
               r == RAdd(RMul(I(a - 1), RSub(Harm(a + b - 1), Harm(a - 1))), RMul(I(b - 1), RSub(Harm(a + b - 1), Harm(b - 1))))
           IN Case("distuv.Beta", p, <<>>, << Eq("exp(Entropy-r)", Exp(Sub(M0("Entropy"), X(r))), BetaB(a, b), "coarse") >>)
      [] l = "chi" ->
           \* H(K) = lgamma(K/2) + (K - log 2 - (K-1) psi(K/2))/2:  H(K+2) - H(K) - log(K/2) + psi(K/2) = -1/K
           LET k == p[1] IN
           Case("distuv.Chi", p, <<>>,
             << Eq("Entropy(K+2)-Entropy(K)-log(K/2)+Digamma(K/2)",
                   Add(Sub(Sub(OM0("distuv.Chi", <<V(RAdd(k, I(2)))>>, "Entropy"), M0("Entropy")), Log(X(RMul(k, Half)))), Digamma(RMul(k, Half))),
                   RNeg(RInv(k)), "coarse"),
                \* third and fourth central moments from E X^2 = K, E X^3 = (K+1) E X, E X^4 = K (K+2)
                Eq("Skewness*StdDev^3/Mean+2*Variance", Add(Div(Mul(M0("Skewness"), Mul(M0("StdDev"), M0("Variance"))), M0("Mean")), Mul(XI(2), M0("Variance"))), One, "special"),
                Eq("(ExKurtosis+3)*Variance^2-(2K-4)*Mean^2+3*Mean^4",
                   Add(Sub(Mul(Add(M0("ExKurtosis"), XI(3)), Sq(M0("Variance"))), Mul(X(RSub(RMul(I(2), k), I(4))), Sq(M0("Mean")))), Mul(XI(3), Sq(Sq(M0("Mean"))))),
                   RMul(k, RAdd(k, I(2))), "special") >>
             \o (IF k = One THEN << Eq("exp(Entropy-UnitNormal.Entropy):K=1", Exp(Sub(M0("Entropy"), OM0("distuv.Normal", UnitN, "Entropy"))), Half, "special") >>
                 ELSE IF k = I(2) THEN << Eq("Entropy+log(2)/2+Digamma(1)/2:K=2", Add3(M0("Entropy"), Mul(X(Half), Log(XI(2))), Mul(X(Half), Digamma(One))), One, "coarse") >>
                 ELSE <<>>))
      [] l = "bernoulli" ->
           \* exp(8 H) = (8/j)^j (8/(8-j))^(8-j), P = j/8; H = 0 at P = 0, 1
           LET j == p[1][1] * (8 \div p[1][2]) IN
           Case("distuv.Bernoulli", p, <<>>,
             << Eq("NumParameters", M0("NumParameters"), One, "exact") >>
             \o (IF j = 0 \/ j = 8 THEN << Eq("Entropy:certain", M0("Entropy"), Zero, "exact") >>
                 ELSE << Eq("exp(8*Entropy)", Exp(Mul(XI(8), M0("Entropy"))), RMul(RPow(R(8, j), j), RPow(R(8, 8 - j), 8 - j)), "special") >>))
      [] l = "binomial" -> Case("distuv.Binomial", p, <<>>, << Eq("NumParameters", M0("NumParameters"), I(2), "exact") >>)

(********************************* stable ************************************)
StablePars == {[g |-> "stable", law |-> "alphastable", d |-> <<al, be, c, m>>] :
                 al \in {I(2), One, Half, R(3, 2)}, be \in {Zero, Half, I(0 - 1)}, c \in {One, R(1, 4), I(3)}, m \in {Zero, R(0 - 3, 2)}}
StableChecks(p) ==
    LET al == p[1]
        be == p[2]
        c == p[3]
        m == p[4]
    IN Case("distuv.AlphaStable", p, <<>>,
         << Eq("NumParameters", M0("NumParameters"), I(4), "exact") >>
         \o (IF al = I(2) THEN << Eq("ExKurtosis", M0("ExKurtosis"), Zero, "exact"), Eq("Skewness", M0("Skewness"), Zero, "exact"),
                                  Eq("Variance", M0("Variance"), RMul(I(2), RSq(c)), "ops"), Eq("StdDev^2", Sq(M0("StdDev")), RMul(I(2), RSq(c)), "special") >>
             ELSE << IsNaN("ExKurtosis:alpha#2", M0("ExKurtosis")), IsNaN("Skewness:alpha#2", M0("Skewness")),
                     PInf("Variance:alpha#2", M0("Variance")), PInf("StdDev:alpha#2", M0("StdDev")) >>)
         \o (IF RLt(One, al) THEN << Eq("Mean", M0("Mean"), m, "exact") >> ELSE << IsNaN("Mean:alpha<=1", M0("Mean")) >>)
         \o (IF be = Zero THEN << Eq("Median", M0("Median"), m, "exact"), Eq("Mode", M0("Mode"), m, "exact") >>
             ELSE << Panics("Median:beta#0", M0("Median")), Panics("Mode:beta#0", M0("Mode")) >>))

(******************************** distances **********************************)
NObj(p) == <<"distuv.Normal", <<V(p[1]), V(p[2])>> >>
BObj(p) == <<"distuv.Beta", <<V(p[1]), V(p[2])>> >>
Dist(t, f, l, r) == <<"dist", t, f, l, r>>
NormPars == {<<m, s>> : m \in {Zero, I(3), R(0 - 3, 2)}, s \in {One, I(2), Half}} \cup {<<R(Salt % 7, 4), R((Salt % 3) + 1, 2)>>}
BetaIntPars == {<<I(a), I(b)>> : a \in 1 .. 4, b \in 1 .. 4}
DistPars == {[g |-> "distance", law |-> "normal", d |-> <<l, r>>] : l \in NormPars, r \in NormPars}
            \cup {[g |-> "distance", law |-> "beta", d |-> <<l, r>>] : l \in BetaIntPars, r \in BetaIntPars}
NormDist(l, r) ==
    LET ml == l[1]
        sl == l[2]
        mr == r[1]
        sr == r[2]
        d2 == RSq(RSub(ml, mr))
        s == RMul(Half, RAdd(RSq(sl), RSq(sr)))
        bh == Dist("distuv.Bhattacharyya", "DistNormal", NObj(l), NObj(r))
        he == Dist("distuv.Hellinger", "DistNormal", NObj(l), NObj(r))
        kl == Dist("distuv.KullbackLeibler", "DistNormal", NObj(l), NObj(r))
        quad == RDiv(d2, RMul(I(8), s))                         \* (mu_l - mu_r)^2 / (8 s)
    IN Case("mathext", <<>>, <<>>,
         << \* D_B = quad + 1/2 log(s / (sl sr))
            Eq("Bhattacharyya.DistNormal:exp(2(D-quad))", Exp(Mul(XI(2), Sub(bh, X(quad)))), RDiv(s, RMul(sl, sr)), "special"),
            Eq("Bhattacharyya.DistNormal:symmetric", Sub(bh, Dist("distuv.Bhattacharyya", "DistNormal", NObj(r), NObj(l))), Zero, "special"),
            \* H^2 = 1 - exp(-D_B)
            Eq("Hellinger.DistNormal:H^2+exp(-D_B)", Add(Sq(he), Exp(Neg(bh))), One, "special"),
            Eq("Hellinger.DistNormal:((1-H^2)/exp(-quad))^2", Sq(Div(Sub(XI(1), Sq(he)), Exp(X(RNeg(quad))))), RDiv(RMul(sl, sr), s), "special"),
            Eq("Hellinger.DistNormal:symmetric", Sub(he, Dist("distuv.Hellinger", "DistNormal", NObj(r), NObj(l))), Zero, "special"),
            \* KL(l || r) = log(sr/sl) + (sl^2 + d^2)/(2 sr^2) - 1/2
            Eq("KullbackLeibler.DistNormal:exp(KL-rational)",
               Exp(Sub(kl, X(RSub(RDiv(RAdd(RSq(sl), d2), RMul(I(2), RSq(sr))), Half)))), RDiv(sr, sl), "special") >>
         \o (IF l = r THEN << Eq("Bhattacharyya.DistNormal(p,p)", Add(bh, XI(1)), One, "special"), Eq("Hellinger.DistNormal(p,p)^2", Add(Sq(he), XI(1)), One, "special"),
                              Eq("KullbackLeibler.DistNormal(p,p)", Add(kl, XI(1)), One, "special") >>
             ELSE << SignIs("KullbackLeibler.DistNormal>0", kl, 1), SignIs("Bhattacharyya.DistNormal>0", bh, 1), SignIs("Hellinger.DistNormal>0", he, 1) >>)
         \* equal variances: KL = d^2 / (2 sigma^2), no logarithm
         \o (IF sl = sr THEN << Eq("KullbackLeibler.DistNormal:equal-variance", Add(kl, XI(1)), RAdd(RDiv(d2, RMul(I(2), RSq(sr))), One), "special"),
                                Eq("Bhattacharyya.DistNormal:equal-variance", Add(bh, XI(1)), RAdd(quad, One), "special") >> ELSE <<>>))
BetaDist(l, r) ==
    LET al == l[1][1]
        bl == l[2][1]
        ar == r[1][1]
        br == r[2][1]
        bh == Dist("distuv.Bhattacharyya", "DistBeta", BObj(l), BObj(r))
        he == Dist("distuv.Hellinger", "DistBeta", BObj(l), BObj(r))
        kl == Dist("distuv.KullbackLeibler", "DistBeta", BObj(l), BObj(r))
        \* (al-ar)(psi(al) - psi(al+bl)) + (bl-br)(psi(bl) - psi(al+bl)) through harmonic numbers
        ct == RAdd(RMul(I(al - ar), RSub(Harm(al - 1), Harm(al + bl - 1))), RMul(I(bl - br), RSub(Harm(bl - 1), Harm(al + bl - 1))))
    IN Case("mathext", <<>>, <<>>,
         << Eq("Bhattacharyya.DistBeta:symmetric", Sub(bh, Dist("distuv.Bhattacharyya", "DistBeta", BObj(r), BObj(l))), Zero, "special"),
            Eq("Hellinger.DistBeta:H^2+exp(-D_B)", Add(Sq(he), Exp(Neg(bh))), One, "special"),
            Eq("Hellinger.DistBeta:symmetric", Sub(he, Dist("distuv.Hellinger", "DistBeta", BObj(r), BObj(l))), Zero, "special"),
            \* KL(l || r) = log(B(r)/B(l)) + ct
            Eq("KullbackLeibler.DistBeta:exp(KL-ct)", Exp(Sub(kl, X(ct))), RDiv(BetaB(ar, br), BetaB(al, bl)), "coarse") >>
         \o (IF (al + ar) % 2 = 0 /\ (bl + br) % 2 = 0
             THEN << Eq("Bhattacharyya.DistBeta:exp(-2D)", Exp(Mul(XI(0 - 2), bh)),
                        RDiv(RSq(BetaB((al + ar) \div 2, (bl + br) \div 2)), RMul(BetaB(al, bl), BetaB(ar, br))), "special"),
                     Eq("Hellinger.DistBeta:(1-H^2)^2", Sq(Sub(XI(1), Sq(he))),
                        RDiv(RSq(BetaB((al + ar) \div 2, (bl + br) \div 2)), RMul(BetaB(al, bl), BetaB(ar, br))), "special") >>
             ELSE <<>>)
         \o (IF l = r THEN << Eq("Bhattacharyya.DistBeta(p,p)", Add(bh, XI(1)), One, "special"), Eq("Hellinger.DistBeta(p,p)^2", Add(Sq(he), XI(1)), One, "special"),
                              Eq("KullbackLeibler.DistBeta(p,p)", Add(kl, XI(1)), One, "special") >>
             ELSE << SignIs("KullbackLeibler.DistBeta>0", kl, 1), SignIs("Bhattacharyya.DistBeta>0", bh, 1) >>))
\* the Bhattacharyya coefficient is at most 1 (Cauchy-Schwarz): B(mid)^2 <= B(l) B(r); the polynomial integral gives B
BetaDistThm(l, r) ==
    LET al == l[1][1]
        bl == l[2][1]
        ar == r[1][1]
        br == r[2][1]
    IN /\ IBpoly(al, bl, One) = One
       /\ ((al + ar) % 2 = 0 /\ (bl + br) % 2 = 0) =>
             RLeq(RSq(BetaB((al + ar) \div 2, (bl + br) \div 2)), RMul(BetaB(al, bl), BetaB(ar, br)))

(****************************** the case space *******************************)
Pars == CASE Group = "fit" -> FitPars [] Group = "score" -> ScorePars [] Group = "entropy" -> EntPars \cup StablePars
          [] Group = "distance" -> DistPars
Thm(q) == CASE q.g = "fit" -> FitThm(q.d)
            [] q.g = "conj" -> (q.law = "normal" => PoolThm(q.d[1], q.d[2]))
            [] q.g = "score" -> (q.law = "triangle" => TriThm(q.d))
            [] q.g = "distance" -> (q.law = "beta" => BetaDistThm(q.d[1], q.d[2]))
            [] OTHER -> TRUE
\* a parameter setting prints one or more cases
CasesOf(q) ==
    CASE q.g = "fit" -> (CASE q.law = "normal" -> NormalFit(q.d) [] q.law = "exponential" -> ExponentialFit(q.d) [] q.law = "laplace" -> LaplaceFit(q.d))
      [] q.g = "conj" -> (IF q.law = "normal" THEN NormalConj(q.d[1], q.d[2]) ELSE ExponentialConj(q.d[1], q.d[2]))
      [] q.g = "score" -> (CASE q.law = "triangle" -> TriScore(q.d) [] q.law = "uniform" -> UniScore(q.d) [] q.law = "weibull" -> WeibScore(q.d)
                             [] q.law = "exponential" -> ExpoScore(q.d) [] q.law = "laplace" -> LaplScore(q.d))
      [] q.g = "entropy" -> << EntChecks(q.law, q.d) >>
      [] q.g = "stable" -> << StableChecks(q.d) >>
      [] q.g = "distance" -> << IF q.law = "normal" THEN NormDist(q.d[1], q.d[2]) ELSE BetaDist(q.d[1], q.d[2]) >>

Init == par \in Pars
Next == UNCHANGED par
Spec == Init /\ [][Next]_vars
Theorems == Thm(par)
EmitCase == Emit => \A i \in DOMAIN CasesOf(par) : PrintT(ToJson(CasesOf(par)[i]))
=============================================================================
