SPECIFICATION Spec
CONSTANTS
  Group = "@GROUP@"
  Tier = @TIER@
  Salt = @SALT@
  Emit = @EMIT@
INVARIANTS Theorems EmitCase
CHECK_DEADLOCK FALSE
