SPECIFICATION Spec
CONSTANTS
  N = @N@
  W = @W@
  Kind = "@KIND@"
  Emit = @EMIT@
  Salt = @SALT@
  NAll = @NALL@
INVARIANTS TypeOK HeapInv TotalOK Measure DescentsAgree LawOK DrainOK HeapIsFunctionOfWeights EmitState
PROPERTIES PanicLeavesUnchanged TakeExact SupportShrinks
VIEW View
CHECK_DEADLOCK FALSE
