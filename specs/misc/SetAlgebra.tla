----------------------------- MODULE SetAlgebra -----------------------------
(* graph/internal/set: the map-backed sets of gonum's graph packages          *)
(*   Ints[T]  (T ~int | ~int64): Add, Has, Remove, Count, IntsEqual           *)
(*   Nodes    (keyed by node id): Add, Has, Remove, Count, Equal, CloneNodes, *)
(*            UnionOfNodes, IntersectionOfNodes                               *)
(* as a register machine over a heap of finite sets.  A set value is a        *)
(* REFERENCE (a Go map): two registers may hold the same set, and the source  *)
(* has special cases for exactly that (`same(a, b)`), so the model keeps the  *)
(* heap explicit: reg[r] is a cell number (0 = the nil map, a legal empty     *)
(* read-only set), heap[c] the content of cell c.                             *)
(*                                                                            *)
(* A Nodes set stores node VALUES under their ids.  When both operands of a   *)
(* union / intersection hold a node with the same id the documentation does   *)
(* not say which value is kept, so a content maps each id to the SET of node  *)
(* values (tags) that may legally be stored there; the harness accepts any of *)
(* them and nothing else.                                                     *)
(*                                                                            *)
(* Results of CloneNodes / UnionOfNodes / IntersectionOfNodes are NEW sets    *)
(* ("returns a clone", "effectively a copy operation"): the model allocates a *)
(* fresh cell, so later mutation of the result must not show in an operand    *)
(* and vice versa - also when the two operands are the same set, which is the *)
(* case the source treats separately.                                         *)
(*                                                                            *)
(* Families (constant Fam):                                                   *)
(*   "binop"  every pair of operand sets A, B over a 4-element universe in    *)
(*            every sharing pattern (two sets / the same set / nil operands), *)
(*            r3 := Union or Intersection, then every element is toggled in   *)
(*            the result and then in the first operand, with the contents of  *)
(*            ALL registers, Count, Has and the Equal matrix after each step  *)
(*   "clone"  the same for CloneNodes                                         *)
(*   "hist"   every history of Depth calls of make / alias / Add / Remove on   *)
(*            two registers over a 2-element universe (Ints and Nodes)        *)
EXTENDS Integers, Sequences, FiniteSets, TLC, Json

CONSTANTS Fam, Depth, Emit

U == IF Fam = "hist" THEN 1 .. 2 ELSE 1 .. 4
NReg == IF Fam = "hist" THEN 2 ELSE 3

VARIABLES heap,     \* sequence of contents; a content is a function  ids -> set of allowed tags
          reg,      \* register -> cell (0 = nil map)
          h,        \* history of calls with the snapshot after each
          init0     \* the initial snapshot

vars == <<heap, reg, h, init0>>

Ids(c) == DOMAIN c
Empty == [x \in {} |-> {}]
Put(c, id, tags) == [x \in Ids(c) \cup {id} |-> IF x = id THEN tags ELSE c[x]]
Del(c, id) == [x \in Ids(c) \ {id} |-> c[x]]
UnionC(a, b) == [x \in Ids(a) \cup Ids(b) |-> (IF x \in Ids(a) THEN a[x] ELSE {}) \cup (IF x \in Ids(b) THEN b[x] ELSE {})]
InterC(a, b) == [x \in Ids(a) \cap Ids(b) |-> a[x] \cup b[x]]
Tagged(S, t) == [x \in S |-> {t}]

Cont(hp, rg, r) == IF rg[r] = 0 THEN Empty ELSE hp[rg[r]]

\* what the harness compares after every step
Snapshot(hp, rg) ==
    [regs |-> [r \in 1 .. NReg |-> [nil |-> rg[r] = 0,
                                    cell |-> rg[r],
                                    ids |-> {<<x, Cont(hp, rg, r)[x]>> : x \in Ids(Cont(hp, rg, r))}]],
     eq |-> [r \in 1 .. NReg |-> [t \in 1 .. NReg |-> Ids(Cont(hp, rg, r)) = Ids(Cont(hp, rg, t))]]]

\* one call.  c: [op, d, a, b, id, tag]
Do(c, hp, rg) ==
    CASE c.op = "add"    -> [heap |-> [hp EXCEPT ![rg[c.d]] = Put(@, c.id, {c.tag})], reg |-> rg]
      [] c.op = "remove" -> [heap |-> IF rg[c.d] = 0 THEN hp ELSE [hp EXCEPT ![rg[c.d]] = Del(@, c.id)], reg |-> rg]
      [] c.op = "make"   -> [heap |-> Append(hp, Empty), reg |-> [rg EXCEPT ![c.d] = Len(hp) + 1]]
      [] c.op = "alias"  -> [heap |-> hp, reg |-> [rg EXCEPT ![c.d] = rg[c.a]]]
      [] c.op = "clone"  -> [heap |-> Append(hp, Cont(hp, rg, c.a)), reg |-> [rg EXCEPT ![c.d] = Len(hp) + 1]]
      [] c.op = "union"  -> [heap |-> Append(hp, UnionC(Cont(hp, rg, c.a), Cont(hp, rg, c.b))), reg |-> [rg EXCEPT ![c.d] = Len(hp) + 1]]
      [] c.op = "inter"  -> [heap |-> Append(hp, InterC(Cont(hp, rg, c.a), Cont(hp, rg, c.b))), reg |-> [rg EXCEPT ![c.d] = Len(hp) + 1]]
Enabled(c, rg) == c.op = "add" => rg[c.d] # 0        \* writing to a nil map is Go's panic, not gonum's business

Call(op, d, a, b, id, tag) == [op |-> op, d |-> d, a |-> a, b |-> b, id |-> id, tag |-> tag]

Step(c) == /\ Enabled(c, reg)
           /\ LET r == Do(c, heap, reg) IN
              /\ heap' = r.heap /\ reg' = r.reg
              /\ h' = Append(h, [c |-> c, post |-> Snapshot(r.heap, r.reg)])
           /\ UNCHANGED init0

(* ---- scripted families: the k-th call is a function of the state ---- *)
Toggle(r, e, k) == IF e \in Ids(Cont(heap, reg, r)) THEN Call("remove", r, 0, 0, e, 0) ELSE Call("add", r, 0, 0, e, 100 + k)
BinScript(k, op) ==      \* k = Len(h) + 1
    IF k = 1 THEN Call(op, 3, 1, 2, 0, 0)
    ELSE IF k <= 5 THEN Toggle(3, k - 1, k)
    ELSE Toggle(1, k - 5, k)
CloneScript(k) ==
    IF k = 1 THEN Call("clone", 2, 1, 0, 0, 0)
    ELSE IF k <= 5 THEN Toggle(2, k - 1, k)
    ELSE Toggle(1, k - 5, k)

HistCalls ==
    {Call("make", d, 0, 0, 0, 0) : d \in 1 .. 2} \cup {Call("alias", d, 3 - d, 0, 0, 0) : d \in 1 .. 2}
    \cup {Call("add", d, 0, 0, e, 100 + Len(h) + 1) : d \in 1 .. 2, e \in U}
    \cup {Call("remove", d, 0, 0, e, 0) : d \in 1 .. 2, e \in U}

VARIABLE opk    \* the binary operation of a "binop" case
Patterns == {"two", "same", "anil", "bnil", "nilnil"}
InitBin == \E A \in SUBSET U, B \in SUBSET U, p \in Patterns, op \in {"union", "inter"} :
    /\ opk = op
    /\ CASE p = "two"    -> heap = <<Tagged(A, 1), Tagged(B, 2)>> /\ reg = <<1, 2, 0>>
         [] p = "same"   -> B = {} /\ heap = <<Tagged(A, 1)>> /\ reg = <<1, 1, 0>>
         [] p = "anil"   -> A = {} /\ heap = <<Tagged(B, 2)>> /\ reg = <<0, 1, 0>>
         [] p = "bnil"   -> B = {} /\ heap = <<Tagged(A, 1)>> /\ reg = <<1, 0, 0>>
         [] p = "nilnil" -> A = {} /\ B = {} /\ heap = <<>> /\ reg = <<0, 0, 0>>
InitClone == /\ opk = "clone"
             /\ \/ \E A \in SUBSET U : heap = <<Tagged(A, 1)>> /\ reg = <<1, 0, 0>>
                \/ heap = <<>> /\ reg = <<0, 0, 0>>
InitHist == opk = "hist" /\ heap = <<>> /\ reg = <<0, 0>>

Init == /\ CASE Fam = "binop" -> InitBin [] Fam = "clone" -> InitClone [] Fam = "hist" -> InitHist
        /\ h = <<>> /\ init0 = Snapshot(heap, reg)

Len1 == Len(h) + 1
ScriptLen == IF reg[1] = 0 THEN 5 ELSE 9          \* a nil first operand cannot be written to
Next == /\ UNCHANGED opk
        /\ CASE Fam = "binop" -> Len(h) < ScriptLen /\ Step(BinScript(Len1, opk))
             [] Fam = "clone" -> Len(h) < ScriptLen /\ Step(CloneScript(Len1))
             [] Fam = "hist"  -> Len(h) < Depth /\ \E c \in HistCalls : Step(c)
Spec == Init /\ [][Next]_<<vars, opk>>

Done == IF Fam = "hist" THEN Len(h) = Depth ELSE Len(h) = ScriptLen
EmitOK == (Emit /\ Done) => PrintT(ToJson([fam |-> Fam, init |-> init0, h |-> h]))

(* ---- R1 ---- *)
\* a call never changes a cell that none of its written registers refers to, and the results of
\* clone / union / inter live in a cell no older register refers to
Fresh == \A i \in DOMAIN h : h[i].c.op \in {"clone", "union", "inter", "make"} =>
            LET pre == IF i = 1 THEN init0 ELSE h[i - 1].post
                post == h[i].post
            IN /\ \A r \in 1 .. NReg : pre.regs[r].cell # post.regs[h[i].c.d].cell \/ pre.regs[r].cell = 0
               /\ \A r \in 1 .. NReg \ {h[i].c.d} : post.regs[r] = pre.regs[r]        \* operands unchanged
\* registers sharing a cell always show the same content; writing through one shows through the other
Sharing == \A r, t \in 1 .. NReg : (reg[r] = reg[t]) => Cont(heap, reg, r) = Cont(heap, reg, t)

\* the algebra, on the id level, and where the stored values may come from
Laws == \A A \in SUBSET (1 .. 3), B \in SUBSET (1 .. 3) :
    LET a == Tagged(A, 1) b == Tagged(B, 2) IN
    /\ Ids(UnionC(a, b)) = A \cup B /\ Ids(InterC(a, b)) = A \cap B
    /\ Ids(UnionC(a, a)) = A /\ Ids(InterC(a, a)) = A
    /\ UnionC(a, a) = a /\ InterC(a, a) = a                                   \* same set: a plain copy
    /\ \A x \in A \cup B : UnionC(a, b)[x] \subseteq {1, 2} /\ (x \notin B => UnionC(a, b)[x] = {1}) /\ (x \notin A => UnionC(a, b)[x] = {2})
    /\ \A C \in SUBSET (1 .. 3) : LET c == Tagged(C, 3) IN
         /\ Ids(UnionC(a, InterC(b, c))) = Ids(InterC(UnionC(a, b), UnionC(a, c)))
         /\ Ids(InterC(a, UnionC(b, c))) = Ids(UnionC(InterC(a, b), InterC(a, c)))
\* the source's way of computing them is one of the allowed results:
\*   union: copy a, then store every element of b (b's value wins);
\*   intersection: walk the SMALLER operand (a on a tie) and keep what the other one has too
ImplUnion(a, b) == [x \in Ids(a) \cup Ids(b) |-> IF x \in Ids(b) THEN b[x] ELSE a[x]]
ImplInter(a, b) == LET s == IF Cardinality(Ids(a)) > Cardinality(Ids(b)) THEN b ELSE a
                       o == IF Cardinality(Ids(a)) > Cardinality(Ids(b)) THEN a ELSE b
                   IN [x \in {y \in Ids(s) : y \in Ids(o)} |-> s[x]]
Within(c, d) == Ids(c) = Ids(d) /\ \A x \in Ids(c) : c[x] \subseteq d[x]
ImplLemma == \A A \in SUBSET (1 .. 3), B \in SUBSET (1 .. 3) :
    LET a == Tagged(A, 1) b == Tagged(B, 2) IN
    Within(ImplUnion(a, b), UnionC(a, b)) /\ Within(ImplInter(a, b), InterC(a, b))
ASSUME Laws /\ ImplLemma
=============================================================================
