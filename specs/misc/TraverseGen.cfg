SPECIFICATION Spec
CONSTANTS
  Directed = @DIRECTED@
  NMin = @NMIN@
  NMax = @NMAX@
  MaxT = @MAXT@
  Salt = @SALT@
  Shard = @SHARD@
  NShards = @NSHARDS@
INVARIANTS Emit
CHECK_DEADLOCK FALSE
