----------------------------- MODULE Spatial23 ------------------------------
(* gonum's spatial/r2 and spatial/r3 beyond the element-wise vector helpers    *)
(* (which SlicePrims.tla of C08 already states): norms and angles on           *)
(* Pythagorean data, rotations of the square / cube groups, bounding boxes,    *)
(* triangles, the 3x3 matrix type and the finite-difference operators, all     *)
(* from their definitions over exact rationals (X03Rat).                       *)
(*                                                                             *)
(* A vector is a sequence of 2 or 3 rationals.  Everything the module cannot   *)
(* name exactly (the norm of a non-Pythagorean vector) is UNK and is not       *)
(* compared.                                                                   *)
(*                                                                             *)
(* R1 (ASSUME, evaluated by TLC over the grids): VecLaws (cross product        *)
(* antisymmetric and orthogonal, Lagrange identity), RotLaws (the rotation     *)
(* table is a table of rotations: c^2 + s^2 = 1; rotations keep dot products,  *)
(* compose additively in the angle, k = 0 is the identity), BoxLaws (union is  *)
(* commutative, idempotent, associative and monotone on non-empty boxes, Canon *)
(* is idempotent, translation and union commute), TriLaws (area is invariant   *)
(* under vertex permutations and translations, the centroid is equivariant),   *)
(* DiffLaws (central differences are exact on quadratic fields).               *)
(* Each law is evaluated in the run of the mode that uses it.                  *)
(* R2: one JSON record per case.                                               *)
EXTENDS X03Rat, Json

CONSTANTS Mode       \* "vec", "rot", "box2", "box3", "tri", "mat"

VARIABLE c

(******************************** vectors **********************************)
VI(s) == [i \in 1 .. Len(s) |-> I(s[i])]                    \* integer vector
VAdd(a, b) == [i \in 1 .. Len(a) |-> RAdd(a[i], b[i])]
VSub(a, b) == [i \in 1 .. Len(a) |-> RSub(a[i], b[i])]
VScale(f, a) == [i \in 1 .. Len(a) |-> RMul(f, a[i])]
VMulE(a, b) == [i \in 1 .. Len(a) |-> RMul(a[i], b[i])]
VMinE(a, b) == [i \in 1 .. Len(a) |-> RMin(a[i], b[i])]
VMaxE(a, b) == [i \in 1 .. Len(a) |-> RMax(a[i], b[i])]
RECURSIVE RSum(_)
RSum(s) == IF Len(s) = 0 THEN Zero ELSE RAdd(s[1], RSum(Tail(s)))
Dot(a, b) == RSum(VMulE(a, b))
Norm2(a) == Dot(a, a)
Norm(a) == RSqrt(Norm2(a))                                   \* UNK unless the squared norm is a perfect square
Cross3(p, q) == <<RSub(RMul(p[2], q[3]), RMul(p[3], q[2])), RSub(RMul(p[3], q[1]), RMul(p[1], q[3])), RSub(RMul(p[1], q[2]), RMul(p[2], q[1]))>>
Cross2(p, q) == RSub(RMul(p[1], q[2]), RMul(p[2], q[1]))
L1(a) == RSum([i \in 1 .. Len(a) |-> RAbs(a[i])])
Grid(S, n) == {VI(s) : s \in [1 .. n -> S]}
ZeroV(n) == [i \in 1 .. n |-> Zero]

VecLaws == \A p, q \in Grid(-1 .. 1, 3) :
  /\ Cross3(p, q) = VScale(I(-1), Cross3(q, p))
  /\ Dot(Cross3(p, q), p) = Zero /\ Dot(Cross3(p, q), q) = Zero
  /\ Norm2(Cross3(p, q)) = RSub(RMul(Norm2(p), Norm2(q)), RMul(Dot(p, q), Dot(p, q)))
ASSUME Mode = "vec" => VecLaws

(******************************* rotations *********************************)
\* r2: the rotation by k quarter turns about the centre q
Quarter2(v) == <<RNeg(v[2]), v[1]>>
RECURSIVE QuarterK(_, _)
QuarterK(v, k) == IF k = 0 THEN v ELSE QuarterK(Quarter2(v), k - 1)
Rot2(p, k, q) == VAdd(q, QuarterK(VSub(p, q), k % 4))

\* r3: Rodrigues' formula  v' = v cos + (a x v) sin/|a| + a (a.v)(1 - cos)/|a|^2  with rational cos, sin/|a|
Rodrigues(v, a, cs, sn) == VAdd(VAdd(VScale(cs, v), VScale(sn, Cross3(a, v))), VScale(RMul(Dot(a, v), RDiv(RSub(One, cs), Norm2(a))), a))
\* the rotations of the cube as axis-angle pairs: <<axis, angle as a multiple <<n, d>> of pi, cos, sin/|axis|>>
Sgn == {-1, 1}
FaceAxes == {VI(<<s * l, 0, 0>>) : s \in Sgn, l \in 1 .. 2} \cup {VI(<<0, s * l, 0>>) : s \in Sgn, l \in 1 .. 2} \cup {VI(<<0, 0, s * l>>) : s \in Sgn, l \in 1 .. 2}
VertexAxes == {VI(<<s, t, u>>) : s \in Sgn, t \in Sgn, u \in Sgn}
EdgeAxes == {VI(<<s, t, 0>>) : s \in Sgn, t \in Sgn} \cup {VI(<<s, 0, t>>) : s \in Sgn, t \in Sgn} \cup {VI(<<0, s, t>>) : s \in Sgn, t \in Sgn}
CosQ(k) == <<1, 0, -1, 0>>[(k % 4) + 1]           \* cos(k pi/2)
SinQ(k) == <<0, 1, 0, -1>>[(k % 4) + 1]
Rotations ==
  {<<a, Q(k, 2), I(CosQ(k)), Q(SinQ(k), Abs(a[1][1] + a[2][1] + a[3][1]))>> : a \in FaceAxes, k \in -3 .. 4}
  \cup {<<a, Q(2 * k, 3), IF k % 3 = 0 THEN One ELSE Q(-1, 2), IF k % 3 = 0 THEN Zero ELSE IF k % 3 = 1 THEN Q(1, 2) ELSE Q(-1, 2)>> : a \in VertexAxes, k \in -2 .. 2}
  \cup {<<a, I(k), I(-1), Zero>> : a \in EdgeAxes, k \in {-1, 1}}
Rot3(v, r) == Rodrigues(v, r[1], r[3], r[4])
RotLaws ==
  /\ \A r \in Rotations : RAdd(RMul(r[3], r[3]), RMul(RMul(r[4], r[4]), Norm2(r[1]))) = One
  /\ \A r \in Rotations : \A v, w \in Grid(0 .. 1, 3) : Dot(Rot3(v, r), Rot3(w, r)) = Dot(v, w)
  /\ \A r \in Rotations : Rot3(r[1], r) = r[1]                                      \* the axis is fixed
  /\ \A r, t \in Rotations : (r[1] = t[1] /\ r[1] \in FaceAxes) =>
        \A v \in {VI(<<1, 2, 3>>)} : \E u \in Rotations : u[1] = r[1] /\ Rot3(Rot3(v, r), t) = Rot3(v, u)
  /\ \A p, q \in Grid(-1 .. 1, 2) : \A k \in 0 .. 3 : Norm2(VSub(Rot2(p, k, q), q)) = Norm2(VSub(p, q)) /\ Rot2(p, k + 4, q) = Rot2(p, k, q)
  /\ \A p, q \in Grid(-1 .. 1, 2) : Rot2(Rot2(p, 1, q), 3, q) = p /\ Rot2(p, 0, q) = p
ASSUME Mode = "rot" => RotLaws

(********************************* boxes ***********************************)
\* a box is <<min, max>>
Hull(a, b) == <<VMinE(a[1], b[1]), VMaxE(a[2], b[2])>>
Canon(a) == <<VMinE(a[1], a[2]), VMaxE(a[1], a[2])>>
BEmpty(a) == \E i \in 1 .. Len(a[1]) : RLe(a[2][i], a[1][i])         \* documented: volume zero or a Min component above its Max
WellFormed(a) == \A i \in 1 .. Len(a[1]) : RLe(a[1][i], a[2][i])
Inverted(a) == \E i \in 1 .. Len(a[1]) : RLt(a[2][i], a[1][i])
BSize(a) == VSub(a[2], a[1])
BCenter(a) == VScale(Q(1, 2), VAdd(a[1], a[2]))
BAdd(a, v) == <<VAdd(a[1], v), VAdd(a[2], v)>>
\* scaled about the centre, negative factors count as zero (well-formed boxes)
BScale(a, v) == LET h == VScale(Q(1, 2), VMulE(VMaxE(v, ZeroV(Len(v))), BSize(a))) IN <<VSub(BCenter(a), h), VAdd(BCenter(a), h)>>
Inside(a, v) == \A i \in 1 .. Len(v) : RLe(a[1][i], v[i]) /\ RLe(v[i], a[2][i])
\* "TRUE" / "FALSE" where the documentation decides, "open" for a box without volume that still has points (a segment or a face)
BContains(a, v) == IF ~BEmpty(a) THEN (IF Inside(a, v) THEN "TRUE" ELSE "FALSE")
                   ELSE IF Inverted(a) THEN "FALSE"
                   ELSE IF a[1] = a[2] THEN (IF v = a[1] THEN "TRUE" ELSE "FALSE") ELSE "open"
\* the legal results of Union: the smallest box around two boxes with volume; a box without volume may be ignored
\* (the other operand is returned) or, when it is well formed, be enclosed as well
BUnion(a, b) == IF ~BEmpty(a) /\ ~BEmpty(b) THEN {Hull(a, b)}
                ELSE (IF BEmpty(a) THEN {b} ELSE {}) \cup (IF BEmpty(b) THEN {a} ELSE {})
                     \cup (IF WellFormed(a) /\ WellFormed(b) THEN {Hull(a, b)} ELSE {})
Vertices2(a) == <<a[1], <<a[2][1], a[1][2]>>, a[2], <<a[1][1], a[2][2]>>>>
Vertices3(a) == <<a[1], <<a[2][1], a[1][2], a[1][3]>>, <<a[2][1], a[2][2], a[1][3]>>, <<a[1][1], a[2][2], a[1][3]>>,
                  <<a[1][1], a[1][2], a[2][3]>>, <<a[2][1], a[1][2], a[2][3]>>, a[2], <<a[1][1], a[2][2], a[2][3]>>>>
Boxes(S, n) == {<<lo, hi>> : lo \in Grid(S, n), hi \in Grid(S, n)}
Encloses(a, b) == \A i \in 1 .. Len(a[1]) : RLe(a[1][i], b[1][i]) /\ RLe(b[2][i], a[2][i])
BoxLaws == LET BB == {b \in Boxes(0 .. 2, 2) : ~BEmpty(b)} IN
  /\ \A a, b \in BB : Hull(a, b) = Hull(b, a) /\ Hull(a, a) = a /\ Encloses(Hull(a, b), a) /\ Encloses(Hull(a, b), b)
  /\ \A a, b \in BB : \A d \in {<<VI(<<0, 0>>), VI(<<1, 2>>)>>, <<VI(<<1, 0>>), VI(<<2, 1>>)>>} :
        /\ Hull(Hull(a, b), d) = Hull(a, Hull(b, d))
        /\ Encloses(a, b) => Encloses(Hull(a, d), Hull(b, d))                                 \* monotone
        /\ BAdd(Hull(a, b), d[2]) = Hull(BAdd(a, d[2]), BAdd(b, d[2]))
  /\ \A a \in Boxes(0 .. 2, 2) : Canon(Canon(a)) = Canon(a) /\ WellFormed(Canon(a)) /\ (WellFormed(a) => Canon(a) = a)
  /\ \A a \in BB : BScale(a, VI(<<1, 1>>)) = a /\ BCenter(BScale(a, <<I(2), Q(1, 2)>>)) = BCenter(a)
  /\ \A a \in BB : \A v \in Grid(0 .. 2, 2) : (BContains(a, v) = "TRUE") <=> (Hull(a, <<v, v>>) = a)
ASSUME Mode = "box2" => BoxLaws

(******************************* triangles *********************************)
\* a triangle is <<a, b, c>>
Centroid(t) == VScale(Q(1, 3), VAdd(VAdd(t[1], t[2]), t[3]))
Normal3(t) == Cross3(VSub(t[2], t[1]), VSub(t[3], t[1]))
\* twice the area, squared (no square root needed)
DblAreaSq(t) == IF Len(t[1]) = 2 THEN LET x == Cross2(VSub(t[2], t[1]), VSub(t[3], t[1])) IN RMul(x, x) ELSE Norm2(Normal3(t))
Area(t) == RMul(Q(1, 2), RSqrt(DblAreaSq(t)))
LongestSq(t) == RMax(RMax(Norm2(VSub(t[2], t[1])), Norm2(VSub(t[3], t[2]))), Norm2(VSub(t[1], t[3])))
\* all vertices within tol of the longest side: height^2 = (2 area)^2 / longest^2 <= tol^2; a triangle whose longest side has
\* length 0 is a single point, which is within any distance of itself
Degenerate(t, tol) == LET l2 == LongestSq(t) d == DblAreaSq(t) t2l == RMul(RMul(tol, tol), l2) IN
  IF l2 = Zero THEN "TRUE"
  ELSE IF d = Zero THEN "TRUE"
  ELSE IF RLt(d, t2l) THEN "TRUE" ELSE IF RLt(t2l, d) THEN "FALSE" ELSE "open"       \* equality: rounding decides
Tris(S, n) == {<<a, b, d>> : a \in Grid(S, n), b \in Grid(S, n), d \in Grid(S, n)}
TriLaws == \A t \in Tris(0 .. 1, 2) \cup Tris(0 .. 1, 3) :
  /\ DblAreaSq(<<t[2], t[3], t[1]>>) = DblAreaSq(t) /\ DblAreaSq(<<t[2], t[1], t[3]>>) = DblAreaSq(t)
  /\ LET d == [i \in 1 .. Len(t[1]) |-> I(i)] IN
       /\ DblAreaSq(<<VAdd(t[1], d), VAdd(t[2], d), VAdd(t[3], d)>>) = DblAreaSq(t)
       /\ Centroid(<<VAdd(t[1], d), VAdd(t[2], d), VAdd(t[3], d)>>) = VAdd(Centroid(t), d)
  /\ Len(t[1]) = 3 => (Normal3(<<t[2], t[1], t[3]>>) = VScale(I(-1), Normal3(t))
                       /\ Dot(Normal3(t), VSub(t[2], t[1])) = Zero /\ Dot(Normal3(t), VSub(t[3], t[2])) = Zero)
ASSUME Mode = "tri" => TriLaws

(************************* matrices and fields *****************************)
\* a 3x3 matrix is a sequence of three rows; a scalar quadratic field is <<A (symmetric, as rows), b, c0>>: v'Av + b.v + c0
MulVec(m, v) == [i \in 1 .. 3 |-> Dot(m[i], v)]
Transpose(m) == [i \in 1 .. Len(m[1]) |-> [j \in 1 .. Len(m) |-> m[j][i]]]
MatMul(a, b) == [i \in 1 .. Len(a) |-> [j \in 1 .. Len(b[1]) |-> Dot(a[i], Transpose(b)[j])]]
Field(f, v) == RAdd(RAdd(Dot(v, MulVec(f[1], v)), Dot(f[2], v)), f[3])
FieldGrad(f, v) == VAdd(VScale(I(2), MulVec(f[1], v)), f[2])              \* A symmetric
FieldHess(f) == [i \in 1 .. 3 |-> VScale(I(2), f[1][i])]
E3(i, h) == [j \in 1 .. 3 |-> IF i = j THEN h ELSE Zero]
\* the central difference quotient (f(p + h e_i) - f(p - h e_i)) / (2h)
Central(f, p, i, h) == RDiv(RSub(Field(f, VAdd(p, E3(i, h))), Field(f, VSub(p, E3(i, h)))), RMul(I(2), h))
\* a vector field is three scalar fields
VFieldJac(F, v) == [i \in 1 .. 3 |-> FieldGrad(F[i], v)]
VFieldDiv(F, v) == RSum([i \in 1 .. 3 |-> FieldGrad(F[i], v)[i]])
SymM(a, b, d, e, f, g) == <<VI(<<a, b, d>>), VI(<<b, e, f>>), VI(<<d, f, g>>)>>
Fields == {<<SymM(a, b, 0, e, 1, g), VI(<<l, -1, 2>>), I(k)>> : a \in -1 .. 1, b \in 0 .. 1, e \in {0, 2}, g \in {-1, 1}, l \in 0 .. 1, k \in {3}}
          \cup {<<SymM(0, 0, 0, 0, 0, 0), VI(<<1, 2, 3>>), I(-1)>>, <<SymM(1, 1, 1, 1, 1, 1), VI(<<0, 0, 0>>), Zero>>, <<SymM(0, 1, -1, 0, 2, 0), VI(<<0, 0, 0>>), Zero>>}
Steps == {<<One, One, One>>, <<Q(1, 2), One, I(2)>>, <<I(2), Q(1, 4), Q(1, 2)>>}
DiffPts == {VI(<<0, 0, 0>>), VI(<<1, -2, 3>>), <<Q(1, 2), I(-1), Q(3, 2)>>}
DiffLaws == \A f \in Fields, p \in DiffPts, st \in Steps : \A i \in 1 .. 3 : Central(f, p, i, st[i]) = FieldGrad(f, p)[i]
ASSUME Mode = "mat" => DiffLaws
VFields == {<<f, g, h>> : f \in {x \in Fields : x[3] = Zero}, g \in {x \in Fields : x[3] = I(-1)}, h \in {x \in Fields : x[1][1][1] = I(1) /\ x[2][1] = Zero /\ x[1][2][2] = Zero}}

IntMats == {<<VI(<<1, 2, 3>>), VI(<<4, 5, 6>>), VI(<<7, 8, 10>>)>>, <<VI(<<0, -1, 2>>), VI(<<1, 0, -3>>), VI(<<-2, 3, 0>>)>>,
            <<VI(<<2, 0, 0>>), VI(<<0, -1, 0>>), VI(<<0, 0, 3>>)>>, <<VI(<<1, 1, 1>>), VI(<<1, 1, 1>>), VI(<<1, 1, 1>>)>>}
\* general products a (3 x k) * b (k x 3): the doc comment of Mul says "If the number of columns in a does not equal 3, Mul will
\* panic", the code multiplies whenever the result is 3x3; both are accepted ("open"), but a product that is returned must be right
MulOK(ra, ca, rb, cb) == IF ra = 3 /\ cb = 3 /\ ca = rb THEN (IF ca = 3 THEN "TRUE" ELSE "open") ELSE "FALSE"
Rect(r, k, salt) == [i \in 1 .. r |-> [j \in 1 .. k |-> I(((i * 3 + j * 5 + salt) % 7) - 3)]]

(******************************** the cases ********************************)
Pyth2 == {v \in Grid(-12 .. 12, 2) : IsQ(Norm(v))}
Pyth3 == {v \in Grid(-7 .. 7, 3) : IsQ(Norm(v)) /\ (v[1][1] >= 0 \/ v[2] = Zero)}
CosSet(n) == IF n = 2 THEN {VI(<<3, 4>>), VI(<<-4, 3>>), VI(<<5, 12>>), VI(<<0, 2>>), VI(<<-8, -6>>), VI(<<12, -5>>), VI(<<1, 0>>), VI(<<-3, -4>>)}
             ELSE {VI(<<1, 2, 2>>), VI(<<2, -1, 2>>), VI(<<2, 3, 6>>), VI(<<0, 0, -3>>), VI(<<4, 4, 7>>), VI(<<-1, -2, -2>>), VI(<<0, 3, 4>>), VI(<<6, -2, 3>>)}
VecCases ==
  {[op |-> "norm", v |-> v, norm |-> Norm(v), unit |-> IF v = ZeroV(Len(v)) THEN <<>> ELSE VScale(RInv(Norm(v)), v)] : v \in Pyth2 \cup Pyth3}
  \cup {[op |-> "cos", v |-> p, w |-> q, cos |-> RDiv(Dot(p, q), RMul(Norm(p), Norm(q)))] : p \in CosSet(2), q \in CosSet(2)}
  \cup {[op |-> "cos", v |-> p, w |-> q, cos |-> RDiv(Dot(p, q), RMul(Norm(p), Norm(q)))] : p \in CosSet(3), q \in CosSet(3)}
\* scale = 1 + the sum of the magnitudes of the coordinates involved; results are compared to within 1e-15 * scale, the
\* rounding of cos / sin at multiples of pi/2 and pi/3 (k = 0: no rotation at all, the result is the argument itself)
RotCases ==
  {[op |-> "rot2", v |-> p, q |-> q, alpha |-> Q(k, 2), out |-> Rot2(p, k, q), exact |-> k = 0, scale |-> RAdd(One, RAdd(L1(p), RMul(I(2), L1(q))))]
     : p \in Grid(-2 .. 2, 2), q \in {VI(<<0, 0>>), VI(<<1, 1>>), VI(<<-2, 1>>)}, k \in -4 .. 4}
  \cup {[op |-> "rot3", v |-> p, axis |-> r[1], alpha |-> r[2], out |-> Rot3(p, r), exact |-> r[2] = Zero, scale |-> RAdd(One, L1(p)),
         mat |-> Transpose(<<Rot3(VI(<<1, 0, 0>>), r), Rot3(VI(<<0, 1, 0>>), r), Rot3(VI(<<0, 0, 1>>), r)>>)]
        : p \in Grid(-1 .. 1, 3) \cup {VI(<<3, -2, 1>>)}, r \in Rotations}
BoxCases(n) == LET S == IF n = 2 THEN -1 .. 1 ELSE 0 .. 1
                   VS == Grid(S, n) \cup {[i \in 1 .. n |-> Q(1, 2)], [i \in 1 .. n |-> IF i = 1 THEN I(2) ELSE Q(-1, 2)], [i \in 1 .. n |-> IF i = 2 THEN I(-1) ELSE I(2)]} IN
  {[op |-> "box1", n |-> n, box |-> a, size |-> BSize(a), center |-> BCenter(a), empty |-> BEmpty(a), canon |-> Canon(a),
    vertices |-> IF n = 2 THEN Vertices2(a) ELSE Vertices3(a)] : a \in Boxes(S, n)}
  \cup {[op |-> "boxv", n |-> n, box |-> a, v |-> v, add |-> BAdd(a, v), scale |-> IF WellFormed(a) THEN BScale(a, v) ELSE <<>>,
         contains |-> BContains(a, v)] : a \in Boxes(S, n), v \in VS}
  \cup {[op |-> "box2", n |-> n, box |-> a, other |-> b, union |-> BUnion(a, b)] : a \in Boxes(S, n), b \in Boxes(S, n)}
Tols == {Zero, Q(1, 4), Q(1, 2), Q(3, 4), Q(7, 8), One, Q(5, 4), Q(3, 2), I(2)}
TriCase(t) == [op |-> "tri", n |-> Len(t[1]), t |-> t, centroid |-> Centroid(t), area |-> Area(t), dblareasq |-> DblAreaSq(t), longsq |-> LongestSq(t),
               normal |-> IF Len(t[1]) = 3 THEN Normal3(t) ELSE <<>>,
               degenerate |-> {<<tol, Degenerate(t, tol)>> : tol \in Tols}]
TriCases == {TriCase(t) : t \in Tris(-1 .. 1, 2)} \cup {TriCase(t) : t \in Tris(0 .. 1, 3)}
            \cup {TriCase(t) : t \in {<<VI(<<0, 0>>), VI(<<4, 0>>), VI(<<0, 3>>)>>, <<VI(<<-2, -1>>), VI(<<1, 2>>), VI(<<2, -2>>)>>,
                                     <<VI(<<0, 0, 0>>), VI(<<2, 1, 0>>), VI(<<0, 2, 2>>)>>, <<VI(<<1, 2, 2>>), VI(<<1, 2, 2>>), VI(<<1, 2, 2>>)>>,
                                     <<VI(<<0, 0, 0>>), VI(<<1, 2, 2>>), VI(<<2, 4, 4>>)>>, <<VI(<<3, 0, 0>>), VI(<<0, 4, 0>>), VI(<<0, 0, 12>>)>>}}
MatCases ==
  {[op |-> "fieldgrad", f |-> f, p |-> p, step |-> st, grad |-> FieldGrad(f, p), hess |-> FieldHess(f)] : f \in Fields, p \in DiffPts, st \in Steps}
  \cup {[op |-> "vfield", f |-> F, p |-> p, step |-> st, jac |-> VFieldJac(F, p), div |-> VFieldDiv(F, p)] : F \in VFields, p \in DiffPts, st \in Steps}
  \cup {[op |-> "clone", m |-> m] : m \in IntMats}
  \cup {[op |-> "mulrect", k |-> k, a |-> Rect(3, k, s), b |-> Rect(k, 3, s + 2), out |-> MatMul(Rect(3, k, s), Rect(k, 3, s + 2))] : k \in {1, 2, 4, 5}, s \in 0 .. 2}
  \cup {[op |-> "mulshape", ra |-> ra, ca |-> ca, rb |-> rb, cb |-> cb, ok |-> MulOK(ra, ca, rb, cb)] : ra \in 2 .. 4, ca \in 2 .. 4, rb \in 2 .. 4, cb \in 2 .. 4}
  \cup {[op |-> "zero"], [op |-> "eye", m |-> <<VI(<<1, 0, 0>>), VI(<<0, 1, 0>>), VI(<<0, 0, 1>>)>>]}
  \cup {[op |-> "shape", r |-> r, cc |-> cc, ok |-> r = 3 /\ cc = 3] : r \in 2 .. 4, cc \in 2 .. 4}
  \cup {[op |-> "rowcol", m |-> m, i |-> i, row |-> IF i <= 2 THEN m[i + 1] ELSE <<>>, col |-> IF i <= 2 THEN Transpose(m)[i + 1] ELSE <<>>, ok |-> i <= 2] : m \in IntMats, i \in 0 .. 4}

Cases == CASE Mode = "vec" -> VecCases [] Mode = "rot" -> RotCases [] Mode = "box2" -> BoxCases(2) [] Mode = "box3" -> BoxCases(3)
           [] Mode = "tri" -> TriCases [] Mode = "mat" -> MatCases
Init == c \in Cases
Next == UNCHANGED c
Spec == Init /\ [][Next]_c
Emit == PrintT(ToJson(c))
=============================================================================
