--------------------------- MODULE TraverseTrace ---------------------------
(* R3 (code->spec): accepts an ndjson log of real histories of gonum's        *)
(* traverse.BreadthFirst / traverse.DepthFirst iff every recorded call is     *)
(* allowed by Traverse.tla.  One event = one operation on ONE real walker:    *)
(*   new      a fresh zero-value walker replaces the current one               *)
(*   reset    Reset()                                                         *)
(*   walk     Walk(g, from, until) with its whole callback log, the returned   *)
(*            node and the answers of Visited for every node of the universe   *)
(*            before (pre) and after (seen) the call                           *)
(*   walkall  WalkAll(g, before, after, during), same observation              *)
(* The walker is a state machine with two variables: vis, the set Visited      *)
(* answers true for, and clean, "no walk was cut short by until since the      *)
(* last Reset" (after an early exit the queue / stack still holds work; the    *)
(* documentation offers Reset for reuse, so the recorder never calls Walk on   *)
(* a walker that is not clean, and never starts at a visited node - WalkAll    *)
(* itself uses the walker only that way).  A walk event is accepted iff the    *)
(* recorded pre answers are the model's vis (the state really persists         *)
(* between calls, also across different graphs) and all clauses hold.          *)
EXTENDS Traverse, Json, TLCExt

TraceLog == ndJsonDeserialize("trace.ndjson")

VARIABLES l, vis, clean
tvars == <<l, vis, clean>>

Ev == TraceLog[l]
PairsOf(ps) == {<<ps[i][1], ps[i][2]>> : i \in DOMAIN ps}
EdgeSet(dir, ps) == IF dir THEN PairsOf(ps) ELSE Sym(PairsOf(ps))

WalkCl(e) == WalkClauses(e.alg, e.dir, Rng(e.V), EdgeSet(e.dir, e.E), e.from, Rng(e.T), e.K, EdgeSet(e.dir, e.F),
                         e.hv, e.hu, e.ht, e.log, e.ret, Rng(e.seen), Rng(e.pre))
WalkAllCl(e) == WalkAllClauses(e.alg, Rng(e.V), EdgeSet(FALSE, e.E), EdgeSet(FALSE, e.F),
                               e.hv, e.ht, e.hb, e.ha, e.hd, e.log, Rng(e.seen))
Fired(e) == \E i \in DOMAIN e.log : e.log[i].t = "until" /\ e.log[i].r = 1

Walk == /\ l <= Len(TraceLog) /\ Ev.k = "walk"
        /\ clean /\ Rng(Ev.pre) = vis /\ NoDup(Ev.seen)
        /\ AllTrue(WalkCl(Ev))
        /\ vis' = Rng(Ev.seen) /\ clean' = ~Fired(Ev) /\ l' = l + 1

WalkAll == /\ l <= Len(TraceLog) /\ Ev.k = "walkall"
           /\ Rng(Ev.pre) = vis /\ NoDup(Ev.seen)
           /\ AllTrue(WalkAllCl(Ev))
           /\ vis' = Rng(Ev.seen) /\ clean' = TRUE /\ l' = l + 1

Reset == /\ l <= Len(TraceLog) /\ Ev.k \in {"reset", "new"}
         /\ Ev.seen = <<>>                       \* Visited is false for every node
         /\ vis' = {} /\ clean' = TRUE /\ l' = l + 1

TraceInit == l = 1 /\ vis = {} /\ clean = TRUE
TraceNext == Walk \/ WalkAll \/ Reset
TraceSpec == TraceInit /\ [][TraceNext]_tvars

Accepted ==
    LET d == TLCGet("stats").diameter IN
    IF d - 1 = Len(TraceLog) THEN PrintT("TRACE-ACCEPTED " \o ToString(Len(TraceLog)))
    ELSE LET e == TraceLog[d]
             why == IF e.k = "walk" THEN Failed(WalkCl(e))
                    ELSE IF e.k = "walkall" THEN Failed(WalkAllCl(e)) ELSE {}
         IN /\ PrintT("TRACE-REJECTED at event " \o ToString(d) \o ": failed clauses " \o ToString(why)
                      \o " (none: the walker's state before the call is not the model's) event " \o ToString(e))
            /\ FALSE
=============================================================================
