SPECIFICATION Spec
CONSTANTS
  Mode = "@MODE@"
  Wide = @WIDE@
INVARIANTS Emit
CHECK_DEADLOCK FALSE
