SPECIFICATION Spec
CONSTANTS
  Mode = "@MODE@"
  MaxS = @MAXS@
  Extra = @EXTRA@
  Salt = @SALT@
  PerGraph = @PERGRAPH@
INVARIANT Emit
CHECK_DEADLOCK FALSE
