SPECIFICATION Spec
CONSTANTS
  N = @N@
  Directed = @DIRECTED@
  Alg = "@ALG@"
  Mode = "@MODE@"
  Scope = "@SCOPE@"
  Mutant = @MUTANT@
INVARIANTS Conforms DefsOK
CHECK_DEADLOCK FALSE
