SPECIFICATION TraceSpec
CONSTANTS
  NReg = @NREG@
  Depth = 0
  VS = 0
  Shard = 0
  NShards = 1
  Emit = FALSE
POSTCONDITION Accepted
CHECK_DEADLOCK FALSE
