SPECIFICATION Spec
CONSTANTS
  Mode = "@MODE@"
INVARIANT Emit
CHECK_DEADLOCK FALSE
