SPECIFICATION Spec
CONSTANTS
  NReg = @NREG@
  Depth = @DEPTH@
  VS = @VS@
  Shard = @SHARD@
  NShards = @NSHARDS@
  Emit = @EMIT@
INVARIANTS TypeOK FmtSane EmitState
PROPERTIES OnlyReceiver PanicNoChange
CHECK_DEADLOCK FALSE
