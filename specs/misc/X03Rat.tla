------------------------------- MODULE X03Rat -------------------------------
(* Exact rationals for the X03 specifications (OptFunctions, Spatial23).      *)
(* A number is <<n, d>> with d > 0 in lowest terms, or UNK = <<0, 0>>: a      *)
(* finite real number the module cannot name (an irrational square root, a    *)
(* transcendental value).  0 * UNK = 0; every other operation on UNK is UNK.  *)
(* TLC integers are 32-bit: RAdd and RMul divide by the gcd before they       *)
(* multiply.                                                                  *)
EXTENDS Integers, Sequences, FiniteSets, TLC

Abs(a) == IF a < 0 THEN -a ELSE a
RECURSIVE Gcd(_, _)
Gcd(a, b) == IF b = 0 THEN a ELSE Gcd(b, a % b)
UNK == <<0, 0>>
IsQ(r) == r[2] # 0
Q(n, d) == LET g == Gcd(Abs(n), Abs(d)) s == IF d < 0 THEN -1 ELSE 1 IN <<(s * n) \div g, (s * d) \div g>>
Zero == <<0, 1>>
One == <<1, 1>>
I(n) == <<n, 1>>
RNeg(a) == IF IsQ(a) THEN <<-a[1], a[2]>> ELSE UNK
RAdd(a, b) == IF ~IsQ(a) \/ ~IsQ(b) THEN UNK
              ELSE LET g == Gcd(a[2], b[2]) IN Q(a[1] * (b[2] \div g) + b[1] * (a[2] \div g), (a[2] \div g) * b[2])
RSub(a, b) == RAdd(a, RNeg(b))
RMul(a, b) == IF a = Zero \/ b = Zero THEN Zero          \* also 0 * (a finite real) = 0
              ELSE IF ~IsQ(a) \/ ~IsQ(b) THEN UNK
              ELSE LET g1 == Gcd(Abs(a[1]), b[2]) g2 == Gcd(Abs(b[1]), a[2])
                   IN <<(a[1] \div g1) * (b[1] \div g2), (a[2] \div g2) * (b[2] \div g1)>>
RInv(a) == IF ~IsQ(a) \/ a[1] = 0 THEN UNK ELSE IF a[1] < 0 THEN <<-a[2], -a[1]>> ELSE <<a[2], a[1]>>
RDiv(a, b) == RMul(a, RInv(b))
RLe(a, b) == a[1] * b[2] <= b[1] * a[2]
RAbs(a) == IF IsQ(a) THEN <<Abs(a[1]), a[2]>> ELSE UNK
RECURSIVE ISqrt(_, _)
ISqrt(n, k) == IF k * k >= n THEN k ELSE ISqrt(n, k + 1)       \* least k with k*k >= n
IsSquare(n) == n >= 0 /\ ISqrt(n, 0) * ISqrt(n, 0) = n
RSqrt(a) == IF IsQ(a) /\ IsSquare(a[1]) /\ IsSquare(a[2]) THEN <<ISqrt(a[1], 0), ISqrt(a[2], 0)>> ELSE UNK
RLt(a, b) == a[1] * b[2] < b[1] * a[2]
RMax(a, b) == IF RLe(a, b) THEN b ELSE a
RMin(a, b) == IF RLe(a, b) THEN a ELSE b
=============================================================================
