SPECIFICATION Spec
CONSTANTS
  Fam = "@FAM@"
  Depth = @DEPTH@
  Emit = @EMIT@
INVARIANTS Fresh Sharing EmitOK
CHECK_DEADLOCK FALSE
