SPECIFICATION Spec
CONSTANTS
  Mode = "@MODE@"
  MaxVal = @MAXVAL@
  MaxLen = @MAXLEN@
  MaxN = @MAXN@
INVARIANTS ResultOK Emit
CHECK_DEADLOCK FALSE
