------------------------------ MODULE GraphOps ------------------------------
(* Package graph's own helpers over the set model of a graph:                 *)
(*   graph.Copy / graph.CopyWeighted   "copies nodes and edges ... without    *)
(*        first clearing the destination.  Copy will panic if a node ID in    *)
(*        the source graph matches a node ID in the destination.  If the      *)
(*        source is undirected and the destination is directed both           *)
(*        directions will be present in the destination"                      *)
(*   graph.Complement                  "the complement of a graph ... will    *)
(*        not include self-edges"; From, Edge, HasEdgeBetween ("whether an    *)
(*        edge exists between nodes x and y", for a graph.Graph: "without     *)
(*        considering direction"), and the graph.Iterator contract of the     *)
(*        node iterator From returns ("Len returns the number of items        *)
(*        remaining"; a negative Len means unknown)                           *)
(*   ReversedEdge / ReversedLine       ends swapped, everything else kept     *)
(* A graph is (V, E): directed, E a set of ordered pairs without loops;       *)
(* undirected, printed with one pair u < v per edge.  Weights are small       *)
(* integers given by a function that is symmetric in the end points, so that  *)
(* copying a digraph with both (u,v) and (v,u) into an undirected destination *)
(* (where the documentation leaves the weight undefined if they differ) has a *)
(* defined answer.                                                            *)
EXTENDS Integers, Sequences, FiniteSets, TLC, Json

CONSTANTS Mode,     \* "copy" | "compl" | "rev"
          MaxN      \* source graphs on 1 .. n, n <= MaxN

VARIABLE c

Min2(a, b) == IF a < b THEN a ELSE b
Max2(a, b) == IF a < b THEN b ELSE a
Pairs(V)  == {e \in V \X V : e[1] # e[2]}
UPairs(V) == {e \in V \X V : e[1] < e[2]}
Sym(E)    == E \cup {<<e[2], e[1]>> : e \in E}
Half(E)   == {<<Min2(e[1], e[2]), Max2(e[1], e[2])>> : e \in E}      \* one pair u < v per undirected edge
Arcs(dir, E) == IF dir THEN E ELSE Sym(E)                            \* what From / Edge show
Graphs(dir, V) == IF dir THEN SUBSET Pairs(V) ELSE SUBSET UPairs(V)

W(base, e) == base + 10 * Min2(e[1], e[2]) + Max2(e[1], e[2])
Weighted(base, E) == {<<e[1], e[2], W(base, e)>> : e \in E}

(* ---- Copy ---- *)
\* destination graphs: empty, on fresh nodes {4}, {4, 5}, or on nodes that collide with the source
DstNodeSets == {{}, {4}, {4, 5}, {1}, {3, 4}}
CopyResult(sdir, sE, ddir, dE) ==        \* edge set of the destination afterwards, in the destination's form
    IF ddir THEN dE \cup Arcs(sdir, sE) ELSE dE \cup Half(sE)
\* (the case sets take the bound as a parameter: TLC evaluates zero-argument constant definitions eagerly, and only one
\* of the three families is wanted per run)
CopyCases(mx) ==
    UNION {UNION {UNION {
        {[k |-> "copy", sdir |-> sdir, sV |-> 1 .. n, sE |-> Weighted(0, sE),
          ddir |-> ddir, dV |-> dV, dE |-> Weighted(100, dE),
          panic |-> (1 .. n) \cap dV # {},
          V |-> (1 .. n) \cup dV,
          E |-> IF ddir THEN Weighted(100, dE) \cup Weighted(0, Arcs(sdir, sE))
                ELSE Weighted(100, dE) \cup Weighted(0, Half(sE))]
         : dE \in Graphs(ddir, dV)}
        : dV \in DstNodeSets, ddir \in BOOLEAN}
        : sE \in Graphs(sdir, 1 .. n)}
        : n \in 0 .. mx, sdir \in BOOLEAN}

(* ---- Complement ---- *)
Absent == 9
ComplArcs(V, A) == {e \in Pairs(V) : e \notin A}
ComplCases(mx) ==
    UNION {
        {LET V == 1 .. n
             A == Arcs(dir, E)
             CA == ComplArcs(V, A)
             Q == V \cup {Absent}
         IN [k |-> "compl", dir |-> dir, V |-> V, E |-> E,
             from |-> [u \in Q |-> {e[2] : e \in {d \in CA : d[1] = u}}],
             edge |-> CA,                                    \* the pairs (u, v) with Edge(u, v) # nil, over Q x Q
             heb |-> {e \in Q \X Q : e \in CA \/ <<e[2], e[1]>> \in CA}]
         : E \in Graphs(dir, 1 .. n)}
        : n \in 0 .. mx, dir \in BOOLEAN}

(* ---- reversal of edges and lines ---- *)
RevCases(mx) == {[k |-> "rev", f |-> f, t |-> t, id |-> i, w |-> w, rf |-> t, rt |-> f, rid |-> i, rw |-> w]
             : f \in 1 .. 2, t \in 1 .. 2, i \in {0, 7}, w \in {0, 3}}

Cases == CASE Mode = "copy" -> CopyCases(MaxN) [] Mode = "compl" -> ComplCases(MaxN) [] Mode = "rev" -> RevCases(MaxN)

Init == c \in Cases
Next == UNCHANGED c
Spec == Init /\ [][Next]_c
Emit == PrintT(ToJson(c))

(* ---- R1 ---- *)
Laws == \A n \in 0 .. 3 : LET V == 1 .. n IN
    /\ \A E \in SUBSET Pairs(V) :
         /\ ComplArcs(V, ComplArcs(V, E)) = E                                 \* complement is an involution
         /\ ComplArcs(V, E) \cap E = {} /\ ComplArcs(V, E) \cup E = Pairs(V)
         /\ CopyResult(TRUE, E, TRUE, {}) = E                                 \* a copy into an empty graph of the same kind
         /\ Sym(CopyResult(TRUE, E, FALSE, {})) = Sym(E)                      \* directions are forgotten
    /\ \A E \in SUBSET UPairs(V) :
         /\ CopyResult(FALSE, E, FALSE, {}) = E
         /\ CopyResult(FALSE, E, TRUE, {}) = Sym(E)                           \* both directions present
         /\ ComplArcs(V, Sym(E)) = Sym(ComplArcs(V, Sym(E)))                  \* the complement of an undirected graph is undirected
ASSUME Laws
=============================================================================
