SPECIFICATION Spec
CONSTANTS
  Mode = "@MODE@"
  MaxLen = @MAXLEN@
  MaxN = @MAXN@
  NRanks = @NRANKS@
INVARIANTS ResultOK Emit
CHECK_DEADLOCK FALSE
