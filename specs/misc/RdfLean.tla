------------------------------- MODULE RdfLean -------------------------------
(* rdf.Lean: "Lean returns an RDF core of g that entails g."                   *)
(*                                                                             *)
(* RDF semantics by brute force.  A map mu sends every blank node of G to a    *)
(* term of G (IRIs and literals are fixed); mu(G) is an instance of G.  G is   *)
(* lean when no instance of G is a proper subgraph of G.  A core of G is an    *)
(* instance of G that is a subgraph of G and is lean; such a subgraph entails  *)
(* G (it is an instance of G) and is entailed by G (it is a subgraph).  All    *)
(* cores of G are isomorphic but there can be several of them as sets of       *)
(* statements; every one is a legal answer.                                    *)
(*                                                                             *)
(* R1 (invariant CoreLaws on every enumerated graph): a core exists, all cores *)
(* have the same number of statements, a lean graph is its own only core, and  *)
(* a core of a core is that core.  R2: every statement set within the bound    *)
(* with the set of its cores.                                                  *)
EXTENDS Integers, Sequences, FiniteSets, TLC, Json

CONSTANTS MaxS,      \* statement sets of up to MaxS statements are enumerated completely ...
          Extra,     \* ... and those with MaxS + 1 statements whose code is = Salt modulo Extra (0: none)
          Salt,
          Cycle4     \* TRUE: add the 15 four-statement data sets over three blank nodes and one predicate (thorough tier)

VARIABLE c

BlankT == {"_:x", "_:y", "_:z"}
NodeT == {"<a>"} \cup BlankT
ObjT == NodeT \cup {"\"l\""}
PredT == {"<p>", "<q>"}
Triples == {<<s, p, o>> : s \in NodeT, p \in PredT, o \in ObjT}

NodesOf(g) == {s[1] : s \in g} \cup {s[3] : s \in g}
BlanksOf(g) == NodesOf(g) \cap BlankT
Maps(g) == [BlanksOf(g) -> NodesOf(g)]
Img(mu, t) == IF t \in DOMAIN mu THEN mu[t] ELSE t
ApplyMu(g, mu) == {<<Img(mu, s[1]), s[2], Img(mu, s[3])>> : s \in g}
\* a literal cannot be a subject: an image with a literal subject is not an RDF graph, hence not a subgraph of g either (g has none)
IsLean(g) == \A mu \in Maps(g) : LET h == ApplyMu(g, mu) IN ~(h \subseteq g /\ h # g)
Cores(g) == {h \in {ApplyMu(g, mu) : mu \in Maps(g)} : h \subseteq g /\ IsLean(h)}

RECURSIVE SetToSeq(_)
SetToSeq(S) == IF S = {} THEN <<>> ELSE LET x == CHOOSE y \in S : TRUE IN <<x>> \o SetToSeq(S \ {x})
RECURSIVE Pow2(_)
Pow2(n) == IF n = 0 THEN 1 ELSE 2 * Pow2(n - 1)
RECURSIVE KIdx(_, _, _)
KIdx(lo, hi, k) == IF k = 0 THEN {{}} ELSE UNION {{{i} \cup r : r \in KIdx(i + 1, hi, k - 1)} : i \in lo .. hi}
RECURSIVE CodeOf(_)
CodeOf(I) == IF I = {} THEN 0 ELSE LET i == CHOOSE y \in I : TRUE IN (Pow2((i - 1) % 20) + i) + CodeOf(I \ {i})
\* a key for sampling: the code itself would select by the lowest-numbered triples only
RECURSIVE Mix(_)
Mix(I) == IF I = {} THEN 0 ELSE LET i == CHOOSE y \in I : TRUE IN (((i * 7919) % 101) + ((i * i * 31) % 37)) + Mix(I \ {i})
TSeq == SetToSeq(Triples)
\* with Cycle4: the four-statement data sets over the three blank nodes with the predicate <p> and without loops (every one
\* of them has a pair of blank nodes joined in both directions; this is where the search for an endomorphism recurses)
BlankP == {i \in 1 .. Len(TSeq) : TSeq[i][1] \in BlankT /\ TSeq[i][3] \in BlankT /\ TSeq[i][1] # TSeq[i][3] /\ TSeq[i][2] = "<p>"}
IdxSets == UNION {KIdx(1, Len(TSeq), j) : j \in 0 .. MaxS}
           \cup (IF Extra = 0 THEN {} ELSE {I \in KIdx(1, Len(TSeq), MaxS + 1) : (Mix(I) + Salt) % Extra = 0})
           \cup (IF Cycle4 THEN {I \in SUBSET BlankP : Cardinality(I) = 4} ELSE {})
G(I) == {TSeq[i] : i \in I}

Init == c \in IdxSets
Next == UNCHANGED c
Spec == Init /\ [][Next]_c

CoreLaws == LET g == G(c) cs == Cores(g) IN
  /\ cs # {}
  /\ \A h, k \in cs : Cardinality(h) = Cardinality(k)
  /\ IsLean(g) <=> cs = {g}
  /\ \A h \in cs : Cores(h) = {h}
\* scenario labels carried into the signature of a disagreement (a known finding names its scenario):
\*   blank-pair-statements-vanish   the data set has a statement from a blank node to a blank node and its cores have none
\*   lean-blank-only-4              a lean data set of four or more statements that all join two blank nodes
BB(g) == \E s \in g : s[1] \in BlankT /\ s[3] \in BlankT
Tag(g) == IF BB(g) /\ \A h \in Cores(g) : ~BB(h) THEN "blank-pair-statements-vanish"
          ELSE IF Cardinality(g) >= 4 /\ IsLean(g) /\ \A s \in g : s[1] \in BlankT /\ s[3] \in BlankT THEN "lean-blank-only-4"
          ELSE ""
Emit == LET g == G(c) IN PrintT(ToJson([kind |-> "lean", stmts |-> SetToSeq(g), cores |-> Cores(g), lean |-> IsLean(g), tag |-> Tag(g)]))
=============================================================================
