-------------------------- MODULE UnitAlgebraTrace --------------------------
(* R3: accepts an ndjson log of real histories of calls on *unit.Unit          *)
(* registers iff the dimensions evolve as UnitAlgebra says.  Every event       *)
(* carries the call, its outcome (ok / panic), the exponent vectors of ALL     *)
(* registers read back from the real units after the call and the formatted    *)
(* dimensions of the receiver; the step is enabled only if UnitAlgebra's       *)
(* Apply gives the same outcome, the same vectors and the same string.         *)
(* Values are not traced (long histories leave TLC's 32-bit integers): every   *)
(* register's value is reset to 1 in the model after each step.  Histories     *)
(* are concatenated with "reset" events naming the typed value each register   *)
(* starts from.                                                                *)
EXTENDS UnitAlgebra, TLCExt

TraceLog == ndJsonDeserialize("trace.ndjson")

VARIABLE l
tvars == <<regs, hist, outs, init0, l>>

Ev == TraceLog[l]
Unit1(e) == U(<<1, 1>>, FALSE, e)
Norm(R) == [r \in Regs |-> Unit1(R[r].e)]
Exps(R) == [r \in Regs |-> R[r].e]

Call == /\ l <= Len(TraceLog) /\ Ev.k = "call"
        /\ LET res == Apply([op |-> Ev.op, i |-> Ev.i, j |-> Ev.j, t |-> Ev.t, n |-> 1, d |-> 1], regs) IN
             /\ Ev.out = res.out
             /\ Ev.e = Exps(res.r)
             /\ Ev.s = Fmt(res.r[Ev.i].e)
             /\ regs' = Norm(res.r)
        /\ l' = l + 1 /\ UNCHANGED <<hist, outs, init0>>

Reset == /\ l <= Len(TraceLog) /\ Ev.k = "reset"
         /\ regs' = [r \in Regs |-> Unit1(Concrete[Ev.init[r]])]
         /\ Ev.e = Exps(regs')
         /\ l' = l + 1 /\ UNCHANGED <<hist, outs, init0>>

TraceInit == /\ regs = [r \in Regs |-> Unit1(VZero)] /\ hist = <<>> /\ outs = <<>> /\ init0 = <<>> /\ l = 1
TraceNext == Call \/ Reset
TraceSpec == TraceInit /\ [][TraceNext]_tvars

Accepted ==
    LET d == TLCGet("stats").diameter IN
    IF d - 1 = Len(TraceLog) THEN PrintT("TRACE-ACCEPTED " \o ToString(Len(TraceLog)))
    ELSE /\ PrintT("TRACE-REJECTED at event " \o ToString(d) \o ": " \o ToString(TraceLog[d]))
         /\ FALSE
=============================================================================
