---------------------------- MODULE TraverseGen ----------------------------
(* R2 generator of walk scenarios for the recorder of TraverseTrace.tla:      *)
(* every graph on 1 .. n nodes (NMin <= n <= NMax; directed, or undirected    *)
(* printed with one pair u < v per edge) whose code falls into this shard     *)
(* (NShards should be a prime: the codes are sums of powers of two),          *)
(* with every scripted until (a target set T, or a depth bound K for          *)
(* BreadthFirst) and every scripted Traverse (F = nothing, the in-star of one *)
(* node, or a salted pseudo-random subset of the edges).  The walk starts at  *)
(* node 1 (all labelings are enumerated, so this loses nothing); the recorder *)
(* adds further starts when it continues a walker.  Nothing here is an        *)
(* expected answer: the answers are judged by TraverseTrace.tla.              *)
EXTENDS Integers, Sequences, FiniteSets, TLC, Json

CONSTANTS Directed, NMin, NMax, MaxT, Salt, Shard, NShards
Never == 99

VARIABLE c

Pairs(V)  == {e \in V \X V : e[1] # e[2]}
UPairs(V) == {e \in V \X V : e[1] < e[2]}
RECURSIVE Code(_)
Code(E) == IF E = {} THEN 0 ELSE LET e == CHOOSE x \in E : TRUE IN 2 ^ ((e[1] - 1) * 4 + (e[2] - 1)) + Code(E \ {e})
InStar(E, b) == {e \in E : e[2] = b \/ (~Directed /\ e[1] = b)}
Salted(E) == {e \in E : (e[1] * 7 + e[2] * 3 + Salt + Cardinality(E)) % 3 = 0}

Cases ==
    UNION {UNION {
        LET V == 1 .. n
            Fs == {{}} \cup {InStar(E, b) : b \in V} \cup {Salted(E)}
            Us == {<<T, Never>> : T \in {S \in SUBSET V : Cardinality(S) <= MaxT}} \cup {<<{}, k>> : k \in 0 .. n - 1}
        IN {[dir |-> Directed, n |-> n, E |-> E, T |-> u[1], K |-> u[2], F |-> F] : u \in Us, F \in Fs}
        : E \in {G \in (IF Directed THEN SUBSET Pairs(1 .. n) ELSE SUBSET UPairs(1 .. n)) : (Code(G) + n) % NShards = Shard}}
        : n \in NMin .. NMax}

Init == c \in Cases
Next == UNCHANGED c
Spec == Init /\ [][Next]_c
Emit == PrintT(ToJson(c))
=============================================================================
