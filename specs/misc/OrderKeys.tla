----------------------------- MODULE OrderKeys -----------------------------
(* internal/order once more (OrderX.tla of X01 enumerates the shapes of the   *)
(* inputs over small non-negative values): here the KEYS are extreme - the    *)
(* whole int64 range, where a comparison written as a subtraction, a          *)
(* conversion through int32 / float64 or an unsigned comparison goes wrong.   *)
(* TLC has 32-bit integers, so a key is a rank into a table of 64-bit values  *)
(* written in offset binary (value + 2^63) as three limbs <<hi (22 bits),     *)
(* mid (21 bits), lo (21 bits)>>; the order of the values is the              *)
(* lexicographic order of the limbs.  TableLemma: the table is strictly       *)
(* increasing, so "sorted by rank" is "sorted by value".                      *)
(*   ids     ByID on nodes (one key per element)                              *)
(*   values  BySliceValues / BySliceIDs (lexicographic, a proper prefix first)*)
(*   lines   LinesByIDs (from id, then to id, then line id)                   *)
(* Elements with equal keys are equal values, so the sorted list is unique.   *)
EXTENDS Integers, Sequences, FiniteSets, TLC, Json

CONSTANTS Mode, MaxLen, MaxN, NRanks

VARIABLE c

\* offset binary limbs: value + 2^63 = hi * 2^42 + mid * 2^21 + lo
M21 == 2097151          \* 2^21 - 1
M22 == 4194303          \* 2^22 - 1
Table == << <<0, 0, 0>>,                 \* -2^63          math.MinInt64
            <<0, 0, 1>>,                 \* -2^63 + 1
            <<1048576, 0, 0>>,           \* -2^62
            <<2097151, M21, M21>>,       \* -1
            <<2097152, 0, 0>>,           \*  0
            <<2097152, 0, 1>>,           \*  1
            <<2097152, 1024, 0>>,        \*  2^31          (does not fit int32)
            <<3145728, 0, 0>>,           \*  2^62
            <<M22, M21, M21 - 1>>,       \*  2^63 - 2
            <<M22, M21, M21>> >>         \*  2^63 - 1      math.MaxInt64
Ranks == 1 .. NRanks
Pick == IF NRanks = 3 THEN <<1, 4, 10>> ELSE IF NRanks = 5 THEN <<1, 4, 5, 7, 10>> ELSE [i \in 1 .. 10 |-> i]
LimbLess(a, b) == \/ a[1] < b[1] \/ (a[1] = b[1] /\ a[2] < b[2]) \/ (a[1] = b[1] /\ a[2] = b[2] /\ a[3] < b[3])
TableLemma == \A i, j \in 1 .. 10 : i < j <=> LimbLess(Table[i], Table[j])
ASSUME TableLemma /\ \A i \in 1 .. 10 : Table[i][1] <= M22 /\ Table[i][2] <= M21 /\ Table[i][3] <= M21

RECURSIVE LexLess(_, _)
LexLess(a, b) == IF a = <<>> THEN b # <<>>
                 ELSE IF b = <<>> THEN FALSE
                 ELSE IF Head(a) # Head(b) THEN Head(a) < Head(b)
                 ELSE LexLess(Tail(a), Tail(b))
LexLeq(a, b) == a = b \/ LexLess(a, b)

SeqsUpTo(S, n) == UNION {[1 .. k -> S] : k \in 0 .. n}
Keys == CASE Mode = "values" -> SeqsUpTo(Ranks, MaxLen)
          [] Mode = "ids" -> [1 .. 1 -> Ranks]
          [] Mode = "lines" -> [1 .. 3 -> Ranks]
Inputs == SeqsUpTo(Keys, MaxN)

Count(q, x) == Cardinality({i \in 1 .. Len(q) : q[i] = x})
Rep(x, n) == [i \in 1 .. n |-> x]
RECURSIVE SortSet(_, _)
SortSet(S, q) == IF S = {} THEN <<>>
                 ELSE LET m == CHOOSE x \in S : \A y \in S : LexLeq(x, y) IN Rep(m, Count(q, m)) \o SortSet(S \ {m}, q)
Sorted(q) == SortSet({q[i] : i \in 1 .. Len(q)}, q)
IsSorted(q) == \A i \in 1 .. Len(q) - 1 : LexLeq(q[i], q[i + 1])
IsPerm(p, q) == Len(p) = Len(q) /\ \A i \in 1 .. Len(q) : Count(p, q[i]) = Count(q, q[i])

Init == c \in Inputs
Next == UNCHANGED c
Spec == Init /\ [][Next]_c
ResultOK == IsSorted(Sorted(c)) /\ IsPerm(Sorted(c), c)
\* ranks are printed; the table (limbs of the picked ranks) travels with every case
Emit == PrintT(ToJson([k |-> Mode, tab |-> [i \in Ranks |-> Table[Pick[i]]], in |-> c, out |-> Sorted(c)]))
=============================================================================
