----------------------------- MODULE LinearImpl -----------------------------
(* R1: the layout of linear.NodeQueue - a slice `data` (length, capacity) and *)
(* an index `head`; the live elements are data[head:] - refines the FIFO       *)
(* sequence of Linear.tla, whatever capacities Go's append chooses when it     *)
(* grows the slice (the growth policy is the runtime's: any new capacity       *)
(* above the needed length is allowed here).  Transcribed from                 *)
(* graph/internal/linear/linear.go:                                            *)
(*   Enqueue: if len(data) = cap(data) and head > 0, move the live elements    *)
(*            to the front (copy), head = 0, then append; otherwise append.    *)
(*   Dequeue: panic if empty; take data[head], clear the slot, head++; if      *)
(*            empty now, head = 0 and data = data[:0].                         *)
(*   Reset:   head = 0, data = data[:0].                                       *)
(* Mutant 1: the compaction forgets head = 0.  Mutant 2: Dequeue forgets the   *)
(* rewind of an emptied queue AND Enqueue compacts without the head > 0 test   *)
(* (harmless - TLC must NOT refute it; it documents that the test is only an   *)
(* optimisation).  TLC must refute mutant 1.                                   *)
EXTENDS Integers, Sequences, TLC

CONSTANTS Depth, MaxCap, Mutant
Nil == 0

VARIABLES head, data, cap,    \* the implementation: data is the slice up to its length
          q, k, n             \* the abstract FIFO, insertion counter, step counter

Live == SubSeq(data, head + 1, Len(data))

AppendGrow(d, c, v) ==     \* append(d, v) on a slice of capacity c: the set of possible <<data, cap>>
    IF Len(d) < c THEN {<<Append(d, v), c>>}
    ELSE {<<Append(d, v), c2>> : c2 \in (Len(d) + 1) .. MaxCap}

Enqueue ==
    /\ k' = k + 1 /\ q' = Append(q, k + 1)
    /\ IF Len(data) = cap /\ (head > 0 \/ Mutant = 2)
       THEN \E r \in AppendGrow(Live, cap, k + 1) :
              /\ data' = r[1] /\ cap' = r[2]
              /\ head' = IF Mutant = 1 THEN head ELSE 0
       ELSE \E r \in AppendGrow(data, cap, k + 1) : data' = r[1] /\ cap' = r[2] /\ head' = head

Dequeue ==
    /\ Len(data) - head > 0         \* otherwise panic, nothing changes
    /\ q # <<>> /\ Head(q) = data[head + 1]              \* the same element leaves both
    /\ q' = Tail(q) /\ k' = k
    /\ IF Len(data) - (head + 1) = 0 /\ Mutant # 2
       THEN head' = 0 /\ data' = <<>> /\ cap' = cap
       ELSE head' = head + 1 /\ data' = [data EXCEPT ![head + 1] = Nil] /\ cap' = cap

DequeueEmpty == Len(data) - head = 0 /\ q = <<>> /\ UNCHANGED <<head, data, cap, q, k>>
Reset == head' = 0 /\ data' = <<>> /\ q' = <<>> /\ UNCHANGED <<cap, k>>

Init == head = 0 /\ data = <<>> /\ cap = 0 /\ q = <<>> /\ k = 0 /\ n = 0
Next == n < Depth /\ n' = n + 1 /\ (Enqueue \/ Dequeue \/ DequeueEmpty \/ Reset)
Spec == Init /\ [][Next]_<<head, data, cap, q, k, n>>

Refines == Live = q                                       \* same content, same order
Shape   == 0 <= head /\ head <= Len(data) /\ Len(data) <= cap
Cleared == \A i \in 1 .. head : data[i] = Nil            \* dequeued slots do not keep their node alive
LenOK   == Len(data) - head = Len(q)                     \* what Len() returns
\* Dequeue is enabled exactly when the abstract queue is non-empty (no spurious panic, no missed one)
PanicOK == (Len(data) - head = 0) <=> (q = <<>>)
=============================================================================
