----------------------------- MODULE UnitAlgebra -----------------------------
(* Dimension algebra of gonum's package unit (unit/unittype.go).              *)
(*                                                                            *)
(* Abstract model.  The dimension of a unit is an exponent vector in Z^K (an  *)
(* element of the free abelian group on the K base dimensions); a missing map *)
(* key IS the exponent 0.  Mul adds the vectors, Div subtracts them, Add      *)
(* requires equal vectors (otherwise it panics and nothing changes); values   *)
(* multiply / divide / add as exact rationals.  unit.Unit methods mutate      *)
(* their receiver, so the model is a machine over NReg registers holding      *)
(* *Unit values: r_i.Mul(r_j) with i = j is a legal (aliasing) call.          *)
(*                                                                            *)
(* Roles                                                                      *)
(*  R1  ASSUME GroupLaws: (Z^K, VAdd, VZero, VNeg) is an abelian group and    *)
(*      Div is Mul by the inverse; ASSUME MapLemma: the implementation-shaped *)
(*      layer (partial maps without zero entries, "delete the key when the    *)
(*      exponents cancel", "equal length and equal entries") refines the      *)
(*      vector model; invariants over every bounded history: registers the    *)
(*      last call did not name are unchanged, a panic changes nothing.        *)
(*  R2  with Emit = TRUE every history of at most Depth calls (from every     *)
(*      initial register file of this shard) is printed with the expected     *)
(*      final register file: value (exact rational and whether the float      *)
(*      computation is exact), exponent vector, formatted dimension string,   *)
(*      DimensionsMatch matrix and the set of concrete types (unit.Length,    *)
(*      unit.Force, ...) whose From accepts the register.                     *)
(* Nothing here is transcribed from gonum except the MapLemma layer, which    *)
(* never decides a verdict.                                                   *)
EXTENDS Integers, Sequences, FiniteSets, TLC, Json

CONSTANTS NReg,      \* number of *Unit registers
          Depth,     \* maximum number of calls in a history
          VS,        \* value table selector (0..2), driven by the seed
          Shard, NShards,   \* initial register files with index % NShards = Shard
          Emit       \* BOOLEAN: generator role

VARIABLES regs, hist, outs, init0
vars == <<regs, hist, outs, init0>>

(************************** base dimensions (binding) ***********************)
\* model dimension i is bound to unit.LengthDim, unit.MassDim, unit.TimeDim.
\* Sym[i] is its documented SI symbol; Rank[i] its position in ascending byte
\* order of the symbols ("kg" < "m" < "s"): the harness verifies both.
K == 3
Dims == 1 .. K
Sym == <<"m", "kg", "s">>
Rank == <<2, 1, 3>>

(******************************* vectors ************************************)
VZero == [i \in Dims |-> 0]
VAdd(a, b) == [i \in Dims |-> a[i] + b[i]]
VSub(a, b) == [i \in Dims |-> a[i] - b[i]]
VNeg(a) == [i \in Dims |-> -a[i]]

(****************************** rationals ***********************************)
AbsI(x) == IF x < 0 THEN -x ELSE x
RECURSIVE Gcd(_, _)
Gcd(a, b) == IF b = 0 THEN a ELSE Gcd(b, a % b)
Q(n, d) == LET g == Gcd(AbsI(n), AbsI(d))
               s == IF d < 0 THEN -1 ELSE 1 IN <<(s * n) \div g, (s * d) \div g>>
QMul(a, b) == Q(a[1] * b[1], a[2] * b[2])
QDiv(a, b) == Q(a[1] * b[2], a[2] * b[1])          \* b[1] # 0
QAdd(a, b) == Q(a[1] * b[2] + b[1] * a[2], a[2] * b[2])
RECURSIVE IsPow2(_)
IsPow2(d) == d = 1 \/ (d > 1 /\ d % 2 = 0 /\ IsPow2(d \div 2))
Dyadic(q) == IsPow2(q[2])

(******************************** units *************************************)
\* q: exact rational value; ex: TRUE iff every float64 operation that produced
\* the value was exact (operands exact and the exact result dyadic - the
\* numerators stay far below 2^53), so that the float equals q; e: exponents.
U(q, ex, e) == [q |-> q, ex |-> ex, e |-> e]
MulU(a, b) == U(QMul(a.q, b.q), a.ex /\ b.ex, VAdd(a.e, b.e))
DivU(a, b) == IF b.q[1] = 0 THEN U(<<0, 1>>, FALSE, VSub(a.e, b.e))   \* IEEE x/0 is not modelled
              ELSE LET q == QDiv(a.q, b.q) IN U(q, a.ex /\ b.ex /\ Dyadic(q), VSub(a.e, b.e))
AddU(a, b) == U(QAdd(a.q, b.q), a.ex /\ b.ex, a.e)

(********************* the SI definitions of concrete types *****************)
\* exponents of (m, kg, s); physics, not read from the generated Go files
Concrete == [Dimless |-> <<0, 0, 0>>, Length |-> <<1, 0, 0>>, Mass |-> <<0, 1, 0>>, Time |-> <<0, 0, 1>>,
             Area |-> <<2, 0, 0>>, Volume |-> <<3, 0, 0>>, Velocity |-> <<1, 0, -1>>,
             Acceleration |-> <<1, 0, -2>>, Frequency |-> <<0, 0, -1>>, Force |-> <<1, 1, -2>>,
             Energy |-> <<2, 1, -2>>, Torque |-> <<2, 1, -2>>, Power |-> <<2, 1, -3>>,
             Pressure |-> <<-1, 1, -2>>]
Types == DOMAIN Concrete

\* values carried by the typed operands, per value table
LeafTypes == <<"Length", "Mass", "Time", "Dimless", "Velocity", "Pressure">>
LeafVals == CASE VS = 0 -> << <<2, 1>>, <<3, 1>>, <<1, 2>>, <<-4, 1>>, <<-2, 1>>, <<1, 4>> >>
              [] VS = 1 -> << <<-4, 1>>, <<1, 2>>, <<3, 1>>, <<2, 1>>, <<1, 4>>, <<-2, 1>> >>
              [] OTHER  -> << <<1, 4>>, <<-2, 1>>, <<2, 1>>, <<3, 1>>, <<4, 1>>, <<-1, 2>> >>
Leaf(k) == [t |-> LeafTypes[k], n |-> LeafVals[k][1], d |-> LeafVals[k][2]]
LeafU(l) == U(<<l.n, l.d>>, TRUE, Concrete[l.t])
SetVal == CASE VS = 0 -> <<3, 4>> [] VS = 1 -> <<-5, 2>> [] OTHER -> <<7, 8>>

(******************************** calls *************************************)
Regs == 1 .. NReg
NoLeaf == [t |-> "", n |-> 0, d |-> 1]
Op(op, i, j, l) == [op |-> op, i |-> i, j |-> j, t |-> l.t, n |-> l.n, d |-> l.d]
Ops == {Op(o, i, j, NoLeaf) : o \in {"Mul", "Div", "Add"}, i \in Regs, j \in Regs}
       \* typed operand: r_1.Mul(unit.Length(2)) etc. (the Unit() conversion of the concrete types)
       \cup {Op(o, 1, 0, Leaf(k)) : o \in {"MulC", "DivC", "AddC"}, k \in 1 .. Len(LeafTypes)}
       \* r_i = r_j.Copy()
       \cup {Op("Copy", p[1], p[2], NoLeaf) : p \in {q \in Regs \X Regs : q[1] # q[2]}}
       \cup {Op("SetValue", 1, 0, [t |-> "", n |-> SetVal[1], d |-> SetVal[2]])}
       \* r_NReg = unit.New(v, d): d lists only the non-zero exponents (New), all K exponents and
       \* a zero for a fourth dimension (NewZ), or is a nil map (NewNil, dimensionless)
       \cup {Op(o, NReg, 0, Leaf(k)) : o \in {"New", "NewZ"}, k \in {1, 5}}
       \cup {Op("NewNil", NReg, 0, Leaf(4))}

Set(R, i, u) == [R EXCEPT ![i] = u]
Result(R, out) == [r |-> R, out |-> out]
Apply(o, R) ==
  LET l == [t |-> o.t, n |-> o.n, d |-> o.d] IN
  CASE o.op = "Mul"  -> Result(Set(R, o.i, MulU(R[o.i], R[o.j])), "ok")
    [] o.op = "Div"  -> Result(Set(R, o.i, DivU(R[o.i], R[o.j])), "ok")
    [] o.op = "Add"  -> IF R[o.i].e = R[o.j].e THEN Result(Set(R, o.i, AddU(R[o.i], R[o.j])), "ok")
                        ELSE Result(R, "panic")
    [] o.op = "MulC" -> Result(Set(R, o.i, MulU(R[o.i], LeafU(l))), "ok")
    [] o.op = "DivC" -> Result(Set(R, o.i, DivU(R[o.i], LeafU(l))), "ok")
    [] o.op = "AddC" -> IF R[o.i].e = Concrete[o.t] THEN Result(Set(R, o.i, AddU(R[o.i], LeafU(l))), "ok")
                        ELSE Result(R, "panic")
    [] o.op = "Copy" -> Result(Set(R, o.i, R[o.j]), "ok")
    [] o.op = "SetValue" -> Result(Set(R, o.i, U(<<o.n, o.d>>, TRUE, R[o.i].e)), "ok")
    [] o.op \in {"New", "NewZ"} -> Result(Set(R, o.i, LeafU(l)), "ok")
    [] o.op = "NewNil" -> Result(Set(R, o.i, U(<<o.n, o.d>>, TRUE, VZero)), "ok")

InitLeaves == 1 .. 4
InitFiles == {f \in [Regs -> InitLeaves] :
                LET idx == IF NReg = 1 THEN f[1] - 1 ELSE (f[1] - 1) * 4 + (f[2] - 1) IN idx % NShards = Shard}

Init == /\ \E f \in InitFiles : /\ init0 = [r \in Regs |-> Leaf(f[r])]
                                /\ regs = [r \in Regs |-> LeafU(Leaf(f[r]))]
        /\ hist = <<>>
        /\ outs = <<>>

Next == /\ Len(hist) < Depth
        /\ \E o \in Ops : LET res == Apply(o, regs) IN
             /\ regs' = res.r
             /\ hist' = Append(hist, o)
             /\ outs' = Append(outs, res.out)
        /\ UNCHANGED init0

Spec == Init /\ [][Next]_vars

(************************** formatted dimensions ****************************)
\* "Dimensions are appended in order by symbol name with positive powers ahead
\*  of negative powers"; power 1 prints the bare symbol, power 0 nothing.
RECURSIVE ByRank(_)
ByRank(S) == IF S = {} THEN <<>>
             ELSE LET m == CHOOSE i \in S : \A j \in S : Rank[i] <= Rank[j] IN <<m>> \o ByRank(S \ {m})
Atom(e, i) == IF e[i] = 1 THEN Sym[i] ELSE Sym[i] \o "^" \o ToString(e[i])
RECURSIVE Join(_, _)
Join(e, s) == IF s = <<>> THEN "" ELSE IF Len(s) = 1 THEN Atom(e, s[1])
              ELSE Atom(e, s[1]) \o " " \o Join(e, Tail(s))
Fmt(e) == Join(e, ByRank({i \in Dims : e[i] > 0}) \o ByRank({i \in Dims : e[i] < 0}))

(******************************* R1 ****************************************)
Cube(b) == [Dims -> (-b) .. b]
GroupLaws ==
  /\ \A a, b, c \in Cube(1) : VAdd(VAdd(a, b), c) = VAdd(a, VAdd(b, c))
  /\ \A a, b \in Cube(2) : /\ VAdd(a, b) = VAdd(b, a)
                           /\ VSub(a, b) = VAdd(a, VNeg(b))
                           /\ VSub(VAdd(a, b), b) = a
                           /\ VAdd(VSub(a, b), b) = a
  /\ \A a \in Cube(2) : VAdd(a, VZero) = a /\ VSub(a, a) = VZero /\ VAdd(a, VNeg(a)) = VZero

\* implementation-shaped layer: a Dimensions value is a partial map without zero entries
MapOf(e) == [i \in {j \in Dims : e[j] # 0} |-> e[i]]
Get(m, k) == IF k \in DOMAIN m THEN m[k] ELSE 0
AbsOf(m) == [i \in Dims |-> Get(m, i)]
MapMul(m, a) == LET drop == {k \in DOMAIN a : Get(m, k) = -a[k]}
                    keys == (DOMAIN m \cup DOMAIN a) \ drop IN
                [k \in keys |-> Get(m, k) + Get(a, k)]
MapDiv(m, a) == LET drop == {k \in DOMAIN a : Get(m, k) = a[k]}
                    keys == (DOMAIN m \cup DOMAIN a) \ drop IN
                [k \in keys |-> Get(m, k) - Get(a, k)]
Matches(m, o) == Cardinality(DOMAIN m) = Cardinality(DOMAIN o) /\ \A k \in DOMAIN m : Get(o, k) = m[k]
NoZero(m) == \A k \in DOMAIN m : m[k] # 0
MapLemma == \A a, b \in Cube(2) :
  LET ma == MapOf(a)  mb == MapOf(b) IN
  /\ AbsOf(ma) = a /\ NoZero(ma)
  /\ NoZero(MapMul(ma, mb)) /\ AbsOf(MapMul(ma, mb)) = VAdd(a, b)
  /\ NoZero(MapDiv(ma, mb)) /\ AbsOf(MapDiv(ma, mb)) = VSub(a, b)
  /\ Matches(ma, mb) = (a = b)
\* and the reason zero entries must never be stored: "matches" is wrong on them
ZeroEntryBreaksMatches == LET z == [i \in {1} |-> 0] IN ~Matches(z, MapOf(VZero)) /\ AbsOf(z) = VZero

ASSUME GroupLaws
ASSUME MapLemma
ASSUME ZeroEntryBreaksMatches

TypeOK == /\ Len(hist) = Len(outs) /\ Len(hist) <= Depth
          /\ \A r \in Regs : regs[r].q[2] > 0 /\ Gcd(AbsI(regs[r].q[1]), regs[r].q[2]) = 1
\* Fmt prints exactly the non-zero exponents (checked on every reachable register)
FmtSane == \A r \in Regs : (Fmt(regs[r].e) = "") = (regs[r].e = VZero)
\* action properties: only the receiver can change ("the input is not changed"); a panic changes nothing
Touched(o) == {o.i}
OnlyReceiver == [][\A r \in Regs : (Len(hist') > Len(hist) /\ r \notin Touched(hist'[Len(hist')])) => regs'[r] = regs[r]]_vars
PanicNoChange == [][(Len(outs') > Len(outs) /\ outs'[Len(outs')] = "panic") => regs' = regs]_vars

(******************************* R2 ****************************************)
Obs(u) == [n |-> u.q[1], d |-> u.q[2], ex |-> u.ex, e |-> u.e, s |-> Fmt(u.e),
           from |-> {t \in Types : Concrete[t] = u.e}]
EmitState ==
  Emit => PrintT(ToJson([k |-> "h", init |-> init0, ops |-> hist, outs |-> outs,
                         regs |-> [r \in Regs |-> Obs(regs[r])],
                         match |-> [i \in Regs |-> [j \in Regs |-> regs[i].e = regs[j].e]]]))
ASSUME Emit => PrintT(ToJson([k |-> "hdr", sym |-> Sym, rank |-> Rank,
                              types |-> [t \in Types |-> Concrete[t]]]))
=============================================================================
