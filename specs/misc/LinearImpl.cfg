SPECIFICATION Spec
CONSTANTS
  Depth = @DEPTH@
  MaxCap = @MAXCAP@
  Mutant = @MUTANT@
INVARIANTS Refines Shape Cleared LenOK PanicOK
CHECK_DEADLOCK FALSE
