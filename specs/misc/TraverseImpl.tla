---------------------------- MODULE TraverseImpl ----------------------------
(* R1 for Traverse.tla: implementation-shaped models of gonum's two walkers,  *)
(* transcribed from graph/traverse/traverse.go at the grain of one loop       *)
(* iteration, with the ONE thing the code does not control - the order in     *)
(* which g.From(u) yields the neighbours - left nondeterministic.             *)
(*                                                                            *)
(*   BreadthFirst.Walk: FIFO queue, a node is marked visited (and Visit is    *)
(*       called) when it is ENQUEUED, until is asked when it is DEQUEUED, the *)
(*       depth is kept by the three counters depth / children / untilNext.    *)
(*   DepthFirst.Walk:   LIFO stack that may hold a node several times, a node *)
(*       is marked visited (Visit, until) when it is POPPED for the first     *)
(*       time, every neighbour whose edge Traverse accepts is pushed.         *)
(*   WalkAll:           Reset, then Walk from every node that is not yet      *)
(*       visited, in the (arbitrary) order of g.Nodes().                      *)
(*                                                                            *)
(* TLC checks, for every graph with <= N nodes, every scripted until /        *)
(* Traverse / earlier-visited set within Scope and EVERY neighbour order,     *)
(* that the log of callbacks the model produces satisfies all clauses of      *)
(* Traverse.tla (invariant Conforms).  So the abstract clauses are not        *)
(* stricter than the algorithms gonum uses (no false alarm can come from the  *)
(* clauses themselves), and the counter arithmetic of the depth is proved     *)
(* equal to the hop distance.  Mutant > 0 switches on a seeded design error   *)
(* that TLC must refute (the clauses are not vacuous):                        *)
(*   1  BFS: `children` is not cleared when a layer ends                      *)
(*   2  BFS: nodes are marked visited when dequeued (queue holds duplicates)  *)
(*   3  DFS: nodes are marked visited when pushed ("pseudo depth-first")      *)
(*   4  DFS: a refused edge is still followed                                 *)
(*   5  WalkAll: a walk is started from every node, visited or not            *)
(* DefsOK checks Reach / DistPairs against their path definitions.            *)
EXTENDS Traverse

CONSTANTS N,          \* graphs on 1 .. n nodes, n <= N; the walk starts at node 1
          Directed,   \* TRUE: every digraph; FALSE: every undirected graph
          Alg,        \* "bfs" | "dfs"
          Mode,       \* "walk" | "all" (WalkAll; undirected only)
          Scope,      \* "full": all target sets / depth bounds / refused in-stars / earlier visits ("mid": at most one each)
                      \* "plain": until never true, nothing refused, fresh walker
                      \* "flags": every combination of nil callbacks on a reduced script
          Mutant

Never == 99

VARIABLES sc,        \* the scenario: [n, E, T, K, F, vis0, hv, hu, ht]
          q,         \* queue (BFS) / stack (DFS)
          vis,       \* the walker's visited set
          log, ret,
          depth, children, untilNext,
          pc,        \* "loop" | "done"
          started,   \* WalkAll: the nodes a walk was started from
          step
vars == <<sc, q, vis, log, ret, depth, children, untilNext, pc, started, step>>

Ev(t, a, b, r) == [t |-> t, a |-> a, b |-> b, r |-> r]
Pairs(V)  == {e \in V \X V : e[1] # e[2]}
UPairs(V) == {e \in V \X V : e[1] < e[2]}
Perms(S)  == {f \in [1 .. Cardinality(S) -> S] : \A i, j \in 1 .. Cardinality(S) : f[i] = f[j] => i = j}
InStar(E, b) == {e \in E : e[2] = b}

Flags == [hv : BOOLEAN, hu : BOOLEAN, ht : BOOLEAN, hb : BOOLEAN, ha : BOOLEAN]
AllOn == [hv |-> TRUE, hu |-> TRUE, ht |-> TRUE, hb |-> Mode = "all", ha |-> Mode = "all"]

\* the scripts of one graph (V, E): target set T, depth bound K, refused in-star of blk, earlier visits v0, nil flags
Scripts(V) ==
    LET n == Cardinality(V)
        Rec(T, K, blk, v0, f) == [T |-> T, K |-> K, blk |-> blk, v0 |-> v0, f |-> f]
    IN IF Mode = "all"
       THEN {Rec({}, Never, blk, {}, f) : blk \in (IF Scope = "plain" THEN {0} ELSE 0 .. n),
                                          f \in (IF Scope = "flags" THEN Flags ELSE {AllOn})}
       ELSE CASE Scope = "full" ->
                   {Rec(T, Never, blk, v0, AllOn) : T \in SUBSET V, blk \in 0 .. n, v0 \in SUBSET (V \ {1})}
                   \cup {Rec({}, k, blk, v0, AllOn) : k \in 0 .. n - 1, blk \in 0 .. n, v0 \in SUBSET (V \ {1})}
              [] Scope = "mid" ->      \* at most one target and one earlier visit; every labeling of a graph is enumerated, so the
                                       \* earlier visit {2} stands for any single node and the targets {1}, {2}, {3} for every position
                                       \* of a single target relative to the start and to the earlier visit
                   {Rec(T, Never, blk, v0, AllOn) : T \in {{}} \cup {{v} : v \in V \cap (1 .. 3)}, blk \in 0 .. n, v0 \in {{}, V \cap {2}}}
                   \cup {Rec({}, k, blk, v0, AllOn) : k \in 0 .. n - 1, blk \in 0 .. n, v0 \in {{}, V \cap {2}}}
              [] Scope = "plain" -> {Rec({}, Never, 0, {}, AllOn)}
              [] Scope = "flags" ->
                   {Rec(T, Never, blk, {}, f) : T \in {{}} \cup {{v} : v \in V}, blk \in 0 .. n,
                                                f \in {g \in Flags : ~g.hb /\ ~g.ha}}

Scenario(n, E, s) ==
    [n |-> n, E |-> E, T |-> IF s.f.hu THEN s.T ELSE {}, K |-> IF s.f.hu THEN s.K ELSE Never,
     F |-> IF ~s.f.ht THEN {} ELSE IF Directed THEN InStar(E, s.blk) ELSE Sym(InStar(E, s.blk)),
     vis0 |-> s.v0, hv |-> s.f.hv, hu |-> s.f.hu, ht |-> s.f.ht, hb |-> s.f.hb, ha |-> s.f.ha]

Script(x, d) == IF x \in sc.T \/ (Alg = "bfs" /\ d >= sc.K) THEN 1 ELSE 0
UntilEv(x, d) == Ev(IF Mode = "all" THEN "during" ELSE "until", x, d, IF Mode = "all" THEN 0 ELSE Script(x, d))
AddIf(c, s, e) == IF c THEN Append(s, e) ELSE s

\* the walker right after the prologue of Walk(g, from, ..) when its visited set was v0 and the log lg
Start(from, v0, lg) ==
    IF Alg = "bfs" \/ Mutant = 3
    THEN [q |-> <<from>>, vis |-> v0 \cup {from},
          log |-> AddIf(sc.hv /\ Alg = "bfs" /\ from \notin v0, lg, Ev("visit", from, 0, 0))]
    ELSE [q |-> <<from>>, vis |-> v0, log |-> lg]

Init == /\ \E n \in 1 .. N : \E E \in (IF Directed THEN SUBSET Pairs(1 .. n) ELSE {Sym(S) : S \in SUBSET UPairs(1 .. n)}) :
              \E s \in Scripts(1 .. n) : sc = Scenario(n, E, s)
        /\ LET st == Start(1, sc.vis0, AddIf(Mode = "all" /\ sc.hb, <<>>, Ev("before", 0, 0, 0))) IN
             q = st.q /\ vis = st.vis /\ log = st.log
        /\ depth = 0 /\ children = 0 /\ untilNext = 1 /\ started = {1}
        /\ ret = 0 /\ pc = "loop" /\ step = 0

(* ---- BreadthFirst: the body of `for to.Next()` over one neighbour order ---- *)
RECURSIVE BfsExpand(_, _, _)
BfsExpand(t, ord, st) ==
    IF ord = <<>> THEN st
    ELSE LET x == Head(ord)
             refused == <<t, x>> \in sc.F
             st1 == [st EXCEPT !.log = AddIf(sc.ht, @, Ev("trav", t, x, IF refused THEN 0 ELSE 1))]
         IN IF (sc.ht /\ refused) \/ (Mutant # 2 /\ x \in st1.vis) THEN BfsExpand(t, Tail(ord), st1)
            ELSE BfsExpand(t, Tail(ord), [st1 EXCEPT !.log = AddIf(sc.hv /\ Mutant # 2, @, Ev("visit", x, 0, 0)),
                                                   !.vis = IF Mutant = 2 THEN @ ELSE @ \cup {x},
                                                   !.ch = @ + 1, !.q = Append(@, x)])

BfsStep ==
    LET t == Head(q)
        asked == sc.hu
        lg0 == IF Mutant = 2 /\ t \notin vis THEN AddIf(sc.hv, log, Ev("visit", t, 0, 0)) ELSE log
        lg1 == AddIf(asked, lg0, UntilEv(t, depth))
    IN IF asked /\ Mode = "walk" /\ Script(t, depth) = 1
       THEN /\ ret' = t /\ pc' = "done" /\ q' = Tail(q) /\ log' = lg1
            /\ vis' = IF Mutant = 2 THEN vis \cup {t} ELSE vis
            /\ UNCHANGED <<depth, children, untilNext, started>>
       ELSE \E ord \in Perms(Succ(sc.E, t)) :
            LET st == BfsExpand(t, ord, [q |-> Tail(q), vis |-> IF Mutant = 2 THEN vis \cup {t} ELSE vis, log |-> lg1, ch |-> children]) IN
            /\ q' = st.q /\ vis' = st.vis /\ log' = st.log
            /\ IF untilNext - 1 = 0
               THEN /\ depth' = depth + 1 /\ untilNext' = st.ch
                    /\ children' = IF Mutant = 1 THEN st.ch ELSE 0
               ELSE /\ depth' = depth /\ untilNext' = untilNext - 1 /\ children' = st.ch
            /\ UNCHANGED <<ret, pc, started>>

(* ---- DepthFirst ---- *)
RECURSIVE DfsExpand(_, _, _)
DfsExpand(u, ord, st) ==
    IF ord = <<>> THEN st
    ELSE LET x == Head(ord)
             refused == <<u, x>> \in sc.F
             st1 == [st EXCEPT !.log = AddIf(sc.ht, @, Ev("trav", u, x, IF refused THEN 0 ELSE 1))]
         IN IF sc.ht /\ refused /\ Mutant # 4 THEN DfsExpand(u, Tail(ord), st1)
            ELSE IF Mutant = 3
                 THEN IF x \in st1.vis THEN DfsExpand(u, Tail(ord), st1)
                      ELSE DfsExpand(u, Tail(ord), [st1 EXCEPT !.q = Append(@, x), !.vis = @ \cup {x}])
                 ELSE DfsExpand(u, Tail(ord), [st1 EXCEPT !.q = Append(@, x)])

DfsStep ==
    LET u == q[Len(q)]
        rest == SubSeq(q, 1, Len(q) - 1)
    IN IF Mutant # 3 /\ u \in vis
       THEN q' = rest /\ UNCHANGED <<vis, log, ret, pc, depth, children, untilNext, started>>
       ELSE LET lg1 == AddIf(sc.hu, AddIf(sc.hv, log, Ev("visit", u, 0, 0)), UntilEv(u, -1)) IN
            IF sc.hu /\ Mode = "walk" /\ Script(u, -1) = 1
            THEN /\ ret' = u /\ pc' = "done" /\ q' = rest /\ log' = lg1 /\ vis' = vis \cup {u}
                 /\ UNCHANGED <<depth, children, untilNext, started>>
            ELSE \E ord \in Perms(Succ(sc.E, u)) :
                 LET st == DfsExpand(u, ord, [q |-> rest, vis |-> vis \cup {u}, log |-> lg1]) IN
                 /\ q' = st.q /\ vis' = st.vis /\ log' = st.log
                 /\ UNCHANGED <<ret, pc, depth, children, untilNext, started>>

(* ---- the end of one Walk; WalkAll goes on with any node that is not yet visited ---- *)
Finish ==
    IF Mode = "walk" THEN pc' = "done" /\ ret' = 0 /\ UNCHANGED <<q, vis, log, depth, children, untilNext, started>>
    ELSE LET lg == AddIf(sc.ha, log, Ev("after", 0, 0, 0))
             todo == (1 .. sc.n) \ (IF Mutant = 5 THEN started ELSE vis)
         IN IF todo = {} THEN pc' = "done" /\ ret' = 0 /\ log' = lg /\ UNCHANGED <<q, vis, depth, children, untilNext, started>>
            ELSE \E from \in todo :
                 LET st == Start(from, vis, AddIf(sc.hb, lg, Ev("before", 0, 0, 0))) IN
                 /\ q' = st.q /\ vis' = st.vis /\ log' = st.log
                 /\ depth' = 0 /\ children' = 0 /\ untilNext' = 1 /\ started' = started \cup {from}
                 /\ UNCHANGED <<ret, pc>>

Next == /\ pc = "loop" /\ step' = step + 1 /\ UNCHANGED sc
        /\ IF q = <<>> THEN Finish ELSE IF Alg = "bfs" THEN BfsStep ELSE DfsStep
Spec == Init /\ [][Next]_vars

V == 1 .. sc.n
Clauses ==
    IF Mode = "walk"
    THEN WalkClauses(Alg, Directed, V, sc.E, 1, sc.T, sc.K, sc.F, sc.hv, sc.hu, sc.ht, log, ret, vis, sc.vis0)
    ELSE WalkAllClauses(Alg, V, sc.E, sc.F, sc.hv, sc.ht, sc.hb, sc.ha, sc.hu, log, vis)
Conforms == pc = "done" => (AllTrue(Clauses) \/ (PrintT(<<"failed clauses", Failed(Clauses), sc, log, ret, vis>>) /\ FALSE))

DefsOK == step = 0 => /\ Reach(sc.E, 1) = ReachDef(V, sc.E, 1)
                      /\ {p[1] : p \in DistPairs(sc.E, 1)} = Reach(sc.E, 1)
                      /\ \A p \in DistPairs(sc.E, 1) : p[2] = HopDef(V, sc.E, 1, p[1])
=============================================================================
