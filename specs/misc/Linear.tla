------------------------------- MODULE Linear -------------------------------
(* graph/internal/linear: NodeStack (LIFO) and NodeQueue (FIFO) as sequences. *)
(*                                                                            *)
(*   NodeStack  Push(n)  append            Pop()  last element, removed       *)
(*              Len()                                                         *)
(*   NodeQueue  Enqueue(n) append          Dequeue()  first element, removed  *)
(*              Len()                      Reset()    becomes empty           *)
(* Removing from an empty container: the documentation is silent; the source  *)
(* is transcribed exactly: Dequeue panics ("queue: empty queue"), Pop slices  *)
(* v[:len(v)-1] of an empty slice, i.e. panics with a runtime error; in both  *)
(* cases the container is left empty and usable.  The model says "panics,     *)
(* state unchanged" (res = -1); which panic value is not compared.            *)
(*                                                                            *)
(* R2: every history of exactly Depth operations from the empty container,    *)
(* with the answer of every operation and Len after it.  The k-th inserted    *)
(* value is k (values are distinct, so order errors are visible; the harness  *)
(* binds k to real node ids).  R1: invariants LenOK / ConservationOK over all *)
(* histories (what comes out is what went in, in LIFO / FIFO order, nothing   *)
(* twice), and LinearImpl.tla (queue layout refinement).                      *)
EXTENDS Integers, Sequences, FiniteSets, TLC, Json

CONSTANTS Kind,     \* "stack" | "queue"
          Depth,
          Emit      \* TRUE: print the histories of length Depth

VARIABLES s,        \* the container as a sequence (front = index 1)
          h,        \* history: sequence of [op, v, res, len]
          k         \* number of insertions so far

Ops == IF Kind = "stack" THEN {"push", "pop"} ELSE {"enq", "deq", "reset"}

Apply(op) ==
    CASE op \in {"push", "enq"} ->
           /\ s' = Append(s, k + 1) /\ k' = k + 1
           /\ h' = Append(h, [op |-> op, v |-> k + 1, res |-> 0, len |-> Len(s) + 1])
      [] op = "pop" ->
           /\ k' = k
           /\ IF s = <<>> THEN s' = s /\ h' = Append(h, [op |-> op, v |-> 0, res |-> -1, len |-> 0])
              ELSE s' = SubSeq(s, 1, Len(s) - 1) /\ h' = Append(h, [op |-> op, v |-> 0, res |-> s[Len(s)], len |-> Len(s) - 1])
      [] op = "deq" ->
           /\ k' = k
           /\ IF s = <<>> THEN s' = s /\ h' = Append(h, [op |-> op, v |-> 0, res |-> -1, len |-> 0])
              ELSE s' = Tail(s) /\ h' = Append(h, [op |-> op, v |-> 0, res |-> Head(s), len |-> Len(s) - 1])
      [] op = "reset" ->
           /\ k' = k /\ s' = <<>> /\ h' = Append(h, [op |-> op, v |-> 0, res |-> 0, len |-> 0])

Init == s = <<>> /\ h = <<>> /\ k = 0
Next == Len(h) < Depth /\ \E op \in Ops : Apply(op)
Spec == Init /\ [][Next]_<<s, h, k>>

(* ---- R1: what the histories must satisfy, stated without the sequence s ---- *)
Outs == SelectSeq(h, LAMBDA e : e.res > 0)
OutVals == [i \in DOMAIN Outs |-> Outs[i].res]
LastReset == IF \E i \in DOMAIN h : h[i].op = "reset" THEN CHOOSE i \in DOMAIN h : h[i].op = "reset" /\ \A j \in DOMAIN h : h[j].op = "reset" => j <= i ELSE 0
LenOK == \* Len = insertions minus successful removals since the last Reset
    LET after == {i \in DOMAIN h : i > LastReset} IN
    Len(s) = Cardinality({i \in after : h[i].op \in {"push", "enq"}}) - Cardinality({i \in after : h[i].res > 0})
ConservationOK ==
    /\ Cardinality({OutVals[i] : i \in DOMAIN OutVals}) = Len(OutVals)            \* nothing comes out twice
    /\ \A i \in DOMAIN h : h[i].res > 0 => \E j \in 1 .. i - 1 : h[j].v = h[i].res \* only what went in before
    /\ Kind = "queue" => \A i \in 1 .. Len(OutVals) - 1 : OutVals[i] < OutVals[i + 1]   \* FIFO: in insertion order
    /\ Kind = "stack" => \A i \in DOMAIN h : h[i].res > 0 =>                       \* LIFO: the youngest value still inside
           \A j \in 1 .. i - 1 : (h[j].v > h[i].res) => \E m \in j + 1 .. i - 1 : h[m].res = h[j].v
    /\ \A i \in DOMAIN h : (h[i].res = -1) => h[i].len = 0                        \* panics only when empty

EmitOK == (Emit /\ Len(h) = Depth) => PrintT(ToJson([kind |-> Kind, h |-> h]))
=============================================================================
