-------------------------------- MODULE OrderX --------------------------------
(* The sorting helpers of gonum's internal/order package as sorting           *)
(* specifications: the result is THE sorted permutation of the input under    *)
(* the documented order.                                                      *)
(*   ByID           nodes by ID                                               *)
(*   BySliceValues  slices lexically by their values (a proper prefix first)  *)
(*   BySliceIDs     slices of nodes lexically by the node IDs                 *)
(*   LinesByIDs     lines by From ID, then To ID, then line ID                *)
(* All four are the lexicographic order on integer sequences (a node is the   *)
(* one-element sequence of its ID, a line the triple <<from, to, id>>), which *)
(* is a total order, so equal keys are equal values and the sorted result is  *)
(* unique.  R1: ASSUME OrderLemma (total order; prefix rule) and the          *)
(* invariant that the emitted result is sorted and a permutation of the       *)
(* input.  R2: every input list within the bound with its sorted result.      *)
EXTENDS Integers, Sequences, FiniteSets, TLC, Json

CONSTANTS Mode,     \* "values" (BySliceValues, BySliceIDs), "ids" (ByID), "lines" (LinesByIDs)
          MaxVal,   \* values / ids range over 0..MaxVal
          MaxLen,   \* maximum length of an inner slice
          MaxN      \* maximum number of elements of the list to sort

VARIABLE c

RECURSIVE LexLess(_, _)
LexLess(a, b) == IF a = <<>> THEN b # <<>>
                 ELSE IF b = <<>> THEN FALSE
                 ELSE IF Head(a) # Head(b) THEN Head(a) < Head(b)
                 ELSE LexLess(Tail(a), Tail(b))
LexLeq(a, b) == a = b \/ LexLess(a, b)

Vals == 0 .. MaxVal
SeqsUpTo(S, n) == UNION {[1 .. k -> S] : k \in 0 .. n}
Keys == CASE Mode = "values" -> SeqsUpTo(Vals, MaxLen)
          [] Mode = "ids" -> [1 .. 1 -> Vals]
          [] Mode = "lines" -> [1 .. 3 -> Vals]
Inputs == SeqsUpTo(Keys, MaxN)

\* selection sort by the specification's order (any sorting procedure gives the same list)
RECURSIVE SortSet(_, _)
Count(q, x) == Cardinality({i \in 1 .. Len(q) : q[i] = x})
Rep(x, n) == [i \in 1 .. n |-> x]
SortSet(S, q) == IF S = {} THEN <<>>
                 ELSE LET m == CHOOSE x \in S : \A y \in S : LexLeq(x, y) IN Rep(m, Count(q, m)) \o SortSet(S \ {m}, q)
Sorted(q) == SortSet({q[i] : i \in 1 .. Len(q)}, q)

IsSorted(q) == \A i \in 1 .. Len(q) - 1 : LexLeq(q[i], q[i + 1])
IsPerm(p, q) == Len(p) = Len(q) /\ \A i \in 1 .. Len(q) : Count(p, q[i]) = Count(q, q[i])

Init == c \in Inputs
Next == UNCHANGED c
Spec == Init /\ [][Next]_c

ResultOK == IsSorted(Sorted(c)) /\ IsPerm(Sorted(c), c)
Emit == PrintT(ToJson([k |-> Mode, in |-> c, out |-> Sorted(c)]))

OrderLemma == \A a, b \in Keys :
  /\ LexLeq(a, b) \/ LexLeq(b, a)
  /\ (LexLeq(a, b) /\ LexLeq(b, a)) => a = b
  /\ \A d \in Keys : (LexLeq(a, b) /\ LexLeq(b, d)) => LexLeq(a, d)
  /\ (Len(a) < Len(b) /\ a = SubSeq(b, 1, Len(a))) => LexLess(a, b)       \* a proper prefix sorts first
ASSUME OrderLemma
=============================================================================
