SPECIFICATION Spec
CONSTANTS
  Fam = "@FAM@"
INVARIANTS HessSym Emit
CHECK_DEADLOCK FALSE
