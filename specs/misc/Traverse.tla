------------------------------ MODULE Traverse ------------------------------
(* What gonum's graph/traverse promises, stated over finite sets.             *)
(*                                                                            *)
(* A walker (traverse.BreadthFirst / traverse.DepthFirst) is a small stateful *)
(* object: it remembers the set of visited node ids between calls of Walk     *)
(* until Reset.  One call                                                     *)
(*        Walk(g, from, until)   with the fields Visit and Traverse           *)
(* is observed as the LOG of its callbacks, in call order:                    *)
(*     [t |-> "visit", a |-> n]                Visit(n)                       *)
(*     [t |-> "until", a |-> n, b |-> d, r]    until(n, d) answered r (0/1);  *)
(*                                             d = -1 for DepthFirst          *)
(*     [t |-> "trav",  a |-> u, b |-> v, r]    Traverse(edge u->v) answered r *)
(* plus the returned node (0 = nil) and the set of nodes for which Visited    *)
(* reports true afterwards.                                                   *)
(*                                                                            *)
(* The order in which the neighbours of a node are handled is the             *)
(* implementation's (and the container's) choice, so this module states only  *)
(* what EVERY legal order satisfies:                                          *)
(*   - the walk stays inside the LIVE graph: edges refused by Traverse and    *)
(*     nodes visited by earlier walks of the same walker do not exist for it; *)
(*   - Visit / until are called at most once per node, only on nodes          *)
(*     reachable from `from` in the live graph;                               *)
(*   - BreadthFirst: the depth handed to until is the hop distance in the     *)
(*     live graph, and until sees the nodes in layer order;                   *)
(*   - DepthFirst: the order of first visits is a depth-first order: it is    *)
(*     accepted by the textbook recursive search for SOME order of the        *)
(*     neighbours (DfsAccept below);                                          *)
(*   - until never true: Walk returns nil and exactly the reachable set has   *)
(*     been visited (Visit calls = until calls = newly Visited nodes);        *)
(*   - until true on u: it was the last callback, Walk returns u, and the     *)
(*     visited set is a legal partial search (BFS: every node nearer than u   *)
(*     is visited and tested, nothing farther than one layer below u is       *)
(*     visited; DFS: the visited nodes are connected to `from` through        *)
(*     visited nodes and each was tested);                                    *)
(*   - Traverse is asked about every edge leaving a reached node (also edges  *)
(*     into already visited nodes), and about no other edge.                  *)
(* WalkAll (undirected graphs only - the parameter type is graph.Undirected)  *)
(* is observed the same way with "before" / "after" / "during" events.        *)
(*                                                                            *)
(* Node ids are integers >= 1; 0 is nil.  A graph is (V, E), E a set of       *)
(* ordered pairs; an undirected graph is a symmetric E.                       *)
EXTENDS Integers, Sequences, FiniteSets, TLC

Rng(s) == {s[i] : i \in DOMAIN s}
NoDup(s) == Cardinality(Rng(s)) = Len(s)
MinOf(S) == CHOOSE x \in S : \A y \in S : x <= y

Succ(E, u)    == {e[2] : e \in {d \in E : d[1] = u}}
SuccS(E, S)   == {e[2] : e \in {d \in E : d[1] \in S}}
Sym(E)        == E \cup {<<e[2], e[1]>> : e \in E}
Induced(E, S) == {e \in E : e[1] \in S /\ e[2] \in S}

RECURSIVE Grow(_, _)
Grow(E, S) == LET T == S \cup SuccS(E, S) IN IF T = S THEN S ELSE Grow(E, T)
Reach(E, u) == Grow(E, {u})                 \* u reaches itself

\* hop distance from u as a set of pairs <<v, d>> (one pair per reachable v)
RECURSIVE LayerPairs(_, _, _, _)
LayerPairs(E, seen, front, d) ==
    IF front = {} THEN {}
    ELSE LET nxt == SuccS(E, front) \ seen
         IN {<<v, d>> : v \in front} \cup LayerPairs(E, seen \cup nxt, nxt, d + 1)
DistPairs(E, u) == LayerPairs(E, {u}, {u}, 0)

\* the definitions the two operators above are checked against (TraverseImpl R1)
ReachDef(V, E, u) ==
    {v \in V : \E k \in 1 .. Cardinality(V) : \E p \in [1 .. k -> V] :
        p[1] = u /\ p[k] = v /\ \A i \in 1 .. k - 1 : <<p[i], p[i + 1]>> \in E}
HopDef(V, E, u, v) ==      \* least number of edges of a walk from u to v (v reachable)
    MinOf({k \in 0 .. Cardinality(V) : \E p \in [1 .. k + 1 -> V] :
        p[1] = u /\ p[k + 1] = v /\ \A i \in 1 .. k : <<p[i], p[i + 1]>> \in E})

(***************************************************************************)
(* Depth-first orders.  The textbook search keeps the path from the start   *)
(* to the current node; it moves to ANY unvisited successor of the current  *)
(* node and backtracks only when there is none.  seq (the visits after the  *)
(* start) is a depth-first order iff this search can produce it; a prefix   *)
(* of a depth-first order is accepted too (early exit).                     *)
(***************************************************************************)
RECURSIVE DfsAccept(_, _, _, _)
DfsAccept(E, path, vis, seq) ==
    IF seq = <<>> THEN TRUE
    ELSE IF path = <<>> THEN FALSE
    ELSE LET top == path[Len(path)]
             fresh == Succ(E, top) \ vis
         IN IF fresh = {} THEN DfsAccept(E, SubSeq(path, 1, Len(path) - 1), vis, seq)
            ELSE Head(seq) \in fresh /\ DfsAccept(E, Append(path, Head(seq)), vis \cup {Head(seq)}, Tail(seq))
IsDFSOrder(E, from, seq) == seq # <<>> => (seq[1] = from /\ DfsAccept(E, <<from>>, {from}, Tail(seq)))

(***************************************************************************)
(* One Walk.  Sets: V nodes, E edges (symmetric if undirected), T the nodes *)
(* on which the scripted until answers true, F the edges the scripted       *)
(* Traverse refuses (symmetric if undirected), vis0 the nodes visited       *)
(* before the call.  K: the scripted BreadthFirst until also answers true   *)
(* at every depth >= K.  hv / hu / ht: the Visit field / until parameter /  *)
(* Traverse field are non-nil.  The result is a sequence of named clauses.  *)
(***************************************************************************)
Sel(log, t) == SelectSeq(log, LAMBDA e : e.t = t)
NodesOf(s) == [i \in DOMAIN s |-> s[i].a]
Live(V, E, F, vis0) == Induced(E \ F, V \ vis0)

WalkClauses(alg, dir, V, E, from, T, K, F, hv, hu, ht, log, ret, seen, vis0) ==
    LET L == Live(V, E, F, vis0)
        R == Reach(L, from)
        DP == DistPairs(L, from)
        vs == NodesOf(Sel(log, "visit"))
        us == Sel(log, "until")
        un == NodesOf(us)
        ts == Sel(log, "trav")
        fired == {i \in DOMAIN us : us[i].r = 1}
        new == seen \ vis0
        asked == {<<ts[i].a, ts[i].b>> : i \in DOMAIN ts}
        bfs == alg = "bfs"
        Le(d) == {p[1] : p \in {q \in DP : q[2] <= d}}
        \* an undirected container may hand Traverse either orientation of an edge
        Rev(e) == <<e[2], e[1]>>
        AskedE(e) == e \in asked \/ (~dir /\ Rev(e) \in asked)
    IN <<
    <<"precondition (harness)", from \in V \ vis0 /\ T \subseteq V /\ F \subseteq E /\ (~ht => F = {}) /\ (~hu => T = {})>>,
    <<"only the three callbacks", \A i \in DOMAIN log : log[i].t \in {"visit", "until", "trav"}>>,
    <<"Visit at most once per node, on reachable nodes", NoDup(vs) /\ Rng(vs) \subseteq R /\ (~hv => vs = <<>>)>>,
    <<"until at most once per node, on reachable nodes", NoDup(un) /\ Rng(un) \subseteq R /\ (~hu => us = <<>>)>>,
    <<"until script (harness)", \A i \in DOMAIN us :
          us[i].r = IF us[i].a \in T \/ (bfs /\ us[i].b >= K) THEN 1 ELSE 0>>,
    <<"BreadthFirst depth is the hop distance", bfs => \A i \in DOMAIN us : <<us[i].a, us[i].b>> \in DP>>,
    <<"BreadthFirst tests nodes in layer order", bfs => \A i \in 1 .. Len(us) - 1 : us[i].b <= us[i + 1].b>>,
    <<"return value", IF fired = {} THEN ret = 0
                      ELSE fired = {Len(us)} /\ log[Len(log)].t = "until" /\ ret = us[Len(us)].a>>,
    <<"Visited keeps earlier visits", vis0 \subseteq seen>>,
    <<"Visit calls are exactly the newly Visited nodes", hv => Rng(vs) = new>>,
    <<"full walk visits exactly the reachable set", fired = {} => (new = R /\ (hu => Rng(un) = R))>>,
    <<"BreadthFirst early exit", (bfs /\ fired # {}) =>
          LET d == us[Len(us)].b IN
          /\ Le(d - 1) \cup {ret} \subseteq Rng(un) /\ Rng(un) \subseteq Le(d)
          /\ Le(d - 1) \cup {ret} \subseteq new /\ new \subseteq Le(d + 1)>>,
    <<"DepthFirst early exit", (~bfs /\ fired # {}) =>
          /\ ret \in new /\ new \subseteq Reach(Induced(L, new), from)
          /\ Rng(un) = new>>,
    <<"DepthFirst order", ~bfs => /\ (hv => IsDFSOrder(L, from, vs))
                                  /\ (hu => IsDFSOrder(L, from, un))
                                  /\ ((hv /\ hu) => vs = un)>>,
    <<"Traverse script (harness)", /\ (~ht => ts = <<>>)
                                   /\ \A i \in DOMAIN ts : ts[i].r = IF <<ts[i].a, ts[i].b>> \in F THEN 0 ELSE 1>>,
    <<"Traverse only on edges leaving a visited node", asked \subseteq {e \in E : e[1] \in new \/ (~dir /\ e[2] \in new)}>>,
    <<"Traverse on every edge leaving a reached node", (ht /\ fired = {}) => \A e \in E : e[1] \in R => AskedE(e)>>
    >>

(***************************************************************************)
(* WalkAll(g, before, after, during) on an undirected graph: Reset, then a  *)
(* Walk from every node not yet visited, `during` playing until (never      *)
(* true).  hb / ha / hd: before / after / during are non-nil.               *)
(***************************************************************************)
Comps(V, L) == {Reach(L, u) : u \in V}

WalkAllClauses(alg, V, E, F, hv, ht, hb, ha, hd, log, seen) ==
    LET L == E \ F
        C == Comps(V, L)
        B == {i \in DOMAIN log : log[i].t = "before"}
        A == {i \in DOMAIN log : log[i].t = "after"}
        M == B \cup A
        Close(p) == IF {q \in A : q > p} = {} THEN Len(log) + 1 ELSE MinOf({q \in A : q > p})
        Block(p, t) == NodesOf(Sel(SubSeq(log, p + 1, Close(p) - 1), t))
        ds == NodesOf(Sel(log, "during"))
        vs == NodesOf(Sel(log, "visit"))
        ts == Sel(log, "trav")
        asked == {<<ts[i].a, ts[i].b>> : i \in DOMAIN ts}
        marks == SelectSeq(log, LAMBDA e : e.t \in {"before", "after"})
        paired == hb /\ ha
    IN <<
    <<"precondition (harness)", F \subseteq E /\ E = Sym(E) /\ F = Sym(F) /\ (~ht => F = {})>>,
    <<"only the five callbacks", \A i \in DOMAIN log : log[i].t \in {"visit", "trav", "before", "after", "during"}>>,
    <<"before once per component", IF hb THEN Cardinality(B) = Cardinality(C) ELSE B = {}>>,
    <<"after once per component", IF ha THEN Cardinality(A) = Cardinality(C) ELSE A = {}>>,
    <<"before / after alternate", paired => \A i \in DOMAIN marks : marks[i].t = IF i % 2 = 1 THEN "before" ELSE "after">>,
    <<"nothing happens outside a before / after pair", paired =>
          \A i \in DOMAIN log \ M : \E p \in B : p < i /\ \A q \in A : ~(p < q /\ q < i)>>,
    <<"during exactly once per node", IF hd THEN NoDup(ds) /\ Rng(ds) = V ELSE ds = <<>>>>,
    <<"Visit exactly once per node", IF hv THEN NoDup(vs) /\ Rng(vs) = V ELSE vs = <<>>>>,
    <<"each walk covers one connected component", paired =>
          /\ (hd => {Rng(Block(p, "during")) : p \in B} = C)
          /\ (hv => {Rng(Block(p, "visit")) : p \in B} = C)>>,
    <<"DepthFirst order inside each walk", (alg = "dfs" /\ paired) => \A p \in B :
          /\ (hd => LET s == Block(p, "during") IN s # <<>> /\ IsDFSOrder(L, s[1], s))
          /\ (hv => LET s == Block(p, "visit") IN s # <<>> /\ IsDFSOrder(L, s[1], s))>>,
    <<"Traverse script (harness)", /\ (~ht => ts = <<>>)
                                   /\ \A i \in DOMAIN ts : ts[i].r = IF <<ts[i].a, ts[i].b>> \in F THEN 0 ELSE 1>>,
    <<"Traverse on every edge and only on edges", /\ asked \subseteq E
                                                  /\ (ht => \A e \in E : e \in asked \/ <<e[2], e[1]>> \in asked)>>,
    <<"Visited = the nodes of the graph", seen = V>>
    >>

AllTrue(cl) == \A i \in DOMAIN cl : cl[i][2]
Failed(cl) == {cl[i][1] : i \in {j \in DOMAIN cl : ~cl[j][2]}}
=============================================================================
