SPECIFICATION Spec
CONSTANTS
  Kind = "@KIND@"
  Depth = @DEPTH@
  Emit = @EMIT@
INVARIANTS LenOK ConservationOK EmitOK
CHECK_DEADLOCK FALSE
