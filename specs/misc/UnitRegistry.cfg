SPECIFICATION Spec
CONSTANTS
  Depth = @DEPTH@
  Emit = @EMIT@
INVARIANTS NoDup NoClash EmitState
CHECK_DEADLOCK FALSE
