----------------------------- MODULE ScalarFloat -----------------------------
(* floats/scalar on exactly specifiable inputs.                               *)
(*                                                                            *)
(* A float64 that is not a NaN is a point of the ULP lattice: a sign and the  *)
(* 63-bit pattern m of its magnitude (consecutive floats of one sign have     *)
(* consecutive m; m = 0 is zero - both signs are the same lattice point -,    *)
(* m = InfM is infinity).  TLC integers are 32 bit, so 64-bit naturals are    *)
(* little-endian sequences of four 21-bit limbs.                              *)
(*                                                                            *)
(*  ulp    EqualWithinULP(a, b, u)  <=>  neither is NaN and the lattice       *)
(*         distance |pos(a) - pos(b)| <= u   (pos = +-m);  Same(a, b)         *)
(*  nan    NaNWith(p) has the bits QNaN + (p mod 2^51); NaNPayload(f) is      *)
(*         (bits - QNaN, true) iff the magnitude bits are >= QNaN, else (0,   *)
(*         false) (signalling NaNs, infinities, finite numbers)               *)
(*  round  Round / RoundEven(k / 2^j, prec): the rational round(x 10^prec) /  *)
(*         10^prec with ties away from zero / to even; special values         *)
(*  eq     EqualWithinAbs / Rel / AbsOrRel on quarter-integers: the           *)
(*         documented inequalities evaluated exactly                          *)
(*  parse  ParseWithNA on a table of strings with known values                *)
(* R1: the ASSUMEd lemmas at the end (limb arithmetic, the ULP distance is a  *)
(* metric, rounding laws).  R2: one printed case per point of each table.     *)
EXTENDS Integers, Sequences, FiniteSets, TLC, Json

CONSTANTS Mode,     \* "ulp" | "nan" | "round" | "eq" | "parse"
          Wide      \* BOOLEAN: larger grids (thorough tier)

VARIABLE c

(************************ 84-bit naturals in 21-bit limbs ********************)
B == 2097152                      \* 2^21
L(n) == <<n, 0, 0, 0>>            \* n < 2^21
RECURSIVE AddC(_, _, _, _)
AddC(a, b, i, carry) == IF i > 4 THEN <<>>
                        ELSE LET s == a[i] + b[i] + carry IN <<s % B>> \o AddC(a, b, i + 1, s \div B)
LAdd(a, b) == AddC(a, b, 1, 0)    \* no overflow for the values used (< 2^65)
RECURSIVE SubC(_, _, _, _)
SubC(a, b, i, borrow) == IF i > 4 THEN <<>>
                         ELSE LET s == a[i] - b[i] - borrow IN
                              IF s < 0 THEN <<s + B>> \o SubC(a, b, i + 1, 1) ELSE <<s>> \o SubC(a, b, i + 1, 0)
RECURSIVE LessFrom(_, _, _)
LessFrom(a, b, i) == IF i = 0 THEN FALSE ELSE IF a[i] # b[i] THEN a[i] < b[i] ELSE LessFrom(a, b, i - 1)
LLess(a, b) == LessFrom(a, b, 4)
LLeq(a, b) == a = b \/ LLess(a, b)
LSub(a, b) == SubC(a, b, 1, 0)    \* requires b <= a
LDist(a, b) == IF LLess(a, b) THEN LSub(b, a) ELSE LSub(a, b)

(****************************** float64 lattice *****************************)
Pow52(e) == <<0, 0, e * 1024, 0>>          \* e * 2^52, e < 2048 (biased exponent field)
ZeroM == L(0)
MinNormalM == Pow52(1)
OneM == Pow52(1023)
TwoM == Pow52(1024)
InfM == Pow52(2047)
QNaNM == <<0, 0, 2096640, 0>>              \* 0x7FF8000000000000
MaxM == <<B - 1, B - 1, B - 1, 0>>         \* 0x7FFFFFFFFFFFFFFF
MaxU64 == <<B - 1, B - 1, B - 1, 1>>       \* 2^64 - 1

Fin(s, m) == [nan |-> FALSE, s |-> s, m |-> m]
NaNv(s, p) == [nan |-> TRUE, s |-> s, m |-> LAdd(QNaNM, L(p))]    \* a quiet NaN with a small payload
IsInf(x) == ~x.nan /\ x.m = InfM

Mags == {LAdd(ZeroM, L(o)) : o \in 0 .. 3}
        \cup {LSub(MinNormalM, L(1)), MinNormalM, LAdd(MinNormalM, L(1))}
        \cup {LSub(OneM, L(o)) : o \in 1 .. 3} \cup {LAdd(OneM, L(o)) : o \in 0 .. 3}
        \cup {LSub(TwoM, L(o)) : o \in 1 .. 2} \cup {LAdd(TwoM, L(o)) : o \in 0 .. 2}
        \cup {LSub(InfM, L(o)) : o \in 0 .. 2}
        \cup (IF Wide THEN {LAdd(ZeroM, L(o)) : o \in 4 .. 6} \cup {LSub(InfM, L(3)), LAdd(OneM, L(B - 1)), LAdd(OneM, <<0, 1, 0, 0>>)} ELSE {})
Floats == {Fin(s, m) : s \in {0, 1}, m \in Mags} \cup {NaNv(0, 1), NaNv(1, 5)}

Ulps == {L(u) : u \in {0, 1, 2, 3, 4, 6}} \cup {<<0, 1, 0, 0>>, Pow52(2), MaxU64}
        \cup (IF Wide THEN {L(5), L(7), L(8), L(B - 1), Pow52(2046)} ELSE {})

\* lattice distance: same sign |ma - mb|, opposite signs ma + mb (through the single zero)
Dist(a, b) == IF a.s = b.s THEN LDist(a.m, b.m) ELSE LAdd(a.m, b.m)
IeeeEq(a, b) == ~a.nan /\ ~b.nan /\ a.m = b.m /\ (a.s = b.s \/ a.m = ZeroM)
WithinULP(a, b, u) == ~a.nan /\ ~b.nan /\ LLeq(Dist(a, b), u)
Same(a, b) == IeeeEq(a, b) \/ (a.nan /\ b.nan)
\* the documentation does not say whether an infinity is a lattice point next to MaxFloat64:
\* comparisons of an infinity with anything but itself or a NaN are left open
UlpOpen(a, b) == ~a.nan /\ ~b.nan /\ (IsInf(a) \/ IsInf(b)) /\ ~IeeeEq(a, b)

UlpCases == {[k |-> "ulp", a |-> a, b |-> b, u |-> u, eq |-> WithinULP(a, b, u), open |-> UlpOpen(a, b),
              same |-> Same(a, b)] : a \in Floats, b \in Floats, u \in Ulps}

(********************************* NaN payloads *****************************)
Mod51(p) == <<p[1], p[2], p[3] % 512, 0>>         \* 51 = 21 + 21 + 9
Payloads == {L(0), L(1), L(2), L(B - 1), <<0, 1, 0, 0>>, <<0, 32, 0, 0>>, <<0, 0, 1, 0>>,
             <<B - 1, B - 1, 511, 0>>, <<0, 0, 512, 0>>, <<1, 0, 512, 0>>, <<5, 0, 1024, 0>>,
             <<0, 0, 0, 1>>, MaxU64, <<12345, 67890, 333, 0>>}
NaNWithBits(p) == LAdd(QNaNM, Mod51(p))
PayloadOf(m) == IF LLeq(QNaNM, m) THEN [p |-> LSub(m, QNaNM), ok |-> TRUE] ELSE [p |-> L(0), ok |-> FALSE]
Patterns == {ZeroM, L(1), OneM, LSub(InfM, L(1)), InfM, LAdd(InfM, L(1)), LAdd(InfM, <<0, 0, 1, 0>>),
             LSub(QNaNM, L(1)), QNaNM, LAdd(QNaNM, L(1)), LAdd(QNaNM, <<0, 32, 0, 0>>), MaxM}
NanWithCases == {[k |-> "nanwith", p |-> p, bits |-> NaNWithBits(p), back |-> Mod51(p)] : p \in Payloads}
PayloadCases == {[k |-> "payload", s |-> s, m |-> m, p |-> PayloadOf(m).p, ok |-> PayloadOf(m).ok] : s \in {0, 1}, m \in Patterns}

(********************************** rounding ********************************)
AbsI(x) == IF x < 0 THEN -x ELSE x
SgnI(x) == IF x < 0 THEN -1 ELSE IF x > 0 THEN 1 ELSE 0
RECURSIVE Pow(_, _)
Pow(b, e) == IF e = 0 THEN 1 ELSE b * Pow(b, e - 1)
\* round the rational n/d (d > 0) to an integer; even = FALSE: ties away from zero, TRUE: ties to even
RoundQ(n, d, even) ==
  LET a == AbsI(n)  q == a \div d  r == a % d IN
  SgnI(n) * (IF 2 * r > d THEN q + 1
             ELSE IF 2 * r < d THEN q
             ELSE IF even THEN (IF q % 2 = 0 THEN q ELSE q + 1) ELSE q + 1)
\* Round(k / 2^j, p) as a rational <<num, den>>
RoundDef(k, j, p, even) ==
  IF p >= 0 THEN <<RoundQ(k * Pow(10, p), Pow(2, j), even), Pow(10, p)>>
  ELSE <<RoundQ(k, Pow(2, j) * Pow(10, -p), even) * Pow(10, -p), 1>>
KMax == IF Wide THEN 130 ELSE 45
Precs == {0, 1, 2, 3, 4, 5, 6, 7}          \* prec = index - 2  (cfg files and sets of negative numbers do not mix)
RoundCases ==
  {[k |-> "round", x |-> [num |-> kk, j |-> j], prec |-> pp - 2, even |-> ev,
    r |-> LET q == RoundDef(kk, j, pp - 2, ev) IN [num |-> q[1], den |-> q[2]]]
     : kk \in (-KMax) .. KMax, j \in 0 .. 4, pp \in Precs, ev \in BOOLEAN}
\* prec beyond the number of fractional digits of x (a dyadic k/2^j has exactly j) returns x itself
\* (HugeLemma below); prec = -400 returns 0; zero, infinities and NaN are special
HugeCases == {[k |-> "roundhuge", x |-> [num |-> kk, j |-> j], prec |-> p, even |-> ev] :
                kk \in {-45, -7, -1, 1, 3, 5, 44}, j \in 0 .. 4, p \in {17, 400}, ev \in BOOLEAN}
TinyCases == {[k |-> "roundtiny", x |-> [num |-> kk, j |-> j], prec |-> 400, even |-> ev] :
                kk \in {-45, -1, 1, 5}, j \in {0, 3}, ev \in BOOLEAN}   \* prec = -400, printed as 400
SpecialCases == {[k |-> "roundspecial", x |-> x, prec |-> pp - 2, even |-> ev] :
                   x \in {"+0", "-0", "+Inf", "-Inf", "NaN"}, pp \in Precs, ev \in BOOLEAN}

(************************** tolerance comparisons ***************************)
\* operands are quarter-integers A/4 or one of NaN, +Inf, -Inf ; tolerances T/4
Quarter == (IF Wide THEN -9 ELSE -6) .. (IF Wide THEN 9 ELSE 6)
Tols == {0, 1, 2, 4, 6}
Num(A) == [t |-> "q", v |-> A]
Spc(t) == [t |-> t, v |-> 0]
Operands == {Num(A) : A \in Quarter} \cup {Spc("nan"), Spc("+inf"), Spc("-inf")}
IsNum(x) == x.t = "q"
SameVal(a, b) == IF IsNum(a) /\ IsNum(b) THEN a.v = b.v ELSE a.t = b.t /\ a.t # "nan"
\* "absolute difference not greater than tol" ; |inf - x| = inf > tol, |inf - inf| (same sign) is a = b
AbsEq(a, b, T) == SameVal(a, b) \/ (IsNum(a) /\ IsNum(b) /\ AbsI(a.v - b.v) <= T)
\* abs(a-b) <= tol * max(abs(a), abs(b))  in quarters: |A-B|/4 <= (T/4)(M/4)
MaxI(x, y) == IF x > y THEN x ELSE y
RelEq(a, b, T) == SameVal(a, b) \/ (IsNum(a) /\ IsNum(b) /\ 4 * AbsI(a.v - b.v) <= T * MaxI(AbsI(a.v), AbsI(b.v)))
\* the documented inequality reads inf <= tol*inf when exactly one operand is infinite or the
\* infinities differ in sign, the code deliberately answers false: left open
RelOpen(a, b) == ~SameVal(a, b) /\ a.t # "nan" /\ b.t # "nan" /\ (~IsNum(a) \/ ~IsNum(b))
EqCases == {[k |-> "eq", a |-> a, b |-> b, ta |-> Ta, tr |-> Tr, abs |-> AbsEq(a, b, Ta), rel |-> RelEq(a, b, Tr),
             relopen |-> RelOpen(a, b)] : a \in Operands, b \in Operands, Ta \in Tols, Tr \in Tols}

(********************************* ParseWithNA ******************************)
\* strings with the value a float parser gives them (valid = FALSE: not a number)
Strs == { [s |-> "1", valid |-> TRUE, n |-> 1, d |-> 1], [s |-> "0.5", valid |-> TRUE, n |-> 1, d |-> 2],
          [s |-> "-2", valid |-> TRUE, n |-> -2, d |-> 1], [s |-> "1e2", valid |-> TRUE, n |-> 100, d |-> 1],
          [s |-> "0.375", valid |-> TRUE, n |-> 3, d |-> 8],
          [s |-> "NA", valid |-> FALSE, n |-> 0, d |-> 1], [s |-> "", valid |-> FALSE, n |-> 0, d |-> 1],
          [s |-> "x", valid |-> FALSE, n |-> 0, d |-> 1], [s |-> " 1", valid |-> FALSE, n |-> 0, d |-> 1],
          [s |-> "1,5", valid |-> FALSE, n |-> 0, d |-> 1] }
ParseCases == {[k |-> "parse", s |-> x.s, missing |-> m.s,
                r |-> IF x.s = m.s THEN [err |-> FALSE, n |-> 0, d |-> 1, w |-> 0]
                      ELSE IF x.valid THEN [err |-> FALSE, n |-> x.n, d |-> x.d, w |-> 1]
                      ELSE [err |-> TRUE, n |-> 0, d |-> 1, w |-> 0]] : x \in Strs, m \in Strs}

(******************************** state machine *****************************)
Init == CASE Mode = "ulp" -> c \in UlpCases
          [] Mode = "nan" -> (c \in NanWithCases \/ c \in PayloadCases)
          [] Mode = "round" -> (c \in RoundCases \/ c \in HugeCases \/ c \in TinyCases \/ c \in SpecialCases)
          [] Mode = "eq" -> c \in EqCases
          [] Mode = "parse" -> c \in ParseCases
Next == UNCHANGED c
Spec == Init /\ [][Next]_c
Emit == PrintT(ToJson(c))

(************************************ R1 ************************************)
Small == {L(0), L(1), L(B - 1), <<0, 1, 0, 0>>, <<B - 1, B - 1, 0, 0>>, OneM, InfM, MaxM, <<5, 7, 9, 0>>}
LimbLemma == \A a, b \in Small :
  /\ LSub(LAdd(a, b), b) = a
  /\ LAdd(a, b) = LAdd(b, a)
  /\ (LLeq(a, b) \/ LLeq(b, a)) /\ ((LLeq(a, b) /\ LLeq(b, a)) => a = b)
  /\ LLeq(a, LAdd(a, b))
  /\ LDist(a, b) = LDist(b, a) /\ (LDist(a, b) = L(0)) = (a = b)
FinFloats == {x \in Floats : ~x.nan}
MetricLemma ==
  /\ \A a, b \in FinFloats : Dist(a, b) = Dist(b, a) /\ ((Dist(a, b) = L(0)) = IeeeEq(a, b))
  /\ \A a, b, d \in {x \in FinFloats : x.m \in {LAdd(ZeroM, L(o)) : o \in 0 .. 3} \cup {OneM, LAdd(OneM, L(2)), InfM}} :
       LLeq(Dist(a, d), LAdd(Dist(a, b), Dist(b, d)))
  /\ \A a, b \in Floats : \A u, v \in Ulps : (LLeq(u, v) /\ WithinULP(a, b, u)) => WithinULP(a, b, v)
RoundLemma == \A kk \in -40 .. 40 : \A j \in 0 .. 4 : \A pp \in Precs : \A ev \in BOOLEAN :
  LET p == pp - 2  q == RoundDef(kk, j, p, ev)  m == RoundDef(-kk, j, p, ev) IN
  /\ m[1] = -q[1] /\ m[2] = q[2]                                     \* odd function
  /\ (p >= j) => q[1] * Pow(2, j) = kk * q[2]                        \* HugeLemma: enough digits -> x itself
  /\ 2 * AbsI(q[1] * Pow(2, j) - kk * q[2]) * (IF p >= 0 THEN q[2] ELSE 1) <= Pow(2, j) * q[2] * (IF p >= 0 THEN 1 ELSE Pow(10, -p))   \* |r - x| <= 10^-p / 2
  /\ (RoundDef(kk, j, p, TRUE) # RoundDef(kk, j, p, FALSE)) =>       \* the modes differ only at ties
        (IF p >= 0 THEN (2 * kk * Pow(10, p)) % Pow(2, j) = 0 /\ ((2 * kk * Pow(10, p)) \div Pow(2, j)) % 2 # 0
         ELSE (2 * kk) % (Pow(2, j) * Pow(10, -p)) = 0)
ASSUME LimbLemma
ASSUME MetricLemma
ASSUME RoundLemma
=============================================================================
