SPECIFICATION Spec
CONSTANTS
  Mode = "@MODE@"
  MaxN = @MAXN@
INVARIANTS Emit
CHECK_DEADLOCK FALSE
