---------------------------- MODULE OptFunctions ----------------------------
(* gonum's optimize/functions: the classic test functions, stated by their     *)
(* DOCUMENTED definitions (More, Garbow, Hillstrom 1981; More, Thuente 1994;   *)
(* the Virtual Library of Simulation Experiments pages quoted in the doc       *)
(* comments) as expression trees over exact rationals.                         *)
(*                                                                             *)
(* One definition per function.  The value, the gradient and the Hessian are   *)
(* DERIVED from it by the module's own calculus (V, D1, D2: sum, product,      *)
(* quotient and chain rules), so nothing of gonum's hand-written Grad / Hess   *)
(* formulas is transcribed.                                                    *)
(*                                                                             *)
(* Numbers are rationals <<n, d>> (d > 0, lowest terms) or UNK = <<0, 0>>:     *)
(* "a finite real number this module cannot name" (exp, sin, cos, sqrt ... of  *)
(* an argument where the result is not rational; pi).  0 * UNK = 0.  A point   *)
(* is used for a clause only where the result is rational, so the module       *)
(* itself decides where a transcendental function is stateable: exp(0) = 1,    *)
(* sin(0) = 0, cos(0) = 1, sin / cos of multiples of pi/2, square roots of     *)
(* perfect squares, 1^p = 1, atan(0) = 0.                                      *)
(*                                                                             *)
(* R1: CalculusLemma (ASSUME): the calculus on monomials, products and         *)
(* quotients against the closed forms; MinimaLemma: at every documented        *)
(* rational minimiser the value is the documented one and the gradient is 0;   *)
(* invariant HessSym.  R2: one JSON record per (function, point).              *)
EXTENDS X03Rat, Json

CONSTANTS Fam        \* "points": the point evaluations; "tables": dimensions, documented minima, MinimalSurface

VARIABLE c

(*************************** expression trees ******************************)
C(n, d) == [k |-> "c", q |-> Q(n, d)]
N(n) == C(n, 1)
X(i) == [k |-> "x", i |-> i]
Add(a, b) == [k |-> "add", l |-> a, r |-> b]
Sub(a, b) == [k |-> "sub", l |-> a, r |-> b]
Mul(a, b) == [k |-> "mul", l |-> a, r |-> b]
Inv(a) == [k |-> "inv", l |-> a]
Div(a, b) == Mul(a, Inv(b))
Sq(a) == Mul(a, a)
Cube(a) == Mul(a, Sq(a))
P4(a) == Sq(Sq(a))
Fn(name, a) == [k |-> name, l |-> a]       \* exp sin cos sqrt abs sinpi cospi sinpiopi pow01 atanopi
Ite(a, b, t, f) == [k |-> "ite", a |-> a, b |-> b, t |-> t, f |-> f]       \* IF a <= b THEN t ELSE f
PiInv == [k |-> "unk"]                      \* 1/pi: a finite real without a name
RECURSIVE SumE(_)
SumE(s) == IF Len(s) = 0 THEN N(0) ELSE IF Len(s) = 1 THEN s[1] ELSE Add(SumE(SubSeq(s, 1, Len(s) - 1)), s[Len(s)])
RECURSIVE ProdE(_)
ProdE(s) == IF Len(s) = 0 THEN N(1) ELSE IF Len(s) = 1 THEN s[1] ELSE Mul(ProdE(SubSeq(s, 1, Len(s) - 1)), s[Len(s)])
RECURSIVE PowE(_, _)
PowE(a, n) == IF n = 0 THEN N(1) ELSE IF n = 1 THEN a ELSE Mul(PowE(a, n - 1), a)

\* sin(pi*v), cos(pi*v) for 2v an integer
HalfTurns(v) == IF IsQ(v) /\ (v[2] = 1 \/ v[2] = 2) THEN (IF v[2] = 1 THEN 2 * v[1] ELSE v[1]) % 4 ELSE -1
SinPi(v) == LET h == HalfTurns(v) IN IF h = -1 THEN UNK ELSE IF h = 1 THEN One ELSE IF h = 3 THEN I(-1) ELSE Zero
CosPi(v) == LET h == HalfTurns(v) IN IF h = -1 THEN UNK ELSE IF h = 0 THEN One ELSE IF h = 2 THEN I(-1) ELSE Zero

RECURSIVE V(_, _)
\* the value of the function named by a one-argument node at the argument value u
F1(name, u) == CASE name = "exp" -> IF u = Zero THEN One ELSE UNK
                 [] name = "sin" -> IF u = Zero THEN Zero ELSE UNK
                 [] name = "cos" -> IF u = Zero THEN One ELSE UNK
                 [] name = "sqrt" -> RSqrt(u)
                 [] name = "abs" -> RAbs(u)
                 [] name = "sinpi" -> SinPi(u)
                 [] name = "cospi" -> CosPi(u)
                 [] name = "sinpiopi" -> IF SinPi(u) = Zero THEN Zero ELSE UNK      \* sin(pi u) / pi
                 [] name = "pow01" -> IF u = Zero \/ u = One THEN u ELSE UNK          \* u^p for a real p > 0
                 [] name = "atanopi" -> IF u = Zero THEN Zero ELSE UNK                \* atan(u) / pi
                 [] name = "emexp" -> IF u = One THEN Zero ELSE UNK                   \* e - exp(u)
\* the derivative of that function at u, and its second derivative
F1d(name, u) == CASE name = "exp" -> F1("exp", u)
                  [] name = "sin" -> F1("cos", u)
                  [] name = "cos" -> RNeg(F1("sin", u))
                  [] name = "sqrt" -> RInv(RMul(I(2), RSqrt(u)))
                  [] name = "abs" -> IF IsQ(u) /\ u[1] > 0 THEN One ELSE IF IsQ(u) /\ u[1] < 0 THEN I(-1) ELSE UNK
                  [] name = "sinpiopi" -> CosPi(u)
                  [] name = "cospi" -> IF SinPi(u) = Zero THEN Zero ELSE UNK
                  [] OTHER -> UNK
F1dd(name, u) == CASE name = "exp" -> F1("exp", u)
                   [] name = "sin" -> RNeg(F1("sin", u))
                   [] name = "cos" -> RNeg(F1("cos", u))
                   [] name = "sqrt" -> RNeg(RInv(RMul(I(4), RMul(RSqrt(u), u))))
                   [] name = "abs" -> IF IsQ(u) /\ u[1] # 0 THEN Zero ELSE UNK
                   [] name = "sinpiopi" -> IF SinPi(u) = Zero THEN Zero ELSE UNK
                   [] OTHER -> UNK

V(e, x) == CASE e.k = "c" -> e.q
             [] e.k = "x" -> x[e.i]
             [] e.k = "unk" -> UNK
             [] e.k = "add" -> RAdd(V(e.l, x), V(e.r, x))
             [] e.k = "sub" -> RSub(V(e.l, x), V(e.r, x))
             [] e.k = "mul" -> RMul(V(e.l, x), V(e.r, x))
             [] e.k = "inv" -> RInv(V(e.l, x))
             [] e.k = "ite" -> LET a == V(e.a, x) b == V(e.b, x) IN
                               IF ~IsQ(a) \/ ~IsQ(b) THEN UNK ELSE IF RLe(a, b) THEN V(e.t, x) ELSE V(e.f, x)
             [] OTHER -> F1(e.k, V(e.l, x))

RECURSIVE D1(_, _, _)
D1(e, x, j) == CASE e.k = "c" -> Zero
                 [] e.k = "x" -> IF e.i = j THEN One ELSE Zero
                 [] e.k = "unk" -> Zero
                 [] e.k = "add" -> RAdd(D1(e.l, x, j), D1(e.r, x, j))
                 [] e.k = "sub" -> RSub(D1(e.l, x, j), D1(e.r, x, j))
                 [] e.k = "mul" -> RAdd(RMul(V(e.l, x), D1(e.r, x, j)), RMul(V(e.r, x), D1(e.l, x, j)))
                 [] e.k = "inv" -> LET u == V(e.l, x) IN RNeg(RMul(D1(e.l, x, j), RInv(RMul(u, u))))
                 [] e.k = "ite" -> LET a == V(e.a, x) b == V(e.b, x) IN
                                   IF ~IsQ(a) \/ ~IsQ(b) THEN UNK ELSE IF RLe(a, b) THEN D1(e.t, x, j) ELSE D1(e.f, x, j)
                 [] OTHER -> RMul(F1d(e.k, V(e.l, x)), D1(e.l, x, j))

RECURSIVE D2(_, _, _, _)
D2(e, x, j, m) ==
  CASE e.k = "c" -> Zero
    [] e.k = "x" -> Zero
    [] e.k = "unk" -> Zero
    [] e.k = "add" -> RAdd(D2(e.l, x, j, m), D2(e.r, x, j, m))
    [] e.k = "sub" -> RSub(D2(e.l, x, j, m), D2(e.r, x, j, m))
    [] e.k = "mul" -> RAdd(RAdd(RMul(V(e.l, x), D2(e.r, x, j, m)), RMul(V(e.r, x), D2(e.l, x, j, m))),
                           RAdd(RMul(D1(e.l, x, j), D1(e.r, x, m)), RMul(D1(e.l, x, m), D1(e.r, x, j))))
    [] e.k = "inv" -> LET u == V(e.l, x) u2 == RMul(u, u) IN
                      RAdd(RNeg(RMul(D2(e.l, x, j, m), RInv(u2))),
                           RMul(I(2), RMul(RMul(D1(e.l, x, j), D1(e.l, x, m)), RInv(RMul(u2, u)))))
    [] e.k = "ite" -> LET a == V(e.a, x) b == V(e.b, x) IN
                      IF ~IsQ(a) \/ ~IsQ(b) THEN UNK ELSE IF RLe(a, b) THEN D2(e.t, x, j, m) ELSE D2(e.f, x, j, m)
    [] OTHER -> LET u == V(e.l, x) IN RAdd(RMul(F1d(e.k, u), D2(e.l, x, j, m)),
                                            RMul(F1dd(e.k, u), RMul(D1(e.l, x, j), D1(e.l, x, m))))

(************************ the documented definitions ***********************)
Xs(n) == [i \in 1 .. n |-> X(i)]
SumSq(fs) == SumE([i \in 1 .. Len(fs) |-> Sq(fs[i])])

\* More, Garbow, Hillstrom (MGH) problem 5
Beale == SumSq([i \in 1 .. 3 |-> Sub(C(<<3, 9, 21>>[i], <<2, 4, 8>>[i]), Mul(X(1), Sub(N(1), PowE(X(2), i))))])
\* MGH 4
BrownBadlyScaled == SumSq(<<Sub(X(1), N(1000000)), Sub(X(2), C(2, 1000000)), Sub(Mul(X(1), X(2)), N(2))>>)
\* MGH 22 (n a multiple of 4): f1 = x1+10x2, f2 = sqrt5 (x3-x4), f3 = (x2-2x3)^2, f4 = sqrt10 (x1-x4)^2
PowellBlock(b) == LET x1 == X(4 * b + 1) x2 == X(4 * b + 2) x3 == X(4 * b + 3) x4 == X(4 * b + 4) IN
  SumE(<<Sq(Add(x1, Mul(N(10), x2))), Mul(N(5), Sq(Sub(x3, x4))), P4(Sub(x2, Mul(N(2), x3))), Mul(N(10), P4(Sub(x1, x4)))>>)
ExtendedPowellSingular(n) == SumE([b \in 1 .. n \div 4 |-> PowellBlock(b - 1)])
\* the chained Rosenbrock function sum_{i<n} (1-x_i)^2 + 100 (x_{i+1} - x_i^2)^2
ExtendedRosenbrock(n) == SumE([i \in 1 .. (IF n = 0 THEN 0 ELSE n - 1) |->
                               Add(Sq(Sub(N(1), X(i))), Mul(N(100), Sq(Sub(X(i + 1), Sq(X(i))))))])
\* MGH 14
Wood == SumE(<<Mul(N(100), Sq(Sub(X(2), Sq(X(1))))), Sq(Sub(N(1), X(1))), Mul(N(90), Sq(Sub(X(4), Sq(X(3))))),
               Sq(Sub(N(1), X(3))), Mul(N(10), Sq(Sub(Add(X(2), X(4)), N(2)))), Mul(C(1, 10), Sq(Sub(X(2), X(4))))>>)
\* MGH 25
VarDimS(n) == SumE([i \in 1 .. n |-> Mul(N(i), Sub(X(i), N(1)))])
VariablyDimensioned(n) == Add(Add(SumE([i \in 1 .. n |-> Sq(Sub(X(i), N(1)))]), Sq(VarDimS(n))), P4(VarDimS(n)))
\* MGH 23
PenaltyI(n) == Add(SumE([i \in 1 .. n |-> Mul(C(1, 100000), Sq(Sub(X(i), N(1))))]),
                   Sq(Sub(SumE([i \in 1 .. n |-> Sq(X(i))]), C(1, 4))))
\* MGH 3
PowellBadlyScaled == SumSq(<<Sub(Mul(N(10000), Mul(X(1), X(2))), N(1)),
                             Sub(Add(Fn("exp", Sub(N(0), X(1))), Fn("exp", Sub(N(0), X(2)))), C(10001, 10000))>>)
\* MGH 9: f_i = x1 exp(-x2 (t_i - x3)^2 / 2) - y_i, t_i = (8 - i)/2
GaussY == <<9, 44, 175, 540, 1295, 2420, 3521, 3989, 3521, 2420, 1295, 540, 175, 44, 9>>
Gaussian == SumSq([i \in 1 .. 15 |-> Sub(Mul(X(1), Fn("exp", Mul(Mul(C(-1, 2), X(2)), Sq(Sub(C(8 - i, 2), X(3)))))), C(GaussY[i], 10000))])
\* MGH 26: f_i = n - sum_j cos x_j + i (1 - cos x_i) - sin x_i
Trigonometric(n) == SumSq([i \in 1 .. n |-> Sub(Add(Sub(N(n), SumE([j \in 1 .. n |-> Fn("cos", X(j))])),
                                                    Mul(N(i), Sub(N(1), Fn("cos", X(i))))), Fn("sin", X(i)))])
\* MGH 20 with n = 2: f_i = x2 - (x1 + t_i x2)^2 - 1 (t_i = i/29, i = 1..29), f_30 = x1, f_31 = x2 - x1^2 - 1
Watson2 == Add(SumSq([i \in 1 .. 29 |-> Sub(Sub(X(2), Sq(Add(X(1), Mul(C(i, 29), X(2))))), N(1))]),
               Add(Sq(X(1)), Sq(Sub(Sub(X(2), Sq(X(1))), N(1)))))
\* MGH 7 on the plane x2 = 0 (elsewhere theta is not rational and V answers UNK)
HelicalValley == LET theta == Ite(X(1), N(0), Add(Mul(C(1, 2), Fn("atanopi", Div(X(2), X(1)))), C(1, 2)),
                                                Mul(C(1, 2), Fn("atanopi", Div(X(2), X(1))))) IN
  SumSq(<<Mul(N(10), Sub(X(3), Mul(N(10), theta))), Mul(N(10), Sub(Fn("sqrt", Add(Sq(X(1)), Sq(X(2)))), N(1))), X(3)>>)
Linear(n) == SumE(Xs(n))
\* More, Thuente (5.1)
ConcaveRight == Sub(N(0), Div(X(1), Add(Sq(X(1)), N(2))))
\* More, Thuente (5.3); parameters l, beta
RDivE(l, b) == [k |-> "c", q |-> RDiv(RMul(I(2), RSub(One, b)), l)]          \* 2 (1 - beta) / l
Plassmann(l, b) == Add(Mul(RDivE(l, b), Fn("sinpiopi", Mul([k |-> "c", q |-> RMul(l, <<1, 2>>)], X(1)))),
                       Ite(X(1), [k |-> "c", q |-> RSub(One, b)], Sub(N(1), X(1)),
                           Ite(X(1), [k |-> "c", q |-> RAdd(One, b)],
                               Mul(C(1, 2), Add(Mul(Sq(Sub(X(1), N(1))), [k |-> "c", q |-> RInv(b)]), [k |-> "c", q |-> b])),
                               Sub(X(1), N(1)))))
\* More, Thuente (5.4); parameters beta1, beta2
Gam(b) == Sub(Fn("sqrt", [k |-> "c", q |-> RAdd(One, RMul(b, b))]), [k |-> "c", q |-> b])
YanaiOzawaKaneko(b1, b2) == Add(Mul(Gam(b1), Fn("sqrt", Add(Sq(Sub(N(1), X(1))), [k |-> "c", q |-> RMul(b2, b2)]))),
                                Mul(Gam(b2), Fn("sqrt", Add(Sq(X(1)), [k |-> "c", q |-> RMul(b1, b1)]))))

\* ---- Virtual Library of Simulation Experiments (formulas as quoted in gonum's doc comments) ----
R2sq == Add(Sq(X(1)), Sq(X(2)))
\* -20 exp(-0.2 sqrt(sum x_i^2 / d)) - exp(sum cos(2 pi x_i) / d) + 20 + e
Ackley(n) == Add(Add(Mul(N(-20), Fn("exp", Mul(C(-1, 5), Fn("sqrt", Mul(C(1, n), SumE([i \in 1 .. n |-> Sq(X(i))])))))), N(20)),
                 Fn("emexp", Mul(C(1, n), SumE([i \in 1 .. n |-> Fn("cospi", Mul(N(2), X(i)))]))))
Bukin6 == Add(Mul(N(100), Fn("sqrt", Fn("abs", Sub(X(2), Mul(C(1, 100), Sq(X(1))))))), Mul(C(1, 100), Fn("abs", Add(X(1), N(10)))))
CamelThree == SumE(<<Mul(N(2), Sq(X(1))), Mul(C(-105, 100), P4(X(1))), Mul(C(1, 6), PowE(X(1), 6)), Mul(X(1), X(2)), Sq(X(2))>>)
CamelSix == SumE(<<Mul(Add(Sub(N(4), Mul(C(21, 10), Sq(X(1)))), Mul(C(1, 3), P4(X(1)))), Sq(X(1))), Mul(X(1), X(2)),
                   Mul(Add(N(-4), Mul(N(4), Sq(X(2)))), Sq(X(2)))>>)
\* the doc comment prints the factor as 0.001; the reference it cites (and the code) has 0.0001
CrossInTray == Mul(C(-1, 10000), Fn("pow01", Add(Fn("abs", Mul(Mul(Fn("sin", X(1)), Fn("sin", X(2))),
                   Fn("exp", Fn("abs", Sub(N(100), Fn("sqrt", Mul(R2sq, PiInv))))))), N(1))))
DixonPrice(n) == Add(Sq(Sub(X(1), N(1))), SumE([i \in 1 .. n - 1 |-> Mul(N(i + 1), Sq(Sub(Mul(N(2), Sq(X(i + 1))), X(i))))]))
DropWave == Sub(N(0), Div(Add(N(1), Fn("cos", Mul(N(12), Fn("sqrt", R2sq)))), Add(Mul(C(1, 2), R2sq), N(2))))
Eggholder == Sub(Sub(N(0), Mul(Add(X(2), N(47)), Fn("sin", Fn("sqrt", Fn("abs", Add(Add(X(2), Mul(C(1, 2), X(1))), N(47))))))),
                 Mul(X(1), Fn("sin", Fn("sqrt", Fn("abs", Sub(X(1), Add(X(2), N(47))))))))
GramacyLee == Add(Div(Fn("sinpi", Mul(N(10), X(1))), Mul(N(2), X(1))), P4(Sub(X(1), N(1))))
Griewank(n) == Add(Sub(SumE([i \in 1 .. n |-> Mul(C(1, 4000), Sq(X(i)))]),
                       ProdE([i \in 1 .. n |-> Fn("cos", Mul(X(i), Inv(Fn("sqrt", N(i)))))])), N(1))
HolderTable == Sub(N(0), Fn("abs", Mul(Mul(Fn("sin", X(1)), Fn("cos", X(2))),
                                      Fn("exp", Fn("abs", Sub(N(1), Mul(Fn("sqrt", R2sq), PiInv)))))))
LevyW(i) == Add(N(1), Mul(C(1, 4), Sub(X(i), N(1))))
\* sin^2(pi w + 1) of the doc comment: the argument is never a multiple of pi/2, so the factor is UNK unless it is multiplied by 0
Levy(n) == Add(Add(Sq(Fn("sinpi", LevyW(1))),
                   SumE([i \in 1 .. n - 1 |-> Mul(Sq(Sub(LevyW(i), N(1))), Add(N(1), Mul(N(10), Sq(Fn("sin", Add(Mul(LevyW(i), Inv(PiInv)), N(1)))))))])),
               Mul(Sq(Sub(LevyW(n), N(1))), Add(N(1), Sq(Fn("sinpi", Mul(N(2), LevyW(n)))))))
Levy13 == SumE(<<Sq(Fn("sinpi", Mul(N(3), X(1)))), Mul(Sq(Sub(X(1), N(1))), Add(N(1), Sq(Fn("sinpi", Mul(N(3), X(2)))))),
                 Mul(Sq(Sub(X(2), N(1))), Add(N(1), Sq(Fn("sinpi", Mul(N(2), X(2))))))>>)
Rastrigin(n) == Add(N(10 * n), SumE([i \in 1 .. n |-> Sub(Sq(X(i)), Mul(N(10), Fn("cospi", Mul(N(2), X(i)))))]))
SchafferDen == Sq(Add(N(1), Mul(C(1, 1000), R2sq)))
Schaffer2 == Add(C(1, 2), Div(Sub(Sq(Fn("sin", Sub(Sq(X(1)), Sq(X(2))))), C(1, 2)), SchafferDen))
Schaffer4 == Add(C(1, 2), Div(Sub(Fn("cos", Fn("sin", Fn("abs", Sub(Sq(X(1)), Sq(X(2)))))), C(1, 2)), SchafferDen))
Schwefel(n) == Sub(Mul(C(4189829, 10000), N(n)), SumE([i \in 1 .. n |-> Mul(X(i), Fn("sin", Fn("sqrt", Fn("abs", X(i)))))]))

\* name, dimension (0 = the function is defined for every n), parameters -> expression
Expr(fn, n, p) ==
  CASE fn = "Beale" -> Beale [] fn = "BrownBadlyScaled" -> BrownBadlyScaled
    [] fn = "ExtendedPowellSingular" -> ExtendedPowellSingular(n) [] fn = "ExtendedRosenbrock" -> ExtendedRosenbrock(n)
    [] fn = "Wood" -> Wood [] fn = "VariablyDimensioned" -> VariablyDimensioned(n) [] fn = "PenaltyI" -> PenaltyI(n)
    [] fn = "PowellBadlyScaled" -> PowellBadlyScaled [] fn = "Gaussian" -> Gaussian [] fn = "Trigonometric" -> Trigonometric(n)
    [] fn = "Watson" -> Watson2 [] fn = "HelicalValley" -> HelicalValley [] fn = "Linear" -> Linear(n)
    [] fn = "ConcaveRight" -> ConcaveRight [] fn = "Plassmann" -> Plassmann(p[1], p[2])
    [] fn = "YanaiOzawaKaneko" -> YanaiOzawaKaneko(p[1], p[2])
    [] fn = "Ackley" -> Ackley(n) [] fn = "Bukin6" -> Bukin6 [] fn = "CamelThree" -> CamelThree [] fn = "CamelSix" -> CamelSix [] fn = "CrossInTray" -> CrossInTray
    [] fn = "DixonPrice" -> DixonPrice(n) [] fn = "DropWave" -> DropWave [] fn = "Eggholder" -> Eggholder
    [] fn = "GramacyLee" -> GramacyLee [] fn = "Griewank" -> Griewank(n) [] fn = "HolderTable" -> HolderTable
    [] fn = "Levy" -> Levy(n) [] fn = "Levy13" -> Levy13 [] fn = "Rastrigin" -> Rastrigin(n) [] fn = "Schaffer2" -> Schaffer2
    [] fn = "Schaffer4" -> Schaffer4 [] fn = "Schwefel" -> Schwefel(n)

(****************************** the cases **********************************)
Grid(S, n) == [1 .. n -> S]
Pt(s) == [i \in 1 .. Len(s) |-> I(s[i])]                 \* integer point
Halves(s) == [i \in 1 .. Len(s) |-> Q(s[i], 2)]
Quarters(s) == [i \in 1 .. Len(s) |-> Q(s[i], 4)]
NoP == <<>>
\* a case: function, parameters, point, which of value / gradient / Hessian are compared ({"f", "g", "h"}), tolerance class
\* tol = 0: every constant is dyadic and the values stay small, the float result is exact: compare with ==
\* tol = k > 0: |got - want| <= 10^-k * max(1, the largest magnitude among the expected numbers and the inputs)
Case(fn, p, x, parts, tol) == [fn |-> fn, p |-> p, x |-> x, parts |-> parts, tol |-> tol]
CasesOf(fn, p, pts, parts, tol) == {Case(fn, p, x, parts, tol) : x \in pts}
Ints(S, n) == {Pt(s) : s \in Grid(S, n)}

PolyCases ==
  CasesOf("Beale", NoP, Ints(-2 .. 2, 2) \cup {<<I(3), Q(1, 2)>>, <<Q(1, 2), Q(-3, 2)>>}, {"f", "g", "h"}, 0)
  \cup CasesOf("BrownBadlyScaled", NoP, Ints(-1 .. 2, 2), {"g", "h"}, 11)
  \cup CasesOf("BrownBadlyScaled", NoP, {<<I(1000000), Q(2, 1000000)>>}, {"f", "g"}, 9)
  \cup UNION {CasesOf("ExtendedRosenbrock", NoP, Ints(-1 .. 2, n), {"f", "g"}, 0) : n \in 0 .. 3}
  \cup UNION {CasesOf("VariablyDimensioned", NoP, Ints(0 .. 2, n), {"f", "g"}, 0) : n \in 1 .. 3}
  \cup UNION {CasesOf("PenaltyI", NoP, Ints(-1 .. 1, n), {"f", "g"}, 12) : n \in 1 .. 3}
  \cup UNION {CasesOf("Linear", NoP, Ints(-1 .. 1, n), {"f", "g"}, 0) : n \in 0 .. 3}
  \cup CasesOf("Watson", NoP, Ints(-1 .. 1, 2), {"f", "g", "h"}, 11)
  \cup CasesOf("ConcaveRight", NoP, Ints(-3 .. 3, 1) \cup {<<Q(1, 2)>>}, {"f", "g"}, 13)
Poly4Cases ==
  CasesOf("Wood", NoP, Ints(-1 .. 1, 4) \cup {<<I(-3), I(-1), I(-3), I(-1)>>}, {"f", "g", "h"}, 12)
  \cup CasesOf("ExtendedPowellSingular", NoP, Ints(-1 .. 1, 4) \cup {<<I(3), I(-1), I(0), I(3)>>}, {"f", "g"}, 0)
  \cup CasesOf("ExtendedPowellSingular", NoP, {Pt(<<3, -1, 0, 3, 3, -1, 0, 3>>), Pt(<<1, 0, -1, 2, 0, 1, 1, -1>>), Pt(<<0, 0, 0, 0, 1, 1, 1, 1>>)}, {"f", "g"}, 0)
  \cup CasesOf("ExtendedRosenbrock", NoP, {Pt(<<1, 1, 1, 1>>), Pt(<<-1, 1, 2, 0>>), Pt(<<2, -1, 0, 1, 1>>)}, {"f", "g"}, 0)
  \cup CasesOf("VariablyDimensioned", NoP, {Pt(<<1, 1, 1, 1>>), Pt(<<0, 1, 2, 1>>), Pt(<<1, 0, 1, 0>>)}, {"f", "g"}, 0)
SpecialCases ==
  CasesOf("PowellBadlyScaled", NoP, {Pt(<<0, 0>>)}, {"f", "g", "h"}, 12)
  \cup CasesOf("Gaussian", NoP, {Pt(<<0, 0, 0>>), Pt(<<0, 0, 1>>), <<Q(1, 2), I(0), I(-1)>>}, {"f", "g"}, 12)
  \cup UNION {CasesOf("Trigonometric", NoP, {Pt([i \in 1 .. n |-> 0])}, {"f", "g"}, 13) : n \in 1 .. 3}
  \cup CasesOf("HelicalValley", NoP, {Pt(<<1, 0, 0>>), Pt(<<-1, 0, 0>>), Pt(<<2, 0, 1>>), Pt(<<-2, 0, 3>>), Pt(<<1, 0, -2>>), Pt(<<3, 4, 0>>)}, {"f", "g"}, 12)
  \cup UNION {CasesOf("Plassmann", pp, {<<Q(a, 4)>> : a \in -2 .. 10}, {"f", "g"}, 12) :
              pp \in {<<I(2), Q(1, 2)>>, <<I(4), Q(1, 4)>>, <<I(1), Q(1, 2)>>, <<I(8), Q(1, 8)>>}}
  \cup UNION {CasesOf("YanaiOzawaKaneko", pp, {<<I(0)>>, <<I(1)>>, <<Q(1, 2)>>}, {"f", "g"}, 13) :
              pp \in {<<Q(3, 4), Q(3, 4)>>, <<Q(3, 4), Q(4, 3)>>, <<Q(4, 3), Q(3, 4)>>, <<Q(5, 12), Q(4, 3)>>}}
VlseCases ==
  UNION {CasesOf("Ackley", NoP, {Pt([i \in 1 .. n |-> 0]), Pt([i \in 1 .. n |-> 1])}, {"f"}, 13) : n \in 1 .. 3}
  \cup CasesOf("Bukin6", NoP, {<<I(10 * k), I(k * k + s * m * m)>> : k \in -2 .. 1, m \in 0 .. 2, s \in {-1, 1}}, {"f"}, 12)
  \cup CasesOf("CamelThree", NoP, Ints(-2 .. 2, 2), {"f"}, 12)
  \cup CasesOf("CamelSix", NoP, Ints(-2 .. 2, 2), {"f"}, 12)
  \cup CasesOf("CrossInTray", NoP, {Pt(<<0, 0>>), Pt(<<0, 3>>), Pt(<<-2, 0>>), Pt(<<1, 1>>)}, {"f"}, 13)
  \cup UNION {CasesOf("DixonPrice", NoP, Ints(-1 .. 2, n), {"f"}, 0) : n \in 1 .. 3}
  \cup CasesOf("DropWave", NoP, {Pt(<<0, 0>>), Pt(<<3, 4>>)}, {"f"}, 13)
  \cup CasesOf("Eggholder", NoP, {Pt(<<0, -47>>), Pt(<<1, -47>>)}, {"f"}, 13)
  \cup CasesOf("GramacyLee", NoP, {<<Q(a, 20)>> : a \in 10 .. 50}, {"f"}, 11)
  \cup UNION {CasesOf("Griewank", NoP, {Pt([i \in 1 .. n |-> 0]), Pt([i \in 1 .. n |-> 1])}, {"f"}, 13) : n \in 1 .. 3}
  \cup CasesOf("HolderTable", NoP, {Pt(<<0, 0>>), Pt(<<0, 2>>), Pt(<<0, -9>>), Pt(<<1, 0>>)}, {"f"}, 13)
  \cup CasesOf("Levy", NoP, {<<I(1 + 2 * a)>> : a \in -2 .. 2} \cup {Pt(<<1, 1>>), Pt(<<1, 1, 1>>), Pt(<<1, 3>>), Pt(<<1, 1, -3>>), Pt(<<5, 1>>)}, {"f"}, 11)
  \cup CasesOf("Levy13", NoP, {Halves(s) : s \in Grid(-3 .. 4, 2)}, {"f"}, 11)
  \cup UNION {CasesOf("Rastrigin", NoP, {Quarters(s) : s \in Grid(-5 .. 5, n)}, {"f"}, 11) : n \in 1 .. 2}
  \cup CasesOf("Schaffer2", NoP, {Pt(<<a, s * a>>) : a \in 0 .. 4, s \in {-1, 1}} \cup {Pt(<<1, 2>>)}, {"f"}, 12)
  \cup CasesOf("Schaffer4", NoP, {Pt(<<a, s * a>>) : a \in 0 .. 4, s \in {-1, 1}} \cup {Pt(<<1, 2>>)}, {"f"}, 12)
  \cup UNION {CasesOf("Schwefel", NoP, {Pt([i \in 1 .. n |-> 0])}, {"f"}, 12) : n \in 1 .. 3}

(* ---- documented dimensions: wrong dimensions must be refused with a panic that is not a runtime error ---- *)
FixedDims == {<<"Beale", 2>>, <<"BiggsEXP2", 2>>, <<"BiggsEXP3", 3>>, <<"BiggsEXP4", 4>>, <<"BiggsEXP5", 5>>,
              <<"BiggsEXP6", 6>>, <<"Box3D", 3>>, <<"BraninHoo", 2>>, <<"BrownBadlyScaled", 2>>, <<"BrownAndDennis",
              4>>, <<"Gaussian", 3>>, <<"GulfResearchAndDevelopment", 3>>, <<"HelicalValley", 3>>,
              <<"PowellBadlyScaled", 2>>, <<"Wood", 4>>, <<"ConcaveRight", 1>>, <<"ConcaveLeft", 1>>, <<"Plassmann",
              1>>, <<"YanaiOzawaKaneko", 1>>, <<"Bukin6", 2>>, <<"CamelThree", 2>>, <<"CamelSix", 2>>,
              <<"CrossInTray", 2>>, <<"DropWave", 2>>, <<"Eggholder", 2>>, <<"GramacyLee", 1>>, <<"HolderTable", 2>>,
              <<"Langermann2", 2>>, <<"Levy13", 2>>, <<"Schaffer2", 2>>, <<"Schaffer4", 2>>, <<"Shubert", 2>>}
FixedDim(fn) == (CHOOSE q \in FixedDims : q[1] = fn)[2]
DimOK(fn, n) == IF fn = "ExtendedPowellSingular" THEN n % 4 = 0 ELSE n = FixedDim(fn)
\* the functions of any dimension (Watson: "2 <= dim <= 31"): every size is legal, a gradient slice of another length is not
AnyDim == {"ExtendedRosenbrock", "Linear", "PenaltyI", "PenaltyII", "Trigonometric", "VariablyDimensioned", "Watson", "DixonPrice",
           "Griewank", "Levy", "Rastrigin", "Schwefel", "Ackley"}
DimCases == {[fn |-> fn, n |-> n, ok |-> DimOK(fn, n)] : fn \in {q[1] : q \in FixedDims} \cup {"ExtendedPowellSingular"}, n \in 1 .. 8}
            \cup {[fn |-> fn, n |-> n, ok |-> TRUE] : fn \in AnyDim, n \in 2 .. 4}

(* ---- documented minima (Minima() of the type; Minimum.F "is the value of the objective function at X") ----
   count = number of documented minima, dims / global as documented; the locations with irrational coordinates are
   taken from Minima() by the harness.  Clause: |Func(X) - F| <= ftol and max |Grad(X)_i| <= gtol.
   ftol = 10^-12 max(1, |F|) and gtol = 10^-9 are the tolerances gonum's own tests publish (defaultTol, defaultGradTol);
   BraninHoo documents its value with six decimals.                                                                     *)
MinimaTable == <<
  [fn |-> "Beale", dims |-> <<2>>, ftol |-> 12], [fn |-> "BiggsEXP2", dims |-> <<2>>, ftol |-> 12],
  [fn |-> "BiggsEXP3", dims |-> <<3>>, ftol |-> 12], [fn |-> "BiggsEXP4", dims |-> <<4>>, ftol |-> 12],
  [fn |-> "BiggsEXP5", dims |-> <<5>>, ftol |-> 12], [fn |-> "BiggsEXP6", dims |-> <<6, 6, 6>>, ftol |-> 12],
  [fn |-> "Box3D", dims |-> <<3, 3, 3>>, ftol |-> 12], [fn |-> "BraninHoo", dims |-> <<2, 2, 2>>, ftol |-> 6],
  [fn |-> "BrownBadlyScaled", dims |-> <<2>>, ftol |-> 12], [fn |-> "BrownAndDennis", dims |-> <<4>>, ftol |-> 12],
  [fn |-> "ExtendedPowellSingular", dims |-> <<4, 8, 12>>, ftol |-> 12],
  [fn |-> "ExtendedRosenbrock", dims |-> <<2, 3, 4, 4, 5, 5, 6, 7, 10>>, ftol |-> 12],
  [fn |-> "Gaussian", dims |-> <<3>>, ftol |-> 12], [fn |-> "GulfResearchAndDevelopment", dims |-> <<3, 3, 3>>, ftol |-> 12],
  [fn |-> "HelicalValley", dims |-> <<3>>, ftol |-> 12], [fn |-> "PenaltyI", dims |-> <<4, 10>>, ftol |-> 12],
  [fn |-> "PenaltyII", dims |-> <<4, 10>>, ftol |-> 12], [fn |-> "PowellBadlyScaled", dims |-> <<2>>, ftol |-> 12],
  [fn |-> "Trigonometric", dims |-> <<10, 10>>, ftol |-> 12], [fn |-> "VariablyDimensioned", dims |-> <<2, 3, 4, 5, 10>>, ftol |-> 12],
  [fn |-> "Watson", dims |-> <<6, 9>>, ftol |-> 12], [fn |-> "Wood", dims |-> <<4>>, ftol |-> 12] >>
MinimaCases == {[fn |-> MinimaTable[i].fn, dims |-> MinimaTable[i].dims, ftol |-> MinimaTable[i].ftol, gtol |-> 9] : i \in 1 .. Len(MinimaTable)}

\* the documented minimisers with rational coordinates, with the documented value: checked inside the module (MinimaLemma) and
\* replayed as ordinary points
Ones(n) == Pt([i \in 1 .. n |-> 1])
Zeros(n) == Pt([i \in 1 .. n |-> 0])
RationalMinima == {
  <<"Beale", 0, <<I(3), Q(1, 2)>>, Zero>>, <<"BrownBadlyScaled", 0, <<I(1000000), Q(2, 1000000)>>, Zero>>,
  <<"ExtendedPowellSingular", 4, Zeros(4), Zero>>, <<"ExtendedPowellSingular", 8, Zeros(8), Zero>>,
  <<"ExtendedRosenbrock", 2, Ones(2), Zero>>, <<"ExtendedRosenbrock", 3, Ones(3), Zero>>, <<"ExtendedRosenbrock", 4, Ones(4), Zero>>,
  <<"VariablyDimensioned", 2, Ones(2), Zero>>, <<"VariablyDimensioned", 3, Ones(3), Zero>>, <<"VariablyDimensioned", 4, Ones(4), Zero>>,
  <<"Wood", 0, Ones(4), Zero>>, <<"HelicalValley", 0, Pt(<<1, 0, 0>>), Zero>>, <<"DixonPrice", 1, Ones(1), Zero>>,
  <<"CamelThree", 0, Zeros(2), Zero>>, <<"Bukin6", 0, Pt(<<-10, 1>>), Zero>>, <<"Rastrigin", 2, Zeros(2), Zero>>,
  <<"Griewank", 2, Zeros(2), Zero>>, <<"Levy", 3, Ones(3), Zero>>, <<"Levy13", 0, Ones(2), Zero>>, <<"Schaffer2", 0, Zeros(2), Zero>>,
  <<"DropWave", 0, Zeros(2), I(-1)>> }
HasGrad(fn) == fn \in {"Beale", "BrownBadlyScaled", "ExtendedPowellSingular", "ExtendedRosenbrock", "VariablyDimensioned", "Wood", "HelicalValley"}
MinimaLemma == \A m \in RationalMinima : LET e == Expr(m[1], Len(m[3]), NoP) IN
  /\ V(e, m[3]) = m[4]
  /\ HasGrad(m[1]) => \A j \in 1 .. Len(m[3]) : (m[1] = "HelicalValley" /\ j = 2) \/ D1(e, m[3], j) = Zero
ASSUME MinimaLemma

\* the calculus against closed forms: monomials x^a y^b, a quotient and a chain
CalculusLemma ==
  /\ \A a \in 0 .. 5, b \in 0 .. 3, u \in -2 .. 2, w \in -2 .. 2 :
       LET e == Mul(PowE(X(1), a), PowE(X(2), b)) x == <<I(u), I(w)>>
           pw(z, k) == IF k < 0 THEN Zero ELSE V(PowE(X(1), k), <<I(z)>>) IN
       /\ V(e, x) = RMul(pw(u, a), pw(w, b))
       /\ D1(e, x, 1) = RMul(I(a), RMul(pw(u, a - 1), pw(w, b)))
       /\ D1(e, x, 2) = RMul(I(b), RMul(pw(u, a), pw(w, b - 1)))
       /\ D2(e, x, 1, 1) = RMul(I(a * (a - 1)), RMul(pw(u, a - 2), pw(w, b)))
       /\ D2(e, x, 1, 2) = RMul(I(a * b), RMul(pw(u, a - 1), pw(w, b - 1)))
       /\ D2(e, x, 2, 1) = D2(e, x, 1, 2)
       /\ D2(e, x, 2, 2) = RMul(I(b * (b - 1)), RMul(pw(u, a), pw(w, b - 2)))
  /\ \A u \in 1 .. 4 : LET x == <<I(u)>> IN               \* 1/x, sqrt(x^2) = x, exp(x - u) at u
       /\ D1(Inv(X(1)), x, 1) = Q(-1, u * u) /\ D2(Inv(X(1)), x, 1, 1) = Q(2, u * u * u)
       /\ V(Fn("sqrt", Sq(X(1))), x) = I(u) /\ D1(Fn("sqrt", Sq(X(1))), x, 1) = One /\ D2(Fn("sqrt", Sq(X(1))), x, 1, 1) = Zero
       /\ D2(Fn("exp", Sq(Sub(X(1), N(u)))), x, 1, 1) = I(2) /\ D1(Fn("sin", Mul(N(3), Sub(X(1), N(u)))), x, 1) = I(3)
       /\ D2(Fn("cos", Mul(N(3), Sub(X(1), N(u)))), x, 1, 1) = I(-9)
  /\ RSqrt(Q(25, 16)) = Q(5, 4) /\ RSqrt(I(2)) = UNK /\ RMul(Zero, UNK) = Zero /\ RAdd(One, UNK) = UNK
  /\ SinPi(Q(1, 2)) = One /\ SinPi(Q(3, 2)) = I(-1) /\ CosPi(I(1)) = I(-1) /\ CosPi(Q(-1, 2)) = Zero /\ SinPi(Q(1, 4)) = UNK
ASSUME CalculusLemma

(******************************** emission *********************************)
Has(parts, ch) == ch \in parts
Dim(cs) == Len(cs.x)
Val(cs) == IF Has(cs.parts, "f") THEN V(Expr(cs.fn, Dim(cs), cs.p), cs.x) ELSE UNK
Grad(cs) == IF Has(cs.parts, "g") THEN [j \in 1 .. Dim(cs) |-> D1(Expr(cs.fn, Dim(cs), cs.p), cs.x, j)] ELSE <<>>
Hess(cs) == IF Has(cs.parts, "h") THEN [j \in 1 .. Dim(cs) |-> [m \in 1 .. Dim(cs) |-> D2(Expr(cs.fn, Dim(cs), cs.p), cs.x, j, m)]] ELSE <<>>

\* ---- MinimalSurface (Minpack-2): what can be said without square roots of non-squares ----
\* grid nx x ny: Dims, Steps = 1/(nx-1), 1/(ny-1), (nx-2)(ny-2) unknowns; the area of a surface over the unit square is >= 1.
\* ExactSolution(x, y) = U^2 - V^2 with x = u + u v^2 - u^3/3, y = -v - u^2 v + v^3/3: substituting (u, v) -> (-v, -u) maps
\* (x, y) to (y, x) and the value to its negative; (u, v) -> (-u, v) maps (x, y) to (-x, y) and keeps the value, likewise
\* (u, v) -> (u, -v).  Hence the value is 0 on both diagonals, odd under the exchange of x and y and even in x and in y.
\* Coordinates are eighths.
MinSurfCases ==
  {[ms |-> "grid", nx |-> nx, ny |-> ny, hx |-> Q(1, nx - 1), hy |-> Q(1, ny - 1), dim |-> (nx - 2) * (ny - 2),
    centre |-> IF nx = ny /\ nx % 2 = 1 THEN ((nx - 2) * (nx - 2) - 1) \div 2 ELSE -1] : nx \in 3 .. 6, ny \in 3 .. 6}
  \cup {[ms |-> "zero", a |-> <<Q(k, 8), Q(s * k, 8)>>] : k \in -4 .. 4, s \in {-1, 1}}
  \cup {[ms |-> "sym", a |-> <<Q(i, 8), Q(j, 8)>>, b |-> <<Q(j, 8), Q(i, 8)>>, sign |-> -1] : i \in -4 .. 4, j \in -4 .. 4}
  \cup {[ms |-> "sym", a |-> <<Q(i, 8), Q(j, 8)>>, b |-> <<Q(-i, 8), Q(j, 8)>>, sign |-> 1] : i \in 1 .. 4, j \in -4 .. 4}
  \cup {[ms |-> "sym", a |-> <<Q(i, 8), Q(j, 8)>>, b |-> <<Q(i, 8), Q(-j, 8)>>, sign |-> 1] : i \in -4 .. 4, j \in 1 .. 4}

Cases == CASE Fam = "points" -> PolyCases \cup Poly4Cases \cup SpecialCases \cup VlseCases
           [] Fam = "tables" -> DimCases \cup MinimaCases \cup MinSurfCases

Init == c \in Cases
Next == UNCHANGED c
Spec == Init /\ [][Next]_c

IsPoint == "x" \in DOMAIN c
HessSym == (IsPoint /\ Has(c.parts, "h")) => LET h == Hess(c) IN \A j, m \in 1 .. Dim(c) : h[j][m] = h[m][j]
Emit == IF IsPoint
        THEN LET v == Val(c) g == Grad(c) h == Hess(c) IN
             \* a point where nothing is rational says nothing: not emitted
             IF IsQ(v) \/ (\E j \in 1 .. Len(g) : IsQ(g[j])) \/ Len(h) > 0
             THEN PrintT(ToJson([kind |-> "point", fn |-> c.fn, p |-> c.p, x |-> c.x, f |-> v, g |-> g, h |-> h, tol |-> c.tol]))
             ELSE TRUE
        ELSE PrintT(ToJson([kind |-> IF "ms" \in DOMAIN c THEN "minsurf" ELSE IF "dims" \in DOMAIN c THEN "minima" ELSE "dims"] @@ c))
=============================================================================
