SPECIFICATION Spec
CONSTANTS
  MaxS = @MAXS@
  Extra = @EXTRA@
  Salt = @SALT@
  Cycle4 = @CYCLE4@
INVARIANTS CoreLaws Emit
CHECK_DEADLOCK FALSE
