------------------------------ MODULE RdfGraph ------------------------------
(* gonum's graph/formats/rdf Graph and Query as a set model.                   *)
(*                                                                             *)
(* An RDF graph is a set of statements <<subject, predicate, object>> (term    *)
(* texts).  Everything the Graph type answers is a function of that set:       *)
(*   AllStatements             the set                                         *)
(*   Nodes                     the subjects and objects                        *)
(*   Predicates                the predicates "used in the graph"              *)
(*   TermFor(text)             defined exactly for the texts of subjects,      *)
(*                             predicates and objects                          *)
(*   From / FromSubject(u)     objects of statements with subject u            *)
(*   To / ToObject(v)          subjects of statements with object v            *)
(*   Lines / Statements(u, v)  the statements from u to v; Edge, HasEdgeFromTo *)
(*                             HasEdgeBetween, Edges follow                    *)
(* and the mutators are                                                        *)
(*   AddStatement(s)           union (panics for a statement that is not valid *)
(*                             RDF or whose term UIDs clash)                   *)
(*   RemoveStatement(s)        difference; a term that is no longer part of    *)
(*                             any statement disappears with it                *)
(*   RemoveTerm(t)             every statement with t as subject, predicate or *)
(*                             object is removed                               *)
(*                                                                             *)
(* A Query is a set of terms; Out / In follow statements accepted by a filter, *)
(* HasAllOut / HasAllIn / HasAnyOut / HasAnyIn select, And / Or / Not are      *)
(* intersection / union / difference, Unique holds every term once, Repeat     *)
(* iterates a step until the result is empty or the step says stop.  The       *)
(* documentation does not define how often a term is held by a query that is   *)
(* not Unique, so results are compared as sets.                                *)
(*                                                                             *)
(* R1: GraphLaws and QueryLaws (ASSUME).  R2: Mode "hist": histories add a     *)
(* statement set, apply one removal, add one more statement, with the full     *)
(* observation after each phase; Mode "query": query programs of up to three   *)
(* steps on every small statement set.                                         *)
EXTENDS Integers, Sequences, FiniteSets, TLC, Json

CONSTANTS Mode,      \* "hist" | "query" | "invalid"
          MaxS,      \* statement sets of up to MaxS statements are enumerated completely ...
          Extra,     \* ... and those with MaxS + 1 statements whose code is = Salt modulo Extra (0: none)
          Salt,
          PerGraph   \* query mode: programs per statement set

VARIABLE c

(******************************* the set model *****************************)
Subj(s) == s[1]
Pred(s) == s[2]
Obj(s) == s[3]
NodesOf(g) == {Subj(s) : s \in g} \cup {Obj(s) : s \in g}
PredsOf(g) == {Pred(s) : s \in g}
TermsOf(g) == NodesOf(g) \cup PredsOf(g)
FromOf(g, u) == {Obj(s) : s \in {x \in g : Subj(x) = u}}
ToOf(g, v) == {Subj(s) : s \in {x \in g : Obj(x) = v}}
LinesOf(g, u, v) == {s \in g : Subj(s) = u /\ Obj(s) = v}
AddS(g, s) == g \cup {s}
RemoveS(g, s) == g \ {s}
RemoveT(g, t) == {s \in g : Subj(s) # t /\ Pred(s) # t /\ Obj(s) # t}

\* the universe of the histories: an IRI, a blank node, an IRI that is also used as a predicate, a literal (object only)
HS == {"<a>", "_:b", "<p>"}
HP == {"<p>", "<q>"}
HO == HS \cup {"\"l\""}
HTriples == {<<s, p, o>> : s \in HS, p \in HP, o \in HO}
HTerms == HO \cup HP \cup {"<zz>"}            \* <zz> never occurs in a statement
\* the universe of the queries
QN == {"<a>", "_:b", "<c>"}
QP == {"<p>", "<q>"}
QTriples == {<<s, p, o>> : s \in QN, p \in QP, o \in QN}

GraphLaws == \A g \in SUBSET {<<s, p, o>> \in HTriples : p = "<p>" /\ o \in {"<a>", "<p>"}} : \A s \in HTriples : \A t \in HTerms :
  /\ RemoveS(AddS(g, s), s) = g \ {s}
  /\ TermsOf(RemoveT(g, t)) \cap {t} = {}
  /\ RemoveT(g, t) \subseteq g /\ (t \notin TermsOf(g) => RemoveT(g, t) = g)
  /\ \A u \in HO : \A v \in HO : (v \in FromOf(g, u)) <=> (u \in ToOf(g, v)) /\ (LinesOf(g, u, v) # {} <=> v \in FromOf(g, u))
ASSUME Mode = "hist" => GraphLaws

(********************************* queries *********************************)
\* a filter accepts statements by their predicate: "p", "q", "any", "none"
Acc(f, s) == CASE f = "p" -> Pred(s) = "<p>" [] f = "q" -> Pred(s) = "<q>" [] f = "any" -> TRUE [] f = "none" -> FALSE
Filters == {"p", "q", "any", "none"}
Out(g, Q, f) == {Obj(s) : s \in {x \in g : Subj(x) \in Q /\ Acc(f, x)}}
In(g, Q, f) == {Subj(s) : s \in {x \in g : Obj(x) \in Q /\ Acc(f, x)}}
HasAllOut(g, Q, f) == {t \in Q : \A s \in g : Subj(s) = t => Acc(f, s)}
HasAllIn(g, Q, f) == {t \in Q : \A s \in g : Obj(s) = t => Acc(f, s)}
HasAnyOut(g, Q, f) == {t \in Q : \E s \in g : Subj(s) = t /\ Acc(f, s)}
HasAnyIn(g, Q, f) == {t \in Q : \E s \in g : Obj(s) = t /\ Acc(f, s)}
\* Repeat with the step "r := q.Out(f); return r, calls < k": the j-th image, j least with an empty image or j = k
RECURSIVE RepeatOut(_, _, _, _)
RepeatOut(g, Q, f, k) == LET r == Out(g, Q, f) IN IF r = {} \/ k <= 1 THEN r ELSE RepeatOut(g, r, f, k - 1)
\* Repeat with the step of the documentation's example "r := q.Out(f); if r.Len() == 0 { return q, false }; return r, calls < k":
\* the last non-empty result
RECURSIVE RepeatLast(_, _, _, _)
RepeatLast(g, Q, f, k) == LET r == Out(g, Q, f) IN IF r = {} THEN Q ELSE IF k <= 1 THEN r ELSE RepeatLast(g, r, f, k - 1)

Unary == {"Out", "In", "HasAllOut", "HasAllIn", "HasAnyOut", "HasAnyIn"}
Binary == {"And", "Or", "Not"}
\* one instruction applied to the current query Q (P: the second start set, for the binary operations)
Apply(g, Q, P, ins) ==
  CASE ins.op = "Out" -> Out(g, Q, ins.f) [] ins.op = "In" -> In(g, Q, ins.f)
    [] ins.op = "HasAllOut" -> HasAllOut(g, Q, ins.f) [] ins.op = "HasAllIn" -> HasAllIn(g, Q, ins.f)
    [] ins.op = "HasAnyOut" -> HasAnyOut(g, Q, ins.f) [] ins.op = "HasAnyIn" -> HasAnyIn(g, Q, ins.f)
    [] ins.op = "And" -> Q \cap P [] ins.op = "Or" -> Q \cup P [] ins.op = "Not" -> Q \ P
    [] ins.op = "Unique" -> Q
    [] ins.op = "RepeatOut" -> RepeatOut(g, Q, ins.f, ins.k) [] ins.op = "RepeatLast" -> RepeatLast(g, Q, ins.f, ins.k)
\* the instruction set in a fixed order (so that a number selects an instruction)
InsSeq == LET fs == <<"p", "q", "any", "none">> us == <<"Out", "In", "HasAllOut", "HasAllIn", "HasAnyOut", "HasAnyIn">> IN
  [i \in 1 .. 24 |-> [op |-> us[((i - 1) \div 4) + 1], f |-> fs[((i - 1) % 4) + 1], k |-> 0]]
  \o <<[op |-> "And", f |-> "any", k |-> 0], [op |-> "Or", f |-> "any", k |-> 0], [op |-> "Not", f |-> "any", k |-> 0], [op |-> "Unique", f |-> "any", k |-> 0]>>
  \o [i \in 1 .. 12 |-> [op |-> IF i <= 6 THEN "RepeatOut" ELSE "RepeatLast", f |-> fs[((i - 1) % 3) + 1], k |-> 2 + (((i - 1) \div 3) % 2)]]
NIns == Len(InsSeq)

QueryLaws == \A g \in SUBSET {<<s, p, o>> \in QTriples : s # "<c>" /\ o # "<a>"} : \A Q \in SUBSET QN : \A f \in Filters :
  /\ HasAnyOut(g, Q, f) \subseteq Q /\ HasAllOut(g, Q, f) \subseteq Q
  /\ HasAnyOut(g, Q, f) = {t \in Q : Out(g, {t}, f) # {}} /\ HasAnyIn(g, Q, f) = {t \in Q : In(g, {t}, f) # {}}
  /\ Q \ HasAllOut(g, Q, f) = {t \in Q : \E s \in g : Subj(s) = t /\ ~Acc(f, s)}
  /\ Out(g, Q, "any") = Out(g, Q, "p") \cup Out(g, Q, "q") /\ Out(g, Q, "none") = {}
  /\ \A v \in QN : (v \in Out(g, Q, f)) <=> (In(g, {v}, f) \cap Q # {})
  /\ RepeatOut(g, Q, f, 1) = Out(g, Q, f) /\ RepeatOut(g, Q, f, 2) = (IF Out(g, Q, f) = {} THEN {} ELSE Out(g, Out(g, Q, f), f))
  /\ RepeatLast(g, Q, f, 3) # {} \/ Q = {}
ASSUME Mode = "query" => QueryLaws

(***************************** enumeration helpers *************************)
\* a fixed numbering of the triples of a universe; a statement set is enumerated as a set of indices, its code is a sum of
\* powers of two
RECURSIVE SetToSeq(_)
SetToSeq(S) == IF S = {} THEN <<>> ELSE LET x == CHOOSE y \in S : TRUE IN <<x>> \o SetToSeq(S \ {x})
RECURSIVE Pow2(_)
Pow2(n) == IF n = 0 THEN 1 ELSE 2 * Pow2(n - 1)
RECURSIVE KIdx(_, _, _)
KIdx(lo, hi, k) == IF k = 0 THEN {{}} ELSE UNION {{{i} \cup r : r \in KIdx(i + 1, hi, k - 1)} : i \in lo .. hi}
RECURSIVE CodeOf(_)
CodeOf(I) == IF I = {} THEN 0 ELSE LET i == CHOOSE y \in I : TRUE IN Pow2(i - 1) + CodeOf(I \ {i})
\* a key for sampling: the code itself would select by the lowest-numbered triples only
RECURSIVE Mix(_)
Mix(I) == IF I = {} THEN 0 ELSE LET i == CHOOSE y \in I : TRUE IN (((i * 7919) % 101) + ((i * i * 31) % 37)) + Mix(I \ {i})
IdxSets(n) == UNION {KIdx(1, n, j) : j \in 0 .. MaxS}
              \cup (IF Extra = 0 THEN {} ELSE {I \in KIdx(1, n, MaxS + 1) : (Mix(I) + Salt) % Extra = 0})
SetOf(seq, I) == {seq[i] : i \in I}

(******************************* observations ******************************)
Obs(g, universe) == [stmts |-> g, nodes |-> NodesOf(g), preds |-> PredsOf(g), terms |-> TermsOf(g),
                     from |-> {<<u, FromOf(g, u)>> : u \in universe}, to |-> {<<u, ToOf(g, u)>> : u \in universe},
                     lines |-> {<<u, v, LinesOf(g, u, v)>> : u \in NodesOf(g), v \in NodesOf(g)}]

HSeq == SetToSeq(HTriples)
\* removal operations offered after the statements of g were added
RemOps(g) == {[rm |-> "statement", s |-> s] : s \in g} \cup {[rm |-> "statement", s |-> CHOOSE x \in HTriples : x \notin g]}
             \cup {[rm |-> "term", t |-> t] : t \in HTerms}
ApplyRem(g, r) == IF r.rm = "statement" THEN RemoveS(g, r.s) ELSE RemoveT(g, r.t)
HistCases == {[I |-> I, r |-> r] : I \in IdxSets(Len(HSeq)), r \in UNION {RemOps(SetOf(HSeq, J)) : J \in IdxSets(Len(HSeq))}}
HistOK(h) == h.r \in RemOps(SetOf(HSeq, h.I))
\* structural features of a history, carried into the signature of a disagreement so that a known finding names its scenario:
\*   dual-role-term-loses-one-role   a term is used both as a predicate and as a subject / object, and the removal ends one of
\*                                   the two uses while the other goes on
\*   term-with-two-subjects          RemoveTerm(t) where statements of two different other subjects point to t
Tags(g1, r, g2) ==
  (IF \E T \in TermsOf(g2) : \/ (T \in PredsOf(g1) /\ T \notin PredsOf(g2) /\ T \in NodesOf(g2))
                              \/ (T \in NodesOf(g1) /\ T \notin NodesOf(g2) /\ T \in PredsOf(g2))
   THEN {"dual-role-term-loses-one-role"} ELSE {})
  \cup (IF r.rm = "term" /\ Cardinality(ToOf(g1, r.t) \ {r.t}) >= 2 THEN {"term-with-two-subjects"} ELSE {})
HistRecord(h) == LET g1 == SetOf(HSeq, h.I)
                     g2 == ApplyRem(g1, h.r)
                     s3 == HSeq[((CodeOf(h.I) + 7 * Salt + (IF h.r.rm = "term" THEN 3 ELSE 11)) % Len(HSeq)) + 1]
                     g3 == AddS(g2, s3) IN
  [kind |-> "hist", tags |-> Tags(g1, h.r, g2), adds |-> SetToSeq(g1), obs1 |-> Obs(g1, HO), rem |-> h.r, obs2 |-> Obs(g2, HO), add3 |-> s3, obs3 |-> Obs(g3, HO)]

\* statements AddStatement must refuse (not valid RDF) or accept
InvalidCases == {[kind |-> "valid", s |-> <<s, p, o>>, ok |-> (s \in {"<a>", "_:b"} /\ p \in {"<p>"} /\ o \in {"<a>", "_:b", "\"l\"", "\"l\"@en", "\"1\"^^<http://x/int>"})]
                   : s \in {"<a>", "_:b", "\"l\"", "junk", ""}, p \in {"<p>", "_:b", "\"l\"", "junk"}, o \in {"<a>", "_:b", "\"l\"", "\"l\"@en", "\"1\"^^<http://x/int>", "junk", "<a"}}
  \* a term whose UID differs from the UID the graph holds for the same text must be refused; queries of two graphs must not be combined
  \cup {[kind |-> "uidclash", which |-> w] : w \in {"subject", "predicate", "object"}} \cup {[kind |-> "mixed"]}

QSeq == SetToSeq(QTriples)
Starts(g) == SUBSET NodesOf(g)
\* the k-th program for the statement set with index set I: numbers derived from its code, k and Salt select two start sets and
\* three instructions
ProgNum(I, k) == (CodeOf(I) % 4099) * 4099 + k * 104729 + Salt * 1299709
Pick(S, n) == LET q == SetToSeq(S) IN q[(n % Len(q)) + 1]
Program(I, k) == LET n == ProgNum(I, k) g == SetOf(QSeq, I) IN
  [s1 |-> Pick(Starts(g), n), s2 |-> Pick(Starts(g), n \div 7),
   ins |-> <<InsSeq[((n \div 11) % NIns) + 1], InsSeq[((n \div 457) % NIns) + 1], InsSeq[((n \div 18257) % NIns) + 1]>>]
RECURSIVE Run(_, _, _, _)
Run(g, Q, P, ins) == IF Len(ins) = 0 THEN <<>> ELSE LET r == Apply(g, Q, P, Head(ins)) IN <<r>> \o Run(g, r, P, Tail(ins))
QueryRecord(d) == LET g == SetOf(QSeq, d.I) IN
  IF d.k > 0 THEN LET pr == Program(d.I, d.k) IN [kind |-> "query", stmts |-> g, s1 |-> pr.s1, s2 |-> pr.s2, ins |-> pr.ins, res |-> Run(g, pr.s1, pr.s2, pr.ins)]
  \* k = 0: the single instruction number d.i from the start set d.s1 (second start set: all nodes, or one of them)
  ELSE LET s2 == IF d.all THEN NodesOf(g) ELSE {CHOOSE x \in NodesOf(g) : TRUE} IN
       [kind |-> "query", stmts |-> g, s1 |-> d.s1, s2 |-> s2, ins |-> <<InsSeq[d.i]>>, res |-> Run(g, d.s1, s2, <<InsSeq[d.i]>>)]
QueryCases == {[I |-> I, k |-> k, s1 |-> {}, i |-> 0, all |-> FALSE] : I \in IdxSets(Len(QSeq)) \ {{}}, k \in 1 .. PerGraph}
              \cup UNION {{[I |-> I, k |-> 0, s1 |-> s1, i |-> i, all |-> a] : s1 \in Starts(SetOf(QSeq, I)) \ {{}}, i \in 1 .. NIns, a \in BOOLEAN}
                          : I \in (UNION {KIdx(1, Len(QSeq), j) : j \in 1 .. MaxS - 1})}

Cases == CASE Mode = "hist" -> {h \in HistCases : HistOK(h)} [] Mode = "invalid" -> InvalidCases [] Mode = "query" -> QueryCases
Init == c \in Cases
Next == UNCHANGED c
Spec == Init /\ [][Next]_c
Emit == PrintT(ToJson(CASE Mode = "hist" -> HistRecord(c) [] Mode = "invalid" -> c [] Mode = "query" -> QueryRecord(c)))
=============================================================================
