---------------------------- MODULE UnitRegistry ----------------------------
(* unit.NewDimension / SymbolExists / Dimension.String and the ordering of    *)
(* user-defined dimensions in formatted output (unit/unittype.go).            *)
(*                                                                            *)
(* The registry is a set of symbols: the SI base symbols and the reserved SI  *)
(* symbols are taken from the start; NewDimension(s) panics iff s is taken    *)
(* and otherwise registers s and returns a dimension that is orthogonal to    *)
(* (different from) every other dimension.  Formatting orders the atoms of a  *)
(* unit by symbol name, positive powers first.                                *)
(* R1: invariants below over every history.  R2: every history of at most     *)
(* Depth calls is printed with its outcomes, the SymbolExists answers and     *)
(* the expected formatting of two units that use every registered dimension   *)
(* together with m, kg and s.                                                 *)
EXTENDS Integers, Sequences, FiniteSets, TLC, Json

CONSTANTS Depth, Emit

VARIABLES reg, hist, outs
vars == <<reg, hist, outs>>

Fresh == <<"ab", "Zz", "mm", "u">>        \* symbols nobody uses
Taken == <<"kg", "m", "J", "rad", "k", "Hz">>   \* base symbols, derived-unit symbols and prefixes are reserved
Builtin == <<"m", "kg", "s">>
\* ascending byte order of every symbol a formatted unit can contain (upper case sorts first; a
\* proper prefix sorts before its extensions). The harness verifies it on the real strings.
Order == <<"Zz", "ab", "kg", "m", "mm", "s", "u">>
RankOf(s) == CHOOSE i \in 1 .. Len(Order) : Order[i] = s

Range(q) == {q[i] : i \in 1 .. Len(q)}
IsTaken(s) == s \in Range(Taken) \/ s \in Range(reg)

Init == reg = <<>> /\ hist = <<>> /\ outs = <<>>
Next == /\ Len(hist) < Depth
        /\ \E s \in Range(Fresh) \cup Range(Taken) :
             /\ hist' = Append(hist, s)
             /\ IF IsTaken(s) THEN reg' = reg /\ outs' = Append(outs, "panic")
                ELSE reg' = Append(reg, s) /\ outs' = Append(outs, "ok")
Spec == Init /\ [][Next]_vars

NoDup == \A i, j \in 1 .. Len(reg) : reg[i] = reg[j] => i = j
NoClash == Range(reg) \cap Range(Taken) = {}

(* two units over all registered dimensions and the three builtin ones *)
UserPow == << <<1, -2, 3, -1>>, <<-1, 2, -3, 2>> >>
BuiltinPow == << <<-1, 2, 1>>, <<3, -1, -2>> >>
Exps(v) == [s \in Range(reg) \cup Range(Builtin) |->
              IF s \in Range(reg) THEN UserPow[v][CHOOSE i \in 1 .. Len(reg) : reg[i] = s]
              ELSE BuiltinPow[v][CHOOSE i \in 1 .. 3 : Builtin[i] = s]]
RECURSIVE ByRank(_)
ByRank(S) == IF S = {} THEN <<>>
             ELSE LET m == CHOOSE s \in S : \A t \in S : RankOf(s) <= RankOf(t) IN <<m>> \o ByRank(S \ {m})
Atom(e, s) == IF e[s] = 1 THEN s ELSE s \o "^" \o ToString(e[s])
RECURSIVE Join(_, _)
Join(e, q) == IF q = <<>> THEN "" ELSE IF Len(q) = 1 THEN Atom(e, q[1]) ELSE Atom(e, q[1]) \o " " \o Join(e, Tail(q))
Fmt(e) == Join(e, ByRank({s \in DOMAIN e : e[s] > 0}) \o ByRank({s \in DOMAIN e : e[s] < 0}))

EmitState ==
  Emit => PrintT(ToJson([k |-> "r", ops |-> hist, outs |-> outs, reg |-> reg, order |-> Order,
                         exists |-> [s \in Range(Fresh) \cup Range(Taken) |-> IsTaken(s)],
                         units |-> [v \in 1 .. 2 |-> [exps |-> Exps(v), s |-> Fmt(Exps(v))]]]))
=============================================================================
