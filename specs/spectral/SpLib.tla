------------------------------- MODULE SpLib --------------------------------
(* Small exact-arithmetic library for the spectral specifications (property   *)
(* C03).  The operators are copies of the few needed from specs/lapack/LaLib  *)
(* (property C02) plus Hadamard signs and exact sorting.                      *)
(* Matrices are functions  [0..m-1 -> [0..n-1 -> Int]].                       *)
EXTENDS Integers, Sequences, FiniteSets, TLC

Min(a, b) == IF a < b THEN a ELSE b
Max(a, b) == IF a < b THEN b ELSE a
Abs(x) == IF x < 0 THEN -x ELSE x

RECURSIVE SumR(_, _, _)
SumR(F(_), a, b) == IF a > b THEN 0 ELSE F(a) + SumR(F, a + 1, b)

RECURSIVE MaxR(_, _, _)
MaxR(F(_), a, b) == IF a > b THEN 0 ELSE Max(F(a), MaxR(F, a + 1, b))

RECURSIVE MinSet(_, _, _)
\* minimum of F over the finite set S, dflt when S is empty
MinSet(F(_), S, dflt) == IF S = {} THEN dflt
                         ELSE LET x == CHOOSE y \in S : TRUE
                                  r == S \ {x}
                              IN IF r = {} THEN F(x) ELSE Min(F(x), MinSet(F, r, dflt))

RECURSIVE Pow2(_)
Pow2(k) == IF k = 0 THEN 1 ELSE 2 * Pow2(k - 1)

\* Deterministic data salt. All arguments are small (i, j <= 400, s <= 99,
\* sd <= 96) so that every intermediate stays below 2^31.
Hash(i, j, s, sd) ==
  LET a == ((i + 1) * (j + 3) * 73 + i * 1009 + j * 9176 + s * 40099 + sd * 8111 + ((i * 7 + j * 13 + s) % 11) * 523) % 7919
      b == (a * a + 31 * a + 7 * i + 3 * j + s) % 7907
  IN (b * 89 + a) % 7901

\* TLC keeps [x \in S |-> e] as a lazy value that re-evaluates e at every application;
\* TLCEval materialises it (essential: everything below is built from such functions).
Fn(f) == TLCEval(f)
Mat(m, n, F(_, _)) == Fn([i \in 0 .. m - 1 |-> Fn([j \in 0 .. n - 1 |-> F(i, j)])])
MatSeq(A, m, n) == Fn([i \in 1 .. m |-> Fn([j \in 1 .. n |-> A[i - 1][j - 1]])])
VecSeq(v, n) == Fn([i \in 1 .. n |-> v[i - 1]])

\* permutations as products of interchanges (LAPACK ipiv convention, zero based)
SwapF(p, a, b) == Fn([r \in DOMAIN p |-> IF r = a THEN p[b] ELSE IF r = b THEN p[a] ELSE p[r]])
RECURSIVE PosFrom(_, _, _, _)
PosFrom(p, ipiv, j, k) == IF j = k THEN p ELSE PosFrom(SwapF(p, j, ipiv[j]), ipiv, j + 1, k)
Pos(ipiv, k, m) == PosFrom(Fn([r \in 0 .. m - 1 |-> r]), ipiv, 0, k)
InvPerm(p, m) == Fn([r \in 0 .. m - 1 |-> CHOOSE s \in 0 .. m - 1 : p[s] = r])

\* Sylvester-Hadamard sign: (-1)^popcount(i AND j)
RECURSIVE AndPar(_, _)
AndPar(i, j) == IF i = 0 \/ j = 0 THEN 0 ELSE ((i % 2) * (j % 2) + AndPar(i \div 2, j \div 2)) % 2
HSgn(i, j) == IF AndPar(i, j) = 0 THEN 1 ELSE -1

(* Exact sorting of a finite integer list d[0..n-1] (ascending).  The result   *)
(* is DEFINED by counting: position r holds the value v with                   *)
(* #{k : d[k] < v} <= r < #{k : d[k] <= v}.                                    *)
SortAsc(d, n) ==
  LET vals == {d[k] : k \in 0 .. n - 1}
      less == Fn([v \in vals |-> Cardinality({k \in 0 .. n - 1 : d[k] < v})])
      leq == Fn([v \in vals |-> Cardinality({k \in 0 .. n - 1 : d[k] <= v})])
  IN Fn([r \in 0 .. n - 1 |-> CHOOSE v \in vals : less[v] <= r /\ r < leq[v]])
Mult(d, n, v) == Cardinality({k \in 0 .. n - 1 : d[k] = v})
\* index of the unique k with d[k] = v (only used when Mult = 1)
IdxOf(d, n, v) == CHOOSE k \in 0 .. n - 1 : d[k] = v
=============================================================================
