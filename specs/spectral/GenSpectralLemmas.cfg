SPECIFICATION Spec
CONSTANTS
  Fam = "@FAM@"
  Small = @SMALL@
  Vars = @VARS@
  Seed = @SEED@
INVARIANTS GghrdLemma GgsvdLemma TgsjaLemma PlantedPredLemma
CHECK_DEADLOCK FALSE
