----------------------- MODULE CondensedSpectralLemmas -----------------------
(* Property C03, role R1: identities behind CondensedSpectral.tla, checked by *)
(* TLC on every instance of the bounded case space.                           *)
(*  TriLemma    T v = lambda v for every attached eigenpair (v # 0); printed  *)
(*              list ascending and a rearrangement; printed vector / gap      *)
(*              belong to the position.                                       *)
(*  BidLemma    every 2x2 block [[d1,e],[0,d2]] has the printed singular      *)
(*              values: s1*s2 = |d1*d2| and s1^2+s2^2 = d1^2+e^2+d2^2, s1>=s2 *)
(*              >= 0; list descending and a rearrangement.                    *)
(*  Lanv2Lemma  sum and product of the printed eigenvalues equal trace and    *)
(*              determinant; classification = sign of the discriminant.       *)
(*  TrexcLemma  S S^-1 = I, T S = S B, T is in Schur canonical form with the  *)
(*              diagonal blocks of B; the printed block sequence is the input *)
(*              sequence with block F moved to position L, other blocks in    *)
(*              their old relative order; ifstOut / ilstOut are first rows.   *)
(*  BalLemma    A = P0 M P0^T, M block triangular as described, As similar to *)
(*              A by a diagonal matrix of powers of two.                      *)
EXTENDS CondensedSpectral

I == Inst(cs)
SameMultiset(d, w, n) == \A v \in {d[k] : k \in 0 .. n - 1} \cup {w[k] : k \in 0 .. n - 1} : Mult(d, n, v) = Mult(w, n, v)

TriLemma ==
  Fam = "tri" =>
    LET n == I.n
        dv == cs.dv
        T(i, j) == IF i = j THEN I.d[i + 1] ELSE IF j = i + 1 THEN I.e[i + 1] ELSE IF i = j + 1 THEN I.e[j + 1] ELSE 0
        ev == Fn([i \in 0 .. n - 1 |-> TriVal(n, dv, i)])
        w == Fn([r \in 0 .. n - 1 |-> I.w[r + 1]])
    IN /\ \A k \in 0 .. n - 1 :
            LET v == TriVec(n, dv, k) IN
            /\ \E j \in 1 .. n : v[j] # 0
            /\ \A i \in 0 .. n - 1 : SumR(LAMBDA j : T(i, j) * v[j + 1], 0, n - 1) = ev[k] * v[i + 1]
       \* the attached vectors are linearly independent (pairwise orthogonal): the list is the whole spectrum
       /\ \A k, l \in 0 .. n - 1 : k # l => SumR(LAMBDA j : TriVec(n, dv, k)[j + 1] * TriVec(n, dv, l)[j + 1], 0, n - 1) = 0
       /\ \A r \in 0 .. n - 2 : w[r] <= w[r + 1]
       /\ SameMultiset(ev, w, n)
       /\ \A r \in 0 .. n - 1 :
            IF Mult(ev, n, w[r]) # 1 THEN I.V[r + 1] = <<>> /\ I.gap[r + 1] = 0
            ELSE /\ I.V[r + 1] = TriVec(n, dv, IdxOf(ev, n, w[r]))
                 /\ I.gap[r + 1] >= 1
                 /\ \A k \in 0 .. n - 1 : ev[k] # w[r] => Abs(ev[k] - w[r]) >= I.gap[r + 1]

BidLemma ==
  Fam = "bid" =>
    LET n == I.n
        dv == cs.dv
        s == Fn([i \in 0 .. n - 1 |-> BidVal(n, dv, i)])
        sv == Fn([r \in 0 .. n - 1 |-> I.sv[r + 1]])
    IN /\ \A i \in 0 .. n - 1 :
            IF BidIs2(n, dv, i \div 2)
            THEN (i % 2 = 0 =>
                    LET d1 == I.d[i + 1]
                        e == I.e[i + 1]
                        d2 == I.d[i + 2] IN
                    /\ s[i] >= s[i + 1] /\ s[i + 1] >= 0
                    /\ s[i] * s[i + 1] = Abs(d1 * d2)
                    /\ s[i] * s[i] + s[i + 1] * s[i + 1] = d1 * d1 + e * e + d2 * d2
                    /\ (i + 2 < n => I.e[i + 2] = 0))
            ELSE /\ s[i] = Abs(I.d[i + 1])
                 /\ (i % 2 = 0 /\ i + 1 < n => I.e[i + 1] = 0)
                 /\ (i % 2 = 1 /\ i + 1 < n => I.e[i + 1] = 0)
       /\ \A r \in 0 .. n - 1 : sv[r] >= 0
       /\ \A r \in 0 .. n - 2 : sv[r] >= sv[r + 1]
       /\ SameMultiset(s, sv, n)
       /\ \A r \in 1 .. n :
            I.U[r] # <<>> =>
              LET i == IdxOf(s, n, sv[r - 1]) IN
              /\ Mult(s, n, sv[r - 1]) = 1 /\ sv[r - 1] > 0 /\ ~BidIs2(n, dv, i \div 2)
              /\ I.U[r][i + 1] = 1 /\ I.V[r][i + 1] * I.d[i + 1] = sv[r - 1]
              /\ I.gap[r] >= 1 /\ I.gap[r] <= sv[r - 1]
              /\ \A k \in 0 .. n - 1 : s[k] # sv[r - 1] => Abs(s[k] - sv[r - 1]) >= I.gap[r]

Lanv2Lemma ==
  Fam = "lanv2" =>
    LET f == cs.f
        tr == f * (cs.a + cs.d)
        det == f * f * (cs.a * cs.d - cs.b * cs.c)
        disc == (cs.a - cs.d) * (cs.a - cs.d) + 4 * cs.b * cs.c
    IN /\ I.cplx = (disc < 0) /\ I.either = (disc = 0)
       /\ I.a11 = 2 * f * cs.a /\ I.a12 = 2 * f * cs.b /\ I.a21 = 2 * f * cs.c /\ I.a22 = 2 * f * cs.d
       /\ I.exact =>
            /\ I.re1 + I.re2 = 2 * tr
            /\ IF I.cplx THEN I.re1 = I.re2 /\ I.im > 0 /\ I.re1 * I.re1 + I.im * I.im = 4 * det
               ELSE I.im = 0 /\ I.re1 * I.re2 = 4 * det

TrexcLemma ==
  Fam = "trexc" =>
    LET n == I.n
        v == cs.v
        P == TxParts(n, v)
        S == P.S
        Si == P.Si
        B == P.B
        T == P.T
        seq == TxSeq(n, v, 0)
        out == I.blocks
        F == BlkOfRow(seq, cs.ifst, 1)
        L == BlkOfRow(seq, cs.ilst, 1)
        others(q) == SelectSeq(q, LAMBDA b : b # seq[F])
    IN /\ \A i, j \in 0 .. n - 1 : I.A[i + 1][j + 1] = T[i][j]
       /\ \A i, j \in 0 .. n - 1 : SumR(LAMBDA k : S[i][k] * Si[k][j], 0, n - 1) = (IF i = j THEN 1 ELSE 0)
       /\ \A i, j \in 0 .. n - 1 : SumR(LAMBDA k : T[i][k] * S[k][j], 0, n - 1) = SumR(LAMBDA k : S[i][k] * B[k][j], 0, n - 1)
       \* Schur canonical form with the diagonal blocks of B
       /\ \A i, j \in 0 .. n - 1 : (i > j /\ TxBlkFirst(n, v, i) # TxBlkFirst(n, v, j)) => T[i][j] = 0
       /\ \A i, j \in 0 .. n - 1 : TxBlkFirst(n, v, i) = TxBlkFirst(n, v, j) => T[i][j] = B[i][j]
       /\ \A c \in 0 .. (n \div 2) - 1 : TxIsC(n, v, c) =>
             B[2 * c][2 * c] = B[2 * c + 1][2 * c + 1] /\ B[2 * c + 1][2 * c] > 0 /\ B[2 * c][2 * c + 1] = -B[2 * c + 1][2 * c]
       \* all block eigenvalues distinct (every swap well conditioned)
       /\ \A a, b \in 1 .. Len(seq) : a # b => seq[a][1] # seq[b][1]
       /\ SumR(LAMBDA k : seq[k][3], 1, Len(seq)) = n
       \* the move
       /\ Len(out) = Len(seq) /\ out[L] = seq[F]
       /\ others(out) = others(seq)
       /\ I.ifstOut = RowOfBlk(seq, F) /\ I.ifstOut <= cs.ifst /\ cs.ifst < I.ifstOut + seq[F][3]
       /\ I.ilstOut = SumR(LAMBDA k : out[k][3], 1, L - 1)

BalLemma ==
  Fam = "bal" =>
    LET n == I.n
        k1 == cs.k1
        kc == cs.kc
        A(i, j) == I.A[i + 1][j + 1]
        M(i, j) == I.Mb[i + 1][j + 1]
        P(i, j) == I.Pm[i + 1][j + 1]
        inC(x) == x >= k1 /\ x < k1 + kc
    IN /\ I.ilo = k1 /\ I.ihi = k1 + kc - 1
       \* P is a permutation matrix and A = P M P^T  (A P = P M)
       /\ \A j \in 0 .. n - 1 : Cardinality({i \in 0 .. n - 1 : P(i, j) = 1}) = 1 /\ Cardinality({i \in 0 .. n - 1 : P(i, j) = 0}) = n - 1
       /\ \A i \in 0 .. n - 1 : Cardinality({j \in 0 .. n - 1 : P(i, j) = 1}) = 1
       /\ \A i, j \in 0 .. n - 1 : SumR(LAMBDA k : A(i, k) * P(k, j), 0, n - 1) = SumR(LAMBDA k : P(i, k) * M(k, j), 0, n - 1)
       \* shape of M: distinct diagonal, dense strictly upper part, lower part only inside C and dense there
       /\ \A i, j \in 0 .. n - 1 : i # j => M(i, i) # M(j, j)
       /\ \A i, j \in 0 .. n - 1 : i < j => M(i, j) # 0
       /\ \A i, j \in 0 .. n - 1 : i > j => (M(i, j) # 0) = (inC(i) /\ inC(j))
       \* As = D0^-1 A D0 with D0 a diagonal of powers of two (times asden)
       /\ \E kx \in [0 .. n - 1 -> 0 .. 3] : \A i, j \in 0 .. n - 1 : I.As[i + 1][j + 1] * Pow2(kx[i]) = A(i, j) * Pow2(kx[j]) * I.asden
=============================================================================
