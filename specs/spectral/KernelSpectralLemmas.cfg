SPECIFICATION Spec
CONSTANTS
  Fam = "@FAM@"
  Small = @SMALL@
  Big = @BIG@
  Seed = @SEED@
INVARIANTS Lag2Lemma Lasq6Lemma LasrLemma LarfxLemma Laqr1Lemma
CHECK_DEADLOCK FALSE
