SPECIFICATION Spec
CONSTANTS
  Fam = "@FAM@"
  Small = @SMALL@
  Big = @BIG@
  Seed = @SEED@
INVARIANTS SymLemma SvdLemma GevLemma
CHECK_DEADLOCK FALSE
