---------------------------- MODULE GenSpectral -----------------------------
(* Property C03 - small integer instances for the generalized routines        *)
(* (Dgghrd, Dggsvp3, Dggsvd3, Dtgsja) whose factors are not unique.  Role: R2 *)
(* generator.  What is judged on gonum's output are the acceptance predicates *)
(* of GenPred (normative text, evaluated exactly by the harness); this module *)
(* provides the inputs together with everything about them that can be        *)
(* computed exactly here:                                                     *)
(*   - the exact ranks of A, B and [A; B] (fraction-free integer elimination; *)
(*     GenSpectralLemmas cross-checks them against the largest non-vanishing  *)
(*     minor),                                                                *)
(*   - whether a matrix has a DEPENDENT LEADING COLUMN SET (its first rank    *)
(*     columns are linearly dependent): exactly the inputs on which a QR      *)
(*     factorization WITHOUT column pivoting under-reports the rank,          *)
(*   - the reference matrices Q1*A*Z1^T for the post-multiply job options     *)
(*     (Q1, Z1, U1, V1 are signed permutations: exactly orthogonal),          *)
(*   - the structural preconditions the documentation asks of the inputs.     *)
(*                                                                            *)
(*  gghrd  n in 0..Small, every 0 <= ilo <= ihi < n; A arbitrary in rows and  *)
(*         columns ilo..ihi and upper triangular outside them (what Dggbal    *)
(*         leaves; the LAPACK precondition of Dgghrd), B upper triangular.    *)
(*         dv mod 3: 0 dense, 1 active block already Hessenberg, 2 sparse     *)
(*         (B may then be singular).                                          *)
(*  ggsvd  every shape m, p, n in 0..Small, entries in -3..3;  dv: 0 dense,   *)
(*         1 A of rank one, 2 B with zero leading columns, 3 A and B with     *)
(*         zero leading columns (common null space), 4 B = 0, 5 A = 0,        *)
(*         6 B of rank one with a non-zero first column, 7 B with repeated    *)
(*         rows.  Used for Dggsvp3 and Dggsvd3 (and lapack64.Ggsvd3).         *)
(*  tgsja  every shape and every admissible (k, l): A and B already in the    *)
(*         block form that Dggsvp3 produces, integer entries.                 *)
EXTENDS GenPred, Json

CONSTANTS Fam,    \* "gghrd" | "ggsvd" | "tgsja"
          Small,  \* largest dimension
          Vars,   \* number of data variants per shape
          Seed    \* data salt (VERIF_SEED)
VARIABLE cs
Sd == Seed % 97
H(i, j, s) == Hash(i, j, s % 100, Sd)
Ent(i, j, s) == (H(i, j, s) % 7) - 3                    \* -3 .. 3
NzEnt(i, j, s) == LET e == Ent(i, j, s) IN IF e = 0 THEN 2 ELSE e
Sgn(i, j, s) == IF H(i, j, s) % 2 = 0 THEN 1 ELSE -1
Norm1I(A, m, n) == MaxR(LAMBDA j : SumR(LAMBDA i : Abs(A[i][j]), 0, m - 1), 0, n - 1)

(************************* exact rank over Z *********************************)
RECURSIVE GcdRow(_, _, _)
GcdRow(row, a, b) == IF a > b THEN 0 ELSE Gcd(Abs(row[a]), GcdRow(row, a + 1, b))
\* Gaussian elimination over Z: pivot = first non-zero entry of column j at or below row i,
\* rows below are replaced by  piv*row - row[j]*pivotrow  divided by the gcd of their entries.
RECURSIVE RankFrom(_, _, _, _, _)
RankFrom(M, r, c, i, j) ==
  IF i = r \/ j = c THEN i
  ELSE LET P == {t \in i .. r - 1 : M[t][j] # 0} IN
       IF P = {} THEN RankFrom(M, r, c, i, j + 1)
       ELSE LET t == CHOOSE x \in P : \A y \in P : x <= y
                Sw == Fn([u \in 0 .. r - 1 |-> IF u = i THEN M[t] ELSE IF u = t THEN M[i] ELSE M[u]])
                piv == Sw[i][j]
                El(u) == Fn([x \in 0 .. c - 1 |-> Sw[u][x] * piv - Sw[u][j] * Sw[i][x]])
                Red(u) == LET e == El(u)
                              g == GcdRow(e, 0, c - 1)
                          IN IF g = 0 THEN e ELSE Fn([x \in 0 .. c - 1 |-> e[x] \div g])
                M2 == Fn([u \in 0 .. r - 1 |-> IF u <= i THEN Sw[u] ELSE Red(u)])
            IN RankFrom(M2, r, c, i + 1, j + 1)
Rank(M, r, c) == IF r = 0 \/ c = 0 THEN 0 ELSE RankFrom(M, r, c, 0, 0)
\* rank of the first j columns
RankLead(M, r, c, j) == Rank(Mat(r, j, LAMBDA u, x : M[u][x]), r, j)
\* dependent leading column set: the first rank(M) columns are linearly dependent
LeadDep(M, r, c) == LET rk == Rank(M, r, c) IN RankLead(M, r, c, rk) < rk
Stack(A, B, m, p, n) == Mat(m + p, n, LAMBDA i, j : IF i < m THEN A[i][j] ELSE B[i - m][j])

(*********************** signed permutations *********************************)
\* a signed permutation P of size n: P[i][perm[i]] = sg[i]
SPerm(n, s) == LET ip == Fn([t \in 0 .. n - 1 |-> t + (H(t, n, s) % (n - t))])
               IN [perm |-> Pos(ip, n, n), sg |-> Fn([i \in 0 .. n - 1 |-> Sgn(i, n, s + 1)])]
SPMat(P, n) == Mat(n, n, LAMBDA i, j : IF j = P.perm[i] THEN P.sg[i] ELSE 0)
\* L * A * R^T for signed permutations L (m x m), R (n x n); useL / useR = FALSE stands for I
Ref(A, m, n, L, R, useL, useR) ==
  Mat(m, n, LAMBDA i, j : (IF useL THEN L.sg[i] ELSE 1) * (IF useR THEN R.sg[j] ELSE 1)
                          * A[IF useL THEN L.perm[i] ELSE i][IF useR THEN R.perm[j] ELSE j])
Refs(A, m, n, L, R) == <<MatSeq(Ref(A, m, n, L, R, FALSE, FALSE), m, n), MatSeq(Ref(A, m, n, L, R, TRUE, FALSE), m, n),
                         MatSeq(Ref(A, m, n, L, R, FALSE, TRUE), m, n), MatSeq(Ref(A, m, n, L, R, TRUE, TRUE), m, n)>>

(******************************* gghrd ***************************************)
GghrdOutside(n, ilo, ihi, i, j) == i > j /\ (j < ilo \/ i > ihi)      \* must be zero on entry
GghrdA(n, ilo, ihi, dv) ==
  Mat(n, n, LAMBDA i, j :
    IF GghrdOutside(n, ilo, ihi, i, j) THEN 0
    ELSE IF dv % 3 = 1 /\ i > j + 1 THEN 0
    ELSE IF dv % 3 = 2 /\ H(i, j, 3 + dv) % 2 = 0 THEN 0
    ELSE IF dv % 3 = 0 /\ j > ihi THEN NzEnt(i, j, 5 + dv + 7 * ilo + 11 * ihi)     \* coupling block: non-zero
    ELSE Ent(i, j, 5 + dv + 7 * ilo + 11 * ihi))
GghrdB(n, ilo, ihi, dv) ==
  Mat(n, n, LAMBDA i, j :
    IF i > j THEN 0
    ELSE IF dv % 3 = 2 THEN (IF H(i, j, 23 + dv) % 3 = 0 THEN 0 ELSE Ent(i, j, 27 + dv + 5 * ilo + 3 * ihi))
    ELSE IF i = j THEN NzEnt(i, j, 27 + dv + 5 * ilo + 3 * ihi)
    ELSE Ent(i, j, 27 + dv + 5 * ilo + 3 * ihi))
GghrdInst(n, ilo, ihi, dv) ==
  LET A == GghrdA(n, ilo, ihi, dv)
      B == GghrdB(n, ilo, ihi, dv)
      Q1 == SPerm(n, 41 + dv)
      Z1 == SPerm(n, 47 + dv)
  IN [fam |-> "gghrd", m |-> n, n |-> n, ilo |-> ilo, ihi |-> ihi, dv |-> dv,
      A |-> MatSeq(A, n, n), B |-> MatSeq(B, n, n),
      Q1 |-> MatSeq(SPMat(Q1, n), n, n), Z1 |-> MatSeq(SPMat(Z1, n), n, n),
      \* reference matrices, index 1 + (Q post-multiplied) + 2 * (Z post-multiplied)
      Ar |-> Refs(A, n, n, Q1, Z1), Br |-> Refs(B, n, n, Q1, Z1),
      nrmA |-> Norm1I(A, n, n), nrmB |-> Norm1I(B, n, n),
      tolc |-> 30]
GghrdCases == {x \in [n : 0 .. Small, ilo : 0 .. Small, ihi : -1 .. Small, dv : 0 .. Vars - 1] :
                 IF x.n = 0 THEN x.ilo = 0 /\ x.ihi = -1 ELSE x.ilo <= x.ihi /\ x.ihi < x.n}

(******************************* ggsvd ***************************************)
GgsvdZl(n, dv) == IF n <= 1 THEN n ELSE 1 + (H(n, dv, 51) % (n - 1))       \* number of zero leading columns
GgsvdA(m, p, n, dv) ==
  LET s == 53 + dv + 3 * m + 5 * p + 7 * n IN
  Mat(m, n, LAMBDA i, j :
    CASE dv % 8 = 1 -> Sgn(i, m, s) * Ent(j, n, s + 1)
      [] dv % 8 = 3 -> IF j < GgsvdZl(n, dv) THEN 0 ELSE Ent(i, j, s)
      [] dv % 8 = 5 -> 0
      [] OTHER -> Ent(i, j, s))
GgsvdB(m, p, n, dv) ==
  LET s == 71 + dv + 5 * m + 7 * p + 3 * n IN
  Mat(p, n, LAMBDA i, j :
    CASE dv % 8 \in {2, 3} -> IF j < GgsvdZl(n, dv) THEN 0 ELSE Ent(i, j, s)
      [] dv % 8 = 4 -> 0
      [] dv % 8 = 6 -> Sgn(i, p, s) * (IF j = 0 THEN NzEnt(j, n, s + 1) ELSE Ent(j, n, s + 1))
      [] dv % 8 = 7 -> Ent(i \div 2, j, s)
      [] OTHER -> Ent(i, j, s))
(* unpivB / unpivA: a QR factorization WITHOUT column pivoting can under-    *)
(* report a rank in the two stages of Dggsvp3.  Stage 1 factors B: it under- *)
(* reports (or misplaces the non-zero rows) exactly when B has a dependent   *)
(* leading column set (unpivB).  Stage 2 factors A11 = A * N, N a particular *)
(* orthonormal basis of the null space of B (not rational in general): A11   *)
(* has full column rank - no under-reporting possible - when rank [A; B] = n;*)
(* for B = 0 it is A itself and the exact criterion applies (unpivA is the   *)
(* exact criterion for B = 0 and an upper bound of the affected set          *)
(* otherwise; it is used only to name a failure, never to accept one).       *)
GgsvdUnpivB(B, p, n) == LeadDep(B, p, n)
GgsvdUnpivA(A, m, n, rkB, rkAB) == (rkB = 0 /\ LeadDep(A, m, n)) \/ (rkB > 0 /\ rkAB < n)
GgsvdInst(m, p, n, dv) ==
  LET A == GgsvdA(m, p, n, dv)
      B == GgsvdB(m, p, n, dv)
      rkA == Rank(A, m, n)
      rkB == Rank(B, p, n)
      rkAB == Rank(Stack(A, B, m, p, n), m + p, n)
  IN [fam |-> "ggsvd", m |-> m, p |-> p, n |-> n, dv |-> dv,
      A |-> MatSeq(A, m, n), B |-> MatSeq(B, p, n),
      rkA |-> rkA, rkB |-> rkB, rkAB |-> rkAB,
      unpivB |-> GgsvdUnpivB(B, p, n), unpivA |-> GgsvdUnpivA(A, m, n, rkB, rkAB),
      nrmA |-> Norm1I(A, m, n), nrmB |-> Norm1I(B, p, n),
      tolc |-> 30]
GgsvdCases == [m : 0 .. Small, p : 0 .. Small, n : 0 .. Small, dv : 0 .. Vars - 1]

(******************************* tgsja ***************************************)
TgsjaA(m, p, n, k, l, dv) ==
  LET s == 11 + dv + 3 * m + 5 * n + 7 * k + 13 * l IN
  Mat(m, n, LAMBDA i, j :
    IF AZero(m, n, k, l, i, j) THEN 0
    ELSE IF i < k /\ j = n - l - k + i THEN NzEnt(i, j, s)         \* diagonal of A12
    ELSE Ent(i, j, s))
TgsjaB(m, p, n, k, l, dv) ==
  LET s == 31 + dv + 5 * p + 3 * n + 11 * k + 7 * l IN
  Mat(p, n, LAMBDA i, j :
    IF BZero(p, n, l, i, j) THEN 0
    ELSE IF j = n - l + i THEN NzEnt(i, j, s)                      \* diagonal of B13
    ELSE Ent(i, j, s))
TgsjaInst(m, p, n, k, l, dv) ==
  LET A == TgsjaA(m, p, n, k, l, dv)
      B == TgsjaB(m, p, n, k, l, dv)
      U1 == SPerm(m, 61 + dv)
      V1 == SPerm(p, 67 + dv)
      Q1 == SPerm(n, 73 + dv)
  IN [fam |-> "tgsja", m |-> m, p |-> p, n |-> n, k |-> k, l |-> l, dv |-> dv,
      A |-> MatSeq(A, m, n), B |-> MatSeq(B, p, n),
      U1 |-> MatSeq(SPMat(U1, m), m, m), V1 |-> MatSeq(SPMat(V1, p), p, p), Q1 |-> MatSeq(SPMat(Q1, n), n, n),
      \* reference matrices, index 1 + (left factor post-multiplied) + 2 * (Q post-multiplied)
      Ar |-> Refs(A, m, n, U1, Q1), Br |-> Refs(B, p, n, V1, Q1),
      nrmA |-> Norm1I(A, m, n), nrmB |-> Norm1I(B, p, n),
      tolc |-> 30]
TgsjaCases == {x \in [m : 0 .. Small, p : 0 .. Small, n : 0 .. Small, k : 0 .. Small, l : 0 .. Small, dv : 0 .. Vars - 1] :
                 x.l <= Min(x.p, x.n) /\ x.k <= Min(x.m, x.n - x.l)}

(****************************************************************************)
Cases == CASE Fam = "gghrd" -> GghrdCases
           [] Fam = "ggsvd" -> GgsvdCases
           [] Fam = "tgsja" -> TgsjaCases
Inst(x) == CASE Fam = "gghrd" -> GghrdInst(x.n, x.ilo, x.ihi, x.dv)
             [] Fam = "ggsvd" -> GgsvdInst(x.m, x.p, x.n, x.dv)
             [] Fam = "tgsja" -> TgsjaInst(x.m, x.p, x.n, x.k, x.l, x.dv)

Init == cs \in Cases
Next == UNCHANGED cs
Spec == Init /\ [][Next]_cs

Emit == PrintT(ToJson(Inst(cs)))
=============================================================================
