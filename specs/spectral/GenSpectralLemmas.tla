------------------------ MODULE GenSpectralLemmas --------------------------
(* Property C03, role R1 for the generalized routines: what TLC can check     *)
(* about the instance families of GenSpectral and about the acceptance        *)
(* predicates of GenPred themselves, on every instance of the bounded case    *)
(* space (same Init as the generator).                                        *)
(*                                                                            *)
(*  GghrdLemma  the inputs satisfy the documented preconditions (A upper      *)
(*     triangular outside rows / columns ilo..ihi, B upper triangular); Q1,   *)
(*     Z1 are exactly orthogonal; the printed reference matrices are the      *)
(*     products Q1*A*Z1^T (all four combinations) and have the 1-norm of A;   *)
(*     GghrdAccept with identity factors holds exactly when A is already      *)
(*     Hessenberg; GghrdAccept ACCEPTS the exactly known decomposition        *)
(*     A' = Q0*H0*Z0^T, B' = Q0*T0*Z0^T (Q0, Z0 rational 3-4-5 rotations) in  *)
(*     all four job forms at tolerance 0, and REJECTS it when one entry of H0  *)
(*     is changed or Q0 is not orthogonal.                                    *)
(*  GgsvdLemma  the printed ranks equal the order of the largest non-         *)
(*     vanishing minor (independent definition); rank inequalities; the       *)
(*     dependent-leading-column flag equals its prefix characterisation.      *)
(*  TgsjaLemma  the inputs are in the documented block form: GgsvpAccept      *)
(*     holds for them with U = V = Q = I at tolerance 0 - in particular       *)
(*     l = rank B and k + l = rank [A; B]; U1, V1, Q1 exactly orthogonal and  *)
(*     the references are the products; TgsjaAccept / GgsvdAccept ACCEPT the  *)
(*     exactly known GSVD  A* = D1*[0 R], B* = D2*[0 R] (R the triangular     *)
(*     part of the instance, alpha / beta from 3-4-5 and 5-12-13 pairs) with  *)
(*     R stored as documented (including m-k-l < 0, where part of R lives in  *)
(*     B), and REJECT a changed alpha, a changed entry of R and an iwork that *)
(*     does not sort alpha.                                                   *)
EXTENDS GenSpectral

I == Inst(cs)
Z0(S, m, n) == Fn([i \in 0 .. m - 1 |-> Fn([j \in 0 .. n - 1 |-> S[i + 1][j + 1]])])   \* 0-based view
IntEq(X, Y, m, n) == \A i \in 0 .. m - 1, j \in 0 .. n - 1 : X[i][j] = Y[i][j]
Rot(n, r, c, s, d) ==      \* rotation with cosine c/d, sine s/d in the plane (r, r+1)
  Mat(n, n, LAMBDA i, j : IF i = r /\ j = r THEN RN(c, d) ELSE IF i = r + 1 /\ j = r + 1 THEN RN(c, d)
                          ELSE IF i = r /\ j = r + 1 THEN RN(-s, d) ELSE IF i = r + 1 /\ j = r THEN RN(s, d)
                          ELSE IF i = j THEN ROne ELSE RZero)
Bump(X, m, n, a, b) == Mat(m, n, LAMBDA i, j : IF i = a /\ j = b THEN RAdd(X[i][j], ROne) ELSE X[i][j])
Bools == {TRUE, FALSE}

(******************************* gghrd ***************************************)
GghrdLemma ==
  Fam = "gghrd" =>
    LET n == cs.n
        ilo == cs.ilo
        ihi == cs.ihi
        A == GghrdA(n, ilo, ihi, cs.dv)
        B == GghrdB(n, ilo, ihi, cs.dv)
        Q1 == SPerm(n, 41 + cs.dv)
        Z1 == SPerm(n, 47 + cs.dv)
        RA == FromInt(A, n, n)
        RB == FromInt(B, n, n)
        RQ1 == FromInt(SPMat(Q1, n), n, n)
        RZ1 == FromInt(SPMat(Z1, n), n, n)
        isHess == \A i, j \in 0 .. n - 1 : i > j + 1 => A[i][j] = 0
        \* exactly known decomposition
        H0 == Mat(n, n, LAMBDA i, j : IF i > j + 1 THEN RZero ELSE RA[i][j])
        Q0 == IF n >= 2 THEN Rot(n, H(n, 1, 81) % (n - 1), 3, 4, 5) ELSE Eye(n)
        Z00 == IF n >= 2 THEN Rot(n, H(n, 2, 82) % (n - 1), 5, 12, 13) ELSE Eye(n)
        A1 == MM(MM(Q0, H0, n, n, n), Tr(Z00, n, n), n, n, n)
        B1 == MM(MM(Q0, RB, n, n, n), Tr(Z00, n, n), n, n, n)
    IN /\ \A i, j \in 0 .. n - 1 : GghrdOutside(n, ilo, ihi, i, j) => A[i][j] = 0
       /\ \A i, j \in 0 .. n - 1 : i > j => B[i][j] = 0
       /\ IntEq(Z0(I.A, n, n), A, n, n) /\ IntEq(Z0(I.B, n, n), B, n, n)
       /\ OrthoOK(RQ1, n, RZero) /\ OrthoOK(RZ1, n, RZero)
       /\ \A uq, uz \in Bools :
            LET t == 1 + (IF uq THEN 1 ELSE 0) + (IF uz THEN 2 ELSE 0)
                L == IF uq THEN RQ1 ELSE Eye(n)
                R == IF uz THEN RZ1 ELSE Eye(n)
            IN /\ MM(MM(L, RA, n, n, n), Tr(R, n, n), n, n, n) = FromInt(Z0(I.Ar[t], n, n), n, n)
               /\ MM(MM(L, RB, n, n, n), Tr(R, n, n), n, n, n) = FromInt(Z0(I.Br[t], n, n), n, n)
               /\ Norm1I(Z0(I.Ar[t], n, n), n, n) = I.nrmA /\ Norm1I(Z0(I.Br[t], n, n), n, n) = I.nrmB
       /\ Norm1R(RA, n, n) = RI(I.nrmA)
       \* identity factors are accepted exactly when nothing is left to reduce
       /\ GghrdAccept(n, RA, RB, TRUE, TRUE, RA, RB, Eye(n), Eye(n), RZero) = isHess
       \* the planted decomposition is accepted in every job form, mutations are rejected
       /\ \A hq, hz \in Bools : GghrdAccept(n, A1, B1, hq, hz, H0, RB, Q0, Z00, RZero)
       /\ n >= 2 =>
            /\ \A hq, hz \in Bools : ~GghrdAccept(n, A1, B1, hq, hz, Bump(H0, n, n, 0, n - 1), RB, Q0, Z00, RZero)
            /\ \A hq, hz \in Bools : ~GghrdAccept(n, A1, B1, hq, hz, H0, Bump(RB, n, n, 0, n - 1), Q0, Z00, RZero)
            /\ ~GghrdAccept(n, A1, B1, TRUE, TRUE, H0, RB, Bump(Q0, n, n, 0, 0), Z00, RZero)
       /\ n >= 3 => ~GghrdAccept(n, A1, B1, TRUE, TRUE, Bump(H0, n, n, n - 1, 0), RB, Q0, Z00, RI(1))   \* the zero pattern is exact

(******************************* ggsvd ***************************************)
\* determinant by Laplace expansion along the first listed row; rows, cols are sequences of indices
RECURSIVE Det(_, _, _)
Drop(s, t) == [x \in 1 .. Len(s) - 1 |-> IF x < t THEN s[x] ELSE s[x + 1]]
Det(M, rows, cols) ==
  IF Len(rows) = 0 THEN 1
  ELSE LET RECURSIVE Exp(_)
           Exp(t) == IF t > Len(cols) THEN 0
                     ELSE (IF t % 2 = 1 THEN 1 ELSE -1) * M[rows[1]][cols[t]] * Det(M, Drop(rows, 1), Drop(cols, t)) + Exp(t + 1)
       IN Exp(1)
\* increasing index sequences of length s over 0 .. r-1
RECURSIVE IncSeqs(_, _, _)
IncSeqs(lo, r, s) == IF s = 0 THEN {<<>>}
                     ELSE UNION {{<<a>> \o t : t \in IncSeqs(a + 1, r, s - 1)} : a \in lo .. r - 1}
HasMinor(M, r, c, s) == \E rows \in IncSeqs(0, r, s), cols \in IncSeqs(0, c, s) : Det(M, rows, cols) # 0
MinorRank(M, r, c) == LET S == {s \in 0 .. Min(r, c) : HasMinor(M, r, c, s)}
                      IN CHOOSE s \in S : \A t \in S : t <= s
GgsvdLemma ==
  Fam = "ggsvd" =>
    LET m == cs.m
        p == cs.p
        n == cs.n
        A == GgsvdA(m, p, n, cs.dv)
        B == GgsvdB(m, p, n, cs.dv)
        AB == Stack(A, B, m, p, n)
    IN /\ I.rkA = MinorRank(A, m, n) /\ I.rkB = MinorRank(B, p, n) /\ I.rkAB = MinorRank(AB, m + p, n)
       /\ I.rkAB >= Max(I.rkA, I.rkB) /\ I.rkAB <= Min(n, I.rkA + I.rkB)
       /\ I.unpivB = (\E j \in 1 .. I.rkB : RankLead(B, p, n, j) < j)
       /\ I.unpivA = IF I.rkB = 0 THEN (\E j \in 1 .. I.rkA : RankLead(A, m, n, j) < j) ELSE I.rkAB < n
       /\ I.nrmA = Norm1I(A, m, n) /\ I.nrmB = Norm1I(B, p, n)
       /\ \A i \in 0 .. m - 1, j \in 0 .. n - 1 : A[i][j] \in -3 .. 3
       /\ \A i \in 0 .. p - 1, j \in 0 .. n - 1 : B[i][j] \in -3 .. 3

(******************************* tgsja ***************************************)
\* Pythagorean (alpha, beta) menu: alpha^2 + beta^2 = 1 exactly
ABMenu == << <<RN(3, 5), RN(4, 5)>>, <<RN(4, 5), RN(3, 5)>>, <<RN(5, 13), RN(12, 13)>>, <<RN(12, 13), RN(5, 13)>>,
             <<ROne, RZero>>, <<RZero, ROne>> >>
\* selection sort as interchanges (what a correct implementation may return in iwork)
RECURSIVE SelSort(_, _, _, _, _)
SelSort(alpha, iw, k, ib, t) ==
  IF t >= ib THEN iw
  ELSE LET cand == {x \in k + t .. k + ib - 1 : \A y \in k + t .. k + ib - 1 : RLe(alpha[y], alpha[x])}
           x == CHOOSE c \in cand : TRUE
       IN SelSort([alpha EXCEPT ![k + t] = alpha[x], ![x] = alpha[k + t]], [iw EXCEPT ![k + t] = x], k, ib, t + 1)
TgsjaLemma ==
  Fam = "tgsja" =>
    LET m == cs.m
        p == cs.p
        n == cs.n
        k == cs.k
        l == cs.l
        A == TgsjaA(m, p, n, k, l, cs.dv)
        B == TgsjaB(m, p, n, k, l, cs.dv)
        RA == FromInt(A, m, n)
        RB == FromInt(B, p, n)
        U1 == FromInt(SPMat(SPerm(m, 61 + cs.dv), m), m, m)
        V1 == FromInt(SPMat(SPerm(p, 67 + cs.dv), p), p, p)
        Q1 == FromInt(SPMat(SPerm(n, 73 + cs.dv), n), n, n)
        \* R = [A12 A13; 0 B13]: upper triangular, non-singular
        R == Mat(k + l, k + l, LAMBDA i, j : IF i > j THEN RZero
                                              ELSE IF i < k THEN RA[i][n - k - l + j] ELSE RB[i - k][n - k - l + j])
        ab == Fn([i \in 0 .. n - 1 |->
                    IF i < k THEN <<ROne, RZero>>
                    ELSE IF i < Min(m, k + l) THEN ABMenu[1 + (H(i, n + k, 83 + cs.dv) % 6)]
                    ELSE IF i < k + l THEN <<RZero, ROne>> ELSE <<RZero, RZero>>])
        alpha == Fn([i \in 0 .. n - 1 |-> ab[i][1]])
        beta == Fn([i \in 0 .. n - 1 |-> ab[i][2]])
        \* D1, D2 and [0 R] written out block by block as in the documentation of Dggsvd3 / Dtgsja
        \* (independently of GenPred!D1R / D2R, which are compared with the products below)
        D1 == Mat(m, k + l, LAMBDA i, j : IF i # j THEN RZero ELSE IF i < k THEN ROne
                                          ELSE IF i < Min(m, k + l) THEN alpha[i] ELSE RZero)
        D2 == Mat(p, k + l, LAMBDA i, j : IF j # k + i \/ i >= l THEN RZero ELSE IF k + i < m THEN beta[k + i] ELSE ROne)
        ZR == Mat(k + l, n, LAMBDA i, j : IF j < n - k - l THEN RZero ELSE R[i][j - (n - k - l)])
        As == MM(D1, ZR, m, k + l, n)                       \* exactly known GSVD, U = V = Q = I
        Bs == MM(D2, ZR, p, k + l, n)
        \* R stored as documented
        Ao == Mat(m, n, LAMBDA i, j : IF i < Min(m, k + l) /\ j >= n - k - l THEN R[i][j - (n - k - l)] ELSE RZero)
        Bo == Mat(p, n, LAMBDA i, j : IF i + k >= m /\ i < l /\ j >= n - k - l THEN R[i + k][j - (n - k - l)] ELSE RZero)
        ib == Max(Min(l, m - k), 0)
        iw0 == Fn([i \in 0 .. n - 1 |-> i])
        iw == SelSort(alpha, iw0, k, ib, 0)
        sorted == \A i \in 0 .. ib - 2 : RLe(alpha[k + i + 1], alpha[k + i])
        mid == {i \in k .. Min(m, k + l) - 1 : ~(alpha[i] = beta[i])}
    IN /\ IntEq(Z0(I.A, m, n), A, m, n) /\ IntEq(Z0(I.B, p, n), B, p, n)
       \* the inputs are in the block form Dggsvp3 promises (identity factors, tolerance 0)
       /\ GgsvpAccept(m, p, n, RA, RB, Rank(B, p, n), Rank(Stack(A, B, m, p, n), m + p, n),
                      TRUE, TRUE, TRUE, Eye(m), Eye(p), Eye(n), RA, RB, k, l, RZero)
       /\ OrthoOK(U1, m, RZero) /\ OrthoOK(V1, p, RZero) /\ OrthoOK(Q1, n, RZero)
       /\ \A ul, uq \in Bools :
            LET t == 1 + (IF ul THEN 1 ELSE 0) + (IF uq THEN 2 ELSE 0)
                Rq == IF uq THEN Q1 ELSE Eye(n)
            IN /\ MM(MM(IF ul THEN U1 ELSE Eye(m), RA, m, m, n), Tr(Rq, n, n), m, n, n) = FromInt(Z0(I.Ar[t], m, n), m, n)
               /\ MM(MM(IF ul THEN V1 ELSE Eye(p), RB, p, p, n), Tr(Rq, n, n), p, n, n) = FromInt(Z0(I.Br[t], p, n), p, n)
       /\ I.nrmA = Norm1I(A, m, n) /\ I.nrmB = Norm1I(B, p, n)
       \* the exactly known GSVD is accepted in every job form
       /\ RofAB(m, n, k, l, Ao, Bo) = R
       /\ D1R(m, n, k, l, alpha, R) = As /\ D2R(p, n, k, l, beta, R) = Bs
       /\ \A hu, hv, hq \in Bools :
            TgsjaAccept(m, p, n, As, Bs, hu, hv, hq, Eye(m), Eye(p), Eye(n), Ao, Bo, alpha, beta, k, l, RZero)
       /\ GgsvdAccept(m, p, n, As, Bs, l, k + l, TRUE, TRUE, TRUE, Eye(m), Eye(p), Eye(n), Ao, Bo, alpha, beta, k, l, iw, RZero)
       /\ SortOK(m, n, k, l, alpha, iw0) = sorted
       \* mutations are rejected
       /\ ~GgsvdAccept(m, p, n, As, Bs, l + 1, k + l, TRUE, TRUE, TRUE, Eye(m), Eye(p), Eye(n), Ao, Bo, alpha, beta, k, l, iw, RZero)
       /\ \A i \in mid :
            ~TgsjaAccept(m, p, n, As, Bs, TRUE, TRUE, TRUE, Eye(m), Eye(p), Eye(n), Ao, Bo,
                         [alpha EXCEPT ![i] = beta[i]], [beta EXCEPT ![i] = alpha[i]], k, l, RZero)
       \* the exact parts of the alpha / beta pattern
       /\ \A i \in 0 .. n - 1 :
            LET wrong == IF i < k THEN ROne ELSE IF i < Min(m, k + l) THEN RAdd(beta[i], ROne) ELSE IF i < k + l THEN RZero ELSE ROne
            IN ~TgsjaAccept(m, p, n, As, Bs, FALSE, FALSE, FALSE, Eye(m), Eye(p), Eye(n), Ao, Bo,
                            alpha, [beta EXCEPT ![i] = wrong], k, l, RN(1, 4096))
       /\ (k + l >= 1 /\ Min(m, k + l) >= 1) =>
            \A hu, hv, hq \in Bools :
              ~TgsjaAccept(m, p, n, As, Bs, hu, hv, hq, Eye(m), Eye(p), Eye(n), Bump(Ao, m, n, 0, n - 1), Bo, alpha, beta, k, l, RZero)
       /\ n >= 1 => ~TgsjaAccept(m, p, n, As, Bs, TRUE, TRUE, TRUE, Eye(m), Eye(p), Eye(n), Ao, Bo,
                                 [alpha EXCEPT ![n - 1] = RAdd(alpha[n - 1], RN(1, 8))], beta, k, l, RN(1, 4096))

(*********** the identities stated for the planted families (GenPred) ********)
(* PlantedPredLemma (evaluated on the tgsja case space, which provides signed *)
(* permutations U1 (m x m) and Q1 (n x n)): SvdAccept accepts A = U1*S*Q1^T    *)
(* with thin and full factors in every job form and rejects a changed         *)
(* singular value; SymAccept and SimAccept likewise for Q1*D*Q1^T and         *)
(* Q1^T*T*Q1.  The state-independent assumptions check Lanv2Accept and the    *)
(* eigenvector predicates on hand-computed exact examples.                    *)
PlantedPredLemma ==
  Fam = "tgsja" =>
    LET m == cs.m
        n == cs.n
        kk == Min(m, n)
        U1 == FromInt(SPMat(SPerm(m, 61 + cs.dv), m), m, m)
        Q1 == FromInt(SPMat(SPerm(n, 73 + cs.dv), n), n, n)
        sv == Fn([i \in 0 .. kk - 1 |-> RI((kk - i) \div 2 + (H(i, kk, 85) % 2))])       \* descending-ish, repeated values
        Sg == SigmaM(sv, m, n)
        A == MM(MM(U1, Sg, m, m, n), Tr(Q1, n, n), m, n, n)
        Cols(X, r, c) == Mat(r, c, LAMBDA i, j : X[i][j])
        w == Fn([i \in 0 .. n - 1 |-> RI((H(i, n, 86) % 5) - 2)])
        As == MM(MM(Q1, SigmaM(w, n, n), n, n, n), Tr(Q1, n, n), n, n, n)
        T == Mat(n, n, LAMBDA i, j : IF i > j THEN RZero ELSE RI(Ent(i, j, 87)))
        Tp == MM(MM(Tr(Q1, n, n), T, n, n, n), Q1, n, n, n)
    IN /\ \A hu, hv \in Bools : \A a \in {kk, m}, b \in {kk, n} :
            /\ SvdAccept(m, n, A, hu, hv, a, b, Cols(U1, m, a), sv, Cols(Q1, n, b), RZero)
            /\ kk >= 1 => ~SvdAccept(m, n, A, hu, hv, a, b, Cols(U1, m, a), [sv EXCEPT ![0] = RAdd(sv[0], ROne)], Cols(Q1, n, b), RZero)
       /\ m >= 2 => ~SvdAccept(m, n, A, TRUE, FALSE, m, n, Bump(U1, m, m, 0, 0), sv, Q1, RN(1, 4096))
       /\ SymAccept(n, As, Q1, w, RZero)
       /\ n >= 1 => ~SymAccept(n, As, Q1, [w EXCEPT ![0] = RAdd(w[0], ROne)], RZero)
       /\ \A hq \in Bools : SimAccept(n, T, hq, Q1, Tp, RZero)
       /\ n >= 1 => \A hq \in Bools : ~SimAccept(n, T, hq, Q1, Bump(Tp, n, n, 0, 0), RZero)

\* Dlanv2: [a b; c d] = G * [aa bb; cc dd] * G^T with the 3-4-5 rotation
LanvMp == Mat(2, 2, LAMBDA i, j : IF i = 0 /\ j = 0 THEN RI(1) ELSE IF i = 0 THEN RI(2) ELSE IF j = 0 THEN RZero ELSE RI(3))
LanvG == Mat(2, 2, LAMBDA i, j : IF i = j THEN RN(3, 5) ELSE IF i = 0 THEN RN(-4, 5) ELSE RN(4, 5))
LanvM == MM(MM(LanvG, LanvMp, 2, 2, 2), Tr(LanvG, 2, 2), 2, 2, 2)
ASSUME Lanv2Accept(LanvM, LanvMp, RN(3, 5), RN(4, 5), RZero)
ASSUME ~Lanv2Accept(LanvM, LanvMp, RN(4, 5), RN(3, 5), RN(1, 64))
ASSUME ~Lanv2Accept(LanvM, LanvMp, RN(3, 5), RN(3, 5), RN(1, 64))
\* eigenvectors of T3 = [2 1 0; 0 1 -3; 0 3 1]: 2 (e0), 1 + 3i with x = (xr, xi)
T3 == Mat(3, 3, LAMBDA i, j : RI(<< <<2, 1, 0>>, <<0, 1, -3>>, <<0, 3, 1>> >>[i + 1][j + 1]))
V3(a, b, c) == Fn([i \in 0 .. 2 |-> <<a, b, c>>[i + 1]])
Z3 == V3(RZero, RZero, RZero)
ASSUME EigRightOK(3, T3, RI(2), RZero, V3(ROne, RZero, RZero), Z3, RZero)
ASSUME ~EigRightOK(3, T3, RI(2), RZero, V3(RZero, ROne, RZero), Z3, RN(1, 64))
ASSUME ~EigRightOK(3, T3, RI(2), RZero, Z3, Z3, RI(1))
\* (T - (1+3i)) x = 0: x = (x0, 1, -i) with x0 = -1/(2 - 1 - 3i) * 1 ... solved exactly: x0 = -(1+3i)/10
ASSUME EigRightOK(3, T3, RI(1), RI(3), V3(RN(-1, 10), ROne, RZero), V3(RN(-3, 10), RZero, RI(-1)), RZero)
ASSUME ~EigRightOK(3, T3, RI(1), RI(3), V3(RN(-1, 10), ROne, RZero), V3(RN(-3, 10), RZero, RI(1)), RN(1, 64))
\* left eigenvector for 2: y^T*T3 = 2*y^T: y = (1, y1, y2) with y1*(1-2) + 3*y2 = -1, -3*y1 + y2*(1-2) = 0
ASSUME EigLeftOK(3, T3, RI(2), RZero, V3(ROne, RN(1, 10), RN(-3, 10)), Z3, RZero)
ASSUME ~EigLeftOK(3, T3, RI(2), RZero, V3(ROne, RZero, RZero), Z3, RN(1, 64))
=============================================================================
