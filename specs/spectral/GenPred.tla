------------------------------ MODULE GenPred -------------------------------
(* Property C03 - acceptance predicates for the routines whose factors are    *)
(* NOT unique (generalized Hessenberg reduction Dgghrd, the GSVD              *)
(* preprocessing Dggsvp3, the GSVD driver Dggsvd3 and its Jacobi kernel       *)
(* Dtgsja).  For these no expected factor can be planted; what the property   *)
(* and the documentation state is an IDENTITY: the returned factors are       *)
(* orthogonal to rounding, have the documented zero pattern exactly, and      *)
(* reproduce the input within  c * n * eps * |input|.  This module states     *)
(* that identity once, as operators over exact rationals (pairs <<num, den>>, *)
(* den > 0, in lowest terms).  It is the NORMATIVE text:                      *)
(*   - TLC evaluates the operators on exactly known decompositions and on     *)
(*     mutated ones (GenSpectralLemmas: the predicate accepts / rejects),     *)
(*   - the harness (harness/internal/spectral/genpred.go) evaluates the same  *)
(*     formulas on the float64 arrays gonum returned, with math/big.Rat, i.e. *)
(*     exactly.  Every Go function there names the operator it mirrors.       *)
(* TLC itself cannot hold 53-bit mantissas, which is why the evaluation on    *)
(* gonum's output happens in the harness.  This is the weaker binding of      *)
(* C03: identity predicates stated by the specification, no unique expected   *)
(* value.                                                                     *)
(*                                                                            *)
(* Matrices are functions [0..m-1 -> [0..n-1 -> rational]].  tau is the       *)
(* relative tolerance c * dim * eps of the property (a rational).             *)
EXTENDS SpLib

(***************************** rationals ************************************)
RECURSIVE Gcd(_, _)
Gcd(a, b) == IF b = 0 THEN a ELSE Gcd(b, a % b)             \* a, b >= 0
RN(n, d) == LET g == Gcd(Abs(n), Abs(d))
                s == IF d < 0 THEN -1 ELSE 1
            IN IF n = 0 THEN <<0, 1>> ELSE <<s * (n \div g), s * (d \div g)>>
RI(k) == <<k, 1>>
RZero == <<0, 1>>
ROne == <<1, 1>>
RNeg(a) == <<-a[1], a[2]>>
RAbs(a) == <<Abs(a[1]), a[2]>>
RMul(a, b) == IF a[1] = 0 \/ b[1] = 0 THEN RZero
              ELSE LET g1 == Gcd(Abs(a[1]), b[2])
                       g2 == Gcd(Abs(b[1]), a[2])
                   IN <<(a[1] \div g1) * (b[1] \div g2), (a[2] \div g2) * (b[2] \div g1)>>
RAdd(a, b) == LET g == Gcd(a[2], b[2])
              IN RN(a[1] * (b[2] \div g) + b[1] * (a[2] \div g), (a[2] \div g) * b[2])
RSub(a, b) == RAdd(a, RNeg(b))
RLe(a, b) == RSub(a, b)[1] <= 0
RIsZero(a) == a[1] = 0
RMaxOf(a, b) == IF RLe(a, b) THEN b ELSE a

RECURSIVE RSumR(_, _, _)
RSumR(F(_), a, b) == IF a > b THEN RZero ELSE RAdd(F(a), RSumR(F, a + 1, b))
RECURSIVE RMaxRr(_, _, _)
RMaxRr(F(_), a, b) == IF a > b THEN RZero ELSE RMaxOf(F(a), RMaxRr(F, a + 1, b))

(***************************** matrices *************************************)
FromInt(A, m, n) == Mat(m, n, LAMBDA i, j : RI(A[i][j]))
Eye(n) == Mat(n, n, LAMBDA i, j : IF i = j THEN ROne ELSE RZero)
Tr(X, m, n) == Mat(n, m, LAMBDA i, j : X[j][i])                       \* X is m x n
MM(X, Y, m, k, n) == Mat(m, n, LAMBDA i, j : RSumR(LAMBDA t : RMul(X[i][t], Y[t][j]), 0, k - 1))
MSub(X, Y, m, n) == Mat(m, n, LAMBDA i, j : RSub(X[i][j], Y[i][j]))
Norm1R(X, m, n) == RMaxRr(LAMBDA j : RSumR(LAMBDA i : RAbs(X[i][j]), 0, m - 1), 0, n - 1)   \* max column sum
MaxAbsR(X, m, n) == RMaxRr(LAMBDA i : RMaxRr(LAMBDA j : RAbs(X[i][j]), 0, n - 1), 0, m - 1)
Frob2(X, m, n) == RSumR(LAMBDA i : RSumR(LAMBDA j : RMul(X[i][j], X[i][j]), 0, n - 1), 0, m - 1)

(************************* orthogonality and identities **********************)
(* OrthoOK:  | X^T X - I |_max <= tau                                        *)
OrthoOK(X, n, tau) == RLe(MaxAbsR(MSub(MM(Tr(X, n, n), X, n, n, n), Eye(n), n, n), n, n), tau)

(* Ident: the two-sided identity  L^T * X * R = Y  for an m x n matrix X,    *)
(* orthogonal L (m x m) and R (n x n), in the form that the available        *)
(* factors allow (a job option may suppress L, R or both):                   *)
(*   both   | L^T X R - Y |_1               <= tau * |X|_1                   *)
(*   R only | R^T X^T X R - Y^T Y |_F       <= tauF * |X|_F^2                *)
(*   L only | L^T X X^T L - Y Y^T |_F       <= tauF * |X|_F^2                *)
(*   none   | |Y|_F^2 - |X|_F^2 |           <= tauF * |X|_F^2                *)
(* with tauF = 3 * max(m, n) * tau: if Y = L^T X R + E and |E|_1 <= tau|X|_1 *)
(* then |E|_F <= max(m,n) * tau * |X|_F and the quadratic forms differ by at *)
(* most (2 t + t^2) |X|_F^2 <= 3 t |X|_F^2, t = max(m,n) * tau <= 1.         *)
(* Frobenius inequalities are stated between squares (no square roots).      *)
TauF(m, n, tau) == RMul(RI(3 * Max(Max(m, n), 1)), tau)
(* General form: L is m x a and R is n x b with orthonormal COLUMNS (a <= m, *)
(* b <= n: the thin factors of an SVD); Y is a x b, m x b, a x n or m x n     *)
(* according to which factors are available (the suppressed one is thought   *)
(* of as completed to a square orthogonal matrix).                           *)
IdentBothG(L, X, R, Y, m, n, a, b, tau) ==
  RLe(Norm1R(MSub(MM(MM(Tr(L, m, a), X, a, m, n), R, a, n, b), Y, a, b), a, b), RMul(tau, Norm1R(X, m, n)))
QuadOK(D, k, X, m, n, tau) ==       \* |D|_F <= tauF |X|_F^2, D is k x k
  LET t == TauF(m, n, tau)
      f == Frob2(X, m, n)
  IN RLe(Frob2(D, k, k), RMul(RMul(t, t), RMul(f, f)))
IdentRightG(X, R, Y, m, n, b, tau) ==           \* Y is m x b
  LET XR == MM(X, R, m, n, b) IN
  QuadOK(MSub(MM(Tr(XR, m, b), XR, b, m, b), MM(Tr(Y, m, b), Y, b, m, b), b, b), b, X, m, n, tau)
IdentLeftG(L, X, Y, m, n, a, tau) ==            \* Y is a x n
  LET LX == MM(Tr(L, m, a), X, a, m, n) IN
  QuadOK(MSub(MM(LX, Tr(LX, a, n), a, n, a), MM(Y, Tr(Y, a, n), a, n, a), a, a), a, X, m, n, tau)
IdentNone(X, Y, m, n, tau) ==
  RLe(RAbs(RSub(Frob2(Y, m, n), Frob2(X, m, n))), RMul(TauF(m, n, tau), Frob2(X, m, n)))
IdentG(hasL, hasR, L, X, R, Y, m, n, a, b, tau) ==
  IF hasL /\ hasR THEN IdentBothG(L, X, R, Y, m, n, a, b, tau)
  ELSE IF hasR THEN IdentRightG(X, R, Y, m, n, b, tau)
  ELSE IF hasL THEN IdentLeftG(L, X, Y, m, n, a, tau)
  ELSE IdentNone(X, Y, m, n, tau)
\* square factors
IdentBoth(L, X, R, Y, m, n, tau) == IdentBothG(L, X, R, Y, m, n, m, n, tau)
IdentRight(X, R, Y, m, n, tau) == IdentRightG(X, R, Y, m, n, n, tau)
IdentLeft(L, X, Y, m, n, tau) == IdentLeftG(L, X, Y, m, n, m, tau)
Ident(hasL, hasR, L, X, R, Y, m, n, tau) == IdentG(hasL, hasR, L, X, R, Y, m, n, m, n, tau)
\* orthonormal columns of an m x a matrix:  | X^T X - I_a |_max <= tau
ColsOrthoOK(X, m, a, tau) == RLe(MaxAbsR(MSub(MM(Tr(X, m, a), X, a, m, a), Eye(a), a, a), a, a), tau)

(****************************** Dgghrd **************************************)
(* Documentation (dgghrd.go): Q^T*A*Z = H upper Hessenberg, Q^T*B*Z = T      *)
(* upper triangular; Q, Z orthogonal, formed explicitly or post-multiplied   *)
(* into Q1, Z1:  Q1*A*Z1^T = (Q1*Q)*H*(Z1*Z)^T.  Aref / Bref are the         *)
(* left-hand sides (A resp. Q1*A*Z1^T with Q1 / Z1 replaced by I for the     *)
(* factor that is not post-multiplied), Q / Z the returned matrices (hasQ,   *)
(* hasZ: job other than None).  The zero patterns are exact (the routine     *)
(* stores H and T).                                                          *)
UpperHessR(X, n) == \A i, j \in 0 .. n - 1 : i > j + 1 => RIsZero(X[i][j])
UpperTriR(X, n) == \A i, j \in 0 .. n - 1 : i > j => RIsZero(X[i][j])
GghrdAccept(n, Aref, Bref, hasQ, hasZ, Hh, T, Q, Z, tau) ==
  /\ hasQ => OrthoOK(Q, n, tau)
  /\ hasZ => OrthoOK(Z, n, tau)
  /\ UpperHessR(Hh, n)
  /\ UpperTriR(T, n)
  /\ Ident(hasQ, hasZ, Q, Aref, Z, Hh, n, n, tau)
  /\ Ident(hasQ, hasZ, Q, Bref, Z, T, n, n, tau)

(****************************** Dggsvp3 *************************************)
(* Documentation (dggsvp3.go):                                               *)
(*                 n-k-l  k    l                                             *)
(*  U^T*A*Q =   k [ 0    A12  A13 ]      V^T*B*Q =   l [ 0  0  B13 ]          *)
(*              l [ 0     0   A23 ]                p-l [ 0  0   0  ]          *)
(*          m-k-l [ 0     0    0  ]                                          *)
(* (rows k..m-1 only when m-k-l < 0), A12 (k x k) and B13 (l x l) upper      *)
(* triangular and non-singular, A23 upper triangular / trapezoidal; k + l is *)
(* the EFFECTIVE NUMERICAL rank of [A; B] and l that of B, decided by the     *)
(* documented thresholds tola / tolb = max(dims) * norm * eps.  For the exact *)
(* integer instances of GenSpectral a true pivot is many orders above the    *)
(* threshold, so the numerical rank can never be BELOW the exact one: that is *)
(* RankOK's claim.  It may be above it: a pivot that is zero in exact        *)
(* arithmetic is computed as c * eps * norm with an unpredictable c, and the *)
(* threshold is only max(dims) * eps * norm (quick tier, VERIF_SEED=7: B =    *)
(* [[3 2 -3],[3 2 -3],[-2 -2 -2]] gives |r33| = 5.329e-15 = tolb to the last *)
(* bit; which side it falls on depends on the blocking of the QR).  An over- *)
(* reported rank is therefore accepted, and every other clause is then       *)
(* evaluated with the returned k and l.  AZero / BZero say which entries of  *)
(* the outputs are structurally zero: they must be EXACTLY zero.             *)
RankOK(rkB, rkAB, k, l) == l >= rkB /\ k + l >= rkAB
AZero(m, n, k, l, i, j) ==
  IF i < k THEN j < n - l - k + i
  ELSE IF i < k + l THEN j < n - l + (i - k)
  ELSE TRUE
BZero(p, n, l, i, j) == IF i < l THEN j < n - l + i ELSE TRUE
GgsvpShape(m, p, n, k, l) == k >= 0 /\ l >= 0 /\ l <= Min(p, n) /\ k <= Min(m, n - l)
GgsvpStruct(m, p, n, k, l, Ao, Bo) ==
  /\ \A i \in 0 .. m - 1, j \in 0 .. n - 1 : AZero(m, n, k, l, i, j) => RIsZero(Ao[i][j])
  /\ \A i \in 0 .. p - 1, j \in 0 .. n - 1 : BZero(p, n, l, i, j) => RIsZero(Bo[i][j])
  /\ \A i \in 0 .. k - 1 : ~RIsZero(Ao[i][n - l - k + i])          \* A12 non-singular
  /\ \A i \in 0 .. l - 1 : ~RIsZero(Bo[i][n - l + i])              \* B13 non-singular
GgsvpAccept(m, p, n, A, B, rkB, rkAB, hasU, hasV, hasQ, U, V, Q, Ao, Bo, k, l, tau) ==
  /\ GgsvpShape(m, p, n, k, l)
  /\ RankOK(rkB, rkAB, k, l)
  /\ GgsvpStruct(m, p, n, k, l, Ao, Bo)
  /\ hasU => OrthoOK(U, m, tau)
  /\ hasV => OrthoOK(V, p, tau)
  /\ hasQ => OrthoOK(Q, n, tau)
  /\ Ident(hasU, hasQ, U, A, Q, Ao, m, n, tau)
  /\ Ident(hasV, hasQ, V, B, Q, Bo, p, n, tau)

(************************ Dggsvd3 and Dtgsja ********************************)
(* Documentation (dggsvd3.go, dtgsja.go):  U^T*A*Q = D1*[0 R],               *)
(* V^T*B*Q = D2*[0 R], R (k+l) x (k+l) upper triangular and non-singular,    *)
(* stored in A[0:min(k+l,m), n-k-l:n] and, when m-k-l < 0, its last k+l-m    *)
(* rows in B[m-k:l, n-k-l:n] (only the upper triangle of R is read here);    *)
(*   D1 = diag(alpha[0:min(m,k+l)]) padded with zeros to m x (k+l),          *)
(*   D2[i][k+i] = beta[k+i], i < l, zero elsewhere (p x (k+l)),              *)
(*   alpha[0:k] = 1, beta[0:k] = 0; alpha^2 + beta^2 = 1 on k..min(m,k+l)-1; *)
(*   alpha = 0, beta = 1 on m..k+l-1; alpha = beta = 0 on k+l..n-1;          *)
(* iwork holds, for i < min(l, m-k), interchanges k+i <-> iwork[k+i] that    *)
(* sort alpha[k : k + min(l, m-k)] descending.                               *)
RofAB(m, n, k, l, Ao, Bo) ==
  Mat(k + l, k + l, LAMBDA i, j : IF i > j THEN RZero
                                   ELSE IF i < m THEN Ao[i][n - k - l + j]
                                   ELSE Bo[i - k][n - k - l + j])
D1R(m, n, k, l, alpha, R) ==        \* D1 * [0 R]  (m x n)
  Mat(m, n, LAMBDA i, j : IF i < Min(m, k + l) /\ j >= n - k - l THEN RMul(alpha[i], R[i][j - (n - k - l)]) ELSE RZero)
D2R(p, n, k, l, beta, R) ==         \* D2 * [0 R]  (p x n)
  Mat(p, n, LAMBDA i, j : IF i < l /\ j >= n - k - l THEN RMul(beta[k + i], R[k + i][j - (n - k - l)]) ELSE RZero)
AlphaBetaOK(m, n, k, l, alpha, beta, tau) ==
  \A i \in 0 .. n - 1 :
    IF i < k THEN alpha[i] = ROne /\ beta[i] = RZero
    ELSE IF i < Min(m, k + l)
         THEN RLe(RAbs(RSub(RAdd(RMul(alpha[i], alpha[i]), RMul(beta[i], beta[i])), ROne)), tau)
    ELSE IF i < k + l THEN alpha[i] = RZero /\ beta[i] = ROne
    ELSE alpha[i] = RZero /\ beta[i] = RZero
\* alpha after the interchanges i = 0 .. t-1
RECURSIVE Swapped(_, _, _, _)
Swapped(alpha, iw, k, t) ==
  IF t = 0 THEN alpha
  ELSE LET a == Swapped(alpha, iw, k, t - 1)
           x == k + t - 1
           y == iw[x]
       IN [a EXCEPT ![x] = a[y], ![y] = a[x]]
SortOK(m, n, k, l, alpha, iw) ==
  LET ib == Max(Min(l, m - k), 0)
      a == Swapped(alpha, iw, k, ib)
  IN /\ \A i \in 0 .. ib - 1 : iw[k + i] >= k /\ iw[k + i] < k + ib
     /\ \A i \in 0 .. ib - 2 : RLe(a[k + i + 1], a[k + i])
GgsvdCore(m, p, n, A, B, hasU, hasV, hasQ, U, V, Q, Ao, Bo, alpha, beta, k, l, tau) ==
  LET R == RofAB(m, n, k, l, Ao, Bo) IN
  /\ GgsvpShape(m, p, n, k, l)
  /\ AlphaBetaOK(m, n, k, l, alpha, beta, tau)
  /\ \A i \in 0 .. k + l - 1 : ~RIsZero(R[i][i])
  /\ hasU => OrthoOK(U, m, tau)
  /\ hasV => OrthoOK(V, p, tau)
  /\ hasQ => OrthoOK(Q, n, tau)
  /\ Ident(hasU, hasQ, U, A, Q, D1R(m, n, k, l, alpha, R), m, n, tau)
  /\ Ident(hasV, hasQ, V, B, Q, D2R(p, n, k, l, beta, R), p, n, tau)
\* Dggsvd3: the ranks are part of the claim (RankOK) and iwork sorts alpha
GgsvdAccept(m, p, n, A, B, rkB, rkAB, hasU, hasV, hasQ, U, V, Q, Ao, Bo, alpha, beta, k, l, iw, tau) ==
  /\ RankOK(rkB, rkAB, k, l)
  /\ GgsvdCore(m, p, n, A, B, hasU, hasV, hasQ, U, V, Q, Ao, Bo, alpha, beta, k, l, tau)
  /\ SortOK(m, n, k, l, alpha, iw)
\* Dtgsja: k and l are inputs (A, B already in the form GgsvpStruct), the factors may be
\* post-multiplied into U1, V1, Q1: A and B are then U1*A*Q1^T and V1*B*Q1^T
TgsjaAccept(m, p, n, Aref, Bref, hasU, hasV, hasQ, U, V, Q, Ao, Bo, alpha, beta, k, l, tau) ==
  GgsvdCore(m, p, n, Aref, Bref, hasU, hasV, hasQ, U, V, Q, Ao, Bo, alpha, beta, k, l, tau)

(************* identities for the planted families (all vectors) *************)
(* The planted instances of PlantedSpectral / CondensedSpectral have unique   *)
(* expected VALUES, and unique vectors only for simple values.  What the      *)
(* property says about every returned vector (also those of repeated values   *)
(* and the extra columns of U / rows of V^T for SVDAll) is again an identity: *)
(*   Dgesvd   U (m x a), V = (V^T)^T (n x b) have orthonormal columns and      *)
(*            U^T*A*V = Sigma (a x b, s on the diagonal), a in {min, m},       *)
(*            b in {min, n}; with a suppressed factor the quadratic form.      *)
(*   Dsyev    Z orthogonal and Z^T*A*Z = diag(w).                              *)
(*   Dtrexc   Q orthogonal and Q^T*T*Q = T' (compq = None: |T'|_F = |T|_F).    *)
(*   Dlanv2   [a b; c d] = G*[aa bb; cc dd]*G^T, G = [cs -sn; sn cs],          *)
(*            cs^2 + sn^2 = 1.                                                 *)
(*   Dtrevc3  T*x = lambda*x for every returned vector (lambda = wr + i*wi of  *)
(*            the diagonal block; a complex vector is the pair xr, xi):        *)
(*            |T*xr - wr*xr + wi*xi|_inf and |T*xi - wr*xi - wi*xr|_inf        *)
(*            <= tau * |T|_inf * (|xr|_inf + |xi|_inf); y^T*T = lambda*y^T     *)
(*            for left vectors.                                                *)
SigmaM(s, a, b) == Mat(a, b, LAMBDA i, j : IF i = j THEN s[i] ELSE RZero)
SvdAccept(m, n, A, hasU, hasV, a, b, U, s, V, tau) ==
  LET aa == IF hasU THEN a ELSE m
      bb == IF hasV THEN b ELSE n
  IN /\ hasU => ColsOrthoOK(U, m, a, tau)
     /\ hasV => ColsOrthoOK(V, n, b, tau)
     /\ IdentG(hasU, hasV, U, A, V, SigmaM(s, aa, bb), m, n, aa, bb, tau)
SymAccept(n, A, Z, w, tau) == OrthoOK(Z, n, tau) /\ IdentBoth(Z, A, Z, SigmaM(w, n, n), n, n, tau)
SimAccept(n, T, hasQ, Q, Tp, tau) == (hasQ => OrthoOK(Q, n, tau)) /\ Ident(hasQ, hasQ, Q, T, Q, Tp, n, n, tau)
Lanv2Accept(M, Mp, cs, sn, tau) ==
  LET G == Mat(2, 2, LAMBDA i, j : IF i = j THEN cs ELSE IF i = 0 THEN RNeg(sn) ELSE sn)
  IN OrthoOK(G, 2, tau) /\ IdentBoth(G, M, G, Mp, 2, 2, tau)
NormInfV(x, n) == RMaxRr(LAMBDA i : RAbs(x[i]), 0, n - 1)
NormInfM(T, n) == RMaxRr(LAMBDA i : RSumR(LAMBDA j : RAbs(T[i][j]), 0, n - 1), 0, n - 1)
\* right eigenvector xr + i*xi of T for wr + i*wi (xi = 0, wi = 0 for a real eigenvalue)
EigRightOK(n, T, wr, wi, xr, xi, tau) ==
  LET Tx(x, i) == RSumR(LAMBDA j : RMul(T[i][j], x[j]), 0, n - 1)
      bound == RMul(RMul(tau, NormInfM(T, n)), RAdd(NormInfV(xr, n), NormInfV(xi, n)))
  IN /\ ~RIsZero(RAdd(NormInfV(xr, n), NormInfV(xi, n)))
     /\ \A i \in 0 .. n - 1 :
          /\ RLe(RAbs(RAdd(RSub(Tx(xr, i), RMul(wr, xr[i])), RMul(wi, xi[i]))), bound)
          /\ RLe(RAbs(RSub(RSub(Tx(xi, i), RMul(wr, xi[i])), RMul(wi, xr[i]))), bound)
\* left eigenvector y = yr + i*yi: the documentation writes y^T*T = lambda*y^T, LAPACK (of which the
\* routine is a translation) y^H*T = lambda*y^H; for a complex eigenvalue the two differ by a
\* conjugation and either is accepted:  T^T*(yr -+ i*yi) = lambda*(yr -+ i*yi)
EigLeftOK(n, T, wr, wi, yr, yi, tau) ==
  \/ EigRightOK(n, Tr(T, n, n), wr, wi, yr, Fn([i \in 0 .. n - 1 |-> RNeg(yi[i])]), tau)
  \/ EigRightOK(n, Tr(T, n, n), wr, wi, yr, yi, tau)
\* documented normalisation of Dtrevc3: the element of largest magnitude |re| + |im| has magnitude 1
EigNormOK(n, xr, xi, tau) ==
  RLe(RAbs(RSub(RMaxRr(LAMBDA i : RAdd(RAbs(xr[i]), RAbs(xi[i])), 0, n - 1), ROne)), tau)
=============================================================================
