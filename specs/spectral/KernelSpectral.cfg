SPECIFICATION Spec
CONSTANTS
  Fam = "@FAM@"
  Small = @SMALL@
  Big = @BIG@
  Seed = @SEED@
INVARIANTS Emit
CHECK_DEADLOCK FALSE
