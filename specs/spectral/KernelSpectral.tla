--------------------------- MODULE KernelSpectral ---------------------------
(* Property C03 - exact instances for two kernels that the drivers reach only *)
(* in rare situations, so that they are bound directly.  Role: R2 generator   *)
(* and normative predicates (lemmas in KernelSpectralLemmas).                 *)
(*                                                                            *)
(*  lag2   Dlag2: eigenvalues of the 2x2 pencil A - w*B, B upper triangular.  *)
(*         Planted:  M = S*D*S^-1 with S integer of determinant 1 and         *)
(*         D = diag(l1, l2), l1 # l2 integers (real pair) or                  *)
(*         D = [[a,-b],[b,a]], b >= 1 (complex pair a +- i*b);  A = B*M, so   *)
(*         A - w*B = B*(M - w*I) and the eigenvalues of the pencil are those  *)
(*         of M.  A and B are then multiplied by 2^ea and 2^eb (exact): the   *)
(*         eigenvalues become l * 2^(ea-eb).  What the documentation states   *)
(*         is Lag2Accept below: real pair - wi = 0 and the eigenvalues are    *)
(*         wr1/scale1 and wr2/scale2 (in no stated order); complex pair -     *)
(*         wi > 0, wr1 = wr2, scale1 = scale2 and the eigenvalues are         *)
(*         (wr1 +- i*wi)/scale1.  The harness evaluates it with math/big.Rat  *)
(*         on the five returned numbers (weaker binding only in that the      *)
(*         comparison is made by the harness; the expected eigenvalues are    *)
(*         the specification's).  Tolerance: the eigenvalues of the pencil    *)
(*         are those of B^-1*A; rounding perturbs that matrix by at most      *)
(*         c*eps*|B^-1||A| <= c*eps*kappa(B)*|M|, and by Bauer-Fike (M is     *)
(*         diagonalised by S, resp. by S times a unitary matrix) an           *)
(*         eigenvalue moves by at most kappa(S) times that:                   *)
(*             tol = 30 * 2 * eps * |M| * kappa_1(S) * kappa_1(B) * 2^(ea-eb) *)
(*         with |M| = max(|M|_1, |M|_inf); all factors are exact integers     *)
(*         (kappa(B) rounded up).                                             *)
(*  lasq6  Dlasq6: one dqd transform (zero shift) in ping-pong form of the    *)
(*         window i0..n0 of a qd array.  DEFINITION (rhombus rules of the     *)
(*         qd algorithm, B^T*B -> B*B^T):                                     *)
(*             qq_k * ee_k = q_(k+1) * e_k,   qq_k + ee_(k-1) = q_k + e_k,    *)
(*             ee_(i0-1) = 0,  e_(n0) = 0     (k = i0..n0),                   *)
(*         and d_k = qq_k - e_k (k < n0), d_n0 = qq_n0;  dn = d_n0,           *)
(*         dnm1 = d_(n0-1), dnm2 = d_(n0-2), dmin = min d_k, dmin1 / dmin2    *)
(*         the minimum without the last one / two.  Storage: q_k, e_k at      *)
(*         z[4k+pp], z[4k+2+pp] (ping), qq_k, ee_k at z[4k+1-pp], z[4k+3-pp]  *)
(*         (pong).  Planted so that every quotient is exact: d_i0 = q_i0 and  *)
(*         c_k = q_(k+1) small integers, e_k = 2^(m_k) - d_k > 0, hence       *)
(*         qq_k = 2^(m_k), ee_k = e_k*c_k/2^(m_k), d_(k+1) = d_k*c_k/2^(m_k): *)
(*         all values are dyadic numbers num/2^e with |num| < 2^31, e <= 30,  *)
(*         every floating point operation of either evaluation order          *)
(*         (tmp = q/qq first, or e/qq first) is exact, and the results are    *)
(*         expected bit for bit.  Variant 2 plants one q_(k+1) = 0 (the       *)
(*         branch without the safe-minimum guard: d becomes 0).               *)
(*         Not judged: the slot z[4*n0+3-pp], where the routine keeps its     *)
(*         auxiliary minimum of the ee_k (not part of the qd array proper,    *)
(*         and not documented in gonum); the branch qq_k = 0.                 *)
(*  lasr   Dlasr: a sequence of plane rotations applied from the left or the  *)
(*         right, for the three pivot conventions and both directions.        *)
(*         DEFINITION (the documentation): P(k) is the identity except in the *)
(*         plane (p, q) = (k, k+1) (Variable), (0, k+1) (Top) or (k, z-1)     *)
(*         (Bottom), where it is [[c_k, s_k], [-s_k, c_k]];                   *)
(*         P = P(z-2)*...*P(0) (Forward) or P(0)*...*P(z-2) (Backward);       *)
(*         A := P*A (Left, z = m) or A := A*P^T (Right, z = n).  The planted  *)
(*         rotations are the exact ones, (c, s) in {(1,0), (0,1), (0,-1),     *)
(*         (-1,0)} (quarter turns: every P(k) is a signed permutation, the    *)
(*         products do not commute, so plane selection and order are          *)
(*         observable), on integer matrices: every result is exact.           *)
(*  larfx  Dlarfx: H = I - tau*v*v^T applied from the left (H*C) or the right  *)
(*         (C*H), with unrolled code for every order 1..10 and the general    *)
(*         code above.  Planted: v has 1, 2, 4 or 8 non-zero entries (one     *)
(*         entry +-2, or entries +-1), so v^T*v = 2*hd with hd in {1, 2, 4}   *)
(*         and tau = 1/hd makes H = (hd*I - v*v^T)/hd an exact reflector      *)
(*         (LarfxLemma: H*H = I, H symmetric); on integer C the products are  *)
(*         integers / hd: exact.  Also tau = 0 (H = I by definition).         *)
(*  laqr1  Dlaqr1: v = K * first column of (H - s1*I)*(H - s2*I) for a 2x2 or  *)
(*         3x3 H and shifts that are both real or a conjugate pair (then the  *)
(*         product is the real matrix H^2 - 2*sr*H + (sr^2 + si^2)*I).  The   *)
(*         scalar K is not specified; stated is Laqr1Accept: v is parallel to *)
(*         the exact integer column w (all 2x2 minors of [v w] vanish within  *)
(*         30*eps*|v|_max*|w|_max), v = 0 iff w = 0.  Integer H and shifts.   *)
EXTENDS SpLib, Json

CONSTANTS Fam, Small, Big, Seed
VARIABLE cs
Sd == Seed % 97
H(i, j, s) == Hash(i, j, s, Sd)

(***************************** rationals ************************************)
RECURSIVE Gcd(_, _)
Gcd(a, b) == IF b = 0 THEN a ELSE Gcd(b, a % b)
RN(n, d) == LET g == Gcd(Abs(n), Abs(d))
                s == IF d < 0 THEN -1 ELSE 1
            IN IF n = 0 THEN <<0, 1>> ELSE <<s * (n \div g), s * (d \div g)>>
RI(k) == <<k, 1>>
RMul(a, b) == RN(a[1] * b[1], a[2] * b[2])
RSub(a, b) == RN(a[1] * b[2] - b[1] * a[2], a[2] * b[2])
RAbs(a) == <<Abs(a[1]), a[2]>>
RLe(a, b) == a[1] * b[2] <= b[1] * a[2]
RPos(a) == a[1] > 0

(******************************** lag2 **************************************)
\* 2x2 matrices as <<<<a11, a12>>, <<a21, a22>>>>
M2(a, b, c, d) == <<<<a, b>>, <<c, d>>>>
Mul2(X, Y) == M2(X[1][1] * Y[1][1] + X[1][2] * Y[2][1], X[1][1] * Y[1][2] + X[1][2] * Y[2][2],
                 X[2][1] * Y[1][1] + X[2][2] * Y[2][1], X[2][1] * Y[1][2] + X[2][2] * Y[2][2])
Det2(X) == X[1][1] * X[2][2] - X[1][2] * X[2][1]
Adj2(X) == M2(X[2][2], 0 - X[1][2], 0 - X[2][1], X[1][1])
N1(X) == Max(Abs(X[1][1]) + Abs(X[2][1]), Abs(X[1][2]) + Abs(X[2][2]))
NInf(X) == Max(Abs(X[1][1]) + Abs(X[1][2]), Abs(X[2][1]) + Abs(X[2][2]))
CeilDiv(a, b) == (a + b - 1) \div b

LagS(sv) == CASE sv = 0 -> M2(1, 0, 0, 1) [] sv = 1 -> M2(1, 1, 0, 1) [] sv = 2 -> M2(1, 0, -1, 1) [] sv = 3 -> M2(2, 1, 1, 1)
LagB(bv) == CASE bv = 0 -> M2(1, 0, 0, 1) [] bv = 1 -> M2(2, 1, 0, -1) [] bv = 2 -> M2(-4, 3, 0, 2) [] bv = 3 -> M2(1, -2, 0, 4)
LagSc(sc) == CASE sc = 0 -> <<0, 0>> [] sc = 1 -> <<400, 0>> [] sc = 2 -> <<0, 400>> [] sc = 3 -> <<-400, 0>>
               [] sc = 4 -> <<0, -400>> [] sc = 5 -> <<400, 400>> [] sc = 6 -> <<-400, -400>>
\* cplx = 0: D = diag(x, y); cplx = 1: D = [[x,-y],[y,x]]
LagD(cplx, x, y) == IF cplx = 0 THEN M2(x, 0, 0, y) ELSE M2(x, 0 - y, y, x)
Lag2Inst(cplx, x, y, sv, bv, sc) ==
  LET S == LagS(sv)
      Si == Adj2(S)                              \* det S = 1
      B == LagB(bv)
      Mm == Mul2(Mul2(S, LagD(cplx, x, y)), Si)
      A == Mul2(B, Mm)
      kS == N1(S) * N1(Si)
      kB == CeilDiv(N1(B) * N1(Adj2(B)), Abs(Det2(B)))
  IN [fam |-> "lag2", m |-> 2, n |-> 2, qv |-> sv, dv |-> bv, sc |-> sc, sce |-> 0, den |-> 1,
      A |-> A, B |-> B, ea |-> LagSc(sc)[1], eb |-> LagSc(sc)[2],
      cplx |-> (cplx = 1), lam |-> <<x, y>>,
      kS |-> kS, kB |-> kB, nM |-> Max(N1(Mm), NInf(Mm)),
      tol |-> <<30, 2, Max(N1(Mm), NInf(Mm)) * kS * kB>>]
Lag2Cases == {[f |-> "lag2", c |-> 0, x |-> x, y |-> y, sv |-> sv, bv |-> bv, sc |-> sc] :
                 x \in -4 .. 4, y \in -4 .. 4, sv \in 0 .. 3, bv \in 0 .. 3, sc \in 0 .. 6}
               \cup {[f |-> "lag2", c |-> 1, x |-> x, y |-> y, sv |-> sv, bv |-> bv, sc |-> sc] :
                 x \in -3 .. 3, y \in 1 .. 3, sv \in 0 .. 3, bv \in 0 .. 3, sc \in 0 .. 6}
\* Small >= 7: every scaling; otherwise the unscaled pencil and one formula-chosen scaling
Lag2Valid(z) == /\ (z.c = 0 => z.x # z.y)
                /\ (Small >= 7 \/ z.sc = 0 \/ z.sc = 1 + (H(z.x + 4 + 9 * z.c, z.y + 4 + 9 * z.sv + 36 * z.bv, 71) % 6))

\* What the documentation of Dlag2 states, over rationals.  l = <<x, y>> as above, lsc = 2^(ea-eb) (a
\* rational), tol the absolute tolerance for an eigenvalue of the unscaled pencil.
Lag2Accept(cplx, l, lsc, s1, s2, wr1, wr2, wi, tol) ==
  LET Near(w, s, lam) == RLe(RAbs(RSub(w, RMul(RMul(RI(lam), lsc), s))), RMul(RMul(tol, lsc), s))
  IN IF cplx
     THEN /\ RPos(s1) /\ s1 = s2 /\ wr1 = wr2 /\ RPos(wi)
          /\ Near(wr1, s1, l[1]) /\ Near(wi, s1, Abs(l[2]))
     ELSE /\ RPos(s1) /\ RPos(s2) /\ wi = RI(0)
          /\ \/ Near(wr1, s1, l[1]) /\ Near(wr2, s2, l[2])
             \/ Near(wr1, s1, l[2]) /\ Near(wr2, s2, l[1])

(******************************** lasq6 *************************************)
\* dyadic numbers <<num, e>> = num / 2^e, num odd or e = 0
RECURSIVE DyN(_, _)
DyN(a, e) == IF a = 0 THEN <<0, 0>> ELSE IF e > 0 /\ a % 2 = 0 THEN DyN(a \div 2, e - 1) ELSE <<a, e>>
DyI(k) == <<k, 0>>
DyAdd(x, y) == LET e == Max(x[2], y[2]) IN DyN(x[1] * Pow2(e - x[2]) + y[1] * Pow2(e - y[2]), e)
DyNeg(x) == <<0 - x[1], x[2]>>
DySub(x, y) == DyAdd(x, DyNeg(y))
DyMul(x, y) == DyN(x[1] * y[1], x[2] + y[2])
DyShr(x, k) == DyN(x[1], x[2] + k)
DyLt(x, y) == DySub(x, y)[1] < 0
DyMin(x, y) == IF DyLt(y, x) THEN y ELSE x
RECURSIVE DyMinR(_, _, _)
DyMinR(G(_), a, b) == IF a = b THEN G(a) ELSE DyMin(G(a), DyMinR(G, a + 1, b))

\* least m with 2^m > x (x a non-negative dyadic number)
RECURSIVE LeastPow(_, _)
LeastPow(x, m) == IF DyLt(x, DyI(Pow2(m))) THEN m ELSE LeastPow(x, m + 1)

\* the planted window: t = 0..L-1 stands for k = i0 + t
LasqPlan(L, i0, pp, v) ==
  LET kz == IF v = 2 THEN 1 + (H(L, i0 + 3 * pp, 81) % (L - 1)) ELSE 0          \* q_(i0+kz) = 0
      c(t) == IF t = kz /\ v = 2 THEN 0 ELSE 1 + (H(t, L + 7 * i0 + 3 * pp + 11 * v, 82) % 5)    \* q_(i0+t), t >= 1; d_i0 for t = 0
      RECURSIVE D(_)
      RECURSIVE Mx(_)
      Mx(t) == LET lo == LeastPow(D(t), 0) IN IF lo < 3 /\ H(t, L + i0 + pp + v, 83) % 2 = 1 THEN lo + 1 ELSE lo
      D(t) == IF t = 0 THEN DyI(c(0)) ELSE DyShr(DyMul(D(t - 1), DyI(c(t))), Mx(t - 1))
      d == Fn([t \in 0 .. L - 1 |-> D(t)])
      m == Fn([t \in 0 .. L - 2 |-> Mx(t)])
      q == Fn([t \in 0 .. L - 1 |-> DyI(c(t))])
      e == Fn([t \in 0 .. L - 2 |-> DySub(DyI(Pow2(m[t])), d[t])])
      qq == Fn([t \in 0 .. L - 1 |-> IF t = L - 1 THEN d[t] ELSE DyI(Pow2(m[t]))])
      ee == Fn([t \in 0 .. L - 2 |-> DyShr(DyMul(e[t], q[t + 1]), m[t])])
  IN [d |-> d, q |-> q, e |-> e, qq |-> qq, ee |-> ee]

Lasq6Inst(L, i0, pp, v) ==
  LET P == LasqPlan(L, i0, pp, v)
      n0 == i0 + L - 1
      len == 4 * (n0 + 1)
      \* filler for every slot that is not an input of the window: distinct odd integers
      Fill(idx) == DyI(1001 + 2 * idx)
      In(idx) == LET k == idx \div 4
                     r == idx % 4
                     t == k - i0
                 IN IF k < i0 THEN Fill(idx)
                    ELSE IF r = pp THEN P.q[t]
                    ELSE IF r = 2 + pp /\ t < L - 1 THEN P.e[t]
                    ELSE Fill(idx)
      Out(idx) == LET k == idx \div 4
                      r == idx % 4
                      t == k - i0
                  IN IF k < i0 THEN Fill(idx)
                     ELSE IF r = 1 - pp THEN P.qq[t]
                     ELSE IF r = 3 - pp /\ t < L - 1 THEN P.ee[t]
                     ELSE In(idx)
  IN [fam |-> "lasq6", m |-> L, n |-> L, qv |-> v, dv |-> 0, sc |-> 0, sce |-> 0, den |-> 1,
      i0 |-> i0, n0 |-> n0, pp |-> pp,
      zin |-> Fn([i \in 1 .. len |-> In(i - 1)]), zout |-> Fn([i \in 1 .. len |-> Out(i - 1)]),
      free |-> 4 * n0 + 3 - pp,
      dmin |-> DyMinR(LAMBDA t : P.d[t], 0, L - 1), dmin1 |-> DyMinR(LAMBDA t : P.d[t], 0, L - 2),
      dmin2 |-> DyMinR(LAMBDA t : P.d[t], 0, L - 3),
      dn |-> P.d[L - 1], dnm1 |-> P.d[L - 2], dnm2 |-> P.d[L - 3],
      tol |-> <<0, 1, 1>>]
Lasq6Cases == {[f |-> "lasq6", L |-> L, i0 |-> i0, pp |-> pp, v |-> v] :
                 L \in 3 .. Max(Small, 3), i0 \in 0 .. 2, pp \in 0 .. 1, v \in 0 .. 2}

(******************************** lasr **************************************)
MMul(X, Y, a, b, c) == Mat(a, c, LAMBDA i, j : SumR(LAMBDA t : X[i][t] * Y[t][j], 0, b - 1))
Ident(z) == Mat(z, z, LAMBDA i, j : IF i = j THEN 1 ELSE 0)
\* plane of rotation k for the pivot convention pv (0 Variable, 1 Top, 2 Bottom) in dimension z
PlaneOf(pv, k, z) == CASE pv = 0 -> <<k, k + 1>> [] pv = 1 -> <<0, k + 1>> [] pv = 2 -> <<k, z - 1>>
Pk(pv, k, z, c, s) ==
  LET pq == PlaneOf(pv, k, z)
  IN Mat(z, z, LAMBDA i, j : IF i = pq[1] /\ j = pq[1] THEN c[k] ELSE IF i = pq[1] /\ j = pq[2] THEN s[k]
                              ELSE IF i = pq[2] /\ j = pq[1] THEN 0 - s[k] ELSE IF i = pq[2] /\ j = pq[2] THEN c[k]
                              ELSE IF i = j THEN 1 ELSE 0)
\* dr = 0 Forward: P(z-2)*...*P(0);  dr = 1 Backward: P(0)*...*P(z-2)
RECURSIVE PProd(_, _, _, _, _, _)
PProd(pv, dr, z, c, s, k) ==
  IF k > z - 2 THEN Ident(z)
  ELSE IF dr = 0 THEN MMul(PProd(pv, dr, z, c, s, k + 1), Pk(pv, k, z, c, s), z, z, z)
       ELSE MMul(Pk(pv, k, z, c, s), PProd(pv, dr, z, c, s, k + 1), z, z, z)
LasrRes(A, m, n, sd, pv, dr, c, s) ==
  IF sd = 0 THEN MMul(PProd(pv, dr, m, c, s, 0), A, m, m, n)
  ELSE LET P == PProd(pv, dr, n, c, s, 0) IN MMul(A, Mat(n, n, LAMBDA i, j : P[j][i]), m, n, n)
LasrCS(z, v) ==
  LET q(k) == H(k, z + 5 * v, 91) % 5          \* 0, 4: identity (skipped by the routine); 1..3: quarter / half turns
  IN [c |-> Fn([k \in 0 .. z - 2 |-> CASE q(k) = 1 -> 0 [] q(k) = 2 -> 0 [] q(k) = 3 -> -1 [] OTHER -> 1]),
      s |-> Fn([k \in 0 .. z - 2 |-> CASE q(k) = 1 -> 1 [] q(k) = 2 -> -1 [] OTHER -> 0])]
LasrInst(m, n, v) ==
  LET A == Mat(m, n, LAMBDA i, j : (H(i, j + 4 * v, 92) % 19) - 9)
      L == LasrCS(m, v)
      R == LasrCS(n, v + 1)
  IN [fam |-> "lasr", m |-> m, n |-> n, qv |-> v, dv |-> 0, sc |-> 0, sce |-> 0, den |-> 1,
      A |-> MatSeq(A, m, n),
      cl |-> VecSeq(L.c, m - 1), sl |-> VecSeq(L.s, m - 1), cr |-> VecSeq(R.c, n - 1), sr |-> VecSeq(R.s, n - 1),
      \* res[1 + 6*side + 2*pivot + direct]
      res |-> [q \in 1 .. 12 |-> LET sd == (q - 1) \div 6
                                     pv == ((q - 1) % 6) \div 2
                                     dr == (q - 1) % 2
                                 IN MatSeq(LasrRes(A, m, n, sd, pv, dr, IF sd = 0 THEN L.c ELSE R.c, IF sd = 0 THEN L.s ELSE R.s), m, n)],
      tol |-> <<0, 1, 1>>]
LasrCases == {[f |-> "lasr", m |-> m, n |-> n, v |-> v] : m \in 0 .. Min(Small, 5), n \in 0 .. Min(Small, 5), v \in 0 .. 1}

(******************************** larfx *************************************)
\* v of order z, variant w: number of non-zeros nz = the largest of 1, 2, 4, 8 that is <= z after w halvings
LarfxNz(z, w) == LET top == IF z >= 8 THEN 8 ELSE IF z >= 4 THEN 4 ELSE IF z >= 2 THEN 2 ELSE 1
                     RECURSIVE Dn(_, _)
                     Dn(x, t) == IF t = 0 \/ x = 1 THEN x ELSE Dn(x \div 2, t - 1)
                 IN Dn(top, w)
LarfxV(z, w, off) ==
  LET nz == LarfxNz(z, w)
  IN Fn([i \in 0 .. z - 1 |-> IF i >= off /\ i < off + nz
                                THEN (IF nz = 1 THEN 2 ELSE 1) * (IF H(i, z + w + 3 * off, 97) % 2 = 0 THEN 1 ELSE -1) ELSE 0])
LarfxInst(z, o, w, off) ==
  LET v == LarfxV(z, w, off)
      vtv == SumR(LAMBDA i : v[i] * v[i], 0, z - 1)
      hd == vtv \div 2
      Hd == Mat(z, z, LAMBDA i, j : (IF i = j THEN hd ELSE 0) - v[i] * v[j])      \* hd * H
      CL == Mat(z, o, LAMBDA i, j : (H(i, j + 3 * w, 98) % 19) - 9)               \* left:  C is z x o
      CR == Mat(o, z, LAMBDA i, j : (H(i, j + 3 * w, 99) % 19) - 9)               \* right: C is o x z
  IN [fam |-> "larfx", m |-> z, n |-> o, qv |-> w, dv |-> 0, sc |-> 0, sce |-> 0, den |-> 1,
      hv |-> VecSeq(v, z), hden |-> hd, HH |-> MatSeq(Hd, z, z),
      CL |-> MatSeq(CL, z, o), CR |-> MatSeq(CR, o, z),
      HC |-> MatSeq(MMul(Hd, CL, z, z, o), z, o), CH |-> MatSeq(MMul(CR, Hd, o, z, z), o, z),      \* times hd
      tol |-> <<0, 1, 1>>]
\* every block of nz consecutive non-zeros at every offset: each index of v is non-zero in some instance
LarfxCases == {x \in [f : {"larfx"}, z : 1 .. 12, o : 1 .. 3, w : 0 .. 2, off : 0 .. 11] :
                 /\ x.off + LarfxNz(x.z, x.w) <= x.z
                 /\ (x.w = 0 \/ LarfxNz(x.z, x.w) < LarfxNz(x.z, x.w - 1))          \* no duplicate block sizes
                 /\ (x.o = 1 \/ x.off % 3 = x.o - 1)}                              \* wider C on a third of the offsets

(******************************** laqr1 *************************************)
\* kind 0: real shifts (x, y); kind 1: the conjugate pair x +- i*y; zero = 1 plants w = 0 exactly
\* (first column of H equal to (x, 0, 0) with a real shift pair, resp. no such case for kind 1)
Laqr1Inst(n, q, kind, x, y, zero) ==
  LET Hm == Mat(n, n, LAMBDA i, j : IF zero = 1 /\ j = 0 THEN (IF i = 0 THEN y ELSE 0) ELSE (H(i, j + 3 * q, 101) % 7) - 3)
      \* (H - x)(H - y) e1  resp.  (H^2 - 2x*H + (x^2 + y^2)*I) e1
      H2(i) == SumR(LAMBDA t : Hm[i][t] * Hm[t][0], 0, n - 1)
      w == Fn([i \in 0 .. n - 1 |-> IF kind = 0 THEN H2(i) - (x + y) * Hm[i][0] + (IF i = 0 THEN x * y ELSE 0)
                                      ELSE H2(i) - 2 * x * Hm[i][0] + (IF i = 0 THEN x * x + y * y ELSE 0)])
  IN [fam |-> "laqr1", m |-> n, n |-> n, qv |-> q, dv |-> 0, sc |-> 0, sce |-> 0, den |-> 1,
      A |-> MatSeq(Hm, n, n),
      sr1 |-> x, si1 |-> (IF kind = 0 THEN 0 ELSE y), sr2 |-> (IF kind = 0 THEN y ELSE x), si2 |-> (IF kind = 0 THEN 0 ELSE 0 - y),
      wcol |-> VecSeq(w, n), tol |-> <<30, 1, 1>>]
Laqr1Cases == {[f |-> "laqr1", n |-> n, q |-> q, kind |-> kind, x |-> x, y |-> y, zero |-> zero] :
                 n \in {2, 3}, q \in 0 .. 5, kind \in {0, 1}, x \in -2 .. 2, y \in -2 .. 2, zero \in {0, 1}}
Laqr1Valid(z) == (z.kind = 1 => z.y >= 1) /\ (z.zero = 1 => z.kind = 0 /\ z.q = 0)

\* v parallel to the integer column w (rationals v[i]); tau = 30 * 2^-52
Laqr1Accept(v, w, n, tau) ==
  LET mv == LET RECURSIVE Go(_) Go(i) == IF i = n THEN RI(0) ELSE (IF RLe(Go(i + 1), RAbs(v[i])) THEN RAbs(v[i]) ELSE Go(i + 1)) IN Go(0)
      mw == MaxR(LAMBDA i : Abs(w[i]), 0, n - 1)
  IN /\ (mw = 0) = (mv = RI(0))
     /\ \A i, j \in 0 .. n - 1 :
          RLe(RAbs(RSub(RMul(v[i], RI(w[j])), RMul(v[j], RI(w[i])))), RMul(tau, RMul(mv, RI(mw))))

(****************************************************************************)
\* Fam selects one family, or "kall" = all of them in one run
KOn(f) == Fam = f \/ Fam = "kall"
Cases == (IF KOn("lag2") THEN {z \in Lag2Cases : Lag2Valid(z)} ELSE {})
         \cup (IF KOn("lasq6") THEN Lasq6Cases ELSE {})
         \cup (IF KOn("lasr") THEN LasrCases ELSE {})
         \cup (IF KOn("larfx") THEN LarfxCases ELSE {})
         \cup (IF KOn("laqr1") THEN {z \in Laqr1Cases : Laqr1Valid(z)} ELSE {})
Inst(z) == CASE z.f = "lag2" -> Lag2Inst(z.c, z.x, z.y, z.sv, z.bv, z.sc)
             [] z.f = "lasq6" -> Lasq6Inst(z.L, z.i0, z.pp, z.v)
             [] z.f = "lasr" -> LasrInst(z.m, z.n, z.v)
             [] z.f = "larfx" -> LarfxInst(z.z, z.o, z.w, z.off)
             [] z.f = "laqr1" -> Laqr1Inst(z.n, z.q, z.kind, z.x, z.y, z.zero)
Init == cs \in Cases
Next == UNCHANGED cs
Spec == Init /\ [][Next]_cs
Emit == PrintT(ToJson(Inst(cs)))
=============================================================================
