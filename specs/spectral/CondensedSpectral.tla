-------------------------- MODULE CondensedSpectral --------------------------
(* Property C03 - exact instances for the routines that work on condensed     *)
(* forms.  Role: R2 generator (lemmas in CondensedSpectralLemmas).            *)
(*                                                                            *)
(*  tri    symmetric tridiagonal T = direct sum of 1x1 blocks, blocks         *)
(*         [[a,b],[b,a]] (eigenvalues a+-b, vectors (1,+-1)) and Pythagorean  *)
(*         blocks [[l+9t,12t],[12t,l+16t]] (eigenvalues l+25t, l; vectors     *)
(*         (3,4), (4,-3)); the zero off-diagonals between blocks exercise the *)
(*         splitting logic of Dsteqr / Dsterf; scaled by 2^sce they exercise  *)
(*         the rescaling of blocks (ssfmin / ssfmax).                         *)
(*  bid    bidiagonal B = direct sum of 1x1 blocks +-v (singular value |v|)   *)
(*         and 2x2 blocks [[d1,e],[0,d2]] whose singular values are integers  *)
(*         because (|d1|+|d2|)^2 + e^2 and (|d1|-|d2|)^2 + e^2 are squares.   *)
(*  lanv2  2x2 integer matrices: real / complex classification by the sign of *)
(*         the discriminant, exact eigenvalues when it is +- a perfect square *)
(*  trexc  quasi-triangular integer T = S*B*S^-1 (S unit block upper          *)
(*         triangular integer, B as in the non-symmetric planted family) and  *)
(*         the exact block sequence after moving a block.                     *)
(*  bal    A = P0 * [T1 X Y; 0 C Z; 0 0 T2] * P0^T with dense strictly upper  *)
(*         parts and a circulant-like C without zero off-diagonal rows /      *)
(*         columns: the permutation stage of Dgebal must recover exactly the  *)
(*         block triangular matrix, ilo, ihi, and Dgebak(I) exactly P0.       *)
EXTENDS SpLib, Json

CONSTANTS Fam, Small, Big, Seed
VARIABLE cs
Sd == Seed % 97
H(i, j, s) == Hash(i, j, s, Sd)
Sign(i, j, s) == IF H(i, j, s) % 2 = 0 THEN 1 ELSE -1
\* scaling exponents: 2^510 * |T| > ssfmax ~ 2.2e153, 2^-420 * |T| < ssfmin ~ 1.2e-122
ScE(sc) == CASE sc = 0 -> 0 [] sc = 1 -> 510 [] sc = 2 -> -420

(******************************** tri ***************************************)
TriIs2(n, c) == 2 * c + 1 < n /\ H(c, n, 11) % 3 # 0
TriType(n, c) == H(c, n, 12) % 2
TriBase(n, dv, c) == IF dv = 0 THEN 64 * c - 32 * (n \div 2) ELSE 0
TriT(n, c) == Sign(c, n, 13)
TriB(n, c) == Sign(c, n, 14) * (1 + (H(c, n, 15) % 3))
TriL(n, dv, c) == TriBase(n, dv, c) + (H(c, n, 16) % 4)
\* diagonal and off-diagonal entries
TriD(n, dv, i) ==
  LET c == i \div 2 IN
  IF dv = 2 THEN 0
  ELSE IF ~TriIs2(n, c) THEN TriBase(n, dv, c) + 30 * (i % 2) + (H(i, n, 17) % 4)
  ELSE IF TriType(n, c) = 0 THEN TriBase(n, dv, c) + 10
  ELSE TriL(n, dv, c) + (IF i % 2 = 0 THEN 9 ELSE 16) * TriT(n, c)
TriE(n, dv, i) ==     \* between i and i+1
  LET c == i \div 2 IN
  IF dv = 2 \/ i % 2 = 1 \/ ~TriIs2(n, c) THEN 0
  ELSE IF TriType(n, c) = 0 THEN TriB(n, c) ELSE 12 * TriT(n, c)
\* eigenpair attached to index i: value and the two non-zero vector components (at 2c, 2c+1)
TriVal(n, dv, i) ==
  LET c == i \div 2 IN
  IF dv = 2 THEN 0
  ELSE IF ~TriIs2(n, c) THEN TriD(n, dv, i)
  ELSE IF TriType(n, c) = 0 THEN TriBase(n, dv, c) + 10 + (IF i % 2 = 0 THEN TriB(n, c) ELSE -TriB(n, c))
  ELSE IF i % 2 = 0 THEN TriL(n, dv, c) + 25 * TriT(n, c) ELSE TriL(n, dv, c)
TriVec(n, dv, i) ==
  LET c == i \div 2
      x == IF dv = 2 \/ ~TriIs2(n, c) THEN (IF i % 2 = 0 THEN <<1, 0>> ELSE <<0, 1>>)
           ELSE IF TriType(n, c) = 0 THEN (IF i % 2 = 0 THEN <<1, 1>> ELSE <<1, -1>>)
           ELSE (IF i % 2 = 0 THEN <<3, 4>> ELSE <<4, -3>>)
  IN Fn([j \in 1 .. n |-> IF j - 1 = 2 * c THEN x[1] ELSE IF j - 1 = 2 * c + 1 THEN x[2] ELSE 0])

TriInst(n, dv, sc) ==
  LET d == Fn([i \in 0 .. n - 1 |-> TriD(n, dv, i)])
      e == Fn([i \in 0 .. n - 2 |-> TriE(n, dv, i)])
      ev == Fn([i \in 0 .. n - 1 |-> TriVal(n, dv, i)])
      w == SortAsc(ev, n)
      vals == {ev[i] : i \in 0 .. n - 1}
      simple == Fn([r \in 0 .. n - 1 |-> Mult(ev, n, w[r]) = 1])
      nrm == MaxR(LAMBDA i : Abs(d[i]) + (IF i > 0 THEN Abs(e[i - 1]) ELSE 0) + (IF i < n - 1 THEN Abs(e[i]) ELSE 0), 0, n - 1)
  IN [fam |-> "tri", m |-> n, n |-> n, qv |-> 0, dv |-> dv, sc |-> sc, sce |-> ScE(sc), den |-> 1,
      d |-> VecSeq(d, n), e |-> VecSeq(e, n - 1), w |-> VecSeq(w, n),
      V |-> Fn([r \in 1 .. n |-> IF simple[r - 1] THEN TriVec(n, dv, IdxOf(ev, n, w[r - 1])) ELSE <<>>]),
      gap |-> Fn([r \in 1 .. n |-> IF simple[r - 1]
                    THEN MinSet(LAMBDA v : Abs(v - w[r - 1]), vals \ {w[r - 1]}, 1) ELSE 0]),
      tol |-> <<30, Max(n, 1), Max(nrm, 1)>>]

(******************************** bid ***************************************)
BidMenu == << <<7, 12, 2, 14, 1>>, <<20, 12, 15, 25, 12>>, <<22, 12, 13, 26, 11>>, <<8, 12, 8, 16, 4>> >>
BidIs2(n, dv, c) == dv # 2 /\ 2 * c + 1 < n /\ H(c, n, 21) % 3 # 0
BidM(n, c) == BidMenu[1 + (H(c, n, 22) % 4)]
BidF(n, c) == 1 + (H(c, n, 23) % 2)
Bid1(n, dv, i) == CASE dv = 0 -> Sign(i, n, 24) * (40 + 3 * i + (H(i, n, 25) % 2))
                    [] dv = 1 -> (H(i, n, 26) % 5) - 2
                    [] dv = 2 -> 0
BidD(n, dv, i) ==
  LET c == i \div 2 IN
  IF ~BidIs2(n, dv, c) THEN Bid1(n, dv, i)
  ELSE Sign(i, n, 27) * BidF(n, c) * BidM(n, c)[IF i % 2 = 0 THEN 1 ELSE 3]
BidE(n, dv, i) ==
  LET c == i \div 2 IN
  IF i % 2 = 1 \/ ~BidIs2(n, dv, c) THEN 0 ELSE Sign(i, n, 28) * BidF(n, c) * BidM(n, c)[2]
BidVal(n, dv, i) ==
  LET c == i \div 2 IN
  IF ~BidIs2(n, dv, c) THEN Abs(Bid1(n, dv, i)) ELSE BidF(n, c) * BidM(n, c)[IF i % 2 = 0 THEN 4 ELSE 5]

BidInst(n, dv, sc) ==
  LET d == Fn([i \in 0 .. n - 1 |-> BidD(n, dv, i)])
      e == Fn([i \in 0 .. n - 2 |-> BidE(n, dv, i)])
      s == Fn([i \in 0 .. n - 1 |-> BidVal(n, dv, i)])
      asc == SortAsc(s, n)
      sd == Fn([r \in 0 .. n - 1 |-> asc[n - 1 - r]])
      vals == {s[i] : i \in 0 .. n - 1}
      \* vectors only for simple non-zero singular values of 1x1 blocks: u = e_i, v = sign(d_i) e_i
      isv(r) == Mult(s, n, sd[r]) = 1 /\ sd[r] > 0 /\ ~BidIs2(n, dv, IdxOf(s, n, sd[r]) \div 2)
      unit(i, sg) == Fn([j \in 1 .. n |-> IF j - 1 = i THEN sg ELSE 0])
      nrm == MaxR(LAMBDA i : Abs(d[i]) + (IF i > 0 THEN Abs(e[i - 1]) ELSE 0) + (IF i < n - 1 THEN Abs(e[i]) ELSE 0), 0, n - 1)
  IN [fam |-> "bid", m |-> n, n |-> n, qv |-> 0, dv |-> dv, sc |-> sc, sce |-> ScE(sc), den |-> 1, uden |-> 1, vden |-> 1,
      d |-> VecSeq(d, n), e |-> VecSeq(e, n - 1), sv |-> VecSeq(sd, n),
      U |-> Fn([r \in 1 .. n |-> IF isv(r - 1) THEN unit(IdxOf(s, n, sd[r - 1]), 1) ELSE <<>>]),
      V |-> Fn([r \in 1 .. n |-> IF isv(r - 1) THEN LET i == IdxOf(s, n, sd[r - 1]) IN unit(i, IF d[i] < 0 THEN -1 ELSE 1) ELSE <<>>]),
      gap |-> Fn([r \in 1 .. n |-> IF isv(r - 1)
                    THEN Min(sd[r - 1], MinSet(LAMBDA v : Abs(v - sd[r - 1]), vals \ {sd[r - 1]}, sd[r - 1])) ELSE 0]),
      tol |-> <<30, Max(n, 1), Max(nrm, 1)>>]

CondCases == {[n |-> n, dv |-> dv, sc |-> sc] : n \in (0 .. Small) \cup Big, dv \in 0 .. 2, sc \in 0 .. 2}
CondValid(x) == x.sc = 0 \/ (x.n >= 1 /\ x.dv < 2 /\ (x.n + x.dv) % 2 = 0)

(******************************* lanv2 **************************************)
ISqrt(x) == IF \E s \in 0 .. x : s * s = x THEN CHOOSE s \in 0 .. x : s * s = x ELSE -1
Lanv2Inst(a, b, c, d, f) ==
  LET disc == (a - d) * (a - d) + 4 * b * c
      s == ISqrt(Abs(disc))
      cplx == disc < 0
  IN [fam |-> "lanv2", m |-> 2, n |-> 2, qv |-> 0, dv |-> 0, sc |-> 0, sce |-> 0, den |-> 2,
      a11 |-> 2 * f * a, a12 |-> 2 * f * b, a21 |-> 2 * f * c, a22 |-> 2 * f * d,    \* entries, times den
      \* disc < 0: complex pair; disc > 0: two real eigenvalues; disc = 0: a double (in general defective)
      \* eigenvalue - rounding decides, both documented forms are legal and no value is claimed
      cplx |-> cplx, either |-> disc = 0, exact |-> s >= 0 /\ disc # 0,
      \* eigenvalues times den = 2: real (a+d+-s)/2, complex (a+d)/2 +- i s/2
      re1 |-> IF cplx THEN f * (a + d) ELSE f * (a + d + Max(s, 0)),
      re2 |-> IF cplx THEN f * (a + d) ELSE f * (a + d - Max(s, 0)),
      im |-> IF cplx THEN f * Max(s, 0) ELSE 0,
      tol |-> <<30, 2, 2 * f * Max(Abs(a) + Abs(c), Abs(b) + Abs(d)) + 1>>]
Lanv2Cases == {[a |-> a, b |-> b, c |-> c, d |-> d, f |-> f] :
                 a \in -Small .. Small, b \in -Small .. Small, c \in -Small .. Small, d \in -Small .. Small, f \in {1, 3}}
Lanv2Valid(x) == x.f = 1 \/ (x.a + x.b + x.c + x.d) % 4 = 0

(******************************* trexc **************************************)
(* B: couples as in the planted non-symmetric family, but distinct real     *)
(* parts everywhere so that every swap is well conditioned.                 *)
TxIsC(n, v, c) == 2 * c + 1 < n /\ H(c, n + v, 31) % 2 = 0
TxRe(n, v, k) == 3 * k + (H(k, n + v, 32) % 2) - n
TxIm(n, v, c) == 1 + (H(c, n + v, 33) % 3)
TxB(n, v, i, j) ==
  LET c == i \div 2 IN
  IF TxIsC(n, v, c)
  THEN (IF i = j THEN TxRe(n, v, 2 * c) ELSE IF j \div 2 = c THEN (IF i < j THEN -TxIm(n, v, c) ELSE TxIm(n, v, c)) ELSE 0)
  ELSE IF i = j THEN TxRe(n, v, i) ELSE 0
\* block index of row i: couples that are complex form one block, every other row its own
TxBlkFirst(n, v, i) == IF TxIsC(n, v, i \div 2) THEN 2 * (i \div 2) ELSE i
TxStarts(n, v) == {i \in 0 .. n - 1 : TxBlkFirst(n, v, i) = i}
TxSize(n, v, f) == IF TxIsC(n, v, f \div 2) THEN 2 ELSE 1
\* shears: K = n shears (i_k, j_k, t_k), i_k < j_k in different blocks; S = E_1 ... E_K,
\* E = I + t e_i e_j^T : column j += t * column i ; S^-1 = E_K^-1 ... E_1^-1 : row i -= t * row j
TxSh(n, v, k) ==
  LET i == H(k, n + v, 34) % (n - 1)
      j == i + 1 + (H(k, n + v, 35) % (n - 1 - i))
      t == Sign(k, n + v, 36)
  IN IF TxBlkFirst(n, v, i) = TxBlkFirst(n, v, j) THEN <<i, j, 0>> ELSE <<i, j, t>>
RECURSIVE TxS(_, _, _, _, _)
TxS(S, n, v, k, K) == IF k = K THEN S
  ELSE LET sh == TxSh(n, v, k) IN
       TxS(Mat(n, n, LAMBDA r, c : IF c = sh[2] THEN S[r][c] + sh[3] * S[r][sh[1]] ELSE S[r][c]), n, v, k + 1, K)
RECURSIVE TxSi(_, _, _, _, _)
TxSi(T, n, v, k, K) == IF k = K THEN T
  ELSE LET sh == TxSh(n, v, k) IN
       TxSi(Mat(n, n, LAMBDA r, c : IF r = sh[1] THEN T[r][c] - sh[3] * T[sh[2]][c] ELSE T[r][c]), n, v, k + 1, K)
TxIdent(n) == Mat(n, n, LAMBDA i, j : IF i = j THEN 1 ELSE 0)
Norm1(A, m, n) == MaxR(LAMBDA j : SumR(LAMBDA i : Abs(A[i][j]), 0, m - 1), 0, n - 1)
NormInf(A, m, n) == MaxR(LAMBDA i : SumR(LAMBDA j : Abs(A[i][j]), 0, n - 1), 0, m - 1)
TxParts(n, v) ==
  LET S == TxS(TxIdent(n), n, v, 0, n)
      Si == TxSi(TxIdent(n), n, v, 0, n)
      B == Mat(n, n, LAMBDA i, j : TxB(n, v, i, j))
      SB == Mat(n, n, LAMBDA i, j : SumR(LAMBDA k : S[i][k] * B[k][j], 0, n - 1))
      T == Mat(n, n, LAMBDA i, j : SumR(LAMBDA k : SB[i][k] * Si[k][j], 0, n - 1))
  IN [S |-> S, Si |-> Si, B |-> B, T |-> T]

\* the sequence of diagonal blocks (first rows, ascending) as a sequence of <<re, im, size>>
RECURSIVE TxSeq(_, _, _)
TxSeq(n, v, i) == IF i >= n THEN <<>>
  ELSE IF TxIsC(n, v, i \div 2) THEN <<<<TxRe(n, v, i), TxIm(n, v, i \div 2), 2>>>> \o TxSeq(n, v, i + 2)
  ELSE <<<<TxRe(n, v, i), 0, 1>>>> \o TxSeq(n, v, i + 1)
RECURSIVE BlkOfRow(_, _, _)
\* index (1-based) in seq of the block containing row r (rows counted from `from`)
BlkOfRow(seq, r, k) == IF r < seq[k][3] THEN k ELSE BlkOfRow(seq, r - seq[k][3], k + 1)
RECURSIVE RowOfBlk(_, _)
RowOfBlk(seq, k) == IF k = 1 THEN 0 ELSE seq[k - 1][3] + RowOfBlk(seq, k - 1)
Move(seq, F, L) ==
  LET without == [k \in 1 .. Len(seq) - 1 |-> IF k < F THEN seq[k] ELSE seq[k + 1]]
  IN [k \in 1 .. Len(seq) |-> IF k < L THEN without[k] ELSE IF k = L THEN seq[F] ELSE without[k - 1]]

TrexcInst(n, v, ifst, ilst) ==
  LET P == TxParts(n, v)
      seq == TxSeq(n, v, 0)
      F == BlkOfRow(seq, ifst, 1)
      L == BlkOfRow(seq, ilst, 1)
      out == Move(seq, F, L)
      kap == Max(Norm1(P.S, n, n) * Norm1(P.Si, n, n), NormInf(P.S, n, n) * NormInf(P.Si, n, n))
  IN [fam |-> "trexc", m |-> n, n |-> n, qv |-> 0, dv |-> v, sc |-> 0, sce |-> 0, den |-> 1,
      A |-> MatSeq(P.T, n, n), ifst |-> ifst, ilst |-> ilst,
      ifstOut |-> RowOfBlk(seq, F), ilstOut |-> RowOfBlk(out, L),
      blocks |-> out,
      tol |-> <<30, n, Max(Norm1(P.T, n, n), NormInf(P.T, n, n)), Max(kap, 1)>>]
TrexcCases == {[n |-> n, v |-> v, ifst |-> a, ilst |-> b] : n \in 2 .. Small, v \in 0 .. 2, a \in 0 .. Small, b \in 0 .. Small}
TrexcValid(x) == x.ifst < x.n /\ x.ilst < x.n

(******************************** bal ***************************************)
(* M = [T1 X Y; 0 C Z; 0 0 T2], T1 (k1), T2 (k2) upper triangular with      *)
(* every strictly upper entry non-zero, X, Y, Z dense non-zero, C (kc >= 2  *)
(* or 0) with every off-diagonal entry non-zero.  A = P0 * M * P0^T, i.e.   *)
(* A[p[i]][p[j]] = M[i][j].  No row / column of C can be isolated, every    *)
(* row of T2 and column of T1 can, in exactly one order: the permutation    *)
(* stage must return ilo = k1, ihi = k1 + kc - 1 and a matrix that equals   *)
(* M in every entry (i, j) with i and j both outside ilo..ihi (T1, Y, T2)   *)
(* and is zero below the diagonal in columns < ilo and rows > ihi; inside   *)
(* ilo..ihi the order is the algorithm's choice (not claimed).  Likewise    *)
(* the columns j outside ilo..ihi of P (Dgebak applied to I) are P0's.      *)
BalM(n, k1, kc, i, j) ==
  LET inC(x) == x >= k1 /\ x < k1 + kc IN
  IF i = j THEN 10 + i
  ELSE IF i < j THEN 1 + (H(i, j, 41) % 3)
  ELSE IF inC(i) /\ inC(j) THEN -(1 + (H(i, j, 42) % 3))
  ELSE 0
BalInst(n, k1, kc) ==
  LET ip == Fn([t \in 0 .. n - 1 |-> t + (H(t, n + k1, 43) % (n - t))])
      p == Pos(ip, n, n)
      q == InvPerm(p, n)
      M == Mat(n, n, LAMBDA i, j : BalM(n, k1, kc, i, j))
      A == Mat(n, n, LAMBDA i, j : M[q[i]][q[j]])
      \* a badly scaled similar matrix D0^-1 * A * D0, D0 = diag(2^k_i), k_i in 0..3, times den = 8
      kx == Fn([i \in 0 .. n - 1 |-> H(i, n + kc, 44) % 4])
      As == Mat(n, n, LAMBDA i, j : A[i][j] * Pow2(kx[j] - kx[i] + 3))
  IN [fam |-> "bal", m |-> n, n |-> n, qv |-> k1, dv |-> kc, sc |-> 0, sce |-> 0, den |-> 1,
      A |-> MatSeq(A, n, n), Mb |-> MatSeq(M, n, n), As |-> MatSeq(As, n, n), asden |-> 8, ilo |-> k1, ihi |-> k1 + kc - 1,
      Pm |-> MatSeq(Mat(n, n, LAMBDA i, j : IF i = p[j] THEN 1 ELSE 0), n, n),
      tol |-> <<1, 1, 1>>]
BalCases == {[n |-> n, k1 |-> k1, kc |-> kc] : n \in 1 .. Small, k1 \in 0 .. Small, kc \in 0 .. Small}
BalValid(x) == x.k1 + x.kc <= x.n /\ x.kc >= 2

(****************************************************************************)
Cases == CASE Fam = "tri" -> {x \in CondCases : CondValid(x)}
           [] Fam = "bid" -> {x \in CondCases : CondValid(x)}
           [] Fam = "lanv2" -> {x \in Lanv2Cases : Lanv2Valid(x)}
           [] Fam = "trexc" -> {x \in TrexcCases : TrexcValid(x)}
           [] Fam = "bal" -> {x \in BalCases : BalValid(x)}
Inst(x) == CASE Fam = "tri" -> TriInst(x.n, x.dv, x.sc)
             [] Fam = "bid" -> BidInst(x.n, x.dv, x.sc)
             [] Fam = "lanv2" -> Lanv2Inst(x.a, x.b, x.c, x.d, x.f)
             [] Fam = "trexc" -> TrexcInst(x.n, x.v, x.ifst, x.ilst)
             [] Fam = "bal" -> BalInst(x.n, x.k1, x.kc)

Init == cs \in Cases
Next == UNCHANGED cs
Spec == Init /\ [][Next]_cs
Emit == PrintT(ToJson(Inst(cs)))
=============================================================================
