----------------------- MODULE PlantedSpectralLemmas ------------------------
(* Property C03, role R1: the identities that make the values printed by      *)
(* PlantedSpectral.tla the exact spectrum, checked by TLC on every instance   *)
(* of the bounded case space (same Init as the generator).                    *)
(*  SymLemma  Q0^T Q0 = I, A = A^T, A Q0 = Q0 D (all scaled integers), the    *)
(*            printed eigenvalue list is ascending and a rearrangement of D,  *)
(*            every printed vector is a unit eigenvector for its position,    *)
(*            every printed gap is the exact distance to the nearest other    *)
(*            eigenvalue.                                                     *)
(*  SvdLemma  U0^T U0 = I, V0^T V0 = I, A V0 = U0 S, A^T U0 = V0 S^T, list    *)
(*            descending, non-negative, a rearrangement of S; printed pairs   *)
(*            satisfy A v = s u, A^T u = s v; gaps exact.                     *)
(*  GevLemma  S S^-1 = I, A S = S B, B is block diagonal with 1x1 and         *)
(*            [[a,-b],[b,a]] (b > 0) blocks, multiplicities add up to n,      *)
(*            printed right / left vectors satisfy A v = lambda v and         *)
(*            u^H A = lambda u^H, printed gaps are lower bounds of the        *)
(*            distance to every other eigenvalue.                             *)
EXTENDS PlantedSpectral

I == Inst(cs)
Z0(S, m, n) == Fn([i \in 0 .. m - 1 |-> Fn([j \in 0 .. n - 1 |-> S[i + 1][j + 1]])])   \* 0-based view
Dot(F(_), G(_), n) == SumR(LAMBDA k : F(k) * G(k), 0, n - 1)
OrthOK(Q, den, n) == \A a, b \in 0 .. n - 1 :
                       SumR(LAMBDA r : Q[r][a] * Q[r][b], 0, n - 1) = (IF a = b THEN den * den ELSE 0)
SameMultiset(d, w, n) == \A v \in {d[k] : k \in 0 .. n - 1} \cup {w[k] : k \in 0 .. n - 1} : Mult(d, n, v) = Mult(w, n, v)

SymLemma ==
  Fam = "sym" =>
    LET n == I.n
        O == Orth(n, cs.qv, 50)
        Q == O.Q
        d == SymD(n, cs.dv)
        A == Z0(I.A, n, n)
        w == Fn([r \in 0 .. n - 1 |-> I.w[r + 1]])
        q2 == O.den * O.den
    IN /\ OrthOK(Q, O.den, n)
       /\ I.den = q2 /\ I.qden = O.den
       /\ \A i, j \in 0 .. n - 1 : A[i][j] = A[j][i]
       /\ \A i, j \in 0 .. n - 1 : SumR(LAMBDA k : A[i][k] * Q[k][j], 0, n - 1) = q2 * Q[i][j] * d[j]
       /\ \A r \in 0 .. n - 2 : w[r] <= w[r + 1]
       /\ SameMultiset(d, w, n)
       /\ \A r \in 0 .. n - 1 :
            LET v == I.V[r + 1] IN
            IF Mult(d, n, w[r]) # 1 THEN v = <<>> /\ I.gap[r + 1] = 0
            ELSE /\ \A i \in 0 .. n - 1 : SumR(LAMBDA k : A[i][k] * v[k + 1], 0, n - 1) = q2 * w[r] * v[i + 1]
                 /\ SumR(LAMBDA k : v[k + 1] * v[k + 1], 0, n - 1) = q2
                 /\ I.gap[r + 1] >= 1
                 /\ \A k \in 0 .. n - 1 : d[k] # w[r] => Abs(d[k] - w[r]) >= I.gap[r + 1]
                 /\ n > 1 => \E k \in 0 .. n - 1 : d[k] # w[r] /\ Abs(d[k] - w[r]) = I.gap[r + 1]

SvdLemma ==
  Fam = "svd" =>
    LET m == I.m
        n == I.n
        k == Min(m, n)
        OU == Orth(m, Min(cs.qv, QVmax(m)), 70)
        OV == Orth(n, Min(cs.qv, QVmax(n)), 80)
        U == OU.Q
        W == OV.Q
        s == SvdS(m, n, cs.dv)
        A == Z0(I.A, m, n)
        sv == Fn([r \in 0 .. k - 1 |-> I.sv[r + 1]])
        v2 == OV.den * OV.den
        u2 == OU.den * OU.den
    IN /\ OrthOK(U, OU.den, m) /\ OrthOK(W, OV.den, n)
       /\ I.den = OU.den * OV.den /\ I.uden = OU.den /\ I.vden = OV.den
       /\ \A i \in 0 .. m - 1, t \in 0 .. n - 1 :
            SumR(LAMBDA j : A[i][j] * W[j][t], 0, n - 1) = (IF t < k THEN v2 * s[t] * U[i][t] ELSE 0)
       /\ \A j \in 0 .. n - 1, t \in 0 .. m - 1 :
            SumR(LAMBDA i : A[i][j] * U[i][t], 0, m - 1) = (IF t < k THEN u2 * s[t] * W[j][t] ELSE 0)
       /\ \A r \in 0 .. k - 1 : sv[r] >= 0
       /\ \A r \in 0 .. k - 2 : sv[r] >= sv[r + 1]
       /\ SameMultiset(s, sv, k)
       /\ \A r \in 0 .. k - 1 :
            LET u == I.U[r + 1]
                v == I.V[r + 1] IN
            IF Mult(s, k, sv[r]) # 1 \/ sv[r] = 0 THEN u = <<>> /\ v = <<>> /\ I.gap[r + 1] = 0
            ELSE /\ \A i \in 0 .. m - 1 : SumR(LAMBDA j : A[i][j] * v[j + 1], 0, n - 1) = v2 * sv[r] * u[i + 1]
                 /\ \A j \in 0 .. n - 1 : SumR(LAMBDA i : A[i][j] * u[i + 1], 0, m - 1) = u2 * sv[r] * v[j + 1]
                 /\ SumR(LAMBDA i : u[i + 1] * u[i + 1], 0, m - 1) = u2
                 /\ SumR(LAMBDA j : v[j + 1] * v[j + 1], 0, n - 1) = v2
                 /\ I.gap[r + 1] >= 1 /\ I.gap[r + 1] <= sv[r]
                 /\ \A t \in 0 .. k - 1 : s[t] # sv[r] => Abs(s[t] - sv[r]) >= I.gap[r + 1]
       \* the printed path labels are the path-selection model's: total, and a fast length exactly on the
       \* paths that have a fast variant
       /\ \A t \in 1 .. 9 :
            LET pf == I.paths[t] IN
            /\ pf[1] = GesvdPath(m, n, (t - 1) \div 3, (t - 1) % 3)
            /\ (k = 0) = (pf[1] = 0)
            /\ k > 0 => pf[1] \in AllGesvdPaths
            /\ (pf[2] > 0) = (pf[1] \in {4, 6, 7, 9, 14, 16, 17, 19})
            /\ pf[2] > 0 => pf[2] >= k * k + 5 * k

(* Coverage theorem of the path-selection model: on the shapes of the case space with min(m,n) >= 2 *)
(* every path of Dgesvd that gonum implements is selected, and every job pair meets its QR-first   *)
(* path, its LQ-first path and both direct paths (10, 10t).  Checked once (it does not depend on   *)
(* the state).                                                                                    *)
PathShapes == {<<x.m, x.n>> : x \in {y \in Cases : Min(y.m, y.n) >= 2}}
PathCover ==
  Fam = "svd" =>
    /\ {GesvdPath(z[1], z[2], ju, jv) : z \in PathShapes, ju \in 0 .. 2, jv \in 0 .. 2} = AllGesvdPaths
    /\ \A ju, jv \in 0 .. 2 :
         LET P == {GesvdPath(z[1], z[2], ju, jv) : z \in PathShapes} IN
         /\ 10 \in P /\ 20 \in P
         /\ P \cap {1, 4, 6, 7, 9} # {} /\ P \cap {11, 14, 16, 17, 19} # {}
ASSUME PathCover

GevLemma ==
  Fam = "gev" =>
    LET n == I.n
        P == GevParts(n, cs.dv)
        A == Z0(I.A, n, n)
        S == P.S
        Si == P.Si
        B == P.B
        AllEv == {<<e.re, e.im>> : e \in {I.ev[t] : t \in 1 .. Len(I.ev)}}
                 \cup {<<e.re, -e.im>> : e \in {I.ev[t] : t \in 1 .. Len(I.ev)}}
    IN /\ A = P.A
       /\ \A i, j \in 0 .. n - 1 : SumR(LAMBDA k : S[i][k] * Si[k][j], 0, n - 1) = (IF i = j THEN 1 ELSE 0)
       /\ \A i, j \in 0 .. n - 1 : SumR(LAMBDA k : A[i][k] * S[k][j], 0, n - 1) = SumR(LAMBDA k : S[i][k] * B[k][j], 0, n - 1)
       \* B: block diagonal, couples are either [[a,-b],[b,a]] with b > 0 or diagonal
       /\ \A i, j \in 0 .. n - 1 : (i \div 2 # j \div 2) => B[i][j] = 0
       /\ \A c \in 0 .. (n \div 2) - 1 :
            \/ B[2 * c][2 * c + 1] = 0 /\ B[2 * c + 1][2 * c] = 0
            \/ B[2 * c][2 * c] = B[2 * c + 1][2 * c + 1] /\ B[2 * c + 1][2 * c] > 0 /\ B[2 * c][2 * c + 1] = -B[2 * c + 1][2 * c]
       \* the printed spectrum is the spectrum of B with multiplicities
       /\ \A t \in 1 .. Len(I.ev) :
            LET e == I.ev[t] IN
            /\ e.im >= 0 /\ e.mult >= 1
            /\ IF e.im = 0
               THEN e.mult = Cardinality({k \in 0 .. n - 1 : B[k][k] = e.re /\ \A j \in 0 .. n - 1 : j # k => B[k][j] = 0})
               ELSE e.mult = Cardinality({c \in 0 .. (n \div 2) - 1 : B[2 * c][2 * c] = e.re /\ B[2 * c + 1][2 * c] = e.im})
            /\ \A t2 \in 1 .. Len(I.ev) : t2 # t => <<I.ev[t2].re, I.ev[t2].im>> # <<e.re, e.im>>
       /\ SumR(LAMBDA t : I.ev[t].mult * (IF I.ev[t].im > 0 THEN 2 ELSE 1), 1, Len(I.ev)) = n
       /\ I.kap >= 1
       /\ I.kap >= Norm1(S, n, n) * Norm1(Si, n, n) /\ I.kap >= NormInf(S, n, n) * NormInf(Si, n, n)
       \* printed eigenvectors of simple eigenvalues
       /\ \A t \in 1 .. Len(I.ev) :
            LET e == I.ev[t]
                vi(i) == IF e.im > 0 THEN e.vi[i] ELSE 0
                ui(i) == IF e.im > 0 THEN e.ui[i] ELSE 0
            IN IF e.mult # 1 THEN e.vr = <<>> /\ e.gap = 0
               ELSE /\ \A i \in 1 .. n :
                         /\ SumR(LAMBDA k : A[i - 1][k - 1] * e.vr[k], 1, n) = e.re * e.vr[i] - e.im * vi(i)
                         /\ SumR(LAMBDA k : A[i - 1][k - 1] * vi(k), 1, n) = e.im * e.vr[i] + e.re * vi(i)
                         /\ SumR(LAMBDA k : e.ur[k] * A[k - 1][i - 1], 1, n) = e.re * e.ur[i] + e.im * ui(i)
                         /\ SumR(LAMBDA k : ui(k) * A[k - 1][i - 1], 1, n) = e.re * ui(i) - e.im * e.ur[i]
                    /\ \E i \in 1 .. n : e.vr[i] # 0 \/ vi(i) # 0
                    /\ \E i \in 1 .. n : e.ur[i] # 0 \/ ui(i) # 0
                    /\ e.gap >= 1
                    \* the gap is a lower bound of the Euclidean distance to every other eigenvalue
                    /\ \A u \in AllEv \ {<<e.re, e.im>>} :
                         (u[1] - e.re) * (u[1] - e.re) + (u[2] - e.im) * (u[2] - e.im) >= e.gap * e.gap
=============================================================================
