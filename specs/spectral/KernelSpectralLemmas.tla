------------------------ MODULE KernelSpectralLemmas ------------------------
(* Property C03, role R1: the lemmas behind KernelSpectral.tla, checked by    *)
(* TLC on every instance of the bounded case space.                           *)
(*  Lag2Lemma   det S = 1, B upper triangular and non-singular, A*S = B*S*D   *)
(*              (so the columns of S are the eigenvectors of the pencil),     *)
(*              det(A - l*B) = 0 for the printed real eigenvalues, and for a  *)
(*              complex pair det(A - a*B) = b^2 * det B and                   *)
(*              trace(adj(B)*A) = 2*a*det B; the printed condition numbers    *)
(*              are the defined ones (kappa(B) rounded up); Lag2Accept        *)
(*              accepts the exact answer in every admissible form (either     *)
(*              order, any positive scale factors) at tolerance 0 and rejects *)
(*              a changed eigenvalue, wi # 0 for a real pair, wi = 0 or       *)
(*              different scale factors for a complex pair.                   *)
(*  Lasq6Lemma  the printed transform satisfies the rhombus rules (the        *)
(*              definition), d_k = qq_k - e_k >= 0, the printed minima are    *)
(*              the minima of the d_k, every input outside the planted zero   *)
(*              is positive, every number is num/2^e with e <= 30 (and        *)
(*              |num| < 2^31, or TLC would report an overflow), slots outside *)
(*              the pong half of the window are expected unchanged.           *)
(*  LasrLemma   every P (all pivot conventions and directions) is orthogonal; *)
(*              the printed results equal the rotations applied ONE AT A TIME *)
(*              to the rows (Left) / columns (Right) in the documented order  *)
(*              (an independent formulation of the matrix products).          *)
(*  LarfxLemma  v^T*v = 2*hd with hd in {1, 2, 4}; hd*H = hd*I - v*v^T is      *)
(*              symmetric and (hd*H)^2 = hd^2*I (H is an exact reflector);    *)
(*              the printed products are hd*H*C and C*hd*H.                   *)
(*  Laqr1Lemma  the printed column is the first column of the product formed  *)
(*              with 2x2 / 3x3 integer (for a conjugate pair: Gaussian        *)
(*              integer) matrix arithmetic, whose imaginary part vanishes;    *)
(*              Laqr1Accept accepts every non-zero multiple of it (and only   *)
(*              0 when it is 0) and rejects a changed component.              *)
EXTENDS KernelSpectral


Lag2Lemma ==
  cs.f = "lag2" =>
    LET I == TLCEval(Inst(cs))
        S == LagS(cs.sv)
        Si == Adj2(S)
        B == I.B
        A == I.A
        D == LagD(cs.c, cs.x, cs.y)
        AmL(l) == M2(A[1][1] - l * B[1][1], A[1][2] - l * B[1][2], A[2][1] - l * B[2][1], A[2][2] - l * B[2][2])
        tol == <<1, 1000>>
        l == I.lam
        one == RI(1)
        acc(s1, s2, wr1, wr2, wi, t) == Lag2Accept(I.cplx, l, one, s1, s2, wr1, wr2, wi, t)
    IN /\ Det2(S) = 1 /\ Mul2(S, Si) = M2(1, 0, 0, 1)
       /\ B[2][1] = 0 /\ B[1][1] # 0 /\ B[2][2] # 0
       /\ Mul2(A, S) = Mul2(Mul2(B, S), D)
       /\ I.kS = N1(S) * N1(Si)
       /\ I.kB * Abs(Det2(B)) >= N1(B) * N1(Adj2(B)) /\ (I.kB - 1) * Abs(Det2(B)) < N1(B) * N1(Adj2(B))
       /\ I.tol = <<30, 2, I.nM * I.kS * I.kB>>
       /\ IF ~I.cplx
          THEN /\ l[1] # l[2] /\ Det2(AmL(l[1])) = 0 /\ Det2(AmL(l[2])) = 0
               /\ acc(one, one, RI(l[1]), RI(l[2]), RI(0), RI(0))
               /\ acc(one, one, RI(l[2]), RI(l[1]), RI(0), RI(0))
               /\ acc(<<1, 4>>, RI(3), <<l[1], 4>>, RI(3 * l[2]), RI(0), RI(0))
               /\ ~acc(one, one, RI(l[1]), RI(l[2] + 1), RI(0), tol)
               /\ ~acc(one, one, RI(l[1]), RI(l[1]), RI(0), tol)
               /\ ~acc(one, one, RI(l[1]), RI(l[2]), <<1, 2>>, tol)
               /\ ~acc(RI(0), one, RI(l[1]), RI(l[2]), RI(0), tol)
          ELSE /\ l[2] >= 1 /\ Det2(AmL(l[1])) = l[2] * l[2] * Det2(B)
               /\ Mul2(Adj2(B), A)[1][1] + Mul2(Adj2(B), A)[2][2] = 2 * l[1] * Det2(B)
               /\ acc(one, one, RI(l[1]), RI(l[1]), RI(l[2]), RI(0))
               /\ acc(<<1, 8>>, <<1, 8>>, <<l[1], 8>>, <<l[1], 8>>, <<l[2], 8>>, RI(0))
               /\ ~acc(one, one, RI(l[1]), RI(l[1]), RI(0), tol)
               /\ ~acc(one, one, RI(l[1]), RI(l[1]), RI(0 - l[2]), tol)
               /\ ~acc(one, RI(2), RI(l[1]), RI(l[1]), RI(l[2]), tol)
               /\ ~acc(one, one, RI(l[1]), RI(l[1] + 1), RI(l[2]), tol)
               /\ ~acc(one, one, RI(l[1] + 1), RI(l[1] + 1), RI(l[2]), tol)
               /\ ~acc(one, one, RI(l[1]), RI(l[1]), RI(l[2] + 1), tol)

Lasq6Lemma ==
  cs.f = "lasq6" =>
    LET I == TLCEval(Inst(cs))
        L == cs.L
        i0 == I.i0
        n0 == I.n0
        pp == I.pp
        zi(idx) == I.zin[idx + 1]
        zo(idx) == I.zout[idx + 1]
        q(k) == zi(4 * k + pp)
        e(k) == IF k = n0 THEN <<0, 0>> ELSE zi(4 * k + 2 + pp)
        qq(k) == zo(4 * k + 1 - pp)
        ee(k) == IF k < i0 THEN <<0, 0>> ELSE zo(4 * k + 3 - pp)
        d(k) == IF k = n0 THEN qq(k) ELSE DySub(qq(k), e(k))
        Z == <<0, 0>>
    IN /\ n0 = i0 + L - 1 /\ Len(I.zin) = 4 * (n0 + 1) /\ Len(I.zout) = Len(I.zin)
       /\ \A k \in i0 .. n0 - 1 : DyMul(qq(k), ee(k)) = DyMul(q(k + 1), e(k))                      \* rhombus rules
       /\ \A k \in i0 .. n0 : DyAdd(qq(k), ee(k - 1)) = DyAdd(q(k), e(k))
       /\ \A k \in i0 .. n0 : ~DyLt(d(k), Z)
       /\ \A k \in i0 .. n0 - 1 : DyLt(Z, e(k)) /\ DyLt(Z, qq(k))
       /\ DyLt(Z, q(i0)) /\ (cs.v # 2 => \A k \in i0 .. n0 : DyLt(Z, q(k)))
       /\ (cs.v = 2 => \E k \in i0 + 1 .. n0 : q(k) = Z /\ I.dmin = Z)
       /\ I.dn = d(n0) /\ I.dnm1 = d(n0 - 1) /\ I.dnm2 = d(n0 - 2)
       /\ \A k \in i0 .. n0 : ~DyLt(d(k), I.dmin)
       /\ \E k \in i0 .. n0 : d(k) = I.dmin
       /\ \A k \in i0 .. n0 - 1 : ~DyLt(d(k), I.dmin1)
       /\ \E k \in i0 .. n0 - 1 : d(k) = I.dmin1
       /\ \A k \in i0 .. n0 - 2 : ~DyLt(d(k), I.dmin2)
       /\ \E k \in i0 .. n0 - 2 : d(k) = I.dmin2
       /\ \A idx \in 0 .. 4 * (n0 + 1) - 1 : zi(idx)[2] <= 30 /\ zo(idx)[2] <= 30
       \* only the pong half of the window changes
       /\ \A idx \in 0 .. 4 * (n0 + 1) - 1 :
            (idx \div 4 < i0 \/ idx % 4 \in {pp, 2 + pp}) => zo(idx) = zi(idx)
       /\ I.free = 4 * n0 + 3 - pp
\* one rotation applied to rows p, q of X (Left) or to columns p, q (Right: X*P(k)^T)
RotRows(X, m, n, p, q, c, s) ==
  Mat(m, n, LAMBDA i, j : IF i = p THEN c * X[p][j] + s * X[q][j] ELSE IF i = q THEN c * X[q][j] - s * X[p][j] ELSE X[i][j])
RotCols(X, m, n, p, q, c, s) ==
  Mat(m, n, LAMBDA i, j : IF j = p THEN c * X[i][p] + s * X[i][q] ELSE IF j = q THEN c * X[i][q] - s * X[i][p] ELSE X[i][j])
\* Left: P = P(z-2)..P(0) (Forward) acts with P(0) first; Right: A*P^T = A*P(0)^T*..*P(z-2)^T (Forward) also k = 0 first
RECURSIVE SeqApply(_, _, _, _, _, _, _, _, _)
SeqApply(X, m, n, sd, pv, dr, c, s, t) ==
  LET z == IF sd = 0 THEN m ELSE n
  IN IF t > z - 2 THEN X
     ELSE LET k == IF dr = 0 THEN t ELSE z - 2 - t
              pq == PlaneOf(pv, k, z)
              Y == IF sd = 0 THEN RotRows(X, m, n, pq[1], pq[2], c[k], s[k]) ELSE RotCols(X, m, n, pq[1], pq[2], c[k], s[k])
          IN SeqApply(Y, m, n, sd, pv, dr, c, s, t + 1)
LasrLemma ==
  cs.f = "lasr" =>
    LET I == TLCEval(Inst(cs))
        m == I.m
        n == I.n
        A == Mat(m, n, LAMBDA i, j : I.A[i + 1][j + 1])
    IN \A q \in 1 .. 12 :
         LET sd == (q - 1) \div 6
             pv == ((q - 1) % 6) \div 2
             dr == (q - 1) % 2
             z == IF sd = 0 THEN m ELSE n
             c == Fn([k \in 0 .. z - 2 |-> IF sd = 0 THEN I.cl[k + 1] ELSE I.cr[k + 1]])
             s == Fn([k \in 0 .. z - 2 |-> IF sd = 0 THEN I.sl[k + 1] ELSE I.sr[k + 1]])
             P == PProd(pv, dr, z, c, s, 0)
             W == SeqApply(A, m, n, sd, pv, dr, c, s, 0)
         IN /\ \A k \in 0 .. z - 2 : c[k] * c[k] + s[k] * s[k] = 1
            /\ MMul(P, Mat(z, z, LAMBDA i, j : P[j][i]), z, z, z) = Ident(z)
            /\ \A i \in 1 .. m, j \in 1 .. n : I.res[q][i][j] = W[i - 1][j - 1]
LarfxLemma ==
  cs.f = "larfx" =>
    LET I == TLCEval(Inst(cs))
        z == I.m
        o == I.n
        v == Fn([i \in 0 .. z - 1 |-> I.hv[i + 1]])
        Hd == Mat(z, z, LAMBDA i, j : I.HH[i + 1][j + 1])
    IN /\ I.hden \in {1, 2, 4} /\ SumR(LAMBDA i : v[i] * v[i], 0, z - 1) = 2 * I.hden
       /\ \A i, j \in 0 .. z - 1 : Hd[i][j] = Hd[j][i] /\ Hd[i][j] = (IF i = j THEN I.hden ELSE 0) - v[i] * v[j]
       /\ MMul(Hd, Hd, z, z, z) = Mat(z, z, LAMBDA i, j : IF i = j THEN I.hden * I.hden ELSE 0)
       /\ \A i \in 1 .. z, j \in 1 .. o :
            /\ I.HC[i][j] = SumR(LAMBDA t : Hd[i - 1][t - 1] * I.CL[t][j], 1, z)
            /\ I.CH[j][i] = SumR(LAMBDA t : I.CR[j][t] * Hd[t - 1][i - 1], 1, z)
Laqr1Lemma ==
  cs.f = "laqr1" =>
    LET I == TLCEval(Inst(cs))
        n == I.n
        Hm == Mat(n, n, LAMBDA i, j : I.A[i + 1][j + 1])
        \* complex matrices as pairs of integer matrices: (H - s1)(H - s2), first column
        Re1(i, t) == Hm[i][t] - (IF i = t THEN I.sr1 ELSE 0)
        Im1(i, t) == IF i = t THEN 0 - I.si1 ELSE 0
        Re2(t) == Hm[t][0] - (IF t = 0 THEN I.sr2 ELSE 0)
        Im2(t) == IF t = 0 THEN 0 - I.si2 ELSE 0
        wr(i) == SumR(LAMBDA t : Re1(i, t) * Re2(t) - Im1(i, t) * Im2(t), 0, n - 1)
        wi(i) == SumR(LAMBDA t : Re1(i, t) * Im2(t) + Im1(i, t) * Re2(t), 0, n - 1)
        w == Fn([i \in 0 .. n - 1 |-> I.wcol[i + 1]])
        tau == <<30, 4194304>>
        mult(k) == Fn([i \in 0 .. n - 1 |-> RMul(k, RI(w[i]))])
        zero == \A i \in 0 .. n - 1 : w[i] = 0
    IN /\ \A i \in 0 .. n - 1 : w[i] = wr(i) /\ wi(i) = 0
       /\ (I.si1 = 0 /\ I.si2 = 0) \/ (I.sr1 = I.sr2 /\ I.si1 = 0 - I.si2)
       /\ cs.zero = 1 => zero
       /\ ~zero => /\ Laqr1Accept(mult(<<1, 7>>), w, n, RI(0))
                   /\ Laqr1Accept(mult(<<0 - 5, 3>>), w, n, RI(0))
                   /\ ~Laqr1Accept(mult(RI(0)), w, n, tau)
       /\ zero => /\ Laqr1Accept(mult(RI(0)), w, n, RI(0))
                  /\ ~Laqr1Accept(Fn([i \in 0 .. n - 1 |-> IF i = 0 THEN RI(1) ELSE RI(0)]), w, n, tau)
       /\ ~zero => ~Laqr1Accept(Fn([i \in 0 .. n - 1 |-> IF i = n - 1 THEN RI(w[i] + 1) ELSE RI(w[i])]), w, n, tau)
                     \/ (\A i \in 0 .. n - 2 : w[i] = 0)
=============================================================================
