SPECIFICATION Spec
CONSTANTS
  Fam = "@FAM@"
  Small = @SMALL@
  Vars = @VARS@
  Seed = @SEED@
INVARIANTS Emit
CHECK_DEADLOCK FALSE
