--------------------------- MODULE PlantedSpectral ---------------------------
(* Property C03 - generator of exactly representable ("planted") eigenvalue   *)
(* and singular value problems together with their exact spectra.             *)
(*                                                                            *)
(*  sym   A = Q0 * D * Q0^T     Q0 exactly orthogonal and dyadic (signed      *)
(*        permutation times direct sums of Hadamard blocks H4/2, H16/4, H64/8 *)
(*        in two shifted layers), D integer (distinct / repeated / zero).     *)
(*  svd   A = U0 * S * V0^T     U0 (m x m), V0 (n x n) as above, S integer    *)
(*        >= 0 (distinct / repeated and rank deficient / zero), every shape.  *)
(*  gev   A = S * B * S^-1      S unimodular integer (butterfly layers of     *)
(*        disjoint 2x2 integer matrices of determinant +-1; integer inverse), *)
(*        B block diagonal: integer 1x1 blocks and [[a,-b],[b,a]] blocks      *)
(*        (eigenvalues a +- ib).  B is normal, so the eigenvector matrix of A *)
(*        is S times a unitary matrix and kappa_2 <= max(kappa_1, kappa_inf)  *)
(*        of S, computed exactly here (Bauer-Fike).                           *)
(*                                                                            *)
(* The specification evaluates the defining products exactly in Z (values are *)
(* emitted as integers over the power of two `den`), the exact spectrum in    *)
(* the documented order (SortAsc is defined by counting), the exact gaps, and *)
(* the factors of the property's own tolerance  c * n * eps * |A| * kappa.    *)
(* Role: R2 generator.  The lemmas (orthogonality, A*Q0 = Q0*D, S*S^-1 = I,   *)
(* A*S = S*B, sortedness) are checked by TLC in PlantedSpectralLemmas.        *)
EXTENDS SpLib, Json

CONSTANTS Fam,    \* family of instances (a string)
          Small,  \* every shape with all dimensions in 0..Small is generated
          Big,    \* additional shapes encoded as m*1000 + n
          Seed    \* data salt (VERIF_SEED)

VARIABLE cs
Sd == Seed % 97

H(i, j, s) == Hash(i, j, s, Sd)
Sign(i, j, s) == IF H(i, j, s) % 2 = 0 THEN 1 ELSE -1
\* scaling variants: the harness multiplies A (and the expected values and tolerance) by 2^sce,
\* which drives the drivers through their Dlascl scale / unscale blocks
ScE(sc) == CASE sc = 0 -> 0 [] sc = 1 -> 500 [] sc = 2 -> -500
Norm1(A, m, n) == MaxR(LAMBDA j : SumR(LAMBDA i : Abs(A[i][j]), 0, m - 1), 0, n - 1)
NormInf(A, m, n) == MaxR(LAMBDA i : SumR(LAMBDA j : Abs(A[i][j]), 0, n - 1), 0, m - 1)

(****************************************************************************)
(* Exactly orthogonal dyadic matrices.  A layer is a direct sum of          *)
(* Sylvester-Hadamard blocks of size bs (scaled by sqrt(bs) = HScale) that  *)
(* starts at index off; indices not covered by a full block are 1x1 blocks  *)
(* +-1.  Q0 = P * L1 * L2 * diag(+-1), P a permutation.  All entries are    *)
(* emitted times den = HScale(bs1) * HScale(bs2).  lo/hi bound the support  *)
(* of each row (used only to shorten the exact sums).                       *)
(****************************************************************************)
Bs1(qv) == CASE qv = 0 -> 1 [] qv = 1 -> 4 [] qv = 2 -> 4 [] qv = 3 -> 16 [] qv = 4 -> 64
Bs2(qv) == CASE qv = 0 -> 1 [] qv = 1 -> 1 [] qv = 2 -> 4 [] qv = 3 -> 4 [] qv = 4 -> 16
Off2(qv) == CASE qv = 2 -> 2 [] qv = 3 -> 2 [] qv = 4 -> 8 [] OTHER -> 0
HScale(bs) == CASE bs = 1 -> 1 [] bs = 4 -> 2 [] bs = 16 -> 4 [] bs = 64 -> 8

InB(n, bs, off, i) == bs > 1 /\ i >= off /\ off + ((i - off) \div bs + 1) * bs <= n
BLo(n, bs, off, i) == IF InB(n, bs, off, i) THEN off + ((i - off) \div bs) * bs ELSE i
BHi(n, bs, off, i) == IF InB(n, bs, off, i) THEN BLo(n, bs, off, i) + bs - 1 ELSE i
LEnt(n, bs, off, s, i, j) ==
  IF InB(n, bs, off, i)
  THEN (IF j >= BLo(n, bs, off, i) /\ j <= BHi(n, bs, off, i)
        THEN HSgn(i - BLo(n, bs, off, i), j - BLo(n, bs, off, i)) ELSE 0)
  ELSE IF i = j THEN HScale(bs) * Sign(i, n, s) ELSE 0

Orth(n, qv, s) ==
  LET b1 == Bs1(qv)
      b2 == Bs2(qv)
      o2 == Off2(qv)
      lo1 == Fn([i \in 0 .. n - 1 |-> BLo(n, b1, 0, i)])
      hi1 == Fn([i \in 0 .. n - 1 |-> BHi(n, b1, 0, i)])
      lo2 == Fn([i \in 0 .. n - 1 |-> BLo(n, b2, o2, i)])
      hi2 == Fn([i \in 0 .. n - 1 |-> BHi(n, b2, o2, i)])
      L1 == Mat(n, n, LAMBDA i, j : LEnt(n, b1, 0, s, i, j))
      L2 == Mat(n, n, LAMBDA i, j : LEnt(n, b2, o2, s + 1, i, j))
      rlo == Fn([i \in 0 .. n - 1 |-> lo2[lo1[i]]])
      rhi == Fn([i \in 0 .. n - 1 |-> hi2[hi1[i]]])
      M == Mat(n, n, LAMBDA i, j : IF j < rlo[i] \/ j > rhi[i] THEN 0
                                   ELSE SumR(LAMBDA k : L1[i][k] * L2[k][j], lo1[i], hi1[i]))
      ip == Fn([t \in 0 .. n - 1 |-> t + (H(t, n, s + 2) % (n - t))])
      perm == Pos(ip, n, n)
      csg == Fn([j \in 0 .. n - 1 |-> Sign(j, n + 1, s + 3)])
  IN [Q |-> Mat(n, n, LAMBDA i, j : M[perm[i]][j] * csg[j]),
      den |-> HScale(b1) * HScale(b2),
      lo |-> Fn([i \in 0 .. n - 1 |-> rlo[perm[i]]]),
      hi |-> Fn([i \in 0 .. n - 1 |-> rhi[perm[i]]])]

\* the Q variants that differ structurally at size n
QVs(n) == IF n >= 64 THEN {3, 4} ELSE IF n >= 18 THEN {2, 3} ELSE IF n >= 6 THEN {0, 1, 2}
          ELSE IF n >= 4 THEN {0, 1} ELSE {0}
QVmax(n) == CHOOSE q \in QVs(n) : \A r \in QVs(n) : r <= q
Col(Q, k, n) == Fn([i \in 1 .. n |-> Q[i - 1][k]])

(****************************************************************************)
(* sym:  A = Q0 * D * Q0^T.  Expected: eigenvalues = sorted D (ascending);  *)
(* for a simple eigenvalue the unit eigenvector is +- the column of Q0, and *)
(* gap = distance to the nearest other eigenvalue (exact).                  *)
(*  dv 0 distinct (gaps >= 1), 1 repeated with zeros, 2 zero matrix,        *)
(*  dv 3 distinct, mixed signs, unsorted, one zero eigenvalue.              *)
(****************************************************************************)
SymD(n, dv) == Fn([k \in 0 .. n - 1 |->
                 CASE dv = 0 -> 2 * k + (H(k, n, 41) % 2) - n
                   [] dv = 1 -> (H(k, n, 42) % 3) - 1
                   [] dv = 2 -> 0
                   [] dv = 3 -> Sign(k, n, 43) * 3 * k])

SymInst(n, qv, dv, sc) ==
  LET O == Orth(n, qv, 50)
      Q == O.Q
      d == SymD(n, dv)
      A == Mat(n, n, LAMBDA i, j : SumR(LAMBDA k : Q[i][k] * d[k] * Q[j][k],
                                        Max(O.lo[i], O.lo[j]), Min(O.hi[i], O.hi[j])))
      w == SortAsc(d, n)
      vals == {d[k] : k \in 0 .. n - 1}
      simple == Fn([r \in 0 .. n - 1 |-> Mult(d, n, w[r]) = 1])
  IN [fam |-> "sym", m |-> n, n |-> n, qv |-> qv, dv |-> dv, sc |-> sc, sce |-> ScE(sc),
      den |-> O.den * O.den, qden |-> O.den,
      A |-> MatSeq(A, n, n), w |-> VecSeq(w, n),
      V |-> Fn([r \in 1 .. n |-> IF simple[r - 1] THEN Col(Q, IdxOf(d, n, w[r - 1]), n) ELSE <<>>]),
      gap |-> Fn([r \in 1 .. n |-> IF simple[r - 1]
                    THEN MinSet(LAMBDA v : Abs(v - w[r - 1]), vals \ {w[r - 1]}, 1) ELSE 0]),
      \* tolerance of the property: 30 * n * eps * ||A||_1 (Weyl), factors in units of eps/den
      tol |-> <<30, Max(n, 1), Norm1(A, n, n)>>]

Scs(n, a, b) == IF n >= 1 /\ (n + a + b) % 3 = 0 THEN {0, 1, 2} ELSE {0}
SymCases == {[m |-> n, n |-> n, qv |-> qv, dv |-> dv, sc |-> sc] :
               n \in 0 .. Small, qv \in 0 .. 2, dv \in 0 .. 3, sc \in 0 .. 2}
SymBig == {[m |-> x % 1000, n |-> x % 1000, qv |-> qv, dv |-> dv, sc |-> 0] :
               x \in Big, qv \in 2 .. 4, dv \in 0 .. 1}
SymValid(x) == x.qv \in QVs(x.n) /\ x.sc \in Scs(x.n, x.qv, x.dv)

(****************************************************************************)
(* svd:  A = U0 * S * V0^T  (m x n, k = min(m,n) singular values).          *)
(* Expected: singular values = S sorted descending; for a simple non-zero   *)
(* singular value the pair (u, v) is +-(column of U0, column of V0) with    *)
(* one common sign; gap = min(distance to the nearest other singular value, *)
(* the value itself) - the distance to the rest of the spectrum of the      *)
(* Jordan-Wielandt matrix, which contains 0 when m # n.                     *)
(****************************************************************************)
SvdS(m, n, dv) == LET k == Min(m, n) IN
  Fn([t \in 0 .. k - 1 |->
        CASE dv = 0 -> 2 * (k - t) - (H(t, m + n, 61) % 2)
          [] dv = 1 -> H(t, m + n, 62) % 3
          [] dv = 2 -> 0
          [] dv = 3 -> 3 * ((t * 7 + H(0, m + n, 63)) % k)])    \* a permutation of 0,3,..: unsorted, one zero

(* Path-selection model of Dgesvd (the comments "Path 1" .. "Path 10" and "Path 1t" .. "Path 10t" of *)
(* dgesvd.go; 11..20 stand for 1t..10t).  The QR-first (LQ-first) paths are taken when the long   *)
(* dimension is at least Mnthr = Ilaenv(6) = floor(1.6 * min(m, n)); which of them depends on the *)
(* jobs only (0 None, 1 Store, 2 All; paths 2, 3, 5, 8 need SVDOverwrite, which gonum documents   *)
(* as not coded).  GesvdFast is the workspace length from which paths 4, 6, 7, 9 (and their       *)
(* transposes) copy the triangular factor into the workspace ("sufficient workspace for a fast    *)
(* algorithm"); 0 for the other paths.  Neither is ever a verdict: the model only labels which    *)
(* combinations were executed and is checked for totality and reachability on the emitted shapes  *)
(* (PathCover in PlantedSpectralLemmas).                                                          *)
Mnthr(m, n) == (16 * Min(m, n)) \div 10
GesvdPath(m, n, ju, jv) ==
  IF Min(m, n) = 0 THEN 0
  ELSE IF m >= n
       THEN (IF m >= Mnthr(m, n)
             THEN (IF ju = 0 THEN 1 ELSE IF ju = 1 THEN (IF jv = 0 THEN 4 ELSE 6) ELSE (IF jv = 0 THEN 7 ELSE 9))
             ELSE 10)
       ELSE (IF n >= Mnthr(m, n)
             THEN (IF jv = 0 THEN 11 ELSE IF jv = 1 THEN (IF ju = 0 THEN 14 ELSE 16) ELSE (IF ju = 0 THEN 17 ELSE 19))
             ELSE 20)
GesvdFast(m, n, path) ==
  LET k == Min(m, n) IN
  IF path \in {4, 6, 14, 16} THEN k * k + 5 * k
  ELSE IF path \in {7, 9, 17, 19} THEN k * k + Max(m + n, 5 * k)
  ELSE 0
GesvdPaths(m, n) == Fn([t \in 1 .. 9 |-> LET ju == (t - 1) \div 3
                                             jv == (t - 1) % 3
                                             p == GesvdPath(m, n, ju, jv)
                                         IN <<p, GesvdFast(m, n, p)>>])
AllGesvdPaths == {1, 4, 6, 7, 9, 10, 11, 14, 16, 17, 19, 20}

SvdInst(m, n, qv, dv, sc) ==
  LET k == Min(m, n)
      OU == Orth(m, Min(qv, QVmax(m)), 70)
      OV == Orth(n, Min(qv, QVmax(n)), 80)
      U == OU.Q
      W == OV.Q
      s == SvdS(m, n, dv)
      A == Mat(m, n, LAMBDA i, j : SumR(LAMBDA t : U[i][t] * s[t] * W[j][t],
                                        Max(OU.lo[i], OV.lo[j]), Min(Min(OU.hi[i], OV.hi[j]), k - 1)))
      asc == SortAsc(s, k)
      sd == Fn([r \in 0 .. k - 1 |-> asc[k - 1 - r]])
      vals == {s[t] : t \in 0 .. k - 1}
      simple == Fn([r \in 0 .. k - 1 |-> Mult(s, k, sd[r]) = 1 /\ sd[r] > 0])
  IN [fam |-> "svd", m |-> m, n |-> n, qv |-> qv, dv |-> dv, sc |-> sc, sce |-> ScE(sc),
      den |-> OU.den * OV.den, uden |-> OU.den, vden |-> OV.den,
      A |-> MatSeq(A, m, n), sv |-> VecSeq(sd, k),
      U |-> Fn([r \in 1 .. k |-> IF simple[r - 1] THEN Col(U, IdxOf(s, k, sd[r - 1]), m) ELSE <<>>]),
      V |-> Fn([r \in 1 .. k |-> IF simple[r - 1] THEN Col(W, IdxOf(s, k, sd[r - 1]), n) ELSE <<>>]),
      gap |-> Fn([r \in 1 .. k |-> IF simple[r - 1]
                    THEN Min(sd[r - 1], MinSet(LAMBDA v : Abs(v - sd[r - 1]), vals \ {sd[r - 1]}, sd[r - 1])) ELSE 0]),
      tol |-> <<30, Max(Max(m, n), 1), Max(Norm1(A, m, n), NormInf(A, m, n))>>,
      paths |-> GesvdPaths(m, n)]

SvdCases == {[m |-> m, n |-> n, qv |-> qv, dv |-> dv, sc |-> sc] :
               m \in 0 .. Small, n \in 0 .. Small, qv \in {0, 2}, dv \in 0 .. 3, sc \in 0 .. 2}
SvdBig == {[m |-> x \div 1000, n |-> x % 1000, qv |-> qv, dv |-> dv, sc |-> 0] :
               x \in Big, qv \in 2 .. 4, dv \in 0 .. 1}
SvdValid(x) == /\ IF Max(x.m, x.n) <= Small THEN (x.qv = 0 \/ Max(x.m, x.n) >= 4) ELSE x.qv \in QVs(Max(x.m, x.n))
               /\ x.sc \in Scs(Min(x.m, x.n), x.m + x.qv, x.dv)

(****************************************************************************)
(* gev:  A = S * B * S^-1.                                                  *)
(* S = G_0 * G_1 * ... * G_{L-1}; layer l pairs index j with j + 2^l (when  *)
(* (j div 2^l) is even and j + 2^l < n) and applies to each pair a 2x2      *)
(* integer matrix of determinant +-1 from a menu; S^-1 is the product of    *)
(* the integer inverses in reverse order.                                   *)
(* B: indices are grouped in couples (2c, 2c+1); a couple is either a block *)
(* [[a,-b],[b,a]] (b > 0, eigenvalues a +- ib) or two 1x1 blocks.           *)
(*  ev 0 distinct eigenvalues, real and complex mixed (separation >= 1),    *)
(*  ev 1 repeated real and complex eigenvalues (A stays diagonalisable),    *)
(*  ev 2 all real and distinct, ev 3 zero matrix.                           *)
(* Eigenvectors (simple eigenvalues): real index k: right S[:,k], left      *)
(* S^-1[k,:]; couple c, eigenvalue a+ib: right S[:,2c] - i*S[:,2c+1], left  *)
(* S^-1[2c,:] - i*S^-1[2c+1,:] (defined up to a complex scalar).            *)
(****************************************************************************)
GL == 3
Menu == <<
  <<1, 1, 0, 1>>, <<1, 0, 1, 1>>, <<1, -1, 0, 1>>, <<1, 0, -1, 1>>, <<0, 1, 1, 0>>, <<1, 0, 0, 1>>,
  <<1, 1, 1, 2>>, <<0, 1, -1, 1>> >>
MInv(g) == LET det == g[1] * g[4] - g[2] * g[3] IN <<det * g[4], -det * g[2], -det * g[3], det * g[1]>>

Step(l) == Pow2(l)
IsFirst(n, l, j) == (j \div Step(l)) % 2 = 0 /\ j + Step(l) < n
IsSecond(n, l, j) == (j \div Step(l)) % 2 = 1
Partner(n, l, j) == IF IsFirst(n, l, j) THEN j + Step(l) ELSE IF IsSecond(n, l, j) THEN j - Step(l) ELSE j
GOf(n, l, j) == LET f == IF IsSecond(n, l, j) THEN j - Step(l) ELSE j IN Menu[1 + (H(f, l + n, 91) % 8)]
\* entry (i, j) of layer l (inv = TRUE: of its inverse); only called with j \in {i, Partner(i)}
GEnt(n, l, inv, i, j) ==
  LET g0 == GOf(n, l, i)
      g == IF inv THEN MInv(g0) ELSE g0
  IN IF Partner(n, l, i) = i THEN (IF i = j THEN 1 ELSE 0)
     ELSE IF IsFirst(n, l, i) THEN (IF j = i THEN g[1] ELSE g[2])
     ELSE (IF j = i THEN g[4] ELSE g[3])

RECURSIVE SBuild(_, _, _, _)
\* S * G_l * ... * G_{L-1}
SBuild(S, n, l, L) ==
  IF l = L THEN S
  ELSE SBuild(Mat(n, n, LAMBDA i, j :
                S[i][j] * GEnt(n, l, FALSE, j, j)
                + (IF Partner(n, l, j) = j THEN 0 ELSE S[i][Partner(n, l, j)] * GEnt(n, l, FALSE, Partner(n, l, j), j))),
              n, l + 1, L)
RECURSIVE SInvBuild(_, _, _, _)
\* G_{L-1}^-1 * ... * G_l^-1 * T
SInvBuild(T, n, l, L) ==
  IF l = L THEN T
  ELSE SInvBuild(Mat(n, n, LAMBDA i, j :
                   GEnt(n, l, TRUE, i, i) * T[i][j]
                   + (IF Partner(n, l, i) = i THEN 0 ELSE GEnt(n, l, TRUE, i, Partner(n, l, i)) * T[Partner(n, l, i)][j])),
                 n, l + 1, L)
Ident(n) == Mat(n, n, LAMBDA i, j : IF i = j THEN 1 ELSE 0)

GevIsC(n, ev, c) == ev \in {0, 1} /\ 2 * c + 1 < n /\ H(c, n, 93) % 2 = 0
GevRe(n, ev, k) == CASE ev = 0 -> 2 * k + (H(k, n, 92) % 2) - n
                     [] ev = 1 -> (H(k, n, 95) % 3) - 1
                     [] ev = 2 -> Sign(k, n, 96) * (2 * k + 1)
                     [] ev = 3 -> 0
GevIm(n, ev, c) == IF ev = 0 THEN 1 + (H(c, n, 94) % 3) ELSE 1 + (H(c, n, 94) % 2)
BEnt(n, ev, i, j) ==
  LET c == i \div 2 IN
  IF GevIsC(n, ev, c)
  THEN (IF i = j THEN GevRe(n, ev, 2 * c)
        ELSE IF j \div 2 = c THEN (IF i < j THEN -GevIm(n, ev, c) ELSE GevIm(n, ev, c)) ELSE 0)
  ELSE IF i = j THEN GevRe(n, ev, i) ELSE 0

GevParts(n, ev) ==
  LET L == IF n >= 5 THEN GL ELSE IF n >= 3 THEN 2 ELSE 1
      S == SBuild(Ident(n), n, 0, L)
      Si == SInvBuild(Ident(n), n, 0, L)
      B == Mat(n, n, LAMBDA i, j : BEnt(n, ev, i, j))
      SB == Mat(n, n, LAMBDA i, j : LET c == j \div 2 IN
               IF GevIsC(n, ev, c) THEN S[i][2 * c] * B[2 * c][j] + S[i][2 * c + 1] * B[2 * c + 1][j]
               ELSE S[i][j] * B[j][j])
      A == Mat(n, n, LAMBDA i, j : SumR(LAMBDA k : SB[i][k] * Si[k][j], 0, n - 1))
  IN [S |-> S, Si |-> Si, B |-> B, A |-> A]

\* the exact spectrum as a set of records: one per eigenvalue with im >= 0 (a pair a+-ib is listed
\* once, with im = b); idx = index of the 1x1 block / first index of the couple
GevEigs(n, ev) ==
  {[re |-> GevRe(n, ev, 2 * (k \div 2)), im |-> GevIm(n, ev, k \div 2), idx |-> k] :
      k \in {t \in 0 .. n - 1 : t % 2 = 0 /\ GevIsC(n, ev, t \div 2)}}
  \cup {[re |-> GevRe(n, ev, k), im |-> 0, idx |-> k] : k \in {t \in 0 .. n - 1 : ~GevIsC(n, ev, t \div 2)}}

GevInst(n, ev, sc) ==
  LET P == GevParts(n, ev)
      E == GevEigs(n, ev)
      D == {<<e.re, e.im>> : e \in E}
      mult(v) == Cardinality({e \in E : e.re = v[1] /\ e.im = v[2]})
      \* lower bound of the distance to the rest of the spectrum (incl. the conjugate): max-norm of the difference
      dist(v, u) == Max(Abs(v[1] - u[1]), Abs(v[2] - u[2]))
      All == D \cup {<<v[1], -v[2]>> : v \in D}
      gap(v) == MinSet(LAMBDA u : dist(v, u), All \ {v}, 1)
      one(v) == CHOOSE e \in E : e.re = v[1] /\ e.im = v[2]
      rec(v) == LET k == one(v).idx
                    simple == mult(v) = 1
                IN [re |-> v[1], im |-> v[2], mult |-> mult(v), gap |-> IF simple THEN gap(v) ELSE 0,
                    vr |-> IF simple THEN Col(P.S, k, n) ELSE <<>>,
                    vi |-> IF simple /\ v[2] > 0 THEN Fn([i \in 1 .. n |-> -P.S[i - 1][k + 1]]) ELSE <<>>,
                    ur |-> IF simple THEN Fn([i \in 1 .. n |-> P.Si[k][i - 1]]) ELSE <<>>,
                    ui |-> IF simple /\ v[2] > 0 THEN Fn([i \in 1 .. n |-> -P.Si[k + 1][i - 1]]) ELSE <<>>]
      \* a sequence (any order) of the distinct eigenvalues
      RECURSIVE ToSeq(_)
      ToSeq(X) == IF X = {} THEN <<>> ELSE LET x == CHOOSE y \in X : TRUE IN <<rec(x)>> \o ToSeq(X \ {x})
      kap == Max(Norm1(P.S, n, n) * Norm1(P.Si, n, n), NormInf(P.S, n, n) * NormInf(P.Si, n, n))
  IN [fam |-> "gev", m |-> n, n |-> n, qv |-> 0, dv |-> ev, sc |-> sc, sce |-> ScE(sc), den |-> 1,
      A |-> MatSeq(P.A, n, n), ev |-> ToSeq(D), kap |-> Max(kap, 1),
      \* Bauer-Fike: 30 * n * eps * max(||A||_1, ||A||_inf) * kappa(S)
      tol |-> <<30, Max(n, 1), Max(Norm1(P.A, n, n), NormInf(P.A, n, n)), Max(kap, 1)>>]

GevCases == {[m |-> n, n |-> n, qv |-> 0, dv |-> ev, sc |-> sc] : n \in 0 .. Small, ev \in 0 .. 3, sc \in 0 .. 2}
GevBig == {[m |-> x % 1000, n |-> x % 1000, qv |-> 0, dv |-> ev, sc |-> 0] : x \in Big, ev \in 0 .. 1}
GevValid(x) == x.sc \in Scs(x.n, 0, x.dv)

(****************************************************************************)
Cases == CASE Fam = "sym" -> {x \in SymCases \cup SymBig : SymValid(x)}
           [] Fam = "svd" -> {x \in SvdCases \cup SvdBig : SvdValid(x)}
           [] Fam = "gev" -> {x \in GevCases \cup GevBig : GevValid(x)}

Inst(x) == CASE Fam = "sym" -> SymInst(x.n, x.qv, x.dv, x.sc)
             [] Fam = "svd" -> SvdInst(x.m, x.n, x.qv, x.dv, x.sc)
             [] Fam = "gev" -> GevInst(x.n, x.dv, x.sc)

Init == cs \in Cases
Next == UNCHANGED cs
Spec == Init /\ [][Next]_cs

Emit == PrintT(ToJson(Inst(cs)))
=============================================================================
