SPECIFICATION Spec
CONSTANTS
  Fam = "@FAM@"
  Small = @SMALL@
  Big = @BIG@
  Seed = @SEED@
INVARIANTS TriLemma BidLemma Lanv2Lemma TrexcLemma BalLemma
CHECK_DEADLOCK FALSE
