------------------------------- MODULE MatRep -------------------------------
(* Representations of gonum/mat matrices as refinement maps (property C04).   *)
(*                                                                            *)
(* An ABSTRACT matrix is a sequence of rows of integers (A[i][j], 1-based):   *)
(* exactly what Dims and At expose.  A REPRESENTATION is a record             *)
(*     [kind, r, c, p, q, tw]                                                 *)
(* naming one of the concrete storage schemes of package mat (dense, strided  *)
(* view, symmetric, triangular, band, symmetric band, triangular band,        *)
(* diagonal, tridiagonal, vector, strided vector, row of a dense, diagonal of *)
(* a dense, user types that expose only an interface, Cholesky-as-matrix)     *)
(* with its shape (r, c: shape of the stored object), two kind parameters     *)
(* (bandwidths, view offsets) and the wrapper tw it is handed over in ("N":   *)
(* as is; "T", "TTri", "TBand", "TTriBand", "TVec": the implicit-transpose    *)
(* wrappers returned by the T(), TTri(), ... methods).                        *)
(*                                                                            *)
(* Slot(rep, i, j) is the storage map: the 1-based index into the backing     *)
(* array of base element (i, j), or 0 where the element is a structural zero. *)
(* Store(rep, A) is the backing array realising A (unreferenced slots hold    *)
(* canaries), Abs(rep, s) the abstract matrix a backing array denotes.        *)
(* TLC checks (module MatRepModel):  Abs(rep, Store(rep, A)) = A,             *)
(* Abs(T(rep), s) = Transpose(Abs(rep, s)), injectivity of Slot on canonical  *)
(* positions, and that unreferenced slots never influence Abs.                *)
EXTENDS Integers, Sequences, FiniteSets, TLC

Min2(a, b) == IF a < b THEN a ELSE b
Max2(a, b) == IF a < b THEN b ELSE a
AbsI(a) == IF a < 0 THEN -a ELSE a

(***************************** abstract matrices *****************************)
Rows(A) == Len(A)
Cols(A) == Len(A[1])
Transpose(A) == [j \in 1 .. Cols(A) |-> [i \in 1 .. Rows(A) |-> A[i][j]]]

(******************************* kind tables *********************************)
DenseKinds   == {"Dense", "DenseView", "Basic", "RawDense"}
SymKinds     == {"Sym", "SymView", "BasicSym", "RawSym"}
TriUKinds    == {"TriU", "TriUView", "BasicTriU", "RawTriU"}
TriLKinds    == {"TriL", "TriLView", "BasicTriL", "RawTriL"}
BandKinds    == {"Band", "BasicBand", "BandS"}
VecKinds     == {"Vec", "VecInc", "RowOfDense", "BasicVec", "RawVec"}
SquareOnly   == SymKinds \cup TriUKinds \cup TriLKinds
                \cup {"SymBand", "TriBandU", "TriBandL", "Diag", "DiagOfDense", "Tridiag", "Chol"}
                \cup {"SymBandS", "TriBandUS", "TriBandLS", "TridiagS"}
\* the kinds ending in S are built through the SetRaw* methods (SetRawBand, SetRawSymBand, SetRawTriBand,
\* SetRawTridiagonal) on a zero value; the band ones with a stride one larger than the band width, so
\* that every row of the band storage ends in a slot that is never referenced
SymBandKinds == {"SymBand", "SymBandS"}
TriBandUKinds == {"TriBandU", "TriBandUS"}
TriBandLKinds == {"TriBandL", "TriBandLS"}
TriBandKinds == TriBandUKinds \cup TriBandLKinds
TridiagKinds == {"Tridiag", "TridiagS"}
AllKinds     == DenseKinds \cup BandKinds \cup VecKinds \cup SquareOnly

\* kinds whose (i,j) and (j,i) share one slot
SymmetricStorage == SymKinds \cup SymBandKinds

\* which wrappers the Go types offer (the method that returns them)
Wrappers(kind) ==
    {"N", "T"}
    \cup (IF kind \in TriUKinds \cup TriLKinds \cup TriBandKinds \cup {"Diag"} THEN {"TTri"} ELSE {})
    \cup (IF kind \in BandKinds \cup SymBandKinds \cup TriBandKinds \cup TridiagKinds \cup {"Diag"} THEN {"TBand"} ELSE {})
    \cup (IF kind \in TriBandKinds \cup {"Diag"} THEN {"TTriBand"} ELSE {})
    \cup (IF kind \in {"Vec", "VecInc", "RowOfDense"} THEN {"TVec"} ELSE {})

Rep(kind, r, c, p, q, tw) == [kind |-> kind, r |-> r, c |-> c, p |-> p, q |-> q, tw |-> tw]

\* a well-formed representation (constructor preconditions of package mat)
WellFormed(rep) ==
    /\ rep.r >= 1 /\ rep.c >= 1 /\ rep.p >= 0 /\ rep.q >= 0
    /\ rep.kind \in SquareOnly => rep.r = rep.c
    /\ rep.kind \in VecKinds => rep.c = 1
    /\ rep.kind \in BandKinds => rep.p < rep.r /\ rep.q < rep.c          \* kl < r, ku < c
    /\ rep.kind \in SymBandKinds \cup TriBandKinds => rep.p < rep.r    \* k < n
    /\ rep.kind = "VecInc" => rep.p < rep.q /\ rep.q >= 2                 \* column p of an r x q parent
    /\ rep.kind = "RowOfDense" => rep.p < rep.q                           \* row p of a q x r parent
    /\ rep.tw \in Wrappers(rep.kind)

(******************************* storage maps ********************************)
StoreLen(rep) ==
    LET k == rep.kind  r == rep.r  c == rep.c  p == rep.p  q == rep.q IN
    CASE k \in {"Dense", "Basic", "RawDense"} -> r * c
      [] k = "DenseView" -> (r + p + 1) * (c + q + 1)
      [] k \in {"Sym", "BasicSym", "RawSym", "TriU", "TriL", "BasicTriU", "BasicTriL", "RawTriU", "RawTriL", "Chol"} -> r * r
      [] k \in {"SymView", "TriUView", "TriLView"} -> (r + p + 1) * (r + p + 1)
      [] k \in {"Band", "BasicBand"} -> Min2(r, c + p) * (p + q + 1)
      [] k = "BandS" -> Min2(r, c + p) * (p + q + 2)
      [] k \in {"SymBand", "TriBandU", "TriBandL"} -> r * (p + 1)
      [] k \in {"SymBandS", "TriBandUS", "TriBandLS"} -> r * (p + 2)
      [] k = "Diag" -> r
      [] k = "DiagOfDense" -> r * (r + q)
      [] k \in TridiagKinds -> 3 * r - 2
      [] k \in {"Vec", "BasicVec", "RawVec"} -> r
      [] k = "VecInc" -> r * q
      [] k = "RowOfDense" -> q * r

\* 1-based slot of base element (i, j) (1-based), 0 = structural zero
Slot(rep, i, j) ==
    LET k == rep.kind  r == rep.r  c == rep.c  p == rep.p  q == rep.q
        a == Min2(i, j)  b == Max2(i, j) IN
    CASE k \in {"Dense", "Basic", "RawDense"} -> (i - 1) * c + j
      [] k = "DenseView" -> (i - 1 + p) * (c + q + 1) + j + q
      [] k \in {"Sym", "BasicSym", "RawSym"} -> (a - 1) * r + b
      [] k = "SymView" -> (a - 1 + p) * (r + p + 1) + b + p
      [] k \in {"TriU", "BasicTriU", "RawTriU", "Chol"} -> IF i <= j THEN (i - 1) * r + j ELSE 0
      [] k \in {"TriL", "BasicTriL", "RawTriL"} -> IF i >= j THEN (i - 1) * r + j ELSE 0
      [] k = "TriUView" -> IF i <= j THEN (i - 1 + p) * (r + p + 1) + j + p ELSE 0
      [] k = "TriLView" -> IF i >= j THEN (i - 1 + p) * (r + p + 1) + j + p ELSE 0
      [] k \in BandKinds -> LET d == j - i + p                          \* row stride of the band storage
                                ld == IF k = "BandS" THEN p + q + 2 ELSE p + q + 1 IN
                            IF d >= 0 /\ d <= p + q THEN (i - 1) * ld + d + 1 ELSE 0
      [] k \in SymBandKinds -> LET ld == IF k = "SymBandS" THEN p + 2 ELSE p + 1 IN
                               IF b - a <= p THEN (a - 1) * ld + (b - a) + 1 ELSE 0
      [] k \in TriBandUKinds -> LET ld == IF k = "TriBandUS" THEN p + 2 ELSE p + 1 IN
                                IF i <= j /\ j - i <= p THEN (i - 1) * ld + (j - i) + 1 ELSE 0
      [] k \in TriBandLKinds -> LET ld == IF k = "TriBandLS" THEN p + 2 ELSE p + 1 IN
                                IF j <= i /\ i - j <= p THEN (i - 1) * ld + p + j - i + 1 ELSE 0
      [] k = "Diag" -> IF i = j THEN i ELSE 0
      [] k = "DiagOfDense" -> IF i = j THEN (i - 1) * (r + q) + i ELSE 0
      [] k \in TridiagKinds -> IF i = j + 1 THEN j                      \* DL[j]
                          ELSE IF i = j THEN (r - 1) + i           \* D[i]
                          ELSE IF j = i + 1 THEN (r - 1) + r + i   \* DU[i]
                          ELSE 0
      [] k \in {"Vec", "BasicVec", "RawVec"} -> i
      [] k = "VecInc" -> (i - 1) * q + p + 1
      [] k = "RowOfDense" -> p * r + i

\* positions that own a slot (one per slot: the upper one for symmetric storage)
Canonical(rep) == {ij \in (1 .. rep.r) \X (1 .. rep.c) :
                     /\ Slot(rep, ij[1], ij[2]) # 0
                     /\ rep.kind \in SymmetricStorage => ij[1] <= ij[2]}

Canary(slot) == 50 + slot

\* the abstract matrix has the structure of the kind (zero where there is no slot,
\* equal where two positions share a slot)
HasStructure(rep, B) ==
    /\ Rows(B) = rep.r /\ Cols(B) = rep.c
    /\ \A i \in 1 .. rep.r, j \in 1 .. rep.c :
         /\ Slot(rep, i, j) = 0 => B[i][j] = 0
         /\ rep.kind \in SymmetricStorage => B[i][j] = B[j][i]

\* backing array realising the BASE matrix B in representation rep
StoreBase(rep, B) ==
    LET own == {<<Slot(rep, ij[1], ij[2]), ij[1], ij[2]>> : ij \in Canonical(rep)} IN
    [s \in 1 .. StoreLen(rep) |->
        IF \E o \in own : o[1] = s
        THEN LET o == CHOOSE x \in own : x[1] = s IN B[o[2]][o[3]]
        ELSE Canary(s)]

\* slots that hold matrix elements; every other slot must never be read or written
Referenced(rep) == {Slot(rep, ij[1], ij[2]) : ij \in Canonical(rep)}

\* base matrix denoted by a backing array
AbsBaseRaw(rep, s) == [i \in 1 .. rep.r |-> [j \in 1 .. rep.c |->
                          IF Slot(rep, i, j) = 0 THEN 0 ELSE s[Slot(rep, i, j)]]]
\* Cholesky-as-matrix: the stored upper triangle U denotes U^T U
Gram(U) == LET n == Len(U) IN
           [i \in 1 .. n |-> [j \in 1 .. n |->
              LET m == Min2(i, j)
                  S[k \in 0 .. m] == IF k = 0 THEN 0 ELSE S[k - 1] + U[k][i] * U[k][j]
              IN S[m]]]
AbsBase(rep, s) == IF rep.kind = "Chol" THEN Gram(AbsBaseRaw(rep, s)) ELSE AbsBaseRaw(rep, s)

\* the element a wrapped operand shows through At(i, j): wrappers swap the indices
AtW(rep, s, i, j) == IF rep.tw = "N" THEN AbsBase(rep, s)[i][j] ELSE AbsBase(rep, s)[j][i]
DimsW(rep) == IF rep.tw = "N" THEN <<rep.r, rep.c>> ELSE <<rep.c, rep.r>>
Abs(rep, s) == LET B == AbsBase(rep, s) IN
               [i \in 1 .. DimsW(rep)[1] |-> [j \in 1 .. DimsW(rep)[2] |->
                   IF rep.tw = "N" THEN B[i][j] ELSE B[j][i]]]

(**************************** formula-filled data ****************************)
\* small integers in -4 .. 4
Fill(salt, i, j) == ((3 * i + 5 * j + i * j + 7 * salt) % 9) - 4
\* +-1, +-2, +-4: exact divisors
Pow2Fill(salt, i, j) == LET k == (i + 2 * j + salt) % 3
                            m == IF k = 0 THEN 1 ELSE IF k = 1 THEN 2 ELSE 4
                        IN IF (i * j + salt) % 2 = 0 THEN m ELSE 0 - m
\* data modes: "plain"; "x4" (multiples of 4); "pow2" (exact divisors, never zero);
\* "unitU" / "unitL": unit upper / lower triangular with off-diagonal entries in -1 .. 1
Val(mode, salt, i, j) ==
    CASE mode = "plain" -> Fill(salt, i, j)
      [] mode = "zero" -> 0
      [] mode = "x4" -> 4 * Fill(salt, i, j)
      [] mode = "pow2" -> Pow2Fill(salt, i, j)
      [] mode = "unitU" -> IF i = j THEN 1 ELSE IF i < j THEN (AbsI(Fill(salt, i, j)) % 3) - 1 ELSE 0
      [] mode = "unitL" -> IF i = j THEN 1 ELSE IF i > j THEN (AbsI(Fill(salt, i, j)) % 3) - 1 ELSE 0
\* base matrix with the structure of rep, filled by formula (the projection of a full
\* formula matrix onto the structure); Cholesky factors get a positive diagonal
BaseDataM(rep, salt, mode) ==
    [i \in 1 .. rep.r |-> [j \in 1 .. rep.c |->
        IF Slot(rep, i, j) = 0 THEN 0
        ELSE IF rep.kind = "Chol" /\ i = j THEN 1 + (AbsI(Fill(salt, i, j)) % 2)
        ELSE IF rep.kind \in SymmetricStorage THEN Val(mode, salt, Min2(i, j), Max2(i, j))
        ELSE Val(mode, salt, i, j)]]
BaseData(rep, salt) == BaseDataM(rep, salt, "plain")
StoreOfM(rep, salt, mode) == StoreBase(rep, BaseDataM(rep, salt, mode))
StoreOf(rep, salt) == StoreOfM(rep, salt, "plain")
\* backing array realising a GIVEN denoted matrix A (A must have the structure of rep)
StoreOfAbs(rep, A) == StoreBase(rep, IF rep.tw = "N" THEN A ELSE Transpose(A))
=============================================================================
