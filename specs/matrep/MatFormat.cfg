SPECIFICATION Spec
CONSTANTS
  MaxN = @MAXN@
  BigR = @BIGR@
  BigC = @BIGC@
  Seed = @SEED@
  Shard = @SHARD@
  NShards = @NSHARDS@
INVARIANTS Emit
CHECK_DEADLOCK FALSE
