------------------------------ MODULE MatFormat ------------------------------
(* The text printed by mat.Formatted (property C04: the printed text of a      *)
(* matrix is a function of what Dims and At expose and of the options, never   *)
(* of the representation).                                                     *)
(*                                                                            *)
(* Layout(A, o) builds, as a TLA+ string, the text that the documentation of   *)
(* Formatted / Prefix / Excerpt / DotByte / Squeeze / FormatMATLAB /           *)
(* FormatPython and its examples pin down for a matrix of small integers:      *)
(*   default syntax   rows between the bracket glyphs, cells right-aligned     *)
(*                    ('-' flag: left-aligned) to the width of the widest      *)
(*                    displayed cell (Squeeze: of the widest displayed cell of *)
(*                    the column), two spaces between columns, every line      *)
(*                    after the first starting with the prefix, zero elements  *)
(*                    replaced by the dot character under the ' ' flag,        *)
(*                    Excerpt(m): a "Dims(r, c)" header line, the first and    *)
(*                    last m rows / columns, "...  ...  " marks in the first   *)
(*                    and last row and a column of three dots between the row  *)
(*                    blocks;                                                  *)
(*   MATLAB / Python  one-line syntax "[1 2; 3 4]" / "[[1, 2], [3, 4]]" with   *)
(*                    every element printed by fmt with the given flags, and   *)
(*                    the row-and-column layout under the '#' flag.            *)
(* The bracket glyphs are written <U+23A1> .. <U+23A6> (the harness replaces   *)
(* the marker by the rune).  Each case is one representation (MatRep) of the   *)
(* abstract matrix; since Layout reads the abstract matrix only, two           *)
(* representations of one matrix are demanded to print identically.            *)
EXTENDS MatRep, Json

CONSTANTS MaxN,      \* shapes 1 .. MaxN for every representation
          BigR, BigC, \* shapes 1 .. BigR x 1 .. BigC for plain Dense (reach the excerpt marks)
          Seed,
          Shard, NShards

(********************************* strings ***********************************)
RECURSIVE Copies(_, _)
Copies(s, n) == IF n <= 0 THEN "" ELSE s \o Copies(s, n - 1)
Sp(n) == Copies(" ", n)
\* concatenation of f(k) for k = lo .. hi
RECURSIVE Cat(_, _, _)
Cat(f(_), lo, hi) == IF lo > hi THEN "" ELSE f(lo) \o Cat(f, lo + 1, hi)
MaxOver(f(_), S) == LET x == CHOOSE x \in S : \A y \in S : f(y) <= f(x) IN f(x)

TL == "<U+23A1>"  ML == "<U+23A2>"  BL == "<U+23A3>"
TR == "<U+23A4>"  MR == "<U+23A5>"  BR == "<U+23A6>"

(********************************** options **********************************)
\* syntax: "" (default), "matlab", "python"; margin: Excerpt(m); dot: the DotByte character;
\* verb "v" | "g" | "f", prec -1 = none; flags space ' ', minus '-', plus '+', sharp '#'; width 0 = none
Opt(syntax, prefix, margin, dot, squeeze, verb, prec, space, minus, plus, sharp, width) ==
    [syntax |-> syntax, prefix |-> prefix, margin |-> margin, dot |-> dot, squeeze |-> squeeze, verb |-> verb,
     prec |-> prec, space |-> space, minus |-> minus, plus |-> plus, sharp |-> sharp, width |-> width]
\* the fmt verb string handed to fmt.Sprintf
FmtStr(o) == "%" \o (IF o.sharp THEN "#" ELSE "") \o (IF o.plus THEN "+" ELSE "") \o (IF o.minus THEN "-" ELSE "")
             \o (IF o.space THEN " " ELSE "") \o (IF o.width > 0 THEN ToString(o.width) ELSE "")
             \o (IF o.prec >= 0 THEN "." \o ToString(o.prec) ELSE "") \o o.verb

(*********************************** cells ***********************************)
\* an integer under %v, %g (shortest representation) or %.pf
Num(v, o) == IF o.verb = "f" /\ o.prec > 0 THEN ToString(v) \o "." \o Copies("0", o.prec) ELSE ToString(v)
\* what fmt prints for one element with the flags '+', '-' and a width (one-line MATLAB / Python syntax);
\* under the verb v the '+' flag is fmt's "add field names" flag and prints no sign
FmtCell(v, o) == LET s == (IF o.plus /\ o.verb # "v" /\ v >= 0 THEN "+" ELSE "") \o Num(v, o)
                     pad == Sp(o.width - Len(s))
                 IN IF o.minus THEN s \o pad ELSE pad \o s

(******************************* default syntax *******************************)
Layout(A, o) ==
    LET r == Rows(A)  c == Cols(A)
        printed == IF o.margin <= 0 THEN Max2(r, c) ELSE o.margin
        rowGap == 2 * printed < r
        colGap == 2 * printed < c
        shownR == IF rowGap THEN (1 .. printed) \cup (r - printed + 1 .. r) ELSE 1 .. r
        shownC == IF colGap THEN (1 .. printed) \cup (c - printed + 1 .. c) ELSE 1 .. c
        wid(ij) == Len(Num(A[ij[1]][ij[2]], o))
        W(j) == IF o.squeeze THEN MaxOver(wid, shownR \X {j}) ELSE MaxOver(wid, shownR \X shownC)
        cell(i, j) == IF A[i][j] = 0 /\ o.space THEN o.dot ELSE Num(A[i][j], o)
        padded(i, j) == LET s == cell(i, j)  p == Sp(W(j) - Len(s)) IN IF o.minus THEN s \o p ELSE p \o s
        open(i) == IF r = 1 THEN "[" ELSE IF i = 1 THEN TL ELSE IF i < r THEN ML ELSE BL
        close(i) == IF r = 1 THEN "]" ELSE IF i = 1 THEN TR \o "\n" ELSE IF i < r THEN MR \o "\n" ELSE BR
        col(i, j) == IF j \in shownC THEN padded(i, j) \o (IF j < c THEN "  " ELSE "")
                     ELSE IF j = printed + 1 THEN (IF i = 1 \/ i = r THEN "...  ...  " ELSE Sp(10))
                     ELSE ""
        header == rowGap \/ colGap
        line(i) == LET f(j) == col(i, j) IN
                   (IF i = 1 /\ ~header THEN "" ELSE o.prefix) \o open(i) \o Cat(f, 1, c) \o close(i)
                   \o (IF rowGap /\ i = printed THEN Copies(o.prefix \o " .\n", 3) ELSE "")
        row(i) == IF i \in shownR THEN line(i) ELSE ""
    IN (IF header THEN "Dims(" \o ToString(r) \o ", " \o ToString(c) \o ")\n" ELSE "") \o Cat(row, 1, r)

(**************************** MATLAB / Python syntax **************************)
\* widths of the '#' layouts: all cells are displayed
LayoutCells(A, o, i, sep) ==
    LET r == Rows(A)  c == Cols(A)
        wid(ij) == Len(Num(A[ij[1]][ij[2]], o))
        W(j) == IF o.squeeze THEN MaxOver(wid, (1 .. r) \X {j}) ELSE MaxOver(wid, (1 .. r) \X (1 .. c))
        f(j) == LET s == Num(A[i][j], o)  p == Sp(W(j) - Len(s)) IN
                (IF o.minus THEN s \o p ELSE p \o s) \o (IF j < c THEN sep ELSE "")
    IN Cat(f, 1, c)
Matlab(A, o) ==
    LET r == Rows(A)  c == Cols(A) IN
    IF ~o.sharp
    THEN LET row(i) == LET f(j) == (IF j > 1 THEN " " ELSE "") \o FmtCell(A[i][j], o) IN (IF i > 1 THEN "; " ELSE "") \o Cat(f, 1, c)
         IN "[" \o Cat(row, 1, r) \o "]"
    ELSE IF r = 1 THEN "[" \o LayoutCells(A, o, 1, " ") \o "]"
    ELSE LET row(i) == (IF i = 1 THEN "[\n" ELSE "") \o o.prefix \o " " \o LayoutCells(A, o, i, " ") \o "\n"
                       \o (IF i = r THEN o.prefix \o "]" ELSE "")
         IN Cat(row, 1, r)
Python(A, o) ==
    LET r == Rows(A)  c == Cols(A) IN
    IF ~o.sharp
    THEN LET row(i) == LET f(j) == (IF j > 1 THEN ", " ELSE "") \o FmtCell(A[i][j], o) IN (IF i > 1 THEN "], [" ELSE "") \o Cat(f, 1, c)
         IN (IF r > 1 THEN "[[" ELSE "[") \o Cat(row, 1, r) \o (IF r > 1 THEN "]]" ELSE "]")
    ELSE IF r = 1 THEN "[" \o LayoutCells(A, o, 1, ", ") \o "]"
    ELSE LET row(i) == (IF i = 1 THEN "[[" ELSE o.prefix \o " [") \o LayoutCells(A, o, i, ", ")
                       \o (IF i = r THEN "]]" ELSE "],\n")
         IN Cat(row, 1, r)
\* input class of a case, carried into the failure signature:
\*  "digits2": one-line MATLAB / Python syntax of a matrix with an element of two or more digits;
\*  "gaprow-widest": excerpt with a row gap in which the last row before the gap holds a cell wider than every
\*                   cell it is aligned with in the other displayed rows;  "plain": everything else
Tag(A, o) ==
    LET r == Rows(A)  c == Cols(A)
        printed == IF o.margin <= 0 THEN Max2(r, c) ELSE o.margin
        rowGap == 2 * printed < r
        shownR == IF rowGap THEN (1 .. printed) \cup (r - printed + 1 .. r) ELSE 1 .. r
        shownC == IF 2 * printed < c THEN (1 .. printed) \cup (c - printed + 1 .. c) ELSE 1 .. c
        wid(i, j) == Len(Num(A[i][j], o))
        others == shownR \ {printed}
    IN IF o.syntax # "" /\ ~o.sharp
       THEN IF \E i \in 1 .. r, j \in 1 .. c : A[i][j] >= 10 \/ A[i][j] <= 0 - 10 THEN "digits2" ELSE "digits1"
       ELSE IF o.syntax = "" /\ rowGap /\
               (IF o.squeeze THEN \E j \in shownC : \A i \in others : wid(i, j) < wid(printed, j)
                ELSE \E j \in shownC : \A i \in others, k \in shownC : wid(i, k) < wid(printed, j))
       THEN "gaprow-widest" ELSE "plain"
Text(A, o) == CASE o.syntax = "matlab" -> Matlab(A, o) [] o.syntax = "python" -> Python(A, o) [] OTHER -> Layout(A, o)

(************************************ cases ***********************************)
B == {TRUE, FALSE}
\* the options the documentation gives a meaning to, per syntax
DefaultOpts == {Opt("", pf, m, d[2], sq, vp[1], vp[2], d[1], mi, FALSE, FALSE, 0) :
                  pf \in {"", "   "}, m \in {0, 1, 2}, d \in {<<FALSE, ".">>, <<TRUE, ".">>, <<TRUE, "*">>},
                  sq \in B, vp \in {<<"v", 0 - 1>>, <<"f", 1>>}, mi \in B}
OneLineOpts(syn) == {Opt(syn, "", 0, ".", FALSE, vp[1], vp[2], FALSE, mi, pl, FALSE, w) :
                       vp \in {<<"v", 0 - 1>>, <<"g", 0 - 1>>, <<"f", 2>>}, mi \in B, pl \in B, w \in {0, 4}}
\* '#': rows and columns; the ' ' flag and Excerpt are ignored
SharpOpts(syn) == {Opt(syn, pf, m, ".", sq, vp[1], vp[2], sp, mi, FALSE, TRUE, 0) :
                     pf \in {"", ">> "}, m \in {0, 1}, sq \in B, vp \in {<<"v", 0 - 1>>, <<"f", 1>>}, sp \in B, mi \in B}
AllOpts == DefaultOpts \cup OneLineOpts("matlab") \cup OneLineOpts("python") \cup SharpOpts("matlab") \cup SharpOpts("python")
B2I(b) == IF b THEN 1 ELSE 0
HO(o) == Len(o.syntax) + Len(o.prefix) * 3 + o.margin * 5 + B2I(o.dot = "*") * 7 + B2I(o.squeeze) * 11 + Len(o.verb \o "x") * 0
         + (o.prec + 1) * 13 + B2I(o.space) * 17 + B2I(o.minus) * 19 + B2I(o.plus) * 23 + B2I(o.sharp) * 29 + o.width * 31
         + (IF o.verb = "g" THEN 37 ELSE 0)

\* integer data whose cells have different widths (1 to 4 characters)
Wide(salt, i, j) == LET v == Fill(salt, i, j) IN IF (i * 2 + j + salt) % 3 = 0 THEN 25 * v ELSE v
BigDense == {Rep("Dense", r, c, 0, 0, "N") : r \in 1 .. BigR, c \in 1 .. BigC}
Params(kind, r, c) ==
    CASE kind = "DenseView" -> {<<1, 2>>}
      [] kind \in {"SymView", "TriUView", "TriLView"} -> {<<1, 0>>}
      [] kind \in BandKinds -> {<<Min2(r - 1, 1), Min2(c - 1, 2)>>}
      [] kind \in SymBandKinds \cup TriBandKinds -> {<<Min2(r - 1, 1), 0>>}
      [] kind = "DiagOfDense" -> {<<0, 1>>}
      [] kind = "VecInc" -> {<<1, 3>>}
      [] kind = "RowOfDense" -> {<<1, 2>>}
      [] OTHER -> {<<0, 0>>}
SmallReps == {x \in UNION {UNION {UNION {{Rep(k, r, c, pq[1], pq[2], tw) : tw \in Wrappers(k)} : pq \in Params(k, r, c)} :
                                    r \in 1 .. MaxN, c \in 1 .. MaxN} : k \in AllKinds} : WellFormed(x)}
H(x) == x.r * 3 + x.c * 5 + x.p * 11 + x.q * 13 + Len(x.kind) * 7 + Len(x.tw) * 17

\* plain Dense of every shape up to BigR x BigC with every option set; every other representation with
\* the option sets chosen by a hash (a sixth of them); sharded
Pairs == {xo \in BigDense \X AllOpts : (H(xo[1]) + HO(xo[2])) % NShards = Shard}
         \cup {xo \in SmallReps \X AllOpts : (H(xo[1]) + HO(xo[2]) + Seed) % 6 = 0 /\ ((H(xo[1]) + HO(xo[2])) \div 6) % NShards = Shard}

VARIABLE c
Init == c \in Pairs
Next == UNCHANGED c
Spec == Init /\ [][Next]_c
Emit == LET x == c[1]  o == c[2]
            big == x \in BigDense
            A == IF big THEN [i \in 1 .. x.r |-> [j \in 1 .. x.c |-> Wide(Seed, i, j)]] ELSE Abs(x, StoreOf(x, Seed + 2))
            s == IF big THEN StoreOfAbs(x, A) ELSE StoreOf(x, Seed + 2)
        IN PrintT(ToJson([rep |-> x, store |-> s, fmt |-> FmtStr(o), opt |-> o, tag |-> Tag(A, o), text |-> Text(A, o)]))
=============================================================================
