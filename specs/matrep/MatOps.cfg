SPECIFICATION Spec
CONSTANTS
  Ops = @OPS@
  MaxN = @MAXN@
  Seed = @SEED@
  Shard = @SHARD@
  NShards = @NSHARDS@
  AllRS = @ALLRS@
  Wide = @WIDE@
INVARIANTS Emit
CHECK_DEADLOCK FALSE
