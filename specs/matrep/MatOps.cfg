SPECIFICATION Spec
CONSTANTS
  Ops = @OPS@
  MaxN = @MAXN@
  Seed = @SEED@
  Shard = @SHARD@
  NShards = @NSHARDS@
  AllRS = @ALLRS@
  Wide = @WIDE@
  Mism = @MISM@
  Refill = @REFILL@
INVARIANTS Emit
CHECK_DEADLOCK FALSE
