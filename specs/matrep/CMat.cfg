SPECIFICATION Spec
CONSTANTS
  Ops = @OPS@
  MaxN = @MAXN@
  Seed = @SEED@
INVARIANTS Emit
CHECK_DEADLOCK FALSE
