------------------------------- MODULE MatOps -------------------------------
(* Element-wise definitions of the operations of gonum/mat on abstract        *)
(* matrices (property C04) and the generator of conformance cases.            *)
(*                                                                            *)
(* Every operation is defined on what Dims and At expose and on nothing else, *)
(* over the integers.  A case is: an operation, one representation (MatRep)   *)
(* per operand position, a receiver state (zero value, pre-sized with junk    *)
(* content, view into a larger canary-filled backing) and the shapes.  For    *)
(* each case TLC prints the backing array of every operand (Store), the       *)
(* receiver's backing array with the mask of its own window, and the result   *)
(* demanded by the definition applied to the DENOTED operands (Abs(Store)):   *)
(* the result matrix as read through At, or "must panic" for shape errors.    *)
EXTENDS MatRep, Json

CONSTANTS Ops,       \* set of operation names enumerated by this run
          MaxN,      \* shapes 1 .. MaxN in every dimension
          Seed,      \* data salt and sampling salt (VERIF_SEED)
          Shard, NShards,   \* this run prints the cases with hash = Shard (mod NShards)
          AllRS,     \* TRUE: every receiver state for every operand tuple; FALSE: one, chosen by hash
          Wide,      \* TRUE: several view offsets / bandwidths per kind
          Mism,      \* TRUE: enumerate calls with mismatched operand shapes (a shape panic is demanded)
          Refill     \* TRUE: the stage "receiver (re)filled by a special-case path" (RefillCasesOf below)

N1 == 1 .. MaxN

(************************** definitions of the operations *********************)
\* sum of f(k) for k in 1 .. n
SumF(f(_), n) == LET S[k \in 0 .. n] == IF k = 0 THEN 0 ELSE S[k - 1] + f(k) IN S[n]
MaxF(f(_), n) == LET S[k \in 1 .. n] == IF k = 1 THEN f(1) ELSE Max2(S[k - 1], f(k)) IN S[n]
MinF(f(_), n) == LET S[k \in 1 .. n] == IF k = 1 THEN f(1) ELSE Min2(S[k - 1], f(k)) IN S[n]

Mk(r, c, f(_, _)) == [i \in 1 .. r |-> [j \in 1 .. c |-> f(i, j)]]
Scalar(v) == <<<<v>>>>
SameDims(A, B) == Rows(A) = Rows(B) /\ Cols(A) = Cols(B)

MAdd(A, B) == LET f(i, j) == A[i][j] + B[i][j] IN Mk(Rows(A), Cols(A), f)
MSub(A, B) == LET f(i, j) == A[i][j] - B[i][j] IN Mk(Rows(A), Cols(A), f)
MMulElem(A, B) == LET f(i, j) == A[i][j] * B[i][j] IN Mk(Rows(A), Cols(A), f)
MMul(A, B) == LET f(i, j) == LET g(k) == A[i][k] * B[k][j] IN SumF(g, Cols(A)) IN Mk(Rows(A), Cols(B), f)
MScale(a, A) == LET f(i, j) == a * A[i][j] IN Mk(Rows(A), Cols(A), f)
\* the function handed to Apply: fn(i, j, v) = 3 i - j + 2 v on 0-based indices
ApplyFn(i0, j0, v) == 3 * i0 - j0 + 2 * v
MApply(A) == LET f(i, j) == ApplyFn(i - 1, j - 1, A[i][j]) IN Mk(Rows(A), Cols(A), f)
MStack(A, B) == LET f(i, j) == IF i <= Rows(A) THEN A[i][j] ELSE B[i - Rows(A)][j] IN Mk(Rows(A) + Rows(B), Cols(A), f)
MAugment(A, B) == LET f(i, j) == IF j <= Cols(A) THEN A[i][j] ELSE B[i][j - Cols(A)] IN Mk(Rows(A), Cols(A) + Cols(B), f)
MKron(A, B) == LET rb == Rows(B)  cb == Cols(B)
                   f(i, j) == A[((i - 1) \div rb) + 1][((j - 1) \div cb) + 1] * B[((i - 1) % rb) + 1][((j - 1) % cb) + 1]
               IN Mk(Rows(A) * rb, Cols(A) * cb, f)
RECURSIVE ProdOf(_, _)
ProdOf(X, k) == IF k = 1 THEN X[1] ELSE MMul(ProdOf(X, k - 1), X[k])
Ident(n) == LET f(i, j) == IF i = j THEN 1 ELSE 0 IN Mk(n, n, f)
RECURSIVE MPow(_, _)
MPow(A, n) == IF n = 0 THEN Ident(Rows(A)) ELSE MMul(MPow(A, n - 1), A)
\* x, y are column vectors (n x 1 matrices)
MRankOne(A, a, x, y) == LET f(i, j) == A[i][j] + a * x[i][1] * y[j][1] IN Mk(Rows(A), Cols(A), f)
MOuter(a, x, y) == LET f(i, j) == a * x[i][1] * y[j][1] IN Mk(Rows(x), Rows(y), f)
\* Copy: as much as fits is copied into the top left corner of the receiver's old value R
MCopyInto(R, A) == LET f(i, j) == IF i <= Rows(A) /\ j <= Cols(A) THEN A[i][j] ELSE R[i][j] IN Mk(Rows(R), Cols(R), f)

\* exact element-wise quotient (the generator only divides multiples of 4 by +-1, +-2, +-4)
MDivElem(A, B) == LET f(i, j) == A[i][j] \div B[i][j] IN Mk(Rows(A), Cols(A), f)
DivExact(A, B) == \A i \in 1 .. Rows(A), j \in 1 .. Cols(A) : B[i][j] # 0 /\ (A[i][j] \div B[i][j]) * B[i][j] = A[i][j]
\* determinant by Laplace expansion along the first row; inverse of a unimodular matrix by the adjugate
Minor(A, p, q) == LET n == Rows(A)
                      f(i, j) == A[IF i < p THEN i ELSE i + 1][IF j < q THEN j ELSE j + 1]
                  IN Mk(n - 1, n - 1, f)
RECURSIVE DetOf(_)
DetOf(A) == IF Rows(A) = 1 THEN A[1][1]
            ELSE LET f(j) == (IF j % 2 = 1 THEN 1 ELSE 0 - 1) * A[1][j] * DetOf(Minor(A, 1, j)) IN SumF(f, Rows(A))
Cofactor(A, i, j) == IF Rows(A) = 1 THEN 1
                     ELSE (IF (i + j) % 2 = 0 THEN 1 ELSE 0 - 1) * DetOf(Minor(A, i, j))
\* defined for det(A) in {1, -1}: the integer matrix X with A X = I
InvUni(A) == LET d == DetOf(A)  f(i, j) == d * Cofactor(A, j, i) IN Mk(Rows(A), Rows(A), f)
Unimodular(A) == Rows(A) = Cols(A) /\ DetOf(A) \in {1, 0 - 1} /\ MMul(A, InvUni(A)) = Ident(Rows(A))

SSum(A) == LET f(i) == LET g(j) == A[i][j] IN SumF(g, Cols(A)) IN SumF(f, Rows(A))
SMax(A) == LET f(i) == LET g(j) == A[i][j] IN MaxF(g, Cols(A)) IN MaxF(f, Rows(A))
SMin(A) == LET f(i) == LET g(j) == A[i][j] IN MinF(g, Cols(A)) IN MinF(f, Rows(A))
STrace(A) == LET f(i) == A[i][i] IN SumF(f, Rows(A))
SNorm1(A) == LET f(j) == LET g(i) == AbsI(A[i][j]) IN SumF(g, Rows(A)) IN MaxF(f, Cols(A))
SNormInf(A) == LET f(i) == LET g(j) == AbsI(A[i][j]) IN SumF(g, Cols(A)) IN MaxF(f, Rows(A))
SDot(x, y) == LET f(i) == x[i][1] * y[i][1] IN SumF(f, Rows(x))
SInner(x, A, y) == LET f(i) == LET g(j) == x[i][1] * A[i][j] * y[j][1] IN SumF(g, Cols(A)) IN SumF(f, Rows(A))
BEqual(A, B) == IF SameDims(A, B) /\ A = B THEN 1 ELSE 0
IsSym(A) == Rows(A) = Cols(A) /\ A = Transpose(A)

(****************************** operation table *******************************)
\* receiver families
DenseOps == {"Add", "Sub", "MulElem", "Mul", "Scale", "Apply", "Copy", "CloneFrom", "Stack", "Augment",
             "Kronecker", "Pow", "RankOne", "Outer", "Product", "Product1", "Product2", "Product4",
             "DivElem", "Inverse", "Solve", "SolveTo", "ExpZero"}
VecOps   == {"MulVec", "AddVec", "SubVec", "MulElemVec", "AddScaledVec", "ScaleVec", "CopyVec", "CloneFromVec",
             "DivElemVec", "MulVecTo", "SolveVec", "SolveVecTo"}
SymOps   == {"AddSym", "CopySym", "ScaleSym", "SymRankOne", "SymRankK", "SymOuterK", "RankTwo"}
TriOps   == {"ScaleTri", "MulTri", "CopyTri", "InverseTri"}
DiagOps  == {"DiagFrom"}
FuncOps  == {"Sum", "Max", "Min", "Trace", "Norm1", "NormInf", "Equal", "EqualApprox", "Dot", "Inner", "Row", "Col", "Det"}
AllOps   == DenseOps \cup VecOps \cup SymOps \cup TriOps \cup DiagOps \cup FuncOps
Family(op) == CASE op \in DenseOps -> "Dense" [] op \in VecOps -> "Vec" [] op \in SymOps -> "Sym"
                [] op \in TriOps -> "Tri" [] op \in DiagOps -> "Diag" [] OTHER -> "Func"

(* The demanded outcome.  X is the sequence of denoted operands (abstract matrices), R the receiver's
   old abstract value (<<>> for an empty receiver), n1, n2 the integer parameters of the call
   (alpha, power, 0-based row / column index).  The answer is [panic, rows, ret]:
   rows is the result as read through Dims and At (scalars and booleans as 1 x 1, Row / Col as one row). *)
Ok(M) == [panic |-> FALSE, rows |-> M, ret |-> <<>>]
OkRet(M, ret) == [panic |-> FALSE, rows |-> M, ret |-> ret]
Panic == [panic |-> TRUE, rows |-> <<>>, ret |-> <<>>]
\* a non-empty receiver must already have the shape of the result
Fits(R, r, c) == R = <<>> \/ (Rows(R) = r /\ Cols(R) = c)

Demand(op, X, R, n1, n2) ==
    LET A == X[1]
        B == IF Len(X) >= 2 THEN X[2] ELSE <<>>
        C == IF Len(X) >= 3 THEN X[3] ELSE <<>>
    IN
    CASE op \in {"Add", "Sub", "MulElem", "AddVec", "SubVec", "MulElemVec", "AddSym"} ->
            IF SameDims(A, B) /\ Fits(R, Rows(A), Cols(A))
            THEN Ok(CASE op \in {"Add", "AddVec", "AddSym"} -> MAdd(A, B)
                      [] op \in {"Sub", "SubVec"} -> MSub(A, B)
                      [] OTHER -> MMulElem(A, B))
            ELSE Panic
      [] op \in {"Mul", "MulVec", "MulTri"} ->
            IF Cols(A) = Rows(B) /\ Fits(R, Rows(A), Cols(B)) THEN Ok(MMul(A, B)) ELSE Panic
      [] op \in {"Product", "Product1", "Product2", "Product4"} ->      \* Product(factors ...) with 1 .. 4 factors
            LET n == Len(X) IN
            IF (\A k \in 1 .. n - 1 : Cols(X[k]) = Rows(X[k + 1])) /\ Fits(R, Rows(X[1]), Cols(X[n])) THEN Ok(ProdOf(X, n)) ELSE Panic
      [] op \in {"Scale", "ScaleVec", "ScaleSym", "ScaleTri"} ->
            IF Fits(R, Rows(A), Cols(A)) THEN Ok(MScale(n1, A)) ELSE Panic
      [] op = "AddScaledVec" ->
            IF SameDims(A, B) /\ Fits(R, Rows(A), 1) THEN Ok(MAdd(A, MScale(n1, B))) ELSE Panic
      [] op = "Apply" -> IF Fits(R, Rows(A), Cols(A)) THEN Ok(MApply(A)) ELSE Panic
      [] op \in {"Copy", "CopyVec", "CopySym", "CopyTri"} ->
            IF R = <<>> THEN OkRet(<<>>, IF op \in {"Copy", "CopyTri"} THEN <<0, 0>> ELSE <<0>>)
            ELSE LET rr == Min2(Rows(R), Rows(A))  cc == Min2(Cols(R), Cols(A))
                 IN OkRet(MCopyInto(R, A), IF op \in {"Copy", "CopyTri"} THEN <<rr, cc>> ELSE <<rr>>)
      [] op \in {"CloneFrom", "CloneFromVec"} -> Ok(A)
      [] op = "Stack" -> IF Cols(A) = Cols(B) /\ Fits(R, Rows(A) + Rows(B), Cols(A)) THEN Ok(MStack(A, B)) ELSE Panic
      [] op = "Augment" -> IF Rows(A) = Rows(B) /\ Fits(R, Rows(A), Cols(A) + Cols(B)) THEN Ok(MAugment(A, B)) ELSE Panic
      [] op = "Kronecker" -> IF Fits(R, Rows(A) * Rows(B), Cols(A) * Cols(B)) THEN Ok(MKron(A, B)) ELSE Panic
      [] op = "Pow" -> IF Rows(A) = Cols(A) /\ Fits(R, Rows(A), Cols(A)) THEN Ok(MPow(A, n1)) ELSE Panic
      \* Dense.Exp of the ZERO matrix (every other exponential is inexact and not covered): the identity, exactly
      [] op = "ExpZero" -> IF Rows(A) = Cols(A) /\ Fits(R, Rows(A), Cols(A)) THEN Ok(Ident(Rows(A))) ELSE Panic
      [] op = "RankOne" ->
            IF Rows(B) = Rows(A) /\ Rows(C) = Cols(A) /\ Fits(R, Rows(A), Cols(A)) THEN Ok(MRankOne(A, n1, B, C)) ELSE Panic
      [] op = "Outer" -> IF Fits(R, Rows(A), Rows(B)) THEN Ok(MOuter(n1, A, B)) ELSE Panic
      [] op = "SymRankOne" ->
            IF Rows(B) = Rows(A) /\ Fits(R, Rows(A), Cols(A)) THEN Ok(MRankOne(A, n1, B, B)) ELSE Panic
      [] op = "RankTwo" ->        \* A + alpha (x y^T + y x^T)
            IF Rows(B) = Rows(A) /\ Rows(C) = Rows(A) /\ Fits(R, Rows(A), Cols(A))
            THEN Ok(MRankOne(MRankOne(A, n1, B, C), n1, C, B)) ELSE Panic
      [] op = "SymRankK" ->       \* A + alpha x x^T
            IF Rows(B) = Rows(A) /\ Fits(R, Rows(A), Cols(A)) THEN Ok(MAdd(A, MScale(n1, MMul(B, Transpose(B))))) ELSE Panic
      [] op = "SymOuterK" ->      \* alpha x x^T
            IF Fits(R, Rows(A), Rows(A)) THEN Ok(MScale(n1, MMul(A, Transpose(A)))) ELSE Panic
      [] op \in {"DivElem", "DivElemVec"} ->
            IF SameDims(A, B) /\ Fits(R, Rows(A), Cols(A)) THEN Ok(MDivElem(A, B)) ELSE Panic
      [] op = "MulVecTo" ->       \* a.MulVecTo(dst, trans, x): n1 = 1 means trans
            LET T == IF n1 = 1 THEN Transpose(A) ELSE A IN
            IF Cols(T) = Rows(B) /\ Fits(R, Rows(T), 1) THEN Ok(MMul(T, B)) ELSE Panic
      [] op \in {"Inverse", "InverseTri"} ->
            IF Rows(A) = Cols(A) /\ Fits(R, Rows(A), Cols(A)) THEN Ok(InvUni(A)) ELSE Panic
      [] op \in {"Solve", "SolveVec", "SolveTo", "SolveVecTo"} ->   \* the X with op(A) X = B, A unimodular
            LET T == IF n1 = 1 THEN Transpose(A) ELSE A IN
            IF Rows(A) = Cols(A) /\ Rows(B) = Rows(A) /\ Fits(R, Rows(A), Cols(B)) THEN Ok(MMul(InvUni(T), B)) ELSE Panic
      [] op = "DiagFrom" ->     \* the receiver must be min(r, c) long or empty
            LET n == Min2(Rows(A), Cols(A))  f(i, j) == IF i = j THEN A[i][i] ELSE 0 IN
            IF Fits(R, n, n) THEN Ok(Mk(n, n, f)) ELSE Panic
      [] op = "Det" -> IF Rows(A) = Cols(A) THEN Ok(Scalar(DetOf(A))) ELSE Panic
      [] op = "Sum" -> Ok(Scalar(SSum(A)))
      [] op = "Max" -> Ok(Scalar(SMax(A)))
      [] op = "Min" -> Ok(Scalar(SMin(A)))
      [] op = "Trace" -> IF Rows(A) = Cols(A) THEN Ok(Scalar(STrace(A))) ELSE Panic
      [] op = "Norm1" -> Ok(Scalar(SNorm1(A)))
      [] op = "NormInf" -> Ok(Scalar(SNormInf(A)))
      [] op = "Equal" -> Ok(Scalar(BEqual(A, B)))
      \* EqualApprox(a, b, eps): same size and all elements equal within the tolerance eps.  n1 \div 2 = 0: eps = 1/128
      \* (integer elements of magnitude < 128 are within that tolerance, absolute or relative, only if equal);
      \* n1 \div 2 = 1: eps = 100 (every pair of the small integers used is within it)
      [] op = "EqualApprox" -> Ok(Scalar(IF ~SameDims(A, B) THEN 0 ELSE IF n1 \div 2 = 1 THEN 1 ELSE BEqual(A, B)))
      [] op = "Dot" -> IF Rows(A) = Rows(B) THEN Ok(Scalar(SDot(A, B))) ELSE Panic
      [] op = "Inner" -> IF Rows(A) = Rows(B) /\ Cols(B) = Rows(C) THEN Ok(Scalar(SInner(A, B, C))) ELSE Panic
      [] op = "Row" -> IF n1 < Rows(A) THEN Ok(<<A[n1 + 1]>>) ELSE Panic
      [] op = "Col" -> IF n1 < Cols(A) THEN Ok(<<Transpose(A)[n1 + 1]>>) ELSE Panic

(************************** representations per position **********************)
KindSeq == <<"Dense", "DenseView", "Basic", "RawDense", "Sym", "SymView", "BasicSym", "RawSym",
             "TriU", "TriUView", "BasicTriU", "RawTriU", "TriL", "TriLView", "BasicTriL", "RawTriL",
             "Band", "BasicBand", "Vec", "VecInc", "RowOfDense", "BasicVec", "RawVec",
             "SymBand", "TriBandU", "TriBandL", "Diag", "DiagOfDense", "Tridiag", "Chol",
             "BandS", "SymBandS", "TriBandUS", "TriBandLS", "TridiagS">>
TwSeq == <<"N", "T", "TTri", "TBand", "TTriBand", "TVec">>
Idx(seq, x) == CHOOSE i \in 1 .. Len(seq) : seq[i] = x
ASSUME {KindSeq[i] : i \in 1 .. Len(KindSeq)} = AllKinds

\* kind parameters used by the generator for a stored shape r x c
Params(kind, r, c) ==
    LET o == 1 + (Seed % 2) IN      \* view offset chosen by the seed
    CASE kind = "DenseView" -> IF Wide THEN {<<0, 1>>, <<1, 0>>, <<2, 1>>} ELSE {<<o, 3 - o>>}
      [] kind \in {"SymView", "TriUView", "TriLView"} -> IF Wide THEN {<<0, 0>>, <<2, 0>>} ELSE {<<o, 0>>}
      [] kind = "Band" -> {pq \in (0 .. Min2(r - 1, 2)) \X (0 .. Min2(c - 1, 2)) : Wide \/ pq[1] + pq[2] <= 2}
      [] kind = "BasicBand" -> {<<Min2(r - 1, 1), Min2(c - 1, 2)>>}
      [] kind \in {"SymBand", "TriBandU", "TriBandL"} -> {<<k, 0>> : k \in (IF Wide THEN 0 .. r - 1 ELSE {Min2(r - 1, 1), r - 1})}
      [] kind = "BandS" -> {<<Min2(r - 1, 1 + (Seed % 2)), Min2(c - 1, 1)>>}
      [] kind \in {"SymBandS", "TriBandUS", "TriBandLS"} -> {<<Min2(r - 1, 1 + (Seed % 2)), 0>>}
      [] kind = "DiagOfDense" -> IF Wide THEN {<<0, 0>>, <<0, 2>>} ELSE {<<0, o - 1>>}
      [] kind = "VecInc" -> IF Wide THEN {<<0, 2>>, <<2, 3>>} ELSE {<<o - 1, 2 + (Seed % 3)>>}
      [] kind = "RowOfDense" -> IF Wide THEN {<<0, 1>>, <<1, 3>>} ELSE {<<o - 1, 2>>}
      [] OTHER -> {<<0, 0>>}

BaseReps(r, c) ==
    {x \in UNION {UNION {{Rep(k, r, c, pq[1], pq[2], tw) : tw \in Wrappers(k)} : pq \in Params(k, r, c)} :
                    k \in {k \in AllKinds : /\ k \in SquareOnly => r = c
                                            /\ k \in VecKinds => c = 1}} : WellFormed(x)}
\* every representation whose denotation has shape r x c
MatReps(r, c) == {x \in BaseReps(r, c) : x.tw = "N"} \cup {x \in BaseReps(c, r) : x.tw # "N"}
\* operand positions typed by a narrower Go interface
VecReps(n) == {x \in MatReps(n, 1) : x.kind \in VecKinds /\ x.tw = "N"}
SymIface == SymKinds \cup SymBandKinds \cup {"Diag", "DiagOfDense", "Chol"}
SymReps(n) == {x \in MatReps(n, n) : x.kind \in SymIface /\ x.tw = "N"}
UpperKinds == TriUKinds \cup TriBandUKinds
LowerKinds == TriLKinds \cup TriBandLKinds
TriIface == UpperKinds \cup LowerKinds
\* triangular operands; Diag / DiagOfDense report Upper, every transpose wrapper flips the triangle
TriReps(n) == {x \in MatReps(n, n) : (x.kind \in TriIface \cup {"Diag", "DiagOfDense"}) /\ x.tw \in {"N", "TTri", "TTriBand"}}
IsUpper(x) == (x.kind \in UpperKinds \cup {"Diag", "DiagOfDense"}) = (x.tw = "N")

\* representations without structural zeros (exact divisors live there)
FullReps(r, c) == {x \in MatReps(r, c) : x.kind # "Chol" /\ \A i \in 1 .. x.r, j \in 1 .. x.c : Slot(x, i, j) # 0}
\* representations that can hold a unit triangular matrix
UnitReps(n) == {x \in MatReps(n, n) : x.kind \notin SymmetricStorage \cup {"Chol"}}
\* concrete types with MulVecTo / SolveTo / SolveVecTo methods (called on the value itself, no wrapper)
MulVecToReps(r, c) == {x \in MatReps(r, c) : x.tw = "N" /\ x.kind \in {"Band", "BandS"} \cup SymBandKinds \cup TridiagKinds}
SolveToReps(n) == {x \in MatReps(n, n) : x.tw = "N" /\ x.kind \in {"TriU", "TriL", "TriUView", "TriLView"} \cup TriBandKinds \cup TridiagKinds}
SolveVecToReps(n) == {x \in SolveToReps(n) : x.kind \in TriBandKinds \cup TridiagKinds}

H(x) == Idx(KindSeq, x.kind) * 7 + Idx(TwSeq, x.tw) * 17 + x.r * 3 + x.c * 5 + x.p * 11 + x.q * 13
\* a second hash, independent of the sampling hash, for per-case choices (receiver triangle, receiver shape of Copy)
H2(x) == Idx(KindSeq, x.kind) * 5 + Idx(TwSeq, x.tw) * 3 + x.r * 7 + x.c * 11 + x.p + x.q * 2 + Seed
\* the generator works on pairs <<representation, hash>> so that sampling costs integer arithmetic only
Hd(S) == {<<x, H(x)>> : x \in S}
HS(ha) == ha[1][2] * 3 + (IF Len(ha) >= 2 THEN ha[2][2] * 5 ELSE 0) + (IF Len(ha) >= 3 THEN ha[3][2] * 7 ELSE 0)
          + (IF Len(ha) >= 4 THEN ha[4][2] * 11 ELSE 0)
Strip(ha) == [k \in 1 .. Len(ha) |-> ha[k][1]]

(********************************** receivers **********************************)
\* "reset": a receiver that held a larger junk-filled matrix and was Reset(): it is empty (adopts the result's
\* shape) but its storage is reused and holds the old content; only enumerated by the stage "refill"
RStates == <<"zero", "sized", "view", "reset">>
NoRep == Rep("None", 0, 0, 0, 0, "N")
\* receiver of family fam in state st with shape r x c (upper: triangle kind of a Tri receiver)
RecvRep(fam, st, r, c, upper) ==
    IF st = "zero" THEN NoRep
    ELSE IF st = "reset"
    THEN CASE fam = "Dense" -> Rep("Dense", r + 1, c + 1, 0, 0, "N")
           [] fam = "Vec" -> Rep("Vec", r + 1, 1, 0, 0, "N")
           [] fam = "Sym" -> Rep("Sym", r + 1, r + 1, 0, 0, "N")
           [] fam = "Tri" -> Rep(IF upper THEN "TriL" ELSE "TriU", r + 1, r + 1, 0, 0, "N")   \* the other kind: it is forgotten
           [] fam = "Diag" -> Rep("Diag", r + 1, r + 1, 0, 0, "N")
    ELSE CASE fam = "Dense" -> IF st = "sized" THEN Rep("Dense", r, c, 0, 0, "N") ELSE Rep("DenseView", r, c, 1, 2, "N")
           [] fam = "Vec" -> IF st = "sized" THEN Rep("Vec", r, 1, 0, 0, "N") ELSE Rep("VecInc", r, 1, 1, 3, "N")
           [] fam = "Sym" -> IF st = "sized" THEN Rep("Sym", r, r, 0, 0, "N") ELSE Rep("SymView", r, r, 1, 0, "N")
           [] fam = "Tri" -> IF st = "sized" THEN Rep(IF upper THEN "TriU" ELSE "TriL", r, r, 0, 0, "N")
                             ELSE Rep(IF upper THEN "TriUView" ELSE "TriLView", r, r, 1, 0, "N")
           [] fam = "Diag" -> IF st = "sized" THEN Rep("Diag", r, r, 0, 0, "N") ELSE Rep("DiagOfDense", r, r, 0, 1, "N")
\* slots of the receiver's own window (a rectangle of its parent); everything else is the frame
WindowSlots(rep) ==
    CASE rep.kind \in {"DenseView", "VecInc"} -> {Slot(rep, i, j) : i \in 1 .. rep.r, j \in 1 .. rep.c}
      [] rep.kind \in {"SymView", "TriUView", "TriLView"} ->
            {(i - 1 + rep.p) * (rep.r + rep.p + 1) + j + rep.p : i \in 1 .. rep.r, j \in 1 .. rep.r}
      [] rep.kind = "DiagOfDense" -> {Slot(rep, i, i) : i \in 1 .. rep.r}    \* a diagonal view owns its diagonal only
      [] OTHER -> 1 .. StoreLen(rep)

(************************************ cases ************************************)
\* a case descriptor
Desc(op, args, n1, n2, rs, rr, rc, up) ==
    [op |-> op, args |-> args, n1 |-> n1, n2 |-> n2, rs |-> rs, rr |-> rr, rc |-> rc, up |-> up]

InShard(args, extra) == ((HS(args) + extra) % NShards) = Shard
\* (H2 of the first operand takes part: HS of a one-operand tuple is a multiple of 3, so inside one shard
\* HS \div NShards alone is constant mod 3 and the receiver state would be a function of n1 and the seed only)
RSFor(args, extra) == IF AllRS THEN (IF Refill THEN {1, 2, 3, 4} ELSE {1, 2, 3}) ELSE {1 + ((HS(args) \div NShards + H2(args[1][1]) + extra + Seed) % 3)}

\* receiver shape: the result shape, or (for sized / view receivers) deliberately wrong shapes
\* wrong = 1: one more row
\* n2 > 0: a non-empty receiver of the wrong shape (one row / one column too many): a shape panic is demanded.
\* Copy-like operations accept any receiver shape.
AnyShapeOps == {"Copy", "CopyVec", "CopySym", "CopyTri", "CloneFrom", "CloneFromVec"}
N2For(op, ha, s) ==
    IF s \in {1, 4} \/ op \in AnyShapeOps \/ Family(op) = "Func" \/ (HS(ha) \div 7) % 4 # 0 THEN {0}
    ELSE IF Family(op) = "Dense" THEN {0, 1 + (HS(ha) % 2)} ELSE {0, 1}
With(op, argsSet, n1s, r(_), c(_), up(_)) ==
    UNION {UNION {UNION {{LET a == Strip(ha) IN
                          Desc(op, a, n1, n2, RStates[s], r(a) + (IF n2 = 1 THEN 1 ELSE 0), c(a) + (IF n2 = 2 THEN 1 ELSE 0), up(a)) :
                            n2 \in N2For(op, ha, s)} : s \in RSFor(ha, n1)} : n1 \in n1s} :
             ha \in {x \in argsSet : InShard(x, 0)}}

D1(x) == DimsW(x)[1]
D2(x) == DimsW(x)[2]
Alphas == {2, 0 - 1}

\* pairs of shapes
Shapes == N1 \X N1
SP == Shapes \X Shapes
MM(S) == UNION {Hd(MatReps(x[1][1], x[1][2])) \X Hd(MatReps(x[2][1], x[2][2])) : x \in S}
NK == N1 \X N1
MismCasesOf(op) ==
    LET r(a) == D1(a[1])  c(a) == D2(a[1])  u(a) == TRUE  rv(a) == D1(a[1])  c1(a) == 1 IN
    CASE op \in {"Add", "Sub", "MulElem", "Equal", "EqualApprox"} -> With(op, MM({x \in SP : x[1] # x[2]}), {0}, r, c, u)
      [] op = "Mul" -> With(op, MM({x \in SP : x[2][1] # x[1][2]}), {0}, r, c, u)
      [] op = "Stack" -> With(op, MM({x \in SP : x[2][2] # x[1][2]}), {0}, r, c, u)
      [] op = "Augment" -> With(op, MM({x \in SP : x[2][1] # x[1][1]}), {0}, r, c, u)
      [] op = "MulVec" ->
            With(op, UNION {Hd(MatReps(x[1][1], x[1][2])) \X Hd(VecReps(x[2])) : x \in {y \in Shapes \X N1 : y[2] # y[1][2]}}, {0}, rv, c1, u)
      [] op \in {"AddVec", "SubVec", "MulElemVec", "Dot"} ->
            With(op, UNION {Hd(VecReps(x[1])) \X Hd(VecReps(x[2])) : x \in {y \in NK : y[1] # y[2]}}, {0}, rv, c1, u)
      [] op = "AddSym" ->
            With(op, UNION {Hd(SymReps(x[1])) \X Hd(SymReps(x[2])) : x \in {y \in NK : y[1] # y[2]}}, {0}, r, c, u)
      [] op = "SymRankOne" ->
            With(op, UNION {Hd(SymReps(x[1])) \X Hd(VecReps(x[2])) : x \in {y \in NK : y[1] # y[2]}}, {2}, r, c, u)
      [] op \in {"Trace", "Pow"} ->
            With(op, UNION {{<<x>> : x \in Hd(MatReps(p[1], p[2]))} : p \in {x \in Shapes : x[1] # x[2]}}, {2}, r, c, u)
      [] op = "RankOne" ->
            With(op, UNION {Hd(MatReps(x[1][1], x[1][2])) \X Hd(VecReps(x[2])) \X Hd(VecReps(x[1][2])) : x \in {y \in Shapes \X N1 : y[2] # y[1][1]}}, {2}, r, c, u)
      [] OTHER -> {}

NormalCasesOf(op) ==
    CASE op \in {"Add", "Sub", "MulElem"} ->
            LET r(a) == D1(a[1])  c(a) == D2(a[1])  u(a) == TRUE IN
            With(op, UNION {Hd(MatReps(i, j)) \X Hd(MatReps(i, j)) : i \in N1, j \in N1}, {0}, r, c, u)
      [] op = "Mul" ->
            LET r(a) == D1(a[1])  c(a) == D2(a[2])  u(a) == TRUE IN
            With(op, UNION {Hd(MatReps(i, k)) \X Hd(MatReps(k, j)) : i \in N1, j \in N1, k \in N1}, {0}, r, c, u)
      [] op \in {"Scale"} ->
            LET r(a) == D1(a[1])  c(a) == D2(a[1])  u(a) == TRUE IN
            With(op, UNION {{<<x>> : x \in Hd(MatReps(i, j))} : i \in N1, j \in N1}, Alphas, r, c, u)
      [] op \in {"Apply", "CloneFrom"} ->
            LET r(a) == D1(a[1])  c(a) == D2(a[1])  u(a) == TRUE IN
            With(op, UNION {{<<x>> : x \in Hd(MatReps(i, j))} : i \in N1, j \in N1}, {0}, r, c, u)
      [] op = "Copy" ->     \* receiver shape differs from the operand's: n1 in 0..3 picks it
            LET r(a) == Max2(1, D1(a[1]) - 1 + (H2(a[1]) % 3))  c(a) == Max2(1, D2(a[1]) - 1 + ((H2(a[1]) \div 3) % 3))  u(a) == TRUE IN
            With(op, UNION {{<<x>> : x \in Hd(MatReps(i, j))} : i \in N1, j \in N1}, {0}, r, c, u)
      [] op = "Stack" ->
            LET r(a) == D1(a[1]) + D1(a[2])  c(a) == D2(a[1])  u(a) == TRUE IN
            With(op, UNION {Hd(MatReps(i, j)) \X Hd(MatReps(k, j)) : i \in N1, j \in N1, k \in N1}, {0}, r, c, u)
      [] op = "Augment" ->
            LET r(a) == D1(a[1])  c(a) == D2(a[1]) + D2(a[2])  u(a) == TRUE IN
            With(op, UNION {Hd(MatReps(i, j)) \X Hd(MatReps(i, k)) : i \in N1, j \in N1, k \in N1}, {0}, r, c, u)
      [] op = "Kronecker" ->
            LET r(a) == D1(a[1]) * D1(a[2])  c(a) == D2(a[1]) * D2(a[2])  u(a) == TRUE
                S == 1 .. Min2(MaxN, 2) IN
            With(op, UNION {Hd(MatReps(i, j)) \X Hd(MatReps(k, l)) : i \in S, j \in N1, k \in N1, l \in S}, {0}, r, c, u)
      [] op = "Pow" ->
            LET r(a) == D1(a[1])  c(a) == D2(a[1])  u(a) == TRUE IN
            With(op, UNION {{<<x>> : x \in Hd(MatReps(i, i))} : i \in N1}, 0 .. 5, r, c, u)
      [] op = "RankOne" ->
            LET r(a) == D1(a[1])  c(a) == D2(a[1])  u(a) == TRUE IN
            With(op, UNION {Hd(MatReps(i, j)) \X Hd(VecReps(i)) \X Hd(VecReps(j)) : i \in N1, j \in N1}, {2}, r, c, u)
      [] op = "Outer" ->
            LET r(a) == D1(a[1])  c(a) == D1(a[2])  u(a) == TRUE IN
            With(op, UNION {Hd(VecReps(i)) \X Hd(VecReps(j)) : i \in N1, j \in N1}, Alphas, r, c, u)
      [] op = "Product" ->
            LET r(a) == D1(a[1])  c(a) == D2(a[3])  u(a) == TRUE
                S == 1 .. Min2(MaxN, 2) IN
            With(op, UNION {Hd(MatReps(i, k)) \X Hd(MatReps(k, l)) \X Hd(MatReps(l, j)) : i \in S, j \in S, k \in {MaxN}, l \in S}, {0}, r, c, u)
      [] op = "Product1" ->
            LET r(a) == D1(a[1])  c(a) == D2(a[1])  u(a) == TRUE IN
            With(op, UNION {{<<x>> : x \in Hd(MatReps(i, j))} : i \in N1, j \in N1}, {0}, r, c, u)
      [] op = "Product2" ->
            LET r(a) == D1(a[1])  c(a) == D2(a[2])  u(a) == TRUE
                S == 1 .. Min2(MaxN, 2) IN
            With(op, UNION {Hd(MatReps(i, k)) \X Hd(MatReps(k, j)) : i \in S, j \in S, k \in N1}, {0}, r, c, u)
      [] op = "Product4" ->     \* four factors from a reduced set of representations, three dimension chains
            LET r(a) == D1(a[1])  c(a) == D2(a[4])  u(a) == TRUE
                Lite(i, j) == Hd({x \in MatReps(i, j) : x.kind \in {"Dense", "Basic", "Sym", "TriL", "Band", "Diag", "Vec", "Tridiag"} /\ x.tw \in {"N", "T"}})
            IN With(op, UNION {Lite(d[1], d[2]) \X Lite(d[2], d[3]) \X Lite(d[3], d[4]) \X Lite(d[4], d[5]) :
                                 d \in {<<2, 1, 2, 2, 1>>, <<1, 2, 2, 1, 2>>, <<2, 2, 2, 2, 2>>}}, {0}, r, c, u)
      [] op = "MulVec" ->
            LET r(a) == D1(a[1])  c(a) == 1  u(a) == TRUE IN
            With(op, UNION {Hd(MatReps(i, j)) \X Hd(VecReps(j)) : i \in N1, j \in N1}, {0}, r, c, u)
      [] op \in {"AddVec", "SubVec", "MulElemVec"} ->
            LET r(a) == D1(a[1])  c(a) == 1  u(a) == TRUE IN
            With(op, UNION {Hd(VecReps(i)) \X Hd(VecReps(i)) : i \in N1}, {0}, r, c, u)
      [] op = "AddScaledVec" ->
            LET r(a) == D1(a[1])  c(a) == 1  u(a) == TRUE IN
            With(op, UNION {Hd(VecReps(i)) \X Hd(VecReps(i)) : i \in N1}, Alphas, r, c, u)
      [] op = "ScaleVec" ->
            LET r(a) == D1(a[1])  c(a) == 1  u(a) == TRUE IN
            With(op, UNION {{<<x>> : x \in Hd(VecReps(i))} : i \in N1}, Alphas, r, c, u)
      [] op = "CloneFromVec" ->
            LET r(a) == D1(a[1])  c(a) == 1  u(a) == TRUE IN
            With(op, UNION {{<<x>> : x \in Hd(VecReps(i))} : i \in N1}, {0}, r, c, u)
      [] op = "CopyVec" ->
            LET r(a) == Max2(1, D1(a[1]) - 1 + (H2(a[1]) % 3))  c(a) == 1  u(a) == TRUE IN
            With(op, UNION {{<<x>> : x \in Hd(VecReps(i))} : i \in N1}, {0}, r, c, u)
      [] op = "AddSym" ->
            LET r(a) == D1(a[1])  c(a) == D1(a[1])  u(a) == TRUE IN
            With(op, UNION {Hd(SymReps(i)) \X Hd(SymReps(i)) : i \in N1}, {0}, r, c, u)
      [] op = "ScaleSym" ->
            LET r(a) == D1(a[1])  c(a) == D1(a[1])  u(a) == TRUE IN
            With(op, UNION {{<<x>> : x \in Hd(SymReps(i))} : i \in N1}, Alphas, r, c, u)
      [] op = "CopySym" ->
            LET r(a) == Max2(1, D1(a[1]) - 1 + (H2(a[1]) % 3))  c(a) == r(a)  u(a) == TRUE IN
            With(op, UNION {{<<x>> : x \in Hd(SymReps(i))} : i \in N1}, {0}, r, c, u)
      [] op = "SymRankOne" ->
            LET r(a) == D1(a[1])  c(a) == D1(a[1])  u(a) == TRUE IN
            With(op, UNION {Hd(SymReps(i)) \X Hd(VecReps(i)) : i \in N1}, Alphas, r, c, u)
      [] op = "RankTwo" ->
            LET r(a) == D1(a[1])  c(a) == D1(a[1])  u(a) == TRUE IN
            With(op, UNION {Hd(SymReps(i)) \X Hd(VecReps(i)) \X Hd(VecReps(i)) : i \in N1}, {2}, r, c, u)
      [] op = "SymRankK" ->
            LET r(a) == D1(a[1])  c(a) == D1(a[1])  u(a) == TRUE IN
            With(op, UNION {Hd(SymReps(i)) \X Hd(MatReps(i, k)) : i \in N1, k \in N1}, {2}, r, c, u)
      [] op = "SymOuterK" ->
            LET r(a) == D1(a[1])  c(a) == D1(a[1])  u(a) == TRUE IN
            With(op, UNION {{<<x>> : x \in Hd(MatReps(i, k))} : i \in N1, k \in N1}, Alphas, r, c, u)
      [] op = "ScaleTri" ->
            LET r(a) == D1(a[1])  c(a) == D1(a[1])  u(a) == IsUpper(a[1]) IN
            With(op, UNION {{<<x>> : x \in Hd(TriReps(i))} : i \in N1}, Alphas, r, c, u)
      [] op = "MulTri" ->   \* both operands of the same triangle kind
            LET r(a) == D1(a[1])  c(a) == D1(a[1])  u(a) == IsUpper(a[1]) IN
            With(op, UNION {{xy \in Hd(TriReps(i)) \X Hd(TriReps(i)) : IsUpper(xy[1][1]) = IsUpper(xy[2][1])} : i \in N1}, {0}, r, c, u)
      [] op = "CopyTri" ->  \* TriDense.Copy(a Matrix): the receiver's triangle of a is copied
            LET r(a) == Max2(1, D1(a[1]) - 1 + (H2(a[1]) % 3))  c(a) == r(a)  u(a) == ((H2(a[1]) \div 9) % 2) = 0 IN
            With(op, UNION {{<<x>> : x \in Hd(MatReps(i, j))} : i \in N1, j \in N1}, {0}, r, c, u)
      [] op = "DiagFrom" ->
            LET r(a) == Min2(D1(a[1]), D2(a[1]))  c(a) == r(a)  u(a) == TRUE IN
            With(op, UNION {{<<x>> : x \in Hd(MatReps(i, j))} : i \in N1, j \in N1}, {0}, r, c, u)
      [] op = "DivElem" ->
            LET r(a) == D1(a[1])  c(a) == D2(a[1])  u(a) == TRUE IN
            With(op, UNION {Hd({x \in MatReps(i, j) : x.kind # "Chol"}) \X Hd(FullReps(i, j)) : i \in N1, j \in N1}, {0}, r, c, u)
      [] op = "DivElemVec" ->
            LET r(a) == D1(a[1])  c(a) == 1  u(a) == TRUE IN
            With(op, UNION {Hd(VecReps(i)) \X Hd(VecReps(i)) : i \in N1}, {0}, r, c, u)
      [] op = "MulVecTo" ->
            LET r(a) == IF a[1].kind = "Band" THEN a[1].r ELSE a[1].r  c(a) == 1  u(a) == TRUE IN
            With(op, UNION {Hd(MulVecToReps(i, j)) \X Hd(VecReps(j)) : i \in N1, j \in N1}, {0}, r, c, u)
            \cup (LET r2(a) == a[1].c IN
                  With(op, UNION {Hd(MulVecToReps(i, j)) \X Hd(VecReps(i)) : i \in N1, j \in N1}, {1}, r2, c, u))
      [] op = "Inverse" ->
            LET r(a) == D1(a[1])  c(a) == D1(a[1])  u(a) == TRUE IN
            With(op, UNION {{<<x>> : x \in Hd(UnitReps(i))} : i \in N1}, {0}, r, c, u)
      [] op = "InverseTri" ->
            LET r(a) == D1(a[1])  c(a) == D1(a[1])  u(a) == IsUpper(a[1]) IN
            With(op, UNION {{<<x>> : x \in Hd(TriReps(i))} : i \in N1}, {0}, r, c, u)
      [] op = "Det" ->
            LET r(a) == 0  c(a) == 0  u(a) == TRUE IN
            With(op, UNION {{<<x>> : x \in Hd(UnitReps(i))} : i \in N1}, {0}, r, c, u)
      [] op = "Solve" ->
            LET r(a) == D1(a[1])  c(a) == D2(a[2])  u(a) == TRUE IN
            With(op, UNION {Hd(UnitReps(i)) \X Hd(MatReps(i, k)) : i \in N1, k \in N1}, {0}, r, c, u)
      [] op = "SolveVec" ->
            LET r(a) == D1(a[1])  c(a) == 1  u(a) == TRUE IN
            With(op, UNION {Hd(UnitReps(i)) \X Hd(VecReps(i)) : i \in N1}, {0}, r, c, u)
      [] op = "SolveTo" ->
            LET r(a) == D1(a[1])  c(a) == D2(a[2])  u(a) == TRUE IN
            With(op, UNION {Hd(SolveToReps(i)) \X Hd(MatReps(i, k)) : i \in N1, k \in N1}, {0, 1}, r, c, u)
      [] op = "SolveVecTo" ->
            LET r(a) == D1(a[1])  c(a) == 1  u(a) == TRUE IN
            With(op, UNION {Hd(SolveVecToReps(i)) \X Hd(VecReps(i)) : i \in N1}, {0, 1}, r, c, u)
      [] op \in {"Sum", "Max", "Min", "Norm1", "NormInf"} ->
            LET r(a) == 0  c(a) == 0  u(a) == TRUE IN
            With(op, UNION {{<<x>> : x \in Hd(MatReps(i, j))} : i \in N1, j \in N1}, {0}, r, c, u)
      [] op = "Trace" ->
            LET r(a) == 0  c(a) == 0  u(a) == TRUE IN
            With(op, UNION {{<<x>> : x \in Hd(MatReps(i, i))} : i \in N1}, {0}, r, c, u)
      [] op = "Equal" ->
            LET r(a) == 0  c(a) == 0  u(a) == TRUE IN
            With(op, UNION {Hd(MatReps(i, j)) \X Hd(MatReps(i, j)) : i \in N1, j \in N1}, {0, 1}, r, c, u)
      [] op = "EqualApprox" ->
            LET r(a) == 0  c(a) == 0  u(a) == TRUE IN
            With(op, UNION {Hd(MatReps(i, j)) \X Hd(MatReps(i, j)) : i \in N1, j \in N1}, 0 .. 3, r, c, u)
      [] op = "Dot" ->
            LET r(a) == 0  c(a) == 0  u(a) == TRUE IN
            With(op, UNION {Hd(VecReps(i)) \X Hd(VecReps(i)) : i \in N1}, {0}, r, c, u)
      [] op = "Inner" ->
            LET r(a) == 0  c(a) == 0  u(a) == TRUE IN
            With(op, UNION {Hd(VecReps(i)) \X Hd(MatReps(i, j)) \X Hd(VecReps(j)) : i \in N1, j \in N1}, {0}, r, c, u)
      [] op \in {"Row", "Col"} ->
            LET r(a) == 0  c(a) == 0  u(a) == TRUE IN
            With(op, UNION {{<<x>> : x \in Hd(MatReps(i, j))} : i \in N1, j \in N1}, 0 .. MaxN - 1, r, c, u)

(* Stage "refill".  Several methods fill the receiver through a path of their own instead of the general
   kernel: Pow(a, 0) writes the identity, Pow(a, 1) copies, Pow(a, 2) is one Mul, Scale(0, a) and Scale(1, a)
   are degenerate scalings, the Copy family writes a corner of the receiver, MulTri of two diagonal factors
   zeroes the receiver and sets its diagonal, DiagFrom reads one diagonal.  Such a path is where a receiver
   that is a VIEW (stride > columns, junk between its rows) or that holds old content is most easily
   mistreated, and the sampled grid above meets each (parameter, receiver state) pair only for some seeds.
   This stage is not sampled: every operation of the list x every parameter that selects a special path
   x EVERY receiver state (it is run with AllRS) x a reduced set of operand representations x shapes. *)
LiteKinds == {"Dense", "DenseView", "Basic", "Sym", "TriU", "TriL", "TriUView", "Band", "Diag", "DiagOfDense", "Tridiag",
              "Vec", "VecInc", "RowOfDense", "BasicVec", "TriBandU"}
LiteOf(S) == {x \in S : x[1].kind \in LiteKinds /\ x[1].tw \in {"N", "T", "TTri"}}
RefillCasesOf(op) ==
    LET r(a) == D1(a[1])  cc(a) == D2(a[1])  u(a) == TRUE  one(a) == 1  ut(a) == IsUpper(a[1])
        Sq == UNION {{<<x>> : x \in LiteOf(Hd(MatReps(i, i)))} : i \in N1}
        AnyM == UNION {{<<x>> : x \in LiteOf(Hd(MatReps(i, j)))} : i \in N1, j \in N1}
        Vecs == UNION {{<<x>> : x \in LiteOf(Hd(VecReps(i)))} : i \in N1}
        Syms == UNION {{<<x>> : x \in LiteOf(Hd(SymReps(i)))} : i \in N1}
        Tris == UNION {{<<x>> : x \in LiteOf(Hd(TriReps(i)))} : i \in N1}
        rcopy(a) == Max2(1, D1(a[1]) - 1 + (H2(a[1]) % 3))
        ccopy(a) == Max2(1, D2(a[1]) - 1 + ((H2(a[1]) \div 3) % 3))
        ucopy(a) == ((H2(a[1]) \div 9) % 2) = 0
        rdiag(a) == Min2(D1(a[1]), D2(a[1]))
    IN
    CASE op = "Pow" -> With(op, Sq, 0 .. 3, r, cc, u)
      [] op = "ExpZero" -> With(op, Sq, {0}, r, cc, u)
      [] op = "Scale" -> With(op, AnyM, {0, 1, 0 - 1}, r, cc, u)
      [] op \in {"Apply", "CloneFrom"} -> With(op, AnyM, {0}, r, cc, u)
      [] op = "Copy" -> With(op, AnyM, {0}, rcopy, ccopy, u)
      [] op = "ScaleVec" -> With(op, Vecs, {0, 1, 0 - 1}, r, one, u)
      [] op = "CloneFromVec" -> With(op, Vecs, {0}, r, one, u)
      [] op = "CopyVec" -> With(op, Vecs, {0}, rcopy, one, u)
      [] op = "ScaleSym" -> With(op, Syms, {0, 1, 0 - 1}, r, r, u)
      [] op = "CopySym" -> With(op, Syms, {0}, rcopy, rcopy, u)
      [] op = "ScaleTri" -> With(op, Tris, {0, 1, 0 - 1}, r, r, ut)
      [] op = "CopyTri" -> With(op, AnyM, {0}, rcopy, rcopy, ucopy)
      [] op = "MulTri" ->
            With(op, UNION {{xy \in LiteOf(Hd(TriReps(i))) \X LiteOf(Hd(TriReps(i))) : IsUpper(xy[1][1]) = IsUpper(xy[2][1])} : i \in N1},
                 {0}, r, r, ut)
      [] op = "DiagFrom" -> With(op, AnyM, {0}, rdiag, rdiag, u)
      [] OTHER -> {}

Cases == UNION {IF Refill THEN RefillCasesOf(op) ELSE IF Mism THEN MismCasesOf(op) ELSE NormalCasesOf(op) : op \in Ops}

(******************************* the printed case *******************************)
\* data salt of operand position k.  Equal with n1 = 1 compares two operands holding the SAME formula
\* data (so that the answer TRUE is exercised whenever both structures can hold it)
SaltOf(d, k) == IF d.op \in {"Equal", "EqualApprox"} /\ d.n1 % 2 = 1 THEN Seed ELSE Seed * 4 + k
UnitOps == {"Inverse", "InverseTri", "Det", "Solve", "SolveVec", "SolveTo", "SolveVecTo"}
UnitMode(x) == IF x.kind \in UpperKinds THEN "unitU" ELSE IF x.kind \in LowerKinds THEN "unitL"
               ELSE IF H(x) % 2 = 0 THEN "unitU" ELSE "unitL"
Mode(d, k) == CASE d.op \in {"DivElem", "DivElemVec"} -> IF k = 1 THEN "x4" ELSE "pow2"
                [] d.op = "ExpZero" -> "zero"
                [] d.op \in UnitOps /\ k = 1 -> UnitMode(d.args[1])
                [] OTHER -> "plain"
ArgStore(d, k) == StoreOfM(d.args[k], SaltOf(d, k), Mode(d, k))
ArgAbs(d, k) == Abs(d.args[k], ArgStore(d, k))

RecvOf(d) == IF Family(d.op) = "Func" THEN NoRep ELSE RecvRep(Family(d.op), d.rs, d.rr, d.rc, d.up)
RecvMask(d) == IF RecvOf(d).kind = "None" THEN <<>>
               ELSE LET w == WindowSlots(RecvOf(d)) IN [s \in 1 .. StoreLen(RecvOf(d)) |-> IF s \in w THEN 1 ELSE 0]

\* TriDense.Copy copies only the receiver's triangle of the operand: the demanded result is the
\* receiver's triangle of the copy, zero elsewhere (what At shows of a triangular matrix)
TriPart(M, upper) == LET f(i, j) == IF (upper /\ i <= j) \/ (~upper /\ i >= j) THEN M[i][j] ELSE 0 IN Mk(Rows(M), Cols(M), f)

\* the result of a symmetric / triangular receiver is symmetric / triangular (sanity of the demand itself)
WellTyped(d, e, X) ==
    /\ d.op \in {"DivElem", "DivElemVec"} => DivExact(X[1], X[2])
    /\ d.op \in UnitOps => Unimodular(X[1])
    /\ d.op = "EqualApprox" => \A k \in 1 .. 2 : \A i \in 1 .. Rows(X[k]), j \in 1 .. Cols(X[k]) : AbsI(X[k][i][j]) < 128
    /\ e.panic \/ e.rows = <<>>
       \/ CASE Family(d.op) = "Sym" -> IsSym(e.rows)
         [] Family(d.op) = "Tri" -> e.rows = TriPart(e.rows, d.up)
         [] Family(d.op) = "Vec" -> Cols(e.rows) = 1
         [] Family(d.op) = "Diag" -> \A i \in 1 .. Rows(e.rows), j \in 1 .. Cols(e.rows) : i # j => e.rows[i][j] = 0
         [] OTHER -> TRUE

\* everything the harness needs, with every backing array evaluated once
Printed(d) ==
    LET st == [k \in 1 .. Len(d.args) |-> ArgStore(d, k)]
        X  == [k \in 1 .. Len(d.args) |-> Abs(d.args[k], st[k])]
        rr == RecvOf(d)
        rs == IF rr.kind = "None" THEN <<>> ELSE StoreOf(rr, Seed * 4 + 9)
        R  == IF rr.kind = "None" \/ d.rs = "reset" THEN <<>> ELSE Abs(rr, rs)
        e0 == Demand(d.op, X, R, d.n1, d.n2)
        e  == IF d.op = "CopyTri" /\ ~e0.panic /\ e0.rows # <<>> THEN [e0 EXCEPT !.rows = TriPart(e0.rows, d.up)] ELSE e0
    IN [op |-> d.op, n1 |-> d.n1, n2 |-> d.n2, rs |-> d.rs, up |-> d.up,
        args |-> [k \in 1 .. Len(d.args) |-> [rep |-> d.args[k], store |-> st[k]]],
        recv |-> [rep |-> rr, store |-> rs, mask |-> RecvMask(d)],
        exp |-> e, ok |-> WellTyped(d, e, X)]

VARIABLE c
Init == c \in Cases
Next == UNCHANGED c
Spec == Init /\ [][Next]_c

Emit == LET pr == Printed(c) IN pr.ok /\ PrintT(ToJson(pr))
=============================================================================
