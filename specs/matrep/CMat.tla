-------------------------------- MODULE CMat --------------------------------
(* Complex matrices of gonum/mat (CDense and the CMatrix wrappers) over the   *)
(* Gaussian integers (property C04, complex counterparts).                    *)
(*                                                                            *)
(* A complex number is a pair <<re, im>> of integers; an abstract complex     *)
(* matrix is a sequence of rows of such pairs - what Dims and At expose.      *)
(* Representations: CDense built by NewCDense, a strided view of a larger     *)
(* CDense (Slice), a CDense given its storage through SetRawCMatrix with a    *)
(* stride larger than its width, and a user type exposing only the CMatrix    *)
(* interface; each under the wrappers returned by H() (ConjTranspose), T()    *)
(* (CTranspose) and their compositions.  The module defines element access at *)
(* every index (documented panics), the wrapper algebra (H, T,                *)
(* UnConjTranspose, Untranspose), Conj, Copy, Grow, Slice, Reset / ReuseAs,   *)
(* Zero, Caps, IsEmpty, RawCMatrix, CEqual and CEqualApprox, views of views   *)
(* (Slice / Grow of a Slice against the capacity left in the parent), and prints *)
(* scripts (see MatObj.tla) that the harness interprets against the real code. *)
EXTENDS Integers, Sequences, FiniteSets, TLC, Json

CONSTANTS Ops, MaxN, Seed

N1 == 1 .. MaxN
Min2(a, b) == IF a < b THEN a ELSE b
Max2(a, b) == IF a < b THEN b ELSE a
AbsI(a) == IF a < 0 THEN 0 - a ELSE a

(***************************** Gaussian integers ******************************)
CConj(z) == <<z[1], 0 - z[2]>>
CSub(a, b) == <<a[1] - b[1], a[2] - b[2]>>
CAdd(a, b) == <<a[1] + b[1], a[2] + b[2]>>
Mod2(z) == z[1] * z[1] + z[2] * z[2]         \* |z|^2
Zero2 == <<0, 0>>
W7 == <<7, 0 - 9>>                           \* the value written by Set

Rows(A) == Len(A)
Cols(A) == Len(A[1])
Mk(r, c, f(_, _)) == [i \in 1 .. r |-> [j \in 1 .. c |-> f(i, j)]]
ZeroM(r, c) == LET f(i, j) == Zero2 IN Mk(r, c, f)
\* the four things a stack of H / T wrappers can do to a matrix
Tr(A) == LET f(i, j) == A[j][i] IN Mk(Cols(A), Rows(A), f)
Cj(A) == LET f(i, j) == CConj(A[i][j]) IN Mk(Rows(A), Cols(A), f)

(******************************* representations ******************************)
Kinds == {"CDense", "CView", "CRaw", "CBasic"}
Mutable == {"CDense", "CView", "CRaw"}
\* wrapper stacks, outermost method last applied: "H" = m.H(), "T" = m.T(), "HT" = m.H().T(), "TH" = m.T().H()
Tws == {"N", "H", "T", "HT", "TH"}
Rep(kind, r, c, p, q, tw) == [kind |-> kind, r |-> r, c |-> c, p |-> p, q |-> q, tw |-> tw]
ParentCols(x) == CASE x.kind = "CView" -> x.c + x.q + 1 [] x.kind = "CRaw" -> x.c + 1 [] OTHER -> x.c
ParentRows(x) == IF x.kind = "CView" THEN x.r + x.p + 1 ELSE x.r
Off(x) == IF x.kind = "CView" THEN <<x.p, x.q>> ELSE <<0, 0>>
StoreLen(x) == ParentRows(x) * ParentCols(x)
Slot(x, i, j) == (i - 1 + Off(x)[1]) * ParentCols(x) + j + Off(x)[2]
\* capacity: what is left of the parent below / right of the corner (SetRawCMatrix: the given size)
CapOf(x) == IF x.kind = "CRaw" THEN <<x.r, x.c>> ELSE <<ParentRows(x) - Off(x)[1], ParentCols(x) - Off(x)[2]>>
Window(x) == {Slot(x, i, j) : i \in 1 .. x.r, j \in 1 .. x.c}
Canary(s) == <<50 + s, 0 - 50 - s>>
Fill(salt, i, j) == <<((3 * i + 5 * j + i * j + 7 * salt) % 9) - 4, ((5 * i + 2 * j + 3 * i * j + 4 * salt) % 9) - 4>>
\* backing array realising base matrix B
StoreBase(x, B) == [s \in 1 .. StoreLen(x) |->
                      IF s \in Window(x) THEN LET ij == CHOOSE ij \in (1 .. x.r) \X (1 .. x.c) : Slot(x, ij[1], ij[2]) = s IN B[ij[1]][ij[2]]
                      ELSE Canary(s)]
AbsBase(x, s) == LET f(i, j) == s[Slot(x, i, j)] IN Mk(x.r, x.c, f)
Wrap(tw, B) == CASE tw = "N" -> B [] tw = "T" -> Tr(B) [] tw = "H" -> Cj(Tr(B)) [] OTHER -> Cj(B)
Abs(x, s) == Wrap(x.tw, AbsBase(x, s))
DimsW(x) == IF x.tw \in {"T", "H"} THEN <<x.c, x.r>> ELSE <<x.r, x.c>>
\* the wrappers are involutions: the base matrix that denotes A under wrapper tw
Unwrap(tw, A) == Wrap(tw, A)
StoreOfAbs(x, A) == StoreBase(x, Unwrap(x.tw, A))
DataM(r, c, salt) == LET f(i, j) == Fill(salt, i, j) IN Mk(r, c, f)
StoreOf(x, salt) == StoreBase(x, DataM(x.r, x.c, salt))
AllMask(x) == [s \in 1 .. StoreLen(x) |-> 1]

Params(kind) == IF kind = "CView" THEN {<<0, 1>>, <<1 + (Seed % 2), 2 - (Seed % 2)>>} ELSE {<<0, 0>>}
RepsOf(kinds, tws) == UNION {UNION {{Rep(k, r, c, pq[1], pq[2], tw) : r \in N1, c \in N1, tw \in tws} : pq \in Params(k)} : k \in kinds}
\* every representation whose denotation has shape r x c
Denoting(r, c, kinds, tws) == {x \in RepsOf(kinds, tws) : DimsW(x) = <<r, c>>}

(************************************ steps ************************************)
\* as in MatObj.tla; additionally: args = objects passed as arguments; cval = returned complex number;
\* sobj = the initial object whose backing array is demanded (store / mask)
Step(m, on, a) == [m |-> m, on |-> on, a |-> a, args |-> <<>>, errs |-> {}, ret |-> <<>>, cval |-> <<>>,
                   obs |-> 0, rows |-> <<>>, alt |-> <<>>, sobj |-> 0, store |-> <<>>, mask |-> <<>>]
\* objs: the initial objects <<[rep, store]>>; kind "Ref" with p = object number: the same Go value again
Obj(x, s) == [rep |-> x, store |-> s]
Case(op, objs, steps) == [op |-> op, objs |-> objs, steps |-> steps]
ZeroObj == Obj(Rep("CZero", 1, 1, 0, 0, "N"), <<>>)
Ref(k, tw) == Obj(Rep("Ref", 1, 1, k, 0, tw), <<>>)
RowErr == {"ErrRowAccess", "ErrIndexOutOfRange"}
ColErr == {"ErrColAccess", "ErrIndexOutOfRange"}
B2I(b) == IF b THEN 1 ELSE 0

(******************************** element access *******************************)
AtCases ==
    {LET s == StoreOf(x, Seed)  A == Abs(x, s)  d == DimsW(x) IN
     Case("At", <<Obj(x, s)>>,
          [k \in 1 .. (d[1] + 2) * (d[2] + 2) |->
             LET i == ((k - 1) \div (d[2] + 2)) - 1  j == ((k - 1) % (d[2] + 2)) - 1
                 iBad == i < 0 \/ i >= d[1]  jBad == j < 0 \/ j >= d[2]
                 st == [Step("At", 0, <<i, j>>) EXCEPT !.store = s, !.mask = AllMask(x)]
             IN IF iBad \/ jBad
                THEN [st EXCEPT !.errs = IF x.tw # "N" THEN RowErr \cup ColErr
                                         ELSE (IF iBad THEN RowErr ELSE {}) \cup (IF jBad THEN ColErr ELSE {})]
                ELSE [st EXCEPT !.cval = A[i + 1][j + 1]]]) :
       x \in RepsOf(Kinds, Tws)}
SetCases ==
    UNION {LET s == StoreOf(x, Seed) IN
           {LET i == ij[1]  j == ij[2]
                iBad == i < 0 \/ i >= x.r  jBad == j < 0 \/ j >= x.c
                st == Step("Set", 0, <<i, j, W7[1], W7[2]>>)
            IN Case("Set", <<Obj(x, s)>>,
                    <<IF iBad \/ jBad
                      THEN [st EXCEPT !.errs = (IF iBad THEN RowErr ELSE {}) \cup (IF jBad THEN ColErr ELSE {}),
                                      !.rows = Abs(x, s), !.store = s, !.mask = AllMask(x)]
                      ELSE LET s2 == [s EXCEPT ![Slot(x, i + 1, j + 1)] = W7] IN
                           [st EXCEPT !.rows = Abs(x, s2), !.store = s2, !.mask = AllMask(x)]>>) :
              ij \in (0 - 1 .. x.r) \X (0 - 1 .. x.c)}
           : x \in RepsOf(Mutable, {"N"})}

(******************************* wrapper algebra *******************************)
\* A value is the base object inside a stack of wrappers (innermost first).  H(): on a ConjTranspose
\* returns what is inside, otherwise wraps in a ConjTranspose; T(): on a CTranspose returns what is
\* inside, otherwise wraps in a CTranspose; UnConjTranspose (ConjTranspose only) and Untranspose
\* (CTranspose only) return what is inside.
Top(st) == IF st = <<>> THEN "N" ELSE st[Len(st)]
Pop(st) == SubSeq(st, 1, Len(st) - 1)
Methods(st) == {"H", "T"} \cup (IF Top(st) = "H" THEN {"UnConjTranspose"} ELSE {}) \cup (IF Top(st) = "T" THEN {"Untranspose"} ELSE {})
After(st, m) == CASE m = "H" -> IF Top(st) = "H" THEN Pop(st) ELSE Append(st, "H")
                  [] m = "T" -> IF Top(st) = "T" THEN Pop(st) ELSE Append(st, "T")
                  [] OTHER -> Pop(st)
RECURSIVE Denote(_, _)
Denote(st, B) == IF st = <<>> THEN B ELSE LET I == Denote(Pop(st), B) IN IF Top(st) = "H" THEN Cj(Tr(I)) ELSE Tr(I)
ChainCases ==
    UNION {LET s == StoreOf(x, Seed + 1)  B == AbsBase(x, s)
               new(m, on, obs, rows) == [Step(m, on, <<>>) EXCEPT !.obs = obs, !.rows = rows, !.store = s, !.mask = AllMask(x)]
               dims(on, M) == [Step("Dims", on, <<>>) EXCEPT !.ret = <<Rows(M), Cols(M)>>]
           IN UNION {UNION {{LET s1 == After(<<>>, m1)  s2 == After(s1, m2)  s3 == After(s2, m3)  s4 == After(s3, m4) IN
                             Case("Chain", <<Obj(x, s)>>,
                                  <<new(m1, 0, 1, Denote(s1, B)), dims(1, Denote(s1, B)),
                                    new(m2, 1, 2, Denote(s2, B)), dims(2, Denote(s2, B)),
                                    new(m3, 2, 3, Denote(s3, B)), new(m4, 3, 4, Denote(s4, B))>>) :
                               m4 \in Methods(After(After(After(<<>>, m1), m2), m3))} :
                            m3 \in Methods(After(After(<<>>, m1), m2))} :
                      <<m1, m2>> \in {mm \in {"H", "T"} \X {"H", "T", "UnConjTranspose", "Untranspose"} : mm[2] \in Methods(After(<<>>, mm[1]))}}
           : x \in RepsOf(Kinds, {"N"})}

(************************************ Conj *************************************)
\* receiver states as in MatOps: zero value, sized with junk content, view into a larger canary-filled backing
Recv(st, r, c) == CASE st = "zero" -> ZeroObj
                    [] st = "sized" -> LET y == Rep("CDense", r, c, 0, 0, "N") IN Obj(y, StoreOf(y, Seed + 9))
                    [] OTHER -> LET y == Rep("CView", r, c, 1, 2, "N") IN Obj(y, StoreOf(y, Seed + 9))
RStates == {"zero", "sized", "view"}
ConjCases ==
    UNION {LET s == StoreOf(x, Seed + 2)  A == Abs(x, s)  d == DimsW(x) IN
           {LET rv == Recv(st, d[1] + dr, d[2])
                fits == st = "zero" \/ dr = 0
                step == [Step("Conj", 1, <<>>) EXCEPT !.args = <<0>>, !.obs = 1]
            IN Case("Conj", <<Obj(x, s), rv>>,
                    <<IF fits THEN [step EXCEPT !.rows = Cj(A)] ELSE [step EXCEPT !.errs = {"ErrShape"}],
                      \* the operand is not modified
                      [Step("Dims", 0, <<>>) EXCEPT !.ret = d, !.rows = A, !.store = s, !.mask = AllMask(x)],
                      \* the receiver's frame is untouched
                      IF st = "zero" THEN Step("Dims", 1, <<>>)
                      ELSE [Step("Dims", 1, <<>>) EXCEPT !.sobj = 1, !.store = rv.store,
                              !.mask = [t \in 1 .. StoreLen(rv.rep) |-> IF t \in Window(rv.rep) /\ fits THEN 0 ELSE 1]]>>) :
              st \in RStates, dr \in {0, 1}}
           : x \in RepsOf(Kinds, Tws)}
    \cup
    \* the operand is the receiver itself, possibly wrapped: m.Conj(m), m.Conj(m.H()), m.Conj(m.T()), m.Conj(m.H().T())
    UNION {LET s == StoreOf(x, Seed + 2)  B == AbsBase(x, s) IN
           {LET A == Wrap(tw, B)
                step == [Step("Conj", 0, <<>>) EXCEPT !.args = <<1>>, !.obs = 0]
            IN Case("ConjSelf", <<Obj(x, s), Ref(0, tw)>>,
                    <<IF Rows(A) = x.r /\ Cols(A) = x.c
                      THEN [step EXCEPT !.rows = Cj(A), !.store = StoreBase(x, Cj(A)), !.mask = AllMask(x)]
                      ELSE [step EXCEPT !.errs = {"ErrShape"}, !.rows = B, !.store = s, !.mask = AllMask(x)]>>) :
              tw \in Tws}
           : x \in RepsOf(Mutable, {"N"})}

(************************************ Copy *************************************)
\* "copies as much as the overlap between the two matrices and returns the number of rows and columns it copied"
CopyCases ==
    UNION {LET s == StoreOf(x, Seed + 3)  A == Abs(x, s)  d == DimsW(x) IN
           {LET rr == Max2(1, d[1] + dd[1])  rc == Max2(1, d[2] + dd[2])
                rv == Recv(st, rr, rc)
                R == AbsBase(rv.rep, rv.store)
                f(i, j) == IF i <= d[1] /\ j <= d[2] THEN A[i][j] ELSE R[i][j]
                R2 == Mk(rr, rc, f)
            IN IF st = "zero"
               THEN Case("Copy", <<Obj(x, s), rv>>, <<[Step("Copy", 1, <<>>) EXCEPT !.args = <<0>>, !.ret = <<0, 0>>]>>)
               ELSE Case("Copy", <<Obj(x, s), rv>>,
                         <<[Step("Copy", 1, <<>>) EXCEPT !.args = <<0>>, !.ret = <<Min2(rr, d[1]), Min2(rc, d[2])>>, !.obs = 1, !.rows = R2,
                              !.sobj = 1, !.store = StoreBase(rv.rep, R2), !.mask = AllMask(rv.rep)],
                           [Step("Dims", 0, <<>>) EXCEPT !.ret = d, !.rows = A, !.store = s, !.mask = AllMask(x)]>>) :
              st \in RStates, dd \in {<<0, 0>>, <<0 - 1, 1>>, <<1, 0 - 1>>, <<1, 1>>}}
           : x \in RepsOf(Kinds, Tws)}

(************************** Zero, Reset, ReuseAs, Caps **************************)
ShapeCases ==
    UNION {LET s == StoreOf(x, Seed + 4)  B == AbsBase(x, s)  Z == ZeroM(x.r, x.c) IN
           {Case("Zero", <<Obj(x, s)>>,
                 <<[Step("Caps", 0, <<>>) EXCEPT !.ret = CapOf(x)],
                   [Step("IsEmpty", 0, <<>>) EXCEPT !.ret = <<0>>],
                   [Step("RawCMatrix", 0, <<>>) EXCEPT !.ret = <<x.r, x.c, ParentCols(x)>>],
                   [Step("Zero", 0, <<>>) EXCEPT !.rows = Z, !.store = StoreBase(x, Z), !.mask = AllMask(x)]>>)}
           \cup (IF x.kind # "CDense" THEN {} ELSE
                 {LET need == sh[1] * sh[2]  fits == need <= Len(s)
                      s2 == IF fits THEN [t \in 1 .. Len(s) |-> IF t <= need THEN Zero2 ELSE s[t]] ELSE s
                      s3 == IF fits THEN [s2 EXCEPT ![1] = W7] ELSE s
                      Z2 == ZeroM(sh[1], sh[2])
                  IN Case("Reset", <<Obj(x, s)>>,
                          <<Step("Reset", 0, <<>>),
                            [Step("IsEmpty", 0, <<>>) EXCEPT !.ret = <<1>>],
                            [Step("Dims", 0, <<>>) EXCEPT !.ret = <<0, 0>>],
                            [Step("ReuseAs", 0, sh) EXCEPT !.rows = Z2, !.store = s2, !.mask = AllMask(x)],
                            [Step("Set", 0, <<0, 0, W7[1], W7[2]>>) EXCEPT !.rows = [Z2 EXCEPT ![1][1] = W7], !.store = s3, !.mask = AllMask(x)],
                            [Step("ReuseAs", 0, sh) EXCEPT !.errs = {"ErrReuseNonEmpty"}, !.store = s3, !.mask = AllMask(x)]>>) :
                    sh \in N1 \X (1 .. MaxN + 1)})
           : x \in RepsOf(Mutable, {"N"})}
    \cup {LET bad == sh[1] < 1 \/ sh[2] < 1 IN
          Case("ZeroValue", <<ZeroObj>>,
               <<[Step("IsEmpty", 0, <<>>) EXCEPT !.ret = <<1>>],
                 [Step("Dims", 0, <<>>) EXCEPT !.ret = <<0, 0>>],
                 IF bad THEN [Step("ReuseAs", 0, sh) EXCEPT !.errs = {"ErrZeroLength", "ErrNegativeDimension"}]
                 ELSE [Step("ReuseAs", 0, sh) EXCEPT !.rows = ZeroM(sh[1], sh[2])],
                 [Step("IsEmpty", 0, <<>>) EXCEPT !.ret = <<B2I(bad)>>]>>) : sh \in (0 - 1 .. 2) \X (0 - 1 .. 2)}

\* NewCDense(r, c, data): nil data: a new zero matrix; len(data) = r c: data is the backing slice (row major);
\* anything else, and a zero dimension, panics.  a = <<r, c, len>>, len = -1: nil; data k = k - k i.
NewCases ==
    {LET r == d[1]  c == d[2]  new(len) == Step("NewCDense", 0, <<r, c, len>>) IN
     IF r < 1 \/ c < 1 THEN Case("New", <<ZeroObj>>, <<[new(0 - 1) EXCEPT !.errs = {"any"}]>>)
     ELSE LET f(i, j) == <<(i - 1) * c + j, 0 - ((i - 1) * c + j)>> IN
          Case("New", <<ZeroObj>>,
               <<[new(0 - 1) EXCEPT !.obs = 1, !.rows = ZeroM(r, c)],
                 [new(r * c) EXCEPT !.obs = 2, !.rows = Mk(r, c, f)],
                 [Step("Caps", 2, <<>>) EXCEPT !.ret = <<r, c>>],
                 [new(r * c + 1) EXCEPT !.errs = {"any"}],
                 [new(r * c - 1) EXCEPT !.errs = {"any"}]>>) :
       d \in (0 - 1 .. MaxN) \X (0 - 1 .. MaxN)}

(******************************** Grow and Slice ********************************)
WinSlot(pc, p, q, i, j) == (i - 1 + p) * pc + j + q
Win(s, pc, p, q, r, c) == LET f(i, j) == s[WinSlot(pc, p, q, i, j)] IN Mk(r, c, f)
GrowCases ==
    UNION {LET s == StoreOf(x, Seed + 5)  A == AbsBase(x, s)  pc == ParentCols(x)  o == Off(x)  cap == CapOf(x) IN
           {LET r2 == x.r + ab[1]  c2 == x.c + ab[2]
                inside == r2 <= cap[1] /\ c2 <= cap[2]
                fz(i, j) == IF i <= x.r /\ j <= x.c THEN A[i][j] ELSE Zero2
                fh(i, j) == IF i <= cap[1] /\ j <= cap[2] /\ j + o[2] <= pc THEN s[WinSlot(pc, o[1], o[2], i, j)] ELSE Zero2
                rows == IF inside THEN Win(s, pc, o[1], o[2], r2, c2) ELSE Mk(r2, c2, fz)
                alt == IF inside THEN <<>> ELSE Mk(r2, c2, fh)
                s2 == IF inside \/ ab = <<0, 0>> THEN [s EXCEPT ![WinSlot(pc, o[1], o[2], 1, 1)] = W7] ELSE s
            IN Case("Grow", <<Obj(x, s)>>,
                    <<[Step("Grow", 0, ab) EXCEPT !.obs = 1, !.rows = rows, !.alt = alt, !.store = s, !.mask = AllMask(x)],
                      [Step("Dims", 0, <<>>) EXCEPT !.ret = <<x.r, x.c>>, !.rows = A],
                      [Step("Set", 1, <<0, 0, W7[1], W7[2]>>) EXCEPT !.obs = 0, !.rows = AbsBase(x, s2), !.store = s2, !.mask = AllMask(x)]>>) :
              ab \in (0 .. 2) \X (0 .. 2)}
           : x \in RepsOf({"CDense", "CView"}, {"N"})}
    \cup {Case("Grow", <<ZeroObj>>, <<[Step("Grow", 0, ab) EXCEPT !.obs = 1, !.rows = ZeroM(ab[1], ab[2])],
                                    [Step("IsEmpty", 0, <<>>) EXCEPT !.ret = <<1>>]>>) : ab \in (1 .. 2) \X (1 .. 2)}
SliceCases ==
    UNION {LET s == StoreOf(x, Seed + 6)  pc == ParentCols(x)  o == Off(x)  cap == CapOf(x) IN
           {LET i == a[1]  k == a[2]  j == a[3]  l == a[4]
                ok == 0 <= i /\ k <= cap[1] /\ 0 <= j /\ l <= cap[2]
                s2 == [s EXCEPT ![WinSlot(pc, o[1] + i, o[2] + j, 1, 1)] = W7]
            IN IF ~ok THEN Case("Slice", <<Obj(x, s)>>, <<[Step("Slice", 0, a) EXCEPT !.errs = {"ErrIndexOutOfRange"}, !.store = s, !.mask = AllMask(x)]>>)
               ELSE Case("Slice", <<Obj(x, s)>>,
                         <<[Step("Slice", 0, a) EXCEPT !.obs = 1, !.rows = Win(s, pc, o[1] + i, o[2] + j, k - i, l - j), !.store = s, !.mask = AllMask(x)],
                           [Step("Set", 1, <<0, 0, W7[1], W7[2]>>) EXCEPT !.obs = 1, !.rows = Win(s2, pc, o[1] + i, o[2] + j, k - i, l - j), !.store = s2, !.mask = AllMask(x)]>>) :
              a \in {y \in (0 - 1 .. cap[1]) \X (0 .. cap[1] + 1) \X (0 - 1 .. cap[2]) \X (0 .. cap[2] + 1) : y[1] < y[2] /\ y[3] < y[4]}}
           : x \in RepsOf({"CDense", "CView"}, {"N"})}

(************************ views of views: the capacity *************************)
\* A view is a window of a parent CDense with PR x PC elements: corner (p, q) (0-based), r x c elements.  Its
\* capacity is what is left of the parent below and to the right of its corner - never more (a larger window
\* would alias the next backing row or leave the backing slice), never less (the documentation promises every
\* slice inside the capacity).  Slice(i, k, j, l) of a view is legal iff 0 <= i < k <= capacity rows and
\* 0 <= j < l <= capacity columns - the capacity, not the dimensions - and moves the corner by (i, j);
\* Grow(a, b) stays in the same backing array iff the grown window is inside the capacity (the capacity of
\* the grown view itself is not documented: only "not beyond the parent" is demanded).
\* Scripts: a parent, a first Slice with every corner (row offset and column offset independent), then a
\* second Slice with every index inside / at / one beyond the capacity of the view, or a Grow; Caps of every
\* object afterwards; a write through the last view must land in the parent's backing array at the slot the
\* model computes (or, after a reallocating Grow, nowhere in it).
View(p, q, r, c) == [p |-> p, q |-> q, r |-> r, c |-> c]
VCap(PR, PC, v) == <<PR - v.p, PC - v.q>>
VSliceOK(PR, PC, v, a) == /\ 0 <= a[1] /\ a[1] < a[2] /\ a[2] <= VCap(PR, PC, v)[1]
                          /\ 0 <= a[3] /\ a[3] < a[4] /\ a[4] <= VCap(PR, PC, v)[2]
VSlice(v, a) == View(v.p + a[1], v.q + a[3], a[2] - a[1], a[4] - a[3])
\* R1: a legal view lies inside its parent and inside its capacity
VInside(PR, PC, v) == /\ 0 <= v.p /\ 0 <= v.q /\ 1 <= v.r /\ 1 <= v.c
                      /\ v.r <= VCap(PR, PC, v)[1] /\ v.c <= VCap(PR, PC, v)[2]
                      /\ v.p + v.r <= PR /\ v.q + v.c <= PC
VWin(s, PC, v) == Win(s, PC, v.p, v.q, v.r, v.c)
VArgs(cr, cc) == {y \in (0 .. cr - 1) \X (1 .. cr + 1) \X (0 .. cc - 1) \X (1 .. cc + 1) : y[1] < y[2] /\ y[3] < y[4]}
ViewCases ==
    LET PR == MaxN  PC == MaxN + 1
        x == Rep("CDense", PR, PC, 0, 0, "N")
        s == TLCEval(StoreOf(x, Seed + 10))
        root == View(0, 0, PR, PC)
        caps(on, v) == [Step("Caps", on, <<>>) EXCEPT !.ret = VCap(PR, PC, v)]
        beyond(on, a) == [Step("Slice", on, a) EXCEPT !.errs = {"ErrIndexOutOfRange"}, !.store = s, !.mask = AllMask(x)]
        set(on, v) == LET s2 == [s EXCEPT ![WinSlot(PC, v.p, v.q, 1, 1)] = W7] IN
                      [Step("Set", on, <<0, 0, W7[1], W7[2]>>) EXCEPT !.obs = on, !.rows = VWin(s2, PC, v), !.store = s2, !.mask = AllMask(x)]
    IN UNION {LET v1 == VSlice(root, a1)
                  cap == VCap(PR, PC, v1)
                  first == [Step("Slice", 0, a1) EXCEPT !.obs = 1, !.rows = VWin(s, PC, v1), !.store = s, !.mask = AllMask(x)]
              IN
              \* Slice of the view
              {LET ok == VSliceOK(PR, PC, v1, a2)
                   v2 == VSlice(v1, a2)
               IN IF ~ok
                  THEN Case("ViewSlice", <<Obj(x, s)>>,
                            <<first,
                              [Step("Slice", 1, a2) EXCEPT !.errs = {"ErrIndexOutOfRange"}, !.store = s, !.mask = AllMask(x)],
                              caps(1, v1)>>)
                  ELSE IF Assert(VInside(PR, PC, v1) /\ VInside(PR, PC, v2), <<"view outside its parent", v1, v2>>)
                  THEN Case("ViewSlice", <<Obj(x, s)>>,
                            <<first,
                              [Step("Slice", 1, a2) EXCEPT !.obs = 2, !.rows = VWin(s, PC, v2), !.store = s, !.mask = AllMask(x)],
                              caps(1, v1), caps(2, v2),
                              [Step("Dims", 1, <<>>) EXCEPT !.ret = <<v1.r, v1.c>>],
                              set(2, v2)>>)
                  ELSE Case("SKIP", <<>>, <<>>) :
                 a2 \in VArgs(cap[1], cap[2])}
              \cup
              \* Grow of the view
              {LET r2 == v1.r + ab[1]  c2 == v1.c + ab[2]
                   inside == r2 <= cap[1] /\ c2 <= cap[2]
                   vg == View(v1.p, v1.q, r2, c2)
                   A == VWin(s, PC, v1)
                   fz(i, j) == IF i <= v1.r /\ j <= v1.c THEN A[i][j] ELSE Zero2
                   fh(i, j) == IF i <= cap[1] /\ j <= cap[2] THEN s[WinSlot(PC, v1.p, v1.q, i, j)] ELSE Zero2
                   grow == [Step("Grow", 1, ab) EXCEPT !.obs = 2, !.store = s, !.mask = AllMask(x)]
               IN IF inside
                  THEN IF Assert(VInside(PR, PC, vg), <<"grown view outside its parent", vg>>)
                       THEN Case("ViewGrow", <<Obj(x, s)>>,
                                 <<first, [grow EXCEPT !.rows = VWin(s, PC, vg)],
                                   caps(1, v1),
                                   \* the capacity of the grown view is not documented (gonum: its dimensions); it can
                                   \* never exceed what is left of the parent
                                   beyond(2, <<0, cap[1] + 1, 0, 1>>), beyond(2, <<0, 1, 0, cap[2] + 1>>),
                                   [Step("Dims", 1, <<>>) EXCEPT !.ret = <<v1.r, v1.c>>],
                                   set(2, vg)>>)
                       ELSE Case("SKIP", <<>>, <<>>)
                  ELSE Case("ViewGrow", <<Obj(x, s)>>,
                            <<first, [grow EXCEPT !.rows = Mk(r2, c2, fz), !.alt = Mk(r2, c2, fh)],
                              caps(1, v1),
                              [Step("Dims", 1, <<>>) EXCEPT !.ret = <<v1.r, v1.c>>, !.obs = 1, !.rows = A],
                              \* a new allocation: the write does not reach the parent
                              [Step("Set", 2, <<0, 0, W7[1], W7[2]>>) EXCEPT !.obs = 1, !.rows = A, !.store = s, !.mask = AllMask(x)]>>) :
                 ab \in (0 .. 2) \X (0 .. 2)}
              : a1 \in {y \in (0 .. PR - 1) \X (1 .. PR) \X (0 .. PC - 1) \X (1 .. PC) : y[1] < y[2] /\ y[3] < y[4]}}

(*************************** CEqual and CEqualApprox ***************************)
\* CEqual: same size and element-wise equal
EqualCases ==
    UNION {LET A == DataM(rc[1], rc[2], Seed + 7) IN
           UNION {{LET A2 == IF dl = 0 THEN A ELSE [A EXCEPT ![rc[1]][rc[2]] = CAdd(@, <<dl, 0 - dl>>)] IN
                   Case("CEqual", <<Obj(x, StoreOfAbs(x, A)), Obj(y, StoreOfAbs(y, A2))>>,
                        <<[Step("CEqual", 0, <<>>) EXCEPT !.args = <<1>>, !.ret = <<B2I(dl = 0)>>],
                          [Step("CEqual", 1, <<>>) EXCEPT !.args = <<0>>, !.ret = <<B2I(dl = 0)>>]>>) :
                     dl \in {0, 1}, y \in Denoting(rc[1], rc[2], Kinds, Tws)}
                  : x \in Denoting(rc[1], rc[2], Kinds, {"N", "H", "TH"})}
           : rc \in N1 \X N1}
    \cup
    \* different shapes are not equal
    {LET x == Rep("CDense", sh[1], sh[2], 0, 0, "N")  y == Rep("CDense", sh[3], sh[4], 0, 0, sh[5]) IN
     Case("CEqual", <<Obj(x, StoreOf(x, Seed)), Obj(y, StoreOf(y, Seed))>>,
          <<[Step("CEqual", 0, <<>>) EXCEPT !.args = <<1>>, !.ret = <<0>>],
            [Step("CEqualApprox", 0, <<100, 1>>) EXCEPT !.args = <<1>>, !.ret = <<0>>]>>) :
       sh \in {z \in N1 \X N1 \X N1 \X N1 \X {"N", "T"} : DimsW(Rep("CDense", z[3], z[4], 0, 0, z[5])) # <<z[1], z[2]>>}}
\* CEqualApprox(a, b, eps): "all equal elements with tolerance for element-wise equality specified by epsilon".
\* The element test is read as |a - b| <= eps (absolute) or |a - b| <= eps max(|a|, |b|) (relative); a case is
\* emitted only when the answer is the same under the absolute reading and under the absolute-or-relative one.
AbsOK(a, b, en, ed) == ed * ed * Mod2(CSub(a, b)) <= en * en
RelOK(a, b, en, ed) == ed * ed * Mod2(CSub(a, b)) <= en * en * Max2(Mod2(a), Mod2(b))
ApproxCases ==
    UNION {LET A == DataM(rc[1], rc[2], Seed + 8) IN
           UNION {UNION {{LET A2 == [A EXCEPT ![pos[1]][pos[2]] = CAdd(@, dl)]
                              all(P(_, _)) == \A i \in 1 .. rc[1], j \in 1 .. rc[2] : P(A[i][j], A2[i][j])
                              ok1(a, b) == AbsOK(a, b, eps[1], eps[2])
                              ok2(a, b) == AbsOK(a, b, eps[1], eps[2]) \/ RelOK(a, b, eps[1], eps[2])
                          IN IF all(ok1) # all(ok2) THEN Case("SKIP", <<>>, <<>>)
                             ELSE Case("CEqualApprox", <<Obj(x, StoreOfAbs(x, A)), Obj(y, StoreOfAbs(y, A2))>>,
                                       <<[Step("CEqualApprox", 0, eps) EXCEPT !.args = <<1>>, !.ret = <<B2I(all(ok1))>>],
                                         [Step("CEqualApprox", 1, eps) EXCEPT !.args = <<0>>, !.ret = <<B2I(all(ok1))>>]>>) :
                            eps \in {<<1, 16>>, <<4, 1>>, <<5, 1>>, <<100, 1>>}, dl \in {<<0, 0>>, <<3, 4>>, <<0, 0 - 1>>}}
                         : pos \in {<<1, 1>>, rc}, y \in Denoting(rc[1], rc[2], {"CDense", "CBasic", "CView"}, {"N", "H", "T"})}
                  : x \in Denoting(rc[1], rc[2], {"CDense"}, {"N", "T"})}
           : rc \in N1 \X N1}

CasesOf(g) ==
    CASE g = "At" -> AtCases \cup SetCases
      [] g = "Chain" -> ChainCases
      [] g = "Conj" -> ConjCases
      [] g = "Copy" -> CopyCases
      [] g = "Shape" -> ShapeCases \cup GrowCases \cup SliceCases \cup NewCases
      [] g = "Equal" -> EqualCases \cup ApproxCases
      [] g = "View" -> ViewCases
Cases == UNION {CasesOf(g) : g \in Ops}

VARIABLE c
Init == c \in {x \in Cases : x.op # "SKIP"}
Next == UNCHANGED c
Spec == Init /\ [][Next]_c
\* R1 laws of the definitions themselves, checked on every emitted case: the wrappers are involutions
\* (so the backing array built for a denoted matrix denotes it)
Law == \A k \in 1 .. Len(c.objs) : c.objs[k].rep.kind \in Kinds =>
          StoreOfAbs(c.objs[k].rep, Abs(c.objs[k].rep, c.objs[k].store)) = c.objs[k].store
Emit == Law /\ PrintT(ToJson(c))
=============================================================================
