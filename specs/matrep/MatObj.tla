------------------------------- MODULE MatObj -------------------------------
(* Object-level semantics of the concrete matrix types of gonum/mat (C04).    *)
(*                                                                            *)
(* MatOps.tla defines the arithmetic of package mat on abstract matrices.     *)
(* This module defines what the types themselves promise: element access and  *)
(* the typed setters at every index including the illegal ones (documented    *)
(* panics, matrix unchanged), the structure accessors (Bandwidth, Triangle,   *)
(* SymBand, TriBand, Diag, Len, Caps, IsEmpty), the implicit-transpose        *)
(* wrappers and their Untranspose* methods, DiagView, the Do*NonZero          *)
(* iterators, Zero, Reset / ReuseAs*, Grow, Slice*, the permutation methods   *)
(* and the Trace / Norm methods - all as functions of the refinement maps of  *)
(* MatRep (Slot / Store / Abs).                                               *)
(*                                                                            *)
(* A case is a SCRIPT: a representation with its backing array (object 0) and *)
(* a sequence of steps.  A step names a method, the object it is called on,   *)
(* its integer arguments, and what the definition demands: the panic (as the  *)
(* set of acceptable mat.Error names), the returned integers, the visited     *)
(* (i, j, v) triples, the abstract value (Dims / At) of an object after the   *)
(* step, and the backing array of object 0 after the step with a mask of the  *)
(* slots that must match (slots outside the object's window and referenced    *)
(* slots; unreferenced slots inside the window are left free).  The harness   *)
(* interprets the script against the real types and compares after each step. *)
EXTENDS MatRep, Json

CONSTANTS Ops,      \* operation groups enumerated by this run
          MaxN,     \* shapes 1 .. MaxN
          Seed      \* data salt

N1 == 1 .. MaxN
W7 == 7             \* the value written by setters: outside the data range -4 .. 4 and the canaries 51 ..

(******************************* representations ******************************)
\* the concrete, mutable types of package mat (no user types, no Cholesky)
Concrete == {"Dense", "DenseView", "Sym", "SymView", "TriU", "TriUView", "TriL", "TriLView",
             "Band", "BandS", "SymBand", "SymBandS", "TriBandU", "TriBandUS", "TriBandL", "TriBandLS",
             "Diag", "DiagOfDense", "Tridiag", "TridiagS", "Vec", "VecInc", "RowOfDense"}
ViewKinds == {"DenseView", "SymView", "TriUView", "TriLView", "DiagOfDense", "VecInc", "RowOfDense"}
DiagKinds == {"Diag", "DiagOfDense"}
TriAll == TriUKinds \cup TriLKinds
DenseLike == {"Dense", "DenseView"}
SymLike == {"Sym", "SymView"}
TriLike == {"TriU", "TriUView", "TriL", "TriLView"}

Params(kind, r, c) ==
    CASE kind = "DenseView" -> {<<0, 1>>, <<1, 0>>, <<1 + (Seed % 2), 2>>}
      [] kind \in {"SymView", "TriUView", "TriLView"} -> {<<0, 0>>, <<1 + (Seed % 2), 0>>}
      [] kind \in {"Band", "BandS"} -> (0 .. Min2(r - 1, 2)) \X (0 .. Min2(c - 1, 2))
      [] kind \in SymBandKinds \cup TriBandKinds -> (0 .. r - 1) \X {0}
      [] kind = "DiagOfDense" -> {<<0, 0>>, <<0, 1 + (Seed % 2)>>}
      [] kind = "VecInc" -> {<<0, 2>>, <<1 + (Seed % 2), 3>>}
      [] kind = "RowOfDense" -> {<<0, 1>>, <<1, 2 + (Seed % 2)>>}
      [] OTHER -> {<<0, 0>>}

RepsOf(kinds, tws) ==
    {x \in UNION {UNION {UNION {{Rep(k, r, c, pq[1], pq[2], tw) : tw \in Wrappers(k) \cap tws} : pq \in Params(k, r, c)} :
                           r \in N1, c \in N1} : k \in kinds} : WellFormed(x)}
AllTw == {"N", "T", "TTri", "TBand", "TTriBand", "TVec"}
Plain(kinds) == RepsOf(kinds, {"N"})

Data(rep) == StoreOf(rep, Seed + 3)

\* the window of the backing array an object owns; everything else is its frame
Window(rep) ==
    CASE rep.kind \in {"DenseView", "VecInc"} -> {Slot(rep, i, j) : i \in 1 .. rep.r, j \in 1 .. rep.c}
      [] rep.kind \in {"SymView", "TriUView", "TriLView"} ->
            {(i - 1 + rep.p) * (rep.r + rep.p + 1) + j + rep.p : i \in 1 .. rep.r, j \in 1 .. rep.r}
      [] rep.kind = "DiagOfDense" -> {Slot(rep, i, i) : i \in 1 .. rep.r}
      [] rep.kind = "RowOfDense" -> {Slot(rep, i, 1) : i \in 1 .. rep.r}
      [] OTHER -> 1 .. StoreLen(rep)
\* slots whose content is determined after a mutation: the frame and the referenced slots
HardMask(rep) == LET w == Window(rep)  ref == Referenced(rep) IN
                 [s \in 1 .. StoreLen(rep) |-> IF s \notin w \/ s \in ref THEN 1 ELSE 0]
AllMask(rep) == [s \in 1 .. StoreLen(rep) |-> 1]
\* backing array after the referenced slots took the values of the base matrix B
WriteBase(rep, s, B) ==
    LET own == {<<Slot(rep, ij[1], ij[2]), ij[1], ij[2]>> : ij \in Canonical(rep)} IN
    [k \in 1 .. Len(s) |-> IF \E o \in own : o[1] = k THEN LET o == CHOOSE x \in own : x[1] = k IN B[o[2]][o[3]] ELSE s[k]]

Mk(r, c, f(_, _)) == [i \in 1 .. r |-> [j \in 1 .. c |-> f(i, j)]]
ZeroM(r, c) == LET f(i, j) == 0 IN Mk(r, c, f)
SumF(f(_), n) == LET S[k \in 0 .. n] == IF k = 0 THEN 0 ELSE S[k - 1] + f(k) IN S[n]
MaxF(f(_), n) == LET S[k \in 1 .. n] == IF k = 1 THEN f(1) ELSE Max2(S[k - 1], f(k)) IN S[n]

(************************************ steps ************************************)
\* m: method; on: object the method is called on; a: integer arguments;
\* errs: {} = must return, otherwise the call must panic with one of these mat.Error values
\*       ("any": any panic that is not a Go runtime error);
\* ret: returned integers (booleans as 0 / 1); approx: <<lo, hi, den, slackden>> demands
\*      lo/den - 1/slackden <= result <= hi/den + 1/slackden;
\* tr: <<set of <<i, j, v>> >> the triples a Do*NonZero call must visit (each exactly once);
\* obs / rows / alt: after the step, object obs read through Dims and At must equal rows (cell by cell;
\*      where alt is given a cell may also equal alt's cell); rows = <<>>: not read;
\* store / mask: after the step the backing array of object 0 must equal store wherever mask is 1.
\* sarg: a string argument; text: <<s>> the string the call must return.
Step(m, on, a) == [m |-> m, on |-> on, a |-> a, sarg |-> "", errs |-> {}, ret |-> <<>>, approx |-> <<>>, tr |-> <<>>,
                   text |-> <<>>, obs |-> 0, rows |-> <<>>, alt |-> <<>>, store |-> <<>>, mask |-> <<>>]
Case(op, rep, store, steps) == [op |-> op, rep |-> rep, store |-> store, steps |-> steps]

RowErr == {"ErrRowAccess", "ErrIndexOutOfRange", "ErrVectorAccess"}
ColErr == {"ErrColAccess", "ErrIndexOutOfRange"}

(****************************** element access ********************************)
\* At(i, j) on a (possibly wrapped) object; i, j 0-based in the wrapped orientation.  A wrapper hands the
\* swapped indices to the value inside, so an index error is reported by the inner type: for wrapped
\* operands either access error is accepted.
AtStep(rep, s, on, i, j) ==
    LET d == DimsW(rep)
        iBad == i < 0 \/ i >= d[1]
        jBad == j < 0 \/ j >= d[2]
        st == Step("At", on, <<i, j>>)
    IN IF iBad \/ jBad
       THEN [st EXCEPT !.errs = IF rep.tw # "N" THEN RowErr \cup ColErr
                                ELSE (IF iBad THEN RowErr ELSE {}) \cup (IF jBad THEN ColErr ELSE {}),
                       !.store = s, !.mask = AllMask(rep)]
       ELSE [st EXCEPT !.ret = <<AtW(rep, s, i + 1, j + 1)>>, !.store = s, !.mask = AllMask(rep)]
AtVecStep(rep, s, on, i) ==
    LET st == Step("AtVec", on, <<i>>) IN
    IF i < 0 \/ i >= rep.r THEN [st EXCEPT !.errs = RowErr] ELSE [st EXCEPT !.ret = <<AbsBase(rep, s)[i + 1][1]>>]

AtCases ==
    {LET s == Data(x)  d == DimsW(x) IN
     Case("At", x, s, [k \in 1 .. (d[1] + 2) * (d[2] + 2) |->
                          AtStep(x, s, 0, ((k - 1) \div (d[2] + 2)) - 1, ((k - 1) % (d[2] + 2)) - 1)]) :
       x \in RepsOf(Concrete, AllTw)}
    \cup
    {LET s == Data(x) IN Case("AtVec", x, s, [k \in 1 .. x.r + 2 |-> AtVecStep(x, s, 0, k - 2)]) :
       x \in RepsOf({"Vec", "VecInc", "RowOfDense"}, {"N", "TVec"})}

\* the typed setter of the kind: Set, SetSym, SetTri, SetBand, SetSymBand, SetTriBand (i, j, v);
\* SetDiag, SetVec (i, v)
SetterOf(kind) == CASE kind \in DiagKinds -> "SetDiag" [] kind \in VecKinds -> "SetVec" [] OTHER -> "Set"
StructErr(rep, i, j) ==    \* (i, j) 1-based, in range, without a slot
    CASE rep.kind \in TriAll -> {"ErrTriangleSet"}
      [] rep.kind \in TriBandKinds ->
            IF (rep.kind \in TriBandUKinds /\ i > j) \/ (rep.kind \in TriBandLKinds /\ i < j)
            THEN {"ErrTriangleSet", "ErrBandSet"} ELSE {"ErrBandSet"}
      [] OTHER -> {"ErrBandSet"}
SetStep(rep, s, i, j, v) ==     \* i, j 0-based
    LET one == rep.kind \in DiagKinds \cup VecKinds
        st == Step(SetterOf(rep.kind), 0, IF one THEN <<i, v>> ELSE <<i, j, v>>)
        iBad == i < 0 \/ i >= rep.r
        jBad == j < 0 \/ j >= rep.c
        same == [st EXCEPT !.store = s, !.mask = AllMask(rep), !.rows = Abs(rep, s)]
    IN IF iBad \/ jBad
       THEN [same EXCEPT !.errs = (IF iBad THEN RowErr \cup (IF rep.kind \in DiagKinds THEN {"ErrDiagSet"} ELSE {}) ELSE {})
                                  \cup (IF jBad THEN ColErr ELSE {})]
       ELSE IF Slot(rep, i + 1, j + 1) = 0 THEN [same EXCEPT !.errs = StructErr(rep, i + 1, j + 1)]
       ELSE LET s2 == [s EXCEPT ![Slot(rep, i + 1, j + 1)] = v] IN
            [st EXCEPT !.store = s2, !.mask = AllMask(rep), !.rows = Abs(rep, s2)]
SetCases ==
    UNION {LET s == Data(x) IN
           {Case("Set", x, s, <<SetStep(x, s, ij[1], ij[2], W7)>>) :
              ij \in {y \in (0 - 1 .. x.r) \X (0 - 1 .. x.c) :
                        /\ x.kind \in DiagKinds => y[1] = y[2]
                        /\ x.kind \in VecKinds => y[2] = 0}} : x \in Plain(Concrete)}

(***************************** structure accessors ****************************)
B2I(b) == IF b THEN 1 ELSE 0
IsUpperKind(k) == k \in TriUKinds \cup TriBandUKinds \cup DiagKinds
\* the Raw* accessor of each type returns its blas64 / lapack64 structure: the dimensions, bandwidths, the row
\* stride (increment) of the storage and the triangle, as the constructor or SetRaw* call fixed them
\* (Dense: Rows Cols Stride; Sym: N Stride upper; Tri: N Stride upper; Band: Rows Cols KL KU Stride; SymBand: N K Stride;
\* TriBand: N K Stride upper; Diag (RawBand): n n 0 0 Inc; Tridiag: N len(DL) len(D) len(DU); Vec: N Inc)
RawOf(rep) ==
    LET k == rep.kind  n == rep.r  p == rep.p  q == rep.q IN
    CASE k = "Dense" -> <<rep.r, rep.c, rep.c>>
      [] k = "DenseView" -> <<rep.r, rep.c, rep.c + q + 1>>
      [] k \in {"Sym", "TriU"} -> <<n, n, 1>>
      [] k = "TriL" -> <<n, n, 0>>
      [] k \in {"SymView", "TriUView"} -> <<n, n + p + 1, 1>>
      [] k = "TriLView" -> <<n, n + p + 1, 0>>
      [] k = "Band" -> <<rep.r, rep.c, p, q, p + q + 1>>
      [] k = "BandS" -> <<rep.r, rep.c, p, q, p + q + 2>>
      [] k = "SymBand" -> <<n, p, p + 1>>
      [] k = "SymBandS" -> <<n, p, p + 2>>
      [] k \in {"TriBandU", "TriBandL"} -> <<n, p, p + 1, B2I(k = "TriBandU")>>
      [] k \in {"TriBandUS", "TriBandLS"} -> <<n, p, p + 2, B2I(k = "TriBandUS")>>
      [] k = "Diag" -> <<n, n, 0, 0, 1>>
      [] k = "DiagOfDense" -> <<n, n, 0, 0, n + q + 1>>
      [] k \in TridiagKinds -> <<n, n - 1, n, n - 1>>
      [] k = "VecInc" -> <<n, q>>
      [] OTHER -> <<n, 1>>

\* the accessor steps an object of base kind k offers when it is held in wrapper tw, with the answers
\* its documentation gives; flip = the wrapper transposes
MetaSteps(rep, on, tw) ==
    LET k == rep.kind  n == rep.r  fl == tw # "N"
        st(m, r) == [Step(m, on, <<>>) EXCEPT !.ret = r]
        bw == CASE k \in {"Band", "BandS"} -> <<rep.p, rep.q>>
                [] k \in SymBandKinds -> <<rep.p, rep.p>>
                [] k \in TriBandUKinds -> <<0, rep.p>>
                [] k \in TriBandLKinds -> <<rep.p, 0>>
                [] k \in DiagKinds -> <<0, 0>>
                [] k \in TridiagKinds -> <<1, 1>>
                [] OTHER -> <<>>
        hasBw == bw # <<>> /\ tw \in {"N", "TBand", "TTriBand"}
        isTri == k \in TriAll \cup TriBandKinds \cup DiagKinds
        hasTri == isTri /\ tw \in {"N", "TTri", "TTriBand"}
        up == IF fl THEN ~IsUpperKind(k) ELSE IsUpperKind(k)
        hasTriBand == k \in TriBandKinds \cup DiagKinds /\ tw \in {"N", "TTriBand"}
        kk == IF k \in DiagKinds THEN 0 ELSE rep.p
    IN <<st("Dims", DimsW([rep EXCEPT !.tw = tw]))>>
       \o (IF hasBw THEN <<st("Bandwidth", IF fl THEN <<bw[2], bw[1]>> ELSE bw)>> ELSE <<>>)
       \o (IF hasTri THEN <<st("Triangle", <<n, B2I(up)>>)>> ELSE <<>>)
       \o (IF hasTriBand THEN <<st("TriBand", <<n, kk, B2I(up)>>)>> ELSE <<>>)
       \o (IF tw = "N" /\ k \in SymBandKinds \cup DiagKinds THEN <<st("SymBand", <<n, kk>>)>> ELSE <<>>)
       \o (IF tw = "N" /\ k \in SymLike \cup SymBandKinds \cup DiagKinds THEN <<st("SymmetricDim", <<n>>)>> ELSE <<>>)
       \o (IF tw = "N" /\ k \in DiagKinds THEN <<st("Diag", <<n>>)>> ELSE <<>>)
       \o (IF k \in VecKinds /\ tw \in {"N", "TVec"} THEN <<st("Len", <<n>>)>> ELSE <<>>)
       \o (IF tw = "N" THEN <<st("IsEmpty", <<0>>), st("Raw", RawOf(rep))>> ELSE <<>>)
       \o (IF tw = "N" /\ k \in {"Dense", "Sym", "Vec", "VecInc"} THEN <<st("Caps", <<rep.r, rep.c>>)>> ELSE <<>>)
       \o (IF tw = "N" /\ k \in {"DenseView", "SymView"} THEN <<st("Caps", <<rep.r + 1, rep.c + 1>>)>> ELSE <<>>)

\* T() and friends.  Types whose transpose is the value itself return the receiver.
SelfT(k, m) == \/ k \in SymLike /\ m = "T"
               \/ k \in SymBandKinds /\ m \in {"T", "TBand"}
               \/ k \in DiagKinds /\ m = "T"
UnwrapMethods(tw) ==
    CASE tw = "T" -> {"T", "Untranspose"}
      [] tw = "TTri" -> {"T", "TTri", "Untranspose", "UntransposeTri"}
      [] tw = "TBand" -> {"T", "TBand", "Untranspose", "UntransposeBand"}
      [] tw = "TTriBand" -> {"T", "TTri", "TBand", "TTriBand", "Untranspose", "UntransposeTri", "UntransposeBand", "UntransposeTriBand"}
      [] tw = "TVec" -> {"T", "TVec", "Untranspose", "UntransposeVec"}
\* chain: base --m1--> wrapper --m2--> base again --m3--> wrapper; after each step the new object's
\* value (rows) and structure (MetaSteps) are demanded.  obj numbers: 0 base, 1, 2, 3 results.
ChainCases ==
    UNION {LET s == Data(x)  A == Abs(x, s)  At == Transpose(A) IN
           UNION {UNION {
              LET tw1 == IF SelfT(x.kind, m1) THEN "N" ELSE m1
                  tw3 == IF SelfT(x.kind, m3) THEN "N" ELSE m3
                  new(m, on, obs, rows) == [Step(m, on, <<>>) EXCEPT !.obs = obs, !.rows = rows, !.store = s, !.mask = AllMask(x)]
                  rows1 == IF tw1 = "N" THEN A ELSE At
              IN IF tw1 = "N"
                 THEN {Case("Chain", x, s, <<new(m1, 0, 1, A)>> \o MetaSteps(x, 1, "N"))}
                 ELSE {Case("Chain", x, s,
                            <<new(m1, 0, 1, rows1)>> \o MetaSteps(x, 1, tw1)
                            \o <<new(m2, 1, 2, A)>> \o MetaSteps(x, 2, "N")
                            \o <<new(m3, 2, 3, IF tw3 = "N" THEN A ELSE At)>> \o MetaSteps(x, 3, tw3)) :
                         m2 \in UnwrapMethods(tw1)}
              : m3 \in Wrappers(x.kind) \ {"N"}} : m1 \in Wrappers(x.kind) \ {"N"}}
           : x \in Plain(Concrete)}
MetaCases == {LET s == Data(x) IN Case("Meta", x, s, MetaSteps(x, 0, x.tw)) : x \in RepsOf(Concrete, AllTw)}

(********************************** DiagView **********************************)
HasDiagView == Concrete \ VecKinds
DiagOf(A) == LET n == Min2(Rows(A), Cols(A))  f(i, j) == IF i = j THEN A[i][i] ELSE 0 IN Mk(n, n, f)
DiagViewCases ==
    {LET s == Data(x)  A == Abs(x, s)  n == Min2(x.r, x.c)
         k == (Seed + x.r + x.p) % n
         s2 == [s EXCEPT ![Slot(x, k + 1, k + 1)] = W7]
     IN Case("DiagView", x, s,
             <<[Step("DiagView", 0, <<>>) EXCEPT !.obs = 1, !.rows = DiagOf(A), !.store = s, !.mask = AllMask(x)],
               [Step("Diag", 1, <<>>) EXCEPT !.ret = <<n>>],
               \* the view is backed by the original data: a write through it is a write to the parent
               [Step("SetDiag", 1, <<k, W7>>) EXCEPT !.obs = 0, !.rows = Abs(x, s2), !.store = s2, !.mask = AllMask(x)],
               [Step("Dims", 1, <<>>) EXCEPT !.ret = <<n, n>>, !.obs = 1, !.rows = DiagOf(Abs(x, s2))]>>) :
       x \in Plain(HasDiagView)}

(********************************* Do*NonZero **********************************)
\* "calls fn for each of the non-zero elements": the elements whose VALUE is not zero
HasNonZero == TriLike \cup {"Band", "BandS"} \cup SymBandKinds \cup TriBandKinds \cup TridiagKinds
Triples(A, I, J) == {<<i - 1, j - 1, A[i][j]>> : <<i, j>> \in {ij \in I \X J : A[ij[1]][ij[2]] # 0}}
NonZeroCases ==
    UNION {LET s == Data(x)  A == Abs(x, s)
               keep(st) == [st EXCEPT !.store = s, !.mask = AllMask(x)]
           IN {Case("DoNonZero", x, s, <<keep([Step("DoNonZero", 0, <<>>) EXCEPT !.tr = <<Triples(A, 1 .. x.r, 1 .. x.c)>>])>>)}
              \cup {Case("DoRowNonZero", x, s,
                         <<keep(IF i < 0 \/ i >= x.r THEN [Step("DoRowNonZero", 0, <<i>>) EXCEPT !.errs = RowErr]
                                ELSE [Step("DoRowNonZero", 0, <<i>>) EXCEPT !.tr = <<Triples(A, {i + 1}, 1 .. x.c)>>])>>) :
                      i \in 0 - 1 .. x.r}
              \cup {Case("DoColNonZero", x, s,
                         <<keep(IF j < 0 \/ j >= x.c THEN [Step("DoColNonZero", 0, <<j>>) EXCEPT !.errs = ColErr]
                                ELSE [Step("DoColNonZero", 0, <<j>>) EXCEPT !.tr = <<Triples(A, 1 .. x.r, {j + 1})>>])>>) :
                      j \in 0 - 1 .. x.c}
           : x \in Plain(HasNonZero)}

(************************************ Zero *************************************)
ZeroCases ==
    {LET s == Data(x)  s2 == WriteBase(x, s, ZeroM(x.r, x.c)) IN
     Case("Zero", x, s, <<[Step("Zero", 0, <<>>) EXCEPT !.rows = ZeroM(x.r, x.c), !.store = s2, !.mask = HardMask(x)],
                          [Step("Dims", 0, <<>>) EXCEPT !.ret = <<x.r, x.c>>]>>) :
       x \in Plain(Concrete)}

(***************************** Reset and ReuseAs* ******************************)
\* types that own their backing array (Reset must not be used on views) and the ReuseAs* method of each
Owners == Concrete \ ViewKinds
ZeroRep(k) == Rep(k, 1, 1, 0, 0, "N")       \* the zero value of a type: kind "Zero<Type>", no backing array
ReuseOf(k) == CASE k = "Dense" -> "ReuseAs" [] k = "Sym" -> "ReuseAsSym" [] k \in {"TriU", "TriL"} -> "ReuseAsTri"
                [] k = "Vec" -> "ReuseAsVec" [] k \in {"TriBandU", "TriBandL"} -> "ReuseAsTriBand" [] OTHER -> ""
\* ReuseAs arguments giving an r2 x c2 object of kind k (bandwidth kk), and the slots it needs
ReuseArgs(k, r2, c2, kk) ==
    CASE k = "Dense" -> <<r2, c2>> [] k \in {"Sym", "Vec"} -> <<r2>>
      [] k \in {"TriU", "TriL"} -> <<r2, B2I(k = "TriU")>>
      [] OTHER -> <<r2, kk, B2I(k = "TriBandU")>>
ReuseNeed(k, r2, c2, kk) == CASE k = "Dense" -> r2 * c2 [] k = "Vec" -> r2
                              [] k \in {"TriBandU", "TriBandL"} -> r2 * (kk + 1) [] OTHER -> r2 * r2
ReuseShapes(k) == IF k \in {"Dense"} THEN N1 \X (1 .. MaxN + 1) ELSE {<<n, IF k = "Vec" THEN 1 ELSE n>> : n \in 1 .. MaxN + 1}
ResetCases ==
    UNION {LET s == Data(x)
               reset == <<Step("Reset", 0, <<>>),
                          [Step("IsEmpty", 0, <<>>) EXCEPT !.ret = <<1>>],
                          [Step("Dims", 0, <<>>) EXCEPT !.ret = <<0, 0>>]>>
           IN IF ReuseOf(x.kind) = ""
              THEN {Case("Reset", x, s, reset)}
              ELSE {LET r2 == sh[1]  c2 == sh[2]  kk == Min2(r2 - 1, 1)
                        y == Rep(x.kind, r2, c2, IF x.kind \in TriBandKinds THEN kk ELSE 0, 0, "N")
                        need == ReuseNeed(x.kind, r2, c2, kk)
                        fits == need <= Len(s)
                        \* "re-uses the backing data slice if it has sufficient capacity, otherwise a new slice is
                        \* allocated; the backing data is zero on return"
                        s2 == IF fits THEN [t \in 1 .. Len(s) |-> IF t <= need THEN 0 ELSE s[t]] ELSE s
                        s3 == IF fits THEN [s2 EXCEPT ![Slot(y, 1, 1)] = W7] ELSE s
                        Z == ZeroM(r2, c2)
                    IN Case("Reset", x, s, reset \o
                            <<[Step(ReuseOf(x.kind), 0, ReuseArgs(x.kind, r2, c2, kk)) EXCEPT !.rows = Z, !.store = s2, !.mask = AllMask(x)],
                              [Step("IsEmpty", 0, <<>>) EXCEPT !.ret = <<0>>],
                              [Step(SetterOf(x.kind), 0, IF x.kind = "Vec" THEN <<0, W7>> ELSE <<0, 0, W7>>)
                                 EXCEPT !.rows = [Z EXCEPT ![1][1] = W7], !.store = s3, !.mask = AllMask(x)],
                              \* a non-empty receiver must not be reused
                              [Step(ReuseOf(x.kind), 0, ReuseArgs(x.kind, r2, c2, kk)) EXCEPT !.errs = {"ErrReuseNonEmpty"},
                                 !.rows = [Z EXCEPT ![1][1] = W7], !.store = s3, !.mask = AllMask(x)]>>) :
                      sh \in ReuseShapes(x.kind)}
           : x \in Plain(Owners)}
\* ReuseAs* on the zero value, with illegal sizes ("panics if the input sizes are less than one")
ZeroValueCases ==
    UNION {{LET r2 == sh[1]  c2 == sh[2]  kk == Min2(Max2(r2, 1) - 1, 1)
                bad == r2 < 1 \/ c2 < 1
                args == ReuseArgs(k, r2, c2, kk)
            IN Case("ZeroValue", ZeroRep("Zero" \o k), <<>>,
                    <<[Step("IsEmpty", 0, <<>>) EXCEPT !.ret = <<1>>],
                      [Step("Dims", 0, <<>>) EXCEPT !.ret = <<0, 0>>],
                      IF bad THEN [Step(ReuseOf(k), 0, args) EXCEPT !.errs = {"ErrZeroLength", "ErrNegativeDimension"}]
                      ELSE [Step(ReuseOf(k), 0, args) EXCEPT !.rows = ZeroM(r2, c2)],
                      [Step("IsEmpty", 0, <<>>) EXCEPT !.ret = <<B2I(bad)>>]>>) :
              sh \in IF k = "Dense" THEN (0 - 1 .. 2) \X (0 - 1 .. 2) ELSE {<<n, IF k = "Vec" THEN 1 ELSE n>> : n \in 0 - 1 .. 3}}
           : k \in {"Dense", "Sym", "TriU", "TriL", "Vec", "TriBandU", "TriBandL"}}

(******************************* Grow and Slice ********************************)
\* A Dense is a window of its backing array seen as a parent matrix with pc columns: top left corner
\* (p, q) (0-based), capacity = what is left of the parent below / right of the corner.
ParentCols(x) == IF x.kind = "DenseView" THEN x.c + x.q + 1 ELSE x.c
ParentRows(x) == IF x.kind = "DenseView" THEN x.r + x.p + 1 ELSE x.r
Off(x) == IF x.kind = "DenseView" THEN <<x.p, x.q>> ELSE <<0, 0>>
CapOf(x) == <<ParentRows(x) - Off(x)[1], ParentCols(x) - Off(x)[2]>>
\* the r x c window of backing array s whose corner is (p, q) in a parent with pc columns
WinSlot(pc, p, q, i, j) == (i - 1 + p) * pc + j + q
Win(s, pc, p, q, r, c) == LET f(i, j) == s[WinSlot(pc, p, q, i, j)] IN Mk(r, c, f)
\* Grow(a, b): "returns the receiver expanded by a rows and b columns.  If the dimensions of the expanded
\* matrix are outside the capacities of the receiver a new allocation is made, otherwise not.  The receiver
\* itself is not modified."  Inside the capacity the result is the larger window of the same backing array;
\* a new allocation holds the receiver's elements, zero beyond the capacity, and - the documentation leaves
\* this open - zero or the hidden backing element inside it.
GrowCases ==
    UNION {LET s == Data(x)  A == Abs(x, s)  pc == ParentCols(x)  o == Off(x)  cap == CapOf(x) IN
           {LET r2 == x.r + ab[1]  c2 == x.c + ab[2]
                inside == r2 <= cap[1] /\ c2 <= cap[2]
                hid(i, j) == i <= cap[1] /\ j <= cap[2]
                fz(i, j) == IF i <= x.r /\ j <= x.c THEN A[i][j] ELSE 0
                fh(i, j) == IF hid(i, j) THEN s[WinSlot(pc, o[1], o[2], i, j)] ELSE 0
                rows == IF inside THEN Win(s, pc, o[1], o[2], r2, c2) ELSE Mk(r2, c2, fz)
                alt == IF inside THEN <<>> ELSE Mk(r2, c2, fh)
                s2 == IF inside \/ ab = <<0, 0>> THEN [s EXCEPT ![WinSlot(pc, o[1], o[2], 1, 1)] = W7] ELSE s
            IN Case("Grow", x, s,
                    <<[Step("Grow", 0, ab) EXCEPT !.obs = 1, !.rows = rows, !.alt = alt, !.store = s, !.mask = AllMask(x)],
                      [Step("Dims", 0, <<>>) EXCEPT !.ret = <<x.r, x.c>>, !.rows = A],
                      \* shared backing exactly when no new allocation was made
                      [Step("Set", 1, <<0, 0, W7>>) EXCEPT !.obs = 0, !.rows = Abs(x, s2), !.store = s2, !.mask = AllMask(x)]>>) :
              ab \in (0 .. 2) \X (0 .. 2)}
           : x \in Plain(DenseLike)}
    \cup {Case("Grow", ZeroRep("ZeroDense"), <<>>,
               <<[Step("Grow", 0, ab) EXCEPT !.obs = 1, !.rows = ZeroM(ab[1], ab[2])],
                 [Step("IsEmpty", 0, <<>>) EXCEPT !.ret = <<1>>]>>) : ab \in (1 .. 2) \X (1 .. 2)}

\* Slice(i, k, j, l): rows i .. k-1 and columns j .. l-1 of the receiver, sharing its backing data;
\* "panics with ErrIndexOutOfRange if the slice is outside the capacity of the receiver".
\* (Empty slices, k = i or l = j, are not specified and not enumerated.)
SliceCases ==
    UNION {LET s == Data(x)  pc == ParentCols(x)  o == Off(x)  cap == CapOf(x) IN
           {LET i == a[1]  k == a[2]  j == a[3]  l == a[4]
                ok == 0 <= i /\ k <= cap[1] /\ 0 <= j /\ l <= cap[2]
                s2 == [s EXCEPT ![WinSlot(pc, o[1] + i, o[2] + j, 1, 1)] = W7]
            IN IF ~ok THEN Case("Slice", x, s, <<[Step("Slice", 0, a) EXCEPT !.errs = {"ErrIndexOutOfRange"}, !.store = s, !.mask = AllMask(x)]>>)
               ELSE Case("Slice", x, s,
                         <<[Step("Slice", 0, a) EXCEPT !.obs = 1, !.rows = Win(s, pc, o[1] + i, o[2] + j, k - i, l - j), !.store = s, !.mask = AllMask(x)],
                           [Step("Caps", 1, <<>>) EXCEPT !.ret = <<cap[1] - i, cap[2] - j>>],
                           [Step("Set", 1, <<0, 0, W7>>) EXCEPT !.obs = 1, !.rows = Win(s2, pc, o[1] + i, o[2] + j, k - i, l - j), !.store = s2, !.mask = AllMask(x)]>>) :
              a \in {y \in (0 - 1 .. cap[1]) \X (0 .. cap[1] + 1) \X (0 - 1 .. cap[2]) \X (0 .. cap[2] + 1) : y[1] < y[2] /\ y[3] < y[4]}}
           : x \in Plain(DenseLike)}
\* SliceSym / SliceTri (i, k): the square window i .. k-1 on the diagonal; SliceVec(i, k)
SqCap(x) == IF x.kind \in ViewKinds THEN x.r + 1 ELSE x.r
SqOff(x) == IF x.kind \in ViewKinds THEN x.p ELSE 0
SliceSqCases ==
    UNION {LET s == Data(x)  cap == SqCap(x)  pn == x.r + (IF x.kind \in ViewKinds THEN x.p + 1 ELSE 0)
               m == IF x.kind \in SymLike THEN "SliceSym" ELSE "SliceTri"
               \* the value of the k-i window at diagonal offset i: the same kind of view, deeper into the parent
               sub(i, k) == Rep(CASE x.kind \in SymLike -> "SymView" [] x.kind \in {"TriU", "TriUView"} -> "TriUView" [] OTHER -> "TriLView",
                                k - i, k - i, SqOff(x) + i, 0, "N")
               subAbs(t, i, k) == LET y == sub(i, k)
                                      \* slot of (a, b) of the window in the parent with pn columns
                                      sl(a, b) == (a - 1 + y.p) * pn + b + y.p
                                      f(a, b) == CASE x.kind \in SymLike -> t[sl(Min2(a, b), Max2(a, b))]
                                                   [] x.kind \in {"TriU", "TriUView"} -> IF a <= b THEN t[sl(a, b)] ELSE 0
                                                   [] OTHER -> IF a >= b THEN t[sl(a, b)] ELSE 0
                                  IN Mk(k - i, k - i, f)
           IN {LET i == a[1]  k == a[2]
                   ok == 0 <= i /\ k <= cap
                   s2 == [s EXCEPT ![(i + SqOff(x)) * pn + i + SqOff(x) + 1] = W7]
               IN IF ~ok THEN Case(m, x, s, <<[Step(m, 0, a) EXCEPT !.errs = {"ErrIndexOutOfRange"}, !.store = s, !.mask = AllMask(x)]>>)
                  ELSE Case(m, x, s,
                            <<[Step(m, 0, a) EXCEPT !.obs = 1, !.rows = subAbs(s, i, k), !.store = s, !.mask = AllMask(x)],
                              [Step("Set", 1, <<0, 0, W7>>) EXCEPT !.obs = 1, !.rows = subAbs(s2, i, k), !.store = s2, !.mask = AllMask(x)]>>) :
                 a \in {y \in (0 - 1 .. cap) \X (0 .. cap + 1) : y[1] < y[2]}}
           : x \in Plain(SymLike \cup TriLike)}
    \cup
    UNION {LET s == Data(x)
               \* capacity of a vector: the elements left in its backing array at its increment
               cap == CASE x.kind = "Vec" -> x.r [] x.kind = "VecInc" -> x.r [] OTHER -> (x.q - x.p) * x.r
               inc == IF x.kind = "VecInc" THEN x.q ELSE 1
               base == Slot(x, 1, 1)
               f(t, i, k) == [a \in 1 .. k - i |-> <<t[base + (i + a - 1) * inc]>>]
           IN {LET i == a[1]  k == a[2]
                   ok == 0 <= i /\ k <= cap
                   s2 == [s EXCEPT ![base + i * inc] = W7]
               IN IF ~ok THEN Case("SliceVec", x, s, <<[Step("SliceVec", 0, a) EXCEPT !.errs = {"ErrIndexOutOfRange"}, !.store = s, !.mask = AllMask(x)]>>)
                  ELSE Case("SliceVec", x, s,
                            <<[Step("SliceVec", 0, a) EXCEPT !.obs = 1, !.rows = f(s, i, k), !.store = s, !.mask = AllMask(x)],
                              [Step("SetVec", 1, <<0, W7>>) EXCEPT !.obs = 1, !.rows = f(s2, i, k), !.store = s2, !.mask = AllMask(x)]>>) :
                 a \in {y \in (0 - 1 .. cap) \X (0 .. cap + 1) : y[1] < y[2]}}
           : x \in Plain({"Vec", "VecInc", "RowOfDense"})}

\* GrowSym(g): as Grow, for the square symmetric window on the diagonal
GrowSymCases ==
    UNION {LET s == Data(x)  A == Abs(x, s)  n == x.r  cap == SqCap(x)  off == SqOff(x)
               pn == x.r + (IF x.kind \in ViewKinds THEN x.p + 1 ELSE 0)
               sl(a, b) == (Min2(a, b) - 1 + off) * pn + Max2(a, b) + off
           IN {LET n2 == n + g
                   inside == n2 <= cap
                   fi(a, b) == s[sl(a, b)]
                   fz(a, b) == IF a <= n /\ b <= n THEN A[a][b] ELSE 0
                   fh(a, b) == IF a <= cap /\ b <= cap THEN s[sl(a, b)] ELSE 0
                   s2 == IF inside \/ g = 0 THEN [s EXCEPT ![sl(1, 1)] = W7] ELSE s
               IN Case("GrowSym", x, s,
                       <<[Step("GrowSym", 0, <<g>>) EXCEPT !.obs = 1, !.rows = IF inside THEN Mk(n2, n2, fi) ELSE Mk(n2, n2, fz),
                            !.alt = IF inside THEN <<>> ELSE Mk(n2, n2, fh), !.store = s, !.mask = AllMask(x)],
                         [Step("Dims", 0, <<>>) EXCEPT !.ret = <<n, n>>, !.rows = A],
                         [Step("Set", 1, <<0, 0, W7>>) EXCEPT !.obs = 0, !.rows = Abs(x, s2), !.store = s2, !.mask = AllMask(x)]>>) :
                 g \in 0 .. 2}
           : x \in Plain(SymLike)}

\* SubsetSym(a, set): "at the conclusion of SubsetSym, s.At(i, j) equals a.At(set[i], set[j]); the supplied set does
\* not have to be a strict subset, dimension repeats are allowed".  mode 0: the receiver is a new zero value (object 1);
\* mode 1: the receiver is the operand itself (then the result must have its size).
SubSets(n) == {[k \in 1 .. n |-> n - k], <<0, 0, n - 1>>, <<n - 1>>, [k \in 1 .. n |-> (2 * k) % n]}
SubOf(A, set) == LET f(i, j) == A[set[i] + 1][set[j] + 1] IN Mk(Len(set), Len(set), f)
SubsetSymCases ==
    UNION {LET s == Data(x)  A == Abs(x, s) IN
           UNION {{Case("SubsetSym", x, s, <<[Step("SubsetSym", 0, <<0>> \o set) EXCEPT !.obs = 1, !.rows = SubOf(A, set), !.store = s, !.mask = AllMask(x)]>>)}
                  \cup (IF x.kind \notin SymLike THEN {}
                        ELSE IF Len(set) = x.r
                        THEN {Case("SubsetSym", x, s, <<[Step("SubsetSym", 0, <<1>> \o set) EXCEPT !.rows = SubOf(A, set),
                                                           !.store = WriteBase(x, s, SubOf(A, set)), !.mask = HardMask(x)]>>)}
                        ELSE {Case("SubsetSym", x, s, <<[Step("SubsetSym", 0, <<1>> \o set) EXCEPT !.errs = {"ErrShape"}, !.rows = A, !.store = s, !.mask = AllMask(x)]>>)})
                  : set \in SubSets(x.r)}
           : x \in Plain(SymLike \cup SymBandKinds \cup DiagKinds)}

(********************************* permutations ********************************)
\* all permutations of 0 .. n-1 as sequences
Perms(n) == {p \in [1 .. n -> 0 .. n - 1] : \A i, j \in 1 .. n : i # j => p[i] # p[j]}
\* PermuteRows(p, inverse): inverse = FALSE: row p[i] is moved to row i; TRUE: row i is moved to row p[i]
PermRows(A, p, inv) == IF inv THEN [i \in 1 .. Rows(A) |-> A[CHOOSE k \in 1 .. Rows(A) : p[k] + 1 = i]]
                       ELSE [i \in 1 .. Rows(A) |-> A[p[i] + 1]]
PermCols(A, p, inv) == Transpose(PermRows(Transpose(A), p, inv))
PermuteCases ==
    UNION {LET s == Data(x)  A == Abs(x, s) IN
           UNION {{LET rowwise == m \in {"PermuteRows", "Permute"}
                       n == IF rowwise THEN x.r ELSE x.c
                       A2 == IF rowwise THEN PermRows(A, p, inv = 1) ELSE PermCols(A, p, inv = 1)
                       s2 == WriteBase(x, s, A2)
                       \* law of the definition itself: the inverse permutation undoes the permutation
                       law == (IF rowwise THEN PermRows(A2, p, inv = 0) ELSE PermCols(A2, p, inv = 0)) = A
                   IN [Case(m, x, s, <<[Step(m, 0, <<inv>> \o p) EXCEPT !.rows = A2, !.store = s2, !.mask = AllMask(x)]>>) EXCEPT !.op = IF law THEN m ELSE "LAW-BROKEN"] :
                     p \in Perms(IF m \in {"PermuteRows", "Permute"} THEN x.r ELSE x.c), inv \in {0, 1}}
                  \cup
                  \* "p must have length m, otherwise PermuteRows will panic"
                  {LET n == IF m \in {"PermuteRows", "Permute"} THEN x.r ELSE x.c IN
                   Case(m, x, s, <<[Step(m, 0, <<inv>> \o [k \in 1 .. n + d |-> k - 1]) EXCEPT !.errs = {"any"}, !.rows = A, !.store = s, !.mask = AllMask(x)]>>) :
                     inv \in {0, 1}, d \in {0 - 1, 1}}
                  : m \in IF x.kind \in VecKinds THEN {"Permute"} ELSE {"PermuteRows", "PermuteCols"}}
           : x \in Plain(DenseLike \cup {"Vec", "VecInc", "RowOfDense"})}
\* Permutation(n, p): "an n x n permutation matrix P such that the nonzero entries are P[i, p[i]] = 1";
\* receiver: zero value, n x n with junk content, n x n view, wrong shape (a shape panic)
PermutationCases ==
    UNION {UNION {LET f(i, j) == IF p[i] + 1 = j THEN 1 ELSE 0  P == Mk(n, n, f) IN
                  {Case("Permutation", ZeroRep("ZeroDense"), <<>>, <<[Step("Permutation", 0, <<n>> \o p) EXCEPT !.rows = P]>>)}
                  \cup {LET s == Data(x)  fit == x.r = n /\ x.c = n IN
                        Case("Permutation", x, s,
                             <<IF fit THEN [Step("Permutation", 0, <<n>> \o p) EXCEPT !.rows = P, !.store = WriteBase(x, s, P), !.mask = AllMask(x)]
                               ELSE [Step("Permutation", 0, <<n>> \o p) EXCEPT !.errs = {"ErrShape"}]>>) :
                          x \in {y \in Plain(DenseLike) : y.r \in {n, n + 1} /\ y.c = n /\ y.r <= MaxN}}
                  : p \in Perms(n)} : n \in N1}

(******************************* Trace and Norm ********************************)
RECURSIVE Bis(_, _, _)
Bis(n, lo, hi) == IF hi - lo <= 1 THEN lo ELSE LET m == (lo + hi) \div 2 IN IF m * m <= n THEN Bis(n, m, hi) ELSE Bis(n, lo, m)
ISqrt(n) == Bis(n, 0, 46341)          \* floor of the square root, n < 2^31
AbsV(v) == IF v < 0 THEN 0 - v ELSE v
Norm1(A) == LET f(j) == LET g(i) == AbsV(A[i][j]) IN SumF(g, Rows(A)) IN MaxF(f, Cols(A))
NormInf(A) == LET f(i) == LET g(j) == AbsV(A[i][j]) IN SumF(g, Cols(A)) IN MaxF(f, Rows(A))
SumSq(A) == LET f(i) == LET g(j) == A[i][j] * A[i][j] IN SumF(g, Cols(A)) IN SumF(f, Rows(A))
TraceOf(A) == LET f(i) == A[i][i] IN SumF(f, Rows(A))
\* Frobenius norm as an interval of width 1/256 around the exact square root, slack 2^-30
FrobApprox(A) == LET lo == ISqrt(SumSq(A) * 65536) IN <<lo, lo + 1, 256, 1073741824>>
HasTrace == Concrete \ VecKinds
\* ord: 1, 2, 0 (= +Inf), 3 (not a norm: ErrNormOrder)
NormStep(A, on, ord) ==
    CASE ord = 1 -> [Step("Norm", on, <<1>>) EXCEPT !.ret = <<Norm1(A)>>]
      [] ord = 0 -> [Step("Norm", on, <<0>>) EXCEPT !.ret = <<NormInf(A)>>]
      [] ord = 2 -> [Step("Norm", on, <<2>>) EXCEPT !.approx = FrobApprox(A)]
      [] OTHER -> [Step("Norm", on, <<ord>>) EXCEPT !.errs = {"ErrNormOrder"}]
NormCases ==
    {LET s == Data(x)  A == Abs(x, s) IN
     Case("Norm", x, s,
          (IF x.kind \in HasTrace
           THEN <<IF x.r = x.c THEN [Step("Trace", 0, <<>>) EXCEPT !.ret = <<TraceOf(A)>>]
                  ELSE [Step("Trace", 0, <<>>) EXCEPT !.errs = {"ErrSquare"}]>> ELSE <<>>)
          \o [o \in 1 .. 4 |-> [NormStep(A, 0, o - 1) EXCEPT !.store = s, !.mask = AllMask(x)]]) :
       x \in Plain(Concrete)}
    \cup
    \* the zero value has no norm and no trace: ErrZeroLength (Dense.Norm documents ErrShape)
    {Case("Norm", ZeroRep("Zero" \o k), <<>>,
          <<[Step("Norm", 0, <<1>>) EXCEPT !.errs = {"ErrZeroLength", "ErrShape"}]>>
          \o (IF k = "Vec" THEN <<>> ELSE <<[Step("Trace", 0, <<>>) EXCEPT !.errs = {"ErrZeroLength", "ErrShape"}]>>)) :
       k \in {"Dense", "Sym", "TriU", "Vec", "Band", "SymBand", "TriBandU", "Diag", "Tridiag"}}
\* mat.Norm(a, 2) (the function) on every representation including wrappers: the same interval
Norm2FuncCases ==
    {LET s == Data(x)  A == Abs(x, s) IN
     Case("NormFunc", x, s, <<[Step("NormFunc", 0, <<2>>) EXCEPT !.approx = FrobApprox(A), !.store = s, !.mask = AllMask(x)]>>) :
       x \in RepsOf(Concrete, AllTw)}

(********************************* constructors ********************************)
\* New<Type>(dims, data): "If data == nil, a new slice is allocated for the backing slice.  If len(data) == [the
\* storage size], data is used as the backing slice.  If neither of these is true, New<Type> will panic.  ... will
\* panic if [a dimension] is zero" (and for a bandwidth outside 0 .. n-1).  a = <<r, c, p, q, len>>, len = -1: nil;
\* the data handed over are 1, 2, .., len, so the matrix built from them is the storage map itself.
NewKinds == {"Dense", "Sym", "TriU", "TriL", "Vec", "Diag", "Band", "SymBand", "TriBandU", "TriBandL", "Tridiag"}
NewCases ==
    UNION {UNION {LET r == d[1]  c == IF k \in SquareOnly THEN r ELSE IF k = "Vec" THEN 1 ELSE d[2]
                      p == IF k \in {"Band", "SymBand", "TriBandU", "TriBandL"} THEN d[3] ELSE 0
                      q == IF k = "Band" THEN d[4] ELSE 0
                      y == Rep(k, r, c, p, q, "N")
                      okDims == r >= 1 /\ c >= 1 /\ p >= 0 /\ q >= 0 /\ WellFormed(y)
                      new(len) == Step("New" \o k, 0, <<r, c, p, q, len>>)
                  IN IF ~okDims THEN {Case("New", ZeroRep("ZeroDense"), <<>>, <<[new(0 - 1) EXCEPT !.errs = {"any"}]>>)}
                     ELSE LET L == StoreLen(y) IN
                          {Case("New", ZeroRep("ZeroDense"), <<>>,
                                <<[new(0 - 1) EXCEPT !.obs = 1, !.rows = ZeroM(r, c)],
                                  [new(L) EXCEPT !.obs = 2, !.rows = AbsBaseRaw(y, [t \in 1 .. L |-> t])],
                                  [Step("Dims", 2, <<>>) EXCEPT !.ret = <<r, c>>],
                                  [new(L + 1) EXCEPT !.errs = {"any"}],
                                  [new(L - 1) EXCEPT !.errs = {"any"}]>>)}
                  : d \in {z \in (0 - 1 .. MaxN) \X (0 - 1 .. MaxN) \X (0 - 1 .. 2) \X (0 - 1 .. 2) :
                             /\ (k \in SquareOnly \cup {"Vec"} => z[2] = 1)
                             /\ (k \notin {"Band", "SymBand", "TriBandU", "TriBandL"} => z[3] = 0)
                             /\ (k # "Band" => z[4] = 0)}}
           : k \in NewKinds}

(******************************* errors and Maybe ******************************)
\* the documented error values of package mat and their texts
ErrText == [ErrNegativeDimension |-> "mat: negative dimension", ErrIndexOutOfRange |-> "mat: index out of range",
            ErrReuseNonEmpty |-> "mat: reuse of non-empty matrix", ErrRowAccess |-> "mat: row index out of range",
            ErrColAccess |-> "mat: column index out of range", ErrVectorAccess |-> "mat: vector index out of range",
            ErrZeroLength |-> "mat: zero length in matrix dimension", ErrRowLength |-> "mat: row length mismatch",
            ErrColLength |-> "mat: col length mismatch", ErrSquare |-> "mat: expect square matrix",
            ErrNormOrder |-> "mat: invalid norm order for matrix", ErrSingular |-> "mat: matrix is singular",
            ErrShape |-> "mat: dimension mismatch", ErrIllegalStride |-> "mat: illegal stride",
            ErrPivot |-> "mat: malformed pivot list", ErrTriangle |-> "mat: triangular storage mismatch",
            ErrTriangleSet |-> "mat: triangular set out of bounds", ErrBandwidth |-> "mat: bandwidth out of range",
            ErrBandSet |-> "mat: band set out of bounds", ErrDiagSet |-> "mat: diagonal set out of bounds",
            ErrSliceLengthMismatch |-> "mat: input slice length mismatch",
            ErrNotPSD |-> "mat: input not positive symmetric definite",
            ErrFailedEigen |-> "mat: eigendecomposition not successful"]
\* Maybe / MaybeFloat / MaybeComplex(fn): "will recover a panic with a type mat.Error from fn, and return this
\* error as the Err field of an ErrorStack [with the stack trace]. Any other error is re-panicked."
\* behaviour of fn (a[1]): 0 returns (the value 5, or 5 - 2i); 1 panics with the mat.Error named sarg;
\* 2 panics with a value that is not a mat.Error; 3 causes a Go runtime error.
\* answer (ret[1]): 0 = nil error (followed by the value fn returned); 1 = an ErrorStack whose Err is that
\* mat.Error, whose Error() is text and whose StackTrace is not empty; 2 = re-panicked with the very same value.
MaybeCases ==
    {Case("Maybe", ZeroRep("ZeroDense"), <<>>,
          <<[Step(m, 0, <<0>>) EXCEPT !.ret = <<0>> \o (CASE m = "Maybe" -> <<>> [] m = "MaybeFloat" -> <<5>> [] OTHER -> <<5, 0 - 2>>)],
            [Step(m, 0, <<2>>) EXCEPT !.ret = <<2>>],
            [Step(m, 0, <<3>>) EXCEPT !.ret = <<2>>]>>
          \o [k \in 1 .. 1 |-> [Step(m, 0, <<1>>) EXCEPT !.sarg = e, !.ret = <<1>>, !.text = <<ErrText[e]>>]]
          \o <<[Step("ErrorText", 0, <<>>) EXCEPT !.sarg = e, !.text = <<ErrText[e]>>]>>) :
       m \in {"Maybe", "MaybeFloat", "MaybeComplex"}, e \in DOMAIN ErrText}

(*********************************** the run ***********************************)
CasesOf(g) ==
    CASE g = "At" -> AtCases
      [] g = "Set" -> SetCases
      [] g = "Meta" -> MetaCases \cup ChainCases
      [] g = "DiagView" -> DiagViewCases
      [] g = "NonZero" -> NonZeroCases
      [] g = "Zero" -> ZeroCases
      [] g = "Reset" -> ResetCases \cup ZeroValueCases
      [] g = "Grow" -> GrowCases \cup GrowSymCases
      [] g = "Slice" -> SliceCases \cup SliceSqCases
      [] g = "Permute" -> PermuteCases \cup PermutationCases \cup SubsetSymCases
      [] g = "Norm" -> NormCases \cup Norm2FuncCases
      [] g = "Errors" -> MaybeCases
      [] g = "New" -> NewCases
Cases == UNION {CasesOf(g) : g \in Ops}

VARIABLE c
Init == c \in Cases
Next == UNCHANGED c
Spec == Init /\ [][Next]_c
Emit == c.op # "LAW-BROKEN" /\ PrintT(ToJson(c))
=============================================================================
