SPECIFICATION Spec
CONSTANTS
  MaxN = @MAXN@
  MaxOff = @MAXOFF@
  Salts = @SALTS@
INVARIANTS DataStructured RoundTrip TransposeLaw SlotInjective Unreferenced SymmetricLaw
CHECK_DEADLOCK FALSE
