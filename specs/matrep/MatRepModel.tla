----------------------------- MODULE MatRepModel -----------------------------
(* R1 for property C04: TLC checks the refinement maps of MatRep on every     *)
(* representation of the bound (all kinds, shapes 1..MaxN, all kind parameters *)
(* and wrappers) for several data salts.                                       *)
EXTENDS MatRep

CONSTANTS MaxN,     \* largest dimension
          MaxOff,   \* largest view offset / extra stride
          Salts     \* data salts

Params(kind, r, c) ==
    CASE kind \in {"DenseView"} -> (0 .. MaxOff) \X (0 .. MaxOff)
      [] kind \in {"SymView", "TriUView", "TriLView"} -> (0 .. MaxOff) \X {0}
      [] kind \in BandKinds -> (0 .. r - 1) \X (0 .. c - 1)
      [] kind \in SymBandKinds \cup TriBandKinds -> (0 .. r - 1) \X {0}
      [] kind = "DiagOfDense" -> {0} \X (0 .. MaxOff)
      [] kind = "VecInc" -> {pq \in (0 .. MaxOff) \X (2 .. MaxOff + 1) : pq[1] < pq[2]}
      [] kind = "RowOfDense" -> {pq \in (0 .. MaxOff) \X (1 .. MaxOff + 1) : pq[1] < pq[2]}
      [] OTHER -> {<<0, 0>>}

Reps == UNION {UNION {UNION {{Rep(k, r, c, pq[1], pq[2], tw) : tw \in Wrappers(k)} : pq \in Params(k, r, c)} :
                 r \in 1 .. MaxN, c \in 1 .. MaxN} : k \in AllKinds}

VARIABLES rep, salt
Init == rep \in {x \in Reps : WellFormed(x)} /\ salt \in Salts
Next == UNCHANGED <<rep, salt>>
Spec == Init /\ [][Next]_<<rep, salt>>

B == BaseData(rep, salt)
S == StoreOf(rep, salt)

\* the formula data has the structure of the kind
DataStructured == HasStructure(rep, B)
\* round trip: the backing array built for a matrix denotes that matrix
RoundTrip == AbsBaseRaw(rep, S) = B
\* the wrapped operand is the transpose, element by element (At with swapped indices)
TransposeLaw == LET n == [rep EXCEPT !.tw = "N"] IN
                IF rep.tw = "N" THEN Abs(rep, S) = AbsBase(rep, S)
                ELSE /\ Abs(rep, S) = Transpose(Abs(n, S))
                     /\ \A i \in 1 .. rep.c, j \in 1 .. rep.r : AtW(rep, S, i, j) = Abs(n, S)[j][i]
\* the storage map is injective on canonical positions and stays inside the backing array
SlotInjective == /\ \A x, y \in Canonical(rep) : Slot(rep, x[1], x[2]) = Slot(rep, y[1], y[2]) => x = y
                 /\ \A x \in Canonical(rep) : Slot(rep, x[1], x[2]) \in 1 .. StoreLen(rep)
                 /\ Len(S) = StoreLen(rep)
\* slots that are not referenced never influence the denoted matrix
Unreferenced == LET S2 == [s \in 1 .. StoreLen(rep) |-> IF s \in Referenced(rep) THEN S[s] ELSE 0 - S[s] - 1000]
                IN Abs(rep, S2) = Abs(rep, S)
\* symmetric kinds denote symmetric matrices, Cholesky denotes U^T U (symmetric, positive diagonal)
SymmetricLaw == rep.kind \in SymmetricStorage \cup {"Chol"} => Abs(rep, S) = Transpose(Abs(rep, S))
=============================================================================
