SPECIFICATION Spec
CONSTANTS
  Methods = @METHODS@
  NMin = @NMIN@
  NMax = @NMAX@
  LMax = @LMAX@
  NData = @NDATA@
  Seed = @SEED@
INVARIANTS Emit
CHECK_DEADLOCK FALSE
