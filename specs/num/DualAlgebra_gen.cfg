SPECIFICATION Spec
CONSTANTS
  Types = @TYPES@
  NRand = @NRAND@
  Seed = @SEED@
INVARIANTS Emit
CHECK_DEADLOCK FALSE
