SPECIFICATION Spec
CONSTANTS
  Types = @TYPES@
  NRand = @NRAND@
  Seed = @SEED@
  Shard = @SHARD@
  NShards = @NSHARDS@
INVARIANTS Emit
CHECK_DEADLOCK FALSE
