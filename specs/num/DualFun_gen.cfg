SPECIFICATION Spec
CONSTANTS
  Types = @TYPES@
  Funs = @FUNS@
  NVar = @NVAR@
  Seed = @SEED@
INVARIANTS Emit
CHECK_DEADLOCK FALSE
