------------------------------ MODULE DualFun ------------------------------
(* Elementary functions of dual (a + b e) and hyperdual                       *)
(* (a + b e1 + c e2 + d e1e2) numbers: num/dual, num/hyperdual.               *)
(*                                                                            *)
(* The VALUE f(a) is transcendental, but the dual parts are fixed by the      *)
(* chain rule                                                                 *)
(*   f(a + b e1 + c e2 + d e1e2) = f(a) + f'(a) b e1 + f'(a) c e2             *)
(*                                 + (f'(a) d + f''(a) b c) e1e2              *)
(* (dual: f(a) + f'(a) b e), and f', f'' are                                  *)
(*  (abs) rational in a rational argument for Inv, Log, Sqrt and PowReal at   *)
(*        perfect squares, Atan, Atanh, and Asin/Acos/Asinh/Acosh at          *)
(*        arguments x with 1 -/+ x^2 (x^2 - 1) a rational square; and for     *)
(*        every function at the real part 0 where f(0), f'(0), f''(0) are     *)
(*        rational;                                                           *)
(*  (rel) polynomials in the returned value F = f(a) and a companion value G  *)
(*        for Exp, Sin/Cos, Sinh/Cosh, Tan, Tanh.  The module states only the *)
(*        defining first-order system (sin' = cos, cos' = -sin, tan' = 1 +    *)
(*        tan^2, ...) and DERIVES f'' by polynomial differentiation.          *)
(* R1 (checked on every enumerated case before it is printed):                *)
(*   - the chain rule agrees with the hyperdual algebra's own multiplication  *)
(*     on the monomials t^0..t^4 at the case's argument;                      *)
(*   - the (f', f'') tables satisfy the differential identities of their      *)
(*     functions (x f' = 1 and x f'' + f' = 0 for Log; (1+x^2) f' = 1 and     *)
(*     (1+x^2) f'' + 2x f' = 0 for Atan; f'^2 (1-x^2) = 1 and                 *)
(*     (1-x^2) f'' = x f' for Asin; ...);                                     *)
(*   - the first integral of each first-order system (F^2+G^2, G^2-F^2, ...)  *)
(*     has derivative zero.                                                   *)
(* R2: gonum's dual parts are compared with the exact rationals (abs) or with *)
(*   the polynomial relation evaluated on gonum's own F and G (rel); identity *)
(*   cases Exp(Log a) = a, Pow(a,2) = a a, Sqrt(a)^2 = a, Log(ab) = Log a +   *)
(*   Log b in all components.                                                 *)
EXTENDS NRat, FiniteSets, TLC, Json

CONSTANTS Types,     \* subset of {"dual", "hyper", "dquat", "dcmplx"}
          Funs,      \* function names to enumerate
          NVar,      \* dual-part variants 0..NVar-1
          Seed

VARIABLE c

(******************** hyperdual algebra (for the chain-rule law) ***********)
HMul(x, y) == <<RMul(x[1], y[1]),
                RAdd(RMul(x[1], y[2]), RMul(x[2], y[1])),
                RAdd(RMul(x[1], y[3]), RMul(x[3], y[1])),
                RAdd(RAdd(RMul(x[1], y[4]), RMul(x[4], y[1])), RAdd(RMul(x[2], y[3]), RMul(x[3], y[2])))>>
HOne == <<One, Zero, Zero, Zero>>
RECURSIVE HPow(_, _)
HPow(x, n) == IF n = 0 THEN HOne ELSE HMul(HPow(x, n - 1), x)
HAdd(x, y) == Force([i \in 1..4 |-> RAdd(x[i], y[i])])
\* the chain rule; X = <<a, e1, e2, e12>>
Chain(F, D1, D2, X) == <<F, RMul(D1, X[2]), RMul(D1, X[3]), RAdd(RMul(D1, X[4]), RMul(D2, RMul(X[2], X[3])))>>
RPowZ(a, k) == IF k >= 0 THEN RPow(a, k) ELSE RInv(RPow(a, -k))
ChainLaw(X) == \A n \in 0..4 :
  Chain(RPow(X[1], n), IF n = 0 THEN Zero ELSE RScale(n, RPow(X[1], n - 1)),
        IF n <= 1 THEN Zero ELSE RScale(n * (n - 1), RPow(X[1], n - 2)), X) = HPow(X, n)

(****************** abs: rational derivative tables ************************)
\* argument tables: <<x, s>> where s is the auxiliary square root the function needs (or One)
Args(f) ==
  CASE f = "Inv"   -> << <<RI(2), One>>, <<RI(-4), One>>, <<R(1, 2), One>>, <<RI(-1), One>>, <<RI(8), One>> >>
    [] f = "Log"   -> << <<RI(2), One>>, <<R(1, 2), One>>, <<RI(4), One>>, <<RI(3), One>>, <<R(3, 4), One>> >>
    \* x = s^2
    [] f \in {"Sqrt", "SqrtSq"} -> << <<RI(4), RI(2)>>, <<RI(9), RI(3)>>, <<R(1, 4), R(1, 2)>>, <<R(9, 4), R(3, 2)>>, <<R(25, 16), R(5, 4)>> >>
    [] f = "PowInt"  -> << <<RI(2), One>>, <<RI(-3), One>>, <<R(1, 2), One>>, <<R(3, 2), One>> >>
    [] f = "PowHalf" -> << <<RI(4), RI(2)>>, <<RI(9), RI(3)>>, <<R(9, 4), R(3, 2)>>, <<R(1, 4), R(1, 2)>> >>
    [] f = "Atan"  -> << <<Zero, One>>, <<One, One>>, <<RI(-2), One>>, <<R(1, 2), One>>, <<RI(3), One>> >>
    [] f = "Atanh" -> << <<Zero, One>>, <<R(1, 2), One>>, <<R(-1, 4), One>>, <<R(3, 4), One>> >>
    \* s^2 = 1 - x^2
    [] f \in {"Asin", "Acos"} -> << <<Zero, One>>, <<R(3, 5), R(4, 5)>>, <<R(-4, 5), R(3, 5)>>, <<R(5, 13), R(12, 13)>>, <<R(7, 25), R(24, 25)>> >>
    \* s^2 = 1 + x^2
    [] f = "Asinh" -> << <<Zero, One>>, <<R(3, 4), R(5, 4)>>, <<R(-4, 3), R(5, 3)>>, <<R(15, 8), R(17, 8)>>, <<R(5, 12), R(13, 12)>> >>
    \* s^2 = x^2 - 1
    [] f = "Acosh" -> << <<R(5, 4), R(3, 4)>>, <<R(5, 3), R(4, 3)>>, <<R(17, 8), R(15, 8)>>, <<R(13, 12), R(5, 12)>>, <<R(13, 5), R(12, 5)>> >>
    \* rel functions: dyadic arguments, 0 first
    [] f \in {"Exp", "Sin", "Cos", "Sinh", "Cosh", "Tan", "Tanh"} ->
         << <<Zero, One>>, <<R(1, 2), One>>, <<R(-3, 4), One>>, <<RI(2), One>>, <<RI(-1), One>> >>
    \* identities: positive reals
    [] f \in {"ExpLog", "PowNum2", "LogMul"} -> << <<RI(2), One>>, <<R(1, 2), One>>, <<RI(3), One>>, <<R(5, 4), One>> >>
Exponents(f) == CASE f = "PowInt"  -> << RI(-2), RI(-1), Zero, One, RI(2), RI(3) >>
                  [] f = "PowHalf" -> << R(1, 2), R(-1, 2), R(3, 2), R(5, 2) >>
                  [] OTHER -> << Zero >>

\* [has: the value f(x) is rational, F, D1, D2]
Tab(f, x, s, p) ==
  LET x2 == RMul(x, x) IN
  CASE f = "Inv"   -> [has |-> TRUE, F |-> RInv(x), D1 |-> RNeg(RInv(x2)), D2 |-> RDiv(RI(2), RMul(x2, x))]
    [] f = "Log"   -> [has |-> FALSE, F |-> Zero, D1 |-> RInv(x), D2 |-> RNeg(RInv(x2))]
    [] f \in {"Sqrt", "SqrtSq"} -> [has |-> TRUE, F |-> s, D1 |-> RInv(RScale(2, s)), D2 |-> RNeg(RInv(RScale(4, RMul(s, RMul(s, s)))))]
    [] f = "PowInt"  -> LET n == p[1] IN
                        [has |-> TRUE, F |-> RPowZ(x, n), D1 |-> RScale(n, RPowZ(x, n - 1)), D2 |-> RScale(n * (n - 1), RPowZ(x, n - 2))]
    [] f = "PowHalf" -> LET m == p[1] IN       \* p = m/2, x = s^2: x^p = s^m
                        [has |-> TRUE, F |-> RPowZ(s, m), D1 |-> RMul(p, RPowZ(s, m - 2)), D2 |-> RMul(RMul(p, RSub(p, One)), RPowZ(s, m - 4))]
    [] f = "Atan"  -> LET q == RAdd(One, x2) IN [has |-> x = Zero, F |-> Zero, D1 |-> RInv(q), D2 |-> RDiv(RScale(-2, x), RMul(q, q))]
    [] f = "Atanh" -> LET q == RSub(One, x2) IN [has |-> x = Zero, F |-> Zero, D1 |-> RInv(q), D2 |-> RDiv(RScale(2, x), RMul(q, q))]
    [] f = "Asin"  -> [has |-> x = Zero, F |-> Zero, D1 |-> RInv(s), D2 |-> RDiv(x, RMul(s, RMul(s, s)))]
    [] f = "Acos"  -> [has |-> FALSE, F |-> Zero, D1 |-> RNeg(RInv(s)), D2 |-> RNeg(RDiv(x, RMul(s, RMul(s, s))))]
    [] f = "Asinh" -> [has |-> x = Zero, F |-> Zero, D1 |-> RInv(s), D2 |-> RNeg(RDiv(x, RMul(s, RMul(s, s))))]
    [] f = "Acosh" -> [has |-> FALSE, F |-> Zero, D1 |-> RInv(s), D2 |-> RNeg(RDiv(x, RMul(s, RMul(s, s))))]

\* differential identities that pin the tables (R1)
TabLaw(f, x, s, p) ==
  LET t == Tab(f, x, s, p)  x2 == RMul(x, x)  D1 == t.D1  D2 == t.D2  F == t.F IN
  CASE f = "Inv"   -> RMul(F, x) = One /\ RAdd(RMul(D1, x), F) = Zero /\ RAdd(RMul(D2, x), RScale(2, D1)) = Zero
    [] f = "Log"   -> RMul(D1, x) = One /\ RAdd(RMul(D2, x), D1) = Zero
    [] f \in {"Sqrt", "SqrtSq"} -> RMul(F, F) = x /\ RSgn(F) > 0 /\ RScale(2, RMul(F, D1)) = One /\ RAdd(RMul(D1, D1), RMul(F, D2)) = Zero
    \* x f' = p f ,  x f'' + f' = p f'
    [] f \in {"PowInt", "PowHalf"} -> /\ RMul(x, D1) = RMul(p, F)
                                      /\ RAdd(RMul(x, D2), D1) = RMul(p, D1)
                                      /\ f = "PowHalf" => RMul(s, s) = x /\ RMul(F, F) = RPowZ(x, p[1])
                                      /\ f = "PowInt" => F = RPowZ(x, p[1])
    [] f = "Atan"  -> RMul(RAdd(One, x2), D1) = One /\ RAdd(RMul(RAdd(One, x2), D2), RScale(2, RMul(x, D1))) = Zero
    [] f = "Atanh" -> RMul(RSub(One, x2), D1) = One /\ RSub(RMul(RSub(One, x2), D2), RScale(2, RMul(x, D1))) = Zero
    [] f = "Asin"  -> RMul(RMul(D1, D1), RSub(One, x2)) = One /\ RSgn(D1) > 0 /\ RMul(RSub(One, x2), D2) = RMul(x, D1)
    [] f = "Acos"  -> RMul(RMul(D1, D1), RSub(One, x2)) = One /\ RSgn(D1) < 0 /\ RMul(RSub(One, x2), D2) = RMul(x, D1)
    [] f = "Asinh" -> RMul(RMul(D1, D1), RAdd(One, x2)) = One /\ RSgn(D1) > 0 /\ RMul(RAdd(One, x2), D2) = RNeg(RMul(x, D1))
    [] f = "Acosh" -> RMul(RMul(D1, D1), RSub(x2, One)) = One /\ RSgn(D1) > 0 /\ RLt(One, x) /\ RMul(RSub(x2, One), D2) = RNeg(RMul(x, D1))

(************** rel: first-order systems, polynomials in (F, G) ************)
\* a polynomial is a sequence of terms <<coefficient, power of F, power of G>>
TMul(P, Q) == LET n == Len(P)  m == Len(Q) IN
  Force([k \in 1..n*m |-> LET a == P[((k - 1) \div m) + 1]  b == Q[((k - 1) % m) + 1] IN
                          <<RMul(a[1], b[1]), a[2] + b[2], a[3] + b[3]>>])
TScale(a, P) == Force([k \in 1..Len(P) |-> <<RMul(a, P[k][1]), P[k][2], P[k][3]>>])
TClean(P) == SelectSeq(P, LAMBDA t : t[1] # Zero)
\* d/dx of P(F, G) given F' = PF, G' = PG
TermD(t, PF, PG) ==
  (IF t[2] > 0 THEN TMul(<< <<RScale(t[2], t[1]), t[2] - 1, t[3]>> >>, PF) ELSE <<>>) \o
  (IF t[3] > 0 THEN TMul(<< <<RScale(t[3], t[1]), t[2], t[3] - 1>> >>, PG) ELSE <<>>)
RECURSIVE TDiffTo(_, _, _, _)
TDiffTo(P, PF, PG, k) == IF k = 0 THEN <<>> ELSE TDiffTo(P, PF, PG, k - 1) \o TermD(P[k], PF, PG)
TDiff(P, PF, PG) == TClean(TDiffTo(P, PF, PG, Len(P)))
TRec(P) == Force([k \in 1..Len(P) |-> [c |-> P[k][1], i |-> P[k][2], j |-> P[k][3]]])
TEval(P, f, g) == RSum([k \in 1..Len(P) |-> RMul(P[k][1], RMul(RPow(f, P[k][2]), RPow(g, P[k][3])))])
tF == << <<One, 1, 0>> >>
tG == << <<One, 0, 1>> >>
tOne == << <<One, 0, 0>> >>
\* [PF: F', PG: G', comp: the companion function whose value is G ("" if none),
\*  inv: first integral sF F^2 + sG G^2 = 1 (<<0,0>> if none), F0, G0: values at 0]
Sys(f) ==
  CASE f = "Exp"  -> [PF |-> tF, PG |-> <<>>, comp |-> "", inv |-> <<0, 0>>, F0 |-> One, G0 |-> Zero]
    [] f = "Sin"  -> [PF |-> tG, PG |-> TScale(RI(-1), tF), comp |-> "Cos", inv |-> <<1, 1>>, F0 |-> Zero, G0 |-> One]
    [] f = "Cos"  -> [PF |-> TScale(RI(-1), tG), PG |-> tF, comp |-> "Sin", inv |-> <<1, 1>>, F0 |-> One, G0 |-> Zero]
    [] f = "Sinh" -> [PF |-> tG, PG |-> tF, comp |-> "Cosh", inv |-> <<-1, 1>>, F0 |-> Zero, G0 |-> One]
    [] f = "Cosh" -> [PF |-> tG, PG |-> tF, comp |-> "Sinh", inv |-> <<1, -1>>, F0 |-> One, G0 |-> Zero]
    [] f = "Tan"  -> [PF |-> tOne \o TMul(tF, tF), PG |-> <<>>, comp |-> "", inv |-> <<0, 0>>, F0 |-> Zero, G0 |-> Zero]
    [] f = "Tanh" -> [PF |-> tOne \o TScale(RI(-1), TMul(tF, tF)), PG |-> <<>>, comp |-> "", inv |-> <<0, 0>>, F0 |-> Zero, G0 |-> Zero]
RelFuns == {"Exp", "Sin", "Cos", "Sinh", "Cosh", "Tan", "Tanh"}
D1P(f) == Sys(f).PF
D2P(f) == TDiff(Sys(f).PF, Sys(f).PF, Sys(f).PG)
\* the first integral is conserved: its derivative vanishes identically (tested on a grid of rational points)
SysLaw(f) ==
  LET s == Sys(f)  I == << <<RI(s.inv[1]), 2, 0>>, <<RI(s.inv[2]), 0, 2>> >> IN
  /\ s.inv # <<0, 0>> =>
       /\ \A a \in -2..2 : \A b \in -2..2 : TEval(TDiff(I, s.PF, s.PG), R(a, 3), R(b, 2)) = Zero
       /\ TEval(I, s.F0, s.G0) = One
  \* the textbook second derivatives follow from the system
  /\ f = "Sin"  => \A a \in -2..2 : \A b \in -2..2 : TEval(D2P(f), RI(a), RI(b)) = RI(-a)
  /\ f = "Tan"  => \A a \in -2..2 : TEval(D2P(f), RI(a), Zero) = RI(2 * a * (1 + a * a))
  /\ f = "Tanh" => \A a \in -2..2 : TEval(D2P(f), RI(a), Zero) = RI(-2 * a * (1 - a * a))
  /\ f = "Cosh" => \A a \in -2..2 : \A b \in -2..2 : TEval(D2P(f), RI(a), RI(b)) = RI(a)

(****************************** operands ***********************************)
E1s  == << RI(2), RI(-1), R(1, 2), RI(3) >>
E2s  == << RI(-3), RI(1), RI(2), R(-1, 2) >>
E12s == << RI(5), RI(-2), R(1, 4), Zero >>            \* the last variant has no incoming e1e2 part
Duals(v, ai) == <<E1s[((v + ai) % 4) + 1], E2s[((v + 2 * ai + Seed) % 4) + 1], E12s[(v % 4) + 1]>>
XOf(cc) == LET a == Args(cc.f)[cc.a]  d == Duals(cc.v, cc.a) IN <<a[1], d[1], d[2], d[3]>>
\* second operand of LogMul
YOf(cc) == LET d == Duals(cc.v + 1, cc.a + 1) IN <<R(3, 2), d[1], d[2], d[3]>>
IsDyadic(q) == q[2] \in {1, 2, 4, 8, 16, 32, 64}

Proj(T, h) == IF T = "dual" THEN <<h[1], h[2]>> ELSE h          \* a dual number is the e1 slice
AbsV(h) == Force([i \in 1..Len(h) |-> RAbs(h[i])])

AbsCase(cc) ==
  LET X == XOf(cc)  a == Args(cc.f)[cc.a]  p == Exponents(cc.f)[cc.e]
      t == Tab(cc.f, a[1], a[2], p)
      val == Chain(t.F, t.D1, t.D2, X)
      mag == Chain(RAdd(RAbs(t.F), One), RAbs(t.D1), RAbs(t.D2), AbsV(X)) IN
  [kind |-> "dfun", mode |-> "abs", t |-> cc.t, f |-> cc.f, x |-> Proj(cc.t, X), y |-> <<>>, p |-> p,
   e |-> Proj(cc.t, IF cc.f = "SqrtSq" THEN X ELSE val),
   \* the real part is compared only where f(x) is rational
   cmpreal |-> (t.has \/ cc.f = "SqrtSq"),
   mag |-> Proj(cc.t, IF cc.f = "SqrtSq" THEN HMul(AbsV(val), AbsV(val)) ELSE mag),
   \* 16 ulp of the magnitude; 4096 when the argument is not a dyadic rational (it is rounded on input)
   tolu |-> IF IsDyadic(a[1]) THEN 16 ELSE 4096,
   note |-> IF a[1] = Zero THEN "zero-real" ELSE "value"]

\* rel functions at the real part 0: everything is rational
ZeroCase(cc) ==
  LET X == XOf(cc)  s == Sys(cc.f)
      val == Chain(s.F0, TEval(D1P(cc.f), s.F0, s.G0), TEval(D2P(cc.f), s.F0, s.G0), X) IN
  [kind |-> "dfun", mode |-> "abs", t |-> cc.t, f |-> cc.f, x |-> Proj(cc.t, X), y |-> <<>>, p |-> Zero,
   e |-> Proj(cc.t, val), cmpreal |-> TRUE, mag |-> Proj(cc.t, AbsV(val)), tolu |-> 4, note |-> "zero-real"]

RelCase(cc) ==
  LET X == XOf(cc)  d1 == D1P(cc.f)  d2 == D2P(cc.f) IN
  [kind |-> "dfun", mode |-> "rel", t |-> cc.t, f |-> cc.f, x |-> Proj(cc.t, X), comp |-> Sys(cc.f).comp,
   inv |-> Sys(cc.f).inv,
   \* dual parts as polynomials in the returned real part F and the companion value G
   terms |-> IF cc.t = "dual" THEN << TRec(TClean(TScale(X[2], d1))) >>
             ELSE << TRec(TClean(TScale(X[2], d1))), TRec(TClean(TScale(X[3], d1))),
                     TRec(TClean(TScale(X[4], d1) \o TScale(RMul(X[2], X[3]), d2))) >>,
   tolu |-> 32, note |-> "value"]

\* identities in all components
IdCase(cc) ==
  LET X == XOf(cc)  Y == YOf(cc) IN
  CASE cc.f = "ExpLog"  -> [kind |-> "dfun", mode |-> "abs", t |-> cc.t, f |-> cc.f, x |-> Proj(cc.t, X), y |-> <<>>, p |-> Zero,
                            e |-> Proj(cc.t, X), cmpreal |-> TRUE, mag |-> Proj(cc.t, HAdd(AbsV(X), Chain(One, One, One, AbsV(X)))),
                            tolu |-> 64, note |-> "value"]
    [] cc.f = "PowNum2" -> LET sq == HMul(X, X) IN
                           [kind |-> "dfun", mode |-> "abs", t |-> cc.t, f |-> cc.f, x |-> Proj(cc.t, X), y |-> <<>>, p |-> RI(2),
                            e |-> Proj(cc.t, sq), cmpreal |-> TRUE, mag |-> Proj(cc.t, HMul(AbsV(X), HAdd(AbsV(X), HOne))),
                            tolu |-> 256, note |-> "value"]
    [] cc.f = "LogMul"  -> LET pr == HMul(X, Y)
                               val == Chain(Zero, RInv(pr[1]), RNeg(RInv(RMul(pr[1], pr[1]))), pr)
                               \* Log a + Log b from the chain rule on each factor: the identity (R1)
                               la == Chain(Zero, RInv(X[1]), RNeg(RInv(RMul(X[1], X[1]))), X)
                               lb == Chain(Zero, RInv(Y[1]), RNeg(RInv(RMul(Y[1], Y[1]))), Y) IN
                           [kind |-> "dfun", mode |-> "abs", t |-> cc.t, f |-> cc.f, x |-> Proj(cc.t, X), y |-> Proj(cc.t, Y), p |-> Zero,
                            e |-> Proj(cc.t, val), cmpreal |-> FALSE,
                            mag |-> Proj(cc.t, Chain(One, RInv(pr[1]), RInv(RMul(pr[1], pr[1])), AbsV(pr))),
                            tolu |-> 64, note |-> (IF val = HAdd(la, lb) THEN "value" ELSE "SPEC-ERROR")]

(************ dual quaternions and dual complex numbers *******************)
(* With a real scalar leading part a (central in both algebras)             *)
(*   f(a + d e) = f(a) + f'(a) d e        for every quaternion / complex d,  *)
(* so Log, Sqrt, integer PowReal and Exp at a = 0 have rational dual parts.  *)
(* For an anti-commutative dual complex number with non-real leading part z  *)
(*   f(z + q e) = f(z) + ((f(z) - f(conj z)) / (z - conj z)) q e             *)
(* (the power identity is checked on the algebra in DualAlgebra.tla), i.e.   *)
(*   Dual = (Im f(z) / Im z) q   for Exp and Log.                            *)
(* Dual quaternions whose parts do not commute are not covered: the dual     *)
(* part is then not a rational function of the input and of f(r).            *)
LeadArgs(f) == CASE f = "Log"  -> << <<RI(2), One>>, <<R(1, 2), One>>, <<RI(4), One>> >>
                 [] f = "Sqrt" -> << <<RI(4), RI(2)>>, <<R(9, 4), R(3, 2)>>, <<R(1, 4), R(1, 2)>> >>
                 [] f \in {"PowInt", "PowNum"} -> << <<RI(2), One>>, <<R(1, 2), One>>, <<RI(4), One>> >>
                 [] f = "Exp"  -> << <<Zero, One>> >>
\* PowNum: Pow(x, n) with the exponent n a real scalar embedded in the type (dualquat.Pow, dualcmplx.Pow)
LeadFuns == {"Log", "Sqrt", "PowInt", "PowNum", "Exp"}
IsPowF(f) == f \in {"PowInt", "PowNum"}
QDual(v, ai) == <<E1s[((v + ai) % 4) + 1], E2s[((v + 2 * ai + Seed) % 4) + 1], E12s[(v % 3) + 1], E1s[((v + 3 * ai + 1) % 4) + 1]>>
LeadCase(cc) ==
  LET a == LeadArgs(cc.f)[cc.a]  x == a[1]
      p == IF IsPowF(cc.f) THEN << RI(2), RI(3), RI(-1) >>[cc.e] ELSE Zero
      t == IF cc.f = "Exp" THEN [has |-> TRUE, F |-> One, D1 |-> One]
           ELSE Tab(IF IsPowF(cc.f) THEN "PowInt" ELSE cc.f, x, a[2], p)
      d == IF cc.t = "dquat" THEN QDual(cc.v, cc.a) ELSE SubSeq(QDual(cc.v, cc.a), 1, 2)
      nl == IF cc.t = "dquat" THEN 4 ELSE 2
      lead == Force([i \in 1..nl |-> IF i = 1 THEN x ELSE Zero])
      val == Force([i \in 1..nl |-> IF i = 1 THEN t.F ELSE Zero]) \o Force([i \in 1..nl |-> RMul(t.D1, d[i])])
      mag == Force([i \in 1..nl |-> RAdd(RAbs(t.F), One)]) \o Force([i \in 1..nl |-> RAdd(RMul(RAbs(t.D1), RAbs(d[i])), RAbs(t.D1))]) IN
  [kind |-> "dfun", mode |-> "abs", t |-> cc.t, f |-> cc.f, x |-> lead \o d, y |-> <<>>, p |-> p,
   e |-> val, cmpreal |-> t.has,
   \* the imaginary components of the leading part are compared (they are 0) even when f(a) is not rational
   cmp |-> Force([i \in 1..2*nl |-> i > 1 \/ t.has]),
   mag |-> mag, tolu |-> 64, note |-> "scalar-lead"]

\* non-real leading part of a dual complex number
ZArgs == << <<RI(1), RI(1)>>, <<RI(2), R(-1, 2)>>, <<RI(-1), RI(2)>>, <<Zero, RI(1)>>, <<R(1, 2), RI(-3)>> >>
RelCCase(cc) ==
  LET z == ZArgs[cc.a]  d == SubSeq(QDual(cc.v, cc.a), 1, 2) IN
  [kind |-> "dfun", mode |-> "rel", t |-> cc.t, f |-> cc.f, x |-> z \o d, comp |-> "", inv |-> <<0, 0>>,
   \* F is the imaginary part of the returned leading part (component index 1); outputs are components 2, 3
   fidx |-> 1, outs |-> <<2, 3>>,
   terms |-> << TRec(<< <<RDiv(d[1], z[2]), 1, 0>> >>), TRec(<< <<RDiv(d[2], z[2]), 1, 0>> >>) >>,
   tolu |-> 64, note |-> "complex-lead"]


(********************* documented special values ***************************)
(* The "Special cases are" lists of num/dual and num/hyperdual as a table: argument (real part by class,   *)
(* dual parts fixed: Emag = 2; E1mag = 2, E2mag = 3, E1E2mag = 0), exponent for PowReal, the documented     *)
(* real part and, where the documentation states it, the first-order dual parts ("N": the incoming dual     *)
(* part unchanged; "anyinf": an infinity of either sign; "any": not stated).  Tokens: "nan", "inf", "-inf", *)
(* "0" (+0), "-0", "z" (a zero of either sign), "pi", "pi/2", "-pi/2", or a rational "n/d".  Lines of the   *)
(* documentation that contradict the function's mathematical value (Asin(+-1) = +-Inf) are left out.        *)
SRow(f, x, p, e, d) == [f |-> f, x |-> x, p |-> p, e |-> e, d |-> d]
OddFuns == << "Sin", "Tan", "Asin", "Atan", "Sinh", "Tanh", "Asinh", "Atanh" >>
SpecRows ==
  \* f(+-0) = (+-0 + N eps) for the odd functions
  [i \in 1..Len(OddFuns) |-> SRow(OddFuns[i], "0", "", "0", "N")] \o [i \in 1..Len(OddFuns) |-> SRow(OddFuns[i], "-0", "", "-0", "N")]
  \o << SRow("Sqrt", "inf", "", "inf", "any"), SRow("Sqrt", "0", "", "0", "inf"), SRow("Sqrt", "-0", "", "-0", "inf"),
        SRow("Sqrt", "-1/1", "", "nan", "any"), SRow("Sqrt", "nan", "", "nan", "any"),
        SRow("Exp", "inf", "", "inf", "any"), SRow("Exp", "nan", "", "nan", "any"),
        SRow("Log", "inf", "", "inf", "z"), SRow("Log", "0", "", "-inf", "anyinf"), SRow("Log", "-2/1", "", "nan", "any"), SRow("Log", "nan", "", "nan", "any"),
        SRow("Sin", "inf", "", "nan", "any"), SRow("Sin", "-inf", "", "nan", "any"), SRow("Sin", "nan", "", "nan", "any"),
        SRow("Cos", "inf", "", "nan", "any"), SRow("Cos", "-inf", "", "nan", "any"), SRow("Cos", "nan", "", "nan", "any"),
        SRow("Tan", "inf", "", "nan", "any"), SRow("Tan", "-inf", "", "nan", "any"), SRow("Tan", "nan", "", "nan", "any"),
        SRow("Asin", "2/1", "", "nan", "any"), SRow("Asin", "-3/2", "", "nan", "any"),
        \* Asin(+-1): the documented dual part (the derivative is infinite); the documented real part +-Inf is not asin(+-1)
        SRow("Asin", "1/1", "", "any", "inf"), SRow("Asin", "-1/1", "", "any", "inf"),
        \* Inv(+-Inf) = +-0 - 0 eps,  Inv(+-0) = +-Inf - Inf eps
        SRow("Inv", "inf", "", "0", "z"), SRow("Inv", "-inf", "", "-0", "z"), SRow("Inv", "0", "", "inf", "-inf"), SRow("Inv", "-0", "", "-inf", "-inf"),
        SRow("Acos", "-1/1", "", "pi", "-inf"), SRow("Acos", "1/1", "", "0", "-inf"), SRow("Acos", "2/1", "", "nan", "any"), SRow("Acos", "-3/2", "", "nan", "any"),
        SRow("Atan", "inf", "", "pi/2", "z"), SRow("Atan", "-inf", "", "-pi/2", "z"),
        SRow("Sinh", "inf", "", "inf", "any"), SRow("Sinh", "-inf", "", "-inf", "any"), SRow("Sinh", "nan", "", "nan", "any"),
        SRow("Cosh", "0", "", "1/1", "any"), SRow("Cosh", "-0", "", "1/1", "any"), SRow("Cosh", "inf", "", "inf", "any"), SRow("Cosh", "-inf", "", "inf", "any"),
        SRow("Cosh", "nan", "", "nan", "any"),
        SRow("Tanh", "inf", "", "1/1", "z"), SRow("Tanh", "-inf", "", "-1/1", "z"), SRow("Tanh", "nan", "", "nan", "any"),
        SRow("Asinh", "inf", "", "inf", "any"), SRow("Asinh", "-inf", "", "-inf", "any"), SRow("Asinh", "nan", "", "nan", "any"),
        SRow("Acosh", "inf", "", "inf", "any"), SRow("Acosh", "1/1", "", "0", "inf"), SRow("Acosh", "1/2", "", "nan", "any"), SRow("Acosh", "-2/1", "", "nan", "any"),
        SRow("Acosh", "nan", "", "nan", "any"),
        SRow("Atanh", "1/1", "", "inf", "any"), SRow("Atanh", "-1/1", "", "-inf", "any"), SRow("Atanh", "2/1", "", "nan", "any"), SRow("Atanh", "-3/2", "", "nan", "any"),
        SRow("Atanh", "nan", "", "nan", "any"),
        \* PowReal, "in order"
        SRow("PowReal", "nan", "0", "1/1", "nan"), SRow("PowReal", "nan", "-0", "1/1", "nan"),
        SRow("PowReal", "2/1", "0", "1/1", "any"), SRow("PowReal", "0", "-0", "1/1", "any"), SRow("PowReal", "inf", "0", "1/1", "any"), SRow("PowReal", "-3/1", "0", "1/1", "any"),
        SRow("PowReal", "1/1", "5/2", "1/1", "any"), SRow("PowReal", "1/1", "inf", "1/1", "any"),
        SRow("PowReal", "-3/1", "1/1", "-3/1", "N"), SRow("PowReal", "1/2", "1/1", "1/2", "N"),
        SRow("PowReal", "nan", "2/1", "nan", "nan"), SRow("PowReal", "2/1", "nan", "nan", "nan"),
        SRow("PowReal", "0", "-3/1", "inf", "any"), SRow("PowReal", "-0", "-3/1", "-inf", "any"),
        SRow("PowReal", "0", "-inf", "inf", "any"), SRow("PowReal", "-0", "-inf", "inf", "any"),
        SRow("PowReal", "0", "inf", "0", "any"), SRow("PowReal", "-0", "inf", "0", "any"),
        SRow("PowReal", "0", "-2/1", "inf", "any"), SRow("PowReal", "-0", "-2/1", "inf", "any"), SRow("PowReal", "0", "-1/2", "inf", "any"),
        SRow("PowReal", "0", "3/1", "0", "any"), SRow("PowReal", "-0", "3/1", "-0", "any"),
        SRow("PowReal", "0", "2/1", "0", "any"), SRow("PowReal", "-0", "2/1", "0", "any"), SRow("PowReal", "-0", "1/2", "0", "any"),
        SRow("PowReal", "-1/1", "inf", "1/1", "any"), SRow("PowReal", "-1/1", "-inf", "1/1", "any"),
        SRow("PowReal", "2/1", "inf", "inf", "any"), SRow("PowReal", "-2/1", "inf", "inf", "any"),
        SRow("PowReal", "2/1", "-inf", "0", "nan"), SRow("PowReal", "-3/2", "-inf", "0", "nan"),
        SRow("PowReal", "1/2", "inf", "0", "nan"), SRow("PowReal", "-1/4", "inf", "0", "nan"),
        SRow("PowReal", "1/2", "-inf", "inf", "any"),
        SRow("PowReal", "inf", "2/1", "inf", "any"), SRow("PowReal", "inf", "1/2", "inf", "any"), SRow("PowReal", "inf", "-2/1", "0", "any"),
        \* PowReal(-Inf, y) = Pow(-0, -y)
        SRow("PowReal", "-inf", "3/1", "-inf", "any"), SRow("PowReal", "-inf", "2/1", "inf", "any"), SRow("PowReal", "-inf", "-3/1", "-0", "any"), SRow("PowReal", "-inf", "-2/1", "0", "any"),
        SRow("PowReal", "-2/1", "1/2", "nan", "nan"), SRow("PowReal", "-1/2", "-3/2", "nan", "nan") >>
SpecCase(cc) == LET r == SpecRows[cc.a] IN [kind |-> "dspec", t |-> cc.t, f |-> r.f, x |-> r.x, p |-> r.p, e |-> r.e, d |-> r.d]

(* dualquat.PowReal / dualcmplx.PowReal: the documented special cases that are meaningful for a quaternion  *)
(* or complex leading part x (classes: |x| > 1, |x| < 1, NaN, Inf, 0, 1; -1 for dualcmplx), and those of   *)
(* Log, by class of the result parts:                                                                        *)
(* "one", "zero", "inf" (a component infinite), "nan" (a component NaN, none infinite), "same", "any".      *)
LRowF(f, x, d, p, er, ed) == [f |-> f, x |-> x, d |-> d, p |-> p, er |-> er, ed |-> ed]
LRow(x, d, p, er, ed) == LRowF("PowReal", x, d, p, er, ed)
LeadTok(T, cls) ==
  CASE cls = "nan"  -> IF T = "dquat" THEN << "nan", "nan", "nan", "nan" >> ELSE << "nan", "nan" >>
    [] cls = "inf"  -> IF T = "dquat" THEN << "inf", "inf", "inf", "inf" >> ELSE << "inf", "inf" >>
    [] cls = "zero" -> IF T = "dquat" THEN << "0", "0", "0", "0" >> ELSE << "0", "0" >>
    [] cls = "one"  -> IF T = "dquat" THEN << "1/1", "0", "0", "0" >> ELSE << "1/1", "0" >>
    [] cls = "mone" -> IF T = "dquat" THEN << "-1/1", "0", "0", "0" >> ELSE << "-1/1", "0" >>
    [] cls = "big"  -> IF T = "dquat" THEN << "2/1", "1/1", "0", "-1/1" >> ELSE << "2/1", "-1/1" >>
    [] cls = "small" -> IF T = "dquat" THEN << "1/4", "1/2", "0", "1/4" >> ELSE << "1/4", "1/2" >>
    [] cls = "gen"  -> IF T = "dquat" THEN << "1/1", "2/1", "-1/1", "1/2" >> ELSE << "1/1", "2/1" >>
DualTok(T, cls) ==
  CASE cls = "zero" -> IF T = "dquat" THEN << "0", "0", "0", "0" >> ELSE << "0", "0" >>
    [] cls = "gen"  -> IF T = "dquat" THEN << "3/1", "-1/1", "2/1", "1/2" >> ELSE << "3/1", "-1/2" >>
LeadRows(T) ==
  << LRow("nan", "gen", "0", "one", "nan"), LRow("nan", "gen", "-0", "one", "nan"),
     LRow("gen", "gen", "0", "one", "any"), LRow("inf", "gen", "0", "one", "any"),
     LRow("gen", "gen", "1/1", "same", "same"), LRow("small", "zero", "1/1", "same", "same"),
     LRow("big", "zero", "inf", "inf", "nan"), LRow("big", "gen", "inf", "inf", "any"),
     LRow("big", "gen", "-inf", "zero", "nan"), LRow("big", "zero", "-inf", "zero", "nan"),
     LRow("small", "gen", "inf", "zero", "nan"), LRow("small", "zero", "inf", "zero", "nan"),
     LRow("small", "zero", "-inf", "inf", "nan"), LRow("small", "gen", "-inf", "inf", "inf"),
     LRow("nan", "gen", "2/1", "nan", "nan"), LRow("gen", "gen", "nan", "nan", "nan"),
     \* Log(+Inf) = (+Inf + 0 eps),  Log(0) = (-Inf +- Inf eps)
     LRowF("Log", "inf", "gen", "0", "inf", "zero"), LRowF("Log", "zero", "gen", "0", "inf", "inf") >>
  \o (IF T = "dcmplx"
      THEN << LRow("zero", "gen", "1/2", "zero", "inf"), LRow("zero", "gen", "-1/1", "zero", "inf"), LRow("zero", "gen", "2/1", "zero", "zero"),
              LRow("inf", "gen", "2/1", "inf", "nan"), LRow("inf", "gen", "-2/1", "zero", "nan"), LRow("zero", "gen", "0", "one", "any"),
              LRow("inf", "gen", "1/1", "inf", "nan"), LRow("mone", "gen", "inf", "one", "any"), LRow("mone", "gen", "-inf", "one", "any") >>
      ELSE <<>>)
LeadSpecCase(cc) == LET r == LeadRows(cc.t)[cc.a] IN
  [kind |-> "lspec", t |-> cc.t, f |-> r.f, x |-> LeadTok(cc.t, r.x) \o DualTok(cc.t, r.d), p |-> r.p, er |-> r.er, ed |-> r.ed, xc |-> r.x, dc |-> r.d]

AbsFuns == {"Inv", "Log", "Sqrt", "SqrtSq", "PowInt", "PowHalf", "Atan", "Atanh", "Asin", "Acos", "Asinh", "Acosh"}
IdFuns  == {"ExpLog", "PowNum2", "LogMul"}
IsZeroArg(cc) == Args(cc.f)[cc.a][1] = Zero
IsLeadType(T) == T \in {"dquat", "dcmplx"}
Case(cc) == IF cc.f = "Special" THEN (IF IsLeadType(cc.t) THEN LeadSpecCase(cc) ELSE SpecCase(cc))
            ELSE IF IsLeadType(cc.t) THEN (IF cc.f \in {"ExpZ", "LogZ"} THEN RelCCase([cc EXCEPT !.f = IF cc.f = "ExpZ" THEN "Exp" ELSE "Log"]) ELSE LeadCase(cc))
            ELSE IF cc.f \in AbsFuns THEN AbsCase(cc)
            ELSE IF cc.f \in IdFuns THEN IdCase(cc)
            ELSE IF IsZeroArg(cc) THEN ZeroCase(cc) ELSE RelCase(cc)

Laws(cc) ==
  IsLeadType(cc.t) \/ cc.f = "Special" \/
  /\ ChainLaw(XOf(cc))
  /\ cc.f \in AbsFuns => TabLaw(cc.f, Args(cc.f)[cc.a][1], Args(cc.f)[cc.a][2], Exponents(cc.f)[cc.e])
  /\ cc.f \in RelFuns => SysLaw(cc.f)
  /\ cc.f = "LogMul" => IdCase(cc).note = "value"

(****************************** state space ********************************)
SpecialStates == IF "Special" \in Funs
                 THEN {[t |-> T, f |-> "Special", a |-> a, e |-> 1, v |-> 0] :
                         T \in Types, a \in 1..200} ELSE {}
NSpecial(T) == IF IsLeadType(T) THEN Len(LeadRows(T)) ELSE Len(SpecRows)
Init == c \in {cc \in SpecialStates : cc.a <= NSpecial(cc.t)} \cup
              {cc \in [t : Types, f : (Funs \ {"Special"}) \cup (IF "dcmplx" \in Types THEN {"ExpZ", "LogZ"} ELSE {}), a : 1..5, e : 1..6, v : 0..NVar-1] :
                 IF IsLeadType(cc.t)
                 THEN \/ cc.f \in {"ExpZ", "LogZ"} /\ cc.t = "dcmplx" /\ cc.e = 1
                      \/ cc.f \in LeadFuns /\ cc.a <= Len(LeadArgs(cc.f)) /\ cc.e <= (IF IsPowF(cc.f) THEN 3 ELSE 1)
                 ELSE cc.f \notin {"ExpZ", "LogZ"} /\ cc.a <= Len(Args(cc.f)) /\ cc.e <= Len(Exponents(cc.f))}
Next == UNCHANGED c
Spec == Init /\ [][Next]_c

Emit == Laws(c) /\ PrintT(ToJson(Case(c)))
=============================================================================
