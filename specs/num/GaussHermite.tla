---------------------------- MODULE GaussHermite ----------------------------
(* Gauss-Hermite quadrature (integrate/quad.Hermite through FixedLocations    *)
(* and quad.Fixed), the default rule of quad.Fixed on (semi-)infinite ranges, *)
(* and the argument contracts of integrate, integrate/quad and interp.        *)
(*                                                                            *)
(* Gauss-Hermite.  The n-point rule integrates x^k e^(-x^2) over the real     *)
(* line exactly for k <= 2n-1.  The exact moments are                         *)
(*      M(k) = 0                               (k odd)                        *)
(*      M(k) = Gamma((k+1)/2) = sqrt(pi) * prod_{j=1..k/2} (2j-1)/2  (k even) *)
(* i.e. RATIONAL multiples of the one constant sqrt(pi); the module prints    *)
(* the rational as its list of factors (it does not fit 32 bits for k > 20)   *)
(* and the harness multiplies by math.Sqrt(math.Pi).  The absolute moments    *)
(* int |x|^k e^(-x^2) (the scale of the rounding allowance) are M(k) for even *)
(* k and ((k-1)/2)! for odd k.  The first moment the rule does NOT reproduce  *)
(* is k = 2n, where its value is M(2n) - n!/2^n (Gauss error term with        *)
(* f^(2n) = (2n)!).                                                           *)
(* What else is rational: n nodes, strictly monotone, mirror images about 0,  *)
(* inside (-sqrt(2n+1), sqrt(2n+1)) (x^2 < 2n+1), equal non-negative weights  *)
(* in mirror pairs (positive while e^(-x^2) does not underflow), weights      *)
(* summing to 1 * sqrt(pi).                                                   *)
(*                                                                            *)
(* R1 (ASSUME, evaluated by TLC): for n = 1, 2, 3 the Gauss-Hermite rule has  *)
(* rational squared nodes and rational weights (units of sqrt(pi)); they      *)
(* satisfy the 2n moment conditions with the M(k) above (which determine the  *)
(* rule) and the stated value at k = 2n; M(k) = k! / ((k/2)! 4^(k/2));        *)
(* the antiderivative identity behind the rational integrals of the default   *)
(* rule's test family.                                                        *)
EXTENDS NRat, FiniteSets, TLC, Json

CONSTANTS Kinds,      \* subset of {"ghs", "ghm", "ginf", "ctr"}
          NSet,       \* node counts of the Gauss-Hermite cases
          KCap,       \* largest moment order
          KAll,       \* 1: every k <= min(2n-1, KCap); 0: a salted selection
          Seed

VARIABLE c

Asc(S) == Force([k \in 1..Cardinality(S) |-> CHOOSE i \in S : Cardinality({j \in S : j < i}) = k - 1])
RProd(s) == LET F[i \in 0..Len(s)] == IF i = 0 THEN One ELSE RMul(F[i-1], s[i]) IN F[Len(s)]
RECURSIVE Fact(_)
Fact(n) == IF n <= 1 THEN 1 ELSE n * Fact(n - 1)

(***************************** exact moments *******************************)
\* even k: factors of M(k)/sqrt(pi);   odd k: factors of the absolute moment ((k-1)/2)!
MFac(k) == Force([j \in 1..(k \div 2) |-> R(2 * j - 1, 2)])
AFac(k) == Force([j \in 1..((k - 1) \div 2) |-> RI(j)])
M(k)    == RProd(MFac(k))                        \* small k only (32-bit integers)
GaussErr(n) == R(Fact(n), IPow(2, n))            \* n!/2^n, n <= 8

\* the Gauss-Hermite rules whose squared nodes are rational: <<x^2, weight / sqrt(pi)>> per node
SmallRule(n) == CASE n = 1 -> << <<Zero, One>> >>
                  [] n = 2 -> << <<R(1, 2), R(1, 2)>>, <<R(1, 2), R(1, 2)>> >>
                  [] n = 3 -> << <<R(3, 2), R(1, 6)>>, <<Zero, R(2, 3)>>, <<R(3, 2), R(1, 6)>> >>
EvenMoment(rule, k) == RSum([i \in 1..Len(rule) |-> RMul(rule[i][2], RPow(rule[i][1], k \div 2))])
ASSUME \A n \in 1..3 :
         /\ \A h \in 0..(n - 1) : EvenMoment(SmallRule(n), 2 * h) = M(2 * h)          \* exact for k <= 2n-1 (odd k vanish by symmetry)
         /\ EvenMoment(SmallRule(n), 2 * n) = RSub(M(2 * n), GaussErr(n))               \* and not beyond
ASSUME \A h \in 0..6 : M(2 * h) = R(Fact(2 * h), Fact(h) * IPow(4, h))
ASSUME \A h \in 1..8 : M(2 * h) = RMul(R(2 * h - 1, 2), M(2 * h - 2))                   \* integration by parts
ASSUME \A n \in 1..8 : RSgn(RSub(M(2 * n), GaussErr(n))) >= 0

KSel(n) == {k \in 0..MinI(2 * n - 1, KCap) :
              \/ KAll = 1
              \/ k \in {0, 1, 2, 3, n - 1, n, 2 * n - 3, 2 * n - 2, 2 * n - 1, KCap - 1, KCap,
                        (Seed * 7 + n * 3) % (2 * n), (Seed * 11 + n * 5 + 1) % (2 * n)}}
KSeq(n) == IF KAll = 1 THEN Force([i \in 1..(MinI(2 * n - 1, KCap) + 1) |-> i - 1]) ELSE Asc(KSel(n))

\* one expected value: zero, or prod(fac) * sqrt(pi); magnitude prod(mag) (* sqrt(pi) if sp)
MomentRow(k) == IF k % 2 = 0 THEN [k |-> k, zero |-> FALSE, fac |-> MFac(k), sp |-> TRUE]
                ELSE [k |-> k, zero |-> TRUE, fac |-> AFac(k), sp |-> FALSE]
SharpRow(n)  == [k |-> 2 * n, zero |-> FALSE, fac |-> << RSub(M(2 * n), GaussErr(n)) >>, sp |-> TRUE]

\* rounding allowance tolu * 2^tole * magnitude.  n <= 200: tabulated rules, a few ulp per term (what "exact
\* on the design class" means in floating point);  n > 200: gonum's asymptotic (Airy) formulas -- the code
\* states no accuracy, its tests use 1e-12 on smooth integrands: 2^-30 relative, two orders of magnitude above
\* the largest error measured there (8.6e-12 at n = 201)
Tolu(n, k) == IF n <= 200 THEN 16 * (n + k + 4) ELSE 1
Tole(n)    == IF n <= 200 THEN -53 ELSE -30
\* reported as <<tolu, -tole>> (cfg/JSON friendly)
\* class of n (only names a failure): gonum tabulates n <= 200 and computes larger rules asymptotically; an
\* odd rule has a node at 0
NClass(n) == IF n <= 20 THEN "n<=20"
             ELSE IF n < 200 THEN (IF n % 2 = 1 THEN "20<n<200,odd" ELSE "20<n<200,even")
             ELSE IF n = 200 THEN "n=200"
             ELSE IF n < 5000 THEN "n>200" ELSE "n>=5000"
GHCase(cc) ==
  LET n == cc.n IN
  IF cc.kind = "ghs"
  THEN [kind |-> "ghs", n |-> n, cls |-> NClass(n),
        bound2 |-> 2 * n + 1,                     \* x_i^2 < 2n+1
        xscale |-> n + 1,                         \* (n+1)^2 >= 2n+1: scale of the mirror-pair allowance
        wpos |-> n <= 350,                        \* beyond, e^(-x^2) at the end nodes underflows: weight 0 is legal
        tolu |-> 2 * (n + 4), ntole |-> 53]
  ELSE LET ks == KSeq(n) IN
       [kind |-> "ghm", n |-> n, cls |-> NClass(n),
        rows |-> Force([i \in 1..Len(ks) |-> MomentRow(ks[i])]) \o (IF n <= 8 THEN << SharpRow(n) >> ELSE <<>>),
        tolus |-> Force([i \in 1..Len(ks) |-> Tolu(n, ks[i])]) \o (IF n <= 8 THEN << Tolu(n, 2 * n) >> ELSE <<>>),
        ntole |-> -Tole(n)]

(************ default rule of quad.Fixed on (semi-)infinite ranges **********)
(* Integrands with rational integrals:                                       *)
(*   rat(m, a) on [a, inf):  (x-a)^m / (1+x-a)^(m+2)   integral 1/(m+1)      *)
(*   its mirror image on (-inf, a]:  (a-x)^m / (1+a-x)^(m+2)                 *)
(*   isq on (-inf, inf):  (1+x^2)^(-3/2) = d/dx [x / sqrt(1+x^2)]  integral 2,*)
(*   and 1 over each half line.                                              *)
(* Antiderivative of rat (s = x-a):  F = s^(m+1) / ((m+1) (1+s)^(m+1)),      *)
(* F(0) = 0, F(inf) = 1/(m+1); quotient rule as a polynomial identity:       *)
(*   (N' D - N D') (1+s)^(m+2) = s^m D^2.                                    *)
RECURSIVE PPow(_, _)
PPow(p, k) == IF k = 0 THEN << One >> ELSE PMul(PPow(p, k - 1), p)
Mono(k) == Force([i \in 1..k+1 |-> IF i = k + 1 THEN One ELSE Zero])
PNeg(p) == PScale(RI(-1), p)
PTrim(p) == LET d == PDeg(p) IN IF d < 0 THEN << Zero >> ELSE SubSeq(p, 1, d + 1)
ASSUME \A m \in 0..4 :
         LET onePlus == << One, One >>
             N == Mono(m + 1)  D == PScale(RI(m + 1), PPow(onePlus, m + 1)) IN
         PTrim(PMul(PAdd(PMul(PDeriv(N), D), PNeg(PMul(N, PDeriv(D)))), PPow(onePlus, m + 2)))
           = PTrim(PMul(Mono(m), PMul(D, D)))
InfCases ==
  {[fam |-> "rat", m |-> m, a |-> a, side |-> s, n |-> n, e |-> R(1, m + 1)] :
      m \in 0..3, a \in {-2, 0, 3}, s \in {"up", "down"}, n \in {12, 40}}
  \cup {[fam |-> "isq", m |-> 0, a |-> 0, side |-> s, n |-> n, e |-> IF s = "both" THEN RI(2) ELSE One] :
      s \in {"up", "down", "both"}, n \in {12, 40}}
\* the documented contract is "an acceptable default is chosen": the allowance leaves room for any
\* reasonable rule of that size (measured errors are in the evidence)
InfCase(cc) == [kind |-> "ginf", fam |-> cc.fam, m |-> cc.m, a |-> cc.a, side |-> cc.side, n |-> cc.n, e |-> cc.e,
                ntole |-> IF cc.n >= 40 THEN 30 ELSE 12]

(**************************** argument contracts ***************************)
(* integrate: "x must be sorted in strictly increasing order, x and f must   *)
(* be of equal length and the length must be at least 2 (Simpsons: 3)";      *)
(* Romberg: "len(f) must be 2^k+1 with k a positive integer, dx positive".   *)
(* interp: "Fit panics if len(xs) < 2 (NotAKnotCubic: 3), elements of xs are *)
(* not strictly increasing or len(xs) != len(ys)".  quad.Fixed: "min must be *)
(* less than or equal to max, and n must be positive, otherwise Fixed will   *)
(* panic"; Legendre: finite bounds; Hermite: the whole real line.            *)
Bounds == << "-inf", "-1", "0", "1", "inf" >>
BIdx(b) == CHOOSE i \in 1..5 : Bounds[i] = b
Finite(b) == b \notin {"-inf", "inf"}
Fitters == {"PiecewiseConstant", "PiecewiseLinear", "PiecewiseCubic", "AkimaSpline", "FritschButland",
            "NaturalCubic", "ClampedCubic", "NotAKnotCubic"}
IsPow2Plus1(n) == n \in {3, 5, 9, 17}
Valid(a) ==
  CASE a.r = "integrate.Trapezoidal" -> a.nx = a.nf /\ a.nx >= 2 /\ a.ord = "inc"
    [] a.r = "integrate.Simpsons"    -> a.nx = a.nf /\ a.nx >= 3 /\ a.ord = "inc"
    [] a.r = "integrate.Romberg"     -> IsPow2Plus1(a.nf) /\ a.dx > 0
    [] a.r \in Fitters               -> a.nx = a.nf /\ a.nx >= (IF a.r = "NotAKnotCubic" THEN 3 ELSE 2) /\ a.ord = "inc"
    [] a.r = "quad.Fixed"            -> a.nx >= 1 /\ BIdx(a.lo) <= BIdx(a.hi)
    [] a.r = "quad.Legendre.FixedLocations"      -> a.nx = a.nf /\ BIdx(a.lo) < BIdx(a.hi) /\ Finite(a.lo) /\ Finite(a.hi)
    [] a.r = "quad.Legendre.FixedLocationSingle" -> BIdx(a.lo) < BIdx(a.hi) /\ Finite(a.lo) /\ Finite(a.hi)
    [] a.r = "quad.Hermite.FixedLocations"       -> a.nx = a.nf /\ a.lo = "-inf" /\ a.hi = "inf"
ArgRec(r, nx, nf, ord, dx, lo, hi) == [r |-> r, nx |-> nx, nf |-> nf, ord |-> ord, dx |-> dx, lo |-> lo, hi |-> hi]
CtrArgs ==
  {ArgRec(r, nx, nf, ord, 1, "0", "1") : r \in {"integrate.Trapezoidal", "integrate.Simpsons"}, nx \in 0..5, nf \in 0..5, ord \in {"inc", "dec"}}
  \* a repeated abscissa: Simpson's weights divide by the panel widths (a zero-width trapezoid panel merely
  \* contributes 0: Trapezoidal is not judged on it)
  \cup {ArgRec("integrate.Simpsons", nx, nx, "flat", 1, "0", "1") : nx \in 3..6}
  \cup {ArgRec("integrate.Romberg", 0, nf, "inc", dx, "0", "1") : nf \in 0..10, dx \in {-1, 0, 1}}
  \cup {ArgRec(r, nx, nf, ord, 1, "0", "1") : r \in Fitters, nx \in 0..4, nf \in 0..4, ord \in {"inc", "dec", "flat"}}
  \cup {ArgRec("quad.Fixed", n, 0, "inc", 1, lo, hi) : n \in {-1, 0, 1, 3}, lo \in {"-1", "0", "1"}, hi \in {"-1", "0", "1"}}
  \cup {ArgRec(r, nx, nf, "inc", 1, Bounds[lo], Bounds[hi]) :
          r \in {"quad.Legendre.FixedLocations", "quad.Hermite.FixedLocations"}, nx \in {0, 2, 3}, nf \in {0, 2, 3}, lo \in 1..5, hi \in 1..5}
  \cup {ArgRec("quad.Legendre.FixedLocationSingle", 3, 3, "inc", 1, Bounds[lo], Bounds[hi]) : lo \in 1..5, hi \in 1..5}
\* a "flat" or "dec" sequence of fewer than 2 points is also increasing: those cases are the same as "inc"
CtrOK(a) == a.nx >= 2 \/ a.ord = "inc"
\* expected outcome: "panic", "ok" (returns), or "zero" (quad.Fixed on an empty interval: the integral is 0)
Expect(a) == IF ~Valid(a) THEN "panic"
             ELSE IF a.r = "quad.Fixed" /\ a.lo = a.hi THEN "zero" ELSE "ok"
CtrCase(a) == [kind |-> "ctr", r |-> a.r, nx |-> a.nx, nf |-> a.nf, ord |-> a.ord, dx |-> a.dx, lo |-> a.lo, hi |-> a.hi,
               expect |-> Expect(a)]

(* interp.Constant and interp.Function: Predict(x) is the constant / the function value.  The function      *)
(* handed over is t |-> a t + b with small dyadic a, b (exact in floating point).                            *)
PredArgs == {[which |-> w, a |-> a, b |-> b, x |-> x] : w \in {"Constant", "Function"}, a \in {R(1, 2), RI(-3)}, b \in {Zero, R(5, 4)},
                                                     x \in {RI(-2), Zero, R(3, 8), RI(7)}}
PredCase(p) == [kind |-> "pred", which |-> p.which, a |-> p.a, b |-> p.b, x |-> p.x,
                e |-> IF p.which = "Constant" THEN p.b ELSE RAdd(RMul(p.a, p.x), p.b)]

(****************************** state space ********************************)
Init ==
  \/ /\ "ctr" \in Kinds
     /\ c \in {[kind |-> "pred"] @@ p : p \in PredArgs}
  \/ /\ "ghs" \in Kinds
     /\ c \in [kind : {"ghs"}, n : NSet]
  \/ /\ "ghm" \in Kinds
     /\ c \in [kind : {"ghm"}, n : NSet]
  \/ /\ "ginf" \in Kinds
     /\ c \in {[kind |-> "ginf"] @@ x : x \in InfCases}
  \/ /\ "ctr" \in Kinds
     /\ c \in {[kind |-> "ctr"] @@ a : a \in {b \in CtrArgs : CtrOK(b)}}
Next == UNCHANGED c
Spec == Init /\ [][Next]_c

Emit == PrintT(ToJson(CASE c.kind \in {"ghs", "ghm"} -> GHCase(c)
                        [] c.kind = "ginf" -> InfCase(c)
                        [] c.kind = "ctr" -> CtrCase(c)
                        [] c.kind = "pred" -> PredCase(c)))
=============================================================================
