----------------------------- MODULE Quadrature -----------------------------
(* Reference semantics of gonum's sampled-data quadrature rules (package      *)
(* integrate: Trapezoidal, Simpsons, Romberg) as their DEFINITIONS over exact *)
(* rationals, and the discrete structure / moment conditions of the n-point   *)
(* Gauss-Legendre rule (integrate/quad.Legendre through quad.Fixed).          *)
(*                                                                            *)
(*  - a grid is a strictly increasing sequence of lattice integers t_1<..<t_n;*)
(*    the abscissae given to gonum are x_i = off + t_i * 2^-s (exact dyadics) *)
(*  - the integrand is a polynomial p(t) with integer coefficients, sampled   *)
(*    on the lattice: f_i = p(t_i)                                            *)
(*  - trapezoid  = integral of the piecewise linear interpolant               *)
(*  - Simpson    = integral of the Lagrange parabola through each pair of     *)
(*    panels; for an even point count the last panel is the parabola through  *)
(*    the last three points integrated over the last interval only            *)
(*  - Romberg    = Richardson tableau T(i,j) over trapezoid sums with 2^i     *)
(*    panels                                                                  *)
(* None of gonum's closed-form weight formulas appear here.                   *)
(*                                                                            *)
(* R1 (Theorems, checked on every enumerated case): the documented exactness  *)
(*    classes: degree <= 1 (trapezoid), <= 2 (Simpson; <= 3 on uniform grids  *)
(*    with an odd point count), <= 2k+1 (Romberg on 2^k+1 samples);           *)
(*    linearity of every rule in the samples (the weights exist).             *)
(* R2 (Emit): one JSON case per state with abscissae, samples, the exact      *)
(*    rational value of the rule and the rounding allowance.                  *)
EXTENDS NRat, FiniteSets, TLC, Json

CONSTANTS Kinds,        \* subset of {"trap", "simp", "romb", "gls", "glm"}
          NMin, NMax,   \* grid sizes (trap, simp)
          DMax,         \* monomials t^0..t^DMax are always enumerated
          NPoly,        \* plus NPoly salted coefficient vectors (degree <= 4)
          VLo, VHi,     \* scale / offset variants VLo..VHi
          Seed,
          GLMin, GLMax, \* Gauss-Legendre: n in GLMin..GLMax
          GLAll         \* 1: every moment k <= 2n-1 ; 0: a salted selection

VARIABLE c

Lattice == -4..4

Asc(S) == Force([k \in 1..Cardinality(S) |-> CHOOSE i \in S : Cardinality({j \in S : j < i}) = k - 1])

(******************************* integrands ********************************)
\* polynomial number pi: monomials first, then salted coefficient vectors in -2..2
Poly(pi) ==
  IF pi <= DMax THEN Force([j \in 1..pi+1 |-> IF j = pi + 1 THEN 1 ELSE 0])
  ELSE Force([j \in 1..5 |-> ((pi * 7 + j * 13 + Seed * 5 + j * j * 3 + ((pi * j) % 3)) % 5) - 2])
IEval(p, t) == LET F[i \in 0..Len(p)] == IF i = 0 THEN 0 ELSE F[i-1] * t + p[Len(p) + 1 - i] IN F[Len(p)]
IDeg(p) == PDeg(PFromInt(p))

(********************************* rules ***********************************)
\* all rules take abscissae t (integers) and samples f (rationals)
Trap(t, f) == RSum([i \in 1..Len(t)-1 |-> RMul(R(t[i+1] - t[i], 2), RAdd(f[i], f[i+1]))])

\* Lagrange parabola through (t0,f0), (t1,f1), (t2,f2) as a polynomial over Q
Lin(r) == <<RI(-r), One>>                                   \* (t - r)
Parab(t0, t1, t2, f0, f1, f2) ==
  PAdd(PAdd(PScale(RDiv(f0, RI((t0 - t1) * (t0 - t2))), PMul(Lin(t1), Lin(t2))),
            PScale(RDiv(f1, RI((t1 - t0) * (t1 - t2))), PMul(Lin(t0), Lin(t2)))),
       PScale(RDiv(f2, RI((t2 - t0) * (t2 - t1))), PMul(Lin(t0), Lin(t1))))
Simp(t, f) ==
  LET n == Len(t)
      full == RSum([j \in 1..((n - 1) \div 2) |->
                 LET i == 2 * j IN
                 PDefInt(Parab(t[i-1], t[i], t[i+1], f[i-1], f[i], f[i+1]), RI(t[i-1]), RI(t[i+1]))])
      last == IF n % 2 = 0
              THEN PDefInt(Parab(t[n-2], t[n-1], t[n], f[n-2], f[n-1], f[n]), RI(t[n-1]), RI(t[n]))
              ELSE Zero
  IN RAdd(full, last)

\* Romberg on 2^k+1 unit-spaced samples f[1..2^k+1]
TrapStep(f, k, i) ==      \* trapezoid sum with 2^i panels of width 2^(k-i)
  LET w == IPow(2, k - i)  m == IPow(2, i) IN
  RMul(RI(w), RAdd(RMul(R(1, 2), RAdd(f[1], f[Len(f)])),
                   RSum([j \in 1..m-1 |-> f[1 + j * w]])))
RECURSIVE Tab(_, _, _, _)
Tab(f, k, i, j) == IF j = 0 THEN TrapStep(f, k, i)
                   ELSE LET q == IPow(4, j) IN
                        RDiv(RSub(RScale(q, Tab(f, k, i, j - 1)), Tab(f, k, i - 1, j - 1)), RI(q - 1))
Romb(f, k) == Tab(f, k, k, k)

Rule(kind, t, f) == CASE kind = "trap" -> Trap(t, f)
                      [] kind = "simp" -> Simp(t, f)
                      [] kind = "romb" -> LET n == Len(f) - 1 IN
                                          Romb(f, CHOOSE k \in 1..4 : IPow(2, k) = n)

\* the rule is linear in the samples: its weights are the values on unit sample vectors
Unit(n, i) == Force([j \in 1..n |-> IF j = i THEN One ELSE Zero])
Weights(kind, t) == Force([i \in 1..Len(t) |-> Rule(kind, t, Unit(Len(t), i))])
\* sum |w_i| |f_i| : the scale of the rounding allowance
Mag(kind, t, f) == LET w == Weights(kind, t) IN RSum([i \in 1..Len(t) |-> RMul(RAbs(w[i]), RAbs(f[i]))])

(************************** case construction ******************************)
\* one state = one (rule, grid, scale/offset variant); it carries every integrand
Scale(v) == CASE v % 4 = 0 -> 0 [] v % 4 = 1 -> 3 [] v % 4 = 2 -> 0 [] OTHER -> 10
Off(v)   == CASE v % 4 = 0 -> Zero [] v % 4 = 1 -> R(-5, 8) [] v % 4 = 2 -> RI(100) [] OTHER -> R(3, 1024)
H(v)     == R(1, IPow(2, Scale(v)))

GridOf(cc) == IF cc.kind = "romb" THEN Force([j \in 1..IPow(2, cc.n)+1 |-> j - 1 - IPow(2, cc.n - 1)]) ELSE Asc(cc.g)
SamplesOf(t, p) == Force([i \in 1..Len(t) |-> IEval(p, t[i])])
ExactInt(t, p)  == PDefInt(PFromInt(p), RI(t[1]), RI(t[Len(t)]))
Uniform(t) == \A i \in 1..Len(t)-2 : t[i+1] - t[i] = t[i+2] - t[i+1]
MaxAbs(f) == CHOOSE m \in {AbsI(f[i]) : i \in 1..Len(f)} : \A i \in 1..Len(f) : AbsI(f[i]) <= m
NP == DMax + 1 + NPoly

\* per integrand: samples, value of the rule (by its definition), exact integral, magnitude
Rows(cc) ==
  LET t == GridOf(cc)  n == Len(t)  w == Weights(cc.kind, t) IN
  Force([pi \in 1..NP |->
    LET p == Poly(pi - 1)  f == SamplesOf(t, p)  fr == PFromInt(f)
        val == Rule(cc.kind, t, fr) IN
    [poly |-> p, deg |-> IDeg(p), f |-> f, val |-> val, ex |-> ExactInt(t, p),
     lin |-> RSum([i \in 1..n |-> RMul(w[i], fr[i])]),
     mag |-> IF cc.kind = "romb" THEN RI((t[n] - t[1]) * MaxAbs(f))
             ELSE RSum([i \in 1..n |-> RMul(RAbs(w[i]), RAbs(fr[i]))]),
     wsum |-> RSum(w)]])

NCCase(cc, rows) ==
  LET t == GridOf(cc)  v == cc.v  n == Len(t) IN
  [kind |-> cc.kind, n |-> n, v |-> v,
   x |-> Force([i \in 1..n |-> RAdd(Off(v), RMul(RI(t[i]), H(v)))]),
   dx |-> H(v),
   \* rounding allowance  tolu * 2^-52 * mag  (0: every operation is exact on dyadic data)
   tolu |-> CASE cc.kind = "trap" -> 0 [] cc.kind = "simp" -> 4 * (n + 8) [] OTHER -> 32 * (cc.n + 1),
   rows |-> Force([i \in 1..Len(rows) |->
              [poly |-> rows[i].poly, deg |-> rows[i].deg, f |-> rows[i].f,
               e |-> RMul(H(v), rows[i].val),                \* exact value of the rule on the scaled grid
               exact |-> (rows[i].val = rows[i].ex),         \* the rule integrates this polynomial exactly
               mag |-> RMul(H(v), rows[i].mag)]])]

(* Gauss-Legendre.  The nodes are irrational for n >= 2, so the specification *)
(* states only what is rational: the number of nodes, that they lie strictly  *)
(* inside (a,b) in strictly monotone order, are mirror images about (a+b)/2 with     *)
(* equal positive weights, that the weights sum to b-a, and the moment        *)
(* conditions  sum_i w_i x_i^k = (b^(k+1) - a^(k+1))/(k+1)  for k <= 2n-1.    *)
Intervals == << <<-1, 1>>, <<0, 1>>, <<-1, 0>>, <<0, 2>>, <<-2, 1>>, <<1, 3>> >>
KCap(iv)  == CASE iv <= 3 -> 1000 [] iv <= 5 -> 28 [] OTHER -> 17      \* keeps b^(k+1) within 31 bits
Moment(a, b, k) == R(IPow(b, k + 1) - IPow(a, k + 1), k + 1)
KSel(n, iv) == {k \in 0..(2 * n - 1) :
                  /\ k <= KCap(iv)
                  /\ \/ GLAll = 1
                     \/ k \in {0, 1, 2, 3, n - 1, n, 2 * n - 3, 2 * n - 2, 2 * n - 1,
                               (Seed * 7 + n * 3) % (2 * n), (Seed * 11 + n * 5 + 1) % (2 * n)}}
\* as an increasing sequence (built directly when every k is selected: sorting a large set is cubic in TLC)
KSeq(n, iv) == IF GLAll = 1 THEN Force([i \in 1..(MinI(2 * n - 1, KCap(iv)) + 1) |-> i - 1]) ELSE Asc(KSel(n, iv))
GLCase(cc) ==
  LET a == Intervals[cc.iv][1]  b == Intervals[cc.iv][2]
      m == MaxI(AbsI(a), AbsI(b)) IN
  IF cc.kind = "gls"
  THEN [kind |-> "gls", n |-> cc.n, a |-> a, b |-> b, sumw |-> RI(b - a), centre2 |-> RI(a + b),
        \* allowance tolu * 2^-53 * scale on node pairs, weight pairs and the weight sum
        scale |-> MaxI(m, b - a), tolu |-> 2 * (cc.n + 4)]
  ELSE [kind |-> "glm", n |-> cc.n, a |-> a, b |-> b, mpow |-> m,
        \* allowance (tolc*(n+k+4)) * 2^-53 * (b-a) * max(|a|,|b|)^k
        tolc |-> 2,
        ks |-> KSeq(cc.n, cc.iv),
        es |-> LET ks == KSeq(cc.n, cc.iv) IN Force([i \in 1..Len(ks) |-> Moment(a, b, ks[i])])]

(****************************** state space ********************************)
Grids == {S \in SUBSET Lattice : Cardinality(S) >= NMin /\ Cardinality(S) <= NMax}
Init ==
  \/ /\ "trap" \in Kinds
     /\ c \in [kind : {"trap"}, g : Grids, v : VLo..VHi]
  \/ /\ "simp" \in Kinds
     /\ c \in [kind : {"simp"}, g : {S \in Grids : Cardinality(S) >= 3}, v : VLo..VHi]
  \/ /\ "romb" \in Kinds
     /\ c \in [kind : {"romb"}, n : 1..3, v : VLo..VHi]
  \/ /\ "gls" \in Kinds
     /\ c \in [kind : {"gls"}, n : GLMin..GLMax, iv : 1..Len(Intervals)]
  \/ /\ "glm" \in Kinds
     /\ c \in [kind : {"glm"}, n : GLMin..GLMax, iv : 1..Len(Intervals)]
Next == UNCHANGED c
Spec == Init /\ [][Next]_c

(******************************** theorems *********************************)
\* R1, on every enumerated (rule, grid) and every integrand:
\*   the documented exactness classes; linearity (the value is sum w_i f_i with the weights
\*   obtained on unit sample vectors, hence exactness on the monomials of a class extends
\*   to every polynomial of the class); the weights sum to the length of the interval.
RowOK(cc, t, r) ==
  LET ok == (r.val = r.ex)  d == r.deg  k == cc.kind IN
  /\ (k = "trap" /\ d <= 1) => ok
  /\ (k = "simp" /\ d <= 2) => ok
  /\ (k = "simp" /\ d <= 3 /\ Uniform(t) /\ Len(t) % 2 = 1) => ok
  /\ (k = "romb" /\ d <= 2 * cc.n + 1) => ok
  /\ r.val = r.lin
  /\ r.wsum = RI(t[Len(t)] - t[1])
\* the moment conditions determine the one-point rule: node (a+b)/2, weight b-a (n = 1 is rational)
GL1(cc) == cc.n = 1 =>
  LET a == Intervals[cc.iv][1]  b == Intervals[cc.iv][2] IN
  \A k \in 0..1 : RMul(RI(b - a), RPow(R(a + b, 2), k)) = Moment(a, b, k)

\* one JSON line per state, printed only if the theorems hold on it
Emit ==
  IF c.kind \in {"gls", "glm"} THEN GL1(c) /\ PrintT(ToJson(GLCase(c)))
  ELSE LET rows == Rows(c)  t == GridOf(c) IN
       /\ \A i \in 1..Len(rows) : RowOK(c, t, rows[i])
       /\ PrintT(ToJson(NCCase(c, rows)))
=============================================================================
