----------------------------- MODULE InterpHist -----------------------------
(* Fit HISTORIES of one predictor value of package interp.                     *)
(*                                                                            *)
(* Every interpolant type is a value with a Fit method (FitWithDerivatives for *)
(* PiecewiseCubic) that may be called again: "Fit fits a predictor to (X, Y)   *)
(* value pairs".  The object is a state machine whose state after a successful *)
(* Fit is THE DATA OF THAT FIT and nothing else:                               *)
(*      Init:           unfitted                                               *)
(*      Fit(x, y) ok:   state' = (x, y)          whatever the state was        *)
(*      Fit fails:      state' = unspecified     (panic on arguments the       *)
(*                      documentation excludes, or an error return: nothing is *)
(*                      promised about the object until the next good Fit)     *)
(*      Predict(q), PredictDerivative(q):  a function of (state, q) alone.     *)
(* Inside the knot range that function is the interpolant of Interp.tla on the  *)
(* state's data (its theorems are checked on the data of EVERY step before the  *)
(* history is printed); outside the knot range the documentation fixes no value *)
(* ("handles both interpolation and extrapolation"), the state machine still    *)
(* says that the value is determined by (state, q): InterpHistTrace.tla judges  *)
(* recorded answers of refitted and of fresh objects by that clause.           *)
(*                                                                            *)
(* A history is a sequence of 2-3 Fit calls on one object with growing, equal   *)
(* and shrinking numbers of knots (dropping knots on the right, on the left, on *)
(* both sides, one knot only), overlapping, nested and disjoint knot ranges,    *)
(* the same knots with other data, and failing calls in between (abscissae not  *)
(* increasing, repeated, too few points, slices of different lengths, the       *)
(* underdetermined not-a-knot problem on 3 knots).  After every good step the   *)
(* queries are those of Interp.tla on the step's data (every knot, x_i + h/2,   *)
(* x_i + h/4) plus every knot and midpoint of the EARLIER steps that lies        *)
(* inside the new range (exact values from the step's pieces), and, for the     *)
(* trace, points outside the new range: before, beyond, and every earlier knot   *)
(* and midpoint that is now outside.                                            *)
EXTENDS Interp

G(t)       == [t |-> t, bad |-> "ok"]
B(kind, t) == [t |-> t, bad |-> kind]

\* knot sequences of the steps; a bad step carries the abscissae handed to the failing call
Hists == <<
  <<G(<<0, 2, 3>>), G(<<-2, -1, 1, 2, 4, 5>>)>>,                          \* 1 grow, overlapping
  <<G(<<0, 1>>), G(<<3, 4, 6, 7, 9>>)>>,                                  \* 2 grow, disjoint
  <<G(<<0, 1, 2, 4>>), G(<<1, 3, 4, 6>>)>>,                               \* 3 equal count, overlapping
  <<G(<<4, 5, 7, 8>>), G(<<-3, -2, 0, 1>>)>>,                             \* 4 equal count, disjoint to the left
  <<G(<<0, 1, 2, 3, 4, 5>>), G(<<0, 1, 2>>)>>,                            \* 5 shrink, knots dropped on the right
  <<G(<<0, 1, 2, 3, 4, 5>>), G(<<3, 4, 5>>)>>,                            \* 6 shrink, knots dropped on the left
  <<G(<<0, 1, 2, 3, 5, 6>>), G(<<1, 2, 4>>)>>,                            \* 7 shrink, new range inside the old one
  <<G(<<0, 1, 2, 3, 4, 5>>), G(<<7, 8, 9>>)>>,                            \* 8 shrink, disjoint to the right
  <<G(<<2, 3, 4, 5, 6, 7>>), G(<<-3, -1>>)>>,                             \* 9 shrink to two knots, disjoint to the left
  <<G(<<0, 1, 2, 3, 4, 5>>), G(<<4, 6, 7, 9>>)>>,                         \* 10 shrink, straddling the old right end
  <<G(<<0, 1, 2, 3, 4, 6>>), G(<<1, 2, 3, 5>>)>>,                         \* 11 shrink 6 -> 4, inside
  <<G(<<0, 1, 2, 3, 4, 5>>), G(<<2, 3>>), G(<<-1, 0, 1, 3, 4, 6>>)>>,     \* 12 shrink, then grow again
  <<G(<<1, 2>>), G(<<0, 1, 3, 4, 5, 7>>), G(<<2, 4, 5>>)>>,               \* 13 grow, then shrink
  <<G(<<0, 1, 2, 3, 4, 5>>), G(<<0, 2, 3, 4, 6>>), G(<<1, 2, 4, 5>>)>>,   \* 14 6 -> 5 -> 4
  <<G(<<0, 1, 3, 4>>), G(<<0, 1, 3, 4>>)>>,                               \* 15 the same knots, other data
  <<G(<<0, 1, 2, 3, 4>>), G(<<0, 1, 2, 3>>)>>,                            \* 16 one knot less on the right
  <<G(<<0, 1, 2, 3, 4>>), G(<<1, 2, 3, 4>>)>>,                            \* 17 one knot less on the left
  <<G(<<0, 1, 2, 3, 4, 5>>), B("unsorted", <<3, 2, 1>>), G(<<1, 2, 4, 5>>)>>,   \* 18 failing call in between
  <<G(<<0, 1, 2, 4, 5, 6>>), B("lens", <<1, 2, 3>>), G(<<0, 1, 2, 4>>)>>,       \* 19
  <<B("short", <<2>>), G(<<0, 1, 3, 4>>)>>,                                     \* 20 failing call on the zero value
  <<G(<<0, 2, 3, 5, 6>>), B("equal", <<1, 2, 2, 3>>), G(<<2, 3, 4, 6>>)>>,      \* 21
  <<G(<<-1, 0, 2, 3, 4, 5>>), G(<<0, 1, 2>>), G(<<1, 2, 4, 5>>)>>               \* 22 through a 3-knot step (not-a-knot: error)
>>

\* what a step is for method m: NotAKnotCubic needs an interior knot (panics on 2 knots) and returns an
\* error on 3 knots (singular system): failing steps of its histories
StepBad(m, st) ==
  IF st.bad # "ok" THEN st.bad
  ELSE IF m = "notaknot" /\ Len(st.t) = 2 THEN "short"
  ELSE IF m = "notaknot" /\ Len(st.t) = 3 THEN "nak3"
  ELSE "ok"
StepDv(dv, k) == (dv + 3 * (k - 1)) % NData

(************************** queries beyond Interp.tla's **********************)
\* knots and midpoints of a knot sequence, as rationals
KnotPts(t) == {RI(t[i]) : i \in 1..Len(t)} \cup {R(t[i] + t[i+1], 2) : i \in 1..Len(t)-1}
\* of all GOOD steps before step k
RECURSIVE EarlierPts(_, _, _)
EarlierPts(m, H, k) == IF k <= 1 THEN {}
                       ELSE EarlierPts(m, H, k - 1) \cup (IF StepBad(m, H[k-1]) = "ok" THEN KnotPts(H[k-1].t) ELSE {})
InsideOpen(t, x) == RLt(RI(t[1]), x) /\ RLt(x, RI(t[Len(t)]))
IsKnot(t, x) == \E i \in 1..Len(t) : RI(t[i]) = x
\* a rational set as a sequence in increasing order
RECURSIVE RAsc(_)
RAsc(S) == IF S = {} THEN <<>> ELSE LET mn == CHOOSE x \in S : \A z \in S : RLe(x, z) IN <<mn>> \o RAsc(S \ {mn})
\* exact answers at points strictly inside the range that are not knots
OnGrid(t, x) == \E i \in 1..Len(t)-1 : x = R(t[i] + t[i+1], 2) \/ x = R(3 * t[i] + t[i+1], 4)    \* asked by Queries already
ExtraInside(m, t, y, P, S) ==
  LET xs == RAsc({x \in S : InsideOpen(t, x) /\ ~IsKnot(t, x) /\ ~OnGrid(t, x)}) IN
  Force([j \in 1..Len(xs) |->
    LET x == xs[j]
        i == CHOOSE i \in 1..Len(t)-1 : RLe(RI(t[i]), x) /\ RLt(x, RI(t[i+1]))
        u == RSub(x, RI(t[i])) IN
    [x |-> x, v |-> PV(P[i], u), d |-> PD(P[i], u), mv |-> AbsPV(P[i], u), md |-> AbsPD(P[i], u), knot |-> FALSE]])
\* points outside the range: before, beyond, and every earlier knot / midpoint that is outside now
Outside(t, S) ==
  LET n == Len(t) IN
  RAsc({RI(t[1] - 1), R(2 * t[1] - 5, 2), R(2 * t[n] + 1, 2), RI(t[n] + 3)}
       \cup {x \in S : RLt(x, RI(t[1])) \/ RLt(RI(t[n]), x)})

(******************************* the history *********************************)
BadArgs(m, st, dv) ==          \* the arguments of a failing call (the harness passes them on as they are)
  LET t == st.t  n == Len(t) IN
  [x |-> t,
   y |-> IF st.bad = "lens" THEN Force([i \in 1..n-1 |-> Salt(i, dv) - 4]) ELSE Force([i \in 1..n |-> Salt(i, dv) - 4]),
   dydx |-> IF m = "pwcubic" THEN GivenDeriv(IF st.bad = "lens" THEN n - 1 ELSE n, dv) ELSE <<>>]
Step(m, H, k, dv) ==
  LET st == H[k]  bad == StepBad(m, st)  dvk == StepDv(dv, k) IN
  IF bad # "ok"
  THEN LET a == IF st.bad = "ok" THEN [x |-> st.t, y |-> Data(st.t, dvk), dydx |-> IF m = "pwcubic" THEN GivenDeriv(Len(st.t), dvk) ELSE <<>>]
                ELSE BadArgs(m, st, dvk) IN
       [bad |-> bad, x |-> a.x, y |-> a.y, dydx |-> a.dydx, ox |-> <<>>, thm |-> TRUE, case |-> [kind |-> "none"]]
  ELSE LET t == st.t  y == Data(t, dvk)  P == Pieces(m, t, y, dvk)  cc == [m |-> m, dv |-> dvk]
           E == EarlierPts(m, H, k) IN
       [bad |-> "ok", x |-> t, y |-> y, dydx |-> IF m = "pwcubic" THEN GivenDeriv(Len(t), dvk) ELSE <<>>,
        ox |-> Outside(t, E), thm |-> Theorems(m, t, y, P, dvk),
        case |-> CaseQ(cc, t, y, P, Queries(m, t, y, P) \o ExtraInside(m, t, y, P, E))]

History(cc) ==
  LET H == Hists[cc.h] IN
  [kind |-> "interphist", m |-> cc.m, h |-> cc.h, dv |-> cc.dv,
   steps |-> Force([k \in 1..Len(H) |-> Step(cc.m, H, k, cc.dv)])]

HInit == c \in [m : Methods, h : 1..Len(Hists), dv : 0..NData-1]
HSpec == HInit /\ [][UNCHANGED c]_c

\* R1: the theorems of Interp.tla hold on the data of every good step; a history has at least one good step,
\* every good step after the first asks something beyond the step's own grid (inside or outside)
HTheorems(hh) ==
  /\ \A k \in 1..Len(hh.steps) : hh.steps[k].thm
  /\ \E k \in 1..Len(hh.steps) : hh.steps[k].bad = "ok"
  /\ \A k \in 2..Len(hh.steps) : hh.steps[k].bad = "ok" => Len(hh.steps[k].ox) >= 4
HEmit == LET hh == History(c) IN
         HTheorems(hh) /\ PrintT(ToJson([kind |-> hh.kind, m |-> hh.m, h |-> hh.h, dv |-> hh.dv,
            steps |-> Force([k \in 1..Len(hh.steps) |->
                        [bad |-> hh.steps[k].bad, x |-> hh.steps[k].x, y |-> hh.steps[k].y, dydx |-> hh.steps[k].dydx,
                         ox |-> hh.steps[k].ox, case |-> hh.steps[k].case]])]))
=============================================================================
