-------------------------- MODULE InterpHistTrace --------------------------
(* R3 (code->spec) acceptor for the object state machine of InterpHist.tla,   *)
(* for the queries whose value the documentation of package interp does not   *)
(* fix (points outside the knots):                                            *)
(*                                                                            *)
(*   the state of a predictor value after a successful Fit is the data of     *)
(*   that Fit; Predict / PredictDerivative are functions of (state, point).   *)
(*                                                                            *)
(* The log holds, per history, the calls made on one value that is fitted      *)
(* again and again (obj 0) and on fresh values (obj 1, 2, ..) fitted once with *)
(* the data of one step.  Real numbers never enter TLC: an answer is the bit   *)
(* pattern of the float64 as a string (or "panic").  The acceptor keeps, per   *)
(* history, the table (method, data, point) -> answer of everything it has     *)
(* seen; an answer that contradicts the table - the same state and the same    *)
(* point, another value: the object remembered something besides the data of   *)
(* its last Fit - has no successor state and the trace is rejected.  A panic   *)
(* is never an answer.  After a failing Fit the state is unspecified and the   *)
(* log must not contain queries until the next successful Fit.                 *)
(* Events: reset | fit(obj, m, x, y, dydx, ok) | predict(obj, qx, v, d)        *)
EXTENDS Integers, Sequences, TLC, TLCExt, Json

TraceLog == ndJsonDeserialize("trace.ndjson")

VARIABLES l,       \* cursor
          state,   \* obj -> [st : {"fitted", "unspecified"}, m, x, y, dydx]
          memo     \* <<m, x, y, dydx, qx>> -> <<v, d>>
vars == <<l, state, memo>>
Ev == TraceLog[l]
Empty == [o \in {} |-> 0]

Reset == /\ l <= Len(TraceLog) /\ Ev.ev = "reset"
         /\ state' = Empty /\ memo' = Empty /\ l' = l + 1

Fit == /\ l <= Len(TraceLog) /\ Ev.ev = "fit"
       /\ state' = (Ev.obj :> [st |-> IF Ev.ok THEN "fitted" ELSE "unspecified",
                               m |-> Ev.m, x |-> Ev.x, y |-> Ev.y, dydx |-> Ev.dydx]) @@ state
       \* one object is one type
       /\ Ev.obj \in DOMAIN state => state[Ev.obj].m = Ev.m
       /\ UNCHANGED memo /\ l' = l + 1

Predict == /\ l <= Len(TraceLog) /\ Ev.ev = "predict"
           /\ Ev.obj \in DOMAIN state /\ state[Ev.obj].st = "fitted"
           /\ Ev.v # "panic" /\ Ev.d # "panic"
           /\ LET s == state[Ev.obj]
                  key == <<s.m, s.x, s.y, s.dydx, Ev.qx>>
                  ans == <<Ev.v, Ev.d>>
              IN  IF key \in DOMAIN memo THEN memo[key] = ans /\ UNCHANGED memo
                  ELSE memo' = (key :> ans) @@ memo
           /\ UNCHANGED state /\ l' = l + 1

TraceInit == l = 1 /\ state = Empty /\ memo = Empty
TraceNext == Reset \/ Fit \/ Predict
TraceSpec == TraceInit /\ [][TraceNext]_vars

Accepted ==
    LET d == TLCGet("stats").diameter IN
    IF d - 1 = Len(TraceLog) THEN PrintT("TRACE-ACCEPTED " \o ToString(Len(TraceLog)))
    ELSE /\ PrintT("TRACE-REJECTED at event " \o ToString(d) \o ": " \o ToString(TraceLog[d]))
         /\ FALSE
=============================================================================
