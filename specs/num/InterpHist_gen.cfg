SPECIFICATION HSpec
CONSTANTS
  Methods = @METHODS@
  NMin = 2
  NMax = 6
  LMax = 6
  NData = @NDATA@
  Seed = @SEED@
INVARIANTS HEmit
CHECK_DEADLOCK FALSE
