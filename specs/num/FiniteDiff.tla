----------------------------- MODULE FiniteDiff -----------------------------
(* Reference semantics of gonum's finite-difference operators (diff/fd) on    *)
(* their exact class: integer-coefficient multivariate polynomials sampled on *)
(* dyadic points with a dyadic step h = 2^-K.                                 *)
(*                                                                            *)
(* A formula is a stencil: a set of (location, coefficient) pairs and the     *)
(* order of the derivative it approximates.  The operators are DEFINED by     *)
(*   D_i^F p (x) = sum_s coef_s * p(x + loc_s*h*e_i) / h^order                *)
(*   Gradient_i = D_i^F p         Jacobian_{r,i} = D_i^F p_r                  *)
(*   Hessian_{i,j} = D_i^F D_j^F p     Laplacian = sum_i D_i^{F2} p           *)
(*   CrossLaplacian = sum_i D_{x_i}^F D_{y_i}^F p(x, y)                       *)
(* All values are exact rationals.  Because every intermediate quantity is a  *)
(* dyadic rational with a short mantissa, a floating-point evaluation of the  *)
(* same definition is exact in any order of accumulation: the value gonum     *)
(* must return is unique and is compared bit for bit.  The value does not     *)
(* depend on the OriginKnown / Concurrent settings: every case is replayed    *)
(* under all four combinations (OriginValue = the spec's p(x)).               *)
(*                                                                            *)
(* R1 (checked on every enumerated case before it is printed):                *)
(*   - each formula differentiates polynomials up to its order exactly:       *)
(*     degree in the differentiated variable <= Ex(F)  =>  D_i^F p = the      *)
(*     symbolic partial derivative (Hessian: mixed entries under the same     *)
(*     condition on both variables, diagonal entries for degree <= Ex(F)+1)   *)
(*   - mutual consistency: trace of the Hessian under Forward / Backward is   *)
(*     the Laplacian under Forward2nd / Backward2nd; the Hessian is symmetric;*)
(*     a Jacobian row is the Gradient of that component                       *)
EXTENDS NRat, FiniteSets, TLC, Json

CONSTANTS Routines,    \* subset of {"Derivative","Gradient","Jacobian","Hessian","Laplacian","CrossLaplacian"}
          DLo, DHi,    \* dimensions
          Ks,          \* step exponents K (h = 2^-K)
          NP,          \* polynomial indices 0..NP-1 (degree 1 + p % 4)
          Seed

VARIABLE c

(******************************** formulas *********************************)
\* stencil points <<loc, coefficient (rational)>>, derivative order, exactness degree
Formula(name) ==
  CASE name = "Forward"     -> [st |-> << <<0, RI(-1)>>, <<1, RI(1)>> >>, der |-> 1, ex |-> 1]
    [] name = "Backward"    -> [st |-> << <<-1, RI(-1)>>, <<0, RI(1)>> >>, der |-> 1, ex |-> 1]
    [] name = "Central"     -> [st |-> << <<-1, R(-1, 2)>>, <<1, R(1, 2)>> >>, der |-> 1, ex |-> 2]
    [] name = "Forward2nd"  -> [st |-> << <<0, RI(1)>>, <<1, RI(-2)>>, <<2, RI(1)>> >>, der |-> 2, ex |-> 2]
    [] name = "Backward2nd" -> [st |-> << <<0, RI(1)>>, <<-1, RI(-2)>>, <<-2, RI(1)>> >>, der |-> 2, ex |-> 2]
    [] name = "Central2nd"  -> [st |-> << <<-1, RI(1)>>, <<0, RI(-2)>>, <<1, RI(1)>> >>, der |-> 2, ex |-> 3]
First  == {"Forward", "Backward", "Central"}
Second == {"Forward2nd", "Backward2nd", "Central2nd"}
FormulasOf(r) == CASE r = "Derivative" -> First \cup Second
                   [] r = "Laplacian"  -> Second
                   [] OTHER            -> First

(****************************** polynomials ********************************)
\* a polynomial in nv variables: sequence of terms [c |-> integer, e |-> exponent vector]
RECURSIVE Vecs(_, _)
\* all exponent vectors of length nv with entries >= 0 and sum <= deg, as a set of sequences
Vecs(nv, deg) == IF nv = 0 THEN {<<>>}
                 ELSE UNION {{Append(v, a) : v \in Vecs(nv - 1, deg - a)} : a \in 0..deg}
SumSeq(e) == LET F[i \in 0..Len(e)] == IF i = 0 THEN 0 ELSE F[i-1] + e[i] IN F[Len(e)]
WSum(e)   == LET F[i \in 0..Len(e)] == IF i = 0 THEN 0 ELSE F[i-1] + (i * i + 2) * e[i] IN F[Len(e)]
CoefOf(e, p) == ((WSum(e) * 7 + p * 11 + Seed * 13 + SumSeq(e) * 3) % 5) - 2
DegOf(p, nv) == LET d == 1 + (p % 4) IN IF nv >= 3 /\ d > 3 THEN 3 ELSE d
SetToSeq(S) == LET RECURSIVE G(_)
                   G(T) == IF T = {} THEN <<>> ELSE LET x == CHOOSE x \in T : TRUE IN <<x>> \o G(T \ {x})
               IN G(S)
PolyTerms(nv, p) ==
  LET es == {e \in Vecs(nv, DegOf(p, nv)) : CoefOf(e, p) # 0} IN
  LET s == SetToSeq(es) IN Force([i \in 1..Len(s) |-> [c |-> CoefOf(s[i], p), e |-> s[i]]])
MaxExp(P, i) == LET S == {P[t].e[i] : t \in 1..Len(P)} IN
                IF S = {} THEN 0 ELSE CHOOSE m \in S : \A a \in S : a <= m
TotDeg(P) == LET S == {SumSeq(P[t].e) : t \in 1..Len(P)} IN
             IF S = {} THEN 0 ELSE CHOOSE m \in S : \A a \in S : a <= m

\* points are m * h with integer vectors m;  p(m*h) = sum_t c_t * prod m_i^e_i * h^|e_t|
Monom(m, e) == LET F[i \in 0..Len(e)] == IF i = 0 THEN 1 ELSE F[i-1] * IPow(m[i], e[i]) IN F[Len(e)]
\* integer numerator over the common denominator 2^(K*dg)
NumAt(P, m, K, dg) ==
  LET F[t \in 0..Len(P)] == IF t = 0 THEN 0
                            ELSE F[t-1] + P[t].c * Monom(m, P[t].e) * IPow(2, K * (dg - SumSeq(P[t].e)))
  IN F[Len(P)]
EvalAt(P, m, K) == LET dg == TotDeg(P) IN R(NumAt(P, m, K, dg), IPow(2, K * dg))

\* symbolic partial derivative with respect to variable i
DTerms(P, i) ==
  LET keep == SelectSeq(P, LAMBDA t : t.e[i] >= 1) IN
  Force([k \in 1..Len(keep) |-> [c |-> keep[k].c * keep[k].e[i], e |-> [keep[k].e EXCEPT ![i] = @ - 1]]])

(******************************* operators *********************************)
Shift(m, i, l) == [m EXCEPT ![i] = @ + l]
HPow(K, n) == RI(IPow(2, K * n))                     \* 1 / h^n
\* D_i^F p at m*h
DAt(F, P, m, K, i) ==
  RMul(HPow(K, F.der),
       RSum([s \in 1..Len(F.st) |-> RMul(F.st[s][2], EvalAt(P, Shift(m, i, F.st[s][1]), K))]))
\* D_i^F D_j^F p at m*h
DDAt(F, P, m, K, i, j) ==
  RMul(HPow(K, 2),
       RSum([s \in 1..Len(F.st) |->
         RSum([u \in 1..Len(F.st) |->
           RMul(RMul(F.st[s][2], F.st[u][2]), EvalAt(P, Shift(Shift(m, i, F.st[s][1]), j, F.st[u][1]), K))])]))

Grad(F, P, m, K)  == Force([i \in 1..Len(m) |-> DAt(F, P, m, K, i)])
Hess(F, P, m, K)  == Force([i \in 1..Len(m) |-> Force([j \in 1..Len(m) |-> DDAt(F, P, m, K, i, j)])])
Lap(F, P, m, K)   == RSum([i \in 1..Len(m) |-> DAt(F, P, m, K, i)])
\* variables 1..d are x, d+1..2d are y
CrossLap(F, P, m, K) == LET d == Len(m) \div 2 IN RSum([i \in 1..d |-> DDAt(F, P, m, K, i, d + i)])

(************************** case construction ******************************)
NVars(cc) == IF cc.r = "CrossLaplacian" THEN 2 * cc.d ELSE cc.d
\* coordinates are half-integers in -1 .. 3/2
XNum(i, cc) == ((i * 5 + cc.p * 3 + Seed * 7 + cc.d) % 6) - 2
Point(cc) == Force([i \in 1..NVars(cc) |-> XNum(i, cc) * IPow(2, cc.k - 1)])          \* m with x = m * 2^-k
P1(cc) == PolyTerms(NVars(cc), cc.p)
P2(cc) == PolyTerms(NVars(cc), cc.p + 1)

Result(cc) ==      \* always a matrix (sequence of rows) of rationals
  LET F == Formula(cc.f)  m == Point(cc)  K == cc.k  P == P1(cc) IN
  CASE cc.r = "Derivative"     -> << <<DAt(F, P, m, K, 1)>> >>
    [] cc.r = "Gradient"       -> << Grad(F, P, m, K) >>
    [] cc.r = "Jacobian"       -> << Grad(F, P, m, K), Grad(F, P2(cc), m, K) >>
    [] cc.r = "Hessian"        -> Hess(F, P, m, K)
    [] cc.r = "Laplacian"      -> << <<Lap(F, P, m, K)>> >>
    [] cc.r = "CrossLaplacian" -> << <<CrossLap(F, P, m, K)>> >>

\* the symbolic derivative the operator approximates
Truth(cc) ==
  LET m == Point(cc)  K == cc.k  P == P1(cc)  n == Len(m)
      D1(Q, i) == EvalAt(DTerms(Q, i), m, K)
      D2(Q, i, j) == EvalAt(DTerms(DTerms(Q, i), j), m, K) IN
  CASE cc.r = "Derivative"     -> << <<IF Formula(cc.f).der = 1 THEN D1(P, 1) ELSE D2(P, 1, 1)>> >>
    [] cc.r = "Gradient"       -> << Force([i \in 1..n |-> D1(P, i)]) >>
    [] cc.r = "Jacobian"       -> << Force([i \in 1..n |-> D1(P, i)]), Force([i \in 1..n |-> D1(P2(cc), i)]) >>
    [] cc.r = "Hessian"        -> Force([i \in 1..n |-> Force([j \in 1..n |-> D2(P, i, j)])])
    [] cc.r = "Laplacian"      -> << <<RSum([i \in 1..n |-> D2(P, i, i)])>> >>
    [] cc.r = "CrossLaplacian" -> << <<RSum([i \in 1..(n \div 2) |-> D2(P, i, (n \div 2) + i)])>> >>

\* is the polynomial inside the exactness class of the formula for this routine?
InClass(cc) ==
  LET F == Formula(cc.f)  P == P1(cc)  n == NVars(cc) IN
  CASE cc.r \in {"Derivative", "Gradient", "Laplacian"} -> \A i \in 1..n : MaxExp(P, i) <= F.ex
    [] cc.r = "Jacobian"       -> \A i \in 1..n : MaxExp(P, i) <= F.ex /\ MaxExp(P2(cc), i) <= F.ex
    [] cc.r = "Hessian"        -> \A i \in 1..n : MaxExp(P, i) <= F.ex
    [] cc.r = "CrossLaplacian" -> \A i \in 1..n : MaxExp(P, i) <= F.ex

Counterpart(f) == CASE f = "Forward" -> "Forward2nd" [] f = "Backward" -> "Backward2nd" [] OTHER -> "none"
Theorems(cc, res) ==
  LET m == Point(cc)  K == cc.k  P == P1(cc)  n == Len(m) IN
  /\ InClass(cc) => res = Truth(cc)
  /\ cc.r = "Hessian" =>
       /\ \A i, j \in 1..n : res[i][j] = res[j][i]
       /\ Counterpart(cc.f) # "none" =>
            RSum([i \in 1..n |-> res[i][i]]) = Lap(Formula(Counterpart(cc.f)), P, m, K)
  /\ cc.r = "Jacobian" => res[1] = Grad(Formula(cc.f), P, m, K)

Case(cc, res) ==
  LET m == Point(cc)  P == P1(cc) IN
  [kind |-> "fd", r |-> cc.r, f |-> cc.f, d |-> cc.d, k |-> cc.k, p |-> cc.p,
   x |-> Force([i \in 1..Len(m) |-> R(m[i], IPow(2, cc.k))]),
   h |-> R(1, IPow(2, cc.k)),
   terms |-> Force([t \in 1..Len(P) |-> <<P[t].c>> \o P[t].e]),
   terms2 |-> IF cc.r = "Jacobian" THEN LET Q == P2(cc) IN Force([t \in 1..Len(Q) |-> <<Q[t].c>> \o Q[t].e]) ELSE <<>>,
   origin |-> EvalAt(P, m, cc.k),
   origin2 |-> IF cc.r = "Jacobian" THEN EvalAt(P2(cc), m, cc.k) ELSE Zero,
   e |-> res,
   exact |-> (res = Truth(cc))]

(****************************** state space ********************************)
DimsOf(r) == CASE r = "Derivative" -> {1} [] r = "CrossLaplacian" -> {d \in DLo..DHi : d <= 2} [] OTHER -> DLo..DHi
Init == c \in {cc \in [r : Routines, f : First \cup Second, d : 1..DHi, k : Ks, p : 0..NP-1] :
                 cc.f \in FormulasOf(cc.r) /\ cc.d \in DimsOf(cc.r)}
Next == UNCHANGED c
Spec == Init /\ [][Next]_c

Emit == LET res == Result(c) IN Theorems(c, res) /\ PrintT(ToJson(Case(c, res)))
=============================================================================
