------------------------------ MODULE NumText ------------------------------
(* Text forms of gonum's hypercomplex numbers: the fmt.Formatter of num/quat, *)
(* num/dual, num/hyperdual, num/dualquat, num/dualcmplx and quat.Parse.       *)
(*                                                                            *)
(* A text is a sequence of one-character strings (the harness concatenates).  *)
(* The module defines positional decimal notation itself:                     *)
(*   - a numeral is a structure [ip, dot, fp, ex] (integer digits, optional   *)
(*     point and fraction digits, optional exponent); NText gives its         *)
(*     characters and NVal its exact rational value  sum d_i 10^i;            *)
(*   - the fixed (%f), scientific (%e) and shortest (%v, %g) numerals of a    *)
(*     rational x are computed from x by division and checked (R1) to have    *)
(*     the value x again.                                                     *)
(* Layout (Go's convention for complex numbers, extended by the unit symbols):*)
(*   quat   (R+Ii+Jj+Kk)     dual  (R+E<eps>)                                 *)
(*   hyperdual (R+A<eps><1>+B<eps><2>+C<eps><1><eps><2>)                      *)
(*   dualquat ((quat)+(quat)<eps>)    dualcmplx ((R+Ii)+(R+Ii)<eps>)          *)
(* where <eps>, <1>, <2> stand for the characters U+03F5, U+2081, U+2082      *)
(* (this module is ASCII; the harness substitutes the three tokens).          *)
(* every component formatted with the verb, precision, width and flags given, *)
(* every component but the first with a forced sign; %#v is the Go-syntax     *)
(* representation Type{Field:value, ...}; an unsupported verb gives            *)
(* %!verb(Type=value).                                                        *)
(* quat.Parse: "The string may be parenthesized and has the format            *)
(* [+-]N+-Ni+-Nj+-Nk. The order of the components is not strict."  The module   *)
(* generates strings of that format (numeral forms d, d.d, .d, d., with       *)
(* exponents, Inf, NaN; every order of the four components; with and without  *)
(* parentheses) with the quaternion they denote, strings that are not of the  *)
(* format (which must be rejected with an error), and the round trip          *)
(* Parse(Format(q)) = q.                                                      *)
EXTENDS NRat, FiniteSets, TLC, Json

CONSTANTS Kinds,      \* subset of {"format", "parse", "reject", "round"}
          NVec,       \* component vectors per type
          NParse,     \* parse strings per numeral set
          Seed

VARIABLE c

(**************************** decimal notation *****************************)
D == << "0", "1", "2", "3", "4", "5", "6", "7", "8", "9" >>
RECURSIVE Dig(_)
Dig(n) == IF n < 10 THEN << n >> ELSE Dig(n \div 10) \o << n % 10 >>             \* digits of a natural number
DText(ds) == Force([i \in 1..Len(ds) |-> D[ds[i] + 1]])
DVal(ds) == LET F[i \in 0..Len(ds)] == IF i = 0 THEN 0 ELSE F[i-1] * 10 + ds[i] IN F[Len(ds)]
RPow10(e) == IF e >= 0 THEN RI(IPow(10, e)) ELSE R(1, IPow(10, -e))
\* numeral: [ip: digits, dot: BOOLEAN, fp: digits, ex: <<>> or <<echar, sign ("" | "+" | "-"), digits>>]
NText(n) == DText(n.ip) \o (IF n.dot THEN << "." >> ELSE <<>>) \o DText(n.fp)
            \o (IF n.ex = <<>> THEN <<>> ELSE << n.ex[1] >> \o (IF n.ex[2] = "" THEN <<>> ELSE << n.ex[2] >>) \o DText(n.ex[3]))
NVal(n) == LET m == RAdd(RI(DVal(n.ip)), RMul(RI(DVal(n.fp)), RPow10(-Len(n.fp))))
               e == IF n.ex = <<>> THEN 0 ELSE (IF n.ex[2] = "-" THEN -1 ELSE 1) * DVal(n.ex[3]) IN
           RMul(m, RPow10(e))
Plain(ip, fp) == [ip |-> ip, dot |-> fp # <<>>, fp |-> fp, ex |-> <<>>]

\* the numerals fmt prints for a non-negative rational x
IsInt(r) == r[2] = 1
\* %.pf : x 10^p must be an integer (no rounding is involved in any case generated here)
FixedOK(x, p) == IsInt(RMul(x, RPow10(p)))
PadZ(ds, w) == Force([i \in 1..(w - Len(ds)) |-> 0]) \o ds
Fixed(x, p) == LET m == RMul(x, RPow10(p))[1]  q == IPow(10, p) IN
               Plain(Dig(m \div q), IF p = 0 THEN <<>> ELSE PadZ(Dig(m % q), p))
\* shortest: the least p with x 10^p an integer (at most 6 decimals, 10^-4 <= x < 10^6 or x = 0: no exponent form)
ShortP(x) == CHOOSE p \in 0..6 : FixedOK(x, p) /\ \A r \in 0..(p - 1) : ~FixedOK(x, r)
ShortOK(x) == (\E p \in 0..6 : FixedOK(x, p)) /\ (x = Zero \/ (RLe(R(1, 10000), x) /\ RLt(x, RI(1000000))))
Short(x) == Fixed(x, ShortP(x))
\* %.pe : d.ddd e+-XX with 1 <= x / 10^e < 10; the mantissa x 10^(p-e) must be an integer
Exp10(x) == IF x = Zero THEN 0 ELSE CHOOSE e \in -4..4 : RLe(RPow10(e), x) /\ RLt(x, RPow10(e + 1))
SciOK(x, p) == x = Zero \/ IsInt(RMul(x, RPow10(p - Exp10(x))))
Sci(x, p, ech) == LET e == Exp10(x)  m == RMul(x, RPow10(p - e))[1]  q == IPow(10, p) IN
                  [ip |-> Dig(m \div q), dot |-> p > 0, fp |-> IF p = 0 THEN <<>> ELSE PadZ(Dig(m % q), p),
                   ex |-> << ech, IF e < 0 THEN "-" ELSE "+", PadZ(Dig(AbsI(e)), 2) >>]

(******************************* formats ***********************************)
\* [verb, prec (-1: none), width (0: none), plus, left, zero]
Fmt(v, p, w, plus, left, zero) == [verb |-> v, prec |-> p, width |-> w, plus |-> plus, left |-> left, zero |-> zero]
Formats == << Fmt("v", -1, 0, FALSE, FALSE, FALSE), Fmt("g", -1, 0, FALSE, FALSE, FALSE), Fmt("G", -1, 0, TRUE, FALSE, FALSE),
              Fmt("f", 2, 0, FALSE, FALSE, FALSE), Fmt("F", 1, 0, FALSE, FALSE, FALSE), Fmt("f", 3, 8, FALSE, FALSE, FALSE),
              Fmt("f", 1, 7, FALSE, TRUE, FALSE), Fmt("f", 2, 8, FALSE, FALSE, TRUE), Fmt("f", 2, 0, TRUE, FALSE, FALSE),
              Fmt("f", 0, 0, FALSE, FALSE, FALSE), Fmt("e", -1, 0, FALSE, FALSE, FALSE), Fmt("e", 1, 0, FALSE, FALSE, FALSE),
              Fmt("E", 2, 12, FALSE, FALSE, FALSE), Fmt("g", -1, 6, FALSE, FALSE, FALSE), Fmt("v", -1, 5, FALSE, TRUE, FALSE) >>
\* the format string itself
FmtText(f) == << "%" >> \o (IF f.zero THEN << "0" >> ELSE <<>>) \o (IF f.plus THEN << "+" >> ELSE <<>>) \o (IF f.left THEN << "-" >> ELSE <<>>)
              \o (IF f.width > 0 THEN DText(Dig(f.width)) ELSE <<>>)
              \o (IF f.prec >= 0 THEN << "." >> \o DText(Dig(f.prec)) ELSE <<>>) \o << f.verb >>

\* a component value: [cls: "fin" | "inf" | "-inf" | "nan", r: rational]
Fin(r) == [cls |-> "fin", r |-> r]
Val(x) == IF x.cls = "fin" THEN x.r ELSE Zero
EffPrec(f) == IF f.verb \in {"e", "E"} /\ f.prec < 0 THEN 6 ELSE f.prec
NumOK(x, f) == x.cls # "fin" \/
               LET a == RAbs(x.r) IN
               CASE f.verb \in {"v", "g", "G"} -> ShortOK(a)
                 [] f.verb \in {"f", "F"}      -> FixedOK(a, f.prec)
                 [] f.verb \in {"e", "E"}      -> SciOK(a, EffPrec(f))
Digits(x, f) == LET a == RAbs(x.r) IN
                CASE f.verb \in {"v", "g", "G"} -> Short(a)
                  [] f.verb \in {"f", "F"}      -> Fixed(a, f.prec)
                  [] f.verb = "e"               -> Sci(a, EffPrec(f), "e")
                  [] f.verb = "E"               -> Sci(a, EffPrec(f), "E")
Spaces(k) == Force([i \in 1..k |-> " "])
Zeros(k)  == Force([i \in 1..k |-> "0"])
\* one component; plus: a sign is always printed.  +Inf always carries its sign; NaN only with plus.
Num(x, f, plus) ==
  LET sign == CASE x.cls = "inf" -> << "+" >> [] x.cls = "-inf" -> << "-" >>
                [] x.cls = "nan" -> IF plus THEN << "+" >> ELSE <<>>
                [] OTHER -> IF RSgn(x.r) < 0 THEN << "-" >> ELSE IF plus THEN << "+" >> ELSE <<>>
      body == CASE x.cls \in {"inf", "-inf"} -> << "I", "n", "f" >> [] x.cls = "nan" -> << "N", "a", "N" >>
                [] OTHER -> NText(Digits(x, f))
      k == f.width - Len(sign) - Len(body) IN
  IF k <= 0 THEN sign \o body
  ELSE IF f.left THEN sign \o body \o Spaces(k)
  ELSE IF f.zero /\ x.cls = "fin" THEN sign \o Zeros(k) \o body
  ELSE Spaces(k) \o sign \o body

UnitsOf(g) == CASE g = "quat"  -> << <<>>, << "i" >>, << "j" >>, << "k" >> >>
                [] g = "cmplx" -> << <<>>, << "i" >> >>
                [] g = "dual"  -> << <<>>, << "<eps>" >> >>
                [] g = "hyper" -> << <<>>, << "<eps>", "<1>" >>, << "<eps>", "<2>" >>, << "<eps>", "<1>", "<eps>", "<2>" >> >>
RECURSIVE Cat(_)
Cat(ss) == IF Len(ss) = 0 THEN <<>> ELSE Head(ss) \o Cat(Tail(ss))
Group(g, xs, f, plus) ==
  << "(" >> \o Cat([i \in 1..Len(xs) |-> Num(xs[i], f, plus \/ i > 1) \o UnitsOf(g)[i]]) \o << ")" >>
Types == << "quat", "dual", "hyper", "dquat", "dcmplx" >>
Dim(T) == CASE T = "quat" -> 4 [] T = "dual" -> 2 [] T = "hyper" -> 4 [] T = "dquat" -> 8 [] T = "dcmplx" -> 4
Layout(T, xs, f) ==
  CASE T \in {"quat", "dual", "hyper"} -> Group(T, xs, f, f.plus)
    [] T = "dquat"  -> << "(" >> \o Group("quat", SubSeq(xs, 1, 4), f, f.plus) \o << "+" >> \o Group("quat", SubSeq(xs, 5, 8), f, TRUE) \o << "<eps>", ")" >>
    [] T = "dcmplx" -> << "(" >> \o Group("cmplx", SubSeq(xs, 1, 2), f, f.plus) \o << "+" >> \o Group("cmplx", SubSeq(xs, 3, 4), f, TRUE) \o << "<eps>", ")" >>

\* %#v: Go-syntax representation
TypeName(T) == CASE T = "quat" -> << "q","u","a","t",".","N","u","m","b","e","r" >>
                 [] T = "dual" -> << "d","u","a","l",".","N","u","m","b","e","r" >>
                 [] T = "hyper" -> << "h","y","p","e","r","d","u","a","l",".","N","u","m","b","e","r" >>
                 [] T = "dquat" -> << "d","u","a","l","q","u","a","t",".","N","u","m","b","e","r" >>
                 [] T = "dcmplx" -> << "d","u","a","l","c","m","p","l","x",".","N","u","m","b","e","r" >>
FieldNames(T) == CASE T = "quat" -> << <<"R","e","a","l">>, <<"I","m","a","g">>, <<"J","m","a","g">>, <<"K","m","a","g">> >>
                   [] T = "dual" -> << <<"R","e","a","l">>, <<"E","m","a","g">> >>
                   [] T = "hyper" -> << <<"R","e","a","l">>, <<"E","1","m","a","g">>, <<"E","2","m","a","g">>, <<"E","1","E","2","m","a","g">> >>
                   [] OTHER -> << <<"R","e","a","l">>, <<"D","u","a","l">> >>
FV == Fmt("v", -1, 0, FALSE, FALSE, FALSE)
Fields(names, vals) == Cat([i \in 1..Len(names) |-> (IF i > 1 THEN << ",", " " >> ELSE <<>>) \o names[i] \o << ":" >> \o vals[i]])
GoFlat(T, xs) == TypeName(T) \o << "{" >> \o Fields(FieldNames(T), [i \in 1..Len(xs) |-> Num(xs[i], FV, FALSE)]) \o << "}" >>
GoSyntax(T, xs) ==
  CASE T \in {"quat", "dual", "hyper"} -> GoFlat(T, xs)
    [] T = "dquat"  -> TypeName(T) \o << "{" >> \o Fields(FieldNames(T), << GoFlat("quat", SubSeq(xs, 1, 4)), GoFlat("quat", SubSeq(xs, 5, 8)) >>) \o << "}" >>
    [] T = "dcmplx" -> TypeName(T) \o << "{" >> \o Fields(FieldNames(T), << Group("cmplx", SubSeq(xs, 1, 2), FV, FALSE), Group("cmplx", SubSeq(xs, 3, 4), FV, FALSE) >>) \o << "}" >>
\* unsupported verb: %!verb(Type=value)
BadVerb(T, xs, verb) == << "%", "!", verb, "(" >> \o TypeName(T) \o << "=" >> \o Layout(T, xs, FV) \o << ")" >>

(******************************* operands **********************************)
FinVals == << Zero, One, RI(-2), R(1, 2), RI(3), R(-3, 4), RI(10), RI(100), R(9, 4), R(-3, 2), R(1, 8), RI(-7), R(5, 2), RI(1000), R(1, 4), R(-1, 2) >>
VecOf(T, v) == Force([i \in 1..Dim(T) |-> Fin(FinVals[((v * 7 + i * 5 + Seed * 3 + v * i + Dim(T)) % Len(FinVals)) + 1])])
SpecialVecs(T) == << Force([i \in 1..Dim(T) |-> [cls |-> "inf", r |-> Zero]]), Force([i \in 1..Dim(T) |-> [cls |-> "nan", r |-> Zero]]),
                     Force([i \in 1..Dim(T) |-> IF i % 2 = 1 THEN [cls |-> "-inf", r |-> Zero] ELSE Fin(RI(i))]) >>
Operand(T, v) == IF v <= NVec THEN VecOf(T, v) ELSE SpecialVecs(T)[v - NVec]
CompJ(x) == [cls |-> x.cls, r |-> x.r]

FormatCase(cc) ==
  LET T == Types[cc.t]  xs == Operand(T, cc.v) IN
  CASE cc.f <= Len(Formats) ->
         [kind |-> "ntext", op |-> "format", t |-> T, x |-> xs, fmt |-> FmtText(Formats[cc.f]), text |-> Layout(T, xs, Formats[cc.f]), names |-> <<>>]
    [] cc.f = Len(Formats) + 1 ->
         [kind |-> "ntext", op |-> "format", t |-> T, x |-> xs, fmt |-> << "%", "#", "v" >>, text |-> GoSyntax(T, xs), names |-> <<>>]
    [] cc.f = Len(Formats) + 2 ->
         [kind |-> "ntext", op |-> "format", t |-> T, x |-> xs, fmt |-> << "%", "d" >>, text |-> BadVerb(T, xs, "d"), names |-> <<>>]
    [] cc.f = Len(Formats) + 3 ->
         [kind |-> "ntext", op |-> "format", t |-> T, x |-> xs, fmt |-> << "%", "s" >>, text |-> BadVerb(T, xs, "s"), names |-> <<>>]
    \* %+v "adds field names": the names must appear in order (punctuation is not documented)
    [] OTHER ->
         [kind |-> "ntext", op |-> "names", t |-> T, x |-> xs, fmt |-> << "%", "+", "v" >>, text |-> <<>>,
          names |-> FieldNames(T)]
NFormats == Len(Formats) + 4
FormatOK(cc) ==
  LET T == Types[cc.t]  xs == Operand(T, cc.v)
      f == IF cc.f <= Len(Formats) THEN Formats[cc.f] ELSE FV IN
  /\ \A i \in 1..Len(xs) : NumOK(xs[i], f)
  /\ cc.v > NVec => (cc.f <= Len(Formats) => Formats[cc.f].verb \in {"v", "g"} /\ ~Formats[cc.f].zero)
\* R1: every printed numeral denotes the component it was computed from
FormatLaw(cc) ==
  LET T == Types[cc.t]  xs == Operand(T, cc.v)
      f == IF cc.f <= Len(Formats) THEN Formats[cc.f] ELSE FV IN
  \A i \in 1..Len(xs) : xs[i].cls = "fin" => NVal(Digits(xs[i], f)) = RAbs(xs[i].r)

(********************************* Parse ***********************************)
\* numeral forms of the documented "N"
Numerals == << Plain(<<1>>, <<>>), Plain(<<2, 5>>, <<>>), Plain(<<0>>, <<>>), Plain(<<2>>, <<5>>), Plain(<<>>, <<5>>),
               [ip |-> <<5>>, dot |-> TRUE, fp |-> <<>>, ex |-> <<>>], Plain(<<1, 0, 0>>, <<2, 5>>), Plain(<<0>>, <<0, 0, 1>>),
               [ip |-> <<1>>, dot |-> FALSE, fp |-> <<>>, ex |-> <<"e", "", <<2>>>>],
               [ip |-> <<1>>, dot |-> FALSE, fp |-> <<>>, ex |-> <<"E", "-", <<2>>>>],
               [ip |-> <<1>>, dot |-> TRUE, fp |-> <<5>>, ex |-> <<"e", "+", <<1>>>>],
               [ip |-> <<>>, dot |-> TRUE, fp |-> <<2, 5>>, ex |-> <<"e", "", <<0, 1>>>>],
               [ip |-> <<7>>, dot |-> TRUE, fp |-> <<>>, ex |-> <<"e", "-", <<1>>>>] >>
\* a term: [neg, num (index into Numerals, or 0 for Inf, -1 for NaN), unit (1 real, 2 i, 3 j, 4 k)]
UnitCh == << <<>>, << "i" >>, << "j" >>, << "k" >> >>
TermBody(t) == IF t.num = 0 THEN << "I", "n", "f" >> ELSE IF t.num = -1 THEN << "N", "a", "N" >> ELSE NText(Numerals[t.num])
TermText(t, first, signed) == (IF t.neg THEN << "-" >> ELSE IF first /\ ~signed THEN <<>> ELSE << "+" >>) \o TermBody(t) \o UnitCh[t.unit]
TermVal(t) == IF t.num = 0 THEN [cls |-> IF t.neg THEN "-inf" ELSE "inf", r |-> Zero]
              ELSE IF t.num = -1 THEN [cls |-> "nan", r |-> Zero]
              ELSE Fin(IF t.neg THEN RNeg(NVal(Numerals[t.num])) ELSE NVal(Numerals[t.num]))
Perms == << <<1,2,3,4>>, <<1,2,4,3>>, <<1,3,2,4>>, <<1,3,4,2>>, <<1,4,2,3>>, <<1,4,3,2>>, <<2,1,3,4>>, <<2,1,4,3>>, <<2,3,1,4>>, <<2,3,4,1>>,
            <<2,4,1,3>>, <<2,4,3,1>>, <<3,1,2,4>>, <<3,1,4,2>>, <<3,2,1,4>>, <<3,2,4,1>>, <<3,4,1,2>>, <<3,4,2,1>>, <<4,1,2,3>>, <<4,1,3,2>>,
            <<4,2,1,3>>, <<4,2,3,1>>, <<4,3,1,2>>, <<4,3,2,1>> >>
\* the s-th string: numerals, signs, order, parentheses, leading sign all derived from s (salted)
NNum == Len(Numerals)
\* fixed strings (s < 0) besides the salted ones: a signed NaN / Inf real part at the end of the string
FixedTerms == << << [neg |-> FALSE, num |-> 1, unit |-> 2], [neg |-> TRUE, num |-> 4, unit |-> 3], [neg |-> FALSE, num |-> 2, unit |-> 4], [neg |-> TRUE, num |-> -1, unit |-> 1] >>,
                 << [neg |-> FALSE, num |-> 1, unit |-> 2], [neg |-> TRUE, num |-> 4, unit |-> 3], [neg |-> FALSE, num |-> 2, unit |-> 4], [neg |-> FALSE, num |-> -1, unit |-> 1] >>,
                 << [neg |-> FALSE, num |-> 1, unit |-> 2], [neg |-> TRUE, num |-> 4, unit |-> 3], [neg |-> FALSE, num |-> 2, unit |-> 4], [neg |-> TRUE, num |-> 0, unit |-> 1] >>,
                 << [neg |-> TRUE, num |-> -1, unit |-> 1], [neg |-> TRUE, num |-> -1, unit |-> 3], [neg |-> FALSE, num |-> 0, unit |-> 4], [neg |-> TRUE, num |-> 0, unit |-> 2] >> >>
PTerms(s) == IF s < 0 THEN FixedTerms[-s] ELSE
  LET perm == Perms[(s % 24) + 1] IN
  Force([p \in 1..4 |->
     LET h == s * 31 + p * 17 + Seed * 13 + s * p
         special == (h % 11 = 0) IN
     [neg |-> (h \div 3) % 2 = 1,
      num |-> IF special THEN (IF (h \div 11) % 2 = 0 THEN 0 ELSE -1) ELSE (h % NNum) + 1,
      unit |-> perm[p]]])
PText(s) == LET ts == PTerms(s)  paren == s >= 0 /\ (s \div 2) % 2 = 0  signed == s >= 0 /\ (s \div 5) % 2 = 0
                body == Cat([p \in 1..4 |-> TermText(ts[p], p = 1, signed)]) IN
            IF paren THEN << "(" >> \o body \o << ")" >> ELSE body
PValue(s) == LET ts == PTerms(s) IN
             Force([u \in 1..4 |-> TermVal(CHOOSE t \in {ts[p] : p \in 1..4} : t.unit = u)])
\* names a failure only: the string ends with a signed NaN real part
PTag(s) == IF PTerms(s)[4].unit = 1 /\ PTerms(s)[4].num = -1 THEN "signed-nan-at-end" ELSE ""
ParseCase(s) == [kind |-> "ntext", op |-> "parse", t |-> "quat", x |-> PValue(s), fmt |-> <<>>, text |-> PText(s), names |-> <<>>, tag |-> PTag(s)]

\* strings that are not of the documented format: a valid body with one defect
Body == << "1", "+", "2", "i", "-", "3", "j", "+", "4", "k" >>
Rejects == << <<>>,                                                           \* empty
              << "(", ")" >>, << "(" >>, << ")" >>,
              << "(" >> \o Body, Body \o << ")" >>, << "(", "(" >> \o Body \o << ")", ")" >>,
              << "1", "+", "2", "i", "+", "3", "i", "+", "4", "k" >>,           \* a component twice
              << "1", "+", "2", "+", "3", "j", "+", "4", "k" >>,               \* the real part twice
              Body \o << "+", "5" >>,                                           \* five terms
              << "1", "+", "+", "2", "i" >> \o SubSeq(Body, 5, 10),             \* two signs
              Body \o << "+" >>,                                                \* dangling sign
              << "1", "+", "2", "i", "3", "j", "+", "4", "k" >>,               \* no sign between terms
              << "1", " ", "+", "2", "i" >> \o SubSeq(Body, 5, 10),             \* blank inside
              << " " >> \o Body,
              << "1", "+", "2", "x", "-", "3", "j", "+", "4", "k" >>,           \* not a unit
              << "a", "b", "c" >>,
              << "1", ".", "2", ".", "3", "+", "2", "i" >> \o SubSeq(Body, 5, 10),  \* not a numeral
              << "1", "e", "+", "i" >> \o SubSeq(Body, 5, 10),                  \* exponent without digits
              << "1", "e", "+", "+", "2", "i" >>,
              << "+" >>, << "-" >>, << "." >>, << "e", "5" >>,
              << "1", "+", "2", "i", "-", "3", "j", "+", "4", "k", "k" >>,      \* unit twice in a row
              << "1", ",", "2", "i" >>,
              << "1", "+", "I", "n", "x", "i" >> \o SubSeq(Body, 5, 10),        \* misspelt Inf / NaN
              << "1", "+", "I", "x" >>, << "1", "+", "I", "n", "f", "x" >>,
              << "1", "+", "N", "a", "x", "i" >> \o SubSeq(Body, 5, 10), << "1", "+", "N", "x" >>, << "1", "+", "N", "a", "N", "x" >>,
              << "1", ".", "x" >>, << "1", "e", "5", "x" >>, << "1", "e", "x" >>, << "x" >>,
              << "1", "+", "I", "n", "f", "i", "n", "i", "t", "y", "i", "-", "3", "j", "+", "4", "k" >> >>
RejectCase(i) == [kind |-> "ntext", op |-> "reject", t |-> "quat", x |-> <<>>, fmt |-> <<>>, text |-> Rejects[i], names |-> <<>>]

\* round trip through Format then Parse
RoundFormats == << Formats[1], Formats[2], Formats[4], Formats[11], Formats[12], Formats[9] >>
RoundOK(cc) == LET xs == Operand("quat", cc.v) IN
               /\ \A i \in 1..4 : NumOK(xs[i], RoundFormats[cc.f])
               /\ cc.v > NVec => RoundFormats[cc.f].verb \in {"v", "g"}
RoundCase(cc) == [kind |-> "ntext", op |-> "round", t |-> "quat", x |-> Operand("quat", cc.v), fmt |-> FmtText(RoundFormats[cc.f]), text |-> <<>>, names |-> <<>>]

(****************************** state space ********************************)
Init ==
  \/ /\ "format" \in Kinds
     /\ c \in {cc \in [kind : {"format"}, t : 1..Len(Types), v : 1..(NVec + 3), f : 1..NFormats] : FormatOK(cc)}
  \/ /\ "parse" \in Kinds
     /\ c \in [kind : {"parse"}, s : (-Len(FixedTerms))..(NParse - 1)]
  \/ /\ "reject" \in Kinds
     /\ c \in [kind : {"reject"}, i : 1..Len(Rejects)]
  \/ /\ "round" \in Kinds
     /\ c \in {cc \in [kind : {"round"}, v : 1..(NVec + 3), f : 1..Len(RoundFormats)] : RoundOK(cc)}
Next == UNCHANGED c
Spec == Init /\ [][Next]_c

\* R1: the numerals of the Parse grid have the values positional notation gives them (spot values), and
\* fmt's numerals computed from a value denote that value
ASSUME /\ NVal(Numerals[4]) = R(5, 2) /\ NVal(Numerals[5]) = R(1, 2) /\ NVal(Numerals[6]) = RI(5)
       /\ NVal(Numerals[7]) = R(401, 4) /\ NVal(Numerals[8]) = R(1, 1000) /\ NVal(Numerals[9]) = RI(100)
       /\ NVal(Numerals[10]) = R(1, 100) /\ NVal(Numerals[11]) = RI(15) /\ NVal(Numerals[12]) = R(5, 2) /\ NVal(Numerals[13]) = R(7, 10)
ASSUME \A i \in 1..Len(FinVals) : LET a == RAbs(FinVals[i]) IN
         /\ ShortOK(a) /\ NVal(Short(a)) = a
         /\ \A p \in 0..3 : FixedOK(a, p) => NVal(Fixed(a, p)) = a
         /\ \A p \in 0..6 : SciOK(a, p) => NVal(Sci(a, p, "e")) = a

Emit == CASE c.kind = "format" -> FormatLaw(c) /\ PrintT(ToJson(FormatCase(c)))
          [] c.kind = "parse"  -> PrintT(ToJson(ParseCase(c.s)))
          [] c.kind = "reject" -> PrintT(ToJson(RejectCase(c.i)))
          [] c.kind = "round"  -> PrintT(ToJson(RoundCase(c)))
=============================================================================
