------------------------------- MODULE Interp -------------------------------
(* Reference semantics of gonum's one-dimensional interpolators (package      *)
(* interp) on integer knots and integer data, over exact rationals.           *)
(*                                                                            *)
(* An interpolant on knots x_1 < .. < x_n is a sequence of n-1 pieces; piece i*)
(* is a cubic a0 + a1 u + a2 u^2 + a3 u^3 in u = x - x_i on [x_i, x_{i+1}].   *)
(*   const    left-continuous step function (value y_{i+1} on (x_i, x_{i+1}])  *)
(*   linear   chord between neighbouring data points                          *)
(*   hermite  the cubic with given end values and end derivatives (used by    *)
(*            pwcubic = given derivatives, akima, fb)                         *)
(*   akima    Akima's derivative estimate with linearly extended end slopes   *)
(*   fb       Fritsch-Butland harmonic-mean derivative, three-point           *)
(*            shape-preserving end derivatives                                *)
(*   natural / clamped / notaknot   C2 cubic splines: second derivatives M    *)
(*            from the continuity equations h_{i-1} M_{i-1} + 2(h_{i-1}+h_i)  *)
(*            M_i + h_i M_{i+1} = 6 (d_i - d_{i-1}) and the boundary rows,    *)
(*            solved by explicit rational elimination                         *)
(* R1 (Theorems, checked on every enumerated case before it is printed):      *)
(*   every interpolant reproduces its data at the knots from both sides;      *)
(*   cubic variants are C1 at interior knots; splines are C2 and satisfy      *)
(*   their boundary conditions (natural: S''=0, clamped: S'=0, not-a-knot:    *)
(*   S''' continuous at the first and last interior knot); linear data is     *)
(*   reproduced by linear, akima, fb, natural and notaknot; quadratic and     *)
(*   cubic data by notaknot (n >= 4); fb never changes the sign of S' inside  *)
(*   a piece and S' has the sign of the data difference (no new extrema),     *)
(*   decided exactly on the derivative quadratic.                             *)
(* R2: query points are the knots and the dyadic points x_i + h/2, x_i + h/4; *)
(*   expected Predict / PredictDerivative values are exact rationals.         *)
EXTENDS NRat, FiniteSets, TLC, Json

CONSTANTS Methods,     \* subset of {"const","linear","pwcubic","akima","fb","natural","clamped","notaknot"}
          NMin, NMax,  \* number of knots
          LMax,        \* knots are subsets of 0..LMax
          NData,       \* data variants 0..NData-1
          Seed

VARIABLE c

Asc(S) == Force([k \in 1..Cardinality(S) |-> CHOOSE i \in S : Cardinality({j \in S : j < i}) = k - 1])

(******************************** data *************************************)
\* variant 0: monotone (with flat stretches), 1: salted non-monotone, 2: cubic, 3: quadratic, 4: line,
\* 5: monotone decreasing steep/flat, >= 6: more salted
Salt(i, dv) == (i * 11 + dv * 7 + Seed * 13 + i * i * 3 + ((i * dv) % 4)) % 9
Data(t, dv) ==
  LET n == Len(t) IN
  CASE dv = 0 -> LET F[i \in 1..n] == IF i = 1 THEN Salt(1, dv) - 4 ELSE F[i-1] + (Salt(i, dv) % 4) IN Force([i \in 1..n |-> F[i]])
    [] dv = 2 -> Force([i \in 1..n |-> t[i] * t[i] * t[i] - 6 * t[i] * t[i] + 5 * t[i] - 2])
    [] dv = 3 -> Force([i \in 1..n |-> 2 * t[i] * t[i] - 7 * t[i] + 1])
    [] dv = 4 -> Force([i \in 1..n |-> 3 * t[i] - 5])
    [] dv = 5 -> LET F[i \in 1..n] == IF i = 1 THEN 20 ELSE F[i-1] - ((Salt(i, dv) % 3) * (Salt(i, dv) % 3)) IN Force([i \in 1..n |-> F[i]])
    [] OTHER  -> Force([i \in 1..n |-> Salt(i, dv) - 4])
GivenDeriv(n, dv) == Force([i \in 1..n |-> (Salt(i + 3, dv + 1) % 7) - 3])

(****************************** building blocks ****************************)
Hs(t)      == Force([i \in 1..Len(t)-1 |-> t[i+1] - t[i]])
Slopes(t, y) == Force([i \in 1..Len(t)-1 |-> R(y[i+1] - y[i], t[i+1] - t[i])])
\* the cubic with p(0)=y0, p(h)=y1, p'(0)=d0, p'(h)=d1
Hermite(y0, y1, d0, d1, h) ==
  LET dl == RSub(y1, y0)  hh == RI(h) IN
  <<y0, d0,
    RDiv(RSub(RScale(3, dl), RMul(RAdd(RScale(2, d0), d1), hh)), RMul(hh, hh)),
    RDiv(RAdd(RScale(-2, dl), RMul(RAdd(d0, d1), hh)), RMul(hh, RMul(hh, hh)))>>
FromDerivs(t, y, d) == Force([i \in 1..Len(t)-1 |-> Hermite(RI(y[i]), RI(y[i+1]), d[i], d[i+1], t[i+1] - t[i])])

\* Gauss-Jordan elimination over Q on an augmented matrix (sequence of rows of n+1 entries)
RECURSIVE Elim(_, _)
Elim(A, k) ==
  LET n == Len(A) IN
  IF k > n THEN A
  ELSE LET p  == CHOOSE r \in k..n : A[r][k] # Zero /\ \A q \in k..(r-1) : A[q][k] = Zero
           sw == [A EXCEPT ![k] = A[p], ![p] = A[k]]
           pr == Force([j \in 1..n+1 |-> RDiv(sw[k][j], sw[k][k])])
           B  == Force([r \in 1..n |-> IF r = k THEN pr
                                      ELSE LET f == sw[r][k] IN
                                           IF f = Zero THEN sw[r]
                                           ELSE Force([j \in 1..n+1 |-> RSub(sw[r][j], RMul(f, pr[j]))])])
       IN Elim(B, k + 1)
Solve(A) == LET B == Elim(A, 1) IN Force([i \in 1..Len(A) |-> B[i][Len(A) + 1]])

\* spline pieces from second derivatives M
FromSecond(t, y, M) ==
  LET s == Slopes(t, y) IN
  Force([i \in 1..Len(t)-1 |->
    LET h == RI(t[i+1] - t[i]) IN
    <<RI(y[i]),
      RSub(s[i], RDiv(RMul(h, RAdd(RScale(2, M[i]), M[i+1])), RI(6))),
      RDiv(M[i], RI(2)),
      RDiv(RSub(M[i+1], M[i]), RScale(6, h))>>])
\* interior continuity rows
SplineRows(t, y, first, last) ==
  LET n == Len(t)  h == Hs(t)  s == Slopes(t, y) IN
  Force([i \in 1..n |->
    IF i = 1 THEN first ELSE IF i = n THEN last
    ELSE Force([j \in 1..n+1 |->
           IF j = i - 1 THEN RI(h[i-1]) ELSE IF j = i THEN RI(2 * (h[i-1] + h[i])) ELSE IF j = i + 1 THEN RI(h[i])
           ELSE IF j = n + 1 THEN RScale(6, RSub(s[i], s[i-1])) ELSE Zero])])
RowOf(n, entries, rhs) == Force([j \in 1..n+1 |-> IF j = n + 1 THEN rhs ELSE IF j \in DOMAIN entries THEN entries[j] ELSE Zero])

Natural(t, y) ==
  LET n == Len(t) IN
  FromSecond(t, y, Solve(SplineRows(t, y, RowOf(n, <<One>>, Zero),
                                           RowOf(n, [j \in {n} |-> One], Zero))))
Clamped(t, y) ==
  LET n == Len(t)  h == Hs(t)  s == Slopes(t, y) IN
  FromSecond(t, y, Solve(SplineRows(t, y,
      RowOf(n, <<RI(2 * h[1]), RI(h[1])>>, RScale(6, s[1])),
      RowOf(n, [j \in {n-1, n} |-> IF j = n THEN RI(2 * h[n-1]) ELSE RI(h[n-1])], RScale(-6, s[n-1])))))
\* n >= 4 (for n = 3 the two not-a-knot conditions coincide and the system is singular)
NotAKnot(t, y) ==
  LET n == Len(t)  h == Hs(t) IN
  FromSecond(t, y, Solve(SplineRows(t, y,
      RowOf(n, <<RI(h[2]), RI(-(h[1] + h[2])), RI(h[1])>>, Zero),
      RowOf(n, [j \in {n-2, n-1, n} |-> IF j = n - 2 THEN RI(h[n-1]) ELSE IF j = n - 1 THEN RI(-(h[n-2] + h[n-1])) ELSE RI(h[n-2])], Zero))))

\* Akima: slopes extended linearly by two on each side; d_i = (w1 m_{i-1} + w2 m_i)/(w1 + w2),
\* w1 = |m_{i+1} - m_i|, w2 = |m_{i-1} - m_{i-2}|; the plain average when both weights vanish
AkimaDerivs(t, y) ==
  LET n == Len(t)  s == Slopes(t, y) IN
  IF n = 2 THEN <<s[1], s[1]>>
  ELSE LET m == [k \in -1..n+1 |->      \* m[k] is the slope of interval k (1..n-1 are real)
                  IF k >= 1 /\ k <= n - 1 THEN s[k]
                  ELSE IF k = 0 THEN RSub(RScale(2, s[1]), s[2])
                  ELSE IF k = -1 THEN RSub(RScale(3, s[1]), RScale(2, s[2]))
                  ELSE IF k = n THEN RSub(RScale(2, s[n-1]), s[n-2])
                  ELSE RSub(RScale(3, s[n-1]), RScale(2, s[n-2]))] IN
       Force([i \in 1..n |->
         LET w1 == RAbs(RSub(m[i+1], m[i]))  w2 == RAbs(RSub(m[i-1], m[i-2])) IN
         IF RAdd(w1, w2) = Zero THEN RDiv(RAdd(m[i-1], m[i]), RI(2))
         ELSE RDiv(RAdd(RMul(w1, m[i-1]), RMul(w2, m[i])), RAdd(w1, w2))])

\* Fritsch-Butland
FBEdge(dE, dI, hE, hI) ==     \* slope/width of the end interval and of its neighbour
  LET g == RDiv(RSub(RMul(RI(2 * hE + hI), dE), RMul(RI(hE), dI)), RI(hE + hI)) IN
  IF RSgn(g) # RSgn(dE) THEN Zero
  ELSE IF RSgn(dE) # RSgn(dI) /\ RLt(RScale(3, RAbs(dE)), RAbs(g)) THEN RScale(3, dE)
  ELSE g
FBDerivs(t, y) ==
  LET n == Len(t)  s == Slopes(t, y)  h == Hs(t) IN
  IF n = 2 THEN <<s[1], s[1]>>
  ELSE Force([i \in 1..n |->
         IF i = 1 THEN FBEdge(s[1], s[2], h[1], h[2])
         ELSE IF i = n THEN FBEdge(s[n-1], s[n-2], h[n-1], h[n-2])
         ELSE IF RSgn(s[i-1]) * RSgn(s[i]) > 0
              THEN RDiv(RI(3 * (h[i-1] + h[i])),
                        RAdd(RDiv(RI(2 * h[i] + h[i-1]), s[i-1]), RDiv(RI(h[i] + 2 * h[i-1]), s[i])))
              ELSE Zero])

Pieces(m, t, y, dv) ==
  CASE m = "const"    -> Force([i \in 1..Len(t)-1 |-> <<RI(y[i+1]), Zero, Zero, Zero>>])
    [] m = "linear"   -> LET s == Slopes(t, y) IN Force([i \in 1..Len(t)-1 |-> <<RI(y[i]), s[i], Zero, Zero>>])
    [] m = "pwcubic"  -> FromDerivs(t, y, PFromInt(GivenDeriv(Len(t), dv)))
    [] m = "akima"    -> FromDerivs(t, y, AkimaDerivs(t, y))
    [] m = "fb"       -> FromDerivs(t, y, FBDerivs(t, y))
    [] m = "natural"  -> Natural(t, y)
    [] m = "clamped"  -> Clamped(t, y)
    [] m = "notaknot" -> NotAKnot(t, y)

(******************************* evaluation ********************************)
PV(a, u)  == PEval(a, u)
PD(a, u)  == PEval(PDeriv(a), u)
PDD(a, u) == PEval(PDeriv(PDeriv(a)), u)
AbsPV(a, u) == RSum([k \in 1..4 |-> RMul(RAbs(a[k]), RPow(u, k - 1))])
AbsPD(a, u) == RSum([k \in 1..3 |-> RMul(RScale(k, RAbs(a[k+1])), RPow(u, k - 1))])

\* queries: every knot, and x_i + h/2, x_i + h/4 inside every piece
Queries(m, t, y, P) ==
  LET n == Len(t)
      atknot == Force([i \in 1..n |->
                  IF i < n THEN [x |-> RI(t[i]), v |-> IF m = "const" THEN RI(y[i]) ELSE PV(P[i], Zero), d |-> PD(P[i], Zero),
                                 mv |-> AbsPV(P[i], Zero), md |-> AbsPD(P[i], Zero), knot |-> TRUE]
                  ELSE LET h == RI(t[n] - t[n-1]) IN
                       [x |-> RI(t[n]), v |-> PV(P[n-1], h), d |-> PD(P[n-1], h),
                        mv |-> AbsPV(P[n-1], h), md |-> AbsPD(P[n-1], h), knot |-> TRUE]])
      inside == Force([k \in 1..2*(n-1) |->
                  LET i == ((k - 1) \div 2) + 1  u == R(t[i+1] - t[i], IF k % 2 = 1 THEN 2 ELSE 4) IN
                  [x |-> RAdd(RI(t[i]), u), v |-> PV(P[i], u), d |-> PD(P[i], u),
                   mv |-> AbsPV(P[i], u), md |-> AbsPD(P[i], u), knot |-> FALSE]])
  IN atknot \o inside

(******************************** theorems *********************************)
IsLine(t, y)  == \A i \in 1..Len(t)-2 : Slopes(t, y)[i] = Slopes(t, y)[i+1]
\* derivative quadratic q(u) = a1 + 2 a2 u + 3 a3 u^2 has constant sign sg (or vanishes) on [0, h]
NoSignChange(a, h, sg) ==
  LET q0 == PD(a, Zero)  q1 == PD(a, RI(h))
      okEnds == RSgn(q0) * sg >= 0 /\ RSgn(q1) * sg >= 0 IN
  /\ okEnds
  /\ sg = 0 => (a[2] = Zero /\ a[3] = Zero /\ a[4] = Zero)
  /\ a[4] # Zero =>
       LET uv == RDiv(RNeg(a[3]), RScale(3, a[4])) IN          \* vertex of q
       (RLt(Zero, uv) /\ RLt(uv, RI(h))) => RSgn(PD(a, uv)) * sg >= 0
Theorems(m, t, y, P, dv) ==
  LET n == Len(t)  h == Hs(t) IN
  /\ m # "const" => \A i \in 1..n-1 : PV(P[i], Zero) = RI(y[i]) /\ PV(P[i], RI(h[i])) = RI(y[i+1])
  /\ m \notin {"const", "linear"} => \A i \in 1..n-2 : PD(P[i], RI(h[i])) = PD(P[i+1], Zero)                 \* C1
  /\ m \in {"natural", "clamped", "notaknot"} => \A i \in 1..n-2 : PDD(P[i], RI(h[i])) = PDD(P[i+1], Zero)   \* C2
  /\ m = "natural" => PDD(P[1], Zero) = Zero /\ PDD(P[n-1], RI(h[n-1])) = Zero
  /\ m = "clamped" => PD(P[1], Zero) = Zero /\ PD(P[n-1], RI(h[n-1])) = Zero
  /\ m = "notaknot" => P[1][4] = P[2][4] /\ P[n-2][4] = P[n-1][4]
  /\ (IsLine(t, y) /\ m \in {"linear", "akima", "fb", "natural", "notaknot"}) =>
        \A i \in 1..n-1 : P[i][3] = Zero /\ P[i][4] = Zero /\ P[i][2] = Slopes(t, y)[1]
  \* data sampled from t^3 - 6t^2 + 5t - 2 (variant 2) or 2t^2 - 7t + 1 (variant 3): not-a-knot returns that polynomial
  /\ (m = "notaknot" /\ dv = 2) => \A i \in 1..n-1 : P[i][4] = One /\ P[i][3] = RI(3 * t[i] - 6)
  /\ (m = "notaknot" /\ dv = 3) => \A i \in 1..n-1 : P[i][4] = Zero /\ P[i][3] = RI(2)
  /\ m = "fb" => \A i \in 1..n-1 : NoSignChange(P[i], h[i], SgnI(y[i+1] - y[i]))

(************************** case construction ******************************)
MaxAbsY(y) == CHOOSE v \in {AbsI(y[i]) : i \in 1..Len(y)} : \A i \in 1..Len(y) : AbsI(y[i]) <= v
\* q: the query records (Queries, possibly extended by a history module)
CaseQ(cc, t, y, P, q) ==
  [kind |-> "interp", m |-> cc.m, n |-> Len(t), dv |-> cc.dv, x |-> t, y |-> y,
   dydx |-> IF cc.m = "pwcubic" THEN GivenDeriv(Len(t), cc.dv) ELSE <<>>,
   \* rounding allowance per query: tolu * 2^-52 * (mv resp. md + ymax)
   tolu |-> IF cc.m = "const" THEN 0 ELSE 256, ymax |-> MaxAbsY(y),
   qx |-> Force([i \in 1..Len(q) |-> q[i].x]), qv |-> Force([i \in 1..Len(q) |-> q[i].v]),
   qd |-> Force([i \in 1..Len(q) |-> q[i].d]), qmv |-> Force([i \in 1..Len(q) |-> q[i].mv]),
   qmd |-> Force([i \in 1..Len(q) |-> q[i].md]), qk |-> Force([i \in 1..Len(q) |-> q[i].knot])]
Case(cc, t, y, P) == CaseQ(cc, t, y, P, Queries(cc.m, t, y, P))

(****************************** state space ********************************)
MinKnots(m) == IF m = "notaknot" THEN 4 ELSE 2
Init == c \in {cc \in [m : Methods, g : {S \in SUBSET (0..LMax) : Cardinality(S) >= NMin /\ Cardinality(S) <= NMax},
                       dv : 0..NData-1] : Cardinality(cc.g) >= MinKnots(cc.m)}
Next == UNCHANGED c
Spec == Init /\ [][Next]_c

Emit == LET t == Asc(c.g)  y == Data(t, c.dv)  P == Pieces(c.m, t, y, c.dv) IN
        Theorems(c.m, t, y, P, c.dv) /\ PrintT(ToJson(Case(c, t, y, P)))
=============================================================================
