SPECIFICATION Spec
CONSTANTS
  Kinds = @KINDS@
  NVec = @NVEC@
  NParse = @NPARSE@
  Seed = @SEED@
INVARIANTS Emit
CHECK_DEADLOCK FALSE
