SPECIFICATION Spec
CONSTANTS
  Routines = @ROUTINES@
  DLo = @DLO@
  DHi = @DHI@
  Ks = @KS@
  NP = @NP@
  Seed = @SEED@
INVARIANTS Emit
CHECK_DEADLOCK FALSE
