SPECIFICATION Spec
CONSTANTS
  Groups = @GROUPS@
  Tier = @TIER@
  Seed = @SEED@
INVARIANTS Emit
CHECK_DEADLOCK FALSE
