SPECIFICATION TraceSpec
POSTCONDITION Accepted
CHECK_DEADLOCK FALSE
