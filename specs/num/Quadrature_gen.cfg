SPECIFICATION Spec
CONSTANTS
  Kinds = @KINDS@
  NMin = @NMIN@
  NMax = @NMAX@
  DMax = @DMAX@
  NPoly = @NPOLY@
  VLo = @VLO@
  VHi = @VHI@
  Seed = @SEED@
  GLMin = @GLMIN@
  GLMax = @GLMAX@
  GLAll = @GLALL@
INVARIANTS Emit
CHECK_DEADLOCK FALSE
