SPECIFICATION Spec
CONSTANTS
  Kinds = @KINDS@
  NSet = @NSET@
  KCap = @KCAP@
  KAll = @KALL@
  Seed = @SEED@
INVARIANTS Emit
CHECK_DEADLOCK FALSE
