---------------------------- MODULE DualAlgebra ----------------------------
(* Arithmetic of gonum's hypercomplex number types over exact rationals:      *)
(*   dual      a + b e            (e^2 = 0)                  num/dual         *)
(*   hyper     a + b e1 + c e2 + d e1e2  (e1^2 = e2^2 = 0)   num/hyperdual    *)
(*   quat      r + x i + y j + z k  (i^2 = j^2 = k^2 = ijk = -1)  num/quat    *)
(*   dquat     q1 + q2 e  with quaternion parts, e central, e^2 = 0           *)
(*   dcmplx    p + q e   with complex parts, e z = conj(z) e, e^2 = 0         *)
(* Every type is an algebra over Q given by the multiplication table of its   *)
(* BASIS elements (BasisMul); the product of two elements is the bilinear     *)
(* extension.  None of gonum's component formulas appear here.                *)
(*                                                                            *)
(* R1 (Laws, checked on every enumerated case before it is printed):          *)
(*   associativity and both distributive laws; commutativity of dual and      *)
(*   hyperdual numbers; e^2 = 0; i^2 = j^2 = k^2 = ijk = -1; e i = - i e for  *)
(*   dcmplx; quaternion conjugation is an anti-automorphism, x conj(x) = N(x),*)
(*   N(xy) = N(x)N(y); the three dual-quaternion conjugations are (anti-)     *)
(*   automorphisms; Inv(x) is a two-sided inverse; Pow(x, n+1) = Pow(x, n) x. *)
(* R2: operands are small integers; sums, differences, products, conjugates   *)
(*   and integer scalings are exact in floating point and compared bit for    *)
(*   bit; inverses and integer powers carry a rounding allowance.             *)
EXTENDS NRat, FiniteSets, TLC, Json

CONSTANTS Types,      \* subset of {"dual", "hyper", "quat", "dquat", "dcmplx"}
          NRand,      \* salted elements per type besides the signed basis elements
          Shard, NShards,   \* only first operands with index i % NShards = Shard are enumerated
          Seed

VARIABLE c

Dim(T) == CASE T = "dual" -> 2 [] T = "hyper" -> 4 [] T = "quat" -> 4 [] T = "dquat" -> 8 [] T = "dcmplx" -> 4

(************************* multiplication tables ***************************)
\* product of basis elements a, b: <<sign, index>> (sign 0: the product vanishes)
QB(a, b) == CASE a = 1 -> <<1, b>> [] b = 1 -> <<1, a>> [] a = b -> <<-1, 1>>
              [] a = 2 /\ b = 3 -> <<1, 4>>  [] a = 3 /\ b = 4 -> <<1, 2>>  [] a = 4 /\ b = 2 -> <<1, 3>>
              [] a = 3 /\ b = 2 -> <<-1, 4>> [] a = 4 /\ b = 3 -> <<-1, 2>> [] a = 2 /\ b = 4 -> <<-1, 3>>
CB(a, b) == IF a = 1 THEN <<1, b>> ELSE IF b = 1 THEN <<1, a>> ELSE <<-1, 1>>        \* 1, i
BasisMul(T, a, b) ==
  CASE T = "dual"  -> IF a = 2 /\ b = 2 THEN <<0, 1>> ELSE <<1, MaxI(a, b)>>
    [] T = "hyper" -> \* index-1 is a bit mask over {e1, e2}
         LET ma == a - 1  mb == b - 1
             overlap == (ma % 2 = 1 /\ mb % 2 = 1) \/ (ma \div 2 = 1 /\ mb \div 2 = 1) IN
         IF overlap THEN <<0, 1>> ELSE <<1, ma + mb + 1>>
    [] T = "quat"  -> QB(a, b)
    [] T = "dquat" -> \* (quaternion unit, power of e), e central
         LET qa == ((a - 1) % 4) + 1  sa == (a - 1) \div 4  qb == ((b - 1) % 4) + 1  sb == (b - 1) \div 4
             q == QB(qa, qb) IN
         IF sa + sb = 2 THEN <<0, 1>> ELSE <<q[1], q[2] + 4 * (sa + sb)>>
    [] T = "dcmplx" -> \* (complex unit, power of e), e z = conj(z) e
         LET za == ((a - 1) % 2) + 1  sa == (a - 1) \div 2  zb == ((b - 1) % 2) + 1  sb == (b - 1) \div 2
             z == CB(za, zb)
             flip == IF sa = 1 /\ zb = 2 THEN -1 ELSE 1 IN
         IF sa + sb = 2 THEN <<0, 1>> ELSE <<flip * z[1], z[2] + 2 * (sa + sb)>>

(**************************** algebra over Q *******************************)
\* elements are sequences of Dim(T) rationals
Lift(x)      == Force([i \in 1..Len(x) |-> RI(x[i])])
OneOf(T)     == Force([i \in 1..Dim(T) |-> IF i = 1 THEN One ELSE Zero])
ZeroOf(T)    == Force([i \in 1..Dim(T) |-> Zero])
Basis(T, a)  == Force([i \in 1..Dim(T) |-> IF i = a THEN One ELSE Zero])
AAdd(x, y)   == Force([i \in 1..Len(x) |-> RAdd(x[i], y[i])])
ASub(x, y)   == Force([i \in 1..Len(x) |-> RSub(x[i], y[i])])
AScale(s, x) == Force([i \in 1..Len(x) |-> RMul(s, x[i])])
ANeg(x)      == AScale(RI(-1), x)
AMul(T, x, y) ==
  LET n == Dim(T) IN
  Force([k \in 1..n |->
    RSum([a \in 1..n |->
      RSum([b \in 1..n |->
        LET bm == BasisMul(T, a, b) IN
        IF bm[1] # 0 /\ bm[2] = k /\ x[a] # Zero /\ y[b] # Zero
        THEN RScale(bm[1], RMul(x[a], y[b])) ELSE Zero])])])
RECURSIVE APow(_, _, _)
APow(T, x, n) == IF n = 0 THEN OneOf(T) ELSE AMul(T, APow(T, x, n - 1), x)

\* conjugations as the documentation defines them
QConjIdx(i) == IF ((i - 1) % 4) = 0 THEN 1 ELSE -1            \* quaternion conjugate: negate i, j, k
Conj(T, x) == CASE T = "quat"   -> Force([i \in 1..4 |-> RScale(QConjIdx(i), x[i])])
                [] T = "dquat"  -> Force([i \in 1..8 |-> RScale(QConjIdx(i) * (IF i > 4 THEN -1 ELSE 1), x[i])])
                [] T = "dcmplx" -> Force([i \in 1..4 |-> IF i = 2 THEN RNeg(x[i]) ELSE x[i]])
ConjDual(x) == Force([i \in 1..8 |-> IF i > 4 THEN RNeg(x[i]) ELSE x[i]])
ConjQuat(x) == Force([i \in 1..8 |-> RScale(QConjIdx(i), x[i])])
Norm2(x)    == RSum([i \in 1..Len(x) |-> RMul(x[i], x[i])])        \* quaternion norm squared

\* inverses, defined from the scalar / quaternion / complex inverse of the leading part
QInv(q)   == AScale(RInv(Norm2(q)), Conj("quat", q))
CInv(z)   == LET n == RAdd(RMul(z[1], z[1]), RMul(z[2], z[2])) IN <<RDiv(z[1], n), RDiv(RNeg(z[2]), n)>>
CMulQ(u, v) == <<RSub(RMul(u[1], v[1]), RMul(u[2], v[2])), RAdd(RMul(u[1], v[2]), RMul(u[2], v[1]))>>
Inv(T, x) ==
  CASE T = "dual"  -> <<RInv(x[1]), RNeg(RDiv(x[2], RMul(x[1], x[1])))>>
    [] T = "hyper" -> LET a == x[1]  a2 == RMul(a, a)  a3 == RMul(a2, a) IN
                      <<RInv(a), RNeg(RDiv(x[2], a2)), RNeg(RDiv(x[3], a2)),
                        RAdd(RNeg(RDiv(x[4], a2)), RDiv(RScale(2, RMul(x[2], x[3])), a3))>>
    [] T = "quat"  -> QInv(x)
    [] T = "dquat" -> LET r == SubSeq(x, 1, 4)  d == SubSeq(x, 5, 8)  ri == QInv(r) IN
                      ri \o ANeg(AMul("quat", AMul("quat", ri, d), ri))
    [] T = "dcmplx" -> LET p == SubSeq(x, 1, 2)  q == SubSeq(x, 3, 4)  pi == CInv(p)
                           \* solve p q' + q conj(p') = 0
                           qq == CMulQ(CMulQ(q, <<pi[1], RNeg(pi[2])>>), pi) IN
                       pi \o <<RNeg(qq[1]), RNeg(qq[2])>>

(******************************* elements **********************************)
\* index 0 .. 2*Dim-1: signed basis elements; then salted integer vectors with entries in -3..3
Salt(T, idx, i) == (((idx * 17 + i * 29 + Seed * 7 + Dim(T) * 3 + idx * i * 5) % 7) - 3)
Elem(T, idx) ==
  LET n == Dim(T) IN
  IF idx < 2 * n THEN Force([i \in 1..n |-> IF i = (idx \div 2) + 1 THEN (IF idx % 2 = 0 THEN 1 ELSE -1) ELSE 0])
  ELSE Force([i \in 1..n |-> Salt(T, idx, i)])
NE(T) == 2 * Dim(T) + NRand
\* invertible with an exactly representable leading inverse: leading part has a power-of-two norm
Pow2(n) == n \in {1, 2, 4, 8, 16, 32}
LeadOK(T, x) == CASE T \in {"dual", "hyper"} -> Pow2(AbsI(x[1]))
                  [] T \in {"quat"}   -> Pow2(x[1] * x[1] + x[2] * x[2] + x[3] * x[3] + x[4] * x[4])
                  [] T = "dquat"      -> Pow2(x[1] * x[1] + x[2] * x[2] + x[3] * x[3] + x[4] * x[4])
                  [] T = "dcmplx"     -> Pow2(x[1] * x[1] + x[2] * x[2])
\* otherwise its leading part is replaced by one of these (non-real, non-commuting) leads
Leads(T) == CASE T \in {"dual", "hyper"} -> << <<2>>, <<-1>>, <<4>>, <<-2>>, <<1>>, <<-4>> >>
              [] T = "dcmplx" -> << <<1, 1>>, <<0, 1>>, <<2, 0>>, <<1, -1>>, <<0, -2>>, <<-2, 2>> >>
              [] OTHER -> << <<1, 1, 1, 1>>, <<0, 1, 0, 0>>, <<1, -1, 0, 0>>, <<0, 0, 1, 1>>, <<1, 1, -1, 1>>, <<0, 2, 0, -2>> >>
Fix(T, x, idx) == IF LeadOK(T, x) THEN x
                  ELSE LET ld == Leads(T)[(idx % 6) + 1] IN
                       Force([i \in 1..Len(x) |-> IF i <= Len(ld) THEN ld[i] ELSE x[i]])
Scalars == <<RI(2), RI(-3), R(1, 2), RI(0), RI(-1)>>
SumAbs(x) == RSum([i \in 1..Len(x) |-> RAbs(x[i])])

UnaryOps(T) == CASE T = "dual"   -> {"Inv", "Scale", "PowReal", "Abs"}
                 [] T = "hyper"  -> {"Inv", "Scale", "PowReal", "Abs"}
                 [] T = "quat"   -> {"Inv", "Scale", "Conj", "AbsQ"}
                 [] T = "dquat"  -> {"Inv", "Scale", "Conj", "ConjDual", "ConjQuat", "PowReal", "SqrtSq", "AbsDQ"}
                 [] T = "dcmplx" -> {"Inv", "Scale", "Conj", "PowReal", "SqrtSq", "AbsDC"}
BinaryOps == {"Add", "Sub", "Mul"}
IsSquare(n) == \E r \in 0..40 : r * r = n
Root(n) == CHOOSE r \in 0..40 : r * r = n

(************************** case construction ******************************)
\* dual quaternions / dual complex numbers raised to a power: the leading part is one of Leads (not a
\* negative real, whose logarithm has no preferred direction), the dual part is generic
WithLead(T, x, idx) == LET ld == Leads(T)[(idx % 6) + 1] IN Force([i \in 1..Len(x) |-> IF i <= Len(ld) THEN ld[i] ELSE x[i]])
(* Modulus.  dualcmplx.Abs is the modulus of the leading complex number; dualquat.Abs returns a dual number. *)
(* Its real part is the modulus of the leading quaternion under every definition; its dual part is judged   *)
(* only where the candidate definitions (|dual part|, and (r . d)/|r| from sqrt(x conj x)) agree: dual part *)
(* lambda r with lambda >= 0.  Operands have integer moduli.                                                 *)
AbsLeads == << <<1, 1, 1, 1>>, <<0, 2, 0, 0>>, <<2, 1, 2, 4>>, <<1, 2, 2, 0>>, <<0, 3, -4, 0>>, <<-2, 0, 0, 0>>, <<4, -2, 2, 1>>, <<1, 0, 0, 0>> >>
AbsCLeads == << <<3, 4>>, <<0, 2>>, <<5, -12>>, <<-4, 3>>, <<1, 0>>, <<-8, -6>>, <<0, -1>>, <<-5, 0>> >>
AbsLambda(i) == i % 4
AbsOperand(cc) == IF cc.op = "AbsDQ" THEN LET r == AbsLeads[(cc.i % 8) + 1] IN r \o Force([k \in 1..4 |-> AbsLambda(cc.i \div 8) * r[k]])
                  ELSE AbsCLeads[(cc.i % 8) + 1] \o << Salt("dcmplx", cc.i, 3), Salt("dcmplx", cc.i, 4) >>
X(cc) == IF cc.op = "Inv" THEN Fix(cc.t, Elem(cc.t, cc.i), cc.i)
         ELSE IF cc.op \in {"AbsDQ", "AbsDC"} THEN AbsOperand(cc)
         ELSE IF cc.op \in {"PowReal", "SqrtSq"} /\ cc.t \in {"dquat", "dcmplx"} THEN WithLead(cc.t, Elem(cc.t, cc.i), cc.i)
         ELSE IF cc.op = "PowReal" /\ Elem(cc.t, cc.i)[1] = 0 THEN [Elem(cc.t, cc.i) EXCEPT ![1] = 3]
         ELSE Elem(cc.t, cc.i)
Y(cc) == Elem(cc.t, cc.j)
Param(cc) == CASE cc.op = "Scale" -> Scalars[(cc.j % Len(Scalars)) + 1]
               [] cc.op = "PowReal" -> RI(cc.j % 5)
               [] OTHER -> Zero
Value(cc) ==
  LET T == cc.t  x == Lift(X(cc))  y == Lift(Y(cc)) IN
  CASE cc.op = "Add" -> AAdd(x, y)
    [] cc.op = "Sub" -> ASub(x, y)
    [] cc.op = "Mul" -> AMul(T, x, y)
    [] cc.op = "Scale" -> AScale(Param(cc), x)
    [] cc.op = "Conj" -> Conj(T, x)
    [] cc.op = "ConjDual" -> ConjDual(x)
    [] cc.op = "ConjQuat" -> ConjQuat(x)
    [] cc.op = "Inv" -> Inv(T, x)
    [] cc.op = "PowReal" -> APow(T, x, cc.j % 5)
    \* Abs of a (hyper)dual number: the number itself if its real part is not negative, else its negation
    [] cc.op = "Abs" -> IF X(cc)[1] < 0 THEN ANeg(x) ELSE x
    \* quaternion modulus, emitted only when it is an integer (checked by Init)
    [] cc.op = "AbsQ" -> <<RI(Root(Norm2(x)[1]))>>
    \* Sqrt(x) Sqrt(x) = x
    [] cc.op = "SqrtSq" -> x
    [] cc.op = "AbsDQ" -> LET n == Root(Norm2(SubSeq(x, 1, 4))[1]) IN <<RI(n), RI(AbsLambda(cc.i \div 8) * n)>>
    [] cc.op = "AbsDC" -> <<RI(Root(Norm2(SubSeq(x, 1, 2))[1]))>>

\* rounding allowance tolu * 2^-52 * mag per component (tolu = 0: the float computation is exact)
Tolu(cc) == CASE cc.op \in {"Inv", "PowReal"} -> (IF cc.t \in {"dquat", "dcmplx"} /\ cc.op = "PowReal" THEN 64 ELSE 16)
              [] cc.op \in {"AbsQ", "AbsDQ", "AbsDC"} -> 4 [] cc.op = "SqrtSq" -> 64 [] OTHER -> 0
Mag(cc, val) ==
  LET x == Lift(X(cc)) IN
  CASE cc.op = "Inv" -> RMul(RAdd(One, SumAbs(x)), RMul(SumAbs(val), RAdd(One, SumAbs(val))))
    [] cc.op = "PowReal" -> RPow(RAdd(One, SumAbs(x)), cc.j % 5)
    [] cc.op = "AbsQ" -> val[1]
    [] cc.op = "AbsDC" -> val[1]
    [] cc.op = "AbsDQ" -> RAdd(val[1], val[2])
    [] cc.op = "SqrtSq" -> RMul(RAdd(One, SumAbs(x)), RAdd(One, SumAbs(x)))
    [] OTHER -> Zero

Case(cc, val) ==
  [kind |-> "alg", t |-> cc.t, op |-> cc.op, x |-> X(cc),
   y |-> IF cc.op \in BinaryOps THEN Y(cc) ELSE <<>>,
   s |-> Param(cc), e |-> val, tolu |-> Tolu(cc), mag |-> Mag(cc, val),
   \* classification used only to name a failure: the quaternion parts of a dual quaternion do not commute
   note |-> IF cc.t = "dquat" /\ cc.op \in {"Inv", "PowReal", "SqrtSq"} /\
               LET x == Lift(X(cc))  r == SubSeq(x, 1, 4)  d == SubSeq(x, 5, 8) IN AMul("quat", r, d) # AMul("quat", d, r)
            THEN "noncommuting-parts" ELSE "value"]

(********************************* laws ************************************)
Laws(cc, val) ==
  LET T == cc.t  x == Lift(X(cc))  y == Lift(Y(cc))
      z == Lift(Elem(T, (cc.i + 2 * cc.j + 1) % NE(T))) IN
  /\ cc.op = "Mul" =>
       /\ AMul(T, val, z) = AMul(T, x, AMul(T, y, z))                               \* associativity
       /\ AMul(T, x, AAdd(y, z)) = AAdd(val, AMul(T, x, z))                         \* left distributivity
       /\ AMul(T, AAdd(x, z), y) = AAdd(val, AMul(T, z, y))                         \* right distributivity
       /\ T \in {"dual", "hyper"} => val = AMul(T, y, x)                           \* commutative types
       /\ T = "quat" => /\ Conj(T, val) = AMul(T, Conj(T, y), Conj(T, x))
                        /\ Norm2(val) = RMul(Norm2(x), Norm2(y))
                        /\ AMul(T, x, Conj(T, x)) = AScale(Norm2(x), OneOf(T))
       /\ T = "dquat" => /\ ConjQuat(val) = AMul(T, ConjQuat(y), ConjQuat(x))
                         /\ ConjDual(val) = AMul(T, ConjDual(x), ConjDual(y))
                         /\ Conj(T, val) = AMul(T, Conj(T, y), Conj(T, x))
                         /\ Conj(T, x) = ConjQuat(ConjDual(x))
  \* anti-commutative dual complex numbers: (p + q e)^n = p^n + ((p^n - conj(p)^n)/(p - conj(p))) q e, the
  \* identity behind f(p + q e) = f(p) + ((f(p) - f(conj p))/(p - conj p)) q e used by DualFun.tla
  /\ (cc.op = "Mul" /\ T = "dcmplx" /\ x[2] # Zero) =>
       \A n \in 2..3 :
         LET pn == SubSeq(APow(T, x, n), 1, 2)
             num == <<Zero, RScale(2, pn[2])>>                 \* p^n - conj(p^n) = 2 i Im(p^n)
             den == <<Zero, RScale(2, x[2])>>                  \* p - conj(p)
             q == SubSeq(x, 3, 4) IN
         SubSeq(APow(T, x, n), 3, 4) = CMulQ(CMulQ(num, CInv(den)), q)
  /\ cc.op = "Inv" => /\ AMul(T, x, val) = OneOf(T)
                      /\ AMul(T, val, x) = OneOf(T)
  /\ cc.op = "PowReal" => APow(T, x, (cc.j % 5) + 1) = AMul(T, val, x)
  \* the dual part is a non-negative multiple of the leading part: (r . d)^2 = |r|^2 |d|^2 and r . d >= 0, so
  \* |d| = (r . d) / |r| and the two candidate definitions of the dual part of the modulus coincide
  /\ cc.op = "AbsDQ" => LET r == SubSeq(x, 1, 4)  d == SubSeq(x, 5, 8)
                             dot == RSum([k \in 1..4 |-> RMul(r[k], d[k])]) IN
                         /\ RMul(dot, dot) = RMul(Norm2(r), Norm2(d)) /\ RSgn(dot) >= 0
                         /\ RMul(val[1], val[1]) = Norm2(r) /\ RMul(val[2], val[2]) = Norm2(d)
  /\ cc.op = "AbsDC" => RMul(val[1], val[1]) = Norm2(SubSeq(x, 1, 2))
  /\ cc.op = "Scale" => val = AMul(T, AScale(Param(cc), OneOf(T)), x)

\* laws of the basis elements
ASSUME /\ AMul("dual", Basis("dual", 2), Basis("dual", 2)) = ZeroOf("dual")
       /\ AMul("hyper", Basis("hyper", 2), Basis("hyper", 2)) = ZeroOf("hyper")
       /\ AMul("hyper", Basis("hyper", 3), Basis("hyper", 3)) = ZeroOf("hyper")
       /\ AMul("hyper", Basis("hyper", 2), Basis("hyper", 3)) = Basis("hyper", 4)
       /\ AMul("hyper", Basis("hyper", 3), Basis("hyper", 2)) = Basis("hyper", 4)
       /\ \A a \in 2..4 : AMul("quat", Basis("quat", a), Basis("quat", a)) = ANeg(OneOf("quat"))
       /\ AMul("quat", AMul("quat", Basis("quat", 2), Basis("quat", 3)), Basis("quat", 4)) = ANeg(OneOf("quat"))
       /\ AMul("dquat", Basis("dquat", 5), Basis("dquat", 5)) = ZeroOf("dquat")
       /\ \A a \in 1..4 : AMul("dquat", Basis("dquat", 5), Basis("dquat", a)) = AMul("dquat", Basis("dquat", a), Basis("dquat", 5))
       /\ AMul("dcmplx", Basis("dcmplx", 3), Basis("dcmplx", 3)) = ZeroOf("dcmplx")
       /\ AMul("dcmplx", Basis("dcmplx", 2), Basis("dcmplx", 2)) = ANeg(OneOf("dcmplx"))
       /\ AMul("dcmplx", Basis("dcmplx", 3), Basis("dcmplx", 2)) = ANeg(AMul("dcmplx", Basis("dcmplx", 2), Basis("dcmplx", 3)))

(****************************** state space ********************************)
Init == \E T \in Types :
          \/ c \in [t : {T}, op : BinaryOps, i : {i \in 0..NE(T)-1 : i % NShards = Shard}, j : 0..NE(T)-1]
          \/ c \in {cc \in [t : {T}, op : UnaryOps(T), i : {i \in 0..NE(T)-1 : i % NShards = Shard}, j : 0..4] :
                      /\ cc.op \in {"Conj", "ConjDual", "ConjQuat", "Inv", "Abs", "AbsQ", "SqrtSq", "AbsDQ", "AbsDC"} => cc.j = 0
                      /\ cc.op = "AbsQ" => IsSquare(Norm2(Lift(Elem(T, cc.i)))[1])}
Next == UNCHANGED c
Spec == Init /\ [][Next]_c

Emit == LET val == Value(c) IN Laws(c, val) /\ PrintT(ToJson(Case(c, val)))
=============================================================================
