------------------------------- MODULE NRat -------------------------------
(* Exact rationals for the C18 specifications: a rational is a pair          *)
(* <<n, d>> with d > 0 and gcd(|n|, d) = 1.  TLC integers are 32 bit and TLC  *)
(* raises an error on overflow (never wraps silently), so every operator      *)
(* cancels common factors BEFORE multiplying.  Polynomials in one variable    *)
(* are sequences of coefficients <<c0, c1, ...>> (integers or rationals).     *)
EXTENDS Integers, Sequences

AbsI(a) == IF a < 0 THEN -a ELSE a
SgnI(a) == IF a < 0 THEN -1 ELSE IF a > 0 THEN 1 ELSE 0
MaxI(a, b) == IF a < b THEN b ELSE a
MinI(a, b) == IF a < b THEN a ELSE b

RECURSIVE Gcd(_, _)
Gcd(a, b) == IF b = 0 THEN a ELSE Gcd(b, a % b)          \* a, b >= 0

RECURSIVE IPow(_, _)
IPow(a, k) == IF k = 0 THEN 1 ELSE a * IPow(a, k - 1)

\* normalise n/d (d # 0)
R(n, d) == LET g == Gcd(AbsI(n), AbsI(d))  s == IF d < 0 THEN -1 ELSE 1 IN
           IF n = 0 THEN <<0, 1>> ELSE <<s * (n \div g), s * (d \div g)>>
RI(n)   == <<n, 1>>
\* TLC represents [i \in 1..n |-> e] lazily and re-evaluates e at every application: force once
Force(f) == SubSeq(f, 1, Len(f))
Zero    == <<0, 1>>
One     == <<1, 1>>

RNeg(a) == <<-a[1], a[2]>>
RAbs(a) == <<AbsI(a[1]), a[2]>>
RSgn(a) == SgnI(a[1])
RMul(a, b) ==
  IF a[1] = 0 \/ b[1] = 0 THEN Zero
  ELSE LET g1 == Gcd(AbsI(a[1]), b[2])  g2 == Gcd(AbsI(b[1]), a[2]) IN
       <<(a[1] \div g1) * (b[1] \div g2), (a[2] \div g2) * (b[2] \div g1)>>
RInv(a) == IF a[1] < 0 THEN <<-a[2], -a[1]>> ELSE <<a[2], a[1]>>      \* a # 0
RDiv(a, b) == RMul(a, RInv(b))
RAdd(a, b) ==
  LET g == Gcd(a[2], b[2])
      n == a[1] * (b[2] \div g) + b[1] * (a[2] \div g) IN
  R(n, (a[2] \div g) * b[2])
RSub(a, b) == RAdd(a, RNeg(b))
RScale(k, a) == RMul(RI(k), a)
REq(a, b) == a = b                                        \* both normalised
RLt(a, b) == RSgn(RSub(a, b)) < 0
RLe(a, b) == RSgn(RSub(a, b)) <= 0
RMax(a, b) == IF RLt(a, b) THEN b ELSE a
RPow(a, k) == <<IPow(a[1], k), IPow(a[2], k)>>

\* sum / fold over a sequence of rationals
RSum(s) == LET F[i \in 0..Len(s)] == IF i = 0 THEN Zero ELSE RAdd(F[i-1], s[i]) IN F[Len(s)]

(***************************** polynomials over Q **************************)
\* p = <<c0, c1, ..., cm>> with rational coefficients
PFromInt(c) == Force([i \in 1..Len(c) |-> RI(c[i])])
PEval(p, x) ==         \* Horner
  LET F[i \in 0..Len(p)] == IF i = 0 THEN Zero ELSE RAdd(RMul(F[i-1], x), p[Len(p) + 1 - i]) IN F[Len(p)]
PDeriv(p) == Force([i \in 1..Len(p)-1 |-> RScale(i, p[i+1])])
PInteg(p) == Force([i \in 1..Len(p)+1 |-> IF i = 1 THEN Zero ELSE RDiv(p[i-1], RI(i-1))])   \* antiderivative, constant 0
PDefInt(p, a, b) == LET q == PInteg(p) IN RSub(PEval(q, b), PEval(q, a))
\* degree (-1 for the zero polynomial)
PDeg(p) == LET S == {i \in 1..Len(p) : p[i] # Zero} IN
           IF S = {} THEN -1 ELSE (CHOOSE i \in S : \A j \in S : j <= i) - 1
PCoef(p, i) == IF i + 1 <= Len(p) THEN p[i+1] ELSE Zero
PAdd(p, q) == Force([i \in 1..MaxI(Len(p), Len(q)) |-> RAdd(PCoef(p, i-1), PCoef(q, i-1))])
PScale(a, p) == Force([i \in 1..Len(p) |-> RMul(a, p[i])])
PMul(p, q) == Force([k \in 1..Len(p)+Len(q)-1 |->
                RSum([i \in 1..Len(p) |-> IF k - i + 1 >= 1 /\ k - i + 1 <= Len(q) THEN RMul(p[i], q[k-i+1]) ELSE Zero])])
=============================================================================
