------------------------------ MODULE QuatFun ------------------------------
(* Elementary functions of quaternions (num/quat: Exp, Log, Pow, PowReal,     *)
(* Sqrt, Sin .. Atanh, Inf, NaN, IsInf, IsNaN, Abs, Inv).                     *)
(*                                                                            *)
(* The values are transcendental; what the module can state over exact        *)
(* rationals is                                                               *)
(*  (closed)  the points where the value is rational: Sqrt of exact squares,  *)
(*            PowReal / Pow with integer exponents (repeated product of the   *)
(*            quaternion algebra given by its basis multiplication table),    *)
(*            f(0), f(1);                                                     *)
(*  (laws)    identities whose right-hand side is rational: the DEFINITIONS   *)
(*            of the functions through the exponential,                       *)
(*              Exp(a + b u) = Exp(a) (Cos(b) + u Sin(b))        (u^2 = -1)   *)
(*              Sin q = (Exp(uq) - Exp(-uq)) (2u)^-1, Cos q = (Exp(uq)+Exp(-uq))/2 *)
(*              Sinh q = (Exp q - Exp -q)/2, Cosh q = (Exp q + Exp -q)/2      *)
(*              Tan = Sin Cos^-1, Tanh = Sinh Cosh^-1                         *)
(*            with u the rational unit vector along the vector part of q (or  *)
(*            any rational unit vector when q is real), the first integrals   *)
(*            Sin^2 + Cos^2 = 1, Cosh^2 - Sinh^2 = 1, Exp(q) Exp(-q) = 1, the *)
(*            inverse pairs f(f^-1(q)) = q, Sqrt(q)^2 = q, the exponent laws  *)
(*            PowReal(q,r)PowReal(q,s) = PowReal(q,r+s), Log(sq) = Log s +    *)
(*            Log q for positive real s, Log(q^-1) = -Log q;                  *)
(*  (symm)    similarity invariance f(u q u^-1) = u f(q) u^-1 for rational    *)
(*            unit quaternions u (the rotated argument is computed here,      *)
(*            exactly), conjugate symmetry f(conj q) = conj f(q), and the     *)
(*            reduction to the real function on real arguments (vector part   *)
(*            exactly zero);                                                  *)
(*  (special) the documented values at 0, the Inf / NaN constructors and the  *)
(*            IsInf / IsNaN / Abs truth tables over component classes.        *)
(* Every check is printed as an expression tree over gonum's own functions    *)
(* plus the exact rational (or special) value the tree must have; the harness *)
(* only interprets the tree.                                                  *)
(*                                                                            *)
(* R1 (checked before a case is printed): the unit quaternions are units and  *)
(* rotation by them is an algebra automorphism fixing the real part and the   *)
(* norm; u along the vector part commutes with q and u^2 = -1; the printed    *)
(* squares / powers / inverses satisfy s*s = q, q^(n+1) = q^n q, q q^-1 = 1.  *)
EXTENDS NRat, FiniteSets, TLC, Json

CONSTANTS Groups,     \* subset of {"def", "pyth", "inv", "sim", "conj", "real", "pow", "special", "cut"}
          Tier,       \* 0 quick, 1 thorough (larger grid)
          Seed

VARIABLE c

(**************************** quaternions over Q ***************************)
QB(a, b) == CASE a = 1 -> <<1, b>> [] b = 1 -> <<1, a>> [] a = b -> <<-1, 1>>
              [] a = 2 /\ b = 3 -> <<1, 4>>  [] a = 3 /\ b = 4 -> <<1, 2>>  [] a = 4 /\ b = 2 -> <<1, 3>>
              [] a = 3 /\ b = 2 -> <<-1, 4>> [] a = 4 /\ b = 3 -> <<-1, 2>> [] a = 2 /\ b = 4 -> <<-1, 3>>
QMul(x, y) == Force([k \in 1..4 |->
                RSum([a \in 1..4 |-> RSum([b \in 1..4 |->
                  LET bm == QB(a, b) IN
                  IF bm[2] = k /\ x[a] # Zero /\ y[b] # Zero THEN RScale(bm[1], RMul(x[a], y[b])) ELSE Zero])])])
QAdd(x, y)   == Force([i \in 1..4 |-> RAdd(x[i], y[i])])
QSub(x, y)   == Force([i \in 1..4 |-> RSub(x[i], y[i])])
QScale(s, x) == Force([i \in 1..4 |-> RMul(s, x[i])])
QNeg(x)      == QScale(RI(-1), x)
QConj(x)     == <<x[1], RNeg(x[2]), RNeg(x[3]), RNeg(x[4])>>
QNorm2(x)    == RSum([i \in 1..4 |-> RMul(x[i], x[i])])
QVec2(x)     == RAdd(RMul(x[2], x[2]), RAdd(RMul(x[3], x[3]), RMul(x[4], x[4])))
QInv(x)      == QScale(RInv(QNorm2(x)), QConj(x))
QOne         == <<One, Zero, Zero, Zero>>
QZero        == <<Zero, Zero, Zero, Zero>>
QReal(a)     == <<a, Zero, Zero, Zero>>
QVecOf(x)    == <<Zero, x[2], x[3], x[4]>>
RECURSIVE QPow(_, _)
QPow(x, n) == IF n = 0 THEN QOne ELSE IF n < 0 THEN QInv(QPow(x, -n)) ELSE QMul(QPow(x, n - 1), x)
IsRealQ(x) == QVec2(x) = Zero
Rot(u, x)  == QMul(QMul(u, x), QConj(u))             \* u a unit: u^-1 = conj u

\* a normalised rational is a square iff its numerator and denominator are
ISq(n) == n >= 0 /\ \E p \in 0..200 : p * p = n
IRoot(n) == CHOOSE p \in 0..200 : p * p = n
IsRSquare(r) == ISq(r[1]) /\ ISq(r[2])
RRoot(r) == R(IRoot(r[1]), IRoot(r[2]))

(******************************* the grid **********************************)
Reals == IF Tier = 0 THEN << Zero, R(1, 2), RI(-1), RI(2) >> ELSE << Zero, R(1, 2), RI(-1), RI(2), R(-1, 4), R(5, 4), RI(-2) >>
\* vector parts: zero, axes, rational norm (so that the unit vector is rational), generic
Vecs == << <<Zero, Zero, Zero>>,
           <<One, Zero, Zero>>, <<Zero, RI(-2), Zero>>, <<Zero, Zero, R(1, 2)>>,
           <<R(2, 3), R(1, 3), R(2, 3)>>, <<RI(1), R(-1, 2), RI(1)>>, <<Zero, R(3, 10), R(-2, 5)>>, <<R(-6, 7), R(2, 7), R(3, 7)>>,
           <<One, One, Zero>>, <<One, RI(-1), R(1, 2)>>, <<R(1, 2), One, RI(-2)>>, <<R(1, 4), R(-1, 4), R(1, 2)>> >>
       \o (IF Tier = 0 THEN <<>> ELSE << <<RI(2), RI(-2), One>>, <<R(1, 8), Zero, R(1, 8)>>, <<R(-1, 2), R(1, 2), R(1, 2)>>, <<Zero, R(5, 13), R(12, 13)>> >>)
GridQ(i, j) == <<Reals[i], Vecs[j][1], Vecs[j][2], Vecs[j][3]>>
\* unit quaternions with rational components
Units == << <<Zero, One, Zero, Zero>>, <<R(1, 2), R(1, 2), R(1, 2), R(1, 2)>>, <<R(3, 5), R(4, 5), Zero, Zero>>,
            <<R(1, 3), R(-2, 3), Zero, R(2, 3)>>, <<Zero, R(2, 7), R(3, 7), R(6, 7)>> >>
\* rational unit vector along the vector part (the vector part has a rational norm), or along i for a real q
HasUnit(q) == IsRSquare(QVec2(q))
UnitOf(q)  == IF IsRealQ(q) THEN <<Zero, One, Zero, Zero>>
              ELSE QScale(RInv(RRoot(QVec2(q))), QVecOf(q))
VLen(q)    == RRoot(QVec2(q))                         \* |vector part|, rational when HasUnit(q)

(*************************** printed expressions ***************************)
L(q)        == <<"q", q>>
LR(a)       == L(QReal(a))
F(f, e)     == <<"f", f, e>>
PowR(e, r)  == <<"powr", e, r>>
PowQ(e, p)  == <<"pow", e, p>>
Mul(a, b)   == <<"mul", a, b>>
Add(a, b)   == <<"add", a, b>>
Sub(a, b)   == <<"sub", a, b>>
Scl(r, e)   == <<"scale", r, e>>
Neg(e)      == Scl(RI(-1), e)
Sp(t)       == <<"sp", t>>                            \* components by class: "inf", "-inf", "nan", "0", "1", "-1", ...
\* checks
Eq(id, e, v, tolu)   == [id |-> id, e |-> e, k |-> "rat", v |-> v, t |-> <<"", "", "", "">>, tolu |-> tolu]
EqZ(id, e, tolu)     == Eq(id, e, QZero, tolu)
EqOrNaN(id, e, v, tolu) == [id |-> id, e |-> e, k |-> "ratnan", v |-> v, t |-> <<"", "", "", "">>, tolu |-> tolu]
EqPM(id, e, v, tolu) == [id |-> id, e |-> e, k |-> "pm", v |-> v, t |-> <<"", "", "", "">>, tolu |-> tolu]
Comps(id, e, t)      == [id |-> id, e |-> e, k |-> "comps", v |-> QZero, t |-> t, tolu |-> 0]
IsInfIs(id, e, b)    == [id |-> id, e |-> e, k |-> IF b THEN "isinf" ELSE "notinf", v |-> QZero, t |-> <<"", "", "", "">>, tolu |-> 0]
IsNaNIs(id, e, b)    == [id |-> id, e |-> e, k |-> IF b THEN "isnan" ELSE "notnan", v |-> QZero, t |-> <<"", "", "", "">>, tolu |-> 0]
AbsIs(id, e, t)      == [id |-> id, e |-> e, k |-> "abs", v |-> QZero, t |-> <<t, "", "", "">>, tolu |-> 0]

RECURSIVE Flatten(_)
Flatten(ss) == IF Len(ss) = 0 THEN <<>> ELSE Head(ss) \o Flatten(Tail(ss))
Opt(b, s) == IF b THEN s ELSE <<>>

(****************************** domains ************************************)
Fwd   == << "Exp", "Sin", "Cos", "Tan", "Sinh", "Cosh", "Tanh" >>
Back  == << "Log", "Sqrt", "Asin", "Acos", "Atan", "Asinh", "Acosh", "Atanh" >>
\* where the function has a value that does not depend on an arbitrary choice of direction, away from poles
\* and branch cuts (the cuts themselves are the group "cut")
Dom(f, q) ==
  LET a == q[1]  v2 == QVec2(q)  real == (v2 = Zero)  pure == (a = Zero /\ ~real) IN
  CASE f \in {"Exp", "Sin", "Cos", "Tan", "Sinh", "Cosh", "Tanh", "Inv"} -> f = "Inv" => q # QZero
    [] f = "Log"   -> ~(real /\ RSgn(a) <= 0)
    [] f = "Sqrt"  -> ~(real /\ RSgn(a) < 0)
    [] f \in {"Asin", "Acos"} -> real => RLe(RAbs(a), One)
    [] f = "Atanh" -> real => RLt(RAbs(a), One)
    [] f = "Atan"  -> pure => RLt(v2, One)
    [] f = "Asinh" -> pure => RLt(v2, One)             \* q^2 = -1 is the branch point of Sqrt(1 + q^2)
    [] f = "Acosh" -> ~real \/ RLe(One, a)           \* real a >= 1: the real function
\* arguments on which the forward function is evaluated far from a pole (conditioning of the identities)
Tame(q) == RLe(QNorm2(q), RI(10))

(******************************* checks ************************************)
\* definitions through the exponential (q = a + b u)
DefChecks(q) ==
  LET u == UnitOf(q)  a == q[1]  b == IF IsRealQ(q) THEN Zero ELSE VLen(q)
      uq == QMul(u, q)
      ep == F("Exp", L(uq))  em == F("Exp", L(QNeg(uq)))
      xp == F("Exp", L(q))   xm == F("Exp", L(QNeg(q)))
      half == R(1, 2) IN
  << EqZ("Exp:euler", Sub(xp, Mul(F("Exp", LR(a)), Add(F("Cos", LR(b)), Mul(L(u), F("Sin", LR(b)))))), 64),
     EqZ("Sin:definition", Sub(F("Sin", L(q)), Mul(Sub(ep, em), F("Inv", L(QScale(RI(2), u))))), 64),
     EqZ("Cos:definition", Sub(F("Cos", L(q)), Scl(half, Add(ep, em))), 64),
     EqZ("Sinh:definition", Sub(F("Sinh", L(q)), Scl(half, Sub(xp, xm))), 64),
     EqZ("Cosh:definition", Sub(F("Cosh", L(q)), Scl(half, Add(xp, xm))), 64),
     EqZ("Tan:definition", Sub(F("Tan", L(q)), Mul(F("Sin", L(q)), F("Inv", F("Cos", L(q))))), 64),
     EqZ("Tanh:definition", Sub(F("Tanh", L(q)), Mul(F("Sinh", L(q)), F("Inv", F("Cosh", L(q))))), 64) >>
  \o Opt(Dom("Log", q),
     \* Log(q) = Log|q| + u atan2(b, a); the real part where |q| is rational, the direction always
     << EqZ("Log:inverse-argument", Add(F("Log", L(q)), F("Log", L(QInv(q)))), 64),
        EqZ("Log:scaling", Sub(F("Log", L(QScale(RI(2), q))), Add(F("Log", LR(RI(2))), F("Log", L(q)))), 64),
        EqZ("Log:commutes", Sub(Mul(F("Log", L(q)), L(u)), Mul(L(u), F("Log", L(q)))), 64) >>
     \o Opt(IsRSquare(QNorm2(q)),
        \* w = Log(q) - Log|q| is a pure vector: w + conj(w) = 0
        << EqZ("Log:real-part", LET w == Sub(F("Log", L(q)), F("Log", LR(RRoot(QNorm2(q))))) IN Add(w, F("Conj", w)), 64) >>))

PythChecks(q) ==
  LET s == F("Sin", L(q))  co == F("Cos", L(q))  sh == F("Sinh", L(q))  ch == F("Cosh", L(q)) IN
  << Eq("Sin^2+Cos^2", Add(Mul(s, s), Mul(co, co)), QOne, 64),
     Eq("Cosh^2-Sinh^2", Sub(Mul(ch, ch), Mul(sh, sh)), QOne, 64),
     Eq("Exp(q)Exp(-q)", Mul(F("Exp", L(q)), F("Exp", L(QNeg(q)))), QOne, 64) >>

InvPairs == << <<"Exp", "Log">>, <<"Sin", "Asin">>, <<"Cos", "Acos">>, <<"Tan", "Atan">>,
               <<"Sinh", "Asinh">>, <<"Cosh", "Acosh">>, <<"Tanh", "Atanh">> >>
\* poles / zero derivative of the inverse: q^2 = -1 (Atan), q^2 = 1 (Atanh)
InvOK(g, q) == /\ Dom(g, q)
               /\ g = "Atan"  => QMul(q, q) # QNeg(QOne)
               /\ g = "Atanh" => QMul(q, q) # QOne
InvChecks(q) ==
  Flatten([i \in 1..Len(InvPairs) |->
    LET f == InvPairs[i][1]  g == InvPairs[i][2] IN
    \* the real inverse hyperbolic cosine is in the group "real"
    Opt(InvOK(g, q) /\ ~(g = "Acosh" /\ IsRealQ(q)), << Eq(f \o "(" \o g \o "(q))", F(f, F(g, L(q))), q, 1024) >>)])
  \o Opt(Dom("Sqrt", q), << Eq("Sqrt(q)^2", Mul(F("Sqrt", L(q)), F("Sqrt", L(q))), q, 256) >>)

AllFuns == Fwd \o Back
SimChecks(q) ==
  Flatten([ui \in 1..Len(Units) |->
    LET u == Units[ui]  qr == Rot(u, q) IN
    Flatten([fi \in 1..Len(AllFuns) |->
      LET f == AllFuns[fi] IN
      Opt(Dom(f, q) /\ ~IsRealQ(q) /\ InvOK(f, q) /\ (ui + fi + Seed) % (IF Tier = 0 THEN 3 ELSE 1) = 0,
          << EqZ(f \o ":similarity", Sub(F(f, L(qr)), Mul(Mul(L(u), F(f, L(q))), L(QConj(u)))), 1024) >>)])])

ConjChecks(q) ==
  Flatten([fi \in 1..Len(AllFuns) |->
    LET f == AllFuns[fi] IN
    Opt(Dom(f, q) /\ ~IsRealQ(q) /\ InvOK(f, q), << EqZ(f \o ":conjugate", Sub(F(f, L(QConj(q))), F("Conj", F(f, L(q)))), 64) >>)])

\* real arguments: the vector part is exactly zero; the value where it is rational
RealPoints == << <<"Exp", Zero, One>>, <<"Log", One, Zero>>, <<"Sin", Zero, Zero>>, <<"Cos", Zero, One>>, <<"Tan", Zero, Zero>>,
                 <<"Sinh", Zero, Zero>>, <<"Cosh", Zero, One>>, <<"Tanh", Zero, Zero>>, <<"Asin", Zero, Zero>>,
                 <<"Acos", One, Zero>>, <<"Atan", Zero, Zero>>, <<"Asinh", Zero, Zero>>, <<"Acosh", One, Zero>>,
                 <<"Atanh", Zero, Zero>>, <<"Sqrt", RI(4), RI(2)>>, <<"Sqrt", R(9, 16), R(3, 4)>>, <<"Sqrt", Zero, Zero>>, <<"Sqrt", One, One>> >>
RealArgs == << R(1, 2), RI(2), RI(-1), R(1, 4), R(5, 4), RI(3), R(-3, 4) >>
RealChecks ==
  Flatten([i \in 1..Len(RealPoints) |->
    LET p == RealPoints[i] IN << Eq(p[1] \o ":rational-point", F(p[1], LR(p[2])), QReal(p[3]), 4) >>])
  \o Flatten([ai \in 1..Len(RealArgs) |->
       LET a == RealArgs[ai]  q == QReal(a) IN
       Flatten([fi \in 1..Len(AllFuns) |->
         LET f == AllFuns[fi] IN
         Opt(Dom(f, q), << Comps(f \o ":real-argument", F(f, L(q)), <<"fin", "0", "0", "0">>) >>)])
       \* the real inverse hyperbolic cosine: Cosh(Acosh(a)) = a for a >= 1.  For |a| < 1 the value is
       \* u acos(a) with an arbitrary unit vector u: every choice satisfies the identity; NaN ("no preferred
       \* direction") is accepted as well
       \o Opt(RLe(One, a), << Eq("Acosh:real-argument", F("Cosh", F("Acosh", L(q))), q, 1024) >>)
       \o Opt(RLt(RAbs(a), One), << EqOrNaN("Acosh:real-argument", F("Cosh", F("Acosh", L(q))), q, 1024) >>)])

\* exact squares, integer and rational powers
PowChecks(q) ==
  LET nz == q # QZero IN
  Opt(RSgn(q[1]) > 0,
      \* q has a positive real part: it is the principal square root of its square (whose argument is then
      \* not on the negative real axis); the documentation names no branch: either root is accepted
      << EqPM("Sqrt:exact-square", F("Sqrt", L(QMul(q, q))), q, 64) >>)
  \* "for generalized compatibility with math.Pow": integer powers are the repeated product, also of a
  \* negative real base (its own signature: the logarithm of a negative real has no preferred direction)
  \o Opt(nz, Flatten([n \in 1..6 |->
            LET e == << -2, -1, 0, 1, 2, 3 >>[n]
                tag == IF IsRealQ(q) /\ RSgn(q[1]) < 0 THEN ":negative-real-base" ELSE "" IN
            << Eq("PowReal:integer" \o tag, PowR(L(q), RI(e)), QPow(q, e), 64 * (AbsI(e) + 1)),
               Eq("Pow:integer" \o tag, PowQ(L(q), LR(RI(e))), QPow(q, e), 64 * (AbsI(e) + 1)) >>]))
  \o Opt(nz /\ Dom("Log", q),
      << EqZ("PowReal(q,1/2)-Sqrt(q)", Sub(PowR(L(q), R(1, 2)), F("Sqrt", L(q))), 64),
         Eq("PowReal(q,1/3)^3", Mul(Mul(PowR(L(q), R(1, 3)), PowR(L(q), R(1, 3))), PowR(L(q), R(1, 3))), q, 256),
         Eq("PowReal(q,1/2)PowReal(q,3/2)", Mul(PowR(L(q), R(1, 2)), PowR(L(q), R(3, 2))), QMul(q, q), 256),
         Eq("PowReal(q,-1/2)PowReal(q,1/2)", Mul(PowR(L(q), R(-1, 2)), PowR(L(q), R(1, 2))), QOne, 256),
         Eq("Exp(Log(q)*2)", F("Exp", Scl(RI(2), F("Log", L(q)))), QMul(q, q), 256) >>)

\* documented special values
Classes == << "0", "1", "-1", "inf", "-inf", "nan" >>
ClsInf(t) == t \in {"inf", "-inf"}
\* component classes of the idx-th quadruple (idx in 0..6^4-1)
Digits(idx) == << ((idx \div 216) % 6) + 1, ((idx \div 36) % 6) + 1, ((idx \div 6) % 6) + 1, (idx % 6) + 1 >>
SpecialStride == IF Tier = 0 THEN 5 ELSE 1
SpecialKeep(t) == \/ (t[1] * 7 + t[2] * 5 + t[3] * 3 + t[4] + Seed) % SpecialStride = 0
                  \/ (t[1] = t[2] /\ t[2] = t[3] /\ t[3] = t[4])
SpecialTable ==
  LET all == [idx \in 1..1296 |-> Digits(idx - 1)]
      S == SelectSeq(all, SpecialKeep) IN
  Flatten([i \in 1..Len(S) |->
    LET t == Force([j \in 1..4 |-> Classes[S[i][j]]])
        anyinf == \E j \in 1..4 : ClsInf(t[j])
        anynan == \E j \in 1..4 : t[j] = "nan" IN
    << IsInfIs("IsInf:table", Sp(t), anyinf),
       IsNaNIs("IsNaN:table", Sp(t), anynan /\ ~anyinf) >>
    \* the modulus of a quaternion with an infinite component is +Inf; NaN if a component is NaN and none infinite
    \o Opt(anyinf, << AbsIs("Abs:inf", Sp(t), "inf") >>)
    \o Opt(anynan /\ ~anyinf, << AbsIs("Abs:nan", Sp(t), "nan") >>)])
SpecialChecks ==
  << Comps("Inf()", <<"inf">>, <<"inf", "inf", "inf", "inf">>), IsInfIs("IsInf(Inf())", <<"inf">>, TRUE), IsNaNIs("IsNaN(Inf())", <<"inf">>, FALSE),
     IsNaNIs("IsNaN(NaN())", <<"nan">>, TRUE), IsInfIs("IsInf(NaN())", <<"nan">>, FALSE),
     \* Pow(0, +-0) = 1;  Pow(0, c), real(c) < 0: Inf+0i+0j+0k if the vector part of c is zero, else Inf in every component
     Eq("Pow(0,0)", PowQ(L(QZero), L(QZero)), QOne, 0),
     Eq("Pow(0,-0)", PowQ(L(QZero), Sp(<<"-0", "0", "0", "0">>)), QOne, 0),
     Comps("Pow(0,c):real(c)<0,vector(c)=0", PowQ(L(QZero), LR(RI(-1))), <<"inf", "0", "0", "0">>),
     Comps("Pow(0,c):real(c)<0,vector(c)=0", PowQ(L(QZero), LR(R(-1, 2))), <<"inf", "0", "0", "0">>),
     Comps("Pow(0,c):real(c)<0,vector(c)#0", PowQ(L(QZero), L(<<RI(-1), One, Zero, Zero>>)), <<"inf", "inf", "inf", "inf">>),
     Comps("Pow(0,c):real(c)<0,vector(c)#0", PowQ(L(QZero), L(<<R(-1, 2), Zero, Zero, RI(-2)>>)), <<"inf", "inf", "inf", "inf">>),
     \* PowReal(0, +-0) = 1;  PowReal(0, c) for c < 0 returns Inf+0i+0j+0k
     Eq("PowReal(0,0)", PowR(L(QZero), Zero), QOne, 0),
     Comps("PowReal(0,c):c<0", PowR(L(QZero), RI(-1)), <<"inf", "0", "0", "0">>),
     Comps("PowReal(0,c):c<0", PowR(L(QZero), R(-1, 2)), <<"inf", "0", "0", "0">>),
     \* 0^c = 0 for c > 0
     Eq("PowReal(0,c):c>0", PowR(L(QZero), RI(2)), QZero, 0), Eq("Pow(0,c):real(c)>0", PowQ(L(QZero), L(<<RI(2), One, Zero, Zero>>)), QZero, 0),
     Eq("Sqrt(0)", F("Sqrt", L(QZero)), QZero, 0) >>
  \o SpecialTable

\* branch cuts: purely vectorial arguments beyond the branch points.  The value exists and its direction is
\* that of the argument (u): Tan(Atan(b u)) = b u, Sinh(Asinh(b u)) = b u for b > 1
CutChecks ==
  Flatten([j \in 1..7 |->
    LET v == Vecs[j + 1] IN
    Flatten([s \in 1..2 |->
      LET q == QScale(RI(2 * s), <<Zero, v[1], v[2], v[3]>>) IN
      Opt(RLt(One, QVec2(q)),
          << Eq("Tan(Atan(q)):beyond-branch-point", F("Tan", F("Atan", L(q))), q, 1024),
             Eq("Sinh(Asinh(q)):beyond-branch-point", F("Sinh", F("Asinh", L(q))), q, 1024) >>)])])

(****************************** state space ********************************)
UnitLaws ==
  /\ \A ui \in 1..Len(Units) : QNorm2(Units[ui]) = One /\ QMul(Units[ui], QConj(Units[ui])) = QOne
GridLaws(q) ==
  /\ \A ui \in 1..Len(Units) :
        LET u == Units[ui]  qr == Rot(u, q) IN
        /\ qr[1] = q[1] /\ QNorm2(qr) = QNorm2(q)
        /\ Rot(u, QMul(q, q)) = QMul(qr, qr)
  /\ HasUnit(q) => LET u == UnitOf(q) IN /\ QMul(u, u) = QNeg(QOne)
                                         /\ QMul(u, q) = QMul(q, u)
                                         /\ IsRealQ(q) \/ q = QAdd(QReal(q[1]), QScale(VLen(q), u))
  /\ q # QZero => /\ QMul(q, QInv(q)) = QOne
                  /\ \A n \in 0..2 : QPow(q, n + 1) = QMul(QPow(q, n), q)
                  /\ QMul(QPow(q, -2), QPow(q, 2)) = QOne

PerPoint(q) ==
  Opt("def" \in Groups /\ HasUnit(q) /\ Tame(q), DefChecks(q))
  \o Opt("pyth" \in Groups /\ Tame(q), PythChecks(q))
  \o Opt("inv" \in Groups /\ Tame(q), InvChecks(q))
  \o Opt("sim" \in Groups /\ Tame(q), SimChecks(q))
  \o Opt("conj" \in Groups /\ Tame(q), ConjChecks(q))
  \o Opt("pow" \in Groups, PowChecks(q))

PtGroups == {"def", "pyth", "inv", "sim", "conj", "pow"}
Init == \/ /\ Groups \cap PtGroups # {}
           /\ c \in [kind : {"pt"}, i : 1..Len(Reals), j : 1..Len(Vecs)]
        \/ c \in [kind : {"real", "special", "cut"} \cap Groups]
Next == UNCHANGED c
Spec == Init /\ [][Next]_c

CaseOf(cc) ==
  CASE cc.kind = "pt" -> LET q == GridQ(cc.i, cc.j) IN [kind |-> "qfun", q |-> q, checks |-> PerPoint(q)]
    [] cc.kind = "real" -> [kind |-> "qfun", q |-> QZero, checks |-> RealChecks]
    [] cc.kind = "special" -> [kind |-> "qfun", q |-> QZero, checks |-> SpecialChecks]
    [] cc.kind = "cut" -> [kind |-> "qfun", q |-> QZero, checks |-> CutChecks]
Emit == /\ UnitLaws
        /\ c.kind = "pt" => GridLaws(GridQ(c.i, c.j))
        /\ PrintT(ToJson(CaseOf(c)))
=============================================================================
