------------------------------- MODULE Hilbert -------------------------------
(* What the property says about a space filling curve of dimension d and      *)
(* order o, stated on a TABLE  position |-> coordinate  (any table: the module *)
(* does not construct a Hilbert curve, there are many; it says which tables    *)
(* are acceptable):                                                            *)
(*   - every coordinate lies in the cube [0, 2^o)^d,                           *)
(*   - the table is injective; a full table (all 2^(d o) positions) is         *)
(*     therefore a bijection onto the cube,                                    *)
(*   - consecutive positions are mapped to cells at Manhattan distance 1,      *)
(*   - the inverse map (Pos) applied to the coordinate gives the position back.*)
(* Positions can exceed TLC's 32-bit integers (up to 2^62): they are written   *)
(* as little-endian sequences of three base-2^30 limbs.                        *)
EXTENDS Integers, Sequences, FiniteSets

Base == 1073741824                      \* 2^30
RECURSIVE Pow2(_), MaxCoord(_)
Pow2(n) == IF n = 0 THEN 1 ELSE 2 * Pow2(n - 1)          \* n <= 30
MaxCoord(o) == IF o = 0 THEN 0 ELSE 2 * MaxCoord(o - 1) + 1   \* 2^o - 1 without overflow for o <= 31

IsLimbs(p) == Len(p) = 3 /\ \A i \in 1 .. 3 : p[i] >= 0 /\ p[i] < Base
Zero == <<0, 0, 0>>
\* q = p + 1
SuccPos(p, q) ==
    IF p[1] + 1 < Base THEN q = <<p[1] + 1, p[2], p[3]>>
    ELSE IF p[2] + 1 < Base THEN q = <<0, p[2] + 1, p[3]>>
    ELSE q = <<0, 0, p[3] + 1>>
\* 2^e as limbs (e <= 89)
Pow2Limbs(e) == [i \in 1 .. 3 |-> IF i = (e \div 30) + 1 THEN Pow2(e % 30) ELSE 0]

InCube(c, d, o) == Len(c) = d /\ \A i \in 1 .. d : c[i] >= 0 /\ c[i] <= MaxCoord(o)
Abs(x) == IF x < 0 THEN 0 - x ELSE x
RECURSIVE Manhattan(_, _, _)
Manhattan(a, b, i) == IF i = 0 THEN 0 ELSE Abs(a[i] - b[i]) + Manhattan(a, b, i - 1)
UnitStep(a, b) == Manhattan(a, b, Len(a)) = 1

\* constructor contract (64-bit int): order < 1 underflows, d*order >= 64 overflows
NewOutcome(d, o) == IF o < 1 THEN "underflow" ELSE IF d * o >= 64 THEN "overflow" ELSE "ok"
\* Dims() = {2^o, ..., 2^o},  Len() = 2^(d o)
DimsOf(d, o) == [i \in 1 .. d |-> Pow2(o)]
LenOf(d, o) == Pow2Limbs(d * o)
=============================================================================
