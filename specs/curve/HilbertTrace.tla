---------------------------- MODULE HilbertTrace ----------------------------
(* R3 (code->spec): accepts a dump of tables produced by the real            *)
(* spatial/curve Hilbert2D/3D/4D (Coord for a run of consecutive positions,   *)
(* Pos of each coordinate) iff every table satisfies Hilbert.tla.            *)
(* Events:  new   - a constructor call and its outcome                        *)
(*          curve - start of a table: d, o, Dims(), Len(), full?, n points    *)
(*          pt    - position p (limbs), c = Coord(p), back = Pos(c)           *)
(*          end   - end of the table (injectivity / bijection is decided here)*)
EXTENDS Hilbert, TLC, TLCExt, Json

TraceLog == ndJsonDeserialize("trace.ndjson")

VARIABLES l,      \* cursor
          cur     \* the table being read: [d, o, full, n, start]
tvars == <<l, cur>>
Ev == TraceLog[l]
None == [d |-> 0, o |-> 0, full |-> FALSE, n |-> 0, start |-> 0]

New == /\ l <= Len(TraceLog) /\ Ev.ev = "new" /\ cur = None
       /\ Ev.out = NewOutcome(Ev.d, Ev.o)
       /\ l' = l + 1 /\ UNCHANGED cur

Curve == /\ l <= Len(TraceLog) /\ Ev.ev = "curve" /\ cur = None
         /\ NewOutcome(Ev.d, Ev.o) = "ok"
         /\ Ev.o <= 30 => Ev.dims = DimsOf(Ev.d, Ev.o)   \* (2^31 is not a TLC integer: Dims() of order 31 is not judged)
         /\ Ev.len = LenOf(Ev.d, Ev.o)
         /\ Ev.full => Ev.n = Pow2(Ev.d * Ev.o)      \* full tables are small
         /\ cur' = [d |-> Ev.d, o |-> Ev.o, full |-> Ev.full, n |-> Ev.n, start |-> l + 1]
         /\ l' = l + 1

Pt == /\ l <= Len(TraceLog) /\ Ev.ev = "pt" /\ cur # None
      /\ IsLimbs(Ev.p) /\ InCube(Ev.c, cur.d, cur.o)
      /\ Ev.back = Ev.p                                           \* Pos(Coord(p)) = p
      /\ IF l = cur.start
         THEN cur.full => Ev.p = Zero
         ELSE /\ SuccPos(TraceLog[l - 1].p, Ev.p)                 \* consecutive positions ...
              /\ UnitStep(TraceLog[l - 1].c, Ev.c)                \* ... are adjacent cells
      /\ l' = l + 1 /\ UNCHANGED cur

End == /\ l <= Len(TraceLog) /\ Ev.ev = "end" /\ cur # None
       /\ l - cur.start = cur.n
       /\ Cardinality({TraceLog[i].c : i \in cur.start .. l - 1}) = cur.n    \* injective
       /\ cur' = None /\ l' = l + 1

TraceInit == l = 1 /\ cur = None
TraceNext == New \/ Curve \/ Pt \/ End
TraceSpec == TraceInit /\ [][TraceNext]_tvars

Accepted ==
    LET d == TLCGet("stats").diameter IN
    IF d - 1 = Len(TraceLog) /\ (Len(TraceLog) = 0 \/ TraceLog[Len(TraceLog)].ev \in {"end", "new"})
    THEN PrintT("TRACE-ACCEPTED " \o ToString(Len(TraceLog)))
    ELSE /\ PrintT("TRACE-REJECTED at event " \o ToString(d) \o ": " \o ToString(TraceLog[IF d <= Len(TraceLog) THEN d ELSE Len(TraceLog)]))
         /\ FALSE
=============================================================================
