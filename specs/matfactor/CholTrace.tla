----------------------------- MODULE CholTrace -----------------------------
(* R3 (code->spec): accepts an ndjson log of a real history of calls on a    *)
(* live mat.Cholesky iff it is a behaviour of CholMachine.  Every event      *)
(* carries the call with its integer arguments, the ok flag the real code    *)
(* returned and a projection of the real object after the call: whether it   *)
(* holds a factorization, ToSym rounded to integers, round(Det), and the     *)
(* truth value "every projected number was within 2^-20 (relative for Det)   *)
(* of an integer" computed at the logging boundary.  The action is enabled   *)
(* only if the specification's exact post-state gives the same projection.   *)
(* The alphabets of the recorded histories (dimension <= 5, |alpha| <= 3,    *)
(* vectors in -2..2, 30-60 calls) are wider than what TLC enumerates in R2.  *)
(* After a boundary update that the real code accepted (a leading minor is   *)
(* exactly zero: either answer is legal) the history is followed without     *)
(* observations until the next Reset.                                        *)
EXTENDS CholMachine, TLCExt

TraceLog == ndJsonDeserialize("trace.ndjson")

VARIABLES l, loose
tvars == <<A, valid, l, loose>>
Ev == TraceLog[l]

Observed(e, M, v) ==
    /\ e.valid = v
    /\ v => /\ e.exact
            /\ e.sym = M
            /\ e.det = Det(M)

Call == /\ l <= Len(TraceLog) /\ Ev.e = "call"
        /\ LET e == Ev  o == e.op  T == Target(A, o)
               cls == IF o.op \in {"Clone", "Scale", "SetFromU"} THEN "ok" ELSE Classify(T)
           IN IF loose THEN UNCHANGED <<A, valid, loose>>
              ELSE /\ (cls = "ok") => e.ok
                   /\ (cls = "fail") => ~e.ok
                   /\ loose' = (cls = "either" /\ e.ok)
                   /\ IF e.ok THEN A' = T /\ valid' = TRUE
                      ELSE IF o.op = "Factorize" THEN A' = <<>> /\ valid' = FALSE
                      ELSE UNCHANGED <<A, valid>>
                   /\ loose' \/ Observed(e, A', valid')
        /\ l' = l + 1

Reset == /\ l <= Len(TraceLog) /\ Ev.e = "reset"
         /\ A' = <<>> /\ valid' = FALSE /\ loose' = FALSE /\ l' = l + 1

TraceInit == A = <<>> /\ valid = FALSE /\ l = 1 /\ loose = FALSE
TraceNext == Call \/ Reset
TraceSpec == TraceInit /\ [][TraceNext]_tvars

\* the machine's invariants, evaluated at every step of the real history
TraceInv == loose \/ (valid => (IsSymmetric(A) /\ PosDef(A)))

Accepted ==
    LET d == TLCGet("stats").diameter IN
    IF d - 1 = Len(TraceLog) THEN PrintT("TRACE-ACCEPTED " \o ToString(Len(TraceLog)))
    ELSE /\ PrintT("TRACE-REJECTED at event " \o ToString(d) \o ": " \o ToString(TraceLog[d]))
         /\ FALSE
=============================================================================
