SPECIFICATION TraceSpec
CONSTANTS
  MaxN = 6
  MaxEntry = 1000
  Seed = 0
  Emit = FALSE
INVARIANTS TraceInv
POSTCONDITION Accepted
CHECK_DEADLOCK FALSE
