SPECIFICATION Spec
CONSTANTS
  MinN = @MINN@
  MaxN = @MAXN@
  MaxEntry = @MAXENTRY@
  MaxDepth = @MAXDEPTH@
  NTargets = @NTARGETS@
  Seed = @SEED@
  Emit = @EMIT@
INVARIANTS TypeOK AdjIsInverse CramerSolves DetTranspose EmitState
CHECK_DEADLOCK FALSE
