---------------------------- MODULE CholMachine ----------------------------
(* mat.Cholesky as a state machine over EXACT integer matrices (C06).        *)
(*                                                                          *)
(* The abstract state of a Cholesky object is the symmetric matrix it       *)
(* represents (or "holds no factorization").  Every public mutator is an    *)
(* action on that matrix:                                                   *)
(*    Factorize(T)            A' = T                 ok iff T positive def. *)
(*    SetFromU(U)             A' = U^T U                                    *)
(*    SymRankOne(alpha, v)    A' = A + alpha v v^T   ok iff A' pos. def.    *)
(*    ExtendVecSym(v)         A' = [A w; w^T k]      ok iff A' pos. def.    *)
(*    Scale(f)                A' = f A                                      *)
(*    Clone                   A' = A  (another object, which is then used)  *)
(* Positive definiteness is decided exactly by Sylvester's criterion on     *)
(* integer leading principal minors.  A target with a leading minor equal   *)
(* to zero is a BOUNDARY case: floating point may legitimately answer       *)
(* either way, the outcome is "either".  A failed update leaves the object  *)
(* unchanged, a failed Factorize leaves it without a factorization.         *)
(*                                                                          *)
(* Observers are exact: Det by cofactors, inverse = Adj/Det, solutions of   *)
(* A X = B by Cramer (Adj(A) B / Det(A)), cond_1 = |A|_1 |Adj|_1 / Det.     *)
(*                                                                          *)
(* Roles:  R1  TLC checks the theorems below on every reachable state and   *)
(*             transition (Emit = FALSE or TRUE);                           *)
(*         R2  with Emit = TRUE every state (with all observer answers and  *)
(*             exact rational tolerances) and every transition is printed   *)
(*             as JSON; the Go harness replays each transition on a live    *)
(*             mat.Cholesky reached by a real history.                      *)
(*         R3  CholTrace.tla reuses Target/Classify for recorded histories. *)
EXTENDS IntMat, FiniteSets, TLC, Json

CONSTANTS MaxN,      \* largest dimension
          MaxEntry,  \* every reachable matrix has |a_ij| <= MaxEntry
          Seed,      \* salt of the right hand sides
          Emit       \* BOOLEAN: generator role

VARIABLES A, valid
vars == <<A, valid>>

N == Len(A)
Bounded(M) == MaxAbs(M) <= MaxEntry

(***************************** operation alphabet ***************************)
Zero(n) == [i \in 1..n |-> 0]
Vecs(n) == [1..n -> -1..1] \ {Zero(n)}
Alphas == {0, 1, -1, 2, -2}
\* symmetric matrices with constant diagonal d and constant off-diagonal o:
\* positive definite, indefinite and exactly singular ones of every size
ConstSym(n, d, o) == [i \in 1..n |-> [j \in 1..n |-> IF i = j THEN d ELSE o]]
FactTargets == {ConstSym(n, d, o) : n \in 1..MaxN, d \in {1, 2, 3}, o \in {-1, 0, 1, 2}}
               \cup {<<<<0>>>>, <<<<2, 1>>, <<1, 0>>>>}
\* upper triangular integer factors: diagonal in {1,2}, one common off-diagonal value
UFactors(n) == {[i \in 1..n |-> [j \in 1..n |-> IF i = j THEN d[i] ELSE IF i < j THEN o ELSE 0]] :
                  d \in [1..n -> {1, 2}], o \in {-1, 0, 1}}
ScaleFs == {<<2, 1>>, <<4, 1>>, <<1, 2>>, <<1, 4>>}
Divisible(M, d) == \A i, j \in 1..Len(M) : M[i][j] % d = 0

Ops == [op : {"Factorize"}, a : FactTargets]
       \cup [op : {"SetFromU"}, u : IF valid THEN UFactors(N) ELSE UNION {UFactors(n) : n \in 1..MaxN}]
       \cup (IF valid THEN
               [op : {"SymRankOne"}, alpha : Alphas, v : Vecs(N)]
               \cup (IF N < MaxN THEN [op : {"ExtendVecSym"}, v : {w \o <<k>> : w \in [1..N -> -1..1], k \in 0..MaxEntry}]
                     ELSE {})
               \cup [op : {"Scale"}, f : {f \in ScaleFs : Divisible(A, f[2])}]
               \cup [op : {"Clone"}]
             ELSE {})

\* the matrix the object must represent after a successful o
Target(M, o) ==
  CASE o.op = "Factorize"    -> o.a
    [] o.op = "SetFromU"     -> MatMul(Transp(o.u), o.u)
    [] o.op = "SymRankOne"   -> MatAdd(M, MatScale(o.alpha, Outer(o.v, o.v)))
    [] o.op = "ExtendVecSym" -> Border(M, SubSeq(o.v, 1, Len(M)), o.v[Len(M) + 1])
    [] o.op = "Scale"        -> [i \in 1..Len(M) |-> [j \in 1..Len(M) |-> (o.f[1] * M[i][j]) \div o.f[2]]]
    [] o.op = "Clone"        -> M

\* "ok" | "fail" | "either"
Classify(T) == IF PosDef(T) THEN "ok" ELSE IF HasZeroMinor(T) THEN "either" ELSE "fail"

(****** theorems checked on every transition (R1, inside the actions) *******)
\* a vector z # 0 with z^T T z <= 0 exists whenever Classify(T) # "ok":
\* the last column of Adj(Lead(T,k)) for the first k whose minor is <= 0
Witness(T) == LET k == CHOOSE k \in 1..Len(T) : Det(Lead(T, k)) <= 0 /\ \A m \in 1..k-1 : Det(Lead(T, m)) > 0
                  c == Adj(Lead(T, k))
              IN [i \in 1..Len(T) |-> IF i <= k THEN c[i][k] ELSE 0]
NotPDProved(T) == LET z == Witness(T) IN z # Zero(Len(T)) /\ QuadForm(T, z) <= 0
Pow(b, e) == IF e = 0 THEN 1 ELSE IF e = 1 THEN b ELSE IF e = 2 THEN b * b ELSE b * b * b
Lemma(M, o, T) ==
  CASE o.op = "SymRankOne"   -> Det(T) = Det(M) + o.alpha * QuadForm(Adj(M), o.v)          \* matrix determinant lemma
    [] o.op = "ExtendVecSym" -> Det(T) = o.v[Len(M) + 1] * Det(M) - QuadForm(Adj(M), SubSeq(o.v, 1, Len(M)))  \* Schur complement
    [] o.op = "Scale"        -> Det(T) * Pow(o.f[2], Len(M)) = Pow(o.f[1], Len(M)) * Det(M)
    [] o.op = "SetFromU"     -> Det(T) = Det(o.u) * Det(o.u) /\ PosDef(T)
    [] OTHER                 -> TRUE

(******************************** observers *********************************)
NRhs == 2
Rhs(M) == [i \in 1..Len(M) |-> [j \in 1..NRhs |->
             ((3 * i + 5 * j + 7 * Seed + M[i][i] + 2 * M[1][Len(M)] + 70) % 7) - 3]]
\* tolerances are exact integers in units of 2^-44 (see header line): TolA bounds the entrywise
\* error of any reconstruction of A after a history of at most ~30 backward stable steps on
\* matrices of norm <= MaxN*MaxEntry+2; the others propagate it through the exact inverse.
TolA == 4 * MaxN * (MaxN * MaxEntry + 2)
InvNormCeil(M) == CeilDiv(NormInf(Adj(M)), Det(M))
TolX(M, X) == Len(M) * TolA * InvNormCeil(M) * Max2(1, CeilDiv(MaxAbs(X), Det(M)))
StateRec(M, v) == [valid |-> v, a |-> M]
UnitExp == -44        \* tolerances are multiples of 2^UnitExp
CondSlackExp == -20   \* relative slack 2^CondSlackExp on the condition number bounds
\* header: units, and the matrix a "busy" receiver holds before it receives an update of dimension n
Hdr == [k |-> "hdr", machine |-> "cholesky", maxN |-> MaxN, maxEntry |-> MaxEntry, unitExp |-> UnitExp,
        condSlackExp |-> CondSlackExp, other |-> [n \in 1..MaxN |-> ConstSym(n, 3, 1)]]
Obs(M, v) ==
  IF ~v THEN [k |-> "s", valid |-> FALSE, a |-> M, n |-> 0]
  ELSE LET d == Det(M)  ad == Adj(M)  b == Rhs(M)  ab == MatMul(ad, b) IN
       [k |-> "s", valid |-> TRUE, a |-> M, n |-> Len(M),
        minors |-> LeadMinors(M), det |-> d, adj |-> ad, b |-> b, adjb |-> ab,
        tolA |-> TolA, tolX |-> TolX(M, ab), tolInv |-> TolX(M, ad),
        tolDet |-> TolA * Len(M) * Norm1(ad) + d,
        \* bounds of any estimate  anorm * est(|A^-1|_1)  with anorm >= |A|_1 and a Hager/Higham estimator started
        \* at e/n (its estimates never decrease and never exceed the true norm):
        \*    |A|_1 |A^-1 e|_1 / n  <=  Cond  <=  (anorm / |A|_1) * cond_1(A)
        \* anorm = |A|_1 after Factorize (condHiF); anorm = |U|_1 |U|_inf <= n |A|_1 after an update (condHi)
        condLo |-> <<Norm1(M) * SumSeq([i \in 1..Len(M) |-> Abs(SumSeq(ad[i]))]), Len(M) * d>>,
        condHiF |-> <<Norm1(M) * Norm1(ad), d>>,
        condHi |-> <<Len(M) * Norm1(M) * Norm1(ad), d>>]

\* ExactInFloat rule for boundary cases.  ExtendVecSym documents "k > w' A^-1 w ... if this condition does
\* not hold ExtendVecSym will return false", SymRankOne "returns whether the updated matrix is positive
\* definite": an exactly singular target must be refused; only rounding can excuse the other answer.  When
\* the object represents the identity (reached by Factorize(I) / SetFromU(I), factor exactly I) every
\* quantity the test is made of (a triangular solve with I, a sum of squares of integers <= 1, the
\* comparison with an integer) is exact in binary floating point, so the boundary answer is firm.
ExactBoundary(o) == valid /\ A = Ident(N) /\ o.op \in {"ExtendVecSym", "SymRankOne"}

(********************************* actions **********************************)
Do(o) ==
  LET T == Target(A, o)
      c == IF o.op \in {"Clone", "Scale", "SetFromU"} THEN "ok"
           ELSE IF Classify(T) = "either" /\ ExactBoundary(o) THEN "fail" ELSE Classify(T)
  IN /\ Bounded(T)
     /\ Assert(IsSymmetric(T), "target not symmetric")
     /\ Assert(Lemma(A, o, T), "update lemma")
     /\ Assert(c = "ok" => PosDef(T), "ok target not positive definite")
     /\ Assert(c # "ok" => NotPDProved(T), "non-PD witness")
     /\ IF c = "ok" THEN A' = T /\ valid' = TRUE
        ELSE IF o.op = "Factorize" THEN A' = <<>> /\ valid' = FALSE
        ELSE UNCHANGED vars
     /\ Emit => PrintT(ToJson([k |-> "t", s |-> StateRec(A, valid), op |-> o, out |-> c,
                               t |-> StateRec(A', valid')]))

Init == A = <<>> /\ valid = FALSE /\ (Emit => PrintT(ToJson(Hdr)))
Next == \E o \in Ops : Do(o)
Spec == Init /\ [][Next]_vars

(*************************** design invariants (R1) *************************)
TypeOK == /\ valid \in BOOLEAN
          /\ valid => (N \in 1..MaxN /\ IsSymmetric(A) /\ Bounded(A))
          /\ ~valid => A = <<>>
ValidIsPD == valid => PosDef(A)
\* the quadratic form really is positive on every small non-zero integer vector
FormPositive == valid => \A z \in [1..N -> -2..2] \ {Zero(N)} : QuadForm(A, z) > 0
AdjIsInverse == valid => MatMul(A, Adj(A)) = MatScale(Det(A), Ident(N))
CramerSolves == valid => MatMul(A, MatMul(Adj(A), Rhs(A))) = MatScale(Det(A), Rhs(A))
EmitState == Emit => PrintT(ToJson(Obs(A, valid)))
=============================================================================
