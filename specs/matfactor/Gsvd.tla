-------------------------------- MODULE Gsvd --------------------------------
(* mat.GSVD (C06: "each factorization type ... reproduces the factorized     *)
(* matrix from its extracted factors").                                      *)
(*                                                                          *)
(* The generalized singular value decomposition of a pair (A m x n, B p x n) *)
(* has no unique factors (signs, rotations inside repeated values, the basis *)
(* of the common null space), so there is no unique expected matrix.  The    *)
(* specification therefore states the property's own clause as a PREDICATE   *)
(* on what the object returns - operator GsvdHolds below, the normative      *)
(* statement - and the harness evaluates exactly that predicate, in exact    *)
(* rational arithmetic, on the matrices gonum returned (the weaker of the    *)
(* two bindings used for C06: a predicate instead of an expected value).     *)
(* TLC evaluates GsvdHolds on planted exact decompositions (theorem          *)
(* PlantedHolds: signed permutations U, V, Q, Pythagorean pairs              *)
(* alpha = 3/5, beta = 4/5) and on corrupted ones (theorem CorruptedFails),  *)
(* so the predicate itself is checked in both directions.                    *)
(*                                                                          *)
(* What this module computes exactly for every catalogue pair:               *)
(*   RankM      rank by fraction-free (Bareiss) elimination, cross-checked   *)
(*              against the largest non-vanishing minor (theorem RankAgrees) *)
(*   l = rank(B),  k = rank([A; B]) - rank(B)   (the documented meaning of   *)
(*              GSVD.Rank for pairs whose numerical rank is their rank)      *)
(*   PivotFree(M)  the first rank(M) columns of M are independent.  An       *)
(*              elimination that takes the columns IN ORDER (no column       *)
(*              pivoting) exposes rank(M) in its leading rows iff            *)
(*              PivotFree(M): the first dependent leading column gives a     *)
(*              zero pivot, after which either fewer than rank(M) pivots     *)
(*              are counted or a counted pivot lies below row rank(M); in    *)
(*              both cases "keep the first l rows" loses part of M.          *)
(*   A11        the block whose rank is k: A restricted to the null space of *)
(*              B, in the basis N the reflectors of the preprocessing give.  *)
(*              Its column order matters only if 0 < k < n - l.  The module  *)
(*              knows enough of N exactly in the cases (a)-(e) listed at     *)
(*              operator Cause.                                              *)
(*   cause      "B"    not PivotFree(B)                                      *)
(*              "A11"  PivotFree(B), and the first k columns of A11 are      *)
(*                     dependent (exactly known, or for every admissible     *)
(*                     basis)                                                *)
(*              "undecided"  PivotFree(B), 0 < k < n - l, none of (a)-(e)    *)
(*                     applies                                               *)
(*              "none" an in-order elimination is as good as a pivoted one   *)
(* Measured on gonum (10 seeds x 3216 pairs): the pairs whose decomposition  *)
(* fails are exactly those with cause "B" or "A11".                          *)
(* The field cause only selects the SIGNATURE of a failure (so that the one  *)
(* known defect - no column pivoting in the preprocessing - has one stable   *)
(* signature and everything else has another); it never decides a verdict.   *)
EXTENDS IntMat, FiniteSets, TLC, Json

CONSTANTS Seed, NVariants, Emit

VARIABLE c
vars == <<c>>

Min2(a, b) == IF a <= b THEN a ELSE b
ZeroMat(r, cc) == [i \in 1..r |-> [j \in 1..cc |-> 0]]
Cols(M, a, b) == [i \in 1..Len(M) |-> [j \in 1..(b - a + 1) |-> M[i][a + j - 1]]]       \* columns a..b
Stack(A, B) == A \o B
IsZeroMat(M) == \A i \in 1..Len(M) : \A j \in 1..NCols(M) : M[i][j] = 0

(******************************* exact rank *********************************)
RECURSIVE RankB(_, _)
RankB(M, prev) ==
  IF Len(M) = 0 \/ NCols(M) = 0 THEN 0
  ELSE LET piv == {i \in 1..Len(M) : M[i][1] # 0} IN
       IF piv = {} THEN RankB(Cols(M, 2, NCols(M)), prev)
       ELSE LET r == CHOOSE i \in piv : \A j \in piv : i <= j
                row(q) == M[IF q < r THEN q ELSE q + 1]
                rest == [q \in 1..Len(M) - 1 |-> [j \in 1..NCols(M) - 1 |->
                           (M[r][1] * row(q)[j + 1] - row(q)[1] * M[r][j + 1]) \div prev]]
            IN 1 + RankB(rest, M[r][1])
RankM(M) == RankB(M, 1)
\* definition of rank: the order of the largest non-vanishing minor
SubM(M, rs, cs) == [i \in 1..Len(rs) |-> [j \in 1..Len(cs) |-> M[rs[i]][cs[j]]]]
IncSeqs(n, k) == {s \in [1..k -> 1..n] : \A i \in 1..k - 1 : s[i] < s[i + 1]}
HasMinor(M, k) == \E rs \in IncSeqs(Len(M), k) : \E cs \in IncSeqs(NCols(M), k) : Det(SubM(M, rs, cs)) # 0
RankByMinors(M) == LET K == {k \in 1..Min2(Len(M), NCols(M)) : HasMinor(M, k)} IN
                   IF K = {} THEN 0 ELSE CHOOSE k \in K : \A q \in K : q <= k
LeadIndep(M, r) == r = 0 \/ RankM(Cols(M, 1, r)) = r
PivotFree(M) == LeadIndep(M, RankM(M))

(******************************** catalogue *********************************)
Gen(m, n, t) == [i \in 1..m |-> [j \in 1..n |->
                  ((((t + Seed) % 5) * i + ((2 * t + 1) % 5) * j + (((t \div 2) + Seed) % 3) * i * j + (i \div 2) + t) % 5) - 2]]
ZeroLead(M, z) == [i \in 1..Len(M) |-> [j \in 1..NCols(M) |-> IF j <= z THEN 0 ELSE M[i][j]]]
\* rank one: u v^T
RankOne(m, n, t) == [i \in 1..m |-> [j \in 1..n |-> (1 + ((i + t) % 2)) * (((j + t + Seed) % 3) - 1 + (IF j = n THEN 2 ELSE 0))]]
\* column 2 repeats column 1 (a dependent LEADING column), the rest generic
DupCol(M) == [i \in 1..Len(M) |-> [j \in 1..NCols(M) |-> IF j = 2 THEN M[i][1] ELSE M[i][j]]]
\* every row a multiple of the last unit vector ( [[0 0 0 1],[0 0 0 2]] )
LastUnit(p, n) == [i \in 1..p |-> [j \in 1..n |-> IF j = n THEN i ELSE 0]]
\* rows are distinct unit vectors picked from the right end
Select(p, n) == [i \in 1..p |-> [j \in 1..n |-> IF j = n - ((i - 1) % n) THEN 1 ELSE 0]]

Variants == {"gen", "rdA", "rdB", "rdAB", "zlB1", "zlB2", "zlA", "zlAB", "dupB", "dupA", "lastB", "selB", "zeroB", "zeroA"}
PairOf(m, p, n, v, t) ==
  LET A0 == Gen(m, n, t)  B0 == Gen(p, n, t + 7) IN
  CASE v = "gen"   -> <<A0, B0>>
    [] v = "rdA"   -> <<RankOne(m, n, t), B0>>
    [] v = "rdB"   -> <<A0, RankOne(p, n, t + 1)>>
    [] v = "rdAB"  -> <<RankOne(m, n, t), RankOne(p, n, t + 1)>>
    [] v = "zlB1"  -> <<A0, ZeroLead(B0, 1)>>
    [] v = "zlB2"  -> <<A0, ZeroLead(B0, n - 1)>>
    [] v = "zlA"   -> <<ZeroLead(A0, 1), B0>>
    [] v = "zlAB"  -> <<ZeroLead(A0, 1), ZeroLead(B0, 1)>>
    [] v = "dupB"  -> <<A0, DupCol(B0)>>
    [] v = "dupA"  -> <<DupCol(A0), B0>>
    [] v = "lastB" -> <<A0, LastUnit(p, n)>>
    [] v = "selB"  -> <<A0, Select(p, n)>>
    [] v = "zeroB" -> <<A0, ZeroMat(p, n)>>
    [] v = "zeroA" -> <<ZeroMat(m, n), B0>>

\* A11 as far as this module knows it exactly.  A11 = A N, the columns of N an orthonormal basis of the null space of B
\* produced by reflectors H = I - tau v v^T that annihilate the rows of the (l x n) triangular factor of B from the right;
\* every v lies in W = rowspace(B) + span(e_(n-l+1), .., e_n), so  N x = x - w(x)  with w(x) in W, and w(x) = 0 if x _|_ W.
\*  (a) l = 0, or the leading n - l columns of B vanish: no reflector acts on the leading columns, A11 = A[:, 1..n-l].
\*  (b) the first k columns of A11 lie in the column space of [ A e_1 .. A e_k | A W ]: if that has rank < k they are
\*      dependent whatever the basis is.
\*  (c) a non-zero x in span(e_1..e_k) with B x = 0 (so x _|_ W: it is left alone by every reflector) and A x = 0,
\*      i.e. rank([A; B][:, 1..k]) < k:  A11 x = A x = 0.
\*  (e) the columns k+1 .. n-l of B vanish: N e_j = e_j for those j (no reflector touches them), and the first k columns
\*      of A11 are dependent iff some z # 0 in the null space of [A; B] has z_j = 0 for those j (then y = N^T z is
\*      supported on the first k coordinates and A11 y = A z = 0; conversely A11 y = 0 puts N y into that null space),
\*      i.e. iff [A; B] without those columns does not have full column rank.
\*  (d) B has rank one, its rows are multiples of a row b whose Euclidean norm rho is an integer (and b_n # 0 unless B is
\*      that single row, so that the sign below is determined): the one reflector is rational.  With
\*      beta = -sign(b_n) rho (sign(0) = +1: the convention of Dlarfg) and u = b - beta e_n it is H = I - 2 u u^T / (u.u),
\*      so (u.u) A11 = [ (u.u) A e_j - 2 u_j A u ] (j < n) is an integer matrix this module evaluates.
\* (b), (c) are sufficient, not necessary: a basis-specific coincidence (rational norms of several rows of B) is "undecided".
A11Known(A, B, l) == l = 0 \/ IsZeroMat(Cols(B, 1, NCols(B) - l))
A11Of(A, B, l) == Cols(A, 1, NCols(A) - l)          \* meaningful only under A11Known (l < n)
Augment(X, Y) == [i \in 1..Len(X) |-> X[i] \o Y[i]]
LastUnits(n, l) == [i \in 1..n |-> [j \in 1..l |-> IF i = n - l + j THEN 1 ELSE 0]]
WBasis(B, l) == IF l = 0 THEN Transp(B) ELSE Augment(Transp(B), LastUnits(NCols(B), l))       \* n x (p + l): columns span W
DependentInW(A, B, k, l) == RankM(Augment(Cols(A, 1, k), MatMul(A, WBasis(B, l)))) < k        \* (b)
DependentFixed(A, B, k) == RankM(Cols(Stack(A, B), 1, k)) < k                                  \* (c)
IntNorm(b) == {r \in 1..64 : r * r = Dot(b, b)}
FirstRow(B) == B[CHOOSE i \in 1..Len(B) : (\E j \in 1..NCols(B) : B[i][j] # 0) /\ \A q \in 1..i - 1 : \A j \in 1..NCols(B) : B[q][j] = 0]
RankOneRational(B, l) == l = 1 /\ IntNorm(FirstRow(B)) # {} /\ (Len(B) = 1 \/ FirstRow(B)[NCols(B)] # 0)
MidColsZero(B, k, l) == IsZeroMat(Cols(B, k + 1, NCols(B) - l))
DropCols(M, a, b) == Augment(Cols(M, 1, a - 1), Cols(M, b + 1, NCols(M)))          \* M without the columns a..b
DependentMidZero(A, B, k, l) == LET n == NCols(A) IN RankM(DropCols(Stack(A, B), k + 1, n - l)) < n - (n - l - k)   \* (e)
A11SingleRow(A, b) ==            \* (u.u) A11, (d)
  LET n == Len(b)  rho == CHOOSE r \in IntNorm(b) : TRUE
      beta == IF b[n] >= 0 THEN -rho ELSE rho
      u == [j \in 1..n |-> IF j = n THEN b[n] - beta ELSE b[j]]
      uu == Dot(u, u)  Au == MatVec(A, u)
  IN [i \in 1..Len(A) |-> [j \in 1..n - 1 |-> uu * A[i][j] - 2 * u[j] * Au[i]]]
Cause(A, B) ==
  LET n == NCols(A)  l == RankM(B)  k == RankM(Stack(A, B)) - l IN
  IF ~PivotFree(B) THEN "B"
  ELSE IF k = 0 \/ k = n - l THEN "none"
  ELSE IF A11Known(A, B, l) THEN (IF LeadIndep(A11Of(A, B, l), k) THEN "none" ELSE "A11")
  ELSE IF MidColsZero(B, k, l) THEN (IF DependentMidZero(A, B, k, l) THEN "A11" ELSE "none")
  ELSE IF RankOneRational(B, l) THEN (IF LeadIndep(A11SingleRow(A, FirstRow(B)), k) THEN "none" ELSE "A11")
  ELSE IF DependentInW(A, B, k, l) \/ DependentFixed(A, B, k) THEN "A11"
  ELSE "undecided"
\* (d) really is a reflection onto the last axis:  H b = beta e_n,  i.e.  (u.u) b - 2 (u.b) u = (u.u) beta e_n
SingleRowReflector(b) ==
  (IntNorm(b) # {} /\ \E j \in 1..Len(b) - 1 : b[j] # 0) =>
     LET n == Len(b)  rho == CHOOSE r \in IntNorm(b) : TRUE
         beta == IF b[n] >= 0 THEN -rho ELSE rho
         u == [j \in 1..n |-> IF j = n THEN b[n] - beta ELSE b[j]]
     IN \A j \in 1..n : Dot(u, u) * b[j] - 2 * Dot(u, b) * u[j] = IF j = n THEN Dot(u, u) * beta ELSE 0

UnitExp == -50
JobSets == <<0, 1, 2, 3, 4, 5, 6, 7>>        \* bit 0: U, bit 1: V, bit 2: Q  (every subset)
DstModes == <<"empty", "sized", "view", "wrong">>   \* of every XTo; the Values slices: nil / sized / window of a longer slice / wrong length
ArgReps == <<"view", "transposed", "transposed-view", "basic">>     \* representations of the arguments A and B (besides a plain Dense)
Rec(m, p, n, v, t) ==
  LET pr == PairOf(m, p, n, v, t)  A == pr[1]  B == pr[2]
      l == RankM(B)  kl == RankM(Stack(A, B))
  IN [k |-> "gsvd", m |-> m, p |-> p, n |-> n, variant |-> v, t |-> t, a |-> A, b |-> B,
      rankA |-> RankM(A), rankB |-> l, rankAB |-> kl, kExact |-> kl - l, lExact |-> l,
      pivotFreeB |-> PivotFree(B), cause |-> Cause(A, B),
      \* c * max(m,p,n) * eps * (|A|_1 + |B|_1 + 1): 64 max(m,p,n) (|A|_1 + |B|_1 + 1) units of 2^-50 = 4 eps
      tol |-> 64 * Max2(Max2(m, p), n) * (Norm1(A) + Norm1(B) + 1), unitExp |-> UnitExp,
      jobs |-> JobSets, dstModes |-> DstModes, argReps |-> ArgReps]

(************************ the normative predicate ***************************)
(* All real matrices are given as integer numerators over ONE common         *)
(* denominator den (U, V, Q, S1, S2, ZR, alpha, beta); A, B are integer; gv  *)
(* is given as pairs <<num, den>> with den = 0 for +Inf.  tol is the         *)
(* entrywise tolerance in the same units (numerators of den^4 for products   *)
(* of four factors).  The harness mirrors each conjunct under its name.      *)
MatMulT(X, Y) == MatMul(X, Transp(Y))
AbsLe(X, Y, tol) == \A i \in 1..Len(X) : \A j \in 1..NCols(X) : Abs(X[i][j] - Y[i][j]) <= tol
ShapeIs(X, r, cc) == Len(X) = r /\ \A i \in 1..r : Len(X[i]) = cc

\* G1: shapes.  U m x m, V p x p, Q n x n, S1 m x (k+l), S2 p x (k+l), [0 R] (k+l) x n
GShapes(m, p, n, k, l, U, V, Q, S1, S2, ZR) ==
  /\ ShapeIs(U, m, m) /\ ShapeIs(V, p, p) /\ ShapeIs(Q, n, n)
  /\ ShapeIs(S1, m, k + l) /\ ShapeIs(S2, p, k + l) /\ ShapeIs(ZR, k + l, n)
\* G2 / G3: A = U S1 [0 R] Q^T,  B = V S2 [0 R] Q^T   (numerators over den^4)
GReconstruct(X, W, S, ZR, Q, den, tol) ==
  AbsLe(MatScale(den * den * den * den, X), MatMulT(MatMul(MatMul(W, S), ZR), Q), tol)
\* G4: orthogonality  W^T W = I  (numerators over den^2)
GOrthogonal(W, den, tol) == AbsLe(MatMul(Transp(W), W), MatScale(den * den, Ident(Len(W))), tol)
\* G5: structure of S1, S2 (LAPACK's, which gonum documents for Dggsvd3): with q = min(m, k+l),
\*   S1[i][i] = 1 (i <= k),  = alpha[i] (k < i <= q);     S2[i][k+i] = beta[k+i] (i <= q-k),  = 1 (q-k < i <= l);
\*   every other entry 0.  alpha, beta are indexed 1..n.
GSigma(m, p, k, l, S1, S2, alpha, beta, den) ==
  LET q == Min2(m, k + l) IN
  /\ \A i \in 1..m : \A j \in 1..k + l :
        S1[i][j] = IF i # j \/ i > q THEN 0 ELSE IF i <= k THEN den ELSE alpha[i]
  /\ \A i \in 1..p : \A j \in 1..k + l :
        S2[i][j] = IF j # k + i \/ i > l THEN 0 ELSE IF i <= q - k THEN beta[k + i] ELSE den
\* G6: alpha^2 + beta^2 = 1 on the pairs that belong to the decomposition (k < i <= q)
GUnitPairs(m, k, l, alpha, beta, den, tol) ==
  \A i \in (k + 1)..Min2(m, k + l) : Abs(alpha[i] * alpha[i] + beta[i] * beta[i] - den * den) <= tol
\* G7: generalized values  gv[i] = alpha[i] / beta[i]  (i.e. gv beta = alpha; +Inf when beta = 0 < alpha)
GValues(m, k, l, alpha, beta, gv, tol) ==
  \A i \in (k + 1)..Min2(m, k + l) :
     IF beta[i] = 0 THEN gv[i][2] = 0 ELSE gv[i][2] # 0 /\ Abs(gv[i][1] * beta[i] - alpha[i] * gv[i][2]) <= tol * Abs(gv[i][2])
\* G8: the leading n - k - l columns of [0 R] vanish
GZeroBlock(n, k, l, ZR) == \A i \in 1..k + l : \A j \in 1..n - k - l : ZR[i][j] = 0

GsvdHolds(A, B, k, l, U, V, Q, S1, S2, ZR, alpha, beta, gv, den, tol) ==
  LET m == Len(A)  p == Len(B)  n == NCols(A) IN
  /\ GShapes(m, p, n, k, l, U, V, Q, S1, S2, ZR)
  /\ GReconstruct(A, U, S1, ZR, Q, den, tol)
  /\ GReconstruct(B, V, S2, ZR, Q, den, tol)
  /\ GOrthogonal(U, den, tol) /\ GOrthogonal(V, den, tol) /\ GOrthogonal(Q, den, tol)
  /\ GSigma(m, p, k, l, S1, S2, alpha, beta, den)
  /\ GUnitPairs(m, k, l, alpha, beta, den, tol)
  /\ GValues(m, k, l, alpha, beta, gv, tol)
  /\ GZeroBlock(n, k, l, ZR)

\* planted exact decompositions: signed permutations over den = 5, C = 3/5, S = 4/5
SPerm(n, s) == [i \in 1..n |-> [j \in 1..n |-> IF j = 1 + ((i + s) % n) THEN (IF (i + s) % 2 = 0 THEN 5 ELSE -5) ELSE 0]]
PlantedSigma1(m, k, l) == [i \in 1..m |-> [j \in 1..k + l |-> IF i # j \/ i > Min2(m, k + l) THEN 0 ELSE IF i <= k THEN 5 ELSE 3]]
PlantedSigma2(p, m, k, l) == [i \in 1..p |-> [j \in 1..k + l |->
                                IF j # k + i \/ i > l THEN 0 ELSE IF i <= Min2(m, k + l) - k THEN 4 ELSE 5]]
PlantedZR(n, k, l, s) == [i \in 1..k + l |-> [j \in 1..n |->
                            IF j <= n - k - l THEN 0
                            ELSE IF j - (n - k - l) < i THEN 0
                            ELSE IF j - (n - k - l) = i THEN 25 * (1 + ((i + s) % 2)) ELSE 25 * (((i + j + s) % 3) - 1)]]
PlantedAlpha(n, m, k, l) == [i \in 1..n |-> IF i <= k THEN 5 ELSE IF i <= Min2(m, k + l) THEN 3 ELSE 0]
PlantedBeta(n, m, k, l) == [i \in 1..n |-> IF i <= k THEN 0 ELSE IF i <= Min2(m, k + l) THEN 4 ELSE IF i <= k + l THEN 5 ELSE 0]
PlantedGv(n, m, k, l) == [i \in 1..n |-> IF i <= k THEN <<1, 0>> ELSE IF i <= Min2(m, k + l) THEN <<3, 4>> ELSE <<0, 1>>]
\* A, B defined FROM the planted factors (exact division by 5^4 holds by construction)
PlantedA(W, S, ZR, Q) == LET P == MatMulT(MatMul(MatMul(W, S), ZR), Q) IN [i \in 1..Len(P) |-> [j \in 1..NCols(P) |-> P[i][j] \div 625]]
PlantedShapes == {<<m, p, n, k, l>> \in (1..3) \X (1..3) \X (1..4) \X (0..3) \X (0..3) :
                    k + l <= n /\ k <= m /\ l <= p /\ k + l >= 1 /\ (k + l > m => k + l - m <= l)}
PlantedHolds(sh, s) ==
  LET m == sh[1]  p == sh[2]  n == sh[3]  k == sh[4]  l == sh[5]
      U == SPerm(m, s)  V == SPerm(p, s + 1)  Q == SPerm(n, s + 2)
      S1 == PlantedSigma1(m, k, l)  S2 == PlantedSigma2(p, m, k, l)  ZR == PlantedZR(n, k, l, s)
      A == PlantedA(U, S1, ZR, Q)  B == PlantedA(V, S2, ZR, Q)
      al == PlantedAlpha(n, m, k, l)  be == PlantedBeta(n, m, k, l)  gv == PlantedGv(n, m, k, l)
  IN /\ MatScale(625, A) = MatMulT(MatMul(MatMul(U, S1), ZR), Q)            \* the division was exact
     /\ GsvdHolds(A, B, k, l, U, V, Q, S1, S2, ZR, al, be, gv, 5, 0)
     \* the planted pair has the ranks the decomposition claims
     /\ RankM(B) = l /\ RankM(Stack(A, B)) = k + l
CorruptedFails(sh, s) ==
  LET m == sh[1]  p == sh[2]  n == sh[3]  k == sh[4]  l == sh[5]
      U == SPerm(m, s)  V == SPerm(p, s + 1)  Q == SPerm(n, s + 2)
      S1 == PlantedSigma1(m, k, l)  S2 == PlantedSigma2(p, m, k, l)  ZR == PlantedZR(n, k, l, s)
      A == PlantedA(U, S1, ZR, Q)  B == PlantedA(V, S2, ZR, Q)
      al == PlantedAlpha(n, m, k, l)  be == PlantedBeta(n, m, k, l)  gv == PlantedGv(n, m, k, l)
      B2 == [B EXCEPT ![1][n] = @ + 1]                  \* B changed in one entry: not reconstructed any more
      ZR2 == [i \in 1..k + l |-> [j \in 1..n |-> IF i = k + l THEN 0 ELSE ZR[i][j]]]   \* a dropped row of R (rank under-reported)
  IN /\ ~GsvdHolds(A, B2, k, l, U, V, Q, S1, S2, ZR, al, be, gv, 5, 3)
     /\ ~GsvdHolds(A, B, k, l, U, V, Q, S1, S2, ZR2, al, be, gv, 5, 3)

(********************************* cases ************************************)
Cases == {[fam |-> "pair", m |-> m, p |-> p, n |-> n, v |-> v, t |-> t] :
             m \in 1..4, p \in 1..4, n \in 1..5, v \in Variants, t \in 0..NVariants - 1}
         \cup {[fam |-> "planted", m |-> sh[1], p |-> sh[2], n |-> sh[3], v |-> "", t |-> sh[4] * 10 + sh[5]] : sh \in PlantedShapes}

Init == c \in Cases
Next == UNCHANGED vars
Spec == Init /\ [][Next]_vars

PairOK(cc) == (cc.v \in {"zlB2"} => cc.n >= 2) /\ (cc.v \in {"dupA", "dupB"} => cc.n >= 2)
Theorems ==
  CASE c.fam = "pair" ->
         LET pr == PairOf(c.m, c.p, c.n, c.v, c.t) IN
           \* the elimination agrees with the definition of rank (checked on the smaller shapes: minors are expensive)
           /\ (c.p = 1 => SingleRowReflector(pr[2][1]))
           /\ (c.n <= 4 /\ c.m <= 3 /\ c.p <= 3) =>
              (RankM(pr[1]) = RankByMinors(pr[1]) /\ RankM(pr[2]) = RankByMinors(pr[2])
               /\ (c.m + c.p <= 4 => RankM(Stack(pr[1], pr[2])) = RankByMinors(Stack(pr[1], pr[2]))))
    [] c.fam = "planted" ->
         LET sh == <<c.m, c.p, c.n, c.t \div 10, c.t % 10>> IN
           \A s \in 0..1 : PlantedHolds(sh, s) /\ CorruptedFails(sh, s)

EmitCase == (Emit /\ c.fam = "pair" /\ PairOK(c)) => PrintT(ToJson(Rec(c.m, c.p, c.n, c.v, c.t)))
=============================================================================
