---------------------------- MODULE ReuseMachine ----------------------------
(* Histories that REUSE one factorization object (C06, quantifier            *)
(* "histories").  The abstract state of an object of any factorization type  *)
(* is only WHICH matrix it currently represents:                             *)
(*     cur = 0          the zero value (never factorized)                    *)
(*     cur = i          it holds instance i of the type's catalogue          *)
(*     cur = Empty      it holds nothing: a failed Factorize reset it, or    *)
(*                      Reset was called                                     *)
(* plus, as history bookkeeping, the set ex of derived quantities (factors,  *)
(* matrix view, solves, condition number, ...) extracted since the object    *)
(* was last (re)factorized - gonum computes and caches several of them       *)
(* lazily, which is exactly the state the property forbids to leak.          *)
(*                                                                          *)
(* Actions: Factorize(i) on the SAME object for every catalogue instance     *)
(* (same shape with other values, more/fewer rows, more/fewer columns,       *)
(* square <-> tall, other kind flags, failing inputs), Extract(q) for every  *)
(* query group of the type in every state, Reset and CloneFrom where the     *)
(* type has them.                                                            *)
(*                                                                          *)
(* The rule (theorem HistoryIndependent, true by construction of Next and    *)
(* checked by TLC): the abstract state after any history ending in           *)
(* Factorize(i) is the state after the one-step history <<Factorize(i)>>.    *)
(* Hence EVERY observable of the reused object must equal that of a fresh    *)
(* object factorized with instance i; in the states 0 / Empty every          *)
(* observer that is documented to need a factorization panics.  The matrix   *)
(* view is additionally stated exactly: Dims = shape of instance i and       *)
(* At(r,c) = a_i[r][c] (within tolA), T() the transpose of that.             *)
(*                                                                          *)
(* TLC prints the catalogue (exact integer matrices, spec-decided ok flags:  *)
(* positive definiteness by leading minors) and every transition; the Go     *)
(* harness replays each one on one live object reached by a real history.    *)
EXTENDS IntMat, FiniteSets, TLC, Json

CONSTANTS Seed, MaxEx, Emit

VARIABLES typ, cur, ex
vars == <<typ, cur, ex>>

Types == {"QR", "LQ", "LU", "Cholesky", "BandCholesky", "PivotedCholesky", "SVD",
          "EigenSym", "Eigen", "GSVD", "HOGSVD", "Tridiag"}

(******************************* catalogue **********************************)
Gen(m, n, t) == [i \in 1..m |-> [j \in 1..n |->
                  ((((t + Seed) % 5) * i + ((2 * t + 1) % 5) * j + (((t \div 2) + Seed) % 3) * i * j + (i \div 2) + t) % 5) - 2]]
Rhs(rows, t) == [i \in 1..rows |-> [j \in 1..2 |-> ((3 * i + 5 * j + 7 * Seed + 2 * t + 70) % 7) - 3]]
Spd(n, t) == MatAdd(MatMul(Transp(Gen(n, n, t)), Gen(n, n, t)), Ident(n))
Sym(n, t) == MatAdd(Gen(n, n, t), Transp(Gen(n, n, t)))
\* symmetric, diagonally dominant, half bandwidth kd
Band(n, kd, t) == [i \in 1..n |-> [j \in 1..n |->
                    IF i = j THEN 5 + ((i + t) % 3)
                    ELSE IF Abs(i - j) <= kd THEN ((i + j + t + Seed) % 3) - 1 ELSE 0]]
TriD(n, t) == [i \in 1..n |-> [j \in 1..n |->
                 IF i = j THEN 4 + ((i + t) % 3) ELSE IF Abs(i - j) = 1 THEN ((2 * i + j + t + Seed) % 3) - 1 ELSE 0]]
Neg(M) == MatScale(-1, M)
RectDiag(m, n, c) == [i \in 1..m |-> [j \in 1..n |-> IF i = j THEN c ELSE 0]]
RankOneSym(n) == [i \in 1..n |-> [j \in 1..n |-> (IF i = 2 THEN 2 ELSE 1) * (IF j = 2 THEN 2 ELSE 1)]]

\* an instance: shape (m x n), integer kind flag (meaning fixed per type, see harness table),
\* the matrix a (and a second matrix b2 / a list for GSVD / HOGSVD), the ok flag the specification
\* can decide ("true" / "false" / "any"), whether a failing Factorize leaves the object empty
Inst(m, n, kind, a, ok) == [m |-> m, n |-> n, kind |-> kind, a |-> a, more |-> <<>>, ok |-> ok, kd |-> 0]
InstK(m, n, kind, a, ok, kd) == [m |-> m, n |-> n, kind |-> kind, a |-> a, more |-> <<>>, ok |-> ok, kd |-> kd]
InstM(m, n, kind, a, more, ok) == [m |-> m, n |-> n, kind |-> kind, a |-> a, more |-> more, ok |-> ok, kd |-> 0]

Catalogue(t) ==
  CASE t = "QR" -> <<Inst(3, 2, 0, Gen(3, 2, 1), "any"), Inst(3, 2, 0, Gen(3, 2, 2), "any"), Inst(4, 2, 0, Gen(4, 2, 3), "any"),
                     Inst(2, 2, 0, Gen(2, 2, 4), "any"), Inst(3, 3, 0, Gen(3, 3, 5), "any"), Inst(3, 1, 0, Gen(3, 1, 6), "any"),
                     Inst(4, 3, 0, Gen(4, 3, 7), "any")>>
    [] t = "LQ" -> <<Inst(2, 3, 0, Gen(2, 3, 1), "any"), Inst(2, 3, 0, Gen(2, 3, 2), "any"), Inst(2, 4, 0, Gen(2, 4, 3), "any"),
                     Inst(2, 2, 0, Gen(2, 2, 4), "any"), Inst(3, 3, 0, Gen(3, 3, 5), "any"), Inst(1, 3, 0, Gen(1, 3, 6), "any"),
                     Inst(3, 4, 0, Gen(3, 4, 7), "any")>>
    [] t = "LU" -> <<Inst(2, 2, 0, Gen(2, 2, 1), "any"), Inst(2, 2, 0, Gen(2, 2, 2), "any"), Inst(3, 3, 0, Gen(3, 3, 3), "any"),
                     Inst(1, 1, 0, <<<<3>>>>, "any"), Inst(3, 3, 0, RankOneSym(3), "any"), Inst(4, 4, 0, Gen(4, 4, 5), "any")>>
    [] t = "Cholesky" -> <<Inst(2, 2, 0, Spd(2, 1), "true"), Inst(2, 2, 0, Spd(2, 2), "true"), Inst(3, 3, 0, Spd(3, 3), "true"),
                           Inst(1, 1, 0, <<<<4>>>>, "true"), Inst(2, 2, 0, Neg(Spd(2, 1)), "false"),
                           Inst(3, 3, 0, Neg(Spd(3, 2)), "false"), Inst(4, 4, 0, Spd(4, 4), "true")>>
    [] t = "BandCholesky" -> <<InstK(3, 3, 0, Band(3, 1, 1), "true", 1), InstK(3, 3, 0, Band(3, 1, 2), "true", 1),
                               InstK(4, 4, 0, Band(4, 1, 3), "true", 1), InstK(2, 2, 0, Band(2, 1, 4), "true", 1),
                               InstK(3, 3, 0, Band(3, 0, 5), "true", 0), InstK(3, 3, 0, Band(3, 2, 6), "true", 2),
                               InstK(3, 3, 0, Neg(Band(3, 1, 1)), "false", 1)>>
    [] t = "PivotedCholesky" -> <<Inst(2, 2, 0, Spd(2, 1), "true"), Inst(2, 2, 0, Spd(2, 2), "true"), Inst(3, 3, 0, Spd(3, 3), "true"),
                                  Inst(1, 1, 0, <<<<4>>>>, "true"), Inst(3, 3, 0, RankOneSym(3), "any"), Inst(4, 4, 0, Spd(4, 4), "true")>>
    [] t = "SVD" -> <<Inst(3, 2, 1, Gen(3, 2, 1), "true"), Inst(3, 2, 2, Gen(3, 2, 2), "true"), Inst(2, 3, 1, Gen(2, 3, 3), "true"),
                      Inst(2, 2, 0, Gen(2, 2, 4), "true"), Inst(4, 2, 2, Gen(4, 2, 5), "true"), Inst(3, 3, 1, Gen(3, 3, 6), "true"),
                      Inst(3, 2, 1, Gen(3, 2, 7), "true"), Inst(2, 4, 2, Gen(2, 4, 8), "true"), Inst(3, 1, 1, Gen(3, 1, 9), "true")>>
    [] t = "EigenSym" -> <<Inst(2, 2, 1, Sym(2, 1), "true"), Inst(2, 2, 1, Sym(2, 2), "true"), Inst(3, 3, 1, Sym(3, 3), "true"),
                           Inst(3, 3, 0, Sym(3, 4), "true"), Inst(1, 1, 1, <<<<2>>>>, "true"), Inst(2, 2, 0, Sym(2, 5), "true"),
                           Inst(4, 4, 1, Sym(4, 6), "true")>>
    [] t = "Eigen" -> <<Inst(2, 2, 1, Gen(2, 2, 1), "true"), Inst(2, 2, 3, Gen(2, 2, 2), "true"), Inst(3, 3, 0, Gen(3, 3, 3), "true"),
                        Inst(3, 3, 2, Gen(3, 3, 4), "true"), Inst(2, 2, 1, Gen(2, 2, 5), "true"), Inst(1, 1, 3, <<<<2>>>>, "true"),
                        Inst(4, 4, 3, Gen(4, 4, 6), "true")>>
    \* GSVD: a is m x n, more[1] is p x n
    [] t = "GSVD" -> <<InstM(3, 2, 7, Gen(3, 2, 1), <<Gen(2, 2, 2)>>, "true"), InstM(3, 2, 7, Gen(3, 2, 3), <<Gen(2, 2, 4)>>, "true"),
                       InstM(2, 3, 7, Gen(2, 3, 5), <<Gen(3, 3, 6)>>, "true"), InstM(4, 2, 1, Gen(4, 2, 7), <<Gen(3, 2, 8)>>, "true"),
                       InstM(3, 2, 0, Gen(3, 2, 9), <<Gen(2, 2, 1)>>, "true"), InstM(2, 2, 6, Gen(2, 2, 3), <<Gen(4, 2, 5)>>, "true")>>
    \* HOGSVD: the matrices are a and more[*], all with n columns
    [] t = "HOGSVD" -> <<InstM(3, 2, 0, MatAdd(Gen(3, 2, 1), RectDiag(3, 2, 4)), <<MatAdd(Gen(3, 2, 2), RectDiag(3, 2, 3))>>, "any"),
                         InstM(3, 2, 0, MatAdd(Gen(3, 2, 3), RectDiag(3, 2, 3)), <<MatAdd(Gen(3, 2, 4), RectDiag(3, 2, 4))>>, "any"),
                         InstM(2, 2, 0, MatAdd(Gen(2, 2, 5), MatScale(4, Ident(2))), <<MatAdd(Gen(2, 2, 6), MatScale(3, Ident(2))), MatAdd(Gen(2, 2, 7), MatScale(5, Ident(2)))>>, "any"),
                         InstM(1, 2, 0, Gen(1, 2, 1), <<Gen(3, 2, 2)>>, "false"),
                         InstM(3, 1, 0, <<<<1>>, <<2>>, <<-1>>>>, <<<<<<2>>, <<0>>, <<1>>>>>>, "any")>>
    [] t = "Tridiag" -> <<Inst(3, 3, 0, TriD(3, 1), "true"), Inst(3, 3, 0, TriD(3, 2), "true"), Inst(4, 4, 0, TriD(4, 3), "true"),
                          Inst(2, 2, 0, TriD(2, 4), "true"), Inst(1, 1, 0, <<<<5>>>>, "true")>>

\* (tables, so that TLC does not rebuild the catalogue in every state; TablesOK checks them against it)
NInst(t) == CASE t \in {"QR", "LQ", "Cholesky", "BandCholesky", "EigenSym", "Eigen"} -> 7
              [] t \in {"LU", "PivotedCholesky", "GSVD"} -> 6
              [] t = "SVD" -> 9
              [] t \in {"HOGSVD", "Tridiag"} -> 5
FirmFailures(t) == CASE t = "Cholesky" -> {5, 6} [] t = "BandCholesky" -> {7} [] t = "HOGSVD" -> {4} [] OTHER -> {}
FirmSuccesses(t) == CASE t = "Cholesky" -> {1, 2, 3, 4, 7} [] OTHER -> {}
TablesOK == /\ NInst(typ) = Len(Catalogue(typ))
            /\ FirmFailures(typ) = {i \in 1..NInst(typ) : Catalogue(typ)[i].ok = "false"}
            /\ (typ = "Cholesky") => FirmSuccesses(typ) = {i \in 1..NInst(typ) : Catalogue(typ)[i].ok = "true"}
Empty(t) == NInst(t) + 1
\* types whose failing Factorize leaves the object without a factorization
ResetsOnFailure(t) == t \in {"Cholesky", "BandCholesky", "HOGSVD"}
HasReset(t) == t \in {"Cholesky", "BandCholesky", "LU", "Tridiag"}
HasClone(t) == t \in {"Cholesky"}

\* extraction / query groups (the harness binds each name to the calls of that group)
Queries(t) ==
  CASE t = "QR" -> {"view", "Q", "R", "solve", "cond"}
    [] t = "LQ" -> {"view", "Q", "L", "solve", "cond"}
    [] t = "LU" -> {"view", "L", "U", "pivots", "det", "solve", "cond"}
    [] t = "Cholesky" -> {"view", "U", "L", "sym", "det", "solve", "inverse", "cond"}
    [] t = "BandCholesky" -> {"view", "det", "solve", "cond", "band"}
    [] t = "PivotedCholesky" -> {"view", "U", "pivots", "rank", "solve", "cond"}
    [] t = "SVD" -> {"kind", "values", "U", "V", "solve", "cond"}
    [] t = "EigenSym" -> {"view", "values", "vectors"}
    [] t = "Eigen" -> {"kind", "values", "vectors", "left"}
    [] t = "GSVD" -> {"kind", "values", "U", "V", "Q", "sigma", "zeroR"}
    [] t = "HOGSVD" -> {"len", "values", "U", "V"}
    [] t = "Tridiag" -> {"view", "solve", "norm"}

UnitExp == -44
TolA(t, inst) == 64 * Max2(inst.m, inst.n) * (Norm1(inst.a) + 1)
InstRec(t, i) == LET c == Catalogue(t)[i] IN
  [id |-> i, m |-> c.m, n |-> c.n, kind |-> c.kind, kd |-> c.kd, a |-> c.a, more |-> c.more, ok |-> c.ok,
   b |-> Rhs(c.m, i), bt |-> Rhs(c.n, i + 1), tolA |-> TolA(t, c)]
Hdr(t) == [k |-> "hdr", typ |-> t, n |-> NInst(t), empty |-> Empty(t), unitExp |-> UnitExp,
           resetsOnFailure |-> ResetsOnFailure(t), queries |-> Queries(t),
           inst |-> [i \in 1..NInst(t) |-> InstRec(t, i)]]

(********************************* actions **********************************)
AfterFactorize(t, i) == IF i \in FirmFailures(t) /\ ResetsOnFailure(t) THEN Empty(t) ELSE i

Ops(t) == [op : {"Factorize"}, i : 1..NInst(t)]
          \cup [op : {"Extract"}, q : IF Cardinality(ex) < MaxEx THEN Queries(t) ELSE {}]
          \cup (IF HasReset(t) THEN [op : {"Reset"}] ELSE {})
          \cup (IF HasClone(t) THEN [op : {"CloneFrom"}, i : FirmSuccesses(t)] ELSE {})

Step(o) == /\ typ' = typ
         /\ CASE o.op = "Factorize" -> cur' = AfterFactorize(typ, o.i) /\ ex' = {}
              [] o.op = "CloneFrom" -> cur' = o.i /\ ex' = {}
              [] o.op = "Reset"     -> cur' = Empty(typ) /\ ex' = {}
              [] o.op = "Extract"   -> cur' = cur /\ ex' = ex \cup {o.q}
Do(o) == /\ Step(o)
         /\ Emit => PrintT(ToJson([k |-> "t", typ |-> typ, s |-> [cur |-> cur, ex |-> ex], op |-> o,
                                   t |-> [cur |-> cur', ex |-> ex']]))

Init == /\ typ \in Types /\ cur = 0 /\ ex = {}
        /\ Emit => PrintT(ToJson(Hdr(typ)))
Next == \E o \in Ops(typ) : Do(o)
Spec == Init /\ [][Next]_vars

(******************************* theorems (R1) ******************************)
TypeOK == typ \in Types /\ cur \in 0..Empty(typ) /\ ex \subseteq Queries(typ) /\ Cardinality(ex) <= MaxEx
\* the state after a (re)factorization does not depend on the history before it
HistoryIndependent == [][\A i \in 1..NInst(typ) :
                           (\E o \in Ops(typ) : o.op = "Factorize" /\ o.i = i /\ Step(o))
                             => (cur' = AfterFactorize(typ, i) /\ ex' = {})]_vars
\* the catalogue really is what its ok flags say, and has legal shapes
CatalogueOK == (cur = 0 /\ ex = {}) =>      \* (facts about constants: evaluated once per type)
  /\ TablesOK
  /\ \A i \in 1..NInst(typ) : LET c == Catalogue(typ)[i] IN
    /\ Len(c.a) = c.m /\ \A r \in 1..c.m : Len(c.a[r]) = c.n
    /\ (typ = "QR") => c.m >= c.n
    /\ (typ = "LQ") => c.m <= c.n
    /\ (typ \in {"LU", "Cholesky", "BandCholesky", "PivotedCholesky", "EigenSym", "Eigen", "Tridiag"}) => c.m = c.n
    /\ (typ \in {"Cholesky", "BandCholesky", "PivotedCholesky", "EigenSym"}) => IsSymmetric(c.a)
    /\ (typ \in {"Cholesky", "BandCholesky", "PivotedCholesky"} /\ c.ok = "true") => PosDef(c.a)
    \* a firm "false": the first leading minor is already negative (no boundary case)
    /\ (typ \in {"Cholesky", "BandCholesky"} /\ c.ok = "false") => c.a[1][1] < 0
    /\ (typ = "GSVD") => NCols(c.more[1]) = c.n
    /\ (typ = "HOGSVD") => \A q \in 1..Len(c.more) : NCols(c.more[q]) = c.n
    /\ (typ = "HOGSVD" /\ c.ok = "false") => c.m < c.n      \* a wide input is rejected by contract
\* relative to the first instance the catalogue contains: the same shape again, more rows, fewer rows,
\* more columns, fewer columns (where the type's shape contract allows the class at all)
ShapeClasses == (cur = 0 /\ ex = {}) =>
  LET c == Catalogue(typ)  f == c[1]
      has(P(_)) == \E i \in 2..Len(c) : P(c[i])
      same(x) == x.m = f.m /\ x.n = f.n
      moreRows(x) == x.m > f.m
      fewerRows(x) == x.m < f.m
      moreCols(x) == x.n > f.n
      fewerCols(x) == x.n < f.n
  IN /\ has(same)
     /\ has(moreRows) \/ typ \in {"HOGSVD"}
     /\ has(fewerRows)
     /\ has(moreCols) \/ typ \in {"HOGSVD", "GSVD"}
     /\ has(fewerCols) \/ typ \in {"GSVD"}
EmitState == Emit => PrintT(ToJson([k |-> "s", typ |-> typ, cur |-> cur, ex |-> ex]))
=============================================================================
