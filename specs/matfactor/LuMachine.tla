----------------------------- MODULE LuMachine -----------------------------
(* mat.LU as a state machine over EXACT integer matrices (C06).              *)
(*                                                                          *)
(* Abstract state: the square integer matrix A the object represents, and   *)
(* the number of rank-one updates applied since the last Factorize.         *)
(*    Factorize(T)          A' = T         (any square T, singular or not)  *)
(*    RankOne(alpha, x, y)  A' = A + alpha x y^T                            *)
(* gonum's RankOne keeps the row permutation P of the factorization it      *)
(* updates ("P L' U' = A + alpha x y^T").  Such factors exist iff every     *)
(* leading principal minor of P^T A' is non-zero.  P is the implementation's*)
(* choice, so the specification prints, for every transition, the exact     *)
(* answer for EVERY row order q ("reg": is the update regular for q); the   *)
(* harness reads the pivots off the live object and looks the answer up.    *)
(* A non-regular update (which includes every singular A') cannot be        *)
(* represented: the only requirement then is that no finite wrong answer is *)
(* returned without an error.  RankOne on a singular A is not modelled.     *)
(*                                                                          *)
(* Observers are exact: Det by cofactors, solutions of A X = B and          *)
(* A^T X = B by Cramer, cond_inf = |A|_inf |Adj(A)|_inf / |Det|.            *)
EXTENDS IntMat, FiniteSets, TLC, Json

CONSTANTS MinN, MaxN,  \* dimensions explored
          MaxEntry,    \* |a_ij| <= MaxEntry in every reachable state
          MaxDepth,    \* at most MaxDepth RankOne calls after a Factorize
          NTargets,    \* how many Factorize targets per dimension
          Seed, Emit

VARIABLES A, depth
vars == <<A, depth>>
N == Len(A)
valid == N > 0
Bounded(M) == MaxAbs(M) <= MaxEntry

(***************************** operation alphabet ***************************)
Unit(n, i) == [k \in 1..n |-> IF k = i THEN 1 ELSE 0]
Ones(n) == [k \in 1..n |-> 1]
Alt(n) == [k \in 1..n |-> IF k = 1 THEN 1 ELSE IF k = 2 THEN -1 ELSE 0]
XVecs(n) == {Unit(n, i) : i \in 1..n} \cup {Ones(n)}
YVecs(n) == {Unit(n, i) : i \in 1..n} \cup (IF n > 1 THEN {Alt(n)} ELSE {})
Alphas == {1, -1, 2, -2}
\* Factorize targets: a salted family of small matrices (regular, singular, needing pivoting)
Fam(n, p, q, r) == [i \in 1..n |-> [j \in 1..n |-> ((p * i + q * j + r * i * j + i \div 2) % 5) - 2]]
FamAll(n) == {Fam(n, p, q, r) : p \in 0..4, q \in 0..4, r \in 0..4}
\* deterministic selection of NTargets members: by a salted index into the family parameters
Pick(n, t) == Fam(n, (t + Seed) % 5, (2 * t + Seed \div 5) % 5, (t \div 2 + 3 * Seed) % 5)
FactTargets == {Pick(n, t) : n \in MinN..MaxN, t \in 0..NTargets - 1}
               \cup {Ident(n) : n \in MinN..MaxN}
               \cup {[i \in 1..n |-> [j \in 1..n |-> IF i + j = n + 1 THEN 1 ELSE 0]] : n \in MinN..MaxN}  \* anti-identity

Ops == [op : {"Factorize"}, a : {T \in FactTargets : Bounded(T)}]
       \cup (IF valid /\ Det(A) # 0 /\ depth < MaxDepth
             THEN [op : {"RankOne"}, alpha : Alphas, x : XVecs(N), y : YVecs(N)] ELSE {})

Target(M, o) == CASE o.op = "Factorize" -> o.a
                  [] o.op = "RankOne"   -> MatAdd(M, MatScale(o.alpha, Outer(o.x, o.y)))

(******************************** observers *********************************)
NRhs == 2
Rhs(M) == [i \in 1..Len(M) |-> [j \in 1..NRhs |->
             ((3 * i + 5 * j + 7 * Seed + M[i][i] + 2 * M[1][Len(M)] + 70) % 7) - 3]]
AbsI(x) == IF x < 0 THEN -x ELSE x
UnitExp == -44
CondSlackExp == -20
\* entrywise reconstruction tolerance in units of 2^UnitExp; the factor 256 covers the element
\* growth of an update that keeps the old pivot order (|l_ij| <= largest minor <= 2*MaxEntry^3... )
TolA == 256 * 4 * MaxN * (MaxN * MaxEntry + 2)
InvNormCeil(M) == CeilDiv(Max2(NormInf(Adj(M)), Norm1(Adj(M))), AbsI(Det(M)))
TolX(M, X) == Len(M) * TolA * InvNormCeil(M) * Max2(1, CeilDiv(MaxAbs(X), AbsI(Det(M))))
\* singular matrices on which Gaussian elimination with any row order is exact in binary floating
\* point, so that a zero pivot is met exactly: dimension <= 2 (entries and multipliers are small
\* dyadics), a zero row, a zero column, or two equal rows
ExactSingular(M) == /\ Det(M) = 0
                    /\ \/ Len(M) <= 2
                       \/ \E i \in 1..Len(M) : \A j \in 1..Len(M) : M[i][j] = 0
                       \/ \E j \in 1..Len(M) : \A i \in 1..Len(M) : M[i][j] = 0
                       \/ \E i, k \in 1..Len(M) : i # k /\ M[i] = M[k]
\* for every row order q: are all leading principal minors of the reordered matrix non-zero?
RegList(M) == {<<q, NonzeroLeadMinors(PermRows(q, M))>> : q \in Perms(Len(M))}
StateRec(M, d) == [a |-> M, depth |-> d]
Obs(M, dp) ==
  IF Len(M) = 0 THEN [k |-> "s", a |-> M, n |-> 0, depth |-> dp]
  ELSE LET d == Det(M)  ad == Adj(M)  b == Rhs(M) IN
    IF d = 0 THEN [k |-> "s", a |-> M, n |-> Len(M), depth |-> dp, det |-> 0, exactSingular |-> ExactSingular(M),
                   tolA |-> TolA, tolDet |-> TolA * Len(M) * Max2(1, Norm1(ad))]
    ELSE LET ab == MatMul(ad, b)  atb == MatMul(Transp(ad), b) IN
         [k |-> "s", a |-> M, n |-> Len(M), depth |-> dp, det |-> d, exactSingular |-> FALSE,
          adj |-> ad, b |-> b, adjb |-> ab, adjtb |-> atb,
          tolA |-> TolA, tolX |-> TolX(M, ab), tolXT |-> TolX(M, atb),
          tolDet |-> TolA * Len(M) * Norm1(ad) + AbsI(d),
          \* infinity-norm estimate: the estimator works on A^-T started at e/n, so
          \*    |A|_inf |A^-T e|_1 / n  <=  Cond,   and  Cond <= cond_inf(A) when anorm = |A|_inf (after Factorize)
          condLo |-> <<NormInf(M) * SumSeq([j \in 1..Len(M) |-> AbsI(SumSeq([i \in 1..Len(M) |-> ad[i][j]]))]), Len(M) * AbsI(d)>>,
          condHi |-> <<NormInf(M) * NormInf(ad), AbsI(d)>>]
Hdr == [k |-> "hdr", machine |-> "lu", maxN |-> MaxN, maxEntry |-> MaxEntry, unitExp |-> UnitExp,
        condSlackExp |-> CondSlackExp,
        other |-> [n \in 1..MaxN |-> [i \in 1..n |-> [j \in 1..n |-> IF i = j THEN 3 ELSE IF i < j THEN 1 ELSE 0]]]]

(********************************* actions **********************************)
Do(o) ==
  LET T == Target(A, o) IN
     /\ Bounded(T)
     \* matrix determinant lemma: det(A + alpha x y^T) = det A + alpha y^T Adj(A) x
     /\ Assert(o.op = "RankOne" => Det(T) = Det(A) + o.alpha * Dot(o.y, MatVec(Adj(A), o.x)), "determinant lemma")
     \* a singular target is regular for no row order
     /\ Assert(Det(T) = 0 => \A q \in Perms(Len(T)) : ~NonzeroLeadMinors(PermRows(q, T)), "singular but regular")
     \* a non-singular target is regular for at least one row order (an LU factorization with pivoting exists)
     /\ Assert(Det(T) # 0 => \E q \in Perms(Len(T)) : NonzeroLeadMinors(PermRows(q, T)), "nonsingular without LU")
     /\ A' = T
     /\ depth' = IF o.op = "Factorize" THEN 0 ELSE depth + 1
     /\ Emit => PrintT(ToJson([k |-> "t", s |-> StateRec(A, depth), op |-> o, t |-> StateRec(A', depth'),
                               reg |-> IF o.op = "RankOne" THEN RegList(T) ELSE {}]))

Init == A = <<>> /\ depth = 0 /\ (Emit => PrintT(ToJson(Hdr)))
Next == \E o \in Ops : Do(o)
Spec == Init /\ [][Next]_vars

(*************************** design invariants (R1) *************************)
TypeOK == /\ depth \in 0..MaxDepth
          /\ valid => (N \in MinN..MaxN /\ Bounded(A) /\ \A i \in 1..N : Len(A[i]) = N)
AdjIsInverse == valid => /\ MatMul(A, Adj(A)) = MatScale(Det(A), Ident(N))
                         /\ MatMul(Adj(A), A) = MatScale(Det(A), Ident(N))
CramerSolves == (valid /\ Det(A) # 0) =>
                  /\ MatMul(A, MatMul(Adj(A), Rhs(A))) = MatScale(Det(A), Rhs(A))
                  /\ MatMul(Transp(A), MatMul(Transp(Adj(A)), Rhs(A))) = MatScale(Det(A), Rhs(A))
DetTranspose == valid => Det(Transp(A)) = Det(A)
EmitState == Emit => PrintT(ToJson(Obs(A, depth)))
=============================================================================
