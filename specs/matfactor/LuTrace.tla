------------------------------ MODULE LuTrace ------------------------------
(* R3 (code->spec) for mat.LU: accepts an ndjson log of a real history of    *)
(* Factorize / RankOne calls iff it is a behaviour of LuMachine.  Each event *)
(* carries the call with its integer arguments, the row order q the live     *)
(* object held BEFORE the call (from RowPivots), and a projection of the     *)
(* object after the call: At rounded to integers, round(Det), whether every  *)
(* projected number was within 2^-20 of an integer, and whether SolveTo      *)
(* returned an error.  The specification decides from q whether the update   *)
(* is representable with the kept pivots (all leading minors of the          *)
(* reordered target non-zero); if so the projection must equal the exact     *)
(* target, otherwise (or after an update of a singular matrix) the history   *)
(* is followed without observations until the next Factorize or Reset.       *)
EXTENDS LuMachine, TLCExt

TraceLog == ndJsonDeserialize("trace.ndjson")

VARIABLES l, loose
tvars == <<A, depth, l, loose>>
Ev == TraceLog[l]

Call == /\ l <= Len(TraceLog) /\ Ev.e = "call"
        /\ LET e == Ev  o == e.op
               T == IF o.op = "RankOne" /\ loose THEN A ELSE Target(A, o)
               reg == IF o.op = "RankOne"
                      THEN ~loose /\ Det(A) # 0 /\ NonzeroLeadMinors(PermRows(e.q, T))
                      ELSE TRUE
           IN /\ A' = T /\ depth' = 0
              /\ loose' = ~reg
              /\ reg => /\ e.exact
                        /\ e.at = T
                        /\ e.det = Det(T)
                        /\ (Det(T) # 0) => ~e.err
        /\ l' = l + 1

Reset == /\ l <= Len(TraceLog) /\ Ev.e = "reset"
         /\ A' = <<>> /\ depth' = 0 /\ loose' = FALSE /\ l' = l + 1

TraceInit == A = <<>> /\ depth = 0 /\ l = 1 /\ loose = FALSE
TraceNext == Call \/ Reset
TraceSpec == TraceInit /\ [][TraceNext]_tvars
TraceInv == valid => \A i \in 1..N : Len(A[i]) = N

Accepted ==
    LET d == TLCGet("stats").diameter IN
    IF d - 1 = Len(TraceLog) THEN PrintT("TRACE-ACCEPTED " \o ToString(Len(TraceLog)))
    ELSE /\ PrintT("TRACE-REJECTED at event " \o ToString(d) \o ": " \o ToString(TraceLog[d]))
         /\ FALSE
=============================================================================
