------------------------------- MODULE ExpPow -------------------------------
(* Matrix functions of C06 on their exact-closed classes: Dense.Exp,         *)
(* Dense.Pow, SymDense.PowPSD.                                               *)
(*                                                                          *)
(* "exp".  N is NILPOTENT with dyadic entries: N = C * sn / 2^q with C an    *)
(* integer matrix, C^idx = 0 (theorem Nilpotent).  C is strictly upper or    *)
(* lower triangular, S C0 S^-1 with S a product of two integer shears        *)
(* (theorem Unimodular: S Adj(S) = I), or a nilpotent block next to a 1x1    *)
(* zero block.  Then, by DEFINITION of the exponential series,               *)
(*      exp(N) = I + N + N^2/2! + ... + N^(idx-1)/(idx-1)!                   *)
(* is a finite sum of rationals which this module evaluates exactly over     *)
(* the common denominator (idx-1)! 2^(q (idx-1)) (operator ExpNum).          *)
(* Theorem ExpInverse (checked where the integers fit): exp(N) exp(-N) = I.  *)
(* Any algorithm for the matrix exponential (gonum: Pade approximants with   *)
(* scaling and squaring) must return this matrix within the emitted bound    *)
(*      CExp * n * 2^-52 * ceil|N|_1 * sum_k ceil(|N|_1)^k / k!  (entrywise) *)
(* The scale sn / 2^q is chosen by the module so that |N|_1 lands just at /  *)
(* below and just above each of the norm thresholds at which an              *)
(* implementation of Higham's Algorithm 10.20 changes its path (Pade orders  *)
(* 3, 5, 7, 9, 13 at 0.015, 0.25, 0.95, 2.1; half of theta13 = 2.7; and      *)
(* 5.4 * 2^j, j = 0..6: one more squaring each).  Operators PadeOrder and    *)
(* Squarings are that implementation-shaped layer: they only LABEL cases so  *)
(* that the evidence shows every path was executed; no verdict uses them.    *)
(*                                                                          *)
(* "pow".  A^e by repeated product, A^0 = I (the definition), on integer     *)
(* matrices all of whose powers up to 2e stay below 2^20 (theorem            *)
(* PowBounded), so that every product formed by any multiplication chain is  *)
(* exact in float64 and the comparison is bit for bit: small general         *)
(* matrices, unipotent I + N, signed permutations and finite-order integer   *)
(* matrices with large exponents, Fibonacci.                                 *)
(*                                                                          *)
(* "powpsd".  A = H D^6 H^T / n with the Sylvester-Hadamard H and D positive *)
(* (theorem PsdPlanted: A H = H D^6, H^T H = n I).  The unique symmetric     *)
(* positive definite A^(r/6) is H D^r H^T / n for every integer r (also      *)
(* negative when D is a power of two, so that the entries stay dyadic);      *)
(* theorem PsdPower: (A^(r/6))^6 = A^r.  A planted negative eigenvalue must  *)
(* be reported by an error.                                                  *)
(*                                                                          *)
(* "singpsd".  Exactly singular positive SEMI-definite matrices (theorem     *)
(* SingularPsd: symmetric, every principal minor >= 0, a kernel of the       *)
(* stated dimension, a positive principal minor of the complementary size).  *)
(* The documentation of PowPSD: "returns an error if the matrix is not       *)
(* positive symmetric definite" - for EVERY power, also the non-negative     *)
(* ones.  Two classes:                                                       *)
(*   exact  (zero matrix, diagonal matrices with 1 or 2 zero entries, a      *)
(*          positive definite block bordered by a zero first and / or last   *)
(*          row and column): the zero eigenvalue belongs to a coordinate     *)
(*          vector e_z and row / column z is never the pivot row of a        *)
(*          Householder step of a tridiagonal reduction (first and last      *)
(*          index; for a diagonal matrix every step is the identity), so     *)
(*          every operation a symmetric eigensolver performs on that row /   *)
(*          column is on exact zeros, the 1x1 block deflates and the         *)
(*          computed eigenvalue IS 0: the error is a must;                    *)
(*   planted (H diag(d) H^T / n with one or two d = 0): the computed          *)
(*          eigenvalue is 0 up to a rounding residue of either sign, so       *)
(*          neither the error nor its absence can be promised ("either").    *)
EXTENDS IntMat, FiniteSets, TLC, Json

CONSTANTS Seed, NVariants, Emit

VARIABLE c
vars == <<c>>

Cap == 1073741824              \* 2^30: every integer this module forms stays below it
SatMul(a, b) == IF b = 0 \/ a = 0 THEN 0 ELSE IF a > Cap \div b THEN Cap ELSE a * b     \* a, b >= 0
SatAdd(a, b) == IF a > Cap - b THEN Cap ELSE a + b                                      \* 0 <= a, b <= Cap
RECURSIVE SatPow(_, _)
SatPow(a, k) == IF k = 0 THEN 1 ELSE SatMul(SatPow(a, k - 1), a)
RECURSIVE Fact(_)
Fact(k) == IF k <= 1 THEN 1 ELSE k * Fact(k - 1)
RECURSIVE PowM(_, _)
PowM(A, k) == IF k = 0 THEN Ident(Len(A)) ELSE TLCEval(MatMul(PowM(A, k - 1), A))
ZeroM(n) == [i \in 1..n |-> [j \in 1..n |-> 0]]
Neg(A) == MatScale(-1, A)

(********************************** "exp" ***********************************)
Ent(i, j, t) == (((i * (t + 2) + j * ((Seed % 7) + 3) + t * j + (Seed \div 7)) % 5) - 2)
Upper(n, t) == [i \in 1..n |-> [j \in 1..n |-> IF i < j THEN Ent(i, j, t) ELSE 0]]
Shear(n, a, b, f) == [i \in 1..n |-> [j \in 1..n |-> IF i = j THEN 1 ELSE IF i = a /\ j = b THEN f ELSE 0]]
ShearS(n, t) == MatMul(Shear(n, 1 + (t % n), 1 + ((t + 1) % n), 1),
                       Shear(n, 1 + ((t + 1) % n), 1 + (t % n), IF t % 2 = 0 THEN 1 ELSE -1))
\* a nilpotent block of size n-1 and a 1x1 zero block at diagonal position pos
Embed(M, pos) == LET n == Len(M) + 1
                     o(i) == IF i < pos THEN i ELSE i - 1
                 IN [i \in 1..n |-> [j \in 1..n |-> IF i = pos \/ j = pos THEN 0 ELSE M[o(i)][o(j)]]]
ExpKinds == {"upper", "lower", "similar", "block0"}
Base(kind, n, t) ==
  CASE kind = "upper"   -> Upper(n, t)
    [] kind = "lower"   -> Transp(Upper(n, t + 1))
    [] kind = "similar" -> LET S == ShearS(n, t) IN MatMul(S, MatMul(Upper(n, t + 2), Adj(S)))
    [] kind = "block0"  -> Embed(Upper(n - 1, t + 3), 1 + (t % n))
NilIndex(kind, n) == IF kind = "block0" THEN n - 1 ELSE n

\* thresholds of |N|_1 in thousandths
Thr == <<15, 250, 950, 2100, 2700, 5400, 10800, 21600, 43200, 86400, 172800, 345600>>
SnMin(idx) == IF idx <= 2 THEN 16 ELSE IF idx = 3 THEN 8 ELSE 4
RECURSIVE FindQ(_, _, _, _)
FindQ(w, th, idx, q) == IF (th * (2 ^ q)) \div (1000 * w) >= SnMin(idx) THEN q ELSE FindQ(w, th, idx, q + 1)
\* N = C sn / 2^q has |N|_1 = w sn / 2^q:  side 0 -> the largest such value <= th/1000, side 1 -> the smallest one above
ScaleOf(C, th, idx, side) == LET w == Norm1(C)  q == FindQ(w, th, idx, 0)
                             IN [q |-> q, sn |-> ((th * (2 ^ q)) \div (1000 * w)) + side]

\* do all integers of ExpNum / TolUnits stay below Cap ?  (bound: |(C sn)^k| <= n^(k-1) M^k entrywise)
ExpFits(C, sn, q, idx) ==
  LET n == Len(C)  M == MaxAbs(C) * sn  W == CeilDiv(Norm1(C) * sn, 2 ^ q)
      term(k) == SatMul(SatMul(SatMul(SatPow(n, IF k = 0 THEN 0 ELSE k - 1), SatPow(M, k)), SatPow(2, q * (idx - 1 - k))),
                        Fact(idx - 1) \div Fact(k))
      RECURSIVE tot(_)
      tot(k) == IF k < 0 THEN 0 ELSE SatAdd(term(k), tot(k - 1))
      RECURSIVE wt(_)
      wt(k) == IF k < 0 THEN 0 ELSE SatAdd(SatMul(SatPow(W, k), Fact(idx - 1) \div Fact(k)), wt(k - 1))
  IN tot(idx - 1) < Cap /\ wt(idx - 1) < Cap

\* numerators of exp(C sn / 2^q) over the denominator ExpDen
ExpDen(q, idx) == Fact(idx - 1) * (2 ^ (q * (idx - 1)))
ExpNum(C, sn, q, idx) ==
  LET n == Len(C)  Cs == MatScale(sn, C)
      RECURSIVE acc(_)
      acc(k) == IF k < 0 THEN ZeroM(n)
                ELSE MatAdd(MatScale((2 ^ (q * (idx - 1 - k))) * (Fact(idx - 1) \div Fact(k)), PowM(Cs, k)), acc(k - 1))
  IN acc(idx - 1)
\* implementation-shaped labels (Higham, Functions of Matrices, Algorithm 10.20); norm = nn / 2^q
PadeOrder(nn, q) == LET le(th) == nn * 1000 <= th * (2 ^ q)
                    IN IF le(15) THEN 3 ELSE IF le(250) THEN 5 ELSE IF le(950) THEN 7 ELSE IF le(2100) THEN 9 ELSE 13
RECURSIVE SqFrom(_, _, _)
SqFrom(nn, q, j) == IF nn * 1000 <= 5400 * (2 ^ j) * (2 ^ q) THEN j ELSE SqFrom(nn, q, j + 1)
Squarings(nn, q) == IF PadeOrder(nn, q) < 13 THEN 0 ELSE SqFrom(nn, q, 0)
\* order 13 without scaling, norm at most theta13 / 2: log2(norm / theta13) <= -1
LowHalf(nn, q) == PadeOrder(nn, q) = 13 /\ nn * 1000 <= 2700 * (2 ^ q)

\* tolerance = tolUnits * tolScale * 2^-52 entrywise, tolUnits = CExp n ceil(|N|), tolScale = ceil(sum_k ceil(|N|)^k / k!):
\* the relative condition number of exp at N is at least |N|, and the Frechet derivative of exp at a nilpotent N is bounded
\* through the finite series; so c n eps max(1,|N|) sum_k |N|^k/k! is what a forward stable algorithm attains.
\* (Measured on gonum, seeds 1..6: error / (n eps ceil|N| sum) <= 19 over all cases; without the factor |N| the quotient grows with
\* every squaring, to 2900 at |N| = 346.)
\* Scaling and squaring is not forward stable on non-normal matrices: every squaring may double the relative error
\* (Higham, Functions of Matrices, 10.3), and no a-priori bound close to what is observed exists. The tolerance is
\* therefore a gross-error detector, not an accuracy claim: the factor 2^squarings follows that doubling, and CExp leaves
\* a margin of more than 50 over everything measured (thorough tier, seed 2: error / (n eps ceil|N| sum) = 450 at
\* |N| = 344 with 6 squarings - with the earlier constant 256 and no squaring factor that case was a false alarm).
\* A wrong Pade coefficient, a missed or extra squaring or a corrupted operand is wrong by many orders more.
CExp == 1024
NormCeil(C, sn, q) == CeilDiv(Norm1(C) * sn, 2 ^ q)
ExpTolUnits(C, sn, q) == CExp * (2 ^ Squarings(Norm1(C) * sn, q)) * Len(C) * NormCeil(C, sn, q)
ExpTolScale(C, sn, q, idx) ==
  LET W == NormCeil(C, sn, q)  F == Fact(idx - 1)
      RECURSIVE s(_)
      s(k) == IF k < 0 THEN 0 ELSE (W ^ k) * (F \div Fact(k)) + s(k - 1)
  IN CeilDiv(s(idx - 1), F)

ExpModes == <<"empty", "sized", "view", "self", "self-view", "basic", "transposed">>
ExpRec(kind, n, t, ti, side) ==
  LET C == Base(kind, n, t)  idx == NilIndex(kind, n)  sc == ScaleOf(C, Thr[ti], idx, side)
      nn == Norm1(C) * sc.sn
  IN [k |-> "exp", kind |-> kind, n |-> n, t |-> t, idx |-> idx, thr |-> Thr[ti], side |-> side,
      anum |-> MatScale(sc.sn, C), aexp |-> sc.q, normNum |-> nn,
      pade |-> PadeOrder(nn, sc.q), sq |-> Squarings(nn, sc.q), lowHalf |-> LowHalf(nn, sc.q),
      enum |-> ExpNum(C, sc.sn, sc.q, idx), eden |-> ExpDen(sc.q, idx),
      tolUnits |-> ExpTolUnits(C, sc.sn, sc.q), tolScale |-> ExpTolScale(C, sc.sn, sc.q, idx), unitExp |-> -52,
      modes |-> ExpModes]
ExpOK(kind, n, t, ti, side) ==
  LET C == Base(kind, n, t)  idx == NilIndex(kind, n) IN
  /\ idx >= 2 /\ Norm1(C) > 0
  /\ LET sc == ScaleOf(C, Thr[ti], idx, side) IN ExpFits(C, sc.sn, sc.q, idx)

\* theorems
Nilpotent(kind, n, t) == PowM(Base(kind, n, t), NilIndex(kind, n)) = ZeroM(n)
Unimodular(n, t) == LET S == ShearS(n, t) IN Det(S) = 1 /\ MatMul(S, Adj(S)) = Ident(n)
ExpInverse(kind, n, t, ti, side) ==
  LET C == Base(kind, n, t)  idx == NilIndex(kind, n)  sc == ScaleOf(C, Thr[ti], idx, side)
      E == ExpNum(C, sc.sn, sc.q, idx)  D == ExpDen(sc.q, idx)
      F == ExpNum(Neg(C), sc.sn, sc.q, idx)                         \* (fits: ExpFits bounds absolute values)
  IN (SatMul(n, SatMul(MaxAbs(E), MaxAbs(F))) < Cap /\ SatMul(D, D) < Cap)
       => MatMul(E, F) = MatScale(D * D, Ident(n))
ScalePlaced(kind, n, t, ti, side) ==         \* the norm really is on the requested side of the threshold, next to it
  LET C == Base(kind, n, t)  idx == NilIndex(kind, n)  sc == ScaleOf(C, Thr[ti], idx, side)
      nn == Norm1(C) * sc.sn  w == Norm1(C)
  IN /\ (side = 0) => (nn * 1000 <= Thr[ti] * (2 ^ sc.q) /\ (nn + w) * 1000 > Thr[ti] * (2 ^ sc.q))
     /\ (side = 1) => (nn * 1000 > Thr[ti] * (2 ^ sc.q) /\ (nn - w) * 1000 <= Thr[ti] * (2 ^ sc.q))

\* shape contract of Exp: a must be square; a non-empty receiver must already have the shape of the result
ExpShapeRec(r, cc, rr, rc) ==
  [k |-> "expshape", ar |-> r, ac |-> cc, rr |-> rr, rc |-> rc,
   panics |-> (r # cc) \/ (rr # 0 /\ (rr # r \/ rc # cc))]         \* rr = 0: empty receiver

(********************************** "pow" ***********************************)
PowKinds == {"gen", "unipotent", "perm", "order6", "fib"}
PermOf(n, t) == [i \in 1..n |-> 1 + ((i + t) % n)]        \* a cyclic shift: a permutation for every t
PowBase(kind, n, t) ==
  CASE kind = "gen"       -> [i \in 1..n |-> [j \in 1..n |-> (((i * (t + 1) + j * ((Seed % 5) + 2) + i * j + t) % 5) - 2)]]
    [] kind = "unipotent" -> MatAdd(Ident(n), Upper(n, t))
    [] kind = "perm"      -> [i \in 1..n |-> [j \in 1..n |-> IF PermOf(n, t)[i] = j THEN (IF (i + t + Seed) % 2 = 0 THEN 1 ELSE -1) ELSE 0]]
    [] kind = "order6"    -> <<<<0, -1>>, <<1, 1>>>>
    [] kind = "fib"       -> <<<<1, 1>>, <<1, 0>>>>
PowExps(kind) ==
  CASE kind = "gen"       -> <<0, 1, 2, 3, 4, 5, 6, 7>>
    [] kind = "unipotent" -> <<0, 1, 2, 3, 5, 8, 16, 31, 40>>
    [] kind = "perm"      -> <<0, 1, 2, 3, 7, 64, 100, 257>>
    [] kind = "order6"    -> <<0, 1, 5, 6, 7, 64, 255, 600>>
    [] kind = "fib"       -> <<0, 1, 2, 3, 10, 14>>
PowSizes(kind) == IF kind \in {"order6", "fib"} THEN {2} ELSE 1..4
PowLimit == 1048576    \* 2^20
\* every power up to 2e stays below the limit (evaluated incrementally: stop at the first power that does not)
RECURSIVE PowsBoundedFrom(_, _, _, _)
PowsBoundedFrom(A, P, j, last) == IF MaxAbs(P) >= PowLimit THEN FALSE
                                  ELSE IF j >= last THEN TRUE ELSE PowsBoundedFrom(A, TLCEval(MatMul(P, A)), j + 1, last)
PowBounded(A, e) == PowsBoundedFrom(A, Ident(Len(A)), 0, 2 * e)
PowRec(kind, n, t) ==
  LET A == PowBase(kind, n, t)
      es == SelectSeq(PowExps(kind), LAMBDA e : PowBounded(A, e))
  IN [k |-> "pow", kind |-> kind, n |-> n, t |-> t, a |-> A,
      pows |-> [i \in 1..Len(es) |-> [e |-> es[i], p |-> PowM(A, es[i])]],
      modes |-> <<"empty", "sized", "view", "self", "basic", "transposed">>]
\* theorems: A^(i+j) = A^i A^j on the emitted exponents (the definition does not depend on the chain)
PowSplit(kind, n, t) ==
  LET A == PowBase(kind, n, t) IN
  \A e \in {x \in {2, 3, 5, 7} : PowBounded(A, x)} :
     PowM(A, e) = MatMul(PowM(A, e \div 2), PowM(A, e - (e \div 2)))
PowPeriod(kind, n, t) ==
  /\ (kind = "order6") => PowM(PowBase(kind, n, t), 6) = Ident(2)
  /\ (kind = "perm") => PowM(PowBase(kind, n, t), 2 * n) = Ident(n)

(********************************* "powpsd" *********************************)
Bit(x, k) == (x \div (2 ^ k)) % 2
Had(n) == [i \in 1..n |-> [j \in 1..n |->
            IF (Bit(i - 1, 0) * Bit(j - 1, 0) + Bit(i - 1, 1) * Bit(j - 1, 1) + Bit(i - 1, 2) * Bit(j - 1, 2)) % 2 = 0
            THEN 1 ELSE -1]]
DiagM(d) == [i \in 1..Len(d) |-> [j \in 1..Len(d) |-> IF i = j THEN d[i] ELSE 0]]
Conj(n, d) == MatMul(Had(n), MatMul(DiagM(d), Transp(Had(n))))         \* H diag(d) H^T  (= n * the planted matrix)
\* sixth roots of the spectrum: powers of two for even t (negative exponents stay dyadic), {1,2,3} for odd t
PsdRoot(n, t) == [i \in 1..n |-> IF t % 2 = 0 THEN 2 ^ ((i * (1 + (t \div 2)) + Seed) % 3)
                                 ELSE 1 + ((i * (1 + (t \div 2)) + Seed) % 3)]
DMax(d) == MaxSeq(d)
DMin(d) == CHOOSE x \in {d[i] : i \in 1..Len(d)} : \A i \in 1..Len(d) : x <= d[i]
\* exponents r/6
PsdExps(t) == IF t % 2 = 0 THEN <<-12, -6, -3, -2, 0, 1, 2, 3, 4, 6, 9, 12>> ELSE <<0, 1, 2, 3, 4, 6, 9, 12>>
\* A^(r/6) = H diag(d^r) H^T / n ;  for r < 0:  H diag((dmax/d)^|r|) H^T / (n dmax^|r|)
PsdPow(n, d, r) ==
  IF r >= 0 THEN [num |-> Conj(n, [i \in 1..n |-> d[i] ^ r]), den |-> n]
  ELSE [num |-> Conj(n, [i \in 1..n |-> (DMax(d) \div d[i]) ^ (-r)]), den |-> n * (DMax(d) ^ (-r))]
CPsd == 64
\* c n eps cond(A) |A^(r/6)|  (the Lipschitz constant of x^(r/6) on the spectrum is at most cond * value / argument):
\* tolerance = tolUnits * tolScale * 2^-52  (two factors: their product need not fit TLC's integers)
PsdTolUnits(n, d) == CPsd * n * CeilDiv(DMax(d) ^ 6, DMin(d) ^ 6)
PsdTolScale(n, d, r) == LET pw == PsdPow(n, d, r) IN Max2(1, CeilDiv(Norm1(pw.num), pw.den))
PsdRec(n, t) ==
  LET d == PsdRoot(n, t)  es == PsdExps(t) IN
  [k |-> "powpsd", n |-> n, t |-> t, anum |-> Conj(n, [i \in 1..n |-> d[i] ^ 6]), aden |-> n, root |-> d,
   pows |-> [i \in 1..Len(es) |-> LET pw == PsdPow(n, d, es[i]) IN
               [rnum |-> es[i], rden |-> 6, num |-> pw.num, den |-> pw.den,
                tolUnits |-> PsdTolUnits(n, d), tolScale |-> PsdTolScale(n, d, es[i])]],
   unitExp |-> -52, ok |-> TRUE, either |-> FALSE]
\* a planted negative (or zero) eigenvalue: the documented answer is an error
NotPsdRec(n, t) ==
  LET d == [i \in 1..n |-> IF i = 1 + (t % n) THEN (IF t % 2 = 0 THEN -1 ELSE -4) ELSE 1 + ((i + t + Seed) % 3)] IN
  [k |-> "powpsd", n |-> n, t |-> t, anum |-> Conj(n, d), aden |-> n, root |-> d,
   pows |-> <<[rnum |-> 3, rden |-> 6, num |-> ZeroM(n), den |-> 1, tolUnits |-> 0, tolScale |-> 0],
              [rnum |-> 12, rden |-> 6, num |-> ZeroM(n), den |-> 1, tolUnits |-> 0, tolScale |-> 0]>>,
   unitExp |-> -52, ok |-> FALSE, either |-> FALSE]
PsdPlanted(n, t) ==
  LET H == Had(n)  d == PsdRoot(n, t)  d6 == [i \in 1..n |-> d[i] ^ 6] IN
  /\ MatMul(Transp(H), H) = MatScale(n, Ident(n))
  /\ MatMul(Conj(n, d6), H) = MatScale(n, MatMul(H, DiagM(d6)))
  /\ \A i \in 1..n : d[i] > 0
  /\ (t % 2 = 0) => \A i \in 1..n : DMax(d) % d[i] = 0
\* the r/6-th power really is one.  Lemma ConjMul: (H x H^T)(H y H^T) = n H (x.y) H^T; by induction
\* (H d^r H^T / n)^6 = H d^(6r) H^T / n = A^r, and H d^r H^T / n is symmetric with the positive spectrum d^r.
\* For negative r:  (H d^r H^T / n)(H d^-r H^T / n) = I.
PsdPower(n, t) ==
  LET d == PsdRoot(n, t)  pw(a) == [i \in 1..n |-> d[i] ^ a] IN
  /\ \A a, b \in {1, 2, 3} : MatMul(Conj(n, pw(a)), Conj(n, pw(b))) = MatScale(n, Conj(n, pw(a + b)))
  /\ \A a \in {1, 2, 3} : IsSymmetric(Conj(n, pw(a)))
  /\ (t % 2 = 0) => \A a \in {1, 2, 3} :
        MatMul(Conj(n, pw(a)), Conj(n, [i \in 1..n |-> (DMax(d) \div d[i]) ^ a])) = MatScale(n * n * (DMax(d) ^ a), Ident(n))

(******************************** "singpsd" *********************************)
SingKinds == {"zero", "diag", "block", "had"}
SingExact(kind) == kind # "had"
\* positions of the zero eigen-directions (mult of them, distinct for mult <= n)
ZeroPos(n, t, mult) == {1 + ((t + q) % n) : q \in 0..mult - 1}
\* border positions (first and / or last index) for the "block" kind
BorderPos(n, t, mult) == IF mult = 2 THEN {1, n} ELSE IF t % 2 = 0 THEN {1} ELSE {n}
KernelPos(kind, n, t, mult) == IF kind = "block" THEN BorderPos(n, t, mult) ELSE ZeroPos(n, t, mult)
\* a dense positive definite block: G^T G + I for an integer G (theorem SingularPsd re-checks it through the minors)
PdGen(k, t) == [i \in 1..k |-> [j \in 1..k |-> (((i * (t + 1) + j * ((Seed % 5) + 2) + i * j + t) % 5) - 2)]]
PdBlock(k, t) == MatAdd(MatMul(Transp(PdGen(k, t)), PdGen(k, t)), Ident(k))
\* B next to zero rows / columns at the positions Z
EmbedZ(B, Z) == LET n == Len(B) + Cardinality(Z)
                    o(i) == Cardinality({p \in 1..i : p \notin Z})
                IN [i \in 1..n |-> [j \in 1..n |-> IF i \in Z \/ j \in Z THEN 0 ELSE B[o(i)][o(j)]]]
SingDiag(n, t, mult) == [i \in 1..n |-> IF i \in ZeroPos(n, t, mult) THEN 0 ELSE 1 + ((i * (t + 2) + Seed) % 9)]
SingHadD(n, t, mult) == [i \in 1..n |-> IF i \in ZeroPos(n, t, mult) THEN 0 ELSE 1 + ((i + t + Seed) % 4)]
\* numerators (over SingDen) of the matrix
SingNum(kind, n, t, mult) ==
  CASE kind = "zero"  -> ZeroM(n)
    [] kind = "diag"  -> DiagM(SingDiag(n, t, mult))
    [] kind = "block" -> EmbedZ(PdBlock(n - mult, t), BorderPos(n, t, mult))
    [] kind = "had"   -> Conj(n, SingHadD(n, t, mult))
SingDen(kind, n) == IF kind = "had" THEN n ELSE 1
SingMult(kind, n, mult) == IF kind = "zero" THEN n ELSE mult
\* a basis of the kernel: coordinate vectors, resp. columns of H
SingKernel(kind, n, t, mult) ==
  IF kind = "zero" THEN {[i \in 1..n |-> IF i = z THEN 1 ELSE 0] : z \in 1..n}
  ELSE IF kind = "had" THEN {[i \in 1..n |-> Had(n)[i][z]] : z \in ZeroPos(n, t, mult)}
  ELSE {[i \in 1..n |-> IF i = z THEN 1 ELSE 0] : z \in KernelPos(kind, n, t, mult)}
SingOK(kind, n, t, mult) ==
  CASE kind = "zero"  -> mult = 1 /\ n <= 4
    [] kind = "diag"  -> mult < n
    [] kind = "block" -> n - mult >= 2
    [] kind = "had"   -> n \in {2, 4} /\ mult < n
SingExps == <<-12, -6, -3, 0, 3, 6, 12>>       \* powers -2, -1, -1/2, 0, 1/2, 1, 2
SingRec(kind, n, t, mult) ==
  [k |-> "powpsd", kind |-> kind, n |-> n, t |-> t, anum |-> SingNum(kind, n, t, mult), aden |-> SingDen(kind, n),
   root |-> IF kind = "diag" THEN SingDiag(n, t, mult) ELSE IF kind = "had" THEN SingHadD(n, t, mult) ELSE <<>>,
   zeroEigs |-> SingMult(kind, n, mult),
   pows |-> [i \in 1..Len(SingExps) |-> [rnum |-> SingExps[i], rden |-> 6, num |-> ZeroM(n), den |-> 1, tolUnits |-> 0, tolScale |-> 0]],
   unitExp |-> -52, ok |-> FALSE, either |-> ~SingExact(kind)]
\* theorem: symmetric, positive semi-definite (every principal minor is >= 0), the kernel contains `zeroEigs` independent
\* vectors (coordinate vectors / orthogonal Hadamard columns), and the rank is exactly n - zeroEigs (a positive principal minor
\* of that size): the smallest eigenvalue is exactly 0 with that multiplicity, all others are positive
SubSeqOf(n, S) == SelectSeq([i \in 1..n |-> i], LAMBDA i : i \in S)
PrincipalMinor(A, S) == LET ix == SubSeqOf(Len(A), S) IN Det([i \in 1..Len(ix) |-> [j \in 1..Len(ix) |-> A[ix[i]][ix[j]]]])
SingularPsd(kind, n, t, mult) ==
  LET A == SingNum(kind, n, t, mult)  z == SingMult(kind, n, mult)  K == SingKernel(kind, n, t, mult) IN
  /\ IsSymmetric(A)
  /\ \A S \in SUBSET (1..n) : PrincipalMinor(A, S) >= 0
  /\ Cardinality(K) = z /\ \A v \in K : MatVec(A, v) = [i \in 1..n |-> 0]
  /\ \A v, w \in K : v # w => Dot(v, w) = 0
  /\ \E S \in SUBSET (1..n) : Cardinality(S) = n - z /\ PrincipalMinor(A, S) > 0
  /\ Det(A) = 0
  \* exact class: the kernel vectors are coordinate vectors, i.e. A has zero rows and columns there
  /\ SingExact(kind) => \A v \in K : \A i \in 1..n : v[i] = 1 => \A j \in 1..n : A[i][j] = 0 /\ A[j][i] = 0

(********************************* cases ************************************)
Cases ==
  {[fam |-> "exp", kind |-> kd, n |-> n, t |-> t, ti |-> ti, side |-> s] :
       kd \in ExpKinds, n \in 2..4, t \in 0..NVariants - 1, ti \in 1..Len(Thr), s \in {0, 1}}
  \cup {[fam |-> "exp", kind |-> "block0", n |-> 5, t |-> t, ti |-> ti, side |-> s] :
       t \in 0..NVariants - 1, ti \in 4..9, s \in {0, 1}}
  \cup {[fam |-> "expshape", kind |-> "", n |-> r, t |-> cc, ti |-> rr, side |-> rc] :
       r \in 1..3, cc \in 1..3, rr \in 0..3, rc \in 1..3}
  \cup {[fam |-> "pow", kind |-> kd, n |-> n, t |-> t, ti |-> 0, side |-> 0] :
       kd \in PowKinds, n \in 1..4, t \in 0..NVariants - 1}
  \cup {[fam |-> "powpsd", kind |-> "", n |-> n, t |-> t, ti |-> 0, side |-> 0] : n \in {1, 2, 4}, t \in 0..(2 * NVariants) - 1}
  \cup {[fam |-> "notpsd", kind |-> "", n |-> n, t |-> t, ti |-> 0, side |-> 0] : n \in {1, 2, 4}, t \in 0..NVariants - 1}
  \cup {[fam |-> "singpsd", kind |-> kd, n |-> n, t |-> t, ti |-> mult, side |-> 0] :
       kd \in SingKinds, n \in 1..5, t \in 0..NVariants - 1, mult \in {1, 2}}

Init == c \in Cases
Next == UNCHANGED vars
Spec == Init /\ [][Next]_vars

Theorems ==
  CASE c.fam = "exp" -> /\ Nilpotent(c.kind, c.n, c.t)
                        /\ (c.kind = "similar") => Unimodular(c.n, c.t)
                        /\ ExpOK(c.kind, c.n, c.t, c.ti, c.side) =>
                              (ExpInverse(c.kind, c.n, c.t, c.ti, c.side) /\ ScalePlaced(c.kind, c.n, c.t, c.ti, c.side))
    [] c.fam = "pow" -> (c.n \in PowSizes(c.kind)) => (PowSplit(c.kind, c.n, c.t) /\ PowPeriod(c.kind, c.n, c.t))
    [] c.fam = "powpsd" -> PsdPlanted(c.n, c.t) /\ PsdPower(c.n, c.t)
    [] c.fam = "singpsd" -> SingOK(c.kind, c.n, c.t, c.ti) => SingularPsd(c.kind, c.n, c.t, c.ti)
    [] OTHER -> TRUE

EmitCase ==
  Emit => CASE c.fam = "exp" -> (ExpOK(c.kind, c.n, c.t, c.ti, c.side) => PrintT(ToJson(ExpRec(c.kind, c.n, c.t, c.ti, c.side))))
            [] c.fam = "expshape" -> PrintT(ToJson(ExpShapeRec(c.n, c.t, c.ti, c.side)))
            [] c.fam = "pow" -> ((c.n \in PowSizes(c.kind)) => PrintT(ToJson(PowRec(c.kind, c.n, c.t))))
            [] c.fam = "powpsd" -> PrintT(ToJson(PsdRec(c.n, c.t)))
            [] c.fam = "notpsd" -> PrintT(ToJson(NotPsdRec(c.n, c.t)))
            [] c.fam = "singpsd" -> (SingOK(c.kind, c.n, c.t, c.ti) => PrintT(ToJson(SingRec(c.kind, c.n, c.t, c.ti))))
=============================================================================
