SPECIFICATION Spec
CONSTANTS
  Seed = @SEED@
  MaxEx = @MAXEX@
  Emit = @EMIT@
INVARIANTS TypeOK CatalogueOK ShapeClasses EmitState
PROPERTIES HistoryIndependent
CHECK_DEADLOCK FALSE
