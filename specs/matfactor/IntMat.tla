------------------------------- MODULE IntMat -------------------------------
(* Exact integer matrix algebra for the factorization state machines of C06. *)
(* A matrix is a sequence of rows (a sequence of sequences of integers); a   *)
(* vector is a sequence of integers.  Everything is defined from first       *)
(* principles: determinant by cofactor expansion, adjugate by cofactors, so  *)
(* that  A^-1 = Adj(A) / Det(A)  and the solution of A x = b is Cramer's     *)
(* Adj(A) b / Det(A).  Nothing here is a floating point algorithm.           *)
EXTENDS Integers, Sequences

RECURSIVE SumSeq(_)
SumSeq(s) == IF s = <<>> THEN 0 ELSE Head(s) + SumSeq(Tail(s))

Abs(x) == IF x < 0 THEN -x ELSE x
Max2(a, b) == IF a >= b THEN a ELSE b
RECURSIVE MaxSeq(_)
MaxSeq(s) == IF s = <<>> THEN 0 ELSE Max2(Head(s), MaxSeq(Tail(s)))
CeilDiv(a, b) == (a + b - 1) \div b          \* a >= 0, b > 0

Dim(A) == Len(A)
NCols(A) == IF Len(A) = 0 THEN 0 ELSE Len(A[1])
Ident(n) == [i \in 1..n |-> [j \in 1..n |-> IF i = j THEN 1 ELSE 0]]
Transp(A) == [j \in 1..NCols(A) |-> [i \in 1..Len(A) |-> A[i][j]]]
Outer(x, y) == [i \in 1..Len(x) |-> [j \in 1..Len(y) |-> x[i] * y[j]]]
MatAdd(A, B) == [i \in 1..Len(A) |-> [j \in 1..NCols(A) |-> A[i][j] + B[i][j]]]
MatScale(c, A) == [i \in 1..Len(A) |-> [j \in 1..NCols(A) |-> c * A[i][j]]]
MatMul(A, B) == [i \in 1..Len(A) |-> [j \in 1..NCols(B) |->
                    SumSeq([k \in 1..Len(B) |-> A[i][k] * B[k][j]])]]
MatVec(A, x) == [i \in 1..Len(A) |-> SumSeq([k \in 1..Len(x) |-> A[i][k] * x[k]])]
Dot(x, y) == SumSeq([k \in 1..Len(x) |-> x[k] * y[k]])
QuadForm(A, z) == Dot(z, MatVec(A, z))

IsSymmetric(A) == \A i, j \in 1..Len(A) : A[i][j] = A[j][i]
MaxAbs(A) == MaxSeq([i \in 1..Len(A) |-> MaxSeq([j \in 1..NCols(A) |-> Abs(A[i][j])])])
\* induced norms: max column sum (1-norm) and max row sum (infinity-norm)
Norm1(A) == MaxSeq([j \in 1..NCols(A) |-> SumSeq([i \in 1..Len(A) |-> Abs(A[i][j])])])
NormInf(A) == MaxSeq([i \in 1..Len(A) |-> SumSeq([j \in 1..NCols(A) |-> Abs(A[i][j])])])

\* A with row r and column c removed
Skip(k, r) == IF k < r THEN k ELSE k + 1
Minor(A, r, c) == [i \in 1..Len(A) - 1 |-> [j \in 1..Len(A) - 1 |-> A[Skip(i, r)][Skip(j, c)]]]
Sgn(k) == IF k % 2 = 0 THEN 1 ELSE -1

RECURSIVE Det(_)
Det(A) == IF Len(A) = 0 THEN 1
          ELSE IF Len(A) = 1 THEN A[1][1]
          ELSE SumSeq([j \in 1..Len(A) |-> Sgn(1 + j) * A[1][j] * Det(Minor(A, 1, j))])

Adj(A) == [i \in 1..Len(A) |-> [j \in 1..Len(A) |-> Sgn(i + j) * Det(Minor(A, j, i))]]

\* leading principal submatrix / minors (Sylvester's criterion)
Lead(A, k) == [i \in 1..k |-> [j \in 1..k |-> A[i][j]]]
LeadMinors(A) == [k \in 1..Len(A) |-> Det(Lead(A, k))]
PosDef(A) == \A k \in 1..Len(A) : Det(Lead(A, k)) > 0
HasZeroMinor(A) == \E k \in 1..Len(A) : Det(Lead(A, k)) = 0

\* [A w; w' k]
Border(A, w, k) == [i \in 1..Len(A) + 1 |-> [j \in 1..Len(A) + 1 |->
                      IF i <= Len(A) /\ j <= Len(A) THEN A[i][j]
                      ELSE IF i <= Len(A) THEN w[i]
                      ELSE IF j <= Len(A) THEN w[j] ELSE k]]

\* row permutation: (PermRows(p, A))[i] = A[p[i]]
PermRows(p, A) == [i \in 1..Len(A) |-> A[p[i]]]
Perms(n) == {p \in [1..n -> 1..n] : \A i, j \in 1..n : i # j => p[i] # p[j]}
NonzeroLeadMinors(A) == \A k \in 1..Len(A) : Det(Lead(A, k)) # 0
=============================================================================
