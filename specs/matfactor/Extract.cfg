SPECIFICATION XSpec
CONSTANTS
  MaxDim = 8
  NVariants = @NVARIANTS@
  Seed = @SEED@
  Emit = @EMIT@
INVARIANTS XTheorems ShapesOK XEmit
CHECK_DEADLOCK FALSE
