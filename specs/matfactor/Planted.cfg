SPECIFICATION Spec
CONSTANTS
  MaxDim = @MAXDIM@
  NVariants = @NVARIANTS@
  Seed = @SEED@
  Emit = @EMIT@
INVARIANTS Theorems EmitCase
CHECK_DEADLOCK FALSE
