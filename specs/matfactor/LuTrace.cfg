SPECIFICATION TraceSpec
CONSTANTS
  MinN = 1
  MaxN = 5
  MaxEntry = 1000
  MaxDepth = 0
  NTargets = 0
  Seed = 0
  Emit = FALSE
INVARIANTS TraceInv
POSTCONDITION Accepted
CHECK_DEADLOCK FALSE
