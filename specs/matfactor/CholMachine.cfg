SPECIFICATION Spec
CONSTANTS
  MaxN = @MAXN@
  MaxEntry = @MAXENTRY@
  Seed = @SEED@
  Emit = @EMIT@
INVARIANTS TypeOK ValidIsPD FormPositive AdjIsInverse CramerSolves EmitState
CHECK_DEADLOCK FALSE
