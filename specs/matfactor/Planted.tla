------------------------------ MODULE Planted ------------------------------
(* Static exact instances for the stateless part of C06.                     *)
(*                                                                          *)
(* Family "ls": integer matrices A (m x n, full rank) and right hand sides. *)
(* The specification states the answers by their DEFINITIONS, in exact      *)
(* integer arithmetic:                                                      *)
(*   m >= n  least squares solution   x = Adj(G) A^T b / Det(G),  G = A^T A *)
(*           (the unique x with A^T (A x - b) = 0: theorem NormalEquations) *)
(*   m <  n  minimum norm solution    x = A^T Adj(G) b / Det(G),  G = A A^T *)
(*           (solves A x = b and lies in the row space: theorem MinNorm)    *)
(*   the same for the transposed system A^T y = c,                          *)
(*   square: Det by cofactors, inverse Adj/Det, powers by repeated product. *)
(* Any QR/LQ/SVD/LU based solver must return these rationals up to the      *)
(* emitted tolerance (c * cond_1(G) * |x| * 2^-44).                         *)
(*                                                                          *)
(* Family "eig"/"svd": planted spectra.  With the Sylvester-Hadamard matrix *)
(* H_n (H_n^T H_n = n I) the matrices  A = H_n D H_n^T / n  and             *)
(* A = H_m S H_n^T / sqrt(m n)  (m n a perfect square) have dyadic entries, *)
(* eigenvalues D resp. singular values S exactly (theorems EigPlanted,      *)
(* SvdPlanted: A H = H D).  The minimum-norm rank-r solution of A x = b is  *)
(* stated through the planted factors.                                      *)
EXTENDS IntMat, FiniteSets, TLC, Json

CONSTANTS MaxDim, NVariants, Seed, Emit

VARIABLE c
vars == <<c>>

UnitExp == -44
AbsI(x) == IF x < 0 THEN -x ELSE x

(******************************* family "ls" ********************************)
Fam(m, n, t) == [i \in 1..m |-> [j \in 1..n |->
                   ((((t + Seed) % 5) * i + ((2 * t + (Seed \div 5)) % 5) * j + (((t \div 2) + 3 * Seed) % 5) * i * j
                     + (t \div 3) + (i \div 2)) % 5) - 2]]
RhsOf(rows, t) == [i \in 1..rows |-> [j \in 1..2 |-> ((3 * i + 5 * j + 7 * Seed + 2 * t + 70) % 7) - 3]]
Tall(M) == Len(M) >= NCols(M)
Gram(M) == IF Tall(M) THEN MatMul(Transp(M), M) ELSE MatMul(M, Transp(M))
\* numerators of the least squares / minimum norm solution of M x = b (denominator Det(Gram(M)))
SolNum(M, b) == IF Tall(M) THEN MatMul(Adj(Gram(M)), MatMul(Transp(M), b))
                ELSE MatMul(Transp(M), MatMul(Adj(Gram(M)), b))
Kappa1Ceil(G) == CeilDiv(Norm1(G) * Norm1(Adj(G)), AbsI(Det(G)))
TolSol(G, X) == 64 * Len(G) * Kappa1Ceil(G) * Max2(1, CeilDiv(MaxAbs(X), AbsI(Det(G))))
Pow2M(M) == MatMul(M, M)
Pow3M(M) == MatMul(M, MatMul(M, M))

LsOK(M) == Det(Gram(M)) # 0
LsRec(m, n, t) ==
  LET M == Fam(m, n, t)  G == Gram(M)  dg == Det(G)
      b == RhsOf(m, t)   bt == RhsOf(n, t + 1)
      x == SolNum(M, b)  y == SolNum(Transp(M), bt)
      base == [k |-> "ls", m |-> m, n |-> n, t |-> t, a |-> M, g |-> G, detg |-> dg,
               b |-> b, num |-> x, tolX |-> TolSol(G, x), bt |-> bt, numT |-> y, tolXT |-> TolSol(G, y),
               tolA |-> 64 * Max2(m, n) * (Norm1(M) + 1),
               ata |-> MatMul(Transp(M), M), aat |-> MatMul(M, Transp(M)),   \* R^T R resp. L L^T of any QR / LQ
               tolG |-> 64 * Max2(m, n) * (Max2(Norm1(MatMul(Transp(M), M)), Norm1(MatMul(M, Transp(M)))) + 1),
               unitExp |-> UnitExp]
  IN IF m # n THEN base @@ [square |-> FALSE]
     ELSE base @@ [square |-> TRUE, det |-> Det(M), adj |-> Adj(M),
                   tolInv |-> TolSol(G, Adj(M)) , tolDet |-> 64 * m * Norm1(Adj(M)) + AbsI(Det(M)),
                   pow2 |-> Pow2M(M), pow3 |-> Pow3M(M)]

\* theorems (R1)
NormalEquations(M, b) ==
  Tall(M) => MatMul(Transp(M), MatAdd(MatMul(M, SolNum(M, b)), MatScale(-Det(Gram(M)), b)))
               = [i \in 1..NCols(M) |-> [j \in 1..2 |-> 0]]
MinNorm(M, b) ==
  ~Tall(M) => MatMul(M, SolNum(M, b)) = MatScale(Det(Gram(M)), b)   \* solves; in the row space by construction
SquareExact(M) == Len(M) = NCols(M) =>
                    /\ Det(Gram(M)) = Det(M) * Det(M)
                    /\ MatMul(M, Adj(M)) = MatScale(Det(M), Ident(Len(M)))
                    /\ SolNum(M, RhsOf(Len(M), 0)) = MatScale(Det(M), MatMul(Adj(M), RhsOf(Len(M), 0)))

(**************************** families "eig", "svd" *************************)
Bit(x, k) == (x \div (2 ^ k)) % 2
Had(n) == [i \in 1..n |-> [j \in 1..n |->
            IF (Bit(i - 1, 0) * Bit(j - 1, 0) + Bit(i - 1, 1) * Bit(j - 1, 1) + Bit(i - 1, 2) * Bit(j - 1, 2)) % 2 = 0
            THEN 1 ELSE -1]]
DiagRect(m, n, d) == [i \in 1..m |-> [j \in 1..n |-> IF i = j THEN d[i] ELSE 0]]
EigVals(n, t) == [k \in 1..n |-> ((k * (1 + ((t + Seed) % 4)) + (t \div 2) * k * k + t + Seed) % 9) - 3]
\* singular values: non-increasing, positive, possibly repeated; variants t >= NVariants \div 2 end in zeros
SvdVals(r, t) == [k \in 1..r |-> IF (t % 2) = 1 /\ k = r /\ r > 1 THEN 0 ELSE 1 + (((r - k) * (1 + ((t + Seed) % 3))) \div (1 + (t % 2)))]
RECURSIVE InsertSorted(_, _)
InsertSorted(s, x) == IF s = <<>> THEN <<x>> ELSE IF x <= Head(s) THEN <<x>> \o s ELSE <<Head(s)>> \o InsertSorted(Tail(s), x)
RECURSIVE SortAsc(_)
SortAsc(s) == IF s = <<>> THEN <<>> ELSE InsertSorted(SortAsc(Tail(s)), Head(s))
RECURSIVE ProdSeq(_)
ProdSeq(s) == IF s = <<>> THEN 1 ELSE Head(s) * ProdSeq(Tail(s))
IsSquareNum(x) == \E r \in 1..8 : r * r = x
Sqrt(x) == CHOOSE r \in 1..8 : r * r = x

EigRec(n, t) ==
  LET H == Had(n)  d == EigVals(n, t)
      num == MatMul(H, MatMul(DiagRect(n, n, d), Transp(H)))     \* A = num / n
  IN [k |-> "eig", n |-> n, t |-> t, anum |-> num, aden |-> n, vals |-> SortAsc(d),
      tolA |-> 64 * n * (CeilDiv(Norm1(num), n) + 1), unitExp |-> UnitExp]
EigPlanted(n, t) == LET H == Had(n)  d == EigVals(n, t)
                        num == MatMul(H, MatMul(DiagRect(n, n, d), Transp(H)))
                    IN /\ MatMul(Transp(H), H) = MatScale(n, Ident(n))
                       /\ MatMul(num, H) = MatScale(n, MatMul(H, DiagRect(n, n, d)))   \* A H = H D
                       /\ IsSymmetric(num)

SvdShapes == {<<m, n>> \in (1..MaxDim) \X (1..MaxDim) : m \in {1, 2, 4, 8} /\ n \in {1, 2, 4, 8} /\ IsSquareNum(m * n)}
SvdRec(m, n, t) ==
  LET Hm == Had(m)  Hn == Had(n)  r == IF m < n THEN m ELSE n
      sv == SvdVals(r, t)  s == Sqrt(m * n)
      num == MatMul(Hm, MatMul(DiagRect(m, n, sv), Transp(Hn)))  \* A = num / s
      rank == Cardinality({k \in 1..r : sv[k] > 0})
      b == RhsOf(m, t)
      P == ProdSeq([k \in 1..rank |-> sv[k]])
      \* x = sum_k<=rank  Hn[:,k] (Hm[:,k] . b) / (sv[k] s):   numerators over the denominator s * P
      xnum == [i \in 1..n |-> [j \in 1..2 |-> SumSeq([k \in 1..rank |->
                 Hn[i][k] * SumSeq([q \in 1..m |-> Hm[q][k] * b[q][j]]) * (P \div sv[k])])]]
  IN [k |-> "svd", m |-> m, n |-> n, t |-> t, anum |-> num, aden |-> s, vals |-> sv, rank |-> rank,
      b |-> b, xnum |-> xnum, xden |-> s * P,
      tolA |-> 64 * Max2(m, n) * (CeilDiv(Norm1(num), s) + 1),
      tolX |-> 64 * Max2(m, n) * sv[1] * Max2(1, CeilDiv(MaxAbs(xnum), s * P)),
      unitExp |-> UnitExp]
SvdPlanted(m, n, t) ==
  LET Hm == Had(m)  Hn == Had(n)  r == IF m < n THEN m ELSE n
      sv == SvdVals(r, t)
      num == MatMul(Hm, MatMul(DiagRect(m, n, sv), Transp(Hn)))
  IN /\ MatMul(num, Hn) = MatScale(n, MatMul(Hm, DiagRect(m, n, sv)))    \* A V = U S
     /\ \A k \in 1..r - 1 : sv[k] >= sv[k + 1]
     /\ \A k \in 1..r : sv[k] >= 0


(*********************** families "spd", "band", "psd", "exp" ***************)
\* "spd": G = M^T M + I is symmetric positive definite for every integer M (theorem SpdPlanted)
SpdOf(n, t) == MatAdd(MatMul(Transp(Fam(n, n, t)), Fam(n, n, t)), Ident(n))
SpdRec(n, t) ==
  LET G == SpdOf(n, t)  b == RhsOf(n, t)  x == MatMul(Adj(G), b) IN
  [k |-> "spd", n |-> n, t |-> t, a |-> G, det |-> Det(G), b |-> b, num |-> x, adj |-> Adj(G),
   tolX |-> TolSol(G, x), tolInv |-> TolSol(G, Adj(G)), tolA |-> 64 * n * (Norm1(G) + 1),
   condHi |-> <<Norm1(G) * Norm1(Adj(G)), Det(G)>>,    \* exact cond_1 = cond_inf (symmetric)
   tolDet |-> 64 * n * Norm1(Adj(G)) + Det(G), unitExp |-> UnitExp]
\* "band": strictly diagonally dominant symmetric band matrices (half bandwidth kd <= 2)
BandOf(n, kd, t) == [i \in 1..n |-> [j \in 1..n |->
                      IF i = j THEN 5 + ((i + t) % 3)
                      ELSE IF AbsI(i - j) <= kd THEN ((i + j + t + Seed) % 3) - 1 ELSE 0]]
BandRec(n, kd, t) ==
  LET G == BandOf(n, kd, t)  b == RhsOf(n, t)  x == MatMul(Adj(G), b) IN
  [k |-> "band", n |-> n, kd |-> kd, t |-> t, a |-> G, det |-> Det(G), b |-> b, num |-> x,
   tolX |-> TolSol(G, x), tolA |-> 64 * n * (Norm1(G) + 1),
   condHi |-> <<Norm1(G) * Norm1(Adj(G)), Det(G)>>,
   tolDet |-> 64 * n * Norm1(Adj(G)) + Det(G), unitExp |-> UnitExp]
SpdPlanted(G) == /\ IsSymmetric(G) /\ PosDef(G)
                 /\ MatMul(G, Adj(G)) = MatScale(Det(G), Ident(Len(G)))
\* "psd": A = H d^2 H^T / n has the unique positive definite square root H d H^T / n (theorem PsdPlanted)
PsdD(n, t) == [k \in 1..n |-> 1 + ((k * (1 + t) + Seed) % 4)]
PsdRec(n, t) ==
  LET H == Had(n)  d == PsdD(n, t)
      d2 == [k \in 1..n |-> d[k] * d[k]]  d4 == [k \in 1..n |-> d[k] * d[k] * d[k] * d[k]]
      mk(v) == MatMul(H, MatMul(DiagRect(n, n, v), Transp(H)))
  IN [k |-> "psd", n |-> n, t |-> t, anum |-> mk(d2), aden |-> n, rootnum |-> mk(d), sqnum |-> mk(d4),
      tolA |-> 64 * n * (CeilDiv(Norm1(mk(d4)), n) + 1), unitExp |-> UnitExp]
PsdPlanted(n, t) ==
  LET H == Had(n)  d == PsdD(n, t)  d2 == [k \in 1..n |-> d[k] * d[k]]
      mk(v) == MatMul(H, MatMul(DiagRect(n, n, v), Transp(H)))
  IN /\ MatMul(mk(d), mk(d)) = MatScale(n, mk(d2))      \* root * root = A   (both over the denominator n)
     /\ \A k \in 1..n : d[k] > 0
     /\ MatMul(mk(d), H) = MatScale(n, MatMul(H, DiagRect(n, n, d)))   \* the root has the positive spectrum d
\* "exp": nilpotent integer N (strictly triangular), exp(N) = I + N + N^2/2 + N^3/6 exactly
NilOf(n, t) == [i \in 1..n |-> [j \in 1..n |->
                 IF (t % 2 = 0 /\ i < j) \/ (t % 2 = 1 /\ i > j)
                 THEN ((i * (t + 1) + j * (Seed + 2) + t) % 5) - 2 ELSE 0]]
ExpRec(n, t) ==
  LET Nm == NilOf(n, t)  N2 == MatMul(Nm, Nm)  N3 == MatMul(N2, Nm)
      E6 == MatAdd(MatAdd(MatScale(6, Ident(n)), MatScale(6, Nm)), MatAdd(MatScale(3, N2), N3))
  IN [k |-> "exp", n |-> n, t |-> t, a |-> Nm, enum |-> E6, eden |-> 6,
      tolA |-> 64 * n * (CeilDiv(Norm1(E6), 6) + 1), unitExp |-> UnitExp]
ExpPlanted(n, t) == LET Nm == NilOf(n, t) IN
                      MatMul(MatMul(Nm, Nm), MatMul(Nm, Nm)) = MatScale(0, Ident(n))    \* N^4 = 0: the series is finite

(********************************* cases ************************************)
Cases == {[fam |-> "ls", m |-> m, n |-> n, t |-> t] : m \in 1..(IF MaxDim > 4 THEN 4 ELSE MaxDim),
                                                       n \in 1..(IF MaxDim > 4 THEN 4 ELSE MaxDim), t \in 0..NVariants - 1}
         \cup {[fam |-> "eig", m |-> n, n |-> n, t |-> t] : n \in {x \in {1, 2, 4, 8} : x <= MaxDim}, t \in 0..NVariants - 1}
         \cup {[fam |-> "svd", m |-> p[1], n |-> p[2], t |-> t] : p \in SvdShapes, t \in 0..NVariants - 1}
         \cup {[fam |-> "spd", m |-> n, n |-> n, t |-> t] : n \in 1..4, t \in 0..NVariants - 1}
         \cup {[fam |-> "band", m |-> kd, n |-> n, t |-> t] : n \in 1..5, kd \in 0..2, t \in 0..(NVariants \div 4)}
         \cup {[fam |-> "psd", m |-> n, n |-> n, t |-> t] : n \in {x \in {1, 2, 4, 8} : x <= MaxDim}, t \in 0..(NVariants \div 4)}
         \cup {[fam |-> "exp", m |-> n, n |-> n, t |-> t] : n \in 1..4, t \in 0..NVariants - 1}

Init == c \in Cases
Next == UNCHANGED vars
Spec == Init /\ [][Next]_vars

Theorems ==
  CASE c.fam = "ls"  -> LET M == Fam(c.m, c.n, c.t) IN
                          LsOK(M) => /\ NormalEquations(M, RhsOf(c.m, c.t)) /\ MinNorm(M, RhsOf(c.m, c.t))
                                     /\ NormalEquations(Transp(M), RhsOf(c.n, c.t + 1))
                                     /\ MinNorm(Transp(M), RhsOf(c.n, c.t + 1))
                                     /\ SquareExact(M)
    [] c.fam = "eig" -> EigPlanted(c.n, c.t)
    [] c.fam = "svd" -> SvdPlanted(c.m, c.n, c.t)
    [] c.fam = "spd" -> SpdPlanted(SpdOf(c.n, c.t))
    [] c.fam = "band" -> (c.m < c.n) => SpdPlanted(BandOf(c.n, c.m, c.t))
    [] c.fam = "psd" -> PsdPlanted(c.n, c.t)
    [] c.fam = "exp" -> ExpPlanted(c.n, c.t)

EmitCase ==
  Emit => CASE c.fam = "ls"  -> (LsOK(Fam(c.m, c.n, c.t)) => PrintT(ToJson(LsRec(c.m, c.n, c.t))))
            [] c.fam = "eig" -> PrintT(ToJson(EigRec(c.n, c.t)))
            [] c.fam = "svd" -> PrintT(ToJson(SvdRec(c.m, c.n, c.t)))
            [] c.fam = "spd" -> PrintT(ToJson(SpdRec(c.n, c.t)))
            [] c.fam = "band" -> ((c.m < c.n) => PrintT(ToJson(BandRec(c.n, c.m, c.t))))
            [] c.fam = "psd" -> PrintT(ToJson(PsdRec(c.n, c.t)))
            [] c.fam = "exp" -> PrintT(ToJson(ExpRec(c.n, c.t)))
=============================================================================
