------------------------------ MODULE Extract ------------------------------
(* Destinations and operand representations of the factorization API (C06:   *)
(* "for every ... accessor/solve method ... right-hand-side layout ...       *)
(* destination state").                                                      *)
(*                                                                          *)
(* The VALUES are those of Planted.tla (this module extends it): an instance *)
(* is one exact planted matrix with the exact facts that define its factors  *)
(* and solutions (A, Gram matrices, Cramer numerators, planted spectra,      *)
(* tolerances).  What this module adds is the CALL: which method, into which *)
(* destination, with which representation of each Matrix / Vector argument,  *)
(* and what the documentation promises for it:                               *)
(*                                                                          *)
(*   Shape(typ, meth, m, n, kind)  the shape of the extracted factor / the   *)
(*        solution (operator Shape);                                         *)
(*   destination modes (operator Modes):                                     *)
(*     "empty"   zero-value receiver: resized to Shape, holds the factor     *)
(*     "sized"   Shape-sized receiver full of junk: afterwards it holds the  *)
(*               SAME factor (every element of the window is defined by the  *)
(*               instance's predicates - no junk survives)                   *)
(*     "view"    a Shape-sized window of a larger junk matrix: as "sized",   *)
(*               and every element outside the window is untouched           *)
(*     "alias"   (solves) dst is b itself                                    *)
(*     "wrong"   a non-empty receiver of another shape / triangle kind /     *)
(*               length: the call panics (ErrShape, ErrTriangle,             *)
(*               ErrSliceLengthMismatch) and the receiver is unchanged       *)
(*   operand representations (operators MatReps, VecReps, SymReps): the      *)
(*   result depends only on the VALUE of an argument (theorem RepInvariant:  *)
(*   every representation denotes the instance's integer matrix - here by    *)
(*   construction of the case set: the expected value does not mention the   *)
(*   representation).                                                        *)
(*                                                                          *)
(* One TLC state per instance (prints the planted record, theorems of        *)
(* Planted.tla checked there) and one per call (prints the call and its      *)
(* contract).  The harness joins them.                                       *)
EXTENDS Planted

XUnit == -44

(******************************* instances **********************************)
Types == {"QR", "LQ", "LU", "LUupd", "Cholesky", "PivotedCholesky", "BandCholesky", "Tridiag", "SVD",
          "EigenSym", "Eigen", "HOGSVD", "Solve"}

TallShapes == {<<1, 1>>, <<2, 2>>, <<3, 2>>, <<4, 3>>, <<3, 1>>, <<4, 4>>}
WideShapes == {<<s[2], s[1]>> : s \in TallShapes}
\* kind: SVD 1 = thin, 2 = full; Eigen 1 = right, 2 = left, 3 = both; BandCholesky / Tridiag: half bandwidth
InstKeys(typ) ==
  CASE typ = "QR" -> {[m |-> s[1], n |-> s[2], kind |-> 0] : s \in TallShapes}
    [] typ = "LQ" -> {[m |-> s[1], n |-> s[2], kind |-> 0] : s \in WideShapes}
    [] typ = "Solve" -> {[m |-> s[1], n |-> s[2], kind |-> 0] : s \in TallShapes \cup WideShapes}
    [] typ \in {"LU", "Cholesky", "PivotedCholesky"} -> {[m |-> n, n |-> n, kind |-> 0] : n \in 1..4}
    [] typ = "LUupd" -> {[m |-> n, n |-> n, kind |-> n - 1] : n \in 2..4}
    [] typ = "BandCholesky" -> {[m |-> n, n |-> n, kind |-> kd] : n \in 2..5, kd \in 0..2}
    [] typ = "Tridiag" -> {[m |-> n, n |-> n, kind |-> IF n = 1 THEN 0 ELSE 1] : n \in 1..5}
    [] typ = "SVD" -> {[m |-> s[1], n |-> s[2], kind |-> kd] : s \in SvdShapes, kd \in {1, 2}}
    [] typ = "EigenSym" -> {[m |-> n, n |-> n, kind |-> 0] : n \in {1, 2, 4}}
    [] typ = "Eigen" -> {[m |-> n, n |-> n, kind |-> kd] : n \in {1, 2, 4}, kd \in {1, 2, 3}}
    \* HOGSVD: kind 0 = the second matrix has m + 1 rows; kind > 0 = it has `kind` rows (first matrix shorter than the
    \* second by more than a power-of-two size class of the n x rows workspace, and the reverse order)
    [] typ = "HOGSVD" -> {[m |-> s[1], n |-> s[2], kind |-> 0] : s \in {<<2, 2>>, <<3, 2>>, <<4, 3>>, <<3, 1>>}}
                         \cup {[m |-> s[1], n |-> s[2], kind |-> s[3]] :
                                 s \in {<<3, 2, 5>>, <<5, 2, 3>>, <<2, 2, 5>>, <<4, 3, 7>>, <<7, 3, 4>>, <<1, 1, 3>>, <<3, 1, 6>>, <<6, 1, 2>>}}

\* Cholesky updates: x with entries in -1..1 (not zero), alpha = 2;  extension column w, corner k large enough
UpdVec(n, t) == [i \in 1..n |-> IF i = 1 + (t % n) THEN 1 ELSE ((i + t + Seed) % 3) - 1]
UpdAlpha == 2
ExtVec(n, t) == [i \in 1..n |-> ((2 * i + t + Seed) % 3) - 1]
ExtCorner(G, w) == 1 + Dot(w, w) + Det(G) + MaxAbs(Adj(G)) * Len(G) * Len(G)   \* k Det(G) > w' Adj(G) w: the border is PD
\* LU rank-one update of a strictly diagonally dominant matrix that stays strictly diagonally dominant
LuX(n, t) == [i \in 1..n |-> IF i = 1 + (t % n) THEN 1 ELSE 0]
LuY(n, t) == [i \in 1..n |-> IF i = 1 + ((t + 1) % n) THEN -1 ELSE IF i = 1 + (t % n) THEN 1 ELSE 0]
RowDominant(A) == \A i \in 1..Len(A) : 2 * Abs(A[i][i]) > SumSeq([j \in 1..Len(A) |-> Abs(A[i][j])])
ColDominant(A) == RowDominant(Transp(A))

\* HOGSVD: two tall full-rank matrices with the same number of columns and (in general) different numbers of rows
HogRows2(m, kind) == IF kind = 0 THEN m + 1 ELSE kind
HogMat(m, n, t, q) == MatAdd(Fam(m, n, t + q), [i \in 1..m |-> [j \in 1..n |-> IF i = j THEN 4 + q ELSE 0]])
\* Pool probe.  Factorize borrows workspaces (n x n, n x max rows) from the size-stratified pools that all of mat shares
\* and must put back what the pools expect.  What can be observed through the public API: unrelated operations that
\* borrow workspaces of 4, 8, 16 and 32 elements - the largest request of each of the size classes a HOGSVD of these
\* shapes touches - right after the factorization still return their results, which the specification states exactly:
\*   "pow"        X = A^e for an integer 4 x 4 matrix (three 16-element workspaces)
\*   "mulself"    X = X A, the receiver is an operand (an r x c workspace)
\*   "solveself"  X = U^-1 X for a unit upper triangular integer U: U^-1 = Adj(U) is an integer matrix and the
\*                elimination is exact; the receiver is the right hand side (a 4 x k workspace)
ProbeA(t) == [i \in 1..4 |-> [j \in 1..4 |-> (((i * (t + 1) + j * ((Seed % 5) + 2) + i * j + t) % 5) - 2)]]
ProbeU(t) == [i \in 1..4 |-> [j \in 1..4 |-> IF i = j THEN 1 ELSE IF i < j THEN ((i + 2 * j + t + Seed) % 3) - 1 ELSE 0]]
ProbeOp(op, a, x, e, want) == [op |-> op, a |-> a, x |-> x, e |-> e, want |-> want]
HogProbe(t) ==
  <<ProbeOp("pow", ProbeA(t), <<>>, 3, Pow3M(ProbeA(t)))>>
  \o [q \in 1..4 |-> LET sh == <<<<2, 2>>, <<2, 4>>, <<4, 4>>, <<8, 4>>>>[q]
                          X == Fam(sh[1], sh[2], t + q)  A == Fam(sh[2], sh[2], t + q + 1)
                      IN ProbeOp("mulself", A, X, 1, MatMul(X, A))]
  \o [q \in 1..4 |-> LET kk == <<1, 2, 4, 8>>[q]  B == Fam(4, kk, t + q + 2)
                      IN ProbeOp("solveself", ProbeU(t), B, 1, MatMul(Adj(ProbeU(t)), B))]
ProbeExact(t) == /\ Det(ProbeU(t)) = 1
                 /\ \A q \in 1..Len(HogProbe(t)) : LET o == HogProbe(t)[q] IN
                       /\ (o.op = "solveself") => MatMul(o.a, o.want) = o.x          \* U want = b
                       /\ (o.op = "pow") => o.want = MatMul(o.a, MatMul(o.a, o.a))
                       /\ MaxAbs(o.want) < 1048576                                  \* every intermediate is exact in float64
HogRec(m, n, kind, t) ==
  LET M1 == HogMat(m, n, t, 0)  M2 == HogMat(HogRows2(m, kind), n, t, 1) IN
  [k |-> "hog", m |-> m, n |-> n, t |-> t, mats |-> <<M1, M2>>,
   tolA |-> 4096 * Max2(m, HogRows2(m, kind)) * (Norm1(M1) + Norm1(M2) + 1), unitExp |-> XUnit,
   probe |-> HogProbe(t)]
HogOK(m, n, kind, t) == Det(MatMul(Transp(HogMat(m, n, t, 0)), HogMat(m, n, t, 0))) # 0
                        /\ Det(MatMul(Transp(HogMat(HogRows2(m, kind), n, t, 1)), HogMat(HogRows2(m, kind), n, t, 1))) # 0

InstOK(typ, key, t) ==
  CASE typ \in {"QR", "LQ", "LU", "Solve"} -> LsOK(Fam(key.m, key.n, t))
    [] typ = "BandCholesky" -> key.kind < key.n
    [] typ = "LUupd" -> LET A == BandOf(key.n, key.kind, t) IN
                          ColDominant(A) /\ ColDominant(MatAdd(A, Outer(LuX(key.n, t), LuY(key.n, t))))
    [] typ = "HOGSVD" -> HogOK(key.m, key.n, key.kind, t)
    [] OTHER -> TRUE

Planted0(typ, key, t) ==
  CASE typ \in {"QR", "LQ", "LU", "Solve"} -> LsRec(key.m, key.n, t)
    [] typ \in {"Cholesky", "PivotedCholesky"} ->
         LET G == SpdOf(key.n, t)  x == UpdVec(key.n, t)  w == ExtVec(key.n, t)  kk == ExtCorner(G, w)
             Gu == MatAdd(G, MatScale(UpdAlpha, Outer(x, x)))  Ge == Border(G, w, kk)
         IN SpdRec(key.n, t) @@ [updX |-> x, updAlpha |-> UpdAlpha, updA |-> Gu, tolUpd |-> 64 * key.n * (Norm1(Gu) + 1),
                                 extW |-> w, extK |-> kk, extA |-> Ge, tolExt |-> 64 * (key.n + 1) * (Norm1(Ge) + 1)]
    [] typ \in {"BandCholesky", "Tridiag"} -> BandRec(key.n, key.kind, t)
    [] typ = "LUupd" -> LET A == BandOf(key.n, key.kind, t)  x == LuX(key.n, t)  y == LuY(key.n, t)
                            Au == MatAdd(A, Outer(x, y))
                        IN BandRec(key.n, key.kind, t) @@ [updX |-> x, updY |-> y, updAlpha |-> 1, updA |-> Au,
                                                           tolUpd |-> 256 * 64 * key.n * (Norm1(Au) + 1)]
    [] typ = "SVD" -> SvdRec(key.m, key.n, t)
    [] typ \in {"EigenSym", "Eigen"} -> EigRec(key.n, t)
    [] typ = "HOGSVD" -> HogRec(key.m, key.n, key.kind, t)
InstRec(typ, key, t) == [k |-> "inst", typ |-> typ, key |-> [m |-> key.m, n |-> key.n, kind |-> key.kind, t |-> t],
                         p |-> Planted0(typ, key, t)]

InstTheorems(typ, key, t) ==
  CASE typ \in {"QR", "LQ", "LU", "Solve"} ->
         LET M == Fam(key.m, key.n, t) IN
           /\ NormalEquations(M, RhsOf(key.m, t)) /\ MinNorm(M, RhsOf(key.m, t))
           /\ NormalEquations(Transp(M), RhsOf(key.n, t + 1)) /\ MinNorm(Transp(M), RhsOf(key.n, t + 1))
           /\ SquareExact(M)
    [] typ \in {"Cholesky", "PivotedCholesky"} ->
         LET G == SpdOf(key.n, t)  x == UpdVec(key.n, t)  w == ExtVec(key.n, t) IN
           /\ SpdPlanted(G)
           /\ PosDef(MatAdd(G, MatScale(UpdAlpha, Outer(x, x))))          \* the update must succeed
           /\ PosDef(Border(G, w, ExtCorner(G, w)))                       \* the extension must succeed
    [] typ \in {"BandCholesky", "Tridiag", "LUupd"} -> SpdPlanted(BandOf(key.n, key.kind, t))
    [] typ = "SVD" -> SvdPlanted(key.m, key.n, t)
    [] typ \in {"EigenSym", "Eigen"} -> EigPlanted(key.n, t)
    [] typ = "HOGSVD" -> ProbeExact(t)
    [] OTHER -> TRUE

(********************************* calls ************************************)
Min2(a, b) == IF a <= b THEN a ELSE b
\* the shape of what a method stores: <<rows, cols>> (vectors / slices: <<len, 1>>; triangular / symmetric: <<n, n>>)
Shape(typ, meth, m, n, kind) ==
  CASE meth \in {"QTo"} /\ typ = "QR" -> <<m, m>>
    [] meth \in {"QTo"} /\ typ = "LQ" -> <<n, n>>
    [] meth \in {"RTo"} -> <<m, n>>
    [] meth = "LTo" /\ typ = "LQ" -> <<m, n>>
    [] meth \in {"LTo", "UTo", "ToSym", "InverseTo"} /\ typ \in {"LU", "Cholesky", "PivotedCholesky"} -> <<n, n>>
    [] meth \in {"RowPivots", "ColumnPivots"} -> <<n, 1>>
    [] meth = "UTo" /\ typ = "SVD" -> <<m, IF kind = 1 THEN Min2(m, n) ELSE m>>
    [] meth = "VTo" /\ typ = "SVD" -> <<n, IF kind = 1 THEN Min2(m, n) ELSE n>>
    [] meth = "Values" /\ typ = "SVD" -> <<Min2(m, n), 1>>
    [] meth \in {"VectorsTo", "LeftVectorsTo"} -> <<n, n>>
    [] meth = "Values" /\ typ \in {"EigenSym", "Eigen", "HOGSVD"} -> <<n, 1>>
    [] meth = "UTo0" -> <<m, n>>             \* HOGSVD: U_0 is m x n, U_1 is HogRows2 x n, V is n x n
    [] meth = "UTo1" -> <<HogRows2(m, kind), n>>
    [] meth = "VTo" /\ typ = "HOGSVD" -> <<n, n>>
    [] meth \in {"Values0", "Values1"} -> <<n, 1>>
    \* solves: X has the rows of the unknown and the columns of b (2 right hand sides, or 1 for the Vec forms)
    [] meth \in {"SolveTo", "Solve"} -> <<n, 2>>
    [] meth \in {"SolveTo(trans)"} -> <<m, 2>>
    [] meth \in {"SolveVecTo", "SolveVec"} -> <<n, 1>>
    [] meth \in {"SolveVecTo(trans)"} -> <<m, 1>>
    [] meth = "Inverse" -> <<n, n>>

\* destination kind of a method
DstKind(typ, meth) ==
  CASE meth \in {"LTo", "UTo"} /\ typ \in {"LU", "Cholesky", "PivotedCholesky"} -> "tri"
    [] meth \in {"ToSym", "InverseTo"} -> "sym"
    [] meth \in {"RowPivots", "ColumnPivots"} -> "ints"
    [] meth \in {"Values", "Values0", "Values1"} -> IF typ = "Eigen" THEN "complexes" ELSE IF typ = "EigenSym" THEN "floats" ELSE "floats!"
    [] meth \in {"VectorsTo", "LeftVectorsTo"} /\ typ = "Eigen" -> "cdense"
    [] meth \in {"SolveVecTo", "SolveVecTo(trans)", "SolveVec"} -> "vec"
    [] OTHER -> "dense"
TriKind(typ, meth) == IF meth = "LTo" THEN "lower" ELSE "upper"

Extractors(typ, kind) ==
  CASE typ = "QR" -> {"QTo", "RTo"}
    [] typ = "LQ" -> {"LTo", "QTo"}
    [] typ = "LU" -> {"LTo", "UTo", "RowPivots"}
    [] typ = "Cholesky" -> {"LTo", "UTo", "ToSym", "InverseTo"}
    [] typ = "PivotedCholesky" -> {"UTo", "ColumnPivots"}
    [] typ = "SVD" -> {"UTo", "VTo", "Values"}
    [] typ = "EigenSym" -> {"VectorsTo", "Values"}
    [] typ = "Eigen" -> {"Values"} \cup (IF kind \in {1, 3} THEN {"VectorsTo"} ELSE {}) \cup (IF kind \in {2, 3} THEN {"LeftVectorsTo"} ELSE {})
    [] typ = "HOGSVD" -> {"UTo0", "UTo1", "VTo", "Values0", "Values1"}
    [] OTHER -> {}

\* wrong destinations: <<rows, cols, what must happen>>
WrongDst(dk, r, cc) ==
  CASE dk \in {"dense", "cdense"} ->
         {[r |-> r + 1, c |-> cc, tri |-> "", expect |-> "ErrShape"], [r |-> r, c |-> cc + 1, tri |-> "", expect |-> "ErrShape"]}
         \cup (IF r > 1 THEN {[r |-> r - 1, c |-> cc, tri |-> "", expect |-> "ErrShape"]} ELSE {})
         \cup (IF cc > 1 THEN {[r |-> r, c |-> cc - 1, tri |-> "", expect |-> "ErrShape"]} ELSE {})
         \cup (IF r # cc THEN {[r |-> cc, c |-> r, tri |-> "", expect |-> "ErrShape"]} ELSE {})
    [] dk = "tri" -> {[r |-> r + 1, c |-> r + 1, tri |-> "same", expect |-> "ErrShape"],
                      [r |-> r, c |-> r, tri |-> "other", expect |-> "ErrTriangle"]}
                     \cup (IF r > 1 THEN {[r |-> r - 1, c |-> r - 1, tri |-> "same", expect |-> "ErrShape"]} ELSE {})
    [] dk = "sym" -> {[r |-> r + 1, c |-> r + 1, tri |-> "", expect |-> "ErrShape"]}
                     \cup (IF r > 1 THEN {[r |-> r - 1, c |-> r - 1, tri |-> "", expect |-> "ErrShape"]} ELSE {})
    [] dk = "vec" -> {[r |-> r + 1, c |-> 1, tri |-> "", expect |-> "ErrShape"]}
                     \cup (IF r > 1 THEN {[r |-> r - 1, c |-> 1, tri |-> "", expect |-> "ErrShape"]} ELSE {})
    \* slices: the documentation names ErrSliceLengthMismatch for SVD.Values and HOGSVD.Values ("floats!"); "will panic" otherwise
    [] dk \in {"floats", "floats!", "complexes", "ints"} ->
         LET e == IF dk = "floats!" THEN "ErrSliceLengthMismatch" ELSE "panic" IN
         {[r |-> r + 1, c |-> 1, tri |-> "", expect |-> e]}
         \cup (IF r > 1 THEN {[r |-> r - 1, c |-> 1, tri |-> "", expect |-> e]} ELSE {})
GoodModes(dk) == IF dk \in {"floats", "floats!", "complexes", "ints"} THEN {"nil", "sized", "view"} ELSE {"empty", "sized", "view"}

\* operand representations
MatReps == {"dense", "view", "transposed", "transposed-view", "basic"}
VecReps == {"vec", "inc2", "inc3-off", "slice", "basic"}
SymReps == {"sym", "symview", "basic", "band"}

\* entry points that take Matrix / Vector arguments: name, representation sets of up to two arguments, destination methods
Entries(typ, key) ==
  CASE typ \in {"QR", "LQ"} ->
         {[meth |-> "Factorize", a1 |-> r, a2 |-> "-"] : r \in MatReps}
         \cup {[meth |-> mm, a1 |-> r, a2 |-> "-"] : mm \in {"SolveTo", "SolveTo(trans)"}, r \in MatReps}
         \cup {[meth |-> mm, a1 |-> r, a2 |-> "-"] : mm \in {"SolveVecTo", "SolveVecTo(trans)"}, r \in VecReps}
    [] typ = "LU" ->
         {[meth |-> "Factorize", a1 |-> r, a2 |-> "-"] : r \in MatReps}
         \cup {[meth |-> mm, a1 |-> r, a2 |-> "-"] : mm \in {"SolveTo", "SolveTo(trans)"}, r \in MatReps}
         \cup {[meth |-> mm, a1 |-> r, a2 |-> "-"] : mm \in {"SolveVecTo", "SolveVecTo(trans)"}, r \in VecReps}
    [] typ = "LUupd" -> {[meth |-> "RankOne", a1 |-> r1, a2 |-> r2] : r1 \in VecReps, r2 \in VecReps}
    [] typ = "Cholesky" ->
         {[meth |-> "Factorize", a1 |-> r, a2 |-> "-"] : r \in SymReps}
         \cup {[meth |-> "SolveTo", a1 |-> r, a2 |-> "-"] : r \in MatReps}
         \cup {[meth |-> mm, a1 |-> r, a2 |-> "-"] : mm \in {"SolveVecTo", "SymRankOne", "ExtendVecSym"}, r \in VecReps}
    [] typ = "PivotedCholesky" ->
         {[meth |-> "Factorize", a1 |-> r, a2 |-> "-"] : r \in SymReps}
         \cup {[meth |-> "SolveTo", a1 |-> r, a2 |-> "-"] : r \in MatReps}
         \cup {[meth |-> "SolveVecTo", a1 |-> r, a2 |-> "-"] : r \in VecReps}
    [] typ \in {"BandCholesky", "Tridiag"} ->
         {[meth |-> "SolveTo", a1 |-> r, a2 |-> "-"] : r \in MatReps}
         \cup {[meth |-> "SolveVecTo", a1 |-> r, a2 |-> "-"] : r \in VecReps}
         \cup (IF typ = "Tridiag" THEN {[meth |-> "SolveTo(trans)", a1 |-> r, a2 |-> "-"] : r \in MatReps}
               ELSE {[meth |-> "Factorize", a1 |-> r, a2 |-> "-"] : r \in {"symband", "basic"}})
    [] typ = "SVD" ->
         {[meth |-> "Factorize", a1 |-> r, a2 |-> "-"] : r \in MatReps}
         \cup {[meth |-> "SolveTo", a1 |-> r, a2 |-> "-"] : r \in MatReps}
         \cup {[meth |-> "SolveVecTo", a1 |-> r, a2 |-> "-"] : r \in VecReps}
    [] typ = "EigenSym" -> {[meth |-> "Factorize", a1 |-> r, a2 |-> "-"] : r \in SymReps}
    [] typ \in {"Eigen"} -> {[meth |-> "Factorize", a1 |-> r, a2 |-> "-"] : r \in MatReps}
    [] typ = "HOGSVD" -> {[meth |-> "Factorize", a1 |-> r1, a2 |-> r2] : r1 \in MatReps, r2 \in {"dense", "view", "basic"}}
    [] typ = "Solve" ->
         {[meth |-> "Solve", a1 |-> r1, a2 |-> r2] : r1 \in MatReps, r2 \in MatReps}
         \cup {[meth |-> "SolveVec", a1 |-> r1, a2 |-> r2] : r1 \in MatReps, r2 \in VecReps}
         \cup (IF key.m = key.n THEN {[meth |-> "Inverse", a1 |-> r, a2 |-> "-"] : r \in MatReps} ELSE {})
IsSolve(meth) == meth \in {"SolveTo", "SolveTo(trans)", "SolveVecTo", "SolveVecTo(trans)", "Solve", "SolveVec", "Inverse"}

\* all calls of one instance
CallsOf(typ, key) ==
  \* extraction into every destination
  UNION {LET dk == DstKind(typ, mm)  sh == Shape(typ, mm, key.m, key.n, key.kind) IN
           {[meth |-> mm, a1 |-> "-", a2 |-> "-", dk |-> dk, r |-> sh[1], c |-> sh[2], tri |-> TriKind(typ, mm),
             mode |-> md, wr |-> 0, wc |-> 0, wtri |-> "", expect |-> "ok"] : md \in GoodModes(dk)}
           \cup {[meth |-> mm, a1 |-> "-", a2 |-> "-", dk |-> dk, r |-> sh[1], c |-> sh[2], tri |-> TriKind(typ, mm),
                  mode |-> "wrong", wr |-> w.r, wc |-> w.c, wtri |-> w.tri, expect |-> w.expect] : w \in WrongDst(dk, sh[1], sh[2])}
         : mm \in Extractors(typ, key.kind)}
  \cup
  \* entry points: every operand representation into an empty destination; the plain representation into every destination
  UNION {IF IsSolve(e.meth)
         THEN LET dk == DstKind(typ, e.meth)  sh == Shape(typ, e.meth, key.m, key.n, key.kind)
                  plain == e.a1 \in {"dense", "vec"} /\ e.a2 \in {"-", "dense", "vec"}
              IN {[meth |-> e.meth, a1 |-> e.a1, a2 |-> e.a2, dk |-> dk, r |-> sh[1], c |-> sh[2], tri |-> "",
                   mode |-> md, wr |-> 0, wc |-> 0, wtri |-> "", expect |-> "ok"] :
                     md \in IF plain THEN {"empty", "sized", "view"} \cup (IF key.m = key.n THEN {"alias"} ELSE {})   \* dst is b (or a)
                                      ELSE {"empty", "view"}}
                 \cup (IF plain THEN {[meth |-> e.meth, a1 |-> e.a1, a2 |-> e.a2, dk |-> dk, r |-> sh[1], c |-> sh[2], tri |-> "",
                                       mode |-> "wrong", wr |-> w.r, wc |-> w.c, wtri |-> w.tri, expect |-> w.expect] :
                                         w \in WrongDst(dk, sh[1], sh[2])}
                       ELSE {})
         ELSE {[meth |-> e.meth, a1 |-> e.a1, a2 |-> e.a2, dk |-> "-", r |-> 0, c |-> 0, tri |-> "",
                mode |-> "-", wr |-> 0, wc |-> 0, wtri |-> "", expect |-> "ok"]}
         : e \in Entries(typ, key)}

NoCall == [meth |-> "-", a1 |-> "-", a2 |-> "-", dk |-> "-", r |-> 0, c |-> 0, tri |-> "", mode |-> "-", wr |-> 0, wc |-> 0,
           wtri |-> "", expect |-> "ok"]
XCases ==
  UNION {UNION {{[lvl |-> "inst", typ |-> typ, key |-> key, t |-> t, call |-> NoCall]}
                \cup {[lvl |-> "call", typ |-> typ, key |-> key, t |-> t, call |-> cl] : cl \in CallsOf(typ, key)}
                : key \in InstKeys(typ), t \in 0..NVariants - 1}
         : typ \in Types}

XInit == c \in XCases
XNext == UNCHANGED vars
XSpec == XInit /\ [][XNext]_vars

XTheorems == (c.lvl = "inst" /\ InstOK(c.typ, c.key, c.t)) => InstTheorems(c.typ, c.key, c.t)
\* every well-formed call has a positive shape; an alias destination needs the shapes of b and x to agree
ShapesOK == (c.lvl = "call" /\ c.call.expect = "ok" /\ c.call.dk # "-") => (c.call.r >= 1 /\ c.call.c >= 1)

XEmit ==
  (Emit /\ InstOK(c.typ, c.key, c.t)) =>
     IF c.lvl = "inst" THEN PrintT(ToJson(InstRec(c.typ, c.key, c.t)))
     ELSE PrintT(ToJson([k |-> "call", typ |-> c.typ,
                         key |-> [m |-> c.key.m, n |-> c.key.n, kind |-> c.key.kind, t |-> c.t], call |-> c.call]))
=============================================================================
