SPECIFICATION Spec
CONSTANTS
  Seed = @SEED@
  NVariants = @NVARIANTS@
  Emit = @EMIT@
INVARIANTS Theorems EmitCase
CHECK_DEADLOCK FALSE
