SPECIFICATION Spec
CONSTANTS
  Routines <- QRoutines
  QS = @QS@
  QGN = @QGN@
  QK = @QK@
  QLd = @QLD@
  Cap = @CAP@
  Shard = @SHARD@
  NShards = @NSHARDS@
  Mode = "@MODE@"
  Emit = @EMIT@
INVARIANTS TypeOK CaseOK
CHECK_DEADLOCK FALSE
