-------------------------- MODULE BlasContractGen --------------------------
(* R2 generator of property C07 (BLAS part).  TLC enumerates the property's  *)
(* argument grid                                                              *)
(*    dimensions {-1,0,1,2,3,5}, band widths {-1,0,1,2},                      *)
(*    ld in {min-1, min, min+2}, inc in {-2,-1,0,1,2},                        *)
(*    slice lengths {need-1, need, need+3}, every flag legal or illegal (9)   *)
(* for each routine family, evaluates the decision table of BlasContract.tla  *)
(* and prints one JSON line per tuple: the arguments, the slice lengths, the  *)
(* expected abstract outcome, the violated clauses and whether the tuple is   *)
(* a single-fault tuple.  On every tuple it checks NeedThm/ZeroThm.           *)
(* Mode "full": the whole product.  Mode "sample": Target tuples per routine, *)
(* stratified - 2/8 all clauses satisfied, 5/8 exactly one argument drawn     *)
(* from its illegal values (the argument cycles through the argument list),   *)
(* 1/8 every argument drawn from the whole grid.                              *)
EXTENDS BlasContract, TLC, Json

CONSTANTS Cx,         \* BOOLEAN: complex routines (C/Z) or real (S/D)
          Routines,   \* families to enumerate
          Seed,
          Mode,       \* "full" | "sample"
          Target,     \* tuples per routine in sample mode
          Emit        \* BOOLEAN: print the tuples (FALSE: theorems only)

VARIABLE g

DimAll == {-1, 0, 1, 2, 3, 5}     DimOK == {0, 1, 2, 3, 5}
BandAll == {-1, 0, 1, 2}          BandOK == {0, 1, 2}
LdAll == {-1, 0, 2}               LdOK == {0, 2}
IncAll == -2 .. 2                 IncOK == IncAll \ {0}
LenAll == {-1, 0, 3}              LenOK == {0, 3}

Fields == <<"tA", "tB", "ul", "dg", "sd", "m", "n", "k", "kl", "ku", "ea", "eb", "ec",
            "incx", "incy", "da", "db", "dc", "dx", "dy">>
\* does the routine have the argument at all
Has(r, f) ==
    CASE f = "tA" -> HasTA(r) [] f = "tB" -> HasTB(r) [] f = "ul" -> HasUL(r) [] f = "dg" -> HasDG(r)
      [] f = "sd" -> HasSD(r) [] f = "m" -> HasM(r) [] f = "n" -> TRUE
      [] f = "k" -> HasK(r) \/ HasBand(r) \/ r = "rotm"
      [] f \in {"kl", "ku"} -> HasKLU(r)
      [] f = "ea" -> HasLd(r, "a") [] f = "eb" -> HasLd(r, "b") [] f = "ec" -> HasLd(r, "c")
      [] f = "incx" -> "x" \in Uses(r) [] f = "incy" -> "y" \in Uses(r)
      [] f = "da" -> "a" \in Uses(r) [] f = "db" -> "b" \in Uses(r) [] f = "dc" -> "c" \in Uses(r)
      [] f = "dx" -> "x" \in Uses(r) [] f = "dy" -> "y" \in Uses(r)
\* legal values / the whole grid of an argument the routine has
OkDom(r, f) ==
    CASE f = "tA" -> LegalTA(r, Cx) [] f = "tB" -> {0, 1, 2} [] f \in {"ul", "dg", "sd"} -> {0, 1}
      [] f \in {"m", "n"} -> DimOK
      [] f = "k" -> IF r = "rotm" THEN LegalRotm ELSE IF HasBand(r) THEN BandOK ELSE DimOK
      [] f \in {"kl", "ku"} -> BandOK
      [] f \in {"ea", "eb", "ec"} -> LdOK
      [] f \in {"incx", "incy"} -> IncOK
      [] f \in {"da", "db", "dc", "dx", "dy"} -> LenOK
AllDom(r, f) ==
    CASE f \in {"tA", "tB", "ul", "dg", "sd"} -> OkDom(r, f) \cup {BadFlag}
      [] f \in {"m", "n"} -> DimAll
      [] f = "k" -> IF r = "rotm" THEN 0 .. 4 ELSE IF HasBand(r) THEN BandAll ELSE DimAll
      [] f \in {"kl", "ku"} -> BandAll
      [] f \in {"ea", "eb", "ec"} -> LdAll
      [] f \in {"incx", "incy"} -> IncAll
      [] f \in {"da", "db", "dc", "dx", "dy"} -> LenAll
Dflt(f) == IF f \in {"incx", "incy"} THEN 1 ELSE 0
Dom(r, f, which) ==
    IF ~Has(r, f) THEN {Dflt(f)}
    ELSE IF which = "ok" THEN OkDom(r, f)
    ELSE IF which = "bad" THEN (IF AllDom(r, f) \ OkDom(r, f) = {} THEN OkDom(r, f) ELSE AllDom(r, f) \ OkDom(r, f))
    ELSE AllDom(r, f)

FullGrid(r) ==
    [r : {r}, tA : Dom(r, "tA", "all"), tB : Dom(r, "tB", "all"), ul : Dom(r, "ul", "all"),
     dg : Dom(r, "dg", "all"), sd : Dom(r, "sd", "all"), m : Dom(r, "m", "all"), n : Dom(r, "n", "all"),
     k : Dom(r, "k", "all"), kl : Dom(r, "kl", "all"), ku : Dom(r, "ku", "all"),
     ea : Dom(r, "ea", "all"), eb : Dom(r, "eb", "all"), ec : Dom(r, "ec", "all"),
     incx : Dom(r, "incx", "all"), incy : Dom(r, "incy", "all"),
     da : Dom(r, "da", "all"), db : Dom(r, "db", "all"), dc : Dom(r, "dc", "all"),
     dx : Dom(r, "dx", "all"), dy : Dom(r, "dy", "all")]

(********************************* sampling **********************************)
HP == 46337                                   \* prime, HP^2 < 2^31
Scr(hh, j) == (hh * hh + 7 * hh + j + 1) % HP
RECURSIVE HS(_, _, _)
HS(f0, i, j) == IF j = 0 THEN ((i * 7919) + ((Seed % 1000) * 4729) + f0 * 131) % HP ELSE Scr(HS(f0, i, j - 1), j)
Nth(S, kk) == CHOOSE v \in S : Cardinality({w \in S : w < v}) = kk % Cardinality(S)
FamSeq == <<"swap", "copy", "axpy", "scal", "rscal", "dot", "dotu", "dotc", "dsdot", "sdsdot", "asum", "iamax",
            "rot", "rotm", "gemv", "gbmv", "symv", "hemv", "sbmv", "hbmv", "spmv", "hpmv", "trmv", "tbmv", "tpmv",
            "trsv", "tbsv", "tpsv", "ger", "geru", "gerc", "syr", "her", "spr", "hpr", "syr2", "her2", "spr2", "hpr2",
            "gemm", "symm", "hemm", "syrk", "herk", "syr2k", "her2k", "trmm", "trsm">>
FamIdx(r) == CHOOSE kk \in 1 .. Len(FamSeq) : FamSeq[kk] = r
\* the arguments of r that can take an illegal value
FaultFields(r) == SelectSeq(Fields, LAMBDA f : Has(r, f) /\ AllDom(r, f) \ OkDom(r, f) # {})
Sample(r, i) ==
    LET H(j) == HS(FamIdx(r), i, j) \div 3
        plan == i % 8
        ff == FaultFields(r)
        fault == IF plan \in 2 .. 6 THEN ff[((i \div 8) % Len(ff)) + 1] ELSE "none"
        which(f) == IF plan = 7 THEN "all" ELSE IF f = fault THEN "bad" ELSE "ok"
        D(f, j) == Nth(Dom(r, f, which(f)), H(j))
    IN [r |-> r, tA |-> D("tA", 1), tB |-> D("tB", 2), ul |-> D("ul", 3), dg |-> D("dg", 4), sd |-> D("sd", 5),
        m |-> D("m", 6), n |-> D("n", 7), k |-> D("k", 8), kl |-> D("kl", 9), ku |-> D("ku", 10),
        ea |-> D("ea", 11), eb |-> D("eb", 12), ec |-> D("ec", 13), incx |-> D("incx", 14), incy |-> D("incy", 15),
        da |-> D("da", 16), db |-> D("db", 17), dc |-> D("dc", 18), dx |-> D("dx", 19), dy |-> D("dy", 20)]

(******************************** the call ***********************************)
P0(c) == [tA |-> c.tA, tB |-> c.tB, ul |-> c.ul, dg |-> c.dg, sd |-> c.sd, m |-> c.m, n |-> c.n,
          k |-> c.k, kl |-> c.kl, ku |-> c.ku, lda |-> 1, ldb |-> 1, ldc |-> 1, incx |-> c.incx, incy |-> c.incy]
P(c) == LET p0 == P0(c)
            r == c.r
        IN [p0 EXCEPT !.lda = IF HasLd(r, "a") THEN MinLdOf(r, p0, "a") + c.ea ELSE 1,
                      !.ldb = IF HasLd(r, "b") THEN MinLdOf(r, p0, "b") + c.eb ELSE 1,
                      !.ldc = IF HasLd(r, "c") THEN MinLdOf(r, p0, "c") + c.ec ELSE 1]
Delta(c, o) == CASE o = "a" -> c.da [] o = "b" -> c.db [] o = "c" -> c.dc [] o = "x" -> c.dx [] o = "y" -> c.dy
\* need-1 / need / need+3, where need is the documented storage extent of the operand for the
\* dimensions as given (a negative dimension gives a meaningless extent: lengths clamp at 0)
Lens(c) == LET p == P(c)
           IN [o \in {"a", "b", "c", "x", "y"} |->
                 IF o \in Uses(c.r) THEN Max(0, NeedOf(c.r, p, o) + Delta(c, o)) ELSE 0]
Call(c) == [r |-> c.r, cx |-> Cx, p |-> P(c), len |-> Lens(c)]

\* compact line: <<family, <<15 parameters>>, <<len a, b, c, x, y>>, expected, nowrite, hard clauses, soft clauses>>
Case(c) ==
    LET k == Call(c)
        p == k.p
    IN <<k.r,
         <<p.tA, p.tB, p.ul, p.dg, p.sd, p.m, p.n, p.k, p.kl, p.ku, p.lda, p.ldb, p.ldc, p.incx, p.incy>>,
         <<k.len["a"], k.len["b"], k.len["c"], k.len["x"], k.len["y"]>>,
         Expected(k), IF NoWriteOK(k) THEN 1 ELSE 0, Hard(k), Soft(k)>>
Meta(f) == [meta |-> "blas", r |-> f, cx |-> Cx, uses |-> Uses(f), ro |-> ReadOnly(f), clauses |-> ClausesOf(f, Cx)]

NChunks == 4
Points(f, ch) ==
    IF Mode = "full" THEN {c \in FullGrid(f) : (c.n + c.m + c.incx + c.incy + 8) % NChunks = ch}
    ELSE {Sample(f, i) : i \in {ii \in 1 .. Target : ii % NChunks = ch}}
Init == g \in {[r |-> "start", fam |-> f, ch |-> ch] : f \in Routines, ch \in 0 .. NChunks - 1}
Next == g.r = "start" /\ g' \in Points(g.fam, g.ch)
Spec == Init /\ [][Next]_g

TypeOK == Routines \subseteq (IF Cx THEN AllRoutines \ RealOnly ELSE AllRoutines \ ComplexOnly)
CaseOK ==
    IF g.r = "start"
    THEN (Emit /\ g.ch = 0) => PrintT(ToJson(Meta(g.fam)))
    ELSE
      LET k == Call(g)
      IN /\ NeedThm(k)
         /\ ZeroThm(k)
         /\ Expected(k) \in {"OK", "PANIC", "EITHER"}
         /\ Emit => PrintT(ToJson(Case(g)))
=============================================================================
