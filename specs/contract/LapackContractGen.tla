------------------------- MODULE LapackContractGen -------------------------
(* R2 generator of property C07 (LAPACK part): TLC draws argument tuples of   *)
(* every routine of LapackContract.tla from the property's grid               *)
(*    dimensions {-1,0,1,2,3,5}, ld in {min-1,min,min+2}, incv in -2..2,      *)
(*    lwork in {-1, min-1, min, opt}, slice lengths {need-1,need,need+3},     *)
(*    every flag legal or illegal                                             *)
(* evaluates the decision table and prints one self-contained JSON object per *)
(* tuple.  Stratified sample: 2/8 all clauses satisfied, 5/8 exactly one      *)
(* argument drawn from its illegal values (cycling through the argument      *)
(* list), 1/8 every argument drawn from its whole grid.                       *)
EXTENDS LapackContract, Json

CONSTANTS Routines, Seed, Target, Emit

VARIABLE g

DimAll == {-1, 0, 1, 2, 3, 5}
LdAll == {-1, 0, 2}      LdOK == {0, 2}
IncAll == -2 .. 2        IncOK == IncAll \ {0}
LenAll == {-1, 0, 3}     LenOK == {0, 3}
LwkAll == {"q", "lo", "min", "opt"}   LwkOK == {"q", "min", "opt"}

Slots == <<"f1", "f2", "f3", "f4", "d1", "d2", "d3", "e1", "e2", "e3", "e4", "inc", "lwk",
           "l1", "l2", "l3", "l4", "v1", "v2", "i1", "wk">>
SlotIdx(s) == CHOOSE i \in 1 .. Len(Slots) : Slots[i] = s
Num(s) == CASE s \in {"f1", "d1", "e1", "l1", "v1", "i1"} -> 1 [] s \in {"f2", "d2", "e2", "l2", "v2"} -> 2
            [] s \in {"f3", "d3", "e3", "l3"} -> 3 [] s \in {"f4", "e4", "l4"} -> 4 [] OTHER -> 0
Has(r, s) ==
    CASE s \in {"f1", "f2", "f3", "f4"} -> Num(s) <= Len(FlagKinds(r))
      [] s \in {"d1", "d2", "d3"} -> Num(s) <= Len(DimNames(r))
      [] s \in {"e1", "e2", "e3", "e4", "l1", "l2", "l3", "l4"} -> Num(s) <= Len(Mats(r))
      [] s \in {"v1", "v2"} -> Num(s) <= Len(Vecs(r))
      [] s = "i1" -> Len(IVecs(r)) = 1
      [] s = "inc" -> HasInc(r)
      [] s \in {"lwk", "wk"} -> HasLwork(r)

HP == 46337
Scr(hh, j) == (hh * hh + 7 * hh + j + 1) % HP
RECURSIVE HS(_, _, _)
HS(f0, i, j) == IF j = 0 THEN ((i * 7919) + ((Seed % 1000) * 4729) + f0 * 131) % HP ELSE Scr(HS(f0, i, j - 1), j)
NthInt(S, kk) == CHOOSE v \in S : Cardinality({w \in S : w < v}) = kk % Cardinality(S)
RoutineSeq == <<"Dgetrf", "Dgetf2", "Dgetrs", "Dgesv", "Dgetri", "Dpotrf", "Dpotf2", "Dpotrs", "Dpotri",
                "Dgeqrf", "Dgeqr2", "Dgelqf", "Dgelq2", "Dorgqr", "Dorg2r", "Dorglq", "Dorgl2",
                "Dormqr", "Dorm2r", "Dormlq", "Dorml2", "Dtrtri", "Dtrti2", "Dtrtrs", "Dlarft", "Dlarfb", "Dlarf">>
RIdx(r) == CHOOSE kk \in 1 .. Len(RoutineSeq) : RoutineSeq[kk] = r
LwkSeq == <<"q", "min", "opt", "lo">>
NthLwk(S, kk) == LET idx == {i \in 1 .. 4 : LwkSeq[i] \in S}
                 IN LwkSeq[NthInt(idx, kk)]

\* bad-or-all selection: an empty bad set falls back to the legal values
Pick(ok, all, which) == IF which = "ok" THEN (IF ok = {} THEN all ELSE ok) ELSE IF which = "all" THEN all
                        ELSE (IF all \ ok = {} THEN ok ELSE all \ ok)

FaultSlots(r) == SelectSeq(Slots, LAMBDA s : Has(r, s))
Sample(r, i) ==
    LET H(j) == HS(RIdx(r), i, j) \div 3
        plan == i % 8
        fs == FaultSlots(r)
        fault == IF plan \in 2 .. 6 THEN fs[((i \div 8) % Len(fs)) + 1] ELSE "none"
        which(s) == IF plan = 7 THEN "all" ELSE IF s = fault THEN "bad" ELSE "ok"
        nf == Len(FlagKinds(r))
        nd == Len(DimNames(r))
        flag(j) == IF j > nf THEN 0
                   ELSE LET kind == FlagKinds(r)[j]
                            s == Slots[j]
                        IN NthInt(Pick(IF kind = "trans2" THEN {0, 1} ELSE LegalCodes(kind), AllCodes(kind), which(s)), H(j))
        f == <<flag(1), flag(2), flag(3), flag(4)>>
        p0 == [f |-> f, d |-> <<0, 0, 0>>, ld |-> [o \in {"a"} |-> 1], inc |-> 1, lwork |-> 0, lwk |-> "none", len |-> [o \in {"a"} |-> 0]]
        legal(pp, j) == {v \in DimAll : v >= DimRange(r, pp, j)[1] /\ v <= DimRange(r, pp, j)[2]}
        dim(pp, j) == IF j > nd THEN 0 ELSE NthInt(Pick(legal(pp, j), DimAll, which(Slots[4 + j])), H(4 + j))
        d1 == dim(p0, 1)
        p1 == [p0 EXCEPT !.d = <<d1, 0, 0>>]
        d2 == dim(p1, 2)
        p2 == [p0 EXCEPT !.d = <<d1, d2, 0>>]
        d3 == dim(p2, 3)
        p3 == [p0 EXCEPT !.d = <<d1, d2, d3>>]
        ms == Mats(r)
        vs == Vecs(r)
        is == IVecs(r)
        ldx(j) == NthInt(Pick(LdOK, LdAll, which(Slots[7 + j])), H(7 + j))
        ld == [o \in SeqToSet(ms) |-> Max(1, MatDims(r, p3, o)[2]) + ldx(CHOOSE j \in 1 .. Len(ms) : ms[j] = o)]
        inc == IF HasInc(r) THEN NthInt(Pick(IncOK, IncAll, which("inc")), H(12)) ELSE 1
        lwk == IF HasLwork(r) THEN NthLwk(Pick(LwkOK, LwkAll, which("lwk")), H(13)) ELSE "none"
        p4 == [p3 EXCEPT !.ld = ld, !.inc = inc]
        lwork == CASE lwk = "q" -> -1 [] lwk = "lo" -> MinLwork(r, p4) - 1 [] lwk = "min" -> MinLwork(r, p4) [] OTHER -> 0
        wd == NthInt(Pick(LenOK, LenAll, which("wk")), H(21))
        dl(j) == NthInt(Pick(LenOK, LenAll, which(Slots[13 + j])), H(13 + j))
        dv(j) == NthInt(Pick(IF vs[j] = "tau" THEN {0} ELSE LenOK, LenAll, which(Slots[17 + j])), H(17 + j))
        di == NthInt(Pick({0}, LenAll, which("i1")), H(20))
        ops == SeqToSet(ms) \cup SeqToSet(vs) \cup SeqToSet(is) \cup (IF HasLwork(r) THEN {"work"} ELSE {})
        len == [o \in ops |->
                  IF o \in SeqToSet(ms) THEN Max(0, Need(MatDesc(r, p4, o)) + dl(CHOOSE j \in 1 .. Len(ms) : ms[j] = o))
                  ELSE IF o \in SeqToSet(vs) THEN Max(0, VecMin(r, p4, o) + dv(CHOOSE j \in 1 .. Len(vs) : vs[j] = o))
                  ELSE IF o \in SeqToSet(is) THEN Max(0, IVecMin(r, p4, o) + di)
                  ELSE (IF lwk = "opt" THEN wd ELSE Max(0, Max(1, lwork) + wd))]
    IN [r |-> r, p |-> [p4 EXCEPT !.lwork = lwork, !.lwk = lwk, !.len = len]]

Case(c) ==
    LET r == c.r  p == c.p
    IN [kind |-> "lapack", r |-> r, f |-> p.f, d |-> p.d, inc |-> p.inc, lwork |-> p.lwork, lwk |-> p.lwk,
        mats |-> [j \in 1 .. Len(Mats(r)) |-> <<Mats(r)[j], p.len[Mats(r)[j]], p.ld[Mats(r)[j]]>>],
        vecs |-> [j \in 1 .. Len(Vecs(r)) |-> <<Vecs(r)[j], p.len[Vecs(r)[j]]>>],
        ivecs |-> [j \in 1 .. Len(IVecs(r)) |-> <<IVecs(r)[j], p.len[IVecs(r)[j]]>>],
        work |-> IF HasLwork(r) THEN p.len["work"] ELSE 0,
        exp |-> Expected(r, p), nowrite |-> IF NoWriteOK(r, p) THEN 1 ELSE 0,
        hard |-> Hard(r, p), soft |-> Soft(r, p)]
Meta(r) == [meta |-> "lapack", r |-> r, clauses |-> ClausesOf(r)]

NChunks == 4
Init == g \in {[r |-> "start", fam |-> f, ch |-> ch] : f \in Routines, ch \in 0 .. NChunks - 1}
Next == g.r = "start" /\ g' \in {Sample(g.fam, i) : i \in {ii \in 1 .. Target : ii % NChunks = g.ch}}
Spec == Init /\ [][Next]_g

TypeOK == Routines \subseteq LapackRoutines
CaseOK ==
    IF g.r = "start"
    THEN (Emit /\ g.ch = 0) => PrintT(ToJson(Meta(g.fam)))
    ELSE /\ NeedThm(g.r, g.p)
         /\ Expected(g.r, g.p) \in {"OK", "PANIC", "EITHER", "UNSPEC"}
         /\ Emit => PrintT(ToJson(Case(g)))
=============================================================================
