------------------------- MODULE LapackContractGen -------------------------
(* R2 generator of property C07 (LAPACK part): TLC draws argument tuples of   *)
(* every routine of LapackContract.tla, evaluates the decision table and      *)
(* prints one self-contained JSON object per tuple.                           *)
(* Mode "sample": the property's grid                                         *)
(*    dimensions {-1,0,1,2,3,5}, ld in {min-1,min,min+2}, inc in -2..2,       *)
(*    lwork in {-1, min-1, min, opt}, slice lengths {need-1,need,need+3},     *)
(*    every flag legal or illegal                                             *)
(* stratified: 2/8 all clauses satisfied, 5/8 exactly one argument drawn from *)
(* its illegal values (cycling through the argument list), 1/8 anything.      *)
(* Mode "boundary": for every legal flag combination, every legal shape with  *)
(* dimensions in BDims (m<n, m=n, m>n, zero), every stride extra in BLd and   *)
(* lwork minimal and queried: all slices exactly at their minimum length      *)
(* (must be accepted), and each slice in turn one element short (must be      *)
(* rejected unless the problem is zero-sized).                                *)
EXTENDS LapackContract, Json

CONSTANTS Routines, Seed, Target, Emit, Mode, BDims, BLd

VARIABLE g

DimAll == {-1, 0, 1, 2, 3, 5}
LdAll == {-1, 0, 2}      LdOK == {0, 2}
IncAll == -2 .. 2
LenAll == {-1, 0, 3}     LenOK == {0, 3}
LwkAll == {"q", "lo", "min", "opt"}   LwkOK == {"q", "min", "opt"}

\* argument slots: 4 flags, 4 dimensions, 4 strides, increment, lwork kind, 4 matrix lengths, 4 vector lengths,
\* 1 int vector length, work length
Slots == <<"f1", "f2", "f3", "f4", "d1", "d2", "d3", "d4", "e1", "e2", "e3", "e4", "inc", "lwk",
           "l1", "l2", "l3", "l4", "v1", "v2", "v3", "v4", "i1", "wk">>
SlotIdx(s) == CHOOSE i \in 1 .. Len(Slots) : Slots[i] = s
Has(r, s) ==
    LET i == SlotIdx(s) IN
    CASE i \in 1 .. 4 -> i <= Len(FlagKinds(r)) /\ AllCodes(FlagKinds(r)[i]) # LegalCodes(FlagKinds(r)[i])
      [] i \in 5 .. 8 -> i - 4 <= Len(DimNames(r))
      [] i \in 9 .. 12 -> i - 8 <= Len(Mats(r))
      [] s = "inc" -> HasInc(r)
      [] s \in {"lwk", "wk"} -> HasLwork(r)
      [] i \in 15 .. 18 -> i - 14 <= Len(Mats(r))
      [] i \in 19 .. 22 -> i - 18 <= Len(Vecs(r))
      [] s = "i1" -> Len(IVecs(r)) = 1

HP == 46337
Scr(hh, j) == (hh * hh + 7 * hh + j + 1) % HP
RECURSIVE HS(_, _, _)
HS(f0, i, j) == IF j = 0 THEN ((i * 7919) + ((Seed % 1000) * 4729) + f0 * 131) % HP ELSE Scr(HS(f0, i, j - 1), j)
NthInt(S, kk) == CHOOSE v \in S : Cardinality({w \in S : w < v}) = kk % Cardinality(S)
RoutineSeq == <<"Dgetrf", "Dgetf2", "Dgetrs", "Dgesv", "Dgetri", "Dpotrf", "Dpotf2", "Dpotrs", "Dpotri",
                "Dgeqrf", "Dgeqr2", "Dgelqf", "Dgelq2", "Dorgqr", "Dorg2r", "Dorglq", "Dorgl2",
                "Dormqr", "Dorm2r", "Dormlq", "Dorml2", "Dtrtri", "Dtrti2", "Dtrtrs", "Dlarft", "Dlarfb", "Dlarf",
                "Dgels", "Dgesvd", "Dsyev", "Dsytrd", "Dorgtr", "Dgeev", "Dtrcon", "Dgecon", "Dpocon", "Dlansy",
                "Dgehrd", "Dorghr", "Dgeqp3", "Dgebrd", "Dlacpy", "Dlaset", "Dlange", "Dlantr",
                "Dpbtrs", "Dtbtrs", "Dpbtrf", "Dgtsv", "Dptsv", "Dorgbr", "Dormbr", "Dormhr",
                "Dlansb", "Dlantb", "Dlangt", "Dlanst", "Dlangb", "Dlanhs", "Dlascl", "Dlaswp", "Dlapmt", "Dlapmr",
                "Drscl", "Dlassq", "Dlasrt", "Dgeql2", "Dgerq2", "Dgehd2", "Dsytd2", "Dlauu2", "Dlauum",
                "Dpttrf", "Dpttrs", "Dptcon", "Dgerqf", "Dorgql", "Dorg2l", "Dorgr2", "Dormr2", "Dpbtf2", "Dpbcon",
                "Dsterf", "Dlarfg">>
\* the routines added with the norm-type / auxiliary families (their work slice is also drawn empty)
NewGrid == {RoutineSeq[kk] : kk \in 54 .. Len(RoutineSeq)}
RIdx(r) == CHOOSE kk \in 1 .. Len(RoutineSeq) : RoutineSeq[kk] = r
LwkSeq == <<"q", "min", "opt", "lo">>
NthLwk(S, kk) == LET idx == {i \in 1 .. 4 : LwkSeq[i] \in S}
                 IN LwkSeq[NthInt(idx, kk)]

\* bad-or-all selection: an empty set falls back
Pick(ok, all, which) == IF which = "ok" THEN (IF ok = {} THEN all ELSE ok) ELSE IF which = "all" THEN all
                        ELSE (IF all \ ok = {} THEN ok ELSE all \ ok)
LegalOf(kind) == IF kind = "trans2" THEN {0, 1} ELSE LegalCodes(kind)

P0(f) == [f |-> f, d |-> <<0, 0, 0, 0>>, ld |-> [o \in {"a"} |-> 1], inc |-> 1, lwork |-> 0, lwk |-> "none", len |-> [o \in {"a"} |-> 0]]
PosIn(sq, o) == CHOOSE j \in 1 .. Len(sq) : sq[j] = o
Operands(r) == SeqToSet(Mats(r)) \cup SeqToSet(Vecs(r)) \cup SeqToSet(IVecs(r)) \cup (IF HasLwork(r) THEN {"work"} ELSE {})
LworkOf(r, p, lwk) == CASE lwk = "q" -> -1 [] lwk = "lo" -> MinLwork(r, p) - 1 [] lwk = "min" -> MinLwork(r, p) [] OTHER -> 0
\* the minimum length of an operand: the storage extent of a matrix, the documented length of a vector,
\* max(1, lwork) for the workspace (for lwork = opt the harness adds the value the query returns)
MinLen(r, p, o, lwk, lwork) ==
    IF o \in SeqToSet(Mats(r)) THEN Need(MatDesc(r, p, o))
    ELSE IF o \in SeqToSet(Vecs(r)) THEN VecMin(r, p, o)
    ELSE IF o \in SeqToSet(IVecs(r)) THEN IVecMin(r, p, o)
    ELSE (IF lwk = "opt" THEN 0 ELSE Max(1, lwork))

FaultSlots(r) == SelectSeq(Slots, LAMBDA s : Has(r, s))
Sample(r, i) ==
    LET H(j) == HS(RIdx(r), i, j) \div 3
        plan == i % 8
        fs == FaultSlots(r)
        fault == IF plan \in 2 .. 6 THEN fs[((i \div 8) % Len(fs)) + 1] ELSE "none"
        which(s) == IF plan = 7 THEN "all" ELSE IF s = fault THEN "bad" ELSE "ok"
        nf == Len(FlagKinds(r))
        nd == Len(DimNames(r))
        flag(j) == IF j > nf THEN 0
                   ELSE LET kind == FlagKinds(r)[j]
                        IN NthInt(Pick(LegalOf(kind), AllCodes(kind), which(Slots[j])), H(j))
        f == <<flag(1), flag(2), flag(3), flag(4)>>
        p0 == P0(f)
        legal(pp, j) == {v \in DimAll : v >= DimRange(r, pp, j)[1] /\ v <= DimRange(r, pp, j)[2]}
        dim(pp, j) == IF j > nd THEN 0 ELSE NthInt(Pick(legal(pp, j), DimAll, which(Slots[4 + j])), H(4 + j))
        d1 == dim(p0, 1)
        d2 == dim([p0 EXCEPT !.d = <<d1, 0, 0, 0>>], 2)
        d3 == dim([p0 EXCEPT !.d = <<d1, d2, 0, 0>>], 3)
        d4 == dim([p0 EXCEPT !.d = <<d1, d2, d3, 0>>], 4)
        p3 == [p0 EXCEPT !.d = <<d1, d2, d3, d4>>]
        ms == Mats(r)
        vs == Vecs(r)
        is == IVecs(r)
        ldx(j) == NthInt(Pick(LdOK, LdAll, which(Slots[8 + j])), H(8 + j))
        ld == [o \in SeqToSet(ms) |-> Max(1, MatDims(r, p3, o)[2]) + ldx(PosIn(ms, o))]
        inc == IF HasInc(r) THEN NthInt(Pick(IncLegal(r), IncAll, which("inc")), H(13)) ELSE 1
        lwk == IF HasLwork(r) THEN NthLwk(Pick(LwkOK, LwkAll, which("lwk")), H(14)) ELSE "none"
        p4 == [p3 EXCEPT !.ld = ld, !.inc = inc]
        lwork == LworkOf(r, p4, lwk)
        wd == NthInt(Pick(LenOK, LenAll, which("wk")), H(24))
        dl(j) == NthInt(Pick(LenOK, LenAll, which(Slots[14 + j])), H(14 + j))
        \* a work slice is also drawn empty (the property's grid: 0, need-1, need, need+3)
        dv(j) == NthInt(Pick(IF vs[j] \in ExactNames THEN {0} ELSE LenOK,
                             IF vs[j] = "work" /\ r \in NewGrid THEN LenAll \cup {0 - 99} ELSE LenAll, which(Slots[18 + j])), H(18 + j))
        di == NthInt(Pick({0}, LenAll, which("i1")), H(23))
        delta(o) == IF o \in SeqToSet(ms) THEN dl(PosIn(ms, o)) ELSE IF o \in SeqToSet(vs) THEN dv(PosIn(vs, o))
                    ELSE IF o \in SeqToSet(is) THEN di ELSE wd
        len == [o \in Operands(r) |->
                  IF o = "work" /\ HasLwork(r) /\ lwk = "opt" THEN wd
                  ELSE Max(0, MinLen(r, p4, o, lwk, lwork) + delta(o))]
    IN [r |-> r, p |-> [p4 EXCEPT !.lwork = lwork, !.lwk = lwk, !.len = len]]

(******************************* boundary grid *******************************)
RECURSIVE FlagCombos(_, _)
FlagCombos(r, j) ==          \* all legal flag sequences (positions j .. 4)
    IF j > 4 THEN {<<>>}
    ELSE LET S == IF j > Len(FlagKinds(r)) THEN {0} ELSE LegalOf(FlagKinds(r)[j])
         IN {<<v>> \o t : v \in S, t \in FlagCombos(r, j + 1)}
DimCombos(r, f) ==
    LET nd == Len(DimNames(r))
        D(j) == IF j <= nd THEN BDims \cup (IF DimNames(r)[j] = "ihi" THEN {-1} ELSE {}) ELSE {0}
    IN {d \in {<<a, b, c, e>> : a \in D(1), b \in D(2), c \in D(3), e \in D(4)} :
          DimsOK(r, [P0(f) EXCEPT !.d = d]) /\ ~Unspec(r, [P0(f) EXCEPT !.d = d])}
BPoint(r, f, d, e, lwk, short) ==
    LET p3 == [P0(f) EXCEPT !.d = d]
        ld == [o \in SeqToSet(Mats(r)) |-> Max(1, MatDims(r, p3, o)[2]) + e]
        p4 == [p3 EXCEPT !.ld = ld]
        lwork == LworkOf(r, p4, lwk)
        len == [o \in Operands(r) |->
                  IF o = "work" /\ HasLwork(r) /\ lwk = "opt" THEN (IF short = o THEN -1 ELSE 0)
                  ELSE Max(0, MinLen(r, p4, o, lwk, lwork) - (IF short = o THEN 1 ELSE 0))]
    IN [r |-> r, p |-> [p4 EXCEPT !.lwork = lwork, !.lwk = lwk, !.len = len]]
Boundary(r, ch, nch) ==
    UNION {{BPoint(r, f, d, e, lwk, short) :
              d \in {dd \in DimCombos(r, f) : (dd[1] + 2 * dd[2] + 3 * dd[3] + dd[4] + 7) % nch = ch},
              e \in BLd, lwk \in (IF HasLwork(r) THEN {"min", "opt"} ELSE {"none"}),
              short \in Operands(r) \cup {"none"}}
           : f \in FlagCombos(r, 1)}

Case(c) ==
    LET r == c.r  p == c.p
    IN [kind |-> "lapack", r |-> r, f |-> p.f, d |-> p.d, inc |-> p.inc, lwork |-> p.lwork, lwk |-> p.lwk,
        mats |-> [j \in 1 .. Len(Mats(r)) |-> <<Mats(r)[j], p.len[Mats(r)[j]], p.ld[Mats(r)[j]]>>],
        vecs |-> [j \in 1 .. Len(Vecs(r)) |-> <<Vecs(r)[j], p.len[Vecs(r)[j]]>>],
        ivecs |-> [j \in 1 .. Len(IVecs(r)) |-> <<IVecs(r)[j], p.len[IVecs(r)[j]]>>],
        work |-> IF HasLwork(r) THEN p.len["work"] ELSE 0,
        exp |-> Expected(r, p), nowrite |-> IF NoWriteOK(r, p) THEN 1 ELSE 0,
        hard |-> Hard(r, p), soft |-> Soft(r, p)]
Meta(r) == [meta |-> "lapack", r |-> r, clauses |-> IF Mode = "sample" THEN ClausesOf(r) ELSE {}]

NChunks == 4
Init == g \in {[r |-> "start", fam |-> f, ch |-> ch] : f \in Routines, ch \in 0 .. NChunks - 1}
Next == g.r = "start" /\
        g' \in (IF Mode = "sample" THEN {Sample(g.fam, i) : i \in {ii \in 1 .. Target : ii % NChunks = g.ch}}
                ELSE Boundary(g.fam, g.ch, NChunks))
Spec == Init /\ [][Next]_g

TypeOK == Routines \subseteq LapackRoutines
\* in the boundary grid nothing but a single short slice can be wrong
BoundaryOK(r, p) == Mode = "boundary" => Cardinality(Hard(r, p)) <= 1
CaseOK ==
    IF g.r = "start"
    THEN (Emit /\ g.ch = 0) => PrintT(ToJson(Meta(g.fam)))
    ELSE /\ NeedThm(g.r, g.p)
         /\ BoundaryOK(g.r, g.p)
         /\ Expected(g.r, g.p) \in {"OK", "PANIC", "EITHER", "UNSPEC"}
         /\ Emit => PrintT(ToJson(Case(g)))
=============================================================================
