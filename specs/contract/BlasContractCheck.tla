-------------------------- MODULE BlasContractCheck --------------------------
(* R1 for property C07 (BLAS part): theorems of the decision table of          *)
(* BlasContract.tla, checked by TLC on every legal shape of every routine      *)
(* family within the bound (all legal flag combinations, dimensions in Dims,   *)
(* band widths in Bands, strides min + LdExtra, increments in Incs).           *)
(*   NeedThm     the closed-form extent Need covers every addressed slot and   *)
(*               equals 1 + the largest addressed slot for tight operands      *)
(*   ZeroThm     a zero-sized problem addresses nothing it could write         *)
(*   MinimalOK   slices of exactly the documented minimum length satisfy the   *)
(*               contract (and so do longer ones)                              *)
(*   ShortPanic  a slice one element shorter than the addressed extent is      *)
(*               rejected (unless the problem is zero-sized)                   *)
(*   Monotone    lengthening a slice never makes a call illegal                *)
(*   ShapeFault  breaking any single shape clause of a legal call is rejected  *)
EXTENDS BlasContract, TLC

CONSTANTS Cx, Routines, Dims, Bands, LdExtra, IncNeg, IncPos
Incs == {-v : v \in IncNeg} \cup IncPos

VARIABLE g

Ops == {"a", "b", "c", "x", "y"}
Dm(r, has, S) == IF has THEN S ELSE {0}
Shapes(r) ==
    [r : {r}, tA : Dm(r, HasTA(r), LegalTA(r, Cx)), tB : Dm(r, HasTB(r), {0, 1, 2}), ul : Dm(r, HasUL(r), {0, 1}),
     dg : Dm(r, HasDG(r), {0, 1}), sd : Dm(r, HasSD(r), {0, 1}), m : Dm(r, HasM(r), Dims), n : Dims,
     k : IF r = "rotm" THEN LegalRotm ELSE IF HasBand(r) THEN Bands ELSE Dm(r, HasK(r), Dims),
     kl : Dm(r, HasKLU(r), Bands), ku : Dm(r, HasKLU(r), Bands),
     ea : Dm(r, HasLd(r, "a"), LdExtra), eb : Dm(r, HasLd(r, "b"), LdExtra), ec : Dm(r, HasLd(r, "c"), LdExtra),
     incx : IF "x" \in Uses(r) THEN Incs ELSE {1}, incy : IF "y" \in Uses(r) THEN Incs ELSE {1}]

P0(c) == [tA |-> c.tA, tB |-> c.tB, ul |-> c.ul, dg |-> c.dg, sd |-> c.sd, m |-> c.m, n |-> c.n,
          k |-> c.k, kl |-> c.kl, ku |-> c.ku, lda |-> 1, ldb |-> 1, ldc |-> 1, incx |-> c.incx, incy |-> c.incy]
P(c) == LET p0 == P0(c)
            r == c.r
        IN [p0 EXCEPT !.lda = IF HasLd(r, "a") THEN MinLdOf(r, p0, "a") + c.ea ELSE 1,
                      !.ldb = IF HasLd(r, "b") THEN MinLdOf(r, p0, "b") + c.eb ELSE 1,
                      !.ldc = IF HasLd(r, "c") THEN MinLdOf(r, p0, "c") + c.ec ELSE 1]
NeedLens(r, p) == [o \in Ops |-> IF o \in Uses(r) THEN NeedOf(r, p, o) ELSE 0]
CallOf(c) == LET p == P(c) IN [r |-> c.r, cx |-> Cx, p |-> p, len |-> NeedLens(c.r, p)]

\* initial states are evaluated by one thread: start from one state per (family, chunk) and let the
\* workers expand them
NChunks == 8
Init == g \in {[r |-> "start", fam |-> f, ch |-> ch] : f \in Routines, ch \in 0 .. NChunks - 1}
Next == g.r = "start" /\ g' \in {c \in Shapes(g.fam) : (c.n + 2 * c.m + 3 * c.incx + 5 * c.incy + c.ea + 40) % NChunks = g.ch}
Spec == Init /\ [][Next]_g

Started == g.r # "start"
K == CallOf(g)
Need_Thm == Started => NeedThm(K)
Zero_Thm == Started => ZeroThm(K)
MinimalOK == Started =>
    /\ Expected(K) = "OK"
    /\ \A o \in Uses(K.r) : Expected([K EXCEPT !.len[o] = @ + 3]) = "OK"
ShortPanic == ~Started \/ (
    (~ZeroSized(K.r, K.p) /\ ~NegIncNoop(K.r, K.p)) =>
      \A o \in Uses(K.r) :
        AddrEnd(K.r, K.p, o) > 0 =>
          LET k2 == [K EXCEPT !.len[o] = AddrEnd(K.r, K.p, o) - 1]
          IN Expected(k2) = "PANIC" /\ Hard(k2) = {ShortName(o)})
\* a slice between the addressed and the documented extent is the only way to get "EITHER" from lengths
GapEither == ~Started \/ (
    (~ZeroSized(K.r, K.p) /\ ~NegIncNoop(K.r, K.p)) =>
      \A o \in Uses(K.r) :
        (AddrEnd(K.r, K.p, o) < NeedOf(K.r, K.p, o)) =>
          Expected([K EXCEPT !.len[o] = NeedOf(K.r, K.p, o) - 1]) = "EITHER")
ZeroAnyLen == ~Started \/ (
    (ZeroSized(K.r, K.p) /\ K.r \notin GeMV) =>
      Expected([K EXCEPT !.len = [o \in Ops |-> 0]]) = "OK")
Monotone == Started =>
    \A o \in Uses(K.r) :
      LET ls == {l \in {0, AddrEnd(K.r, K.p, o) - 1, AddrEnd(K.r, K.p, o), K.len[o] - 1, K.len[o]} : l >= 0}
      IN \A l \in ls : (Hard([K EXCEPT !.len[o] = l]) = {}) => \A l2 \in {v \in ls : v >= l} : Hard([K EXCEPT !.len[o] = l2]) = {}
\* breaking one shape clause at a time
ShapeFault == Started =>
    LET r == K.r  p == K.p
        bad(q, cl) == Expected([K EXCEPT !.p = q]) \in {"PANIC", "EITHER"} /\ cl \in Hard([K EXCEPT !.p = q])
    IN /\ bad([p EXCEPT !.n = -1], "n<0")
       /\ HasM(r) => bad([p EXCEPT !.m = -1], "m<0")
       /\ (HasK(r) \/ HasBand(r)) => bad([p EXCEPT !.k = -1], "k<0")
       /\ HasKLU(r) => (bad([p EXCEPT !.kl = -1], "kl<0") /\ bad([p EXCEPT !.ku = -1], "ku<0"))
       /\ HasTA(r) => bad([p EXCEPT !.tA = BadFlag], "tA")
       /\ HasTB(r) => bad([p EXCEPT !.tB = BadFlag], "tB")
       /\ HasUL(r) => bad([p EXCEPT !.ul = BadFlag], "ul")
       /\ HasDG(r) => bad([p EXCEPT !.dg = BadFlag], "dg")
       /\ HasSD(r) => bad([p EXCEPT !.sd = BadFlag], "sd")
       /\ HasLd(r, "a") => bad([p EXCEPT !.lda = MinLdOf(r, p, "a") - 1], "lda")
       /\ HasLd(r, "b") => bad([p EXCEPT !.ldb = MinLdOf(r, p, "b") - 1], "ldb")
       /\ HasLd(r, "c") => bad([p EXCEPT !.ldc = MinLdOf(r, p, "c") - 1], "ldc")
       /\ ("x" \in Uses(r)) => bad([p EXCEPT !.incx = 0], "incx=0")
       /\ ("y" \in Uses(r)) => bad([p EXCEPT !.incy = 0], "incy=0")
=============================================================================
