---------------------------- MODULE LapackContract ----------------------------
(* Property C07, LAPACK part: the argument contract of the LAPACK prologues    *)
(* (lapack/gonum) as a decision table, one entry per routine, written from the *)
(* routines' doc comments and the LAPACK standard they refer to:               *)
(*   flags legal; every dimension within its documented range (>= 0, and the   *)
(*   relations n <= m, k <= n, k <= nq, k >= 1 ...); ld >= max(1, columns);    *)
(*   lwork >= its documented minimum or lwork = -1 (workspace query);          *)
(*   len(work) >= max(1, lwork); and - unless the problem is zero-sized or     *)
(*   the call is a workspace query - every matrix slice at least as long as    *)
(*   its storage extent and every vector (tau, ipiv, work without lwork) at    *)
(*   least as long as documented.                                              *)
(* A call is  c = [r, p]  with  p = [f, d, ld, inc, lwork, lwk, len]:          *)
(*   f    flag codes in argument order (9 = illegal value)                     *)
(*   d    dimensions in argument order                                         *)
(*   ld   stride of every matrix operand                                       *)
(*   inc  vector increment (Dlarf)                                             *)
(*   lwork, lwk   declared workspace and how it was chosen                     *)
(*                ("none" | "q" = -1 | "lo" = min-1 | "min" | "opt" = result   *)
(*                of the routine's own workspace query)                        *)
(*   len  length of every slice operand                                        *)
(* The expected abstract outcome is "PANIC" (package panic, nothing written),  *)
(* "OK" (returns without fault; a workspace query writes only work[0]) or      *)
(* "EITHER" where the documentation leaves the choice.                         *)
(* Matrix storage is the row-major dense layout of specs/blas/BlasAddr.tla:    *)
(* the addressed extent is computed by TLC from its index maps.                *)
EXTENDS BlasAddr, TLC

BadFlag == 9
NoHi == 99999           \* "no upper bound" in a dimension range

(******************************** the routines ********************************)
LU    == {"Dgetrf", "Dgetf2", "Dgetrs", "Dgesv", "Dgetri"}
Chol  == {"Dpotrf", "Dpotf2", "Dpotrs", "Dpotri"}
QRf   == {"Dgeqrf", "Dgeqr2", "Dgelqf", "Dgelq2", "Dgerqf"}
OrgQ  == {"Dorgqr", "Dorg2r", "Dorglq", "Dorgl2", "Dorgql", "Dorg2l", "Dorgr2"}
OrmQ  == {"Dormqr", "Dorm2r", "Dormlq", "Dorml2", "Dormr2"}
\* Q with m >= n >= k (columns of reflectors: QR, QL) / n >= m >= k (rows of reflectors: LQ, RQ)
OrgCol == {"Dorgqr", "Dorg2r", "Dorgql", "Dorg2l"}
OrgRow == {"Dorglq", "Dorgl2", "Dorgr2"}
Tri   == {"Dtrtri", "Dtrti2", "Dtrtrs"}
Refl  == {"Dlarft", "Dlarfb", "Dlarf"}
\* drivers and computational routines whose slice lengths depend on job flags and on max/min of the dimensions
SqN   == {"Dsyev", "Dsytrd", "Dorgtr", "Dgeev", "Dtrcon", "Dgecon", "Dpocon", "Dlansy",
          "Dlanhs", "Dsytd2", "Dlauu2", "Dlauum"}                                          \* one n x n matrix a, dimension n
Hess  == {"Dgehrd", "Dorghr", "Dgehd2"}                                                  \* n, ilo, ihi
GeMN  == {"Dgesvd", "Dgeqp3", "Dgebrd", "Dlacpy", "Dlaset", "Dlange", "Dlantr",
          "Dlascl", "Dgeql2", "Dgerq2", "Dlapmt", "Dlapmr"}                               \* m x n matrix a, dimensions m, n
BandS == {"Dpbtrs", "Dtbtrs", "Dpbtrf", "Dlansb", "Dlantb", "Dpbtf2", "Dpbcon"}                               \* band matrix with kd off-diagonals
TriD  == {"Dgtsv", "Dptsv", "Dpttrs"}                                                     \* tridiagonal solves
\* norm-type and auxiliary routines: the work slice is needed for some norms only, increments have a sign
\* rule, an index slice must hold one entry per row / column
TriN  == {"Dlangt", "Dlanst", "Dpttrf", "Dptcon", "Dsterf"}                                         \* n, the diagonals as vectors
VecN  == {"Drscl", "Dlassq", "Dlasrt", "Dlarfg"}                                                    \* n, one vector
Aux   == TriN \cup VecN \cup {"Dlangb", "Dlaswp"}
\* routines tabulated for the workspace-query obligation (LapackQuery.tla) only: five matrix operands, a boolean
\* vector or five dimensions exceed the argument slots of the sampled grid of LapackContractGen.tla
Gsv   == {"Dggsvp3", "Dggsvd3"}                                                            \* m x n A, p x n B; U, V, Q by the jobs
Schur == {"Dhseqr", "Dlaqr04"}                                                             \* n x n Hessenberg H, block ilo .. ihi
QOnly == Gsv \cup Schur \cup {"Dtrevc3", "Dlaqr23"}
Drv   == SqN \cup Hess \cup GeMN \cup BandS \cup TriD \cup Aux \cup {"Dgels", "Dorgbr", "Dormbr", "Dormhr"} \cup QOnly
LapackRoutines == LU \cup Chol \cup QRf \cup OrgQ \cup OrmQ \cup Tri \cup Refl \cup Drv

\* flag kinds and their legal codes.  side: 0 Left 1 Right; trans: 0 NoTrans 1 Trans 2 ConjTrans
\* ("trans2": ConjTrans is illegal for the real routine); uplo: 0 Upper 1 Lower; diag: 0 NonUnit 1 Unit;
\* direct: 0 Forward 1 Backward; storev: 0 ColumnWise 1 RowWise
FlagKinds(r) ==
    CASE r \in {"Dgetrs"} -> <<"trans3">>
      [] r \in Chol -> <<"uplo">>
      [] r \in {"Dtrtri", "Dtrti2"} -> <<"uplo", "diag">>
      [] r = "Dtrtrs" -> <<"uplo", "trans3", "diag">>
      [] r \in OrmQ -> <<"side", "trans2">>
      [] r = "Dlarft" -> <<"direct", "storev">>
      [] r = "Dlarfb" -> <<"side", "trans2", "direct", "storev">>
      [] r = "Dlarf" -> <<"side">>
      [] r = "Dgels" -> <<"trans3">>
      [] r = "Dgesvd" -> <<"svdjobu", "svdjobvt">>            \* jobU, jobVT: 0 All 1 Store 2 None (Overwrite is not coded in gonum: not in the grid)
      [] r = "Dsyev" -> <<"evjob", "uplo">>                \* jobz: 0 EVNone 1 EVCompute
      [] r \in {"Dsytrd", "Dorgtr", "Dpocon", "Dpbtrs", "Dpbtrf", "Dsytd2", "Dlauu2", "Dlauum", "Dpbtf2", "Dpbcon"} -> <<"uplo">>
      [] r = "Dgeev" -> <<"levjob", "revjob">>             \* 0 None 1 Compute
      [] r = "Dtrcon" -> <<"norm2", "uplo", "diag">>       \* norm2: 0 MaxColumnSum 1 MaxRowSum
      [] r = "Dgecon" -> <<"norm2">>
      [] r \in {"Dlansy", "Dlansb"} -> <<"norm4", "uplo">>   \* norm4: 0 MaxAbs 1 MaxColumnSum 2 MaxRowSum 3 Frobenius
      [] r \in {"Dlange", "Dlanhs", "Dlangt", "Dlanst", "Dlangb"} -> <<"norm4">>
      [] r \in {"Dlantr", "Dlantb"} -> <<"norm4", "uplo", "diag">>
      [] r = "Dlascl" -> <<"mtype3">>                      \* 0 General 1 UpperTri 2 LowerTri (the band and Hessenberg types are not coded in gonum: not in the grid)
      [] r \in {"Dlapmt", "Dlapmr"} -> <<"bool">>           \* forward: both values legal
      [] r = "Dlasrt" -> <<"sort2">>                       \* 0 SortIncreasing 1 SortDecreasing
      [] r = "Dlacpy" -> <<"uplo3">>                       \* 0 Upper 1 Lower 2 All
      [] r = "Dlaset" -> <<"uploany">>                     \* any value is accepted (anything but Upper/Lower means the whole matrix)
      [] r = "Dorgbr" -> <<"genortho">>                    \* 0 GenerateQ 1 GeneratePT
      [] r = "Dormbr" -> <<"applyortho", "side", "trans2">>  \* 0 ApplyQ 1 ApplyP
      [] r = "Dormhr" -> <<"side", "trans2">>
      [] r = "Dtbtrs" -> <<"uplo", "trans3", "diag">>
      [] r \in Gsv -> <<"gsvdu", "gsvdv", "gsvdq">>          \* 0 compute (GSVDU / GSVDV / GSVDQ) 1 GSVDNone
      [] r = "Dhseqr" -> <<"schurjob", "schurcomp">>         \* 0 EigenvaluesOnly 1 EigenvaluesAndSchur; 0 SchurNone 1 SchurHess 2 SchurOrig
      [] r = "Dlaqr04" -> <<"bool", "bool">>                 \* wantt, wantz
      [] r = "Dlaqr23" -> <<"bool", "bool", "bool">>         \* wantt, wantz, recur > 0 (behaves as DLAQR3) or recur = 0 (DLAQR2)
      [] r = "Dtrevc3" -> <<"evside", "evhowmany">>          \* 0 EVRight 1 EVLeft 2 EVBoth; 0 EVAll 1 EVAllMulQ 2 EVSelected
      [] OTHER -> <<>>
LegalCodes(kind) == CASE kind \in {"trans3", "svdjobu", "svdjobvt", "uplo3", "uploany", "mtype3", "schurcomp", "evside", "evhowmany"} -> {0, 1, 2}
                      [] kind = "norm4" -> {0, 1, 2, 3}
                      [] OTHER -> {0, 1}
AllCodes(kind)   == CASE kind = "trans2" -> {0, 1, 2, BadFlag}
                      [] kind = "uploany" -> {0, 1, 2}
                      [] kind = "bool" -> {0, 1}
                      [] OTHER -> LegalCodes(kind) \cup {BadFlag}

DimNames(r) ==
    CASE r \in {"Dgetrf", "Dgetf2"} \cup QRf -> <<"m", "n">>
      [] r \in {"Dgetrs", "Dgesv", "Dpotrs", "Dtrtrs"} -> <<"n", "nrhs">>
      [] r \in {"Dgetri", "Dpotrf", "Dpotf2", "Dpotri", "Dtrtri", "Dtrti2"} -> <<"n">>
      [] r \in OrgQ \cup OrmQ \cup {"Dlarfb"} -> <<"m", "n", "k">>
      [] r = "Dlarft" -> <<"n", "k">>
      [] r = "Dlarf" -> <<"m", "n">>
      [] r = "Dgels" -> <<"m", "n", "nrhs">>
      [] r \in GeMN -> <<"m", "n">>
      [] r \in SqN -> <<"n">>
      [] r \in Hess -> <<"n", "ilo", "ihi">>
      [] r \in {"Dorgbr", "Dormbr"} -> <<"m", "n", "k">>
      [] r = "Dormhr" -> <<"m", "n", "ilo", "ihi">>
      [] r \in {"Dpbtrs", "Dtbtrs"} -> <<"n", "kd", "nrhs">>
      [] r \in {"Dpbtrf", "Dlansb", "Dlantb", "Dpbtf2", "Dpbcon"} -> <<"n", "kd">>
      [] r \in TriD -> <<"n", "nrhs">>
      [] r \in TriN \cup VecN -> <<"n">>
      [] r = "Dlangb" -> <<"m", "n", "kl", "ku">>
      [] r = "Dlaswp" -> <<"n", "k1", "k2">>
      [] r = "Dggsvp3" -> <<"m", "p", "n">>
      [] r = "Dggsvd3" -> <<"m", "n", "p">>
      [] r = "Dhseqr" -> <<"n", "ilo", "ihi">>
      [] r = "Dlaqr04" -> <<"n", "ilo", "ihi", "iloz", "ihiz">>
      [] r = "Dtrevc3" -> <<"n", "mm">>                      \* mm: columns of VL / VR
      \* aggressive early deflation: block ktop .. kbot of the n x n H, window nw, T is nw x nh, WV is nv x nw
      [] r = "Dlaqr23" -> <<"n", "ktop", "kbot", "nw", "iloz", "ihiz", "nh", "nv">>

\* flag lookups by kind (0 when the routine has no such flag)
FlagOf(r, p, kind) ==
    LET ks == FlagKinds(r)
        is == {i \in 1 .. Len(ks) : ks[i] = kind \/ (kind = "trans" /\ ks[i] \in {"trans2", "trans3"})}
    IN IF is = {} THEN 0 ELSE p.f[CHOOSE i \in is : TRUE]
IsLeft(r, p)  == FlagOf(r, p, "side") = 0
IsColW(r, p)  == FlagOf(r, p, "storev") = 0
Dim(r, p, nm) == LET ns == DimNames(r) IN p.d[CHOOSE i \in 1 .. Len(ns) : ns[i] = nm]
Mn(r, p) == Min(Dim(r, p, "m"), Dim(r, p, "n"))
Nq(r, p) == IF IsLeft(r, p) THEN Dim(r, p, "m") ELSE Dim(r, p, "n")    \* order of Q
Nw(r, p) == IF IsLeft(r, p) THEN Dim(r, p, "n") ELSE Dim(r, p, "m")    \* workspace rows

\* documented range of dimension i given the flags and the other dimensions: <<lo, hi>> (hi = NoHi: none)
DimRange(r, p, i) ==
    LET nm == DimNames(r)[i] IN
    CASE r \in OrgCol /\ nm = "n" -> <<0, Dim(r, p, "m")>>        \* n <= m
      [] r \in OrgCol /\ nm = "k" -> <<0, Dim(r, p, "n")>>        \* k <= n
      [] r \in OrgRow /\ nm = "n" -> <<Max(0, Dim(r, p, "m")), NoHi>>   \* n >= m
      [] r \in OrgRow /\ nm = "k" -> <<0, Dim(r, p, "m")>>        \* k <= m
      [] r \in OrmQ /\ nm = "k" -> <<0, Nq(r, p)>>                               \* k <= order of Q
      [] r = "Dlarft" /\ nm = "k" -> <<1, IF Dim(r, p, "n") <= 0 THEN NoHi ELSE Dim(r, p, "n")>>   \* 1 <= k (<= n)
      [] r = "Dlarfb" /\ nm = "k" -> <<0, Nq(r, p)>>                             \* k <= order of H
      \* Hessenberg reduction: 0 <= ilo <= max(0, n-1), min(ilo, n-1) <= ihi <= n-1 (n = 0: ilo = 0, ihi = -1)
      [] r \in {"Dgehrd", "Dgehd2"} /\ nm = "ilo" -> <<0, Max(0, Dim(r, p, "n") - 1)>>
      [] r = "Dorghr" /\ nm = "ilo" -> <<0, Max(1, Dim(r, p, "n")) - 1>>
      [] r \in Hess /\ nm = "ihi" -> <<Min(Dim(r, p, "ilo"), Dim(r, p, "n") - 1), Dim(r, p, "n") - 1>>
      [] r = "Dormhr" /\ nm = "ilo" -> <<0, Max(1, Nq(r, p)) - 1>>
      [] r = "Dormhr" /\ nm = "ihi" -> <<Min(Dim(r, p, "ilo"), Nq(r, p) - 1), Nq(r, p) - 1>>
      \* Dorgbr: Q is m x n with n <= m and n >= min(m,k); P^T is m x n with m <= n and m >= min(n,k)
      [] r = "Dorgbr" /\ nm = "n" -> IF p.f[1] = 0 THEN <<0, Dim(r, p, "m")>> ELSE <<Max(0, Dim(r, p, "m")), NoHi>>
      [] r = "Dorgbr" /\ nm = "k" -> IF Dim(r, p, "m") = Dim(r, p, "n") THEN <<0, NoHi>>
                                     ELSE <<0, Min(Dim(r, p, "m"), Dim(r, p, "n"))>>
      \* Dlaswp: rows k1 .. k2 of a matrix with at least k2+1 rows, 0 <= k1 <= k2
      [] r = "Dlaswp" /\ nm = "k2" -> <<Max(0, Dim(r, p, "k1")), NoHi>>
      \* Schur routines: 0 <= ilo <= ihi < n (n = 0: ilo = 0, ihi = -1); Dlaqr04 with wantz: 0 <= iloz <= ilo, ihi <= ihiz < n
      [] r \in Schur /\ nm = "ilo" -> <<0, Max(0, Dim(r, p, "n") - 1)>>
      [] r \in Schur /\ nm = "ihi" -> <<Min(Dim(r, p, "ilo"), Dim(r, p, "n") - 1), Dim(r, p, "n") - 1>>
      [] r = "Dlaqr04" /\ nm = "iloz" -> IF p.f[2] = 1 THEN <<0, Dim(r, p, "ilo")>> ELSE <<0 - NoHi, NoHi>>
      [] r = "Dlaqr04" /\ nm = "ihiz" -> IF p.f[2] = 1 THEN <<Dim(r, p, "ihi"), Dim(r, p, "n") - 1>> ELSE <<0 - NoHi, NoHi>>
      \* Dlaqr23: 0 <= ktop <= kbot < n, 0 <= nw <= kbot-ktop+1, with wantz 0 <= iloz <= ktop and kbot <= ihiz < n, nh >= nw
      [] r = "Dlaqr23" /\ nm = "ktop" -> <<0, Max(0, Dim(r, p, "n") - 1)>>
      [] r = "Dlaqr23" /\ nm = "kbot" -> <<Min(Dim(r, p, "ktop"), Dim(r, p, "n") - 1), Dim(r, p, "n") - 1>>
      [] r = "Dlaqr23" /\ nm = "nw" -> <<0, Dim(r, p, "kbot") - Dim(r, p, "ktop") + 1>>
      [] r = "Dlaqr23" /\ nm = "iloz" -> IF p.f[2] = 1 THEN <<0, Dim(r, p, "ktop")>> ELSE <<0 - NoHi, NoHi>>
      [] r = "Dlaqr23" /\ nm = "ihiz" -> IF p.f[2] = 1 THEN <<Dim(r, p, "kbot"), Dim(r, p, "n") - 1>> ELSE <<0 - NoHi, NoHi>>
      [] r = "Dlaqr23" /\ nm = "nh" -> <<Dim(r, p, "nw"), NoHi>>
      \* Dtrevc3: mm columns must hold the computed vectors (all n of them unless fewer are selected)
      [] r = "Dtrevc3" /\ nm = "mm" -> <<0, NoHi>>
      [] OTHER -> <<0, NoHi>>

(********************************* operands **********************************)
Mats(r) ==
    CASE r \in {"Dgetrf", "Dgetf2", "Dgetri", "Dpotrf", "Dpotf2", "Dpotri", "Dtrtri", "Dtrti2"} \cup QRf \cup OrgQ -> <<"a">>
      [] r \in {"Dgetrs", "Dgesv", "Dpotrs", "Dtrtrs"} -> <<"a", "b">>
      [] r \in OrmQ -> <<"a", "c">>
      [] r = "Dlarft" -> <<"v", "t">>
      [] r = "Dlarfb" -> <<"v", "t", "c", "w">>      \* w: the work matrix with stride ldwork
      [] r = "Dlarf" -> <<"c">>
      [] r \in {"Dgels", "Dlacpy", "Dpbtrs", "Dtbtrs"} -> <<"a", "b">>
      [] r = "Dgesvd" -> <<"a", "u", "vt">>
      [] r = "Dgeev" -> <<"a", "vl", "vr">>
      [] r \in (SqN \ {"Dgeev"}) \cup Hess \cup (GeMN \ {"Dgesvd", "Dlacpy"})
               \cup {"Dorgbr", "Dpbtrf", "Dlansb", "Dlantb", "Dlangb", "Dlaswp", "Dpbtf2", "Dpbcon"} -> <<"a">>
      [] r \in {"Dormbr", "Dormhr"} -> <<"a", "c">>
      [] r \in TriD -> <<"b">>
      [] r \in Gsv -> <<"a", "b", "u", "v", "q">>
      [] r \in Schur -> <<"h", "z">>
      [] r = "Dtrevc3" -> <<"t", "vl", "vr">>
      [] r = "Dlaqr23" -> <<"h", "z", "v", "t", "wv">>
      [] OTHER -> <<>>
\* <<rows, columns>> of a matrix operand (<<0, 0>>: not referenced for these job flags; a band matrix with kd
\* off-diagonals is stored as n rows of kd+1 elements)
MatDims(r, p, o) ==
    CASE r \in {"Dgetrf", "Dgetf2"} \cup QRf \cup OrgQ -> <<Dim(r, p, "m"), Dim(r, p, "n")>>
      [] r \in {"Dgetri", "Dpotrf", "Dpotf2", "Dpotri", "Dtrtri", "Dtrti2"} -> <<Dim(r, p, "n"), Dim(r, p, "n")>>
      [] r \in {"Dgetrs", "Dgesv", "Dpotrs", "Dtrtrs"} ->
           IF o = "a" THEN <<Dim(r, p, "n"), Dim(r, p, "n")>> ELSE <<Dim(r, p, "n"), Dim(r, p, "nrhs")>>
      [] r \in {"Dormqr", "Dorm2r"} ->
           IF o = "a" THEN <<Nq(r, p), Dim(r, p, "k")>> ELSE <<Dim(r, p, "m"), Dim(r, p, "n")>>
      [] r \in {"Dormlq", "Dorml2", "Dormr2"} ->
           IF o = "a" THEN <<Dim(r, p, "k"), Nq(r, p)>> ELSE <<Dim(r, p, "m"), Dim(r, p, "n")>>
      [] r = "Dlarft" ->
           IF o = "t" THEN <<Dim(r, p, "k"), Dim(r, p, "k")>>
           ELSE IF IsColW(r, p) THEN <<Dim(r, p, "n"), Dim(r, p, "k")>> ELSE <<Dim(r, p, "k"), Dim(r, p, "n")>>
      [] r = "Dlarfb" ->
           (CASE o = "t" -> <<Dim(r, p, "k"), Dim(r, p, "k")>>
              [] o = "c" -> <<Dim(r, p, "m"), Dim(r, p, "n")>>
              [] o = "w" -> <<Nw(r, p), Dim(r, p, "k")>>
              [] o = "v" -> IF IsColW(r, p) THEN <<Nq(r, p), Dim(r, p, "k")>> ELSE <<Dim(r, p, "k"), Nq(r, p)>>)
      [] r = "Dlarf" -> <<Dim(r, p, "m"), Dim(r, p, "n")>>
      \* Dgels: b holds the right-hand sides (m or n rows) on entry and the solutions (n or m rows) on return:
      \* max(m,n) rows for both values of trans
      [] r = "Dgels" -> IF o = "a" THEN <<Dim(r, p, "m"), Dim(r, p, "n")>>
                        ELSE <<Max(Dim(r, p, "m"), Dim(r, p, "n")), Dim(r, p, "nrhs")>>
      [] r = "Dgesvd" ->
           (CASE o = "a" -> <<Dim(r, p, "m"), Dim(r, p, "n")>>
              [] o = "u" -> IF p.f[1] = 0 THEN <<Dim(r, p, "m"), Dim(r, p, "m")>>
                            ELSE IF p.f[1] = 1 THEN <<Dim(r, p, "m"), Mn(r, p)>> ELSE <<0, 0>>
              [] o = "vt" -> IF p.f[2] = 0 THEN <<Dim(r, p, "n"), Dim(r, p, "n")>>
                             ELSE IF p.f[2] = 1 THEN <<Mn(r, p), Dim(r, p, "n")>> ELSE <<0, 0>>)
      [] r = "Dgeev" ->
           (CASE o = "a" -> <<Dim(r, p, "n"), Dim(r, p, "n")>>
              [] o = "vl" -> IF p.f[1] = 1 THEN <<Dim(r, p, "n"), Dim(r, p, "n")>> ELSE <<0, 0>>
              [] o = "vr" -> IF p.f[2] = 1 THEN <<Dim(r, p, "n"), Dim(r, p, "n")>> ELSE <<0, 0>>)
      [] r \in (SqN \ {"Dgeev"}) \cup Hess -> <<Dim(r, p, "n"), Dim(r, p, "n")>>
      [] r \in (GeMN \ {"Dgesvd"}) \cup {"Dorgbr"} -> <<Dim(r, p, "m"), Dim(r, p, "n")>>
      [] r = "Dormbr" ->
           IF o = "c" THEN <<Dim(r, p, "m"), Dim(r, p, "n")>>
           ELSE IF p.f[1] = 0 THEN <<Nq(r, p), Min(Nq(r, p), Dim(r, p, "k"))>>
           ELSE <<Min(Nq(r, p), Dim(r, p, "k")), Nq(r, p)>>
      [] r = "Dormhr" -> IF o = "c" THEN <<Dim(r, p, "m"), Dim(r, p, "n")>> ELSE <<Nq(r, p), Nq(r, p)>>
      [] r \in BandS -> IF o = "a" THEN <<Dim(r, p, "n"), Dim(r, p, "kd") + 1>> ELSE <<Dim(r, p, "n"), Dim(r, p, "nrhs")>>
      [] r \in TriD -> <<Dim(r, p, "n"), Dim(r, p, "nrhs")>>
      \* general band matrix: min(m, n+kl) stored rows of kl+ku+1 elements
      [] r = "Dlangb" -> <<Min(Dim(r, p, "m"), Dim(r, p, "n") + Dim(r, p, "kl")), Dim(r, p, "kl") + Dim(r, p, "ku") + 1>>
      [] r = "Dlaswp" -> <<Dim(r, p, "k2") + 1, Dim(r, p, "n")>>
      \* generalized SVD: "U, V and Q must be m x m, p x p and n x n respectively unless the relevant job parameter is GSVDNone"
      [] r \in Gsv ->
           (CASE o = "a" -> <<Dim(r, p, "m"), Dim(r, p, "n")>>
              [] o = "b" -> <<Dim(r, p, "p"), Dim(r, p, "n")>>
              [] o = "u" -> IF p.f[1] = 0 THEN <<Dim(r, p, "m"), Dim(r, p, "m")>> ELSE <<0, 0>>
              [] o = "v" -> IF p.f[2] = 0 THEN <<Dim(r, p, "p"), Dim(r, p, "p")>> ELSE <<0, 0>>
              [] o = "q" -> IF p.f[3] = 0 THEN <<Dim(r, p, "n"), Dim(r, p, "n")>> ELSE <<0, 0>>)
      \* Schur routines: Z is referenced unless compz = SchurNone / wantz = false
      [] r \in Schur -> IF o = "h" \/ p.f[2] # 0 THEN <<Dim(r, p, "n"), Dim(r, p, "n")>> ELSE <<0, 0>>
      \* Dlaqr23: "v and ldv represent an nw x nw work matrix, t and ldt an nw x nh work matrix, wv and ldwv an nv x nw work matrix"
      [] r = "Dlaqr23" ->
           (CASE o = "h" -> <<Dim(r, p, "n"), Dim(r, p, "n")>>
              [] o = "z" -> IF p.f[2] = 1 THEN <<Dim(r, p, "n"), Dim(r, p, "n")>> ELSE <<0, 0>>
              [] o = "v" -> <<Dim(r, p, "nw"), Dim(r, p, "nw")>>
              [] o = "t" -> <<Dim(r, p, "nw"), Dim(r, p, "nh")>>
              [] o = "wv" -> <<Dim(r, p, "nv"), Dim(r, p, "nw")>>)
      \* Dtrevc3: "VL and VR are n x mm matrices", VL not referenced for EVRight, VR not for EVLeft
      [] r = "Dtrevc3" ->
           (CASE o = "t" -> <<Dim(r, p, "n"), Dim(r, p, "n")>>
              [] o = "vl" -> IF p.f[1] \in {1, 2} THEN <<Dim(r, p, "n"), Dim(r, p, "mm")>> ELSE <<0, 0>>
              [] o = "vr" -> IF p.f[1] \in {0, 2} THEN <<Dim(r, p, "n"), Dim(r, p, "mm")>> ELSE <<0, 0>>)
MatDesc(r, p, o) == LET rc == MatDims(r, p, o) IN Desc("ge", rc[1], rc[2], p.ld[o], 0, 0, 0, 0)

\* float vectors (other than a workspace governed by lwork) and their documented minimum length
Vecs(r) ==
    CASE r \in {"Dgeqrf", "Dgelqf", "Dorgqr", "Dorglq", "Dormqr", "Dormlq", "Dgerqf", "Dorgql"} -> <<"tau">>
      [] r \in {"Dgeqr2", "Dgelq2", "Dorg2r", "Dorgl2", "Dorm2r", "Dorml2", "Dorg2l", "Dorgr2", "Dormr2"} -> <<"tau", "work">>
      [] r = "Dlarft" -> <<"tau">>
      [] r = "Dlarf" -> <<"x", "work">>             \* x: the reflector vector v with increment incv
      [] r = "Dgesvd" -> <<"s">>
      [] r = "Dsyev" -> <<"w">>
      [] r = "Dsytrd" -> <<"d", "e", "tau">>
      [] r \in {"Dorgtr", "Dgehrd", "Dorghr", "Dgeqp3", "Dorgbr", "Dormbr", "Dormhr"} -> <<"tau">>
      [] r = "Dgeev" -> <<"wr", "wi">>
      [] r = "Dgebrd" -> <<"d", "e", "tauq", "taup">>
      [] r \in {"Dlange", "Dlansy", "Dlantr", "Dtrcon", "Dgecon", "Dpocon", "Dlansb", "Dlantb", "Dlanhs", "Dpbcon"} -> <<"work">>
      [] r \in {"Dgtsv", "Dlangt"} -> <<"dl", "d", "du">>
      [] r \in {"Dptsv", "Dlanst", "Dpttrf", "Dpttrs", "Dsterf"} -> <<"d", "e">>
      [] r = "Dptcon" -> <<"d", "e", "work">>
      [] r \in {"Dgeql2", "Dgerq2", "Dgehd2"} -> <<"tau", "work">>
      [] r = "Dsytd2" -> <<"d", "e", "tau">>
      [] r \in {"Drscl", "Dlassq", "Dlarfg"} -> <<"x">>
      [] r = "Dlasrt" -> <<"d">>
      [] r = "Dggsvp3" -> <<"tau">>
      [] r = "Dggsvd3" -> <<"alpha", "beta">>
      [] r \in Schur -> <<"wr", "wi">>
      [] r = "Dlaqr23" -> <<"sr", "si">>
      [] OTHER -> <<>>
\* documented minimum lengths of the routines in Drv (job flags and min/max of the dimensions matter)
VecMinDrv(r, p, o) ==
    LET n == Dim(r, p, "n") IN
    CASE r = "Dgesvd" -> Mn(r, p)
      [] r = "Dsyev" -> n
      [] r = "Dsytrd" -> IF o = "d" THEN n ELSE n - 1
      [] r \in {"Dorgtr", "Dgehrd", "Dorghr"} -> n - 1
      [] r = "Dgeev" -> n
      [] r = "Dgeqp3" -> Mn(r, p)
      [] r = "Dgebrd" -> IF o = "e" THEN Mn(r, p) - 1 ELSE Mn(r, p)
      [] r = "Dorgbr" -> IF p.f[1] = 0 THEN Min(Dim(r, p, "m"), Dim(r, p, "k")) ELSE Min(n, Dim(r, p, "k"))
      [] r = "Dormbr" -> Min(Nq(r, p), Dim(r, p, "k"))
      [] r = "Dormhr" -> Nq(r, p) - 1
      \* the norm routines: "work must have length at least n when norm is MaxColumnSum (symmetric matrices: or
      \* MaxRowSum), otherwise it is not referenced"
      [] r \in {"Dlange", "Dlantr", "Dlantb", "Dlanhs"} -> IF p.f[1] = 1 THEN n ELSE 0
      [] r \in {"Dlansy", "Dlansb"} -> IF p.f[1] \in {1, 2} THEN n ELSE 0
      [] r \in {"Dlangt", "Dlanst", "Dpttrf", "Dpttrs", "Dsterf"} -> IF o = "d" THEN n ELSE n - 1
      [] r = "Dptcon" -> IF o = "e" THEN n - 1 ELSE n
      [] r = "Dgeql2" -> IF o = "tau" THEN Mn(r, p) ELSE n
      [] r = "Dgerq2" -> IF o = "tau" THEN Mn(r, p) ELSE Dim(r, p, "m")
      [] r = "Dgehd2" -> IF o = "tau" THEN n - 1 ELSE n
      [] r = "Dsytd2" -> IF o = "d" THEN n ELSE n - 1
      [] r \in {"Drscl", "Dlassq"} -> VecNeed(n, p.inc)
      [] r = "Dlarfg" -> VecNeed(n - 1, p.inc)              \* the reflector of order n: alpha and the n-1 elements of x
      [] r = "Dlasrt" -> n
      [] r \in {"Dtrcon", "Dpocon", "Dpbcon"} -> 3 * n
      [] r = "Dgecon" -> 4 * n
      [] r = "Dgtsv" -> IF o = "d" THEN n ELSE n - 1
      [] r = "Dptsv" -> IF o = "d" THEN n ELSE n - 1
      [] r \in Gsv -> n                                      \* tau; "alpha and beta must have length n"
      [] r = "Dhseqr" -> n                                   \* "wr and wi must have length n"
      [] r = "Dlaqr04" -> Dim(r, p, "ihi") + 1               \* "wr and wi must have length ihi+1"
      [] r = "Dlaqr23" -> Dim(r, p, "kbot") + 1              \* "sr and si must have length kbot+1"
VecMin(r, p, o) ==
    CASE r \in Drv -> VecMinDrv(r, p, o)
      [] o = "tau" -> IF r \in QRf THEN Mn(r, p) ELSE Dim(r, p, "k")
      [] o = "work" ->
           (CASE r \in {"Dgeqr2", "Dorg2r", "Dorg2l"} -> Dim(r, p, "n")
              [] r \in {"Dgelq2", "Dorgl2", "Dorgr2"} -> Dim(r, p, "m")
              [] r \in {"Dorm2r", "Dorml2", "Dlarf", "Dormr2"} -> Nw(r, p))
      [] o = "x" -> VecNeed(Nq(r, p), p.inc)
IVecs(r) == IF r \in LU \cup {"Dlaswp"} THEN <<"ipiv">> ELSE IF r = "Dgeqp3" THEN <<"jpvt">>
            ELSE IF r \in {"Dtrcon", "Dgecon", "Dpocon", "Dpbcon"} \cup Gsv THEN <<"iwork">>
            ELSE IF r \in {"Dlapmt", "Dlapmr"} THEN <<"k">> ELSE <<>>
IVecMin(r, p, o) == IF r \in {"Dgetrf", "Dgetf2"} THEN Mn(r, p)
                    ELSE IF r = "Dlaswp" THEN Dim(r, p, "k2") + 1      \* one entry per row 0 .. k2
                    ELSE IF r = "Dlapmr" THEN Dim(r, p, "m")           \* a permutation of the rows
                    ELSE Dim(r, p, "n")
\* vectors whose length the documentation fixes exactly
ExactNames == {"tau", "wr", "wi", "alpha", "beta", "sr", "si"}
\* boolean vectors (Dtrevc3: "selected must have length n if howmny == EVSelected, and it is not referenced otherwise")
BVecs(r) == IF r = "Dtrevc3" THEN <<"selected">> ELSE <<>>
BVecMin(r, p, o) == IF p.f[2] = 2 THEN Dim(r, p, "n") ELSE 0
\* vectors whose length the documentation fixes exactly ("must have length k"): a longer slice is
\* rejected by some routines and accepted by others - both are legal
HasInc(r) == r \in {"Dlarf", "Dlaswp", "Drscl", "Dlassq", "Dlarfg"}
\* legal increments: Dlarf any but 0; Dlaswp "incX is 1 or -1, for other values Dlaswp will panic"; Drscl and
\* Dlassq, Dlarfg positive (the reference routines return silently for incx <= 0; gonum documents a panic)
IncLegal(r) == IF r = "Dlaswp" THEN {0 - 1, 1} ELSE IF r \in {"Drscl", "Dlassq", "Dlarfg"} THEN {1, 2} ELSE {0 - 2, 0 - 1, 1, 2}
IncName(r) == IF r = "Dlarf" THEN "inc=0" ELSE "inc"

HasLwork(r) == r \in {"Dgetri", "Dgeqrf", "Dgelqf", "Dorgqr", "Dorglq", "Dormqr", "Dormlq", "Dgerqf", "Dorgql",
                      "Dgels", "Dgesvd", "Dsyev", "Dsytrd", "Dorgtr", "Dgehrd", "Dorghr", "Dgeev", "Dgeqp3", "Dgebrd",
                      "Dorgbr", "Dormbr", "Dormhr"} \cup QOnly
MinLwork(r, p) ==
    CASE r = "Dgetri" -> Max(1, Dim(r, p, "n"))
      [] r \in {"Dgeqrf", "Dorgqr", "Dorgql"} -> Max(1, Dim(r, p, "n"))
      [] r \in {"Dgelqf", "Dorglq", "Dgerqf"} -> Max(1, Dim(r, p, "m"))
      [] r \in {"Dormqr", "Dormlq", "Dormbr", "Dormhr"} -> Max(1, Nw(r, p))
      [] r = "Dgels" -> Max(1, Mn(r, p) + Max(Mn(r, p), Dim(r, p, "nrhs")))
      [] r = "Dgesvd" -> IF Mn(r, p) <= 0 THEN 1
                         ELSE Max(3 * Mn(r, p) + Max(Dim(r, p, "m"), Dim(r, p, "n")), 5 * Mn(r, p))
      [] r = "Dsyev" -> Max(1, 3 * Dim(r, p, "n") - 1)
      [] r = "Dsytrd" -> 1
      [] r = "Dorgtr" -> Max(1, Dim(r, p, "n") - 1)
      [] r = "Dgehrd" -> Max(1, Dim(r, p, "n"))
      [] r = "Dorghr" -> Max(1, Dim(r, p, "ihi") - Dim(r, p, "ilo"))
      [] r = "Dgeev" -> Max(1, (IF p.f[1] = 1 \/ p.f[2] = 1 THEN 4 ELSE 3) * Dim(r, p, "n"))
      [] r = "Dgeqp3" -> IF Mn(r, p) <= 0 THEN 1 ELSE 3 * Dim(r, p, "n") + 1
      [] r = "Dgebrd" -> Max(1, Max(Dim(r, p, "m"), Dim(r, p, "n")))
      [] r = "Dorgbr" -> Max(1, Mn(r, p))
      [] r = "Dggsvp3" -> 1                                  \* "lwork must be -1 or greater than zero"
      [] r = "Dggsvd3" -> Dim(r, p, "n") + 1                 \* "lwork must be -1 or greater than n"
      [] r = "Dhseqr" -> Max(1, Dim(r, p, "n"))
      [] r = "Dlaqr04" -> IF Dim(r, p, "n") <= 11 THEN 1 ELSE Dim(r, p, "n")
      [] r = "Dtrevc3" -> Max(1, 3 * Dim(r, p, "n"))
      [] r = "Dlaqr23" -> Max(1, 2 * Dim(r, p, "nw"))

\* documented quick returns: nothing is addressed
ZeroL(r, p) ==
    CASE r \in {"Dgetrf", "Dgetf2"} \cup QRf -> Mn(r, p) = 0
      [] r \in {"Dgetrs", "Dpotrs"} -> Dim(r, p, "n") = 0 \/ Dim(r, p, "nrhs") = 0
      [] r \in {"Dgesv", "Dgetri", "Dpotrf", "Dpotf2", "Dpotri", "Dtrtri", "Dtrti2", "Dtrtrs", "Dlarft"} -> Dim(r, p, "n") = 0
      [] r \in OrgCol -> Dim(r, p, "n") = 0
      [] r \in OrgRow -> Dim(r, p, "m") = 0
      [] r \in OrmQ -> Dim(r, p, "m") = 0 \/ Dim(r, p, "n") = 0 \/ Dim(r, p, "k") = 0
      [] r \in {"Dlarfb", "Dlarf"} -> Dim(r, p, "m") = 0 \/ Dim(r, p, "n") = 0
      [] r = "Dgels" -> Mn(r, p) = 0 \/ Dim(r, p, "nrhs") = 0
      [] r \in {"Dgesvd", "Dgeqp3", "Dgebrd", "Dlaset", "Dlantr", "Dgeql2", "Dgerq2"} -> Mn(r, p) = 0
      [] r \in {"Dlacpy", "Dlange", "Dorgbr", "Dormbr", "Dlascl", "Dlangb", "Dlapmt", "Dlapmr"} -> Dim(r, p, "m") = 0 \/ Dim(r, p, "n") = 0
      [] r = "Dormhr" -> Dim(r, p, "m") = 0 \/ Dim(r, p, "n") = 0 \/ Dim(r, p, "ihi") = Dim(r, p, "ilo")
      [] r = "Dlarfg" -> Dim(r, p, "n") \in {0, 1}          \* nothing to annihilate
      [] r \in SqN \cup Hess \cup TriN \cup (VecN \ {"Dlarfg"}) \cup {"Dpbtrf", "Dtbtrs", "Dptsv", "Dlansb", "Dlantb", "Dlaswp", "Dpbtf2", "Dpbcon"} -> Dim(r, p, "n") = 0
      [] r \in {"Dpbtrs", "Dgtsv", "Dpttrs"} -> Dim(r, p, "n") = 0 \/ Dim(r, p, "nrhs") = 0
      [] r \in Gsv -> FALSE                                  \* no documented quick return
      [] r \in Schur \cup {"Dtrevc3"} -> Dim(r, p, "n") = 0
      [] r = "Dlaqr23" -> Dim(r, p, "n") = 0 \/ Dim(r, p, "nw") = 0
IsQuery(r, p) == HasLwork(r) /\ p.lwork = -1

(********************************** clauses **********************************)
SeqToSet(s) == {s[i] : i \in 1 .. Len(s)}
FlagClauses(r, p) ==
    {FlagKinds(r)[i] : i \in {j \in 1 .. Len(FlagKinds(r)) : p.f[j] \notin
        (IF FlagKinds(r)[j] = "trans2" THEN {0, 1} ELSE LegalCodes(FlagKinds(r)[j]))}}
DimLoClauses(r, p) == {DimNames(r)[i] \o "<lo" : i \in {j \in 1 .. Len(DimNames(r)) : p.d[j] < DimRange(r, p, j)[1]}}
\* Dlarft/Dlarfb (internal routines): the doc comments draw V with k <= n columns but neither they nor the
\* prologues state the relation - tuples with more reflectors than the order of H carry no expectation
UnspecHi(r) == r \in {"Dlarft", "Dlarfb"}
DimHiClauses(r, p) == IF UnspecHi(r) THEN {}
                      ELSE {DimNames(r)[i] \o ">hi" : i \in {j \in 1 .. Len(DimNames(r)) : p.d[j] > DimRange(r, p, j)[2]}}
Unspec(r, p) == UnspecHi(r) /\ \E j \in 1 .. Len(DimNames(r)) : p.d[j] > DimRange(r, p, j)[2]
DimsOK(r, p) == DimLoClauses(r, p) = {} /\ DimHiClauses(r, p) = {}
LdClauses(r, p) == {"ld" \o o : o \in {oo \in SeqToSet(Mats(r)) : p.ld[oo] < Max(1, MatDims(r, p, oo)[2])}}
IncClauses(r, p) == {c \in {IncName(r)} : HasInc(r) /\ p.inc \notin IncLegal(r)}
LworkClauses(r, p) ==
    IF ~HasLwork(r) THEN {}
    ELSE {c \in {"lwork"} : p.lwork # -1 /\ (p.lwk = "lo" \/ (p.lwk # "opt" /\ p.lwork < MinLwork(r, p)))}
         \cup {c \in {"len(work)"} : p.len["work"] < (IF p.lwk = "opt" THEN p.lwork ELSE Max(1, p.lwork))}
ShapeOK(r, p) ==
    /\ FlagClauses(r, p) = {} /\ DimsOK(r, p) /\ LdClauses(r, p) = {} /\ IncClauses(r, p) = {}
\* one past the last addressed slot of a matrix operand
AddrEndMat(d) == IF Cells(d) = {} THEN 0 ELSE 1 + (CHOOSE v \in SlotSet(d) : \A w \in SlotSet(d) : w <= v)
LenApplies(r, p) == ShapeOK(r, p) /\ ~ZeroL(r, p) /\ ~IsQuery(r, p)
ShortClauses(r, p) ==
    IF ~LenApplies(r, p) THEN {}
    ELSE {"len(" \o o \o ")" : o \in {oo \in SeqToSet(Mats(r)) : p.len[oo] < AddrEndMat(MatDesc(r, p, oo))}}
         \cup {"len(" \o o \o ")" : o \in {oo \in SeqToSet(Vecs(r)) : p.len[oo] < VecMin(r, p, oo)}}
         \cup {"len(" \o o \o ")" : o \in {oo \in SeqToSet(IVecs(r)) : p.len[oo] < IVecMin(r, p, oo)}}

Hard(r, p) == FlagClauses(r, p) \cup DimLoClauses(r, p) \cup DimHiClauses(r, p) \cup LdClauses(r, p)
              \cup IncClauses(r, p) \cup LworkClauses(r, p) \cup ShortClauses(r, p)

\* the storage extent the documentation gives for a matrix operand.  Dlangb: the documentation does not say whether the
\* last stored band row must be complete (gonum asks for min(m, n+kl) full rows of ldab elements)
DocNeed(r, p, o) == IF r = "Dlangb" THEN Max(0, MatDims(r, p, o)[1]) * p.ld[o] ELSE Need(MatDesc(r, p, o))
\* routines documented as "x must have length N, otherwise the routine will panic": the length test may precede the
\* quick return of a zero-sized problem (Dlaswp) or follow it (Dlapmt, Dlapmr, Dgehd2) - a longer slice is open there too
LenFirst == {"Dlaswp", "Dlapmt", "Dlapmr", "Dgehd2"}
\* open points of the documentation: both outcomes are legal
\*  - a matrix slice covering the addressed extent but not the full storage extent (a matrix without columns)
\*  - tau / ipiv longer than the documented length (some routines say "exactly", some "at least")
\*  - slice lengths of a zero-sized problem or of a workspace query
\*  - strides and the vector increment of a workspace query
Soft(r, p) ==
    LET shapeButLd == FlagClauses(r, p) = {} /\ DimsOK(r, p)
        lenOf(o) == p.len[o]
        shortAny == {"len(" \o o \o ")" : o \in
                       {oo \in SeqToSet(Mats(r)) : lenOf(oo) < DocNeed(r, p, oo)}
                       \cup {oo \in SeqToSet(Vecs(r)) : lenOf(oo) < VecMin(r, p, oo)}
                       \cup {oo \in SeqToSet(IVecs(r)) : lenOf(oo) < IVecMin(r, p, oo)}}
        longExact == {"len(" \o o \o ")>" : o \in
                       {oo \in SeqToSet(Vecs(r)) \cap ExactNames : lenOf(oo) > VecMin(r, p, oo)}
                       \cup {oo \in SeqToSet(IVecs(r)) : lenOf(oo) > IVecMin(r, p, oo)}}
    IN IF ~shapeButLd THEN {}
       ELSE (IF ShapeOK(r, p) THEN (shortAny \ ShortClauses(r, p))
                                   \cup (IF (ZeroL(r, p) \/ IsQuery(r, p)) /\ r \notin LenFirst THEN {} ELSE longExact)
             ELSE {})

\* in a workspace query the strides and the increment are not looked at by every routine
QueryLax(r, p) == IsQuery(r, p) /\ FlagClauses(r, p) = {} /\ DimsOK(r, p) /\ LworkClauses(r, p) = {}

Expected(r, p) ==
    IF Unspec(r, p) THEN "UNSPEC"
    ELSE IF Hard(r, p) # {}
    THEN (IF QueryLax(r, p) THEN "EITHER" ELSE "PANIC")
    ELSE IF Soft(r, p) # {} THEN "EITHER" ELSE "OK"
\* a legal call that must not change any operand (apart from work[0] of routines with lwork)
\* (Dgels with an empty A sets the solution block of b to zero)
NoWriteOK(r, p) == Hard(r, p) = {} /\ (IsQuery(r, p) \/ (ZeroL(r, p) /\ r # "Dgels"))

\* clauses that cannot be the only violated one (a negative m forces n > m, ...)
NeverSole(r) == IF r \in OrgCol THEN {"m<lo", "n<lo"} ELSE IF r \in OrgRow THEN {"m<lo"}
                ELSE IF r \in Hess THEN {"n<lo"} ELSE IF r = "Dorgbr" THEN {"m<lo", "n<lo"} ELSE {}
ClausesOf(r) ==
    ((SeqToSet(FlagKinds(r)) \ {"uploany", "bool"})
    \cup ({DimNames(r)[i] \o "<lo" : i \in 1 .. Len(DimNames(r))} \ NeverSole(r)))
    \cup {DimNames(r)[i] \o ">hi" : i \in {j \in 1 .. Len(DimNames(r)) :
            (r \in OrgCol /\ DimNames(r)[j] \in {"n", "k"})
            \/ (r \in OrgRow /\ DimNames(r)[j] = "k") \/ (r \in OrmQ /\ DimNames(r)[j] = "k")
            \/ (r \in Hess \cup {"Dormhr"} /\ DimNames(r)[j] \in {"ilo", "ihi"})
            \/ (r = "Dorgbr" /\ DimNames(r)[j] \in {"n", "k"})}}
    \cup {"ld" \o o : o \in SeqToSet(Mats(r))}
    \cup {c \in {IncName(r)} : HasInc(r)}
    \cup {c \in {"lwork", "len(work)"} : HasLwork(r)}
    \cup {"len(" \o o \o ")" : o \in SeqToSet(Mats(r)) \cup SeqToSet(Vecs(r)) \cup SeqToSet(IVecs(r))}

(********************************* theorems **********************************)
\* the dense storage extent covers the addressed slots and is attained when the matrix has an element
NeedThm(r, p) ==
    ShapeOK(r, p) =>
      \A o \in SeqToSet(Mats(r)) :
        LET d == MatDesc(r, p, o)
        IN /\ AddrEndMat(d) <= Need(d)
           /\ (d.r > 0 /\ d.c > 0) => AddrEndMat(d) = Need(d)
=============================================================================
