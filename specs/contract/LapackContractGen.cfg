SPECIFICATION Spec
CONSTANTS
  Routines = @ROUTINES@
  Seed = @SEED@
  Target = @TARGET@
  Emit = @EMIT@
INVARIANTS TypeOK CaseOK
CHECK_DEADLOCK FALSE
