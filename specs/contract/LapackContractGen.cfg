SPECIFICATION Spec
CONSTANTS
  Routines = @ROUTINES@
  Seed = @SEED@
  Target = @TARGET@
  Emit = @EMIT@
  Mode = "@MODE@"
  BDims = @BDIMS@
  BLd = @BLD@
INVARIANTS TypeOK CaseOK
CHECK_DEADLOCK FALSE
