SPECIFICATION Spec
CONSTANTS
  Cx = @CX@
  Routines = @ROUTINES@
  Seed = @SEED@
  Mode = "@MODE@"
  Target = @TARGET@
  Emit = @EMIT@
INVARIANTS TypeOK CaseOK
CHECK_DEADLOCK FALSE
