----------------------------- MODULE LapackQuery -----------------------------
(* Property C07, "valid arguments never fault", workspace part.                *)
(* Every LAPACK routine with an lwork argument (HasLwork of LapackContract.tla)*)
(* carries two obligations that the small-dimension grids of                   *)
(* LapackContractGen.tla cannot reach, because the workspace formulas switch   *)
(* between terms at the routines' blocking thresholds (nb = 32 / 64, nx = 128, *)
(* ntiny = 15, nmin = 75) and at extreme aspect ratios:                        *)
(*   Q1  query sufficiency: the call with lwork = len(work) = the value the    *)
(*       routine's own workspace query (lwork = -1) stored in work[0] returns  *)
(*       without any panic, and the query itself changes nothing but work[0];  *)
(*   Q2  the call with lwork = len(work) = the documented minimum returns      *)
(*       without any panic.                                                    *)
(* The grid is derived from the decision table: every legal flag combination   *)
(* (FlagKinds / LegalCodes) x every shape whose dimensions are drawn from QS   *)
(* (plus the per-routine thresholds QExtra) and lie in the documented ranges   *)
(* (DimRange) x stride min + QLd; every slice exactly at its documented        *)
(* minimum length.  A routine added to HasLwork is covered automatically.      *)
(* TLC checks for every emitted point that the decision table classifies the   *)
(* call with the documented minimum workspace as valid (QValid: no flag,       *)
(* dimension, stride, lwork or length clause violated).                        *)
(*                                                                             *)
(* Second grid (Mode = "mat"): the mat factorization types that size their     *)
(* workspaces with such queries - QR, LQ, SVD, Eigen, GSVD, HOGSVD - with      *)
(* every kind flag on the same tall / wide shapes: Factorize of a legal shape  *)
(* must not panic.                                                             *)
EXTENDS LapackContract, Json

CONSTANTS Routines,   \* routines of this run (the cfg substitutes QRoutines: every routine with an lwork argument)
          QS,         \* dimension values of m, n, p and k
          QGN,        \* column counts n of the generalized routines (A is m x n, B is p x n)
          Shard, NShards,   \* this run emits the shapes whose dimension sum is congruent to Shard
          QK,         \* values of nrhs
          QLd,        \* stride extras
          Cap,        \* largest rows * columns of one matrix operand
          Mode,       \* "lapack" | "mat"
          Emit

VARIABLE g

QRoutines == {r \in LapackRoutines : HasLwork(r)}

\* thresholds of the routines' own code that are not multiples of the block size: Dlaqr04 / Dhseqr (ntiny = 15,
\* nl = 49, nmin = 75, documented minimum changes at n = 11), and through Dhseqr Dgeev
QExtra(r) == IF r \in Schur \cup {"Dgeev", "Dlaqr23"} THEN {11, 12, 15, 16, 49, 50, 75, 76} ELSE {}

(******************************* the shape grid *******************************)
Order(r, p) == IF r = "Dormhr" THEN Nq(r, p) ELSE Dim(r, p, "n")
Cand(r, p, j) ==
    LET nm == DimNames(r)[j]
        rg == DimRange(r, p, j)
        S == CASE nm = "n" /\ r \in Gsv -> QGN
               [] nm \in {"m", "n", "p"} -> QS \cup QExtra(r)
               [] nm = "k" -> QS \cup (IF rg[2] = NoHi THEN {} ELSE {rg[2]})
               [] nm = "nrhs" -> QK
               [] nm \in {"ilo", "iloz"} -> IF nm = "ilo" THEN {0, 1} ELSE {0}
               [] nm = "ihi" -> {Order(r, p) - 1, Order(r, p) - 2}
               \* Dlaqr23: the block 0 .. n-1 or 1 .. n-2, windows on both sides of the thresholds, T and WV both minimal or both n wide / high
               [] nm = "ktop" -> {0, 1}
               [] nm = "kbot" -> {Dim(r, p, "n") - 1 - Dim(r, p, "ktop")}
               [] nm = "nw" -> {1, 2, 3, 16, 33, 76, rg[2]}
               [] nm = "nh" -> {Dim(r, p, "nw"), Dim(r, p, "n")}
               [] nm = "nv" -> {Dim(r, p, "nh")}
               [] nm = "ihiz" -> {Dim(r, p, "n") - 1}
               [] nm = "mm" -> {Dim(r, p, "n")}
    IN {v \in S : v >= rg[1] /\ v <= rg[2]}
PadTo(s, n) == [i \in 1 .. n |-> IF i <= Len(s) THEN s[i] ELSE 0]
QP0(r, f, pre) == [f |-> f, d |-> PadTo(pre, Len(DimNames(r))), ld |-> [o \in {"a"} |-> 1], inc |-> 1, lwork |-> 0,
                   lwk |-> "none", len |-> [o \in {"a"} |-> 0]]
RECURSIVE DimSeqs(_, _, _)
DimSeqs(r, f, pre) ==
    IF Len(pre) = Len(DimNames(r)) THEN {pre}
    ELSE UNION {DimSeqs(r, f, Append(pre, v)) : v \in Cand(r, QP0(r, f, pre), Len(pre) + 1)}
RECURSIVE QFlags(_, _)
QFlags(r, j) == IF j > Len(FlagKinds(r)) THEN {<<>>}
                ELSE {<<v>> \o t : v \in (IF FlagKinds(r)[j] = "trans2" THEN {0, 1} ELSE LegalCodes(FlagKinds(r)[j])),
                                   t \in QFlags(r, j + 1)}

QOperands(r) == SeqToSet(Mats(r)) \cup SeqToSet(Vecs(r)) \cup SeqToSet(IVecs(r)) \cup SeqToSet(BVecs(r)) \cup {"work"}
QPoint(r, f, d, e) ==
    LET p3 == QP0(r, f, d)
        ld == [o \in SeqToSet(Mats(r)) |-> Max(1, MatDims(r, p3, o)[2]) + e]
        p4 == [p3 EXCEPT !.ld = ld]
        lw == MinLwork(r, p4)
        len == [o \in QOperands(r) |->
                  IF o \in SeqToSet(Mats(r)) THEN Need(MatDesc(r, p4, o))
                  ELSE IF o \in SeqToSet(Vecs(r)) THEN Max(0, VecMin(r, p4, o))
                  ELSE IF o \in SeqToSet(IVecs(r)) THEN Max(0, IVecMin(r, p4, o))
                  ELSE IF o \in SeqToSet(BVecs(r)) THEN BVecMin(r, p4, o)
                  ELSE Max(1, lw)]
    IN [r |-> r, p |-> [p4 EXCEPT !.lwork = lw, !.lwk = "min", !.len = len]]
Small(r, p) == \A o \in SeqToSet(Mats(r)) : MatDims(r, p, o)[1] * MatDims(r, p, o)[2] <= Cap
RECURSIVE SumSeq(_)
SumSeq(s) == IF s = <<>> THEN 0 ELSE Head(s) + SumSeq(Tail(s))
Mine(d) == (SumSeq(d) + Len(d)) % NShards = Shard
QGrid(r) == {pt \in UNION {{QPoint(r, f, d, e) : d \in {dd \in DimSeqs(r, f, <<>>) : Mine(dd)}, e \in QLd} : f \in QFlags(r, 1)} :
               Small(pt.r, pt.p)}

\* the decision table accepts the call with the documented minimum workspace and exactly-minimal slices
\* (the lengths are compared with the closed-form extent Need; NeedThm of LapackContract.tla, checked by TLC on
\* the small grid, says Need covers every addressed slot)
QValid(r, p) ==
    /\ FlagClauses(r, p) = {} /\ DimsOK(r, p) /\ LdClauses(r, p) = {} /\ IncClauses(r, p) = {}
    /\ LworkClauses(r, p) = {}
    /\ \A o \in SeqToSet(Mats(r)) : p.len[o] >= Need(MatDesc(r, p, o))
    /\ \A o \in SeqToSet(Vecs(r)) : p.len[o] >= VecMin(r, p, o)
    /\ \A o \in SeqToSet(IVecs(r)) : p.len[o] >= IVecMin(r, p, o)

(**************************** operand fill patterns ***************************)
\* values do not matter for the clause; the patterns only keep every routine on its regular path:
\*   "dom"    dense small integers with a strong, distinct diagonal
\*   "refl"   small dyadic entries (a matrix of elementary reflector vectors; tau = 1)
\*   "hess"   upper Hessenberg, zero subdiagonal entries outside the active block ilo .. ihi (an isolated block)
\*   "upper"  upper triangular with a distinct diagonal (a real Schur form)
\*   "ident"  the identity (orthogonal input / output matrices)
MatFill(r, o) ==
    CASE o = "a" /\ r \in {"Dorgqr", "Dorglq", "Dorgql", "Dormqr", "Dormlq", "Dorgtr", "Dorghr", "Dorgbr", "Dormbr", "Dormhr"} -> "refl"
      [] o = "h" /\ r \in Schur \cup {"Dlaqr23"} -> "hess"
      [] o = "t" /\ r = "Dtrevc3" -> "upper"
      [] o \in {"u", "v", "q", "vt", "vl", "vr", "z"} -> "ident"
      [] OTHER -> "dom"
\* integer vectors: "ident" a pivot sequence without interchanges, "free" Dgeqp3's marker of a free column (-1), "zero"
IVecFill(o) == IF o = "ipiv" THEN "ident" ELSE IF o = "jpvt" THEN "free" ELSE "zero"
\* the active block of a Hessenberg operand (<<0, -1>>: none)
Block(r, p) == IF r \in Schur THEN <<Dim(r, p, "ilo"), Dim(r, p, "ihi")>>
               ELSE IF r = "Dlaqr23" THEN <<Dim(r, p, "ktop"), Dim(r, p, "kbot")>> ELSE <<0, 0 - 1>>

QCase(c) ==
    LET r == c.r  p == c.p
    IN [kind |-> "lquery", r |-> r, f |-> p.f, d |-> p.d, minlwork |-> p.lwork, block |-> Block(r, p),
        mats |-> [j \in 1 .. Len(Mats(r)) |->
                    [name |-> Mats(r)[j], len |-> p.len[Mats(r)[j]], ld |-> p.ld[Mats(r)[j]],
                     rows |-> MatDims(r, p, Mats(r)[j])[1], cols |-> MatDims(r, p, Mats(r)[j])[2],
                     fill |-> MatFill(r, Mats(r)[j])]],
        vecs |-> [j \in 1 .. Len(Vecs(r)) |-> [name |-> Vecs(r)[j], len |-> p.len[Vecs(r)[j]]]],
        ivecs |-> [j \in 1 .. Len(IVecs(r)) |-> [name |-> IVecs(r)[j], len |-> p.len[IVecs(r)[j]], fill |-> IVecFill(IVecs(r)[j])]],
        bvecs |-> [j \in 1 .. Len(BVecs(r)) |-> [name |-> BVecs(r)[j], len |-> p.len[BVecs(r)[j]]]],
        exp |-> "OK"]

(**************************** mat factorizations *****************************)
\* type, kind flags (names of the mat package's constants, or-ed by the harness), shapes of the operands
MatTypes == {"QR", "LQ", "SVD", "Eigen", "GSVD", "HOGSVD"}
Sub(S) == SUBSET S
MatKinds(t) ==
    CASE t = "SVD" -> {u \cup v : u \in {{}, {"SVDThinU"}, {"SVDFullU"}}, v \in {{}, {"SVDThinV"}, {"SVDFullV"}}}
      [] t = "Eigen" -> Sub({"EigenLeft", "EigenRight"})
      [] t = "GSVD" -> Sub({"GSVDU", "GSVDV", "GSVDQ"})
      [] OTHER -> {{}}
\* legal operand shapes: QR rows >= columns, LQ rows <= columns, Eigen square, GSVD equal column counts,
\* HOGSVD equal column counts and rows >= columns
MatShapes(t) ==
    LET ok(s) == s[1] * s[2] <= Cap
        S2 == {s \in QS \X QS : ok(s)}
    IN CASE t = "QR" -> {<<s>> : s \in {x \in S2 : x[1] >= x[2]}}
         [] t = "LQ" -> {<<s>> : s \in {x \in S2 : x[1] <= x[2]}}
         [] t = "SVD" -> {<<s>> : s \in S2}
         [] t = "Eigen" -> {<<s>> : s \in {x \in S2 : x[1] = x[2]}}
         [] t = "GSVD" -> {<<<<m, n>>, <<pp, n>>>> : m \in QS, pp \in QS, n \in QGN}
         [] t = "HOGSVD" -> {<<<<m, n>>, <<pp, n>>, <<m, n>>>> : m \in QS, pp \in QS, n \in QGN}
MatLegal(t, sh) ==
    /\ \A i \in 1 .. Len(sh) : sh[i][1] >= 1 /\ sh[i][2] >= 1 /\ sh[i][2] = sh[1][2]
    /\ t = "QR" => sh[1][1] >= sh[1][2]
    /\ t = "LQ" => sh[1][1] <= sh[1][2]
    /\ t = "Eigen" => sh[1][1] = sh[1][2]
    /\ t = "HOGSVD" => \A i \in 1 .. Len(sh) : sh[i][1] >= sh[i][2]
\* cost bound: every operand and every requested square factor has at most Cap elements
MatSmall(t, k, sh) ==
    /\ \A i \in 1 .. Len(sh) : sh[i][1] * sh[i][2] <= Cap
    /\ t = "GSVD" => /\ "GSVDU" \in k => sh[1][1] * sh[1][1] <= Cap
                     /\ "GSVDV" \in k => sh[2][1] * sh[2][1] <= Cap
                     /\ "GSVDQ" \in k => sh[1][2] * sh[1][2] <= Cap
    /\ "SVDFullU" \in k => sh[1][1] * sh[1][1] <= Cap
    /\ "SVDFullV" \in k => sh[1][2] * sh[1][2] <= Cap
MatGrid(t) == {c \in {[r |-> "mat", t |-> t, k |-> k, sh |-> sh] : k \in MatKinds(t), sh \in MatShapes(t)} :
                 MatLegal(c.t, c.sh) /\ MatSmall(c.t, c.k, c.sh)}
MCase(c) == [kind |-> "matfact", t |-> c.t, flags |-> c.k, shapes |-> c.sh, exp |-> "OK"]

(********************************* generator *********************************)
Init == g \in (IF Mode = "lapack" THEN {[r |-> "start", fam |-> r] : r \in Routines}
               ELSE {[r |-> "start", fam |-> t] : t \in MatTypes})
Next == g.r = "start" /\ g' \in (IF Mode = "lapack" THEN QGrid(g.fam) ELSE MatGrid(g.fam))
Spec == Init /\ [][Next]_g

TypeOK == Mode = "lapack" => Routines \subseteq QRoutines
\* announced once: the routines of the grid (the harness must have a dispatch entry for each and must have
\* executed each) resp. the factorization types
Meta == IF Mode = "lapack" THEN [meta |-> "lquery", routines |-> Routines] ELSE [meta |-> "matfact", routines |-> MatTypes]
First == CHOOSE x \in (IF Mode = "lapack" THEN Routines ELSE MatTypes) : TRUE
CaseOK ==
    IF g.r = "start" THEN (Emit /\ g.fam = First) => PrintT(ToJson(Meta))
    ELSE IF g.r = "mat" THEN MatLegal(g.t, g.sh) /\ (Emit => PrintT(ToJson(MCase(g))))
    ELSE /\ QValid(g.r, g.p)
         /\ Emit => PrintT(ToJson(QCase(g)))
=============================================================================
