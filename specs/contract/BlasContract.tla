---------------------------- MODULE BlasContract ----------------------------
(* Property C07, BLAS part: the argument contract of every BLAS routine      *)
(* family as a decision table.                                                *)
(*                                                                            *)
(* A call is a record  c = [r, cx, p, len]  : routine family, number domain,  *)
(* the parameter record of BlasOperands.tla (flags, dimensions, strides,      *)
(* increments) and the length of every slice operand.  The contract is a set  *)
(* of CLAUSES written from the documentation (blas/gonum/doc.go, the doc      *)
(* comments of the routines and the BLAS standard the package refers to):     *)
(*   flags legal; dimensions >= 0; ld >= max(1, columns) (band: kl+ku+1);     *)
(*   increments # 0; and, unless the problem is zero-sized, every slice at    *)
(*   least as long as the storage extent Need of BlasAddr.tla.                *)
(* Hard(c) is the set of violated clauses.  The expected abstract outcome is  *)
(*   "PANIC"  (a panic of the package, every operand untouched)  if Hard # {} *)
(*   "OK"     (returns, no fault, nothing outside the slices touched)         *)
(*   "EITHER" where the documentation leaves the choice (see Soft below).     *)
(* Storage comes from BlasAddr.tla / BlasOperands.tla (shared with C01):      *)
(* the extent that MUST be present is 1 + the largest addressed slot, which   *)
(* TLC computes from the index maps (AddrEnd); theorem NeedThm ties it to     *)
(* the closed form Need.                                                      *)
EXTENDS BlasOperands

BadFlag == 9                      \* the one illegal value of every flag

(************************ argument lists of the families *********************)
HasM(r)    == r \in GeMV \cup Rank1 \cup L3Mul \cup TrMM
HasK(r)    == r \in {"gemm"} \cup RankK \cup Rank2K
HasBand(r) == r \in {"sbmv", "hbmv", "tbmv", "tbsv"}
HasKLU(r)  == r = "gbmv"
Packed(r)  == r \in {"spmv", "hpmv", "tpmv", "tpsv", "spr", "hpr", "spr2", "hpr2"}
HasTA(r)   == r \in GeMV \cup TrMV \cup TrSV \cup {"gemm"} \cup TrMM \cup RankK \cup Rank2K
HasTB(r)   == r = "gemm"
HasUL(r)   == r \in SyMV \cup TrMV \cup TrSV \cup SyR \cup SyR2 \cup {"symm", "hemm"} \cup RankK \cup Rank2K \cup TrMM
HasDG(r)   == r \in TrMV \cup TrSV \cup TrMM
HasSD(r)   == r \in {"symm", "hemm"} \cup TrMM
HasLd(r, o) == o \in Uses(r) /\ o \in {"a", "b", "c"} /\ ~(o = "a" /\ Packed(r))

\* legal values of the transpose argument: the symmetric rank-k updates of a complex
\* matrix admit only NoTrans/Trans, the Hermitian ones only NoTrans/ConjTrans (BLAS standard)
LegalTA(r, cx) ==
    IF r \in {"herk", "her2k"} THEN {NoTrans, ConjTrans}
    ELSE IF r \in {"syrk", "syr2k"} /\ cx THEN {NoTrans, Trans}
    ELSE {NoTrans, Trans, ConjTrans}
LegalRotm == 0 .. 3               \* rotm: p.k - 2 is the flag, legal -2 .. 1

(****************************** zero-sized problems **************************)
ZeroSized(r, p) ==
    IF r \in Level1 THEN p.n = 0
    ELSE IF HasM(r) THEN p.m = 0 \/ p.n = 0
    ELSE p.n = 0

\* a Level 1 routine with a single vector documents "has no effect / returns 0 / returns -1
\* if incX < 0" (doc.go: the increment of such routines may only be positive)
NegIncNoop(r, p) == r \in L1One /\ p.incx < 0

(******************************* storage extents *****************************)
SetMax(S) == CHOOSE v \in S : \A w \in S : w <= v
\* one past the largest slot the routine addresses in operand o (0: addresses nothing)
AddrEndMat(d) == IF Cells(d) = {} THEN 0 ELSE 1 + SetMax(SlotSet(d))
AddrEndVec(n, inc) == IF n <= 0 THEN 0 ELSE 1 + SetMax(VecSlots(n, inc))
AddrEnd(r, p, o) ==
    CASE o = "a" -> AddrEndMat(DescA(r, p))
      [] o = "b" -> AddrEndMat(DescB(r, p))
      [] o = "c" -> AddrEndMat(DescC(r, p))
      [] o = "x" -> AddrEndVec(LenX(r, p), p.incx)
      [] o = "y" -> AddrEndVec(LenY(r, p), p.incy)

(********************************** clauses **********************************)
DimsOK(r, p) ==
    /\ p.n >= 0
    /\ HasM(r) => p.m >= 0
    /\ (HasK(r) \/ HasBand(r)) => p.k >= 0
    /\ HasKLU(r) => (p.kl >= 0 /\ p.ku >= 0)
MinLdOf(r, p, o) ==
    CASE o = "a" -> MinLd(DescA(r, p))
      [] o = "b" -> MinLd(DescB(r, p))
      [] o = "c" -> MinLd(DescC(r, p))
LdOf(p, o) == CASE o = "a" -> p.lda [] o = "b" -> p.ldb [] o = "c" -> p.ldc
\* everything but the slice lengths
ShapeOK(c) ==
    LET r == c.r  p == c.p
    IN /\ DimsOK(r, p)
       /\ \A o \in {"a", "b", "c"} : HasLd(r, o) => LdOf(p, o) >= MinLdOf(r, p, o)
       /\ ("x" \in Uses(r)) => p.incx # 0
       /\ ("y" \in Uses(r)) => p.incy # 0

FlagClauses(c) ==
    LET r == c.r  p == c.p
    IN {f \in {"tA"} : HasTA(r) /\ p.tA \notin LegalTA(r, c.cx)}
       \cup {f \in {"tB"} : HasTB(r) /\ p.tB \notin {NoTrans, Trans, ConjTrans}}
       \cup {f \in {"ul"} : HasUL(r) /\ p.ul \notin {Upper, Lower}}
       \cup {f \in {"dg"} : HasDG(r) /\ p.dg \notin {NonUnit, Unit}}
       \cup {f \in {"sd"} : HasSD(r) /\ p.sd \notin {Left, Right}}
       \cup {f \in {"rotmflag"} : r = "rotm" /\ p.k \notin LegalRotm}
DimClauses(c) ==
    LET r == c.r  p == c.p
    IN {f \in {"m<0"} : HasM(r) /\ p.m < 0}
       \cup {f \in {"n<0"} : p.n < 0}
       \cup {f \in {"k<0"} : (HasK(r) \/ HasBand(r)) /\ p.k < 0}
       \cup {f \in {"kl<0"} : HasKLU(r) /\ p.kl < 0}
       \cup {f \in {"ku<0"} : HasKLU(r) /\ p.ku < 0}
LdClauses(c) ==
    LET r == c.r  p == c.p
    IN {f \in {"lda"} : HasLd(r, "a") /\ p.lda < MinLdOf(r, p, "a")}
       \cup {f \in {"ldb"} : HasLd(r, "b") /\ p.ldb < MinLdOf(r, p, "b")}
       \cup {f \in {"ldc"} : HasLd(r, "c") /\ p.ldc < MinLdOf(r, p, "c")}
IncClauses(c) ==
    LET r == c.r  p == c.p
    IN {f \in {"incx=0"} : "x" \in Uses(r) /\ p.incx = 0}
       \cup {f \in {"incy=0"} : "y" \in Uses(r) /\ p.incy = 0}
\* slice-length clauses are meaningful only when the shape is legal (extents are functions of it)
LenApplies(c) == ShapeOK(c) /\ ~ZeroSized(c.r, c.p) /\ ~NegIncNoop(c.r, c.p)
ShortName(o) == CASE o = "a" -> "len(a)" [] o = "b" -> "len(b)" [] o = "c" -> "len(c)"
                  [] o = "x" -> "len(x)" [] o = "y" -> "len(y)"
\* shorter than what the routine addresses: must be rejected
ShortClauses(c) ==
    IF ~LenApplies(c) THEN {}
    ELSE {ShortName(o) : o \in {oo \in Uses(c.r) : c.len[oo] < AddrEnd(c.r, c.p, oo)}}
\* at least the addressed extent but shorter than the documented storage extent (band storage:
\* the whole last band row; a unit triangle's last diagonal element; a matrix with no columns):
\* the documentation does not say which of the two lengths is the minimum - either outcome is legal
GapClauses(c) ==
    IF ~LenApplies(c) THEN {}
    ELSE {ShortName(o) : o \in {oo \in Uses(c.r) :
              c.len[oo] >= AddrEnd(c.r, c.p, oo) /\ c.len[oo] < NeedOf(c.r, c.p, oo)}}

Hard(c) == FlagClauses(c) \cup DimClauses(c) \cup LdClauses(c) \cup IncClauses(c) \cup ShortClauses(c)
\* with a negative increment a single-vector Level 1 routine returns at once; whether it looks at
\* the other arguments first is not documented
\* a zero-sized gemv/gbmv (exactly one of m, n zero) may either return at once (reference BLAS,
\* gonum) or scale y by beta: if y is too short for the latter, both outcomes are legal
ZeroWriteClauses(c) ==
    IF ~(ShapeOK(c) /\ ZeroSized(c.r, c.p)) THEN {}
    ELSE {ShortName(o) : o \in {oo \in Writes(c.r) : c.len[oo] < AddrEnd(c.r, c.p, oo)}}
Soft(c) == GapClauses(c) \cup ZeroWriteClauses(c)
           \cup {f \in {"neginc-noop"} : NegIncNoop(c.r, c.p) /\ Hard(c) # {}}
\* a zero-sized problem in which no written operand has an addressed element
QuietZero(r, p) == ZeroSized(r, p) /\ \A o \in Writes(r) : AddrEnd(r, p, o) = 0

Expected(c) ==
    IF NegIncNoop(c.r, c.p) /\ c.p.incx # 0 /\ Hard(c) # {} THEN "EITHER"
    ELSE IF Hard(c) # {} THEN "PANIC"
    ELSE IF Soft(c) # {} THEN "EITHER"
    ELSE "OK"
\* calls that must leave every operand as it was even though they return normally
NoWriteOK(c) == Hard(c) = {} /\ ShapeOK(c) /\ (QuietZero(c.r, c.p) \/ NegIncNoop(c.r, c.p))
ReadOnly(r) == Uses(r) \ Writes(r)

\* every clause that can occur for the routine (vacuity guard: each must be the sole violated
\* clause of some generated tuple)
ClausesOf(r, cx) ==
    {f \in {"tA"} : HasTA(r)} \cup {f \in {"tB"} : HasTB(r)} \cup {f \in {"ul"} : HasUL(r)}
    \cup {f \in {"dg"} : HasDG(r)} \cup {f \in {"sd"} : HasSD(r)} \cup {f \in {"rotmflag"} : r = "rotm"}
    \cup {f \in {"m<0"} : HasM(r)} \cup {"n<0"} \cup {f \in {"k<0"} : HasK(r) \/ HasBand(r)}
    \cup {f \in {"kl<0", "ku<0"} : HasKLU(r)}
    \cup {f \in {"lda"} : HasLd(r, "a")} \cup {f \in {"ldb"} : HasLd(r, "b")} \cup {f \in {"ldc"} : HasLd(r, "c")}
    \cup {f \in {"incx=0"} : "x" \in Uses(r)} \cup {f \in {"incy=0"} : "y" \in Uses(r)}
    \cup {ShortName(o) : o \in Uses(r)}

(********************************* theorems **********************************)
(* For a legal shape: the closed-form storage extent NeedOf covers everything *)
(* the routine addresses, and equals 1 + the largest addressed slot for       *)
(* vectors and for general, symmetric, Hermitian, non-unit triangular and     *)
(* packed operands that have at least one referenced element.                 *)
DescOf(r, p, o) == CASE o = "a" -> DescA(r, p) [] o = "b" -> DescB(r, p) [] o = "c" -> DescC(r, p)
TightOperand(r, p, o) ==
    IF o \in {"x", "y"} THEN (IF o = "x" THEN LenX(r, p) ELSE LenY(r, p)) > 0
    ELSE LET d == DescOf(r, p, o)
         IN d.kind \notin BandKinds /\ Cells(d) # {} /\ ~(d.kind \in TriKinds /\ d.dg = Unit)
NeedThm(c) ==
    ShapeOK(c) =>
      \A o \in Uses(c.r) :
        /\ AddrEnd(c.r, c.p, o) <= NeedOf(c.r, c.p, o)
        /\ TightOperand(c.r, c.p, o) => AddrEnd(c.r, c.p, o) = NeedOf(c.r, c.p, o)
\* a zero-sized problem addresses nothing it could write, so no slice length can matter
\* (except y of gemv/gbmv when exactly one of m, n is zero, see ZeroWriteClauses)
ZeroThm(c) ==
    (ShapeOK(c) /\ ZeroSized(c.r, c.p) /\ c.r \notin GeMV) => QuietZero(c.r, c.p)
=============================================================================
