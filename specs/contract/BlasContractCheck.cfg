SPECIFICATION Spec
CONSTANTS
  Cx = @CX@
  Routines = @ROUTINES@
  Dims = @DIMS@
  Bands = @BANDS@
  LdExtra = @LDEXTRA@
  IncNeg = @INCNEG@
  IncPos = @INCPOS@
INVARIANTS Need_Thm Zero_Thm MinimalOK ShortPanic GapEither ZeroAnyLen Monotone ShapeFault
CHECK_DEADLOCK FALSE
