---------------------------- MODULE MinimizeTrace ----------------------------
(* R3: validates logs of real executions of optimize.Minimize against the        *)
(* protocol model.  One log per goroutine (recorded by the verif hooks in        *)
(* optimize/minimize.go and by a recording proxy around the real Method), with   *)
(* one cursor each: the specification never orders events of different           *)
(* goroutines by itself - TLC looks for an interleaving of Minimize's actions    *)
(* that explains all logs.  A rendezvous on an unbuffered channel consumes one   *)
(* event from the sender's and one from the receiver's log in a single step.     *)
(* Steps the code does not log (the no-op branches of the stats loop) are        *)
(* silent steps enabled exactly when the model says they are no-ops.             *)
(* The file holds many runs (JSON object per line); runs are validated one       *)
(* after the other.  A run with seq > 1 was made with the SAME Method value as   *)
(* the run before it (obj names the value): the step to it is the model's ReInit *)
(* (FreshRun, run + 1) - whatever the method kept from the earlier run, the new  *)
(* run has to be explained from the state of Init and its Result has to be       *)
(* coherent on its own.                                                          *)
EXTENDS Minimize, Json, TLCExt

TraceLog == ndJsonDeserialize("trace.ndjson")

VARIABLES r,      \* index of the run being validated
          cur,    \* cur[a]: next unread event of actor a
          fl, gl, hl, il  \* limits of the current run (Func / Grad / Hess evaluations, major iterations)

tvars == <<vars, r, cur, fl, gl, hl, il>>

Run == TraceLog[r]
Actors == DOMAIN Run.logs
WName(w) == "W" \o ToString(w)
Has(a) == cur[a] <= Len(Run.logs[a])
Ev(a) == Run.logs[a][cur[a]]
Adv1(a) == cur' = [cur EXCEPT ![a] = @ + 1]
Adv2(a, b) == cur' = [cur EXCEPT ![a] = @ + 1, ![b] = @ + 1]
Same == UNCHANGED <<r, fl, gl, hl, il>>
Task(e) == [id |-> e.tok, op |-> e.op, f |-> e.f, g |-> e.g, h |-> e.h]
AllCauses == {"converge", "recerr", "mdone", "probstatus"}
\* Run.rl = 1: Settings.Runtime is one nanosecond - elapsed at every major iteration
RunCauses == AllCauses \cup (IF Run.rl = 1 THEN {"runtime"} ELSE {})

(* ---- the Method, as observed by the recording proxy (no bound on sends, no assumption   *)
(* ---- about which tokens it holds: only the channel effects and the shutdown contract) -- *)
TMSend ==
    /\ Has("MO") /\ Ev("MO").e = "MSend"
    /\ mstate \in {"run", "post", "sentdone"}
    /\ OpsSend(Task(Ev("MO")))
    /\ mstate' = IF Ev("MO").op = "mdone" /\ mstate = "run" THEN "sentdone" ELSE mstate
    /\ msends' = msends + 1 /\ mheld' = mheld \ {Ev("MO").tok}
    /\ UNCHANGED <<opsClosed, res, resClosed, doneClosed, wcClosed, scClosed, dist, work, stat,
                   stats3, calls3, iters, posts, final, run>>
    /\ Adv1("MO") /\ Same
TMClose == /\ Has("MO") /\ Ev("MO").e = "MClose" /\ MClose /\ Adv1("MO") /\ Same
TMRecv ==
    /\ Has("MR") /\ Ev("MR").e = "MRecv"
    /\ res # <<>> /\ Head(res).op = Ev("MR").op /\ Head(res).id = Ev("MR").tok
    /\ MRecv /\ Adv1("MR") /\ Same
\* the proxy saw results closed (needed before MClose is enabled; no model change)
TMSawClosed == /\ Has("MR") /\ Ev("MR").e = "MResClosed" /\ resClosed /\ res = <<>>
               /\ UNCHANGED vars /\ Adv1("MR") /\ Same

(* ---- Minimize called with method == nil: "an appropriate default is chosen based on the     *)
(* ---- properties of the other arguments (dimension, gradient-free or gradient-based, etc.)".   *)
(* ---- No proxy can be put around a method the caller never sees: the logs MO / MR are missing   *)
(* ---- and the method moves silently - it sends exactly the task the distributor is about to     *)
(* ---- receive, takes results whenever there are any, and closes operations when the             *)
(* ---- distributor has nothing more to drain.  Everything else (distributor, workers, stats      *)
(* ---- loop, counters, Result) is judged as in any other run.                                    *)
SMSend ==
    /\ Run.defm = 1 /\ Has("D") /\ Ev("D").e \in {"DRecvOp", "DDrainOp"}
    /\ ops = <<>> /\ mstate \in {"run", "post", "sentdone"}
    /\ OpsSend(Task(Ev("D")))
    /\ mstate' = IF Ev("D").op = "mdone" /\ mstate = "run" THEN "sentdone" ELSE mstate
    /\ msends' = msends + 1 /\ mheld' = mheld \ {Ev("D").tok}
    /\ UNCHANGED <<opsClosed, res, resClosed, doneClosed, wcClosed, scClosed, dist, work, stat,
                   stats3, calls3, iters, posts, final, run>>
    /\ UNCHANGED <<r, cur, fl, gl, hl, il>>
SMRecv == /\ Run.defm = 1 /\ res # <<>> /\ MRecv /\ UNCHANGED <<r, cur, fl, gl, hl, il>>
SMClose == /\ Run.defm = 1 /\ Has("D") /\ Ev("D").e = "DExit" /\ MClose /\ UNCHANGED <<r, cur, fl, gl, hl, il>>

\* the evaluations the distributor received, in order
DEvals == SelectSeq(Run.logs["D"], LAMBDA e : e.e \in {"DRecvOp", "DDrainOp"} /\ e.op = "eval")
\* The default is "gradient-free or gradient-based" by what the Problem offers: with a Grad function the
\* first evaluation (the start point) asks for the gradient, without one no evaluation ever does; the
\* Hessian is never asked for unless the Problem offers it.  (Which gradient-based / gradient-free method
\* it is is left open.)  InitValues of these runs hold at most F.
DefaultChoiceOK ==
    /\ Len(DEvals) > 0 => DEvals[1].g = Run.hasg
    /\ \A i \in 1 .. Len(DEvals) : /\ (Run.hasg = 0 => DEvals[i].g = 0)
                                   /\ (Run.hash = 0 => DEvals[i].h = 0)
    /\ Run.result.panicked = 0

(* ------------------------------- distributor -------------------------------------- *)
TDRecvOp == /\ Has("D") /\ Ev("D").e = "DRecvOp" /\ ops # <<>> /\ Head(ops) = Task(Ev("D"))
            /\ DSelectOp /\ Adv1("D") /\ Same
TDDone == /\ Has("D") /\ Ev("D").e = "DDone" /\ DSelectDone /\ Adv1("D") /\ Same
TDDrainOp == /\ Has("D") /\ Ev("D").e = "DDrainOp" /\ ops # <<>> /\ Head(ops) = Task(Ev("D"))
             /\ DDrainOp /\ Adv1("D") /\ Same
TDExit == /\ Has("D") /\ Ev("D").e = "DExit" /\ DDrainEnd /\ Adv1("D") /\ Same
\* statsChan <- task   ||   task := <-statsChan
TDSendStats ==
    /\ Has("D") /\ Ev("D").e \in {"DSentStats", "DDrainSent"} /\ (Ev("D").e = "DDrainSent") = (dpc = "drainSend")
    /\ Has("S") /\ Ev("S").e = "SRecv" /\ Task(Ev("S")) = dtask /\ Task(Ev("D")) = dtask
    /\ DSendStats /\ Adv2("D", "S") /\ Same
\* workerChan <- task  ||   task := <-workerChan
TDSendWorker(w) ==
    /\ Has("D") /\ Ev("D").e = "DSentWorker" /\ Task(Ev("D")) = dtask
    /\ WName(w) \in Actors /\ Has(WName(w)) /\ Ev(WName(w)).e = "WRecv" /\ Task(Ev(WName(w))) = dtask
    /\ DSendWorker(w) /\ Adv2("D", WName(w)) /\ Same

(* --------------------------------- workers ---------------------------------------- *)
TWEval(w) == /\ WName(w) \in Actors /\ Has(WName(w)) /\ Ev(WName(w)).e = "WEval"
             /\ WEval(w) /\ Adv1(WName(w)) /\ Same
TWSend(w) ==
    /\ WName(w) \in Actors /\ Has(WName(w)) /\ Ev(WName(w)).e = "WSent"
    /\ Has("S") /\ Ev("S").e = "SRecv" /\ Task(Ev("S")) = wtask[w]
    /\ WSend(w) /\ Adv2(WName(w), "S") /\ Same
TWClosed(w) == /\ WName(w) \in Actors /\ Has(WName(w)) /\ Ev(WName(w)).e = "WClosed"
               /\ WClosed(w) /\ Adv1(WName(w)) /\ Same
TWSendDone(w) ==
    /\ WName(w) \in Actors /\ Has(WName(w)) /\ Ev(WName(w)).e = "WSentDone"
    /\ Has("S") /\ Ev("S").e = "SRecv" /\ Ev("S").op = "sigdone"
    /\ WSendDone(w) /\ Adv2(WName(w), "S") /\ Same

(* ------------------------------ stats combiner ------------------------------------ *)
\* the code logs SProc (status and counters) after the switch, except for signalDone
TSProc ==
    /\ Has("S") /\ Ev("S").e = "SProc" /\ spc = "proc" /\ stask.op # "sigdone"
    /\ SProcL(fl, gl, hl, il, RunCauses)
    /\ sstatus' = Ev("S").status /\ statsF' = Ev("S").nf /\ iters' = Ev("S").ni
    /\ Adv1("S") /\ Same
SilentSigProc == /\ spc = "proc" /\ stask.op = "sigdone" /\ SProcL(fl, gl, hl, il, RunCauses)
                 /\ UNCHANGED <<r, cur, fl, gl, hl, il>>
TSCloseResults == /\ Has("S") /\ Ev("S").e = "SCloseResults" /\ resClosed /\ spc = "recv"
                  /\ UNCHANGED vars /\ Adv1("S") /\ Same
TSPost == /\ Has("S") /\ Ev("S").e = "SPost" /\ spc = "post" /\ sstatus # "none" /\ ~doneClosed
          /\ SPost /\ Adv1("S") /\ Same
SilentSPost == /\ spc = "post" /\ (sstatus = "none" \/ doneClosed) /\ SPost
               /\ UNCHANGED <<r, cur, fl, gl, hl, il>>
TSBack == /\ Has("S") /\ Ev("S").e = "SBack" /\ spc = "back" /\ workersDone # NT /\ stask.op # "mdone"
          /\ Task(Ev("S")) = stask
          /\ SBack /\ Adv1("S") /\ Same
SilentSBack == /\ spc = "back" /\ ~(workersDone # NT /\ stask.op # "mdone") /\ SBack
               /\ UNCHANGED <<r, cur, fl, gl, hl, il>>
TSExit == /\ Has("S") /\ Ev("S").e = "SExit" /\ statsF = Ev("S").nf /\ iters = Ev("S").ni
          /\ SExit /\ Adv1("S") /\ Same

(* ------------------------------- run boundaries ----------------------------------- *)
RunInit(k) ==
    /\ Init
    /\ r = k /\ cur = [a \in DOMAIN TraceLog[k].logs |-> 1]
    /\ fl = TraceLog[k].fl /\ gl = TraceLog[k].gl /\ hl = TraceLog[k].hl /\ il = TraceLog[k].il
\* the next run of the file: the model's FreshRun; with the same Method value (seq > 1) it is the
\* model's ReInit step, with a new one the run counter starts again
RunInitNext(k) ==
    /\ FreshRun
    /\ run' = IF TraceLog[k].seq > 1 THEN run + 1 ELSE 1
    /\ (TraceLog[k].seq > 1 => TraceLog[k].obj = Run.obj)
    /\ r' = k /\ cur' = [a \in DOMAIN TraceLog[k].logs |-> 1]
    /\ fl' = TraceLog[k].fl /\ gl' = TraceLog[k].gl /\ hl' = TraceLog[k].hl /\ il' = TraceLog[k].il

RunConsumed == \A a \in Actors : ~Has(a)
\* what the public API reported for this run must agree with the model's final state
ResultOK ==
    /\ AllDone
    /\ Run.seq = run                             \* the k-th run made with this Method value
    /\ Run.result.nf = statsF /\ Run.result.ni = iters
    /\ Run.result.ng = statsG /\ Run.result.nh = statsH
    /\ Run.result.calls = callsF                 \* callbacks actually made (counted by the harness)
    /\ Run.result.calls_g = callsG /\ Run.result.calls_h = callsH
    /\ Run.result.status = final \/ (final = "mconv" /\ Run.result.status # "none")
    /\ Run.result.goroutines = 0                 \* no goroutine left behind
    \* C19 coherence of the reported location (predicates evaluated at the logging boundary from
    \* values the real run produced): once a MajorIteration was performed, F is the objective at X
    \* and X is a point the objective was evaluated at; a local method is never worse than the
    \* initial point and reports a location as soon as the initial point has been evaluated
    /\ Run.result.ni > 0 => (Run.result.fx_ok = 1 /\ Run.result.x_eval = 1)
    /\ (Run.result.local = 1 /\ Run.result.ni > 0) => Run.result.noworse = 1
    \* (a starting location with an invalid value or gradient is never reported: ErrFunc / ErrGrad below)
    /\ (Run.result.local = 1 /\ Run.result.calls > 0 /\ Run.result.initf = "ok" /\ Run.result.initg = 0) => Run.result.ni > 0
    \* Location: "Gradient holds the first-order partial derivatives of the function at X": a reported
    \* gradient is the one the objective returned at the reported X in THIS run (the harness's objective
    \* wrapper remembers the gradient it returned for each evaluated X)
    /\ (Run.result.ni > 0 /\ Run.result.has_grad = 1) => Run.result.grad_ok = 1
    /\ Run.result.nilres = 0 /\ Run.result.panicked = 0
    /\ Run.defm = 1 => DefaultChoiceOK
    \* ---- the error returned with the Result (identities of error values, never texts) ----
    \* a Recorder error turns the step into Failure and is the error of the run ("recfail": which Record
    \* call returned it - "mid": one between InitIteration and PostIteration; an error of the PostIteration
    \* call comes after the run has ended and leaves its status alone)
    /\ final = "fail" => Run.result.errkind = "recorder"
    /\ Run.result.errkind = "recorder" => (final = "fail" \/ Run.result.recfail = "post")
    /\ Run.result.recfail = "none" => Run.result.errkind # "recorder"
    /\ Run.result.status = "fail" => Run.result.errkind # "none"
    \* "ErrFunc is returned when an initial function value is invalid. The error state may be either +Inf or
    \* NaN": a local method that got as far as judging its starting location (it then declares MethodDone)
    \* ends in Failure with an ErrFunc holding that value - and with an ErrGrad naming an invalid component
    \* when the value is fine but the gradient it asked for is not
    /\ (Run.result.local = 1 /\ Run.result.initf # "ok" /\ final = "mconv")
          => (Run.result.status = "fail" /\ Run.result.errkind = "errfunc")
    /\ Run.result.errkind \in {"errfunc", "errfunc-othervalue"} => (Run.result.errkind = "errfunc" /\ Run.result.initf # "ok" /\ final = "mconv")
    /\ (Run.result.local = 1 /\ Run.result.initf = "ok" /\ Run.result.initg = 1 /\ final = "mconv" /\ (statsG > 0 \/ Run.iv \in {2, 3, 6, 7}))
          => (Run.result.status = "fail" /\ Run.result.errkind = "errgrad" /\ Run.result.errgrad_ok = 1)
    /\ Run.result.errkind = "errgrad" => (Run.result.initg = 1 /\ Run.result.errgrad_ok = 1 /\ final = "mconv")
    \* the statuses that name a property of the reported location
    /\ Run.result.status_x = "FunctionNegativeInfinity" => (Run.result.f_neginf = 1 /\ Run.result.ni > 0)
    /\ Run.result.status_x = "GradientThreshold" => (Run.result.has_grad = 1 /\ Run.result.gthr_ok = 1)
    /\ Run.result.status = "rlimit" => (Run.rl = 1 /\ Run.result.ni > 0)
    \* a value of -Inf that became the reported location ended the run there and then, unless it was over already
    /\ (Run.result.f_neginf = 1 /\ Run.result.ni > 0) => final \in {"converged", "flimit", "glimit", "hlimit", "fail", "probstatus"}

\* A call Minimize has to refuse: "Minimize panics if the Problem is not consistent with the Method (Uses
\* returns an error)"; an error of Recorder.Init, of the Problem's Status when first asked, or of the
\* InitIteration Record is returned with no Result.  No goroutine was started, the objective was never called.
AbortOK ==
    /\ Run.result.calls = 0 /\ Run.result.calls_g = 0 /\ Run.result.calls_h = 0
    /\ Run.result.goroutines = 0 /\ Run.result.nilres = 1
    /\ CASE Run.abort = "uses" -> Run.result.panicked = 1
         [] Run.abort = "recinit" -> Run.result.panicked = 0 /\ Run.result.errkind = "recorder" /\ Run.result.recfail = "recinit"
         [] Run.abort = "recfirst" -> Run.result.panicked = 0 /\ Run.result.errkind = "recorder" /\ Run.result.recfail = "init"
         [] Run.abort = "status0" -> Run.result.panicked = 0 /\ Run.result.errkind = "probstatus"
         [] OTHER -> FALSE

NextRun ==
    /\ r <= Len(TraceLog) /\ RunConsumed
    /\ IF Run.abort = "none" THEN ResultOK ELSE AbortOK
    /\ IF r < Len(TraceLog)
       THEN LET k == r + 1 IN RunInitNext(k)
       ELSE /\ r' = r + 1 /\ UNCHANGED <<vars, cur, fl, gl, hl, il>>
            /\ PrintT("TRACE-ACCEPTED " \o ToString(Len(TraceLog)))

TraceInit == RunInit(1) /\ TLCSet(1, 0) /\ TLCSet(2, 0) /\ TLCSet(3, <<>>)
TraceNext ==
  /\ r <= Len(TraceLog)
  /\
    \/ TMSend \/ TMClose \/ TMRecv \/ TMSawClosed
    \/ SMSend \/ SMRecv \/ SMClose
    \/ TDRecvOp \/ TDDone \/ TDDrainOp \/ TDExit \/ TDSendStats
    \/ \E w \in Wk : TDSendWorker(w) \/ TWEval(w) \/ TWSend(w) \/ TWClosed(w) \/ TWSendDone(w)
    \/ TSProc \/ SilentSigProc \/ TSCloseResults \/ TSPost \/ SilentSPost \/ TSBack \/ SilentSBack \/ TSExit
    \/ NextRun
TraceSpec == TraceInit /\ [][TraceNext]_tvars

\* model invariants evaluated at every step of the real executions
TraceInv == NoError /\ CloseOrder /\ (posts <= 1) /\ NoLateEval
            /\ (statsF <= callsF) /\ (statsG <= callsG) /\ (statsH <= callsH)
            /\ (fl > 0 => statsF <= fl + NT - 1)
            /\ (gl > 0 => statsG <= gl + NT - 1)
            /\ (hl > 0 => statsH <= hl + NT - 1)

\* progress register for diagnosing a rejection: highest (run, consumed events) reached
RECURSIVE SumCur(_)
SumCur(T) == IF T = {} THEN 0 ELSE LET a == CHOOSE a \in T : TRUE IN cur[a] - 1 + SumCur(T \ {a})
\* (once one interleaving has explained the whole file, the rest of the search is pruned;
\* run TLC with the depth-first state queue so that this happens early)
Progress == IF TLCGet(2) = 1 THEN FALSE
            ELSE IF r <= Len(TraceLog)
            THEN LET n == r * 100000 + SumCur(DOMAIN cur)
                 IN IF n > TLCGet(1)
                    THEN TLCSet(1, n) /\ TLCSet(3, [cur |-> cur, spc |-> spc, stask |-> stask, sstatus |-> sstatus,
                                                     dpc |-> dpc, dtask |-> dtask, wpc |-> wpc, mstate |-> mstate,
                                                     ops |-> ops, res |-> res, flags |-> <<opsClosed, resClosed, doneClosed, wcClosed, scClosed>>,
                                                     cnt |-> <<statsF, callsF, statsG, statsH, iters, workersDone, run>>,
                                                     name |-> Run.name, result |-> Run.result])
                    ELSE TRUE
            ELSE TLCSet(2, 1)
Accepted == IF TLCGet(2) = 1 THEN TRUE
            ELSE /\ PrintT("TRACE-REJECTED at event run " \o ToString(TLCGet(1) \div 100000) \o ", after "
                           \o ToString(TLCGet(1) % 100000) \o " events of that run were explained; furthest state: "
                           \o ToString(TLCGet(3)))
                 /\ FALSE
=============================================================================
