SPECIFICATION TraceSpec
CONSTANTS
  NT = @NT@
  MaxSends = 0
  FLimit = 0
  ILimit = 0
  Causes = {}
INVARIANTS TraceInv
CONSTRAINT Progress
POSTCONDITION Accepted
CHECK_DEADLOCK FALSE
