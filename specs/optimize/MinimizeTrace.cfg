SPECIFICATION TraceSpec
CONSTANTS
  NT = @NT@
  MaxSends = 0
  FLimit = 0
  GLimit = 0
  HLimit = 0
  ILimit = 0
  Causes = {}
  Kinds = {}
  MaxRuns = 0
INVARIANTS TraceInv
CONSTRAINT Progress
POSTCONDITION Accepted
CHECK_DEADLOCK FALSE
