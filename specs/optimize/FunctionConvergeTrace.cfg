SPECIFICATION TraceSpec
CONSTANTS
  VMax = 0
  MaxLen = 0
  ItersSet = {}
  AbsSet = {}
  RelNumSet = {}
  RelDen = 4
  ReInit = FALSE
  Emit = FALSE
INVARIANTS TraceInv
POSTCONDITION Accepted
CHECK_DEADLOCK FALSE
