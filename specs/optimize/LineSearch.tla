---------------------------- MODULE LineSearch ----------------------------
(* C19, clause "line searches return steps satisfying their advertised conditions".        *)
(*                                                                                          *)
(* The state machine of optimize.LinesearchMethod (optimize/linesearch.go) composed with    *)
(* one optimize.Linesearcher, at the grain of the calls that cross the Linesearcher         *)
(* interface and of the operations LinesearchMethod hands back to its driver:               *)
(*                                                                                          *)
(*   init   Linesearcher.Init(f0, g0, step) -> op          (start of a line search)         *)
(*   eval   LinesearchMethod asks for the evaluation `what` at the current trial point       *)
(*   iter   Linesearcher.Iterate(f, g) -> (op | major | error, step)                        *)
(*   major  LinesearchMethod announces MajorIteration                                       *)
(*   fail   LinesearchMethod returns an error (run over)                                    *)
(*   end    the run stops for a reason outside the line search (limits, thresholds)         *)
(*   reinit LinesearchMethod.Init is called again on the SAME LinesearchMethod value (and the  *)
(*          same Linesearcher / NextDirectioner values) after a run was stopped anywhere -     *)
(*          in particular while the evaluation completing an accepted step was outstanding -   *)
(*          or failed: the next run starts from the state of a fresh value                     *)
(*                                                                                          *)
(* Real-valued data never enter the model.  Every event carries the truth values of the      *)
(* inequalities the documentation names, computed at the logging boundary from the values    *)
(* the real code produced: 0 = false, 1 = true, 2 = not decidable at the boundary (within a  *)
(* few ulp of equality, or not observable in that recording mode).  The specification says   *)
(* WHEN they must hold:                                                                      *)
(*   * Linesearcher.Init is only called with a descent direction and a positive step, the    *)
(*     step is the NextDirectioner's, f0/g0 are the data of the last accepted location;      *)
(*   * what is evaluated is exactly what the Linesearcher asked for, at one and the same     *)
(*     point as long as the step does not change; the values handed to Iterate are the ones   *)
(*     evaluated at the current step, NaN for what has not been evaluated there;             *)
(*   * a Linesearcher may conclude (major) only at the step just evaluated, only when every   *)
(*     quantity its conditions mention has been evaluated there, and only when its           *)
(*     advertised conditions hold there (Backtracking: Armijo; Bisection: strong Wolfe with   *)
(*     decrease 0; MoreThuente: strong Wolfe with its two factors); steps are positive;       *)
(*   * it does not walk past a step at which its conditions are known to hold;               *)
(*   * Backtracking only ever contracts (step *= ContractionFactor) and never asks for the    *)
(*     gradient; Bisection stays below the largest trial step once a trial step was           *)
(*     followed by a smaller one (bracket closed); MoreThuente stays inside [MinimumStep, MaximumStep];                *)
(*   * LinesearchMethod announces MajorIteration only after completing the location (the      *)
(*     complement of what was evaluated), at the accepted point, with the accepted value;    *)
(*   * failures surface as the documented errors (ErrLinesearcherFailure, ErrLinesearcherBound*)
(*     only at MaximumStep, ErrNonDescentDirection only for g0 >= 0, ErrNoProgress only when  *)
(*     the trial point equals the start point) and end the run.                              *)
(*                                                                                          *)
(* ls = "script" is an unconstrained Linesearcher (any operation at any time): with it the   *)
(* module is the exact reference for LinesearchMethod itself and TLC is the generator of all *)
(* bounded behaviours replayed into the real LinesearchMethod (R2).                          *)
EXTENDS Integers, Sequences, FiniteSets, TLC, Json

CONSTANTS Kinds,      \* Linesearcher kinds explored by the model (R1/R2)
          WithH,      \* locations carry a Hessian (complement includes "H")
          MaxIter,    \* bound on Linesearcher.Iterate calls in one behaviour (R1/R2)
          MaxSearch,  \* bound on line searches in one behaviour (R1/R2)
          MaxRuns,    \* runs made with one LinesearchMethod value in one behaviour (R1/R2)
          Emit        \* R2: print every complete behaviour

VARIABLES ph,       \* "idle" | "eval" | "ready" | "finish" | "lserr" | "stopped"
          ls,       \* kind of the Linesearcher of this run
          ev,       \* what is valid (evaluated) at the current trial point, subset of {"F","G","H"}
          want,     \* what LinesearchMethod has to ask for next
          pend,     \* "search": the Linesearcher is still searching; "finish": it concluded
          acc,      \* flags of the concluding iter event (for the theorems)
          first,    \* no line search has been initialised in this run yet
          tinyp,    \* flag: the pending trial point equals the start point (0/1/2)
          perr,     \* error the Linesearcher returned
          bounded,  \* a trial step above the current one exists (bracket closed)
          nit, nls, nmaj,  \* bookkeeping of the bounded model (counted over all runs of a behaviour)
          nrun,     \* number of the run made with this LinesearchMethod value
          h         \* history (R2 only)

vars == <<ph, ls, ev, want, pend, acc, first, tinyp, perr, bounded, nit, nls, nmaj, nrun, h>>

AllKinds == {"backtracking", "bisection", "morethuente", "script"}
Full == IF WithH THEN {"F", "G", "H"} ELSE {"F", "G"}
OpSet(s) == CASE s = "F" -> {"F"} [] s = "G" -> {"G"} [] s = "FG" -> {"F", "G"}
              [] s = "H" -> {"H"} [] s = "FH" -> {"F", "H"} [] s = "GH" -> {"G", "H"}
              [] s = "FGH" -> {"F", "G", "H"} [] OTHER -> {}
OpName(S) == (IF "F" \in S THEN "F" ELSE "") \o (IF "G" \in S THEN "G" ELSE "") \o (IF "H" \in S THEN "H" ELSE "")
EvalOps == {"F", "G", "FG"}           \* what a Linesearcher may ask for
ErrNames == {"lsfailure", "lsbound", "other"}

May(p) == p # 0        \* not known to be false
MayNot(p) == p # 1     \* not known to be true

\* quantities the advertised conditions of a kind mention
Needed(k) == CASE k = "backtracking" -> {"F"} [] k = "script" -> {} [] OTHER -> {"F", "G"}
CondsMay(k, a, c) == CASE k = "backtracking" -> May(a) [] k = "script" -> TRUE [] OTHER -> May(a) /\ May(c)
CondsKnown(k, a, c) == CASE k = "backtracking" -> a = 1 [] k = "script" -> FALSE [] OTHER -> a = 1 /\ c = 1

NoAcc == [armijo |-> 2, curv |-> 2, pos |-> 2, evs |-> {}, set |-> FALSE]

Hist(e) == h' = IF Emit THEN Append(h, e) ELSE h

----------------------------------------------------------------------------
Start(k) ==
    /\ ph' = "idle" /\ ls' = k /\ ev' = Full /\ want' = {} /\ pend' = "none" /\ acc' = NoAcc
    /\ first' = TRUE /\ tinyp' = 0 /\ perr' = "" /\ bounded' = FALSE /\ nit' = 0 /\ nls' = 0 /\ nmaj' = 0
    /\ nrun' = 1

\* LinesearchMethod.Init on a value that has been used: the protocol state of a fresh value.  Nothing
\* of the stopped run survives: no pending conclusion (pend), no evaluation still wanted, the
\* location handed to Init is complete, the first direction comes from InitDirection again.
ReInit(e) ==
    /\ e.k = "reinit" /\ ph = "stopped"
    /\ ph' = "idle" /\ ev' = Full /\ want' = {} /\ pend' = "none" /\ acc' = NoAcc
    /\ first' = TRUE /\ tinyp' = 0 /\ perr' = "" /\ bounded' = FALSE
    /\ nrun' = nrun + 1
    /\ UNCHANGED <<ls, nit, nls, nmaj>>

\* Linesearcher.Init, called by LinesearchMethod.initNextLinesearch
InitLS(e) ==
    /\ e.k = "init" /\ ph = "idle"
    /\ e.panic = 0
    /\ e.op \in EvalOps
    /\ (ls = "backtracking" => e.op = "F")          \* "only requires the gradient at the beginning of each major iteration"
    /\ (ls = "bisection" => e.op \in {"F", "FG"})
    /\ e.nd \in {"na", IF first THEN "init" ELSE "next"}
    /\ MayNot(e.g0nonneg) /\ May(e.steppos) /\ May(e.stepeq) /\ May(e.f0eq) /\ May(e.g0eq)
    /\ ph' = "eval" /\ want' = OpSet(e.op) /\ ev' = {} /\ pend' = "search" /\ first' = FALSE
    /\ tinyp' = e.tiny /\ bounded' = FALSE /\ nls' = nls + 1 /\ acc' = NoAcc
    /\ UNCHANGED <<ls, perr, nit, nmaj, nrun>>

\* LinesearchMethod hands an evaluation to its driver
Eval(e) ==
    /\ e.k = "eval" /\ ph = "eval" /\ MayNot(tinyp)
    /\ e.what = OpName(want)
    /\ (ev # {} => May(e.samex))                    \* extra information is evaluated at the same point
    /\ May(e.xeq)                                   \* the point is start + step * dir
    /\ ev' = ev \cup want /\ want' = {} /\ tinyp' = 0
    /\ ph' = IF pend = "search" THEN "ready" ELSE "finish"
    /\ UNCHANGED <<ls, pend, acc, first, perr, bounded, nit, nls, nmaj, nrun>>

IterErr(e) ==
    /\ e.res \in ErrNames
    /\ (ls = "backtracking" => e.res = "lsfailure" /\ MayNot(e.armijo))
    /\ (ls = "bisection" => e.res = "lsfailure")
    /\ (ls = "morethuente" => \/ e.res = "lsfailure"
                              \/ e.res = "lsbound" /\ May(e.atmax) /\ May(e.armijo))
    /\ ph' = "lserr" /\ perr' = e.res
    /\ UNCHANGED <<ev, want, pend, acc, tinyp, bounded>>

IterMajor(e) ==
    /\ e.res = "major"
    /\ (ls # "script" => /\ Needed(ls) \subseteq ev
                         /\ CondsMay(ls, e.armijo, e.curv)
                         /\ May(e.same)              \* "found at the previous step"
                         /\ May(e.curpos))
    /\ acc' = [armijo |-> e.armijo, curv |-> e.curv, pos |-> e.curpos, evs |-> ev, set |-> TRUE]
    /\ want' = Full \ ev /\ pend' = "finish" /\ tinyp' = 0
    /\ ph' = IF Full \subseteq ev THEN "finish" ELSE "eval"
    /\ UNCHANGED <<ev, perr, bounded>>

IterCont(e) ==
    /\ e.res \in EvalOps
    /\ ~CondsKnown(ls, e.armijo, e.curv)             \* does not walk past an acceptable step
    /\ IF e.same = 1
         THEN \* more information at the same step
              /\ ls # "backtracking"
              /\ (ls # "script" => ~(OpSet(e.res) \subseteq ev))
              /\ want' = OpSet(e.res) /\ ph' = "eval" /\ tinyp' = 0
              /\ UNCHANGED <<ev, bounded>>
         ELSE \* a new trial step
              /\ May(e.steppos)
              /\ (ls = "backtracking" => e.res = "F" /\ MayNot(e.armijo) /\ May(e.less) /\ May(e.contr))
              /\ (ls = "bisection" => (bounded => e.nabove > 0))
              /\ (ls = "morethuente" => May(e.inb))
              /\ bounded' = (bounded \/ e.nabove > 0)
              /\ ev' = {} /\ want' = OpSet(e.res) /\ ph' = "eval" /\ tinyp' = e.tiny
    /\ UNCHANGED <<pend, acc, perr>>

\* Linesearcher.Iterate, called by LinesearchMethod.Iterate
Iter(e) ==
    /\ e.k = "iter" /\ ph = "ready"
    /\ IF "F" \in ev THEN May(e.feq) ELSE May(e.fnan)      \* the value evaluated at this step, else NaN
    /\ IF "G" \in ev THEN May(e.geq) ELSE May(e.gnan)
    /\ (ls = "script" => /\ e.feq = (IF "F" \in ev THEN 1 ELSE 0) /\ e.fnan = 1 - e.feq
                         /\ e.geq = (IF "G" \in ev THEN 1 ELSE 0) /\ e.gnan = 1 - e.geq)
    /\ nit' = nit + 1
    /\ (IterErr(e) \/ IterMajor(e) \/ IterCont(e))
    /\ UNCHANGED <<ls, first, nls, nmaj, nrun>>

\* LinesearchMethod announces MajorIteration
Major(e) ==
    /\ e.k = "major" /\ ph = "finish" /\ want = {}
    /\ May(e.feq) /\ May(e.xeq)
    /\ ph' = "idle" /\ pend' = "none" /\ nmaj' = nmaj + 1
    /\ UNCHANGED <<ls, ev, want, acc, first, tinyp, perr, bounded, nit, nls, nrun>>

\* LinesearchMethod returns an error
Fail(e) ==
    /\ e.k = "fail"
    /\ \/ ph = "lserr" /\ e.err = perr
       \/ ph = "idle" /\ e.err = "nondescent" /\ May(e.g0nonneg)
       \/ ph = "eval" /\ ev = {} /\ e.err = "noprogress" /\ May(tinyp)
    /\ ph' = "stopped"
    /\ UNCHANGED <<ls, ev, want, pend, acc, first, tinyp, perr, bounded, nit, nls, nmaj, nrun>>

\* the run is stopped from outside (limit, threshold, recorder)
End(e) ==
    /\ e.k = "end" /\ ph \notin {"lserr", "stopped"} /\ MayNot(tinyp)
    /\ ph' = "stopped"
    /\ UNCHANGED <<ls, ev, want, pend, acc, first, tinyp, perr, bounded, nit, nls, nmaj, nrun>>

Step(e) == InitLS(e) \/ Eval(e) \/ Iter(e) \/ Major(e) \/ Fail(e) \/ End(e) \/ ReInit(e)

----------------------------------------------------------------------------
(* Event domains of the model (R1: every flag value; R2 "script": the deterministic ones) *)
B == {0, 1}
T == {0, 1, 2}
ArgF == {<<1, 0>>, <<0, 1>>, <<0, 0>>}    \* <<equals the evaluated value, is NaN>>

InitEvents ==
    IF ls = "script"
    THEN {[k |-> "init", op |-> o, tiny |-> t, panic |-> 0, nd |-> IF first THEN "init" ELSE "next",
           g0nonneg |-> 0, steppos |-> 1, stepeq |-> 1, f0eq |-> 1, g0eq |-> 1] : o \in EvalOps, t \in B}
    ELSE {[k |-> "init", op |-> o, tiny |-> t, panic |-> p, nd |-> n,
           g0nonneg |-> g, steppos |-> s, stepeq |-> q, f0eq |-> 1, g0eq |-> 1] :
           o \in EvalOps, t \in T, p \in B, n \in {"init", "next", "na"}, g \in T, s \in T, q \in T}

EvalEvents ==
    IF ls = "script"
    THEN {[k |-> "eval", what |-> OpName(want), samex |-> IF ev = {} THEN 0 ELSE 1, xeq |-> 1]}
    ELSE {[k |-> "eval", what |-> w, samex |-> s, xeq |-> x] :
           w \in {"F", "G", "FG", "H", "FH", "GH", "FGH"}, s \in T, x \in T}

IterCommon ==
    {[res |-> r, same |-> s, armijo |-> a, curv |-> c, tiny |-> t, fa |-> fa, ga |-> ga, curpos |-> cp, steppos |-> sp] :
       r \in EvalOps \cup {"major", "lsfailure", "lsbound"}, s \in B, a \in T, c \in T, t \in B,
       fa \in ArgF, ga \in ArgF, cp \in B, sp \in B}

Mk(c, x1, x2, x3, x4, x5, x6) ==
    [k |-> "iter", res |-> c.res, same |-> c.same, armijo |-> c.armijo, curv |-> c.curv, tiny |-> c.tiny,
     feq |-> c.fa[1], fnan |-> c.fa[2], geq |-> c.ga[1], gnan |-> c.ga[2], curpos |-> c.curpos,
     steppos |-> c.steppos, less |-> x1, contr |-> x2, nabove |-> x3, ndup |-> x4, atmax |-> x5, inb |-> x6]

IterEvents ==
    CASE ls = "script" ->
           {e \in {[k |-> "iter", res |-> r, same |-> s, tiny |-> t, armijo |-> 2, curv |-> 2,
                    feq |-> IF "F" \in ev THEN 1 ELSE 0, fnan |-> IF "F" \in ev THEN 0 ELSE 1,
                    geq |-> IF "G" \in ev THEN 1 ELSE 0, gnan |-> IF "G" \in ev THEN 0 ELSE 1,
                    curpos |-> 1, steppos |-> 1, less |-> 2, contr |-> 2, nabove |-> 0, ndup |-> 0,
                    atmax |-> 2, inb |-> 2] :
                    r \in EvalOps \cup {"major", "lsfailure", "other"}, s \in B, t \in B} :
              /\ ~(e.same = 1 /\ e.tiny = 1)                               \* same step: the point does not move
              /\ (e.res \in EvalOps \/ (e.same = 1 /\ e.tiny = 0))}        \* one representative for major / errors
      [] ls = "backtracking" -> {Mk(c, x1, x2, 0, 0, 2, 2) : c \in IterCommon, x1 \in B, x2 \in B}
      [] ls = "bisection" -> {Mk(c, 2, 2, x3, x4, 2, 2) : c \in IterCommon, x3 \in B, x4 \in B}
      [] OTHER -> {Mk(c, 2, 2, 0, 0, x5, x6) : c \in IterCommon, x5 \in B, x6 \in B}

MajorEvents == IF ls = "script" THEN {[k |-> "major", feq |-> 1, xeq |-> 1]}
               ELSE {[k |-> "major", feq |-> f, xeq |-> x] : f \in T, x \in T}

FailEvents ==
    IF ls = "script"
    THEN CASE ph = "lserr" -> {[k |-> "fail", err |-> perr, g0nonneg |-> 2]}
           [] ph = "idle" -> {[k |-> "fail", err |-> "nondescent", g0nonneg |-> 1]}
           [] ph = "eval" /\ tinyp = 1 -> {[k |-> "fail", err |-> "noprogress", g0nonneg |-> 2]}
           [] OTHER -> {}
    ELSE {[k |-> "fail", err |-> x, g0nonneg |-> g] :
           x \in {"lsfailure", "lsbound", "other", "nondescent", "noprogress"}, g \in T}

EndEvent == [k |-> "end"]
ReInitEvent == [k |-> "reinit"]

\* R2: a behaviour is complete when its last run is over; it is printed with the transition that ends it
EmitRun(e) ==
    IF Emit /\ ph' = "stopped" /\ nrun >= MaxRuns
    THEN PrintT(ToJson([ls |-> ls, withH |-> IF WithH THEN 1 ELSE 0, ev |-> Append(h, e)]))
    ELSE TRUE

Do(e) == Step(e) /\ Hist(e) /\ EmitRun(e)

Init == /\ \E k \in Kinds : /\ ph = "idle" /\ ls = k
        /\ ev = Full /\ want = {} /\ pend = "none" /\ acc = NoAcc /\ first = TRUE /\ tinyp = 0
        /\ perr = "" /\ bounded = FALSE /\ nit = 0 /\ nls = 0 /\ nmaj = 0 /\ nrun = 1 /\ h = <<>>

Next ==
    \/ /\ ph = "idle" /\ nls < MaxSearch /\ nit < MaxIter /\ \E e \in InitEvents : Do(e)
    \/ /\ ph = "eval" /\ \E e \in EvalEvents : Do(e)
    \/ /\ ph = "ready" /\ nit < MaxIter /\ \E e \in IterEvents : Do(e)
    \/ /\ ph = "finish" /\ \E e \in MajorEvents : Do(e)
    \/ /\ ph \in {"lserr", "idle", "eval"} /\ \E e \in FailEvents : Do(e)
    \* the model stops a run from outside only where the bound forces it (R2 needs complete runs;
    \* in R1 End is also explored everywhere, see NextR1)
    \/ /\ \/ ph = "ready" /\ nit >= MaxIter
          \/ ph = "idle" /\ (nls >= MaxSearch \/ nit >= MaxIter)
          \* a run that is not the last one of the behaviour is stopped anywhere: between a trial
          \* evaluation and Iterate, while the complement of an accepted step is outstanding, ...
          \* (not before its first line search: Init starts that one itself; and only while the bounds
          \* leave room for another run)
          \/ /\ nrun < MaxRuns /\ nls < MaxSearch /\ nit < MaxIter
             /\ (ph \in {"eval", "ready", "finish"} \/ (ph = "idle" /\ ~first))
       /\ Do(EndEvent)
    \* ... and the same LinesearchMethod value is initialised again
    \/ /\ ph = "stopped" /\ nrun < MaxRuns /\ nls < MaxSearch /\ nit < MaxIter /\ Do(ReInitEvent)

NextR1 == Next \/ Do(EndEvent)

Spec == Init /\ [][Next]_vars
SpecR1 == Init /\ [][NextR1]_vars

----------------------------------------------------------------------------
(* Theorems checked by TLC (R1) *)
TypeOK ==
    /\ ph \in {"idle", "eval", "ready", "finish", "lserr", "stopped"}
    /\ ls \in AllKinds /\ ev \subseteq Full /\ want \subseteq Full
    /\ pend \in {"none", "search", "finish"} /\ tinyp \in T /\ perr \in ErrNames \cup {""}
    /\ bounded \in BOOLEAN /\ first \in BOOLEAN /\ nrun >= 1

\* the Linesearcher concluded: its advertised conditions are not known to be false at the step
\* they were evaluated at, everything they mention was evaluated there, and the step is positive
ConcludedSound ==
    (pend = "finish" /\ ls # "script") =>
        /\ acc.set /\ Needed(ls) \subseteq acc.evs
        /\ CondsMay(ls, acc.armijo, acc.curv)
        /\ May(acc.pos)

\* MajorIteration is announced on a complete location only
CompleteAtMajor == (ph = "finish" /\ want = {}) => ev = Full
IdleComplete == ph = "idle" => ev = Full

\* nothing is evaluated twice at one point on behalf of LinesearchMethod's complement
ComplementDisjoint == (ph = "eval" /\ pend = "finish") => (want \cap ev = {} /\ want # {})

\* an evaluation is pending exactly in phase "eval" (or the run was stopped while it was pending)
WantIffEval == /\ (ph = "eval" => want # {})
               /\ (want # {} => ph \in {"eval", "stopped"})

\* action property: a MajorIteration is unreachable in one step from a state in which the
\* conditions of the concluding step are known to be false or the location is incomplete
MajorOnlyWhenSound ==
    [][nmaj' = nmaj + 1 =>
         /\ ph = "finish" /\ ev = Full
         /\ (ls # "script" => CondsMay(ls, acc.armijo, acc.curv) /\ May(acc.pos) /\ Needed(ls) \subseteq acc.evs)]_vars

\* a Linesearcher error is never followed by anything but the end of the run
ErrIsFinal == [][ph = "lserr" => ph' \in {"lserr", "stopped"}]_vars
\* a stopped run is only ever followed by a new run on the same value, and that run starts from the
\* state of a fresh value: whatever was pending when the run was stopped is gone
StoppedIsFinal == [][ph = "stopped" => (ph' = "stopped" \/ nrun' = nrun + 1)]_vars
ReInitIsStart == [][nrun' = nrun + 1 =>
                      /\ ph = "stopped" /\ ph' = "idle" /\ pend' = "none" /\ want' = {} /\ ev' = Full
                      /\ first' /\ ~acc'.set /\ ~bounded' /\ perr' = "" /\ tinyp' = 0]_vars
\* no MajorIteration in a run before a Linesearcher of that run has concluded
NoMajorWithoutConclusion == (pend = "none" /\ ph # "stopped") => ph = "idle"
=============================================================================
