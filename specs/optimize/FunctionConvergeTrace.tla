------------------------- MODULE FunctionConvergeTrace -------------------------
(* R3: accepts the log of a recording proxy around a real optimize.FunctionConverge used as   *)
(* Settings.Converger of real optimize.Minimize runs on integer-valued objectives iff every   *)
(* returned status is the one the specification's machine returns, the documented window      *)
(* (RefStatus over the whole history) agrees, and Minimize reports FunctionConvergence exactly *)
(* when the converger said so.  Runs are concatenated; a "run" event carries the settings.    *)
EXTENDS FunctionConverge, TLCExt

TraceLog == ndJsonDeserialize("trace.ndjson")
VARIABLE l
tvars == <<vars, l>>
Ev == TraceLog[l]

TRun == /\ Ev.k = "run"
        /\ iters' = Ev.iters /\ absn' = Ev.abs /\ reln' = Ev.reln
        /\ first' = FALSE /\ best' = 0 /\ cnt' = 0 /\ fs' = <<>> /\ last' = "new"
        /\ UNCHANGED <<n, inits, h>>
TInit == /\ Ev.k = "init" /\ DoInit /\ UNCHANGED <<n, inits, h>>
TCall == /\ Ev.k = "call" /\ last # "new"          \* Minimize initialises the converger first
         /\ DoCall(Ev.f) /\ last' = Ev.st
         /\ UNCHANGED <<n, inits, h>>
\* the status Minimize reported
TResult == /\ Ev.k = "result"
           /\ (Ev.st = "fconv") <=> (last = "fconv")
           /\ UNCHANGED vars

TraceInit == /\ iters = 0 /\ absn = 0 /\ reln = 0 /\ first = FALSE /\ best = 0 /\ cnt = 0 /\ fs = <<>>
             /\ last = "new" /\ n = 0 /\ inits = 0 /\ h = <<>> /\ l = 1
TraceNext == /\ l <= Len(TraceLog) /\ (TRun \/ TInit \/ TCall \/ TResult) /\ l' = l + 1
TraceSpec == TraceInit /\ [][TraceNext]_tvars

TraceInv == Agrees /\ NeverWithoutWindow

Accepted ==
    LET d == TLCGet("stats").diameter IN
    IF d - 1 = Len(TraceLog) THEN PrintT("TRACE-ACCEPTED " \o ToString(Len(TraceLog)))
    ELSE /\ PrintT("TRACE-REJECTED at event " \o ToString(d) \o ": " \o ToString(TraceLog[d]))
         /\ FALSE
=============================================================================
