----------------------------- MODULE OptimTables -----------------------------
(* C19: the small value types and pure predicates of package optimize that a run of Minimize   *)
(* reports its outcome with.                                                                   *)
(*                                                                                              *)
(* Mode "registry" - optimize.Status as a registry (optimize/termination.go).  The package      *)
(*   starts with the fourteen documented constants; NewStatus(name, early, err) "returns a      *)
(*   unique Status variable to represent a custom status" whose String / Early / Err answer     *)
(*   what was registered; nothing registered earlier ever changes.  The registry is a state     *)
(*   machine (a growing sequence); TLC prints every history of at most MaxReg registrations     *)
(*   with the complete table of expected answers after every step.                              *)
(*   Documented facts about the constants: Early "returns true if the status indicates the      *)
(*   optimization ended before a minimum was found. As an example, if the maximum iterations    *)
(*   was reached, a minimum was not found, but if the gradient norm was reached then a minimum   *)
(*   was found"; "If Early returns false, Err will return nil"; the limits and Failure describe  *)
(*   stops before a minimum.  The texts are left open: String must be non-empty and different    *)
(*   for different constants, Err non-nil for the early ones.  NotTerminated is no ending at     *)
(*   all: its Early answer is left open.  A user status registered with early = FALSE and an     *)
(*   error: NewStatus says Err returns that error, Err says it returns nil - both accepted.      *)
(*   NewStatus is documented as not thread safe: the calls of a history are made from one        *)
(*   goroutine, or from eight goroutines one after the other (harness lock), never in parallel.  *)
(* Mode "wolfe" - ArmijoConditionMet, StrongWolfeConditionsMet, WeakWolfeConditionsMet           *)
(*   (optimize/linesearch.go) tabulated on a grid of dyadic rationals (unit 1/8; every product    *)
(*   and sum the documented formulas contain is exact in binary floating point) chosen so that    *)
(*   each inequality is met with equality, just below and just above.                             *)
(* Mode "text" - ErrFunc / ErrGrad ("The error state may be either +Inf or NaN", "Index is the    *)
(*   position at which the invalid gradient was found"): the message is non-empty and, for        *)
(*   ErrGrad, mentions the index.  Operation names: distinct operations have distinct names.      *)
EXTENDS Integers, Sequences, FiniteSets, TLC, Json

CONSTANTS Mode, MaxReg

(* ------------------------------------ registry ------------------------------------------- *)
\* early: 1 yes, 0 no, 2 left open
Builtin == <<
  [id |-> "NotTerminated",            early |-> 2],
  [id |-> "Success",                  early |-> 0],
  [id |-> "FunctionThreshold",        early |-> 0],
  [id |-> "FunctionConvergence",      early |-> 0],
  [id |-> "GradientThreshold",        early |-> 0],
  [id |-> "StepConvergence",          early |-> 0],
  [id |-> "FunctionNegativeInfinity", early |-> 0],
  [id |-> "MethodConverge",           early |-> 0],
  [id |-> "Failure",                  early |-> 1],
  [id |-> "IterationLimit",           early |-> 1],
  [id |-> "RuntimeLimit",             early |-> 1],
  [id |-> "FunctionEvaluationLimit",  early |-> 1],
  [id |-> "GradientEvaluationLimit",  early |-> 1],
  [id |-> "HessianEvaluationLimit",   early |-> 1] >>

Names == {"custom", "Failure", ""}       \* a name need not be new, nor non-empty

VARIABLES reg,     \* user registrations so far: <<[name, early, haserr]>>; the k-th one is status "u<k>"
          steps    \* history: after every registration the complete table of answers

rvars == <<reg, steps>>

\* err: "nil" | "some" (any non-nil error) | "own" (the very error value registered with this status)
\*      | "own-or-nil"
BuiltinRow(b) == [id |-> b.id, user |-> 0, str |-> "", early |-> b.early,
                  err |-> IF b.early = 1 THEN "some" ELSE IF b.early = 0 THEN "nil" ELSE "open"]
UserRow(k, u) == [id |-> "u" \o ToString(k), user |-> k, str |-> u.name, early |-> u.early,
                  err |-> IF u.haserr = 0 THEN "nil" ELSE IF u.early = 1 THEN "own" ELSE "own-or-nil"]
Table(r) == [i \in 1 .. Len(Builtin) |-> BuiltinRow(Builtin[i])] \o [k \in 1 .. Len(r) |-> UserRow(k, r[k])]

RegInit == reg = <<>> /\ steps = <<>>
Register(nm, e, he) ==
    /\ reg' = Append(reg, [name |-> nm, early |-> e, haserr |-> he])
    /\ steps' = Append(steps, [name |-> nm, early |-> e, haserr |-> he, returns |-> "u" \o ToString(Len(reg) + 1),
                               table |-> Table(reg')])
RegNext == /\ Len(reg) < MaxReg
           /\ \E nm \in Names, e \in {0, 1}, he \in {0, 1} : Register(nm, e, he)
           /\ (Len(reg') = MaxReg => PrintT(ToJson([k |-> "registry", steps |-> steps'])))

\* R1: identities are unique, a registration changes no earlier row, builtin rows obey "not early => no error"
Ids(t) == {t[i].id : i \in 1 .. Len(t)}
RegInv == /\ Cardinality(Ids(Table(reg))) = Len(Builtin) + Len(reg)
          /\ \A i \in 1 .. Len(steps) : \A j \in 1 .. Len(steps[i].table) : Table(reg)[j] = steps[i].table[j]
          /\ \A i \in 1 .. Len(Builtin) : BuiltinRow(Builtin[i]).early = 0 => BuiltinRow(Builtin[i]).err = "nil"

(* -------------------------------------- Wolfe --------------------------------------------- *)
\* all quantities in units of 1/8
Abs(x) == IF x < 0 THEN -x ELSE x
\* currObj <= initObj + decrease * step * initGrad
Armijo(co, io, ig, st, de) == 64 * (co - io) <= de * st * ig
\* |currGrad| < curvature * |initGrad|
Strong(co, cg, io, ig, st, de, cu) == Armijo(co, io, ig, st, de) /\ 8 * Abs(cg) < cu * Abs(ig)
\* currGrad >= curvature * initGrad
Weak(co, cg, io, ig, st, de, cu) == Armijo(co, io, ig, st, de) /\ 8 * cg >= cu * ig

InitObjs == {0, 8, -24}
InitGrads == {-16, -8, 0, 8}          \* 8: not a descent direction ("not enforced")
StepsW == {4, 8, 16}
Decs == {0, 2, 4}                     \* 0, 1/4, 1/2
Curvs == {4, 6}                       \* 1/2, 3/4
\* the value of currObj at which the decrease condition holds with equality (an integer: de*st*ig is a multiple of 64)
ArmijoEdge(io, ig, st, de) == io + (de * st * ig) \div 64
CurrObjs(io, ig, st, de) == {ArmijoEdge(io, ig, st, de) + d : d \in {-1, 0, 1}}
\* |currGrad| at which the strong curvature condition flips, currGrad at which the weak one flips
StrongEdge(ig, cu) == (cu * Abs(ig)) \div 8
WeakEdge(ig, cu) == (cu * ig) \div 8
CurrGrads(ig, cu) == {s * (StrongEdge(ig, cu) + d) : s \in {-1, 1}, d \in {-1, 0, 1}} \cup {WeakEdge(ig, cu) + d : d \in {-1, 0, 1}}

VARIABLES wcase
WolfeInit == \E io \in InitObjs, ig \in InitGrads, st \in StepsW, de \in Decs, cu \in Curvs :
               \E co \in CurrObjs(io, ig, st, de), cg \in CurrGrads(ig, cu) :
                  wcase = [k |-> "wolfe", co |-> co, cg |-> cg, io |-> io, ig |-> ig, st |-> st, de |-> de, cu |-> cu,
                           armijo |-> Armijo(co, io, ig, st, de),
                           strong |-> Strong(co, cg, io, ig, st, de, cu),
                           weak |-> Weak(co, cg, io, ig, st, de, cu)]
WolfeEmit == PrintT(ToJson(wcase))
\* R1: the grid is exact (the edges are integers), under the documented normal conditions the strong
\* conditions imply the weak ones, and each verdict occurs at, below and above its edge
WolfeInv == /\ (wcase.de * wcase.st * wcase.ig) % 64 = 0 /\ (wcase.cu * wcase.ig) % 8 = 0
            /\ (wcase.ig <= 0 /\ wcase.strong) => wcase.weak
            /\ wcase.strong => wcase.armijo
            /\ wcase.weak => wcase.armijo

(* --------------------------------------- text --------------------------------------------- *)
VARIABLES tcase
Ops == <<"NoOperation", "InitIteration", "MajorIteration", "PostIteration", "MethodDone",
         "FuncEvaluation", "GradEvaluation", "HessEvaluation", "Func|Grad", "Func|Hess", "Grad|Hess", "Func|Grad|Hess">>
TextInit ==
    \/ \E kind \in {"pinf", "ninf", "nan"}, idx \in {0, 1, 7, 12, 305} :
          tcase = [k |-> "errgrad", kind |-> kind, idx |-> idx, nonempty |-> TRUE, mentions |-> idx]
    \/ \E kind \in {"pinf", "nan"} : tcase = [k |-> "errfunc", kind |-> kind, idx |-> 0, nonempty |-> TRUE, mentions |-> -1]
    \/ tcase = [k |-> "opnames", ops |-> Ops, distinct |-> TRUE, nonempty |-> TRUE]
TextEmit == PrintT(ToJson(tcase))

(* ------------------------------------------------------------------------------------------ *)
vars == <<reg, steps, wcase, tcase>>
Init == CASE Mode = "registry" -> RegInit /\ wcase = 0 /\ tcase = 0
          [] Mode = "wolfe" -> WolfeInit /\ reg = <<>> /\ steps = <<>> /\ tcase = 0
          [] Mode = "text" -> TextInit /\ reg = <<>> /\ steps = <<>> /\ wcase = 0
Next == Mode = "registry" /\ RegNext /\ UNCHANGED <<wcase, tcase>>
Spec == Init /\ [][Next]_vars

Inv == CASE Mode = "registry" -> RegInv
         [] Mode = "wolfe" -> WolfeInv /\ WolfeEmit
         [] Mode = "text" -> TextEmit
=============================================================================
