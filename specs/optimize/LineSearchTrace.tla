---------------------------- MODULE LineSearchTrace ----------------------------
(* R3: accepts an ndjson log of real line searches iff it is a behaviour of LineSearch.      *)
(* The log is produced by a recording proxy around a real optimize.Linesearcher              *)
(* (Backtracking, Bisection, MoreThuente) used by the real optimize.LinesearchMethod, either  *)
(* inside real optimize.Minimize runs of GradientDescent / BFGS / LBFGS / CG (operations seen *)
(* through the Recorder) or driven directly (then the NextDirectioner's direction and step    *)
(* are observed as well).  Every event carries the logging-boundary predicates described in   *)
(* LineSearch.tla; runs are concatenated with "reset" events.                                 *)
EXTENDS LineSearch, TLCExt

TraceLog == ndJsonDeserialize("trace.ndjson")
VARIABLE l
tvars == <<vars, l>>
Ev == TraceLog[l]

TReset == /\ Ev.k = "reset" /\ Ev.ls \in AllKinds /\ Start(Ev.ls) /\ h' = h
\* ("reinit" events - the same LinesearchMethod / Linesearcher / method values used for another run - are
\* the model's ReInit action, part of Step)
TStep == /\ Ev.k # "reset" /\ Step(Ev) /\ h' = h

TraceInit == /\ ph = "stopped" /\ ls = "script" /\ ev = Full /\ want = {} /\ pend = "none" /\ acc = NoAcc
             /\ first = TRUE /\ tinyp = 0 /\ perr = "" /\ bounded = FALSE /\ nit = 0 /\ nls = 0 /\ nmaj = 0 /\ nrun = 1
             /\ h = <<>> /\ l = 1
TraceNext == /\ l <= Len(TraceLog) /\ (TReset \/ TStep) /\ l' = l + 1
TraceSpec == TraceInit /\ [][TraceNext]_tvars

\* the theorems of the model, evaluated on every state of the real history
TraceInv == TypeOK /\ ConcludedSound /\ CompleteAtMajor /\ IdleComplete /\ ComplementDisjoint /\ NoMajorWithoutConclusion

Accepted ==
    LET d == TLCGet("stats").diameter IN
    IF d - 1 = Len(TraceLog) THEN PrintT("TRACE-ACCEPTED " \o ToString(Len(TraceLog)))
    ELSE /\ PrintT("TRACE-REJECTED at event " \o ToString(d) \o ": " \o ToString(TraceLog[d]))
         /\ FALSE
=============================================================================
