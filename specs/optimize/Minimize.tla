------------------------------- MODULE Minimize -------------------------------
(* The concurrency protocol of gonum/optimize.Minimize (optimize/minimize.go),   *)
(* one action per channel operation / critical section of the code:              *)
(*   Method (environment; constrained only by the documented contract of         *)
(*   Method.Run), distributor goroutine, NT worker goroutines, and the stats     *)
(*   combiner (the loop in minimize()).                                          *)
(* Channels have their real capacities: operations, results buffered with NT     *)
(* slots; workerChan, statsChan unbuffered (a send and the matching receive are  *)
(* ONE joint action); done is only ever closed.  Sending on / closing a closed   *)
(* channel is an explicit error state.                                           *)
(* Several consecutive runs made with ONE Method value are part of the model:     *)
(* ReInit starts the next run from the state of Init (MaxRuns).                  *)
(* Shared by C09 (no deadlock, termination, callbacks counted exactly once, no   *)
(* goroutine left behind) and C19 (counters = callbacks, limits + slack, status  *)
(* names the stopping condition).                                                *)
EXTENDS Integers, Sequences, FiniteSets, TLC

CONSTANTS NT,        \* number of tasks = number of workers (Settings.Concurrent)
          MaxSends,  \* bound on the number of tasks the method sends (per run)
          FLimit,    \* Settings.FuncEvaluations (0: none)
          GLimit,    \* Settings.GradEvaluations (0: none)
          HLimit,    \* Settings.HessEvaluations (0: none)
          ILimit,    \* Settings.MajorIterations (0: none)
          Causes,    \* environment-controlled stop causes: subset of {"converge","recerr","mdone","probstatus","runtime"}
          Kinds,     \* kinds of evaluation the method may ask for: subset of 0..7, bit 0 = Func, bit 1 = Grad, bit 2 = Hess
          MaxRuns    \* number of consecutive Minimize calls made with ONE Method value (re-Init)

Ids == 1 .. NT
Wk  == 1 .. NT
\* a task: id = the token (Location) it carries, op its operation; f / g / h = 1 iff an evaluation
\* includes the objective function / gradient / Hessian (FuncEvaluation, GradEvaluation,
\* HessEvaluation bits), so that Func / Grad / Hess is called and counted.  Kind 0 stands for
\* an evaluation none of whose callbacks is tracked by the configuration at hand.
None == [id |-> 0, op |-> "none", f |-> 0, g |-> 0, h |-> 0]
Post == [id |-> 0, op |-> "post", f |-> 0, g |-> 0, h |-> 0]
SigDone == [id |-> 0, op |-> "sigdone", f |-> 0, g |-> 0, h |-> 0]
NoKind == 0

VARIABLES ops, opsClosed, res, resClosed, doneClosed, wcClosed, scClosed,   \* channels
          mheld, mstate, msends,                                            \* method
          dpc, dtask,                                                       \* distributor
          wpc, wtask,                                                       \* workers
          spc, stask, sstatus, workersDone,                                 \* stats combiner
          statsF, statsG, statsH,                                           \* Stats.*Evaluations
          callsF, callsG, callsH,                                           \* callbacks really made
          iters, posts, final, err,                                         \* bookkeeping / history
          run                                                               \* number of the run on this Method value

chans == <<ops, opsClosed, res, resClosed, doneClosed, wcClosed, scClosed>>
meth  == <<mheld, mstate, msends>>
dist  == <<dpc, dtask>>
work  == <<wpc, wtask>>
stat  == <<spc, stask, sstatus, workersDone>>
stats3 == <<statsF, statsG, statsH>>
calls3 == <<callsF, callsG, callsH>>
hist  == <<stats3, calls3, iters, posts, final, err, run>>
vars  == <<chans, meth, dist, work, stat, hist>>

Init ==
    /\ ops = <<>> /\ opsClosed = FALSE /\ res = <<>> /\ resClosed = FALSE
    /\ doneClosed = FALSE /\ wcClosed = FALSE /\ scClosed = FALSE
    /\ mheld = Ids /\ mstate = "run" /\ msends = 0
    /\ dpc = "select" /\ dtask = None
    /\ wpc = [w \in Wk |-> "recv"] /\ wtask = [w \in Wk |-> None]
    /\ spc = "recv" /\ stask = None /\ sstatus = "none" /\ workersDone = 0
    /\ statsF = 0 /\ statsG = 0 /\ statsH = 0 /\ callsF = 0 /\ callsG = 0 /\ callsH = 0
    /\ iters = 0 /\ posts = 0 /\ final = "none" /\ err = "none"
    /\ run = 1

\* The protocol state at the start of ANOTHER run made with the same Method value: exactly the
\* state of Init.  Minimize makes new channels, a new distributor, new workers and new Stats on
\* every call, Method.Init must bring the method back to "run" with no send made, and Run is
\* handed the new tasks; nothing of the previous run - a task in flight when it was stopped,
\* a MajorIteration the method still wanted to announce, a terminated status - survives.
FreshRun ==
    /\ ops' = <<>> /\ opsClosed' = FALSE /\ res' = <<>> /\ resClosed' = FALSE
    /\ doneClosed' = FALSE /\ wcClosed' = FALSE /\ scClosed' = FALSE
    /\ mheld' = Ids /\ mstate' = "run" /\ msends' = 0
    /\ dpc' = "select" /\ dtask' = None
    /\ wpc' = [w \in Wk |-> "recv"] /\ wtask' = [w \in Wk |-> None]
    /\ spc' = "recv" /\ stask' = None /\ sstatus' = "none" /\ workersDone' = 0
    /\ statsF' = 0 /\ statsG' = 0 /\ statsH' = 0 /\ callsF' = 0 /\ callsG' = 0 /\ callsH' = 0
    /\ iters' = 0 /\ posts' = 0 /\ final' = "none" /\ err' = "none"

(******************************** the Method *********************************)
\* Contract (doc of Method.Run): sends only tasks it holds; after PostIteration
\* only MajorIteration; keeps reading results until closed; then closes operations.
AllowedOps ==
    IF mstate = "post" THEN {"major"}
    ELSE IF msends = MaxSends - 1 THEN {"mdone"}          \* bounded model: the method gives up
    ELSE {"eval", "major", "noop"} \cup (IF "mdone" \in Causes THEN {"mdone"} ELSE {})

\* the channel effect of a send on operations (used by the trace specification too)
OpsSend(t) ==
    /\ Len(ops) < NT                                      \* buffered send
    /\ IF opsClosed THEN err' = "send on closed operations" /\ UNCHANGED ops
       ELSE ops' = Append(ops, t) /\ UNCHANGED err

MSend(i, o, k) ==
    /\ mstate \in {"run", "post"} /\ i \in mheld /\ msends < MaxSends /\ o \in AllowedOps
    /\ IF o = "eval" THEN k \in Kinds ELSE k = NoKind
    /\ OpsSend([id |-> i, op |-> o, f |-> k % 2, g |-> (k \div 2) % 2, h |-> k \div 4])
    /\ mheld' = mheld \ {i} /\ msends' = msends + 1
    /\ mstate' = IF o = "mdone" THEN "sentdone" ELSE mstate
    /\ UNCHANGED <<opsClosed, res, resClosed, doneClosed, wcClosed, scClosed, dist, work, stat,
                   stats3, calls3, iters, posts, final, run>>

MRecv ==
    /\ mstate # "closed" /\ res # <<>>
    /\ LET t == Head(res) IN
         /\ res' = Tail(res)
         /\ IF t.op = "post" THEN mstate' = "post" /\ UNCHANGED mheld
            ELSE mheld' = mheld \cup {t.id} /\ UNCHANGED mstate
    /\ UNCHANGED <<ops, opsClosed, resClosed, doneClosed, wcClosed, scClosed, msends, dist, work, stat, hist>>

MClose ==
    /\ mstate = "post" /\ resClosed /\ res = <<>>
    /\ opsClosed' = TRUE /\ mstate' = "closed"
    /\ UNCHANGED <<ops, res, resClosed, doneClosed, wcClosed, scClosed, mheld, msends, dist, work, stat, hist>>

(****************************** the distributor ******************************)
DSelectOp ==
    /\ dpc = "select" /\ ops # <<>>
    /\ dtask' = Head(ops) /\ ops' = Tail(ops)
    /\ dpc' = IF Head(ops).op \in {"noop", "major", "mdone"} THEN "sendStats" ELSE "sendWorker"
    /\ UNCHANGED <<opsClosed, res, resClosed, doneClosed, wcClosed, scClosed, meth, work, stat, hist>>

\* a receive on a closed, empty operations channel in the select loop yields a zero Task:
\* the code would forward a bogus NoOperation - an error the protocol must exclude
DSelectClosed ==
    /\ dpc = "select" /\ ops = <<>> /\ opsClosed
    /\ err' = "distributor received from closed operations before done"
    /\ UNCHANGED <<chans, meth, dist, work, stat, stats3, calls3, iters, posts, final, run>>

DSelectDone ==
    /\ dpc = "select" /\ doneClosed
    /\ wcClosed' = TRUE /\ dpc' = "drain"
    /\ UNCHANGED <<ops, opsClosed, res, resClosed, doneClosed, scClosed, meth, dtask, work, stat, hist>>

\* statsChan <- task : joint with the stats combiner's receive
DSendStats ==
    /\ dpc \in {"sendStats", "drainSend"} /\ spc = "recv"
    /\ IF scClosed THEN err' = "send on closed statsChan" ELSE UNCHANGED err
    /\ stask' = dtask /\ spc' = "proc"
    /\ dpc' = IF dpc = "sendStats" THEN "select" ELSE "drain"
    /\ dtask' = None
    /\ UNCHANGED <<chans, meth, work, sstatus, workersDone, stats3, calls3, iters, posts, final, run>>

\* workerChan <- task : joint with worker w's receive
DSendWorker(w) ==
    /\ dpc = "sendWorker" /\ wpc[w] = "recv" /\ ~wcClosed
    /\ wtask' = [wtask EXCEPT ![w] = dtask] /\ wpc' = [wpc EXCEPT ![w] = "eval"]
    /\ dpc' = "select" /\ dtask' = None
    /\ UNCHANGED <<chans, meth, stat, hist>>

DDrainOp ==
    /\ dpc = "drain" /\ ops # <<>>
    /\ ops' = Tail(ops)
    /\ IF Head(ops).op = "major" THEN dtask' = Head(ops) /\ dpc' = "drainSend"
       ELSE UNCHANGED <<dtask, dpc>>
    /\ UNCHANGED <<opsClosed, res, resClosed, doneClosed, wcClosed, scClosed, meth, work, stat, hist>>

DDrainEnd ==
    /\ dpc = "drain" /\ ops = <<>> /\ opsClosed
    /\ scClosed' = TRUE /\ dpc' = "exit"
    /\ UNCHANGED <<ops, opsClosed, res, resClosed, doneClosed, wcClosed, meth, dtask, work, stat, hist>>

(********************************* workers ***********************************)
WEval(w) ==
    /\ wpc[w] = "eval"
    /\ callsF' = callsF + wtask[w].f             \* the user callbacks run exactly here
    /\ callsG' = callsG + wtask[w].g /\ callsH' = callsH + wtask[w].h
    /\ wpc' = [wpc EXCEPT ![w] = "send"]
    /\ UNCHANGED <<chans, meth, dist, wtask, stat, stats3, iters, posts, final, err, run>>

WSend(w) ==
    /\ wpc[w] = "send" /\ spc = "recv"
    /\ IF scClosed THEN err' = "send on closed statsChan" ELSE UNCHANGED err
    /\ stask' = wtask[w] /\ spc' = "proc"
    /\ wpc' = [wpc EXCEPT ![w] = "recv"] /\ wtask' = [wtask EXCEPT ![w] = None]
    /\ UNCHANGED <<chans, meth, dist, sstatus, workersDone, stats3, calls3, iters, posts, final, run>>

WClosed(w) ==
    /\ wpc[w] = "recv" /\ wcClosed /\ dpc # "sendWorker"
    /\ wpc' = [wpc EXCEPT ![w] = "sendDone"]
    /\ UNCHANGED <<chans, meth, dist, wtask, stat, hist>>

WSendDone(w) ==
    /\ wpc[w] = "sendDone" /\ spc = "recv"
    /\ IF scClosed THEN err' = "send on closed statsChan" ELSE UNCHANGED err
    /\ stask' = SigDone /\ spc' = "proc"
    /\ wpc' = [wpc EXCEPT ![w] = "exit"]
    /\ UNCHANGED <<chans, meth, dist, wtask, sstatus, workersDone, stats3, calls3, iters, posts, final, run>>

(****************************** stats combiner *******************************)
WithRecL(S, causes) == IF "none" \in S /\ "recerr" \in causes THEN S \cup {"fail"} ELSE S

\* the evaluation limits that have been reached (Settings: "... status is returned if the total
\* number of calls to Func / Grad / Hess equals or exceeds this number"); when several are reached
\* at the same evaluation any of their names is a true statement about the stopping condition
Reached(f, g, h, fl, gl, hl) ==
    (IF fl > 0 /\ f >= fl THEN {"flimit"} ELSE {}) \cup (IF gl > 0 /\ g >= gl THEN {"glimit"} ELSE {})
    \cup (IF hl > 0 /\ h >= hl THEN {"hlimit"} ELSE {})
\* Problem.Status is consulted first, then the evaluation limits; a Recorder error turns
\* a non-terminating step into Failure
EvalStatusL(f, g, h, fl, gl, hl, causes) ==
    WithRecL((IF Reached(f, g, h, fl, gl, hl) = {} THEN {"none"} ELSE Reached(f, g, h, fl, gl, hl))
             \cup (IF "probstatus" \in causes THEN {"probstatus"} ELSE {}), causes)
\* convergence tests first, then the iteration limit and the runtime limit.  Cause "runtime": Settings.Runtime
\* is set and has certainly elapsed at every major iteration ("RuntimeLimit status is returned if the duration
\* of the run is longer than this value. Runtime is only checked at MajorIterations"): a major iteration then
\* never leaves the status NotTerminated
MajorStatusL(k, il, causes) ==
    LET base == (IF il > 0 /\ k >= il THEN {"ilimit"} ELSE {"none"})
                \cup (IF "converge" \in causes THEN {"converged"} ELSE {})
    IN WithRecL(IF "runtime" \in causes THEN (base \ {"none"}) \cup {"rlimit"} ELSE base, causes)

SProcL(fl, gl, hl, il, causes) ==
    /\ spc = "proc"
    /\ CASE stask.op = "eval" ->
              /\ statsF' = statsF + stask.f /\ statsG' = statsG + stask.g /\ statsH' = statsH + stask.h
              /\ sstatus' \in EvalStatusL(statsF + stask.f, statsG + stask.g, statsH + stask.h, fl, gl, hl, causes)
              /\ spc' = "post" /\ UNCHANGED <<workersDone, resClosed, iters>>
         [] stask.op = "sigdone" ->
              /\ workersDone' = workersDone + 1
              /\ resClosed' = (resClosed \/ workersDone + 1 = NT)
              /\ spc' = "recv" /\ UNCHANGED <<stats3, sstatus, iters>>
         [] stask.op = "noop" ->
              /\ sstatus' \in (IF sstatus = "none" THEN WithRecL({"none"}, causes) ELSE {sstatus})
              /\ spc' = "post" /\ UNCHANGED <<stats3, workersDone, resClosed, iters>>
         [] stask.op = "major" ->
              /\ iters' = iters + 1
              /\ sstatus' \in MajorStatusL(iters + 1, il, causes)
              /\ spc' = "post" /\ UNCHANGED <<stats3, workersDone, resClosed>>
         [] stask.op = "mdone" ->
              /\ sstatus' = "mconv"
              /\ spc' = "post" /\ UNCHANGED <<stats3, workersDone, resClosed, iters>>
    /\ UNCHANGED <<ops, opsClosed, res, doneClosed, wcClosed, scClosed, meth, dist, work, stask,
                   calls3, posts, final, err, run>>

\* first termination: results <- PostIteration ; close(done)
SPost ==
    /\ spc = "post"
    /\ IF sstatus # "none" /\ ~doneClosed
       THEN /\ Len(res) < NT
            /\ IF resClosed THEN err' = "send on closed results" /\ UNCHANGED res
               ELSE res' = Append(res, Post) /\ UNCHANGED err
            /\ doneClosed' = TRUE /\ final' = sstatus /\ posts' = posts + 1
       ELSE UNCHANGED <<res, doneClosed, final, posts, err>>
    /\ spc' = "back"
    /\ UNCHANGED <<ops, opsClosed, resClosed, wcClosed, scClosed, meth, dist, work, stask, sstatus,
                   workersDone, stats3, calls3, iters, run>>

\* results <- task  (only while workers are still active, never the MethodDone task)
SBack ==
    /\ spc = "back"
    /\ IF workersDone # NT /\ stask.op # "mdone"
       THEN /\ Len(res) < NT
            /\ IF resClosed THEN err' = "send on closed results" /\ UNCHANGED res
               ELSE res' = Append(res, stask) /\ UNCHANGED err
       ELSE UNCHANGED <<res, err>>
    /\ spc' = "recv" /\ stask' = None
    /\ UNCHANGED <<ops, opsClosed, resClosed, doneClosed, wcClosed, scClosed, meth, dist, work, sstatus,
                   workersDone, stats3, calls3, iters, posts, final, run>>

SProc == SProcL(FLimit, GLimit, HLimit, ILimit, Causes)

SExit ==
    /\ spc = "recv" /\ scClosed
    /\ spc' = "exit"
    /\ UNCHANGED <<chans, meth, dist, work, stask, sstatus, workersDone, hist>>

AllDone == mstate = "closed" /\ dpc = "exit" /\ spc = "exit" /\ \A w \in Wk : wpc[w] = "exit"
LastDone == AllDone /\ run >= MaxRuns
Finished == LastDone /\ UNCHANGED vars

\* Minimize is called again with the Method value of the run that has just returned
ReInit == /\ AllDone /\ run < MaxRuns
          /\ FreshRun /\ run' = run + 1

MethodNext == MRecv \/ MClose \/ \E i \in Ids, o \in {"eval", "major", "noop", "mdone"}, k \in Kinds \cup {NoKind} : MSend(i, o, k)
DistNext   == DSelectOp \/ DSelectClosed \/ DSelectDone \/ DSendStats \/ DDrainOp \/ DDrainEnd
              \/ \E w \in Wk : DSendWorker(w)
WorkNext   == \E w \in Wk : WEval(w) \/ WSend(w) \/ WClosed(w) \/ WSendDone(w)
StatsNext  == SProc \/ SPost \/ SBack \/ SExit

Next == MethodNext \/ DistNext \/ WorkNext \/ StatsNext \/ ReInit \/ Finished

Fairness == /\ WF_vars(MethodNext) /\ WF_vars(DistNext) /\ WF_vars(StatsNext)
            /\ \A w \in Wk : WF_vars(WEval(w) \/ WSend(w) \/ WClosed(w) \/ WSendDone(w))
            /\ SF_vars(DSelectDone)      \* the select between operations and done is fair
            /\ WF_vars(ReInit)
Spec == Init /\ [][Next]_vars /\ Fairness

(******************************** properties *********************************)
TypeOK == /\ Len(ops) <= NT /\ Len(res) <= NT
          /\ mheld \subseteq Ids /\ workersDone \in 0 .. NT
          /\ mstate \in {"run", "sentdone", "post", "closed"} /\ run \in 1 .. (IF MaxRuns > 1 THEN MaxRuns ELSE 1)
NoError == err = "none"
PostOnce == posts <= 1 /\ (AllDone => posts = 1) /\ (doneClosed <=> posts = 1)
CloseOrder == /\ resClosed => \A w \in Wk : wpc[w] = "exit"      \* all results delivered first
              /\ opsClosed => resClosed                           \* happens-before of the contract
              /\ scClosed => opsClosed
              /\ wcClosed => doneClosed
\* every user callback is counted exactly once (C09: "call the user function the documented number
\* of times"; C19: "counters equal the number of callbacks made")
Counters == /\ statsF <= callsF /\ statsG <= callsG /\ statsH <= callsH
            /\ (AllDone => statsF = callsF /\ statsG = callsG /\ statsH = callsH)
\* documented concurrency slack of the evaluation limits
Overshoot == /\ (FLimit > 0 => statsF <= FLimit + NT - 1)
             /\ (GLimit > 0 => statsG <= GLimit + NT - 1)
             /\ (HLimit > 0 => statsH <= HLimit + NT - 1)
\* no evaluation is started after the workers have been told to stop
NoLateEval == \A w \in Wk : wpc[w] = "exit" => wtask[w] = None
\* the final status names the condition that stopped the run
StatusJustified ==
    /\ final = "flimit" => (FLimit > 0 /\ statsF >= FLimit)
    /\ final = "glimit" => (GLimit > 0 /\ statsG >= GLimit)
    /\ final = "hlimit" => (HLimit > 0 /\ statsH >= HLimit)
    /\ final = "ilimit" => (ILimit > 0 /\ iters >= ILimit)
    /\ final = "rlimit" => ("runtime" \in Causes /\ iters >= 1)
    /\ ("runtime" \in Causes /\ iters >= 1 /\ spc \in {"back", "recv", "exit"}) => doneClosed   \* no major iteration is survived
    /\ final \in {"flimit", "glimit", "hlimit", "ilimit", "rlimit", "converged", "probstatus", "fail", "mconv", "none"}
    /\ AllDone => final # "none"
Drained == AllDone => ops = <<>> /\ res = <<>>
\* every run of the sequence made with one Method value terminates
Termination == <>LastDone
\* a re-initialised run starts from the state of Init (action property): nothing is carried over
ReInitIsInit == [][run' = run + 1 => (AllDone /\ mstate' = "run" /\ msends' = 0 /\ mheld' = Ids /\ ops' = <<>> /\ res' = <<>>
                                      /\ ~doneClosed' /\ ~opsClosed' /\ ~resClosed' /\ sstatus' = "none" /\ final' = "none"
                                      /\ statsF' = 0 /\ statsG' = 0 /\ statsH' = 0 /\ iters' = 0 /\ posts' = 0)]_vars
=============================================================================
