------------------------------- MODULE Minimize -------------------------------
(* The concurrency protocol of gonum/optimize.Minimize (optimize/minimize.go),   *)
(* one action per channel operation / critical section of the code:              *)
(*   Method (environment; constrained only by the documented contract of         *)
(*   Method.Run), distributor goroutine, NT worker goroutines, and the stats     *)
(*   combiner (the loop in minimize()).                                          *)
(* Channels have their real capacities: operations, results buffered with NT     *)
(* slots; workerChan, statsChan unbuffered (a send and the matching receive are  *)
(* ONE joint action); done is only ever closed.  Sending on / closing a closed   *)
(* channel is an explicit error state.                                           *)
(* Shared by C09 (no deadlock, termination, callbacks counted exactly once, no   *)
(* goroutine left behind) and C19 (counters = callbacks, limits + slack, status  *)
(* names the stopping condition).                                                *)
EXTENDS Integers, Sequences, FiniteSets, TLC

CONSTANTS NT,        \* number of tasks = number of workers (Settings.Concurrent)
          MaxSends,  \* bound on the number of tasks the method sends
          FLimit,    \* Settings.FuncEvaluations (0: none)
          ILimit,    \* Settings.MajorIterations (0: none)
          Causes     \* environment-controlled stop causes: subset of {"converge","recerr","mdone","probstatus"}

Ids == 1 .. NT
Wk  == 1 .. NT
\* a task: id = the token (Location) it carries, op its operation, f = 1 iff an evaluation
\* includes the objective function (FuncEvaluation bit), so that Func is called and counted
None == [id |-> 0, op |-> "none", f |-> 0]
Post == [id |-> 0, op |-> "post", f |-> 0]
SigDone == [id |-> 0, op |-> "sigdone", f |-> 0]
Fbits == {0, 1}

VARIABLES ops, opsClosed, res, resClosed, doneClosed, wcClosed, scClosed,   \* channels
          mheld, mstate, msends,                                            \* method
          dpc, dtask,                                                       \* distributor
          wpc, wtask,                                                       \* workers
          spc, stask, sstatus, workersDone,                                 \* stats combiner
          statsF, callsF, iters, posts, final, err                          \* bookkeeping / history

chans == <<ops, opsClosed, res, resClosed, doneClosed, wcClosed, scClosed>>
meth  == <<mheld, mstate, msends>>
dist  == <<dpc, dtask>>
work  == <<wpc, wtask>>
stat  == <<spc, stask, sstatus, workersDone>>
hist  == <<statsF, callsF, iters, posts, final, err>>
vars  == <<chans, meth, dist, work, stat, hist>>

Init ==
    /\ ops = <<>> /\ opsClosed = FALSE /\ res = <<>> /\ resClosed = FALSE
    /\ doneClosed = FALSE /\ wcClosed = FALSE /\ scClosed = FALSE
    /\ mheld = Ids /\ mstate = "run" /\ msends = 0
    /\ dpc = "select" /\ dtask = None
    /\ wpc = [w \in Wk |-> "recv"] /\ wtask = [w \in Wk |-> None]
    /\ spc = "recv" /\ stask = None /\ sstatus = "none" /\ workersDone = 0
    /\ statsF = 0 /\ callsF = 0 /\ iters = 0 /\ posts = 0 /\ final = "none" /\ err = "none"

(******************************** the Method *********************************)
\* Contract (doc of Method.Run): sends only tasks it holds; after PostIteration
\* only MajorIteration; keeps reading results until closed; then closes operations.
AllowedOps ==
    IF mstate = "post" THEN {"major"}
    ELSE IF msends = MaxSends - 1 THEN {"mdone"}          \* bounded model: the method gives up
    ELSE {"eval", "major", "noop"} \cup (IF "mdone" \in Causes THEN {"mdone"} ELSE {})

\* the channel effect of a send on operations (used by the trace specification too)
OpsSend(t) ==
    /\ Len(ops) < NT                                      \* buffered send
    /\ IF opsClosed THEN err' = "send on closed operations" /\ UNCHANGED ops
       ELSE ops' = Append(ops, t) /\ UNCHANGED err

MSend(i, o, fb) ==
    /\ mstate \in {"run", "post"} /\ i \in mheld /\ msends < MaxSends /\ o \in AllowedOps
    /\ (o # "eval" => fb = 0)
    /\ OpsSend([id |-> i, op |-> o, f |-> fb])
    /\ mheld' = mheld \ {i} /\ msends' = msends + 1
    /\ mstate' = IF o = "mdone" THEN "sentdone" ELSE mstate
    /\ UNCHANGED <<opsClosed, res, resClosed, doneClosed, wcClosed, scClosed, dist, work, stat,
                   statsF, callsF, iters, posts, final>>

MRecv ==
    /\ mstate # "closed" /\ res # <<>>
    /\ LET t == Head(res) IN
         /\ res' = Tail(res)
         /\ IF t.op = "post" THEN mstate' = "post" /\ UNCHANGED mheld
            ELSE mheld' = mheld \cup {t.id} /\ UNCHANGED mstate
    /\ UNCHANGED <<ops, opsClosed, resClosed, doneClosed, wcClosed, scClosed, msends, dist, work, stat, hist>>

MClose ==
    /\ mstate = "post" /\ resClosed /\ res = <<>>
    /\ opsClosed' = TRUE /\ mstate' = "closed"
    /\ UNCHANGED <<ops, res, resClosed, doneClosed, wcClosed, scClosed, mheld, msends, dist, work, stat, hist>>

(****************************** the distributor ******************************)
DSelectOp ==
    /\ dpc = "select" /\ ops # <<>>
    /\ dtask' = Head(ops) /\ ops' = Tail(ops)
    /\ dpc' = IF Head(ops).op \in {"noop", "major", "mdone"} THEN "sendStats" ELSE "sendWorker"
    /\ UNCHANGED <<opsClosed, res, resClosed, doneClosed, wcClosed, scClosed, meth, work, stat, hist>>

\* a receive on a closed, empty operations channel in the select loop yields a zero Task:
\* the code would forward a bogus NoOperation - an error the protocol must exclude
DSelectClosed ==
    /\ dpc = "select" /\ ops = <<>> /\ opsClosed
    /\ err' = "distributor received from closed operations before done"
    /\ UNCHANGED <<chans, meth, dist, work, stat, statsF, callsF, iters, posts, final>>

DSelectDone ==
    /\ dpc = "select" /\ doneClosed
    /\ wcClosed' = TRUE /\ dpc' = "drain"
    /\ UNCHANGED <<ops, opsClosed, res, resClosed, doneClosed, scClosed, meth, dtask, work, stat, hist>>

\* statsChan <- task : joint with the stats combiner's receive
DSendStats ==
    /\ dpc \in {"sendStats", "drainSend"} /\ spc = "recv"
    /\ IF scClosed THEN err' = "send on closed statsChan" ELSE UNCHANGED err
    /\ stask' = dtask /\ spc' = "proc"
    /\ dpc' = IF dpc = "sendStats" THEN "select" ELSE "drain"
    /\ dtask' = None
    /\ UNCHANGED <<chans, meth, work, sstatus, workersDone, statsF, callsF, iters, posts, final>>

\* workerChan <- task : joint with worker w's receive
DSendWorker(w) ==
    /\ dpc = "sendWorker" /\ wpc[w] = "recv" /\ ~wcClosed
    /\ wtask' = [wtask EXCEPT ![w] = dtask] /\ wpc' = [wpc EXCEPT ![w] = "eval"]
    /\ dpc' = "select" /\ dtask' = None
    /\ UNCHANGED <<chans, meth, stat, hist>>

DDrainOp ==
    /\ dpc = "drain" /\ ops # <<>>
    /\ ops' = Tail(ops)
    /\ IF Head(ops).op = "major" THEN dtask' = Head(ops) /\ dpc' = "drainSend"
       ELSE UNCHANGED <<dtask, dpc>>
    /\ UNCHANGED <<opsClosed, res, resClosed, doneClosed, wcClosed, scClosed, meth, work, stat, hist>>

DDrainEnd ==
    /\ dpc = "drain" /\ ops = <<>> /\ opsClosed
    /\ scClosed' = TRUE /\ dpc' = "exit"
    /\ UNCHANGED <<ops, opsClosed, res, resClosed, doneClosed, wcClosed, meth, dtask, work, stat, hist>>

(********************************* workers ***********************************)
WEval(w) ==
    /\ wpc[w] = "eval"
    /\ callsF' = callsF + wtask[w].f             \* the user callback runs exactly here
    /\ wpc' = [wpc EXCEPT ![w] = "send"]
    /\ UNCHANGED <<chans, meth, dist, wtask, stat, statsF, iters, posts, final, err>>

WSend(w) ==
    /\ wpc[w] = "send" /\ spc = "recv"
    /\ IF scClosed THEN err' = "send on closed statsChan" ELSE UNCHANGED err
    /\ stask' = wtask[w] /\ spc' = "proc"
    /\ wpc' = [wpc EXCEPT ![w] = "recv"] /\ wtask' = [wtask EXCEPT ![w] = None]
    /\ UNCHANGED <<chans, meth, dist, sstatus, workersDone, statsF, callsF, iters, posts, final>>

WClosed(w) ==
    /\ wpc[w] = "recv" /\ wcClosed /\ dpc # "sendWorker"
    /\ wpc' = [wpc EXCEPT ![w] = "sendDone"]
    /\ UNCHANGED <<chans, meth, dist, wtask, stat, hist>>

WSendDone(w) ==
    /\ wpc[w] = "sendDone" /\ spc = "recv"
    /\ IF scClosed THEN err' = "send on closed statsChan" ELSE UNCHANGED err
    /\ stask' = SigDone /\ spc' = "proc"
    /\ wpc' = [wpc EXCEPT ![w] = "exit"]
    /\ UNCHANGED <<chans, meth, dist, wtask, sstatus, workersDone, statsF, callsF, iters, posts, final>>

(****************************** stats combiner *******************************)
WithRecL(S, causes) == IF "none" \in S /\ "recerr" \in causes THEN S \cup {"fail"} ELSE S

\* Problem.Status is consulted first, then the evaluation limit; a Recorder error turns
\* a non-terminating step into Failure
EvalStatusL(f, fl, causes) ==
    WithRecL((IF fl > 0 /\ f >= fl THEN {"flimit"} ELSE {"none"})
             \cup (IF "probstatus" \in causes THEN {"probstatus"} ELSE {}), causes)
\* convergence tests first, then the iteration limit
MajorStatusL(k, il, causes) ==
    WithRecL((IF il > 0 /\ k >= il THEN {"ilimit"} ELSE {"none"})
             \cup (IF "converge" \in causes THEN {"converged"} ELSE {}), causes)

SProcL(fl, il, causes) ==
    /\ spc = "proc"
    /\ CASE stask.op = "eval" ->
              /\ statsF' = statsF + stask.f
              /\ sstatus' \in EvalStatusL(statsF + stask.f, fl, causes)
              /\ spc' = "post" /\ UNCHANGED <<workersDone, resClosed, iters>>
         [] stask.op = "sigdone" ->
              /\ workersDone' = workersDone + 1
              /\ resClosed' = (resClosed \/ workersDone + 1 = NT)
              /\ spc' = "recv" /\ UNCHANGED <<statsF, sstatus, iters>>
         [] stask.op = "noop" ->
              /\ sstatus' \in (IF sstatus = "none" THEN WithRecL({"none"}, causes) ELSE {sstatus})
              /\ spc' = "post" /\ UNCHANGED <<statsF, workersDone, resClosed, iters>>
         [] stask.op = "major" ->
              /\ iters' = iters + 1
              /\ sstatus' \in MajorStatusL(iters + 1, il, causes)
              /\ spc' = "post" /\ UNCHANGED <<statsF, workersDone, resClosed>>
         [] stask.op = "mdone" ->
              /\ sstatus' = "mconv"
              /\ spc' = "post" /\ UNCHANGED <<statsF, workersDone, resClosed, iters>>
    /\ UNCHANGED <<ops, opsClosed, res, doneClosed, wcClosed, scClosed, meth, dist, work, stask,
                   callsF, posts, final, err>>

\* first termination: results <- PostIteration ; close(done)
SPost ==
    /\ spc = "post"
    /\ IF sstatus # "none" /\ ~doneClosed
       THEN /\ Len(res) < NT
            /\ IF resClosed THEN err' = "send on closed results" /\ UNCHANGED res
               ELSE res' = Append(res, Post) /\ UNCHANGED err
            /\ doneClosed' = TRUE /\ final' = sstatus /\ posts' = posts + 1
       ELSE UNCHANGED <<res, doneClosed, final, posts, err>>
    /\ spc' = "back"
    /\ UNCHANGED <<ops, opsClosed, resClosed, wcClosed, scClosed, meth, dist, work, stask, sstatus,
                   workersDone, statsF, callsF, iters>>

\* results <- task  (only while workers are still active, never the MethodDone task)
SBack ==
    /\ spc = "back"
    /\ IF workersDone # NT /\ stask.op # "mdone"
       THEN /\ Len(res) < NT
            /\ IF resClosed THEN err' = "send on closed results" /\ UNCHANGED res
               ELSE res' = Append(res, stask) /\ UNCHANGED err
       ELSE UNCHANGED <<res, err>>
    /\ spc' = "recv" /\ stask' = None
    /\ UNCHANGED <<ops, opsClosed, resClosed, doneClosed, wcClosed, scClosed, meth, dist, work, sstatus,
                   workersDone, statsF, callsF, iters, posts, final>>

SProc == SProcL(FLimit, ILimit, Causes)

SExit ==
    /\ spc = "recv" /\ scClosed
    /\ spc' = "exit"
    /\ UNCHANGED <<chans, meth, dist, work, stask, sstatus, workersDone, hist>>

AllDone == mstate = "closed" /\ dpc = "exit" /\ spc = "exit" /\ \A w \in Wk : wpc[w] = "exit"
Finished == AllDone /\ UNCHANGED vars

MethodNext == MRecv \/ MClose \/ \E i \in Ids, o \in {"eval", "major", "noop", "mdone"}, fb \in Fbits : MSend(i, o, fb)
DistNext   == DSelectOp \/ DSelectClosed \/ DSelectDone \/ DSendStats \/ DDrainOp \/ DDrainEnd
              \/ \E w \in Wk : DSendWorker(w)
WorkNext   == \E w \in Wk : WEval(w) \/ WSend(w) \/ WClosed(w) \/ WSendDone(w)
StatsNext  == SProc \/ SPost \/ SBack \/ SExit

Next == MethodNext \/ DistNext \/ WorkNext \/ StatsNext \/ Finished

Fairness == /\ WF_vars(MethodNext) /\ WF_vars(DistNext) /\ WF_vars(StatsNext)
            /\ \A w \in Wk : WF_vars(WEval(w) \/ WSend(w) \/ WClosed(w) \/ WSendDone(w))
            /\ SF_vars(DSelectDone)      \* the select between operations and done is fair
Spec == Init /\ [][Next]_vars /\ Fairness

(******************************** properties *********************************)
TypeOK == /\ Len(ops) <= NT /\ Len(res) <= NT
          /\ mheld \subseteq Ids /\ workersDone \in 0 .. NT
          /\ mstate \in {"run", "sentdone", "post", "closed"}
NoError == err = "none"
PostOnce == posts <= 1 /\ (AllDone => posts = 1) /\ (doneClosed <=> posts = 1)
CloseOrder == /\ resClosed => \A w \in Wk : wpc[w] = "exit"      \* all results delivered first
              /\ opsClosed => resClosed                           \* happens-before of the contract
              /\ scClosed => opsClosed
              /\ wcClosed => doneClosed
\* every user callback is counted exactly once (C09: "call the user function the documented number
\* of times"; C19: "counters equal the number of callbacks made")
Counters == statsF <= callsF /\ (AllDone => statsF = callsF)
\* documented concurrency slack of the evaluation limit
Overshoot == FLimit > 0 => statsF <= FLimit + NT - 1
\* no evaluation is started after the workers have been told to stop
NoLateEval == \A w \in Wk : wpc[w] = "exit" => wtask[w] = None
\* the final status names the condition that stopped the run
StatusJustified ==
    /\ final = "flimit" => statsF >= FLimit
    /\ final = "ilimit" => iters >= ILimit
    /\ final \in {"flimit", "ilimit", "converged", "probstatus", "fail", "mconv", "none"}
    /\ AllDone => final # "none"
Drained == AllDone => ops = <<>> /\ res = <<>>
Termination == <>AllDone
=============================================================================
