SPECIFICATION TraceSpec
CONSTANTS
  Kinds = {}
  WithH = FALSE
  MaxIter = 0
  MaxSearch = 0
  MaxRuns = 0
  Emit = FALSE
INVARIANTS TraceInv
POSTCONDITION Accepted
CHECK_DEADLOCK FALSE
