SPECIFICATION Spec
CONSTANTS
  NT = @NT@
  MaxSends = @MAXSENDS@
  FLimit = @FLIMIT@
  ILimit = @ILIMIT@
  Causes = @CAUSES@
INVARIANTS TypeOK NoError PostOnce CloseOrder Counters Overshoot NoLateEval StatusJustified Drained
@PROPS@
CHECK_DEADLOCK TRUE
