SPECIFICATION Spec
CONSTANTS
  NT = @NT@
  MaxSends = @MAXSENDS@
  FLimit = @FLIMIT@
  GLimit = @GLIMIT@
  HLimit = @HLIMIT@
  ILimit = @ILIMIT@
  Causes = @CAUSES@
  Kinds = @KINDS@
  MaxRuns = @MAXRUNS@
INVARIANTS TypeOK NoError PostOnce CloseOrder Counters Overshoot NoLateEval StatusJustified Drained
@PROPS@
CHECK_DEADLOCK TRUE
