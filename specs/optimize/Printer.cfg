SPECIFICATION Spec
CONSTANTS
  HSet = @HSET@
  MaxCalls = @MAXCALLS@
  Emit = @EMIT@
INVARIANTS HeadingRule OneValueLine
CHECK_DEADLOCK FALSE
