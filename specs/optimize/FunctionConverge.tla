---------------------------- MODULE FunctionConverge ----------------------------
(* C19: optimize.FunctionConverge (optimize/functionconvergence.go), the optimizer-level     *)
(* convergence window: "A FunctionConvergence status is returned if there is no significant  *)
(* decrease for Iterations [consecutive calls].  A decrease is significant if f < f_best and  *)
(* f_best - f > Relative * maxabs(f, f_best) + Absolute.  If the decrease is significant the  *)
(* iteration counter is reset and f_best is updated.  If Iterations == 0 it has no effect."   *)
(*                                                                                            *)
(* Exact on integer objective values, integer Absolute and Relative = RelNum / RelDen with    *)
(* RelDen a power of two (every float operation of the code is then exact).                    *)
(* The module holds (a) the incremental machine (first / best / counter), (b) an independent,  *)
(* non-incremental statement of the documented window over the whole history, and TLC checks   *)
(* that they agree on every bounded history (R1); (c) it prints every bounded history with    *)
(* the statuses (R2) for replay into the real type.                                           *)
EXTENDS Integers, Sequences, TLC, Json

CONSTANTS VMax,       \* objective values range over -VMax .. VMax
          MaxLen,     \* calls of Converged per behaviour
          ItersSet, AbsSet, RelNumSet, RelDen,
          ReInit,     \* allow one Init in the middle of a behaviour
          Emit

VARIABLES iters, absn, reln,  \* the settings of this behaviour
          first, best, cnt,   \* the machine
          fs,                 \* objective values seen since the last Init
          last,               \* status returned by the last call ("none" | "fconv" | "init")
          n, inits, h

vars == <<iters, absn, reln, first, best, cnt, fs, last, n, inits, h>>

Abs(x) == IF x < 0 THEN -x ELSE x
Max(a, b) == IF a > b THEN a ELSE b

\* the documented test, cleared of the denominator
Significant(f, b, r, a) == f < b /\ (b - f) * RelDen > r * Max(Abs(f), Abs(b)) + a * RelDen

(* ---- (a) the machine ---- *)
DoInit ==
    /\ first' = TRUE /\ best' = 0 /\ cnt' = 0 /\ fs' = <<>> /\ last' = "init"
    /\ UNCHANGED <<iters, absn, reln>>

Status(f) ==
    CASE first -> "none"
      [] iters = 0 -> "none"
      [] Significant(f, best, reln, absn) -> "none"
      [] OTHER -> IF cnt + 1 < iters THEN "none" ELSE "fconv"

DoCall(f) ==
    /\ last' = Status(f)
    /\ fs' = Append(fs, f)
    /\ IF first THEN first' = FALSE /\ best' = f /\ cnt' = cnt
       ELSE IF iters = 0 THEN UNCHANGED <<first, best, cnt>>
       ELSE IF Significant(f, best, reln, absn) THEN best' = f /\ cnt' = 0 /\ first' = first
       ELSE cnt' = cnt + 1 /\ UNCHANGED <<first, best>>
    /\ UNCHANGED <<iters, absn, reln>>

(* ---- (b) the documented window, stated on the whole history ---- *)
RECURSIVE RefBest(_, _)
RefBest(s, i) ==      \* f_best after the i-th value
    IF i = 1 THEN s[1]
    ELSE LET b == RefBest(s, i - 1) IN IF Significant(s[i], b, reln, absn) THEN s[i] ELSE b
IsReset(s, i) == i = 1 \/ Significant(s[i], RefBest(s, i - 1), reln, absn)
LastReset(s) == CHOOSE i \in 1 .. Len(s) : IsReset(s, i) /\ \A j \in i + 1 .. Len(s) : ~IsReset(s, j)
RefStatus(s) == IF iters > 0 /\ Len(s) - LastReset(s) >= iters THEN "fconv" ELSE "none"

Agrees == (fs # <<>> /\ last # "init") => last = RefStatus(fs)
BestIsRef == (fs # <<>>) => (best = RefBest(fs, Len(fs)) \/ iters = 0)
NeverWithoutWindow == iters = 0 => last # "fconv"
\* the reference value never increases and is one of the values seen
BestMonotone == [][(fs # <<>> /\ fs' # <<>> /\ Len(fs') > Len(fs)) => best' <= best]_vars

(* ---- (c) bounded behaviours ---- *)
Vals == -VMax .. VMax

Init == /\ iters \in ItersSet /\ absn \in AbsSet /\ reln \in RelNumSet
        /\ first = TRUE /\ best = 0 /\ cnt = 0 /\ fs = <<>> /\ last = "init" /\ n = 0 /\ inits = 0
        /\ h = <<[k |-> "init"]>>

EmitRun ==
    IF Emit /\ n' = MaxLen
    THEN PrintT(ToJson([iters |-> iters, abs |-> absn, reln |-> reln, relden |-> RelDen, ev |-> h']))
    ELSE TRUE

Next ==
    /\ n < MaxLen
    /\ \/ \E f \in Vals : /\ DoCall(f) /\ n' = n + 1 /\ inits' = inits
                          /\ h' = IF Emit THEN Append(h, [k |-> "call", f |-> f, st |-> last']) ELSE h
       \/ /\ ReInit /\ inits = 0 /\ n > 0 /\ DoInit /\ n' = n /\ inits' = 1
          /\ h' = IF Emit THEN Append(h, [k |-> "init"]) ELSE h
    /\ EmitRun

Spec == Init /\ [][Next]_vars
=============================================================================
