SPECIFICATION Spec
CONSTANTS
  VMax = @VMAX@
  MaxLen = @MAXLEN@
  ItersSet = @ITERS@
  AbsSet = @ABS@
  RelNumSet = @RELNUM@
  RelDen = 4
  ReInit = @REINIT@
  Emit = @EMIT@
INVARIANTS Agrees BestIsRef NeverWithoutWindow
PROPERTIES BestMonotone
CHECK_DEADLOCK FALSE
