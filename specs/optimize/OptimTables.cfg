SPECIFICATION Spec
CONSTANTS
  Mode = "@MODE@"
  MaxReg = @MAXREG@
INVARIANTS Inv
CHECK_DEADLOCK FALSE
