SPECIFICATION @SPEC@
CONSTANTS
  Kinds = @KINDS@
  WithH = @WITHH@
  MaxIter = @MAXITER@
  MaxSearch = @MAXSEARCH@
  MaxRuns = @MAXRUNS@
  Emit = @EMIT@
INVARIANTS TypeOK ConcludedSound CompleteAtMajor IdleComplete ComplementDisjoint WantIffEval NoMajorWithoutConclusion
PROPERTIES MajorOnlyWhenSound ErrIsFinal StoppedIsFinal ReInitIsStart
CHECK_DEADLOCK FALSE
