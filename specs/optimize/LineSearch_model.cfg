SPECIFICATION @SPEC@
CONSTANTS
  Kinds = @KINDS@
  WithH = @WITHH@
  MaxIter = @MAXITER@
  MaxSearch = @MAXSEARCH@
  Emit = @EMIT@
INVARIANTS TypeOK ConcludedSound CompleteAtMajor IdleComplete ComplementDisjoint WantIffEval
PROPERTIES MajorOnlyWhenSound ErrIsFinal StoppedIsFinal
CHECK_DEADLOCK FALSE
