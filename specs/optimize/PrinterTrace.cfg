SPECIFICATION TraceSpec
CONSTANTS
  HSet = {}
  MaxCalls = 0
  Emit = FALSE
POSTCONDITION Accepted
CHECK_DEADLOCK FALSE
