----------------------------- MODULE PrinterTrace -----------------------------
(* R3: judges what a real optimize.Printer printed as Settings.Recorder of real Minimize runs  *)
(* (default method and explicit methods, runs of 0 .. 64 major iterations, with and without     *)
(* gradient / Hessian, heading interval of NewPrinter and others, writers that start to fail).  *)
(* A probe around the Printer logs every call crossing the Recorder interface and the lines     *)
(* the call printed (kind and number of columns only).  The log is accepted iff                 *)
(*  - it is a behaviour of the Printer machine (Printer.tla: Lines, SinceAfter, RetA);          *)
(*  - Minimize drove the Recorder as documented: Init, then "InitIteration is sent to Recorder   *)
(*    to indicate the initial location", then only evaluations / NoOperation / MajorIteration,   *)
(*    and "PostIteration is sent to Recorder to indicate the final location reached" as the      *)
(*    last call when the run ended without an error;                                             *)
(*  - a Record call that returned an error ends the run with that very error (Result.Status is   *)
(*    Failure, or no Result at all when it was the InitIteration call), and the writer's error    *)
(*    is reported by no other run.                                                               *)
(* Events: run (hint, armed) / Init / Record (op, g, hs, ret, lines) / result (status, err, nilres). *)
EXTENDS Printer, TLCExt

TraceLog == ndJsonDeserialize("trace.ndjson")
VARIABLES l, phase, nrec, failed
tvars == <<pvars, l, phase, nrec, failed>>
Ev == TraceLog[l]

TRun == /\ Ev.k = "run" /\ phase \in {"none", "closed"}
        /\ hint' = Ev.hint /\ armed' = Ev.armed /\ since' = 0
        /\ phase' = "new" /\ nrec' = 0 /\ failed' = FALSE
TInit == /\ Ev.k = "Init" /\ phase = "new"
         /\ DoInit /\ phase' = "inited" /\ UNCHANGED <<nrec, failed>>
PhaseAfter(op) ==
    CASE op = "init" -> IF phase = "inited" THEN "running" ELSE "bad"
      [] op = "post" -> IF phase = "running" THEN "done" ELSE "bad"
      [] op \in {"eval", "noop", "major"} -> IF phase = "running" THEN "running" ELSE "bad"
      [] OTHER -> "bad"
TRecord ==
    /\ Ev.k = "Record"
    /\ LET ret == RetA(armed, nrec + 1, Ev.op) IN
         /\ Ev.ret = ret
         /\ Ev.lines = (IF ret = "err" THEN <<>> ELSE Lines(since, hint, Ev.op, Ev.g, Ev.hs))
         /\ failed' = (failed \/ ret = "err")
    /\ DoRecord(Ev.op, Ev.g, Ev.hs)
    /\ phase' = PhaseAfter(Ev.op) /\ phase' # "bad"
    /\ nrec' = nrec + 1
TResult ==
    /\ Ev.k = "result" /\ phase \in {"inited", "running", "done"}
    \* (an error of the PostIteration call comes after the run has ended: the status is that of the run)
    /\ failed => (Ev.err = "writer" /\ (Ev.nilres = 1 \/ Ev.status = "fail" \/ phase = "done"))
    /\ ~failed => (Ev.err # "writer" /\ Ev.nilres = 0)
    /\ (Ev.err = "none") => (phase = "done")      \* (whether a run that ended with an error still gets its PostIteration is left open)
    /\ Ev.nilres = 1 => nrec = 1                  \* only the InitIteration call can end a run without a Result
    /\ phase' = "closed" /\ UNCHANGED <<pvars, nrec, failed>>

TraceInit == /\ hint = 0 /\ since = 0 /\ armed = 0 /\ ncalls = 0 /\ h = <<>>
             /\ l = 1 /\ phase = "none" /\ nrec = 0 /\ failed = FALSE
TraceNext == /\ l <= Len(TraceLog) /\ (TRun \/ TInit \/ TRecord \/ TResult) /\ l' = l + 1
             /\ UNCHANGED <<ncalls, h>>
TraceSpec == TraceInit /\ [][TraceNext]_tvars

Accepted ==
    LET d == TLCGet("stats").diameter IN
    IF d - 1 = Len(TraceLog) THEN PrintT("TRACE-ACCEPTED " \o ToString(Len(TraceLog)))
    ELSE /\ PrintT("TRACE-REJECTED at event " \o ToString(d) \o ": " \o ToString(TraceLog[d]))
         /\ FALSE
=============================================================================
