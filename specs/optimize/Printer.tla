------------------------------- MODULE Printer -------------------------------
(* C19: optimize.Printer (optimize/printer.go) used as Settings.Recorder - "Printer writes        *)
(* column-format output to the specified writer as the optimization progresses."                  *)
(*                                                                                                *)
(* The Printer is a state machine over the calls crossing the Recorder interface:                 *)
(*   Init()                     - the next value line carries a heading again                     *)
(*   Record(loc, op, stats)     - prints only for op in {InitIteration, MajorIteration,           *)
(*                                PostIteration}: one VALUE line, "always on PostIteration or     *)
(*                                when ValueInterval has elapsed" (ValueInterval = 0 in every     *)
(*                                behaviour here and the harness lets the clock advance between    *)
(*                                two calls: it has always elapsed); before the value line a       *)
(*                                HEADING line "when HeadingInterval lines have been printed, but   *)
(*                                never on PostIteration"                                           *)
(* The only state is the number of value lines printed since (and including) the one that carried  *)
(* the last heading.  Both kinds of line have one column for each of Iter, Runtime, FuncEvals and   *)
(* Func, two more (GradEvals, gradient norm) iff the recorded location has a gradient and one more   *)
(* (HessEvals) iff it has a Hessian.  What the columns look like is left open: the harness reports   *)
(* of every non-blank line only whether it starts with an integer (a value line) and how many        *)
(* blank-separated fields it has.                                                                    *)
(* A Writer that refuses to write: a Record call that has to print returns a non-nil error, one     *)
(* that prints nothing returns nil (armed = the Record call from which on the writer fails, 0 never). *)
(*                                                                                                *)
(* R2: TLC prints every history of at most MaxCalls calls over the alphabet below; the harness      *)
(* replays them into a real Printer (made by NewPrinter or as a literal) writing into a buffer.      *)
(* R3: PrinterTrace.tla judges what a real Printer printed inside real Minimize runs.                *)
EXTENDS Integers, Sequences, TLC, Json

CONSTANTS HSet,       \* HeadingInterval values
          MaxCalls,
          Emit

VARIABLES hint,       \* Printer.HeadingInterval of this behaviour
          since,      \* value lines since (including) the last heading line; -1: none since Init
          armed,      \* the writer fails from this Record call on (0: never)
          ncalls, h

pvars == <<hint, since, armed, ncalls, h>>

Printing == {"init", "major", "post"}
Cols(g, hs) == 4 + 2 * g + hs
HeadingDue(s, hi, op) == op # "post" /\ (s = -1 \/ s >= hi)

\* the lines a Record call prints
Lines(s, hi, op, g, hs) ==
    IF op \notin Printing THEN <<>>
    ELSE (IF HeadingDue(s, hi, op) THEN <<[kind |-> "head", cols |-> Cols(g, hs)]>> ELSE <<>>)
         \o <<[kind |-> "vals", cols |-> Cols(g, hs)]>>
SinceAfter(s, hi, op) ==
    IF op \notin Printing THEN s
    ELSE IF HeadingDue(s, hi, op) THEN 1
    ELSE IF s = -1 THEN -1 ELSE s + 1           \* (a PostIteration before any heading: the heading is still due)

DoInit == since' = -1 /\ UNCHANGED <<hint, armed>>
DoRecord(op, g, hs) == since' = SinceAfter(since, hint, op) /\ UNCHANGED <<hint, armed>>
\* what the k-th Record call returns when the writer fails from Record call number a on
RetA(a, k, op) == IF a # 0 /\ k >= a /\ op \in Printing THEN "err" ELSE "nil"
Ret(k, op) == RetA(armed, k, op)
RECURSIVE NRec(_)
NRec(q) == IF q = <<>> THEN 0 ELSE NRec(Tail(q)) + (IF Head(q).k = "Record" THEN 1 ELSE 0)

(* ---- bounded histories ---- *)
Alphabet == { <<"init", 0, 0>>, <<"major", 0, 0>>, <<"major", 1, 0>>, <<"major", 1, 1>>,
              <<"post", 1, 0>>, <<"eval", 1, 0>>, <<"mdone", 0, 0>> }

Init == /\ hint \in HSet /\ since = -1 /\ ncalls = 0
        /\ armed \in {0} \cup (IF MaxCalls >= 3 THEN {1, 3} ELSE {1})
        /\ h = <<[k |-> "Init"]>>

Stopped == Len(h) > 1 /\ h[Len(h)].k = "Record" /\ h[Len(h)].ret = "err"

Next ==
    /\ ncalls < MaxCalls /\ ~Stopped
    /\ \/ \E a \in Alphabet :
            /\ DoRecord(a[1], a[2], a[3])
            /\ h' = Append(h, [k |-> "Record", op |-> a[1], g |-> a[2], hs |-> a[3], ret |-> Ret(NRec(h) + 1, a[1]),
                               lines |-> IF Ret(NRec(h) + 1, a[1]) = "err" THEN <<>> ELSE Lines(since, hint, a[1], a[2], a[3])])
       \/ /\ ncalls > 0 /\ DoInit /\ h' = Append(h, [k |-> "Init"])
    /\ ncalls' = ncalls + 1
    /\ ((Emit /\ (ncalls' = MaxCalls \/ Stopped')) => PrintT(ToJson([k |-> "printer", hint |-> hint, armed |-> armed, ev |-> h'])))

Spec == Init /\ [][Next]_pvars

(* ---- R1: what the machine means, stated on the whole history ---- *)
\* value lines printed by the calls of a history, in order, each with "it carried a heading"
RECURSIVE ValueLines(_)
ValueLines(q) ==
    IF q = <<>> THEN <<>>
    ELSE LET e == q[Len(q)]
             rest == ValueLines(SubSeq(q, 1, Len(q) - 1))
         IN IF e.k = "Init" THEN Append(rest, [mark |-> "Init"])
            ELSE IF e.lines = <<>> THEN rest
            ELSE Append(rest, [mark |-> "line", head |-> (e.lines[1].kind = "head"), post |-> (e.op = "post")])
\* index of the last Init mark / heading before position i
RECURSIVE LastStart(_, _)
LastStart(v, i) == IF i = 0 THEN 0
                   ELSE IF v[i].mark = "Init" \/ (v[i].mark = "line" /\ v[i].head) THEN i
                   ELSE LastStart(v, i - 1)
\* "a heading is printed again after HeadingInterval value lines": a line other than the PostIteration line
\* carries a heading iff it is the first since Init or at least HeadingInterval value lines (the heading's own
\* one included) lie behind the last heading; a printing call always prints exactly one value line
HeadingRule ==
    LET v == ValueLines(h) IN
    \A i \in 1 .. Len(v) :
        v[i].mark = "line" =>
            LET s == LastStart(v, i - 1) IN
            v[i].head <=> (~v[i].post /\ (s = 0 \/ v[s].mark = "Init" \/ i - s >= hint))
OneValueLine ==
    \A i \in 1 .. Len(h) : h[i].k = "Record" =>
        /\ (h[i].op \in Printing /\ h[i].ret = "nil") <=> (h[i].lines # <<>>)
        /\ \A j \in 1 .. Len(h[i].lines) : h[i].lines[j].cols = Cols(h[i].g, h[i].hs)
        /\ h[i].lines # <<>> => h[i].lines[Len(h[i].lines)].kind = "vals"
=============================================================================
