---------------------------- MODULE GraphSetTrace ----------------------------
(* R3: accepts an ndjson log of a real history of mutator calls on a gonum    *)
(* simple graph container iff it is a behaviour of GraphSet.  Every event      *)
(* carries the call, its outcome (ok / panic) and observations of the real     *)
(* container made after the call (node and edge counts, From/To of the touched *)
(* nodes, periodically the whole node and edge sets); the action is enabled    *)
(* only if the model's post-state gives the same observations.  Histories of   *)
(* several containers are concatenated with Reset events (map backed types) or *)
(* Construct events (dense types: the constructor call is part of the history).*)
EXTENDS GraphSet, TLCExt

TraceLog == ndJsonDeserialize("trace.ndjson")

VARIABLE l
tvars == <<nodes, edges, last, l>>

Rng(s) == {s[i] : i \in DOMAIN s}

Ev == TraceLog[l]

Observed(e) ==
    /\ last' = e.out
    /\ Cardinality(nodes') = e.nn
    /\ Cardinality(DOMAIN edges') = e.ne
    /\ \A i \in DOMAIN e.obs :
         /\ FromE(nodes', edges', e.obs[i].n) = Rng(e.obs[i].f)
         /\ ToE(nodes', edges', e.obs[i].n)   = Rng(e.obs[i].t)
         /\ (e.obs[i].n \in nodes') = e.obs[i].live

Call == /\ l <= Len(TraceLog) /\ Ev.op \notin {"Reset", "Check", "Construct"}
        /\ Do([op |-> Ev.op, u |-> Ev.u, v |-> Ev.v, w |-> Ev.w])
        /\ Observed(Ev)
        /\ l' = l + 1

Reset == /\ l <= Len(TraceLog) /\ Ev.op = "Reset"
         /\ nodes' = (IF Dense THEN 0 .. DenseN - 1 ELSE {})
         /\ edges' = <<>> /\ last' = "ok" /\ l' = l + 1

\* dense families: a history starts with the recorded constructor call(s).  New*MatrixFrom must panic
\* iff the ids of its node slice (in the order given: ord) are not 0..n-1 in some order; otherwise the
\* graph has the nodes 0..n-1 and no edges (init = absent) or all of them with weight init - whatever
\* the order of the slice was.
Construct ==
    /\ l <= Len(TraceLog) /\ Ev.op = "Construct"
    /\ IF Ev.kind = "from" /\ ~IsPerm(Ev.ord)
       THEN /\ Ev.out = "panic"
            /\ nodes' = {} /\ edges' = <<>> /\ last' = "panic"
       ELSE /\ Ev.out = "ok"
            /\ nodes' = 0 .. (Ev.n - 1)
            /\ edges' = CtorEdges(nodes', Ev.init)
            /\ last' = "ok"
            /\ Cardinality(nodes') = Ev.nn
            /\ Cardinality(DOMAIN edges') = Ev.ne
    /\ l' = l + 1

\* full comparison of the abstract state with a dump of the real container
Check == /\ l <= Len(TraceLog) /\ Ev.op = "Check"
         /\ nodes = Rng(Ev.nodes)
         /\ EdgeList = {<<t[1], t[2], t[3]>> : t \in Rng(Ev.edges)}
         /\ UNCHANGED <<nodes, edges, last>> /\ l' = l + 1

TraceInit == Init /\ l = 1
TraceNext == Call \/ Reset \/ Construct \/ Check
TraceSpec == TraceInit /\ [][TraceNext]_tvars

\* the model invariants are evaluated at every step of the real history
TraceInv == Closed /\ NoSelf /\ Canon   \* (the query-agreement theorems are checked in R1; too costly per step at 64 ids)

Accepted ==
    LET d == TLCGet("stats").diameter IN
    IF d - 1 = Len(TraceLog) THEN PrintT("TRACE-ACCEPTED " \o ToString(Len(TraceLog)))
    ELSE /\ PrintT("TRACE-REJECTED at event " \o ToString(d) \o ": " \o ToString(TraceLog[d]))
         /\ FALSE
=============================================================================
