--------------------------- MODULE IteratorProto ---------------------------
(***************************************************************************)
(* The iterator contract of gonum's graph package as a state machine.      *)
(*                                                                         *)
(* graph.Iterator (graph/nodes_edges.go) documents:                        *)
(*   Next   advances the iterator and returns whether the next call to the *)
(*          item method will return a valid item;                          *)
(*   Len    returns the number of items remaining in the iterator (it may  *)
(*          be negative only when the number is unknown - none of the      *)
(*          iterators of graph/iterator is of that kind);                  *)
(*   Reset  returns the iterator to its start position;                    *)
(* and the Slicer interfaces (NodeSlicer, EdgeSlicer, LineSlicer, ...):    *)
(*   XSlice returns the set of items remaining to be iterated; afterwards  *)
(*          nothing remains.                                               *)
(* Property C12 adds: each element is enumerated exactly once between two  *)
(* Resets, with a correct remaining Len and a working Reset.               *)
(*                                                                         *)
(* The helper functions NodesOf / EdgesOf / WeightedEdgesOf / LinesOf /    *)
(* WeightedLinesOf (same file) are a further operation on an iterator:     *)
(*   XOf(it) "returns it.Len() nodes from it. If it is a NodeSlicer, the   *)
(*          NodeSlice method is used to obtain the nodes. It is safe to    *)
(*          pass a nil Nodes" - applied to an iterator at its CURRENT      *)
(*          position it returns the items that remain (Len is "the number  *)
(*          of items remaining"), by the slice form or by calling Next     *)
(*          until it answers FALSE: nothing remains afterwards.  An        *)
(*          iterator whose Len is negative ("the number of items ... is    *)
(*          unknown", then "the consuming function must be able to operate *)
(*          on the items of the iterator directly") still has every        *)
(*          remaining item returned.                                       *)
(* Op "Of" (code 8; 6 and 7 are taken by EdgeValue.tla) is enabled when    *)
(* WithOf = TRUE.                                                          *)
(*                                                                         *)
(* State: the number pos of items handed out since the last Reset (by Next *)
(* or by the slice form) out of N, and whether a current item is readable. *)
(* WHICH item is handed out is left to the implementation (map backed      *)
(* iterators have no order); the harness checks that the items handed out  *)
(* since the last Reset are pairwise distinct members of the collection,   *)
(* and this module says HOW MANY there must be after every call - so at    *)
(* pos = N every element has been enumerated exactly once.                 *)
(*                                                                         *)
(* R1: TLC checks TypeOK / LenLaw on every history up to Depth calls.      *)
(* R2: every history of exactly Depth calls is printed with the answer the *)
(* contract demands for each call; the harness replays it into each of the *)
(* 21 iterator types of graph/iterator (default and safe builds).          *)
(***************************************************************************)
EXTENDS Integers, Sequences, TLC, Json

CONSTANTS MaxN,   \* collections of 0..MaxN items
          Depth,  \* calls per history
          Emit,   \* TRUE: print the histories (generator role)
          WithOf  \* TRUE: the helper XOf(it) is one of the calls, and only histories that call it are printed

VARIABLES n,      \* size of the collection
          pos,    \* items handed out since the last Reset
          valid,  \* the last call was a Next that returned TRUE
          hist    \* <<op, answer, pos after the call>>; op 1 Next 2 Len 3 Reset 4 Slice 5 Item 8 Of
vars == <<n, pos, valid, hist>>

Init == /\ n \in 0..MaxN
        /\ pos = 0
        /\ valid = FALSE
        /\ hist = <<>>

\* Next: TRUE and one more item while any remain; FALSE, and FALSE again, once exhausted.
DoNext == IF pos < n
          THEN /\ pos' = pos + 1 /\ valid' = TRUE  /\ hist' = Append(hist, <<1, 1, pos + 1>>)
          ELSE /\ pos' = pos     /\ valid' = FALSE /\ hist' = Append(hist, <<1, 0, pos>>)
\* Len: the number remaining; reading it changes nothing.
DoLen == /\ UNCHANGED <<pos, valid>> /\ hist' = Append(hist, <<2, n - pos, pos>>)
\* Reset: back to the start.
DoReset == /\ pos' = 0 /\ valid' = FALSE /\ hist' = Append(hist, <<3, 0, 0>>)
\* Slice form: hands out everything that remains (answer = how many), nothing remains afterwards.
DoSlice == /\ pos' = n /\ valid' = FALSE /\ hist' = Append(hist, <<4, n - pos, n>>)
\* Reading the current item is only specified after a Next that returned TRUE: it is the item
\* that Next handed out, however often it is read.
DoItem == /\ valid /\ UNCHANGED <<pos, valid>> /\ hist' = Append(hist, <<5, pos, pos>>)

\* XOf(it): hands out everything that remains (answer = how many), nothing remains afterwards; the
\* current item, if any, was handed out by Next and is not among them.
DoOf == /\ WithOf /\ pos' = n /\ valid' = FALSE /\ hist' = Append(hist, <<8, n - pos, n>>)

Next == /\ Len(hist) < Depth
        /\ UNCHANGED n
        /\ (DoNext \/ DoLen \/ DoReset \/ DoSlice \/ DoItem \/ DoOf)

Spec == Init /\ [][Next]_vars

TypeOK == /\ n \in 0..MaxN /\ pos \in 0..n /\ valid \in BOOLEAN
          /\ valid => pos > 0
\* the answers recorded for Len always complement the number handed out
LenLaw == \A i \in 1..Len(hist) : hist[i][1] = 2 => hist[i][2] = n - hist[i][3]
\* a FALSE from Next is only ever recorded at exhaustion and then Len answers 0
Exhausted == \A i \in 1..Len(hist) - 1 :
                (hist[i][1] = 1 /\ hist[i][2] = 0 /\ hist[i + 1][1] = 2) => hist[i + 1][2] = 0

\* XOf and the slice form hand out the same number of items from the same position, and leave the same
\* position: whatever follows an Of answers as it would after a Slice (Len 0, Next FALSE, Of 0 until Reset)
OfLaw == \A i \in 1..Len(hist) : hist[i][1] \in {4, 8} =>
            /\ hist[i][3] = n
            /\ hist[i][2] = n - (IF i = 1 THEN 0 ELSE hist[i - 1][3])
            /\ i < Len(hist) =>
                  /\ (hist[i + 1][1] \in {2, 4, 8} => hist[i + 1][2] = 0)
                  /\ (hist[i + 1][1] = 1 => hist[i + 1][2] = 0)
                  /\ hist[i + 1][1] # 5
HasOf == \E i \in 1..Len(hist) : hist[i][1] = 8

EmitHist == (Emit /\ Len(hist) = Depth /\ (WithOf => HasOf)) => PrintT(ToJson([n |-> n, h |-> hist]))
=============================================================================
