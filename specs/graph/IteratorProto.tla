--------------------------- MODULE IteratorProto ---------------------------
(***************************************************************************)
(* The iterator contract of gonum's graph package as a state machine.      *)
(*                                                                         *)
(* graph.Iterator (graph/nodes_edges.go) documents:                        *)
(*   Next   advances the iterator and returns whether the next call to the *)
(*          item method will return a valid item;                          *)
(*   Len    returns the number of items remaining in the iterator (it may  *)
(*          be negative only when the number is unknown - none of the      *)
(*          iterators of graph/iterator is of that kind);                  *)
(*   Reset  returns the iterator to its start position;                    *)
(* and the Slicer interfaces (NodeSlicer, EdgeSlicer, LineSlicer, ...):    *)
(*   XSlice returns the set of items remaining to be iterated; afterwards  *)
(*          nothing remains.                                               *)
(* Property C12 adds: each element is enumerated exactly once between two  *)
(* Resets, with a correct remaining Len and a working Reset.               *)
(*                                                                         *)
(* State: the number pos of items handed out since the last Reset (by Next *)
(* or by the slice form) out of N, and whether a current item is readable. *)
(* WHICH item is handed out is left to the implementation (map backed      *)
(* iterators have no order); the harness checks that the items handed out  *)
(* since the last Reset are pairwise distinct members of the collection,   *)
(* and this module says HOW MANY there must be after every call - so at    *)
(* pos = N every element has been enumerated exactly once.                 *)
(*                                                                         *)
(* R1: TLC checks TypeOK / LenLaw on every history up to Depth calls.      *)
(* R2: every history of exactly Depth calls is printed with the answer the *)
(* contract demands for each call; the harness replays it into each of the *)
(* 21 iterator types of graph/iterator (default and safe builds).          *)
(***************************************************************************)
EXTENDS Integers, Sequences, TLC, Json

CONSTANTS MaxN,   \* collections of 0..MaxN items
          Depth,  \* calls per history
          Emit    \* TRUE: print the histories (generator role)

VARIABLES n,      \* size of the collection
          pos,    \* items handed out since the last Reset
          valid,  \* the last call was a Next that returned TRUE
          hist    \* <<op, answer, pos after the call>>; op 1 Next 2 Len 3 Reset 4 Slice 5 Item
vars == <<n, pos, valid, hist>>

Init == /\ n \in 0..MaxN
        /\ pos = 0
        /\ valid = FALSE
        /\ hist = <<>>

\* Next: TRUE and one more item while any remain; FALSE, and FALSE again, once exhausted.
DoNext == IF pos < n
          THEN /\ pos' = pos + 1 /\ valid' = TRUE  /\ hist' = Append(hist, <<1, 1, pos + 1>>)
          ELSE /\ pos' = pos     /\ valid' = FALSE /\ hist' = Append(hist, <<1, 0, pos>>)
\* Len: the number remaining; reading it changes nothing.
DoLen == /\ UNCHANGED <<pos, valid>> /\ hist' = Append(hist, <<2, n - pos, pos>>)
\* Reset: back to the start.
DoReset == /\ pos' = 0 /\ valid' = FALSE /\ hist' = Append(hist, <<3, 0, 0>>)
\* Slice form: hands out everything that remains (answer = how many), nothing remains afterwards.
DoSlice == /\ pos' = n /\ valid' = FALSE /\ hist' = Append(hist, <<4, n - pos, n>>)
\* Reading the current item is only specified after a Next that returned TRUE: it is the item
\* that Next handed out, however often it is read.
DoItem == /\ valid /\ UNCHANGED <<pos, valid>> /\ hist' = Append(hist, <<5, pos, pos>>)

Next == /\ Len(hist) < Depth
        /\ UNCHANGED n
        /\ (DoNext \/ DoLen \/ DoReset \/ DoSlice \/ DoItem)

Spec == Init /\ [][Next]_vars

TypeOK == /\ n \in 0..MaxN /\ pos \in 0..n /\ valid \in BOOLEAN
          /\ valid => pos > 0
\* the answers recorded for Len always complement the number handed out
LenLaw == \A i \in 1..Len(hist) : hist[i][1] = 2 => hist[i][2] = n - hist[i][3]
\* a FALSE from Next is only ever recorded at exhaustion and then Len answers 0
Exhausted == \A i \in 1..Len(hist) - 1 :
                (hist[i][1] = 1 /\ hist[i][2] = 0 /\ hist[i + 1][1] = 2) => hist[i + 1][2] = 0

EmitHist == (Emit /\ Len(hist) = Depth) => PrintT(ToJson([n |-> n, h |-> hist]))
=============================================================================
