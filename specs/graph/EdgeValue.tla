----------------------------- MODULE EdgeValue -----------------------------
(***************************************************************************)
(* The edge VALUE a multigraph hands out (multi.Edge, multi.WeightedEdge)  *)
(* as a state machine: two end points and an EMBEDDED line iterator, which *)
(* obeys the iterator contract of IteratorProto.tla, plus - for the        *)
(* weighted value - Weight() and ReversedEdge().                           *)
(*                                                                         *)
(* graph/multi/multi.go documents:                                         *)
(*   WeightedEdge.WeightFunc "calculates the aggregate weight of the lines *)
(*     ... If WeightFunc is nil, the sum of weights is used as the edge    *)
(*     weight. The graph.WeightedLines can be expected to be positioned at *)
(*     the first line of the iterator on entry and must be Reset before    *)
(*     exit."                                                              *)
(*   Weight "uses WeightFunc field to calculate the weight, so the         *)
(*     WeightedLines field is expected to be positioned at the first line  *)
(*     and is reset before Weight returns."                                *)
(*   ReversedEdge "returns a new Edge with the F and T fields swapped. The *)
(*     Lines within the WeightedEdge are not altered."                     *)
(*                                                                         *)
(* So: Weight() called on a value whose iterator is at its start (pos = 0) *)
(* answers the aggregate of ALL n lines - their sum (nil WeightFunc), or   *)
(* what the custom function returns when handed an iterator over all n     *)
(* lines - and whatever the position was, the iterator is at its start     *)
(* again when Weight returns: Weight, Weight answers the same twice; Len   *)
(* after Weight is n; a partial iteration followed by Weight is followed   *)
(* by a full iteration.  When the iterator is NOT at its start the         *)
(* precondition is broken and the answer is left open (recorded as -1).    *)
(* ReversedEdge changes neither the lines nor the position.                *)
(*                                                                         *)
(* History entries are <<op, answer, pos after the call>> with the op      *)
(* codes of IteratorProto (1 Next 2 Len 3 Reset 4 Slice 5 Item) and        *)
(*   6 Weight        answer Total if the call was made at pos = 0, else -1 *)
(*   7 ReversedEdge  answer: Weight() of the reversed value, see DoRev     *)
(* Line i of the value (i in 1..n) has weight LineW[i]: every line handed  *)
(* out must be one of them, with that weight.  (The line VALUES and their  *)
(* ReversedLine are specified in GraphMulti.tla and compared in its tour.) *)
(*                                                                         *)
(* R1: TLC checks the laws below on every history up to Depth calls.       *)
(* R2: every history of exactly Depth calls is printed; the harness builds *)
(* a multigraph whose pair is joined by exactly those n lines (also after  *)
(* removing further lines), obtains the value from Edge / WeightedEdge /   *)
(* EdgeBetween / WeightedEdgeBetween / the Edges() and WeightedEdges()     *)
(* iterators, with a nil and with a custom EdgeWeightFunc, and replays the *)
(* history on it.                                                          *)
(***************************************************************************)
EXTENDS IteratorProto

LineW == <<1, 2, 4>>          \* distinct powers of two: every subset has its own sum

RECURSIVE Sum(_)
Sum(k) == IF k = 0 THEN 0 ELSE LineW[k] + Sum(k - 1)
Total == Sum(n)

\* Weight: aggregate of all the lines when called at the start position; the iterator is back at
\* its start afterwards in every case.
DoWeight == /\ pos' = 0 /\ valid' = FALSE
            /\ hist' = Append(hist, <<6, IF pos = 0 THEN Total ELSE -1, 0>>)
\* ReversedEdge: a value with the ends swapped and the same lines; nothing else changes.  The answer
\* recorded is the Weight() the REVERSED value must give if it is asked right now (asked at the start
\* position it is the aggregate of all the lines, and the position is the start again afterwards,
\* whether or not the two values share their iterator); -1: left open.
DoRev == /\ UNCHANGED <<pos, valid>>
         /\ hist' = Append(hist, <<7, IF pos = 0 THEN Total ELSE -1, pos>>)

ENext == /\ Len(hist) < Depth
         /\ UNCHANGED n
         /\ (DoNext \/ DoLen \/ DoReset \/ DoSlice \/ DoItem \/ DoWeight \/ DoRev)

EInit == Init /\ n >= 1       \* an edge value exists only for a joined pair
ESpec == EInit /\ [][ENext]_vars

\* Weight leaves the iterator at its start: the next Len answers n, the next Weight the total
WeightResets == \A i \in 1 .. Len(hist) - 1 : hist[i][1] = 6 =>
                   /\ hist[i][3] = 0
                   /\ (hist[i + 1][1] = 2 => hist[i + 1][2] = n)
                   /\ (hist[i + 1][1] = 6 => hist[i + 1][2] = Total)
\* an answer is left open only when lines had been handed out and no Reset / Weight came since
OpenOnlyOffStart == \A i \in 1 .. Len(hist) : (hist[i][1] = 6 /\ hist[i][2] = -1) =>
                       i > 1 /\ hist[i - 1][3] > 0
\* ReversedEdge does not move the iterator
RevKeeps == \A i \in 2 .. Len(hist) : hist[i][1] = 7 => hist[i][3] = hist[i - 1][3]

EEmitHist == (Emit /\ Len(hist) = Depth) =>
                PrintT(ToJson([n |-> n, ws |-> SubSeq(LineW, 1, n), total |-> Total, h |-> hist]))
=============================================================================
