SPECIFICATION DSpec
CONSTANTS
  IDs = @IDS@
  Directed = @DIRECTED@
  Weights = @WEIGHTS@
  DenseN = @DENSEN@
  AbsentW = @ABSENT@
  Emit = @EMIT@
  PlainNs = @PLAINNS@
  OrderN = @ORDERN@
  Selfs = @SELFS@
  Payloads = @PAYLOADS@
INVARIANTS TypeOK Closed NoSelf Canon Mirror Symm Between WeightOK DenseNoAbsent RevLaw ViewBase ViewUndirect ViewWeight ViewComplement DTypeOK Contiguous Unbuilt PlainObj DEmitState
PROPERTIES DPanicLeavesUnchanged
VIEW DView
CHECK_DEADLOCK FALSE
