SPECIFICATION Spec
CONSTANTS
  Max = @MAX@
  IdDom <- TLCIds
INVARIANTS IndInv FreshID FreshIDAll NoScanPanic
CHECK_DEADLOCK FALSE
